import PynGen.NpzKeys
import PynGen.UnitSites

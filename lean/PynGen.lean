import PynGen.NpzKeys
import PynGen.UnitSites
import PynGen.InplaceSites

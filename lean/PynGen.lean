import PynGen.NpzKeys

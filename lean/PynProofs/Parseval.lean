import Mathlib.Analysis.Fourier.ZMod
/-!
# Parseval's identity for the N-point DFT (the one heavy import of the project; nothing else imports it)
`ZMod.dft Φ k = Σ_j e^{-2πi jk/N} Φ j` is exactly `np.fft.fft` (`ZMod.dft_apply`, `ZMod.stdAddChar`).
-/
namespace Pyn.Parseval
open ZMod Finset

theorem dft_parseval_complex {N : ℕ} [NeZero N] (Φ : ZMod N → ℂ) :
    ∑ k, 𝓕 Φ k * starRingEnd ℂ (𝓕 Φ k) = (N : ℂ) * ∑ j, Φ j * starRingEnd ℂ (Φ j) := by
  have hconj : ∀ k, starRingEnd ℂ (𝓕 Φ k) = ∑ l, stdAddChar (l * k) * starRingEnd ℂ (Φ l) := by
    intro k
    rw [dft_apply, map_sum]
    refine sum_congr rfl fun l _ => ?_
    rw [smul_eq_mul, map_mul, ← AddChar.map_neg_eq_conj, neg_neg]
  calc ∑ k, 𝓕 Φ k * starRingEnd ℂ (𝓕 Φ k)
      = ∑ k, ∑ j, ∑ l, (Φ j * starRingEnd ℂ (Φ l)) * stdAddChar (k * (l - j)) := by
        refine sum_congr rfl fun k _ => ?_
        rw [hconj, dft_apply, sum_mul_sum]
        refine sum_congr rfl fun j _ => sum_congr rfl fun l _ => ?_
        rw [smul_eq_mul]
        have : stdAddChar (k * (l - j)) = stdAddChar (-(j*k)) * stdAddChar (l * k) := by
          rw [← AddChar.map_add_eq_mul]; congr 1; ring
        rw [this]; ring
    _ = ∑ j, ∑ l, (Φ j * starRingEnd ℂ (Φ l)) * ∑ k, stdAddChar (k * (l - j)) := by
        rw [sum_comm]; refine sum_congr rfl fun j _ => ?_
        rw [sum_comm]; refine sum_congr rfl fun l _ => ?_
        rw [mul_sum]
    _ = ∑ j, ∑ l, (Φ j * starRingEnd ℂ (Φ l)) * (if l - j = 0 then (N:ℂ) else 0) := by
        refine sum_congr rfl fun j _ => sum_congr rfl fun l _ => ?_
        rw [AddChar.sum_mulShift _ (isPrimitive_stdAddChar N)]
        simp [ZMod.card]
    _ = (N:ℂ) * ∑ j, Φ j * starRingEnd ℂ (Φ j) := by
        rw [mul_sum]; refine sum_congr rfl fun j _ => ?_
        rw [sum_eq_single j]
        · simp; ring
        · intro l _ hlj
          have : l - j ≠ 0 := sub_ne_zero.mpr hlj
          simp [this]
        · intro h; exact absurd (mem_univ j) h

/-- **Parseval** for the N-point DFT: `Σ_k |X_k|² = N · Σ_j |x_j|²` -/
theorem dft_parseval {N : ℕ} [NeZero N] (Φ : ZMod N → ℂ) :
    ∑ k, ‖𝓕 Φ k‖ ^ 2 = (N : ℝ) * ∑ j, ‖Φ j‖ ^ 2 := by
  have h := dft_parseval_complex Φ
  have e : ∀ z : ℂ, z * starRingEnd ℂ z = ((‖z‖ ^ 2 : ℝ) : ℂ) := by
    intro z; rw [Complex.mul_conj, Complex.normSq_eq_norm_sq]
  simp only [e] at h
  exact_mod_cast h


/-- **PSD scaling**: with `psd_k = |X_k|² / (fs·N)` (the code's `1/(fs*n) * abs(fft)**2`), the full-range
PSD summed times the frequency step `fs/N` is the mean square of the N-point signal -/
theorem psd_sum_is_mean_square {N : ℕ} [NeZero N] (Φ : ZMod N → ℂ) (fs : ℝ) (hfs : fs ≠ 0) :
    (∑ k, ‖𝓕 Φ k‖ ^ 2 / (fs * N)) * (fs / N) = (∑ j, ‖Φ j‖ ^ 2) / N := by
  have hN : (N : ℝ) ≠ 0 := Nat.cast_ne_zero.mpr (NeZero.ne N)
  rw [← Finset.sum_div, dft_parseval]
  field_simp

end Pyn.Parseval

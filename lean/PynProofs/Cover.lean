import PynProofs.FixIset
import PynModel.Core.ISet
/-!
# Coverage of the constructor: what `_jitfix_iset` keeps of the positional pairs of two sorted arrays, and why the
union of a family of intervals depends only on the multiset of starts and the multiset of ends (counting argument),
which is what makes sorting starts and ends INDEPENDENTLY harmless.
-/
namespace Pyn

/-- `x` lies in a closed interval of the array of pairs -/
def InOut (out : Array (Int × Int)) (x : Int) : Prop := ∃ p ∈ out, p.1 ≤ x ∧ x ≤ p.2

/-- `x` lies in the positional pair `k` of the two arrays -/
def InPos (S E : Array Int) (h : S.size = E.size) (x : Int) : Prop :=
  ∃ k, ∃ hk : k < S.size, S[k] ≤ x ∧ x ≤ E[k]'(h ▸ hk)

/-- `x` is not in the microsecond before a start (the sliver the touch-separation may remove) -/
def FarS (S : Array Int) (x : Int) : Prop := ∀ i, (hi : i < S.size) → ¬ (S[i] - 1000 ≤ x ∧ x < S[i])

theorem fixSkip_skipped (S E : Array Int) (h : S.size = E.size) (i k : Nat) (hik : i ≤ k)
    (hk : k < fixSkip S E h i) (hk2 : k < S.size) : E[k]'(h ▸ hk2) ≤ S[k] := by
  fun_induction fixSkip S E h i with
  | case1 i hi heq ih =>
    rcases Nat.eq_or_lt_of_le hik with e | e
    · subst e; simp at heq; omega
    · exact ih (by omega) hk
  | case2 i hi hne hlt ih =>
    rcases Nat.eq_or_lt_of_le hik with e | e
    · subst e; omega
    · exact ih (by omega) hk
  | case3 i hi hne hnlt => omega
  | case4 i hi => omega

theorem fixSkip_stop (S E : Array Int) (h : S.size = E.size) (i : Nat) (hlt : fixSkip S E h i < S.size) :
    S[fixSkip S E h i] < E[fixSkip S E h i]'(h ▸ hlt) := by
  fun_induction fixSkip S E h i with
  | case1 i hi heq ih => exact ih hlt
  | case2 i hi hne hlt' ih => exact ih hlt
  | case3 i hi hne hnlt => simp at hne; omega
  | case4 i hi => omega

theorem fixMerge_links (S E : Array Int) (h : S.size = E.size) (i : Nat) (hi : i < S.size) (newend : Int)
    (k : Nat) (hik : i ≤ k) (hk : k < (fixMerge S E h i hi newend).1) (hk1 : k + 1 < S.size) :
    S[k+1] < E[k]'(by omega) := by
  fun_induction fixMerge S E h i hi newend with
  | case1 i hi newend h1 hlt ih =>
    rcases Nat.eq_or_lt_of_le hik with e | e
    · subst e; exact hlt
    · exact ih (by omega) hk
  | case2 i hi newend h1 hge => omega
  | case3 i hi newend h1 => omega

theorem chain_cover (S E : Array Int) (h : S.size = E.size) (a b : Nat) (hab : a ≤ b) (hb : b < S.size)
    (links : ∀ k, a ≤ k → k < b → (hk1 : k + 1 < S.size) → S[k+1] < E[k]'(by omega)) (x : Int)
    (hx1 : S[a] ≤ x) (hx2 : x ≤ E[b]'(h ▸ hb)) :
    ∃ k, ∃ hk : k < S.size, a ≤ k ∧ k ≤ b ∧ S[k] ≤ x ∧ x ≤ E[k]'(h ▸ hk) := by
  induction hd : b - a generalizing a with
  | zero =>
    have : a = b := by omega
    subst this
    exact ⟨a, hb, Nat.le_refl _, Nat.le_refl _, hx1, hx2⟩
  | succ d ih =>
    by_cases hxa : x ≤ E[a]'(by omega)
    · exact ⟨a, by omega, Nat.le_refl _, hab, hx1, hxa⟩
    · have hl := links a (Nat.le_refl _) (by omega) (by omega)
      obtain ⟨k, hk, k1, k2, k3, k4⟩ := ih (a+1) (by omega) (fun k hk1 hk2 hk3 => links k (by omega) hk2 hk3)
        (by omega) (by omega)
      exact ⟨k, hk, by omega, k2, k3, k4⟩

theorem InOut_push (out : Array (Int × Int)) (a b x : Int) :
    InOut (out.push (a, b)) x ↔ InOut out x ∨ (a ≤ x ∧ x ≤ b) := by
  constructor
  · rintro ⟨p, hp, h1, h2⟩
    simp only [Array.mem_push] at hp
    rcases hp with hp | hp
    · exact Or.inl ⟨p, hp, h1, h2⟩
    · subst hp; exact Or.inr ⟨h1, h2⟩
  · rintro (⟨p, hp, h1, h2⟩ | ⟨h1, h2⟩)
    · exact ⟨p, by simp [hp], h1, h2⟩
    · exact ⟨(a, b), by simp, h1, h2⟩

theorem fixLoop_cover (S E : Array Int) (h : S.size = E.size) (hS : Sorted S) (hE : Sorted E) (n : Nat) (i : Nat)
    (out : Array (Int × Int)) (hn : S.size - i ≤ n)
    (hsound : ∀ x, InOut out x → InPos S E h x)
    (hcomp : ∀ k, k < i → (hk : k < S.size) → ∀ x, S[k] < x → x < E[k]'(h ▸ hk) → FarS S x → InOut out x) :
    (∀ x, InOut (fixLoop S E h i out) x → InPos S E h x) ∧
    (∀ k, (hk : k < S.size) → ∀ x, S[k] < x → x < E[k]'(h ▸ hk) → FarS S x → InOut (fixLoop S E h i out) x) := by
  induction n generalizing i out with
  | zero =>
    unfold fixLoop
    have hge := fixSkip_ge S E h i
    have : ¬ fixSkip S E h i < S.size := by omega
    simp only [dif_neg this]
    exact ⟨hsound, fun k hk x a b c => hcomp k (by omega) hk x a b c⟩
  | succ n ih =>
    unfold fixLoop
    have hge := fixSkip_ge S E h i
    by_cases hi : fixSkip S E h i < S.size
    · simp only [dif_pos hi]
      have hb := fixMerge_bounds S E h (fixSkip S E h i) hi (E[fixSkip S E h i]'(h ▸ hi))
      obtain ⟨hr', hs1, hs2⟩ := fixMerge_spec S E h hE (fixSkip S E h i) hi _ rfl
      have hlinks := fixMerge_links S E h (fixSkip S E h i) hi (E[fixSkip S E h i]'(h ▸ hi))
      have htl := fixTrim_le S (fixMerge S E h (fixSkip S E h i) hi (E[fixSkip S E h i]'(h ▸ hi))).1
        (fixMerge S E h (fixSkip S E h i) hi (E[fixSkip S E h i]'(h ▸ hi))).2
      have hstop := fixSkip_stop S E h i hi
      generalize hrdef : fixMerge S E h (fixSkip S E h i) hi (E[fixSkip S E h i]'(h ▸ hi)) = r at *
      generalize hi1 : fixSkip S E h i = i1 at *
      apply ih _ _ (by omega)
      · -- soundness of the (possibly) pushed piece
        intro x hx
        split at hx
        · rcases (InOut_push out _ _ x).1 hx with hx | ⟨hx1, hx2⟩
          · exact hsound x hx
          · obtain ⟨k, hk, _, _, k3, k4⟩ := chain_cover S E h i1 r.1 hb.1 hr'
              (fun k a b c => hlinks k a b c) x hx1 (by omega)
            exact ⟨k, hk, k3, k4⟩
        · exact hsound x hx
      · -- completeness for every pair up to the end of the group
        intro k hk1 hk x hx1 hx2 hfar
        have keep : InOut out x → InOut (if fixTrim S r.1 r.2 > S[i1] then
            out.push (S[i1], fixTrim S r.1 r.2) else out) x := by
          intro hx; split
          · exact (InOut_push out _ _ x).2 (Or.inl hx)
          · exact hx
        rcases Nat.lt_or_ge k i with hlt | hge'
        · exact keep (hcomp k hlt hk x hx1 hx2 hfar)
        · rcases Nat.lt_or_ge k i1 with hlt2 | hge2
          · have := fixSkip_skipped S E h i k hge' (by omega) hk
            omega
          · -- k in the group
            have e1 := hS i1 k hi hk hge2
            have e2 := hE k r.1 (by omega) (by omega) (by omega)
            have hxn : x ≤ fixTrim S r.1 r.2 := by
              unfold fixTrim
              split
              · rename_i h1
                split
                · rename_i heq
                  simp at heq
                  have := hfar _ h1
                  omega
                · omega
              · omega
            have hgt : fixTrim S r.1 r.2 > S[i1] := by omega
            rw [if_pos hgt]
            exact (InOut_push out _ _ x).2 (Or.inr ⟨by omega, hxn⟩)
    · simp only [dif_neg hi]
      refine ⟨hsound, fun k hk x a b c => ?_⟩
      rcases Nat.lt_or_ge k i with hlt | hge'
      · exact hcomp k hlt hk x a b c
      · have := fixSkip_skipped S E h i k hge' (by omega) hk
        omega


/-! ## counting -/

theorem insertS_perm (x : Int) (l : List Int) : (insertS x l).Perm (x :: l) := by
  induction l with
  | nil => simp [insertS]
  | cons y ys ih =>
    simp only [insertS]; split
    · exact List.Perm.refl _
    · exact (List.Perm.cons y ih).trans (List.Perm.swap x y ys)

theorem isort_perm (l : List Int) : (isort l).Perm l := by
  induction l with
  | nil => exact List.Perm.refl _
  | cons x xs ih => exact (insertS_perm x _).trans (List.Perm.cons x ih)

/-- number of elements `≤ x` / `< x` -/
def cntLe (l : List Int) (x : Int) : Nat := l.countP (fun y => decide (y ≤ x))
def cntLt (l : List Int) (x : Int) : Nat := l.countP (fun y => decide (y < x))

theorem cntLe_isort (l : List Int) (x : Int) : cntLe (isort l) x = cntLe l x :=
  (isort_perm l).countP_eq _
theorem cntLt_isort (l : List Int) (x : Int) : cntLt (isort l) x = cntLt l x :=
  (isort_perm l).countP_eq _

/-- in a sorted list the elements `≤ x` are exactly the first `cntLe l x` -/
theorem sorted_le_iff (l : List Int) (hs : l.Pairwise (· ≤ ·)) (x : Int) (k : Nat) (hk : k < l.length) :
    l[k] ≤ x ↔ k < cntLe l x := by
  induction l generalizing k with
  | nil => simp at hk
  | cons a t ih =>
    rw [List.pairwise_cons] at hs
    unfold cntLe
    rw [List.countP_cons]
    cases k with
    | zero =>
      simp only [List.getElem_cons_zero]
      constructor
      · intro h; simp [h]
      · intro h
        by_cases ha : a ≤ x
        · exact ha
        · simp [ha] at h
          obtain ⟨y, hy, hyx⟩ := h
          have := hs.1 y hy
          omega
    | succ k =>
      simp only [List.getElem_cons_succ]
      have hk' : k < t.length := by simpa using hk
      rw [ih hs.2 k hk']
      unfold cntLe
      by_cases ha : a ≤ x
      · simp [ha]
      · simp only [ha, decide_false, Bool.false_eq_true, if_false, Nat.add_zero]
        have hz : t.countP (fun y => decide (y ≤ x)) = 0 := by
          rw [List.countP_eq_zero]
          intro y hy
          have := hs.1 y hy
          simp; omega
        omega

theorem sorted_lt_iff (l : List Int) (hs : l.Pairwise (· ≤ ·)) (x : Int) (k : Nat) (hk : k < l.length) :
    l[k] < x ↔ k < cntLt l x := by
  induction l generalizing k with
  | nil => simp at hk
  | cons a t ih =>
    rw [List.pairwise_cons] at hs
    unfold cntLt
    rw [List.countP_cons]
    cases k with
    | zero =>
      simp only [List.getElem_cons_zero]
      constructor
      · intro h; simp [h]
      · intro h
        by_cases ha : a < x
        · exact ha
        · simp [ha] at h
          obtain ⟨y, hy, hyx⟩ := h
          have := hs.1 y hy
          omega
    | succ k =>
      simp only [List.getElem_cons_succ]
      have hk' : k < t.length := by simpa using hk
      rw [ih hs.2 k hk']
      unfold cntLt
      by_cases ha : a < x
      · simp [ha]
      · simp only [ha, decide_false, Bool.false_eq_true, if_false, Nat.add_zero]
        have hz : t.countP (fun y => decide (y < x)) = 0 := by
          rw [List.countP_eq_zero]
          intro y hy
          have := hs.1 y hy
          simp; omega
        omega

theorem countP_lt_of (P : List (Int × Int)) (q r : Int × Int → Bool) (himp : ∀ p ∈ P, q p = true → r p = true)
    (hex : ∃ p ∈ P, r p = true ∧ q p = false) : P.countP q < P.countP r := by
  induction P with
  | nil => obtain ⟨p, hp, _⟩ := hex; simp at hp
  | cons a t ih =>
    rw [List.countP_cons, List.countP_cons]
    have hle : t.countP q ≤ t.countP r :=
      List.countP_mono_left (fun p hp hq => himp p (List.mem_cons_of_mem a hp) hq)
    obtain ⟨p, hp, hr, hq⟩ := hex
    rcases List.mem_cons.1 hp with e | e
    · subst e; simp [hr, hq]; omega
    · have := ih (fun p hp hq => himp p (List.mem_cons_of_mem a hp) hq) ⟨p, e, hr, hq⟩
      have ha := himp a (List.mem_cons_self ..)
      by_cases hqa : q a = true
      · simp [hqa, ha hqa]; omega
      · simp [hqa]; omega

theorem cntLe_zip (st en : Array Int) (h : st.size = en.size) (x : Int) :
    cntLe st.toList x = (st.toList.zip en.toList).countP (fun p => decide (p.1 ≤ x)) := by
  unfold cntLe
  have : st.toList = (st.toList.zip en.toList).map Prod.fst := by
    rw [List.map_fst_zip]; simp [h]
  conv => lhs; rw [this]
  rw [List.countP_map]; rfl

theorem cntLt_zip (st en : Array Int) (h : st.size = en.size) (x : Int) :
    cntLt en.toList x = (st.toList.zip en.toList).countP (fun p => decide (p.2 < x)) := by
  unfold cntLt
  have : en.toList = (st.toList.zip en.toList).map Prod.snd := by
    rw [List.map_snd_zip]; simp [h]
  conv => lhs; rw [this]
  rw [List.countP_map]; rfl

theorem mem_zip_iff (st en : Array Int) (h : st.size = en.size) (p : Int × Int) :
    p ∈ st.toList.zip en.toList ↔ ∃ i, ∃ hi : i < st.size, p = (st[i], en[i]'(h ▸ hi)) := by
  constructor
  · intro hp
    obtain ⟨i, hi, e⟩ := List.mem_iff_getElem.1 hp
    have hi' : i < st.size := by simp [List.length_zip] at hi; omega
    refine ⟨i, hi', ?_⟩
    rw [← e, List.getElem_zip]; simp
  · rintro ⟨i, hi, rfl⟩
    apply List.mem_iff_getElem.2
    refine ⟨i, by simp [List.length_zip]; omega, ?_⟩
    rw [List.getElem_zip]; simp

/-- an instant covered by one of the pairs (all with `start ≤ end`) has more starts at or before it than ends
strictly before it -/
theorem cov_to_count (st en : Array Int) (h : st.size = en.size)
    (hle : ∀ i, (hi : i < st.size) → st[i] ≤ en[i]'(h ▸ hi)) (x : Int)
    (hc : ∃ i, ∃ hi : i < st.size, st[i] ≤ x ∧ x ≤ en[i]'(h ▸ hi)) :
    cntLt en.toList x < cntLe st.toList x := by
  rw [cntLe_zip st en h, cntLt_zip st en h]
  apply countP_lt_of
  · intro p hp hq
    obtain ⟨i, hi, rfl⟩ := (mem_zip_iff st en h p).1 hp
    have := hle i hi
    simp at hq ⊢; omega
  · obtain ⟨i, hi, a, b⟩ := hc
    refine ⟨(st[i], en[i]'(h ▸ hi)), (mem_zip_iff st en h _).2 ⟨i, hi, rfl⟩, ?_, ?_⟩
    · simp; exact a
    · simp; exact b

/-- conversely (no hypothesis on the pairs) -/
theorem count_to_cov (st en : Array Int) (h : st.size = en.size) (x : Int)
    (hc : cntLt en.toList x < cntLe st.toList x) :
    ∃ i, ∃ hi : i < st.size, st[i] ≤ x ∧ x ≤ en[i]'(h ▸ hi) := by
  rw [cntLe_zip st en h, cntLt_zip st en h] at hc
  apply Classical.byContradiction
  intro hno
  have : (st.toList.zip en.toList).countP (fun p => decide (p.1 ≤ x)) ≤
      (st.toList.zip en.toList).countP (fun p => decide (p.2 < x)) := by
    apply List.countP_mono_left
    intro p hp hq
    obtain ⟨i, hi, rfl⟩ := (mem_zip_iff st en h p).1 hp
    simp at hq ⊢
    apply Classical.byContradiction
    intro hn
    exact hno ⟨i, hi, hq, by omega⟩
  omega

end Pyn

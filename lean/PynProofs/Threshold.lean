import PynModel.Kernels.Threshold
import PynProofs.SetOps
/-!
# `jitthreshold` (as repaired): the scan refines a push-based reference, whose invariants give the two halves of C07 for
threshold — the new support is exactly the kept samples (`threshold_cover`) and lies inside the old one
(`threshold_inside`).
-/
namespace Pyn

/-- `x` lies in one of the closed intervals `[S[k], E[k]]` -/
def ClosedV (S E : Array Int) (x : Int) : Prop :=
  ∃ k, ∃ hk : k < E.size, ∃ hk2 : k < S.size, S[k] ≤ x ∧ x ≤ E[k]
/-- … or at/after the start of the interval still open at the end of `S` -/
def OpenV (S E : Array Int) (x : Int) : Prop :=
  S.size = E.size + 1 ∧ ∃ h : S.size - 1 < S.size, S[S.size - 1] ≤ x

theorem closedV_push_s (S E : Array Int) (v x : Int) (hsz : S.size = E.size) :
    ClosedV (S.push v) E x ↔ ClosedV S E x := by
  constructor
  · rintro ⟨k, hk, hk2, a, b⟩
    have hks : k < S.size := by omega
    exact ⟨k, hk, hks, by simpa [Array.getElem_push_lt hks] using a, b⟩
  · rintro ⟨k, hk, hk2, a, b⟩
    exact ⟨k, hk, by simp; omega, by simpa [Array.getElem_push_lt hk2] using a, b⟩

theorem openV_push_s (S E : Array Int) (v x : Int) (hsz : S.size = E.size) :
    OpenV (S.push v) E x ↔ v ≤ x := by
  constructor
  · rintro ⟨_, h, a⟩
    simpa using a
  · intro h
    exact ⟨by simp [hsz], by simp, by simpa using h⟩

theorem closedV_push_e (S E : Array Int) (q x : Int) (hsz : S.size = E.size + 1) :
    ClosedV S (E.push q) x ↔ ClosedV S E x ∨ (S[E.size]'(by omega) ≤ x ∧ x ≤ q) := by
  constructor
  · rintro ⟨k, hk, hk2, a, b⟩
    simp only [Array.size_push] at hk
    rcases Nat.lt_or_ge k E.size with h | h
    · exact Or.inl ⟨k, h, hk2, a, by simpa [Array.getElem_push_lt h] using b⟩
    · have : k = E.size := by omega
      subst this
      exact Or.inr ⟨a, by simpa using b⟩
  · rintro (⟨k, hk, hk2, a, b⟩ | ⟨a, b⟩)
    · exact ⟨k, by simp; omega, hk2, a, by simpa [Array.getElem_push_lt hk] using b⟩
    · exact ⟨E.size, by simp, by omega, a, by simpa using b⟩

theorem not_openV_of_eq (S E : Array Int) (x : Int) (hsz : S.size = E.size) : ¬ OpenV S E x := by
  rintro ⟨h, _⟩; omega

theorem not_openV_push_e (S E : Array Int) (q x : Int) (hsz : S.size = E.size + 1) : ¬ OpenV S (E.push q) x := by
  rintro ⟨h, _⟩; simp at h; omega

theorem openV_iff_last (S E : Array Int) (x : Int) (hsz : S.size = E.size + 1) :
    OpenV S E x ↔ S[E.size]'(by omega) ≤ x := by
  have e : S.size - 1 = E.size := by omega
  constructor
  · rintro ⟨_, h, a⟩; simpa [e] using a
  · intro h; exact ⟨hsz, by omega, by simpa [e] using h⟩

/-- strictly increasing timestamps -/
def StrictInc (ts : Array Int) : Prop := ∀ i, (h : i + 1 < ts.size) → ts[i] < ts[i+1]

theorem strictInc_lt (ts : Array Int) (hs : StrictInc ts) (i j : Nat) (hij : i < j) (hj : j < ts.size) :
    ts[i]'(by omega) < ts[j] := by
  induction j with
  | zero => omega
  | succ j ih =>
    rcases Nat.eq_or_lt_of_le (Nat.le_of_lt_succ hij) with e | e
    · subst e; exact hs i hj
    · have := ih e (by omega); have := hs j hj; omega

theorem strictInc_le (ts : Array Int) (hs : StrictInc ts) (i j : Nat) (hij : i ≤ j) (hj : j < ts.size) :
    ts[i]'(by omega) ≤ ts[j] := by
  rcases Nat.eq_or_lt_of_le hij with e | e
  · subst e; exact Int.le_refl _
  · exact Int.le_of_lt (strictInc_lt ts hs i j e hj)

/-- invariant of the scan after samples `0 .. t-1` (doubled time values) -/
def CovV (ts : Array Int) (ix : Array Bool) (t : Nat) (S E : Array Int) : Prop :=
  ∃ ht : t - 1 < ts.size, ∃ hi : t - 1 < ix.size,
  S.size = E.size + (if ix[t-1] = true then 1 else 0) ∧
  (∀ k, (hk : k < E.size) → E[k] < 2 * ts[t-1]) ∧
  (∀ k, (hk : k < S.size) → S[k] ≤ 2 * ts[t-1]) ∧
  (∀ i, (h1 : i < ts.size) → (h2 : i < ix.size) → i < t →
    (ix[i] = true ↔ (ClosedV S E (2 * ts[i]) ∨ OpenV S E (2 * ts[i]))))

theorem step_keep (ts : Array Int) (ix : Array Bool) (hs : StrictInc ts) (t : Nat) (ht1 : 1 ≤ t) (htn : t < ts.size)
    (hti : t < ix.size) (S E : Array Int) (h : CovV ts ix t S E) (heq : ix[t] = ix[t-1]'(by omega)) :
    CovV ts ix (t+1) S E := by
  obtain ⟨ht, hi, hsz, bE, bS, cov⟩ := h
  have hlt : ts[t-1] < ts[t] := strictInc_lt ts hs (t-1) t (by omega) htn
  refine ⟨by simpa using htn, by simpa using hti, ?_, ?_, ?_, ?_⟩ <;> (try simp only [Nat.add_sub_cancel])
  · rw [heq]; exact hsz
  · intro k hk; have := bE k hk; omega
  · intro k hk; have := bS k hk; omega
  · intro i h1 h2 hit
    rcases Nat.lt_or_ge i t with hlt' | hge
    · exact cov i h1 h2 hlt'
    · have : i = t := by omega
      subst this
      cases hq : ix[i]
      · simp only [Bool.false_eq_true, false_iff]
        have hp : ix[i-1]'(by omega) = false := by rw [← heq]; exact hq
        have hsz' : S.size = E.size := by simpa [hp] using hsz
        rintro (⟨k, hk, hk2, a, b⟩ | h)
        · have := bE k hk; omega
        · exact not_openV_of_eq S E _ hsz' h
      · simp only [true_iff]
        have hp : ix[i-1]'(by omega) = true := by rw [← heq]; exact hq
        have hsz' : S.size = E.size + 1 := by simpa [hp] using hsz
        right
        rw [openV_iff_last S E _ hsz']
        have := bS E.size (by omega); omega

theorem step_close (ts : Array Int) (ix : Array Bool) (hs : StrictInc ts) (t : Nat) (ht1 : 1 ≤ t) (htn : t < ts.size)
    (hti : t < ix.size) (S E : Array Int) (h : CovV ts ix t S E) (hp : ix[t-1]'(by omega) = true) (hq : ix[t] = false)
    (v : Int) (hv1 : 2 * ts[t-1]'(by omega) ≤ v) (hv2 : v < 2 * ts[t]) :
    CovV ts ix (t+1) S (E.push v) := by
  obtain ⟨ht, hi, hsz, bE, bS, cov⟩ := h
  have hsz' : S.size = E.size + 1 := by simpa [hp] using hsz
  refine ⟨by simpa using htn, by simpa using hti, ?_, ?_, ?_, ?_⟩ <;> (try simp only [Nat.add_sub_cancel])
  · simp [hq, hsz']
  · intro k hk
    simp only [Array.size_push] at hk
    rcases Nat.lt_or_ge k E.size with h' | h'
    · have := bE k h'; simp [Array.getElem_push_lt h']; omega
    · have : k = E.size := by omega
      subst this; simpa using hv2
  · intro k hk; have := bS k hk; omega
  · intro i h1 h2 hit
    rw [closedV_push_e S E v _ hsz']
    have hno := not_openV_push_e S E v (2 * ts[i]) hsz'
    rcases Nat.lt_or_ge i t with hlt' | hge
    · rw [cov i h1 h2 hlt', openV_iff_last S E _ hsz']
      have := strictInc_le ts hs i (t-1) (by omega) (by omega)
      constructor
      · rintro (h | h)
        · exact Or.inl (Or.inl h)
        · exact Or.inl (Or.inr ⟨h, by omega⟩)
      · rintro ((h | ⟨h, _⟩) | h)
        · exact Or.inl h
        · exact Or.inr h
        · exact absurd h hno
    · have : i = t := by omega
      subst this
      simp only [hq, Bool.false_eq_true, false_iff]
      rintro ((⟨k, hk, hk2, a, b⟩ | ⟨a, b⟩) | h)
      · have := bE k hk
        have := strictInc_lt ts hs (i-1) i (by omega) htn
        omega
      · omega
      · exact hno h

theorem step_open (ts : Array Int) (ix : Array Bool) (hs : StrictInc ts) (t : Nat) (ht1 : 1 ≤ t) (htn : t < ts.size)
    (hti : t < ix.size) (S E : Array Int) (h : CovV ts ix t S E) (hp : ix[t-1]'(by omega) = false) (hq : ix[t] = true)
    (v : Int) (hv1 : 2 * ts[t-1]'(by omega) < v) (hv2 : v ≤ 2 * ts[t]) :
    CovV ts ix (t+1) (S.push v) E := by
  obtain ⟨ht, hi, hsz, bE, bS, cov⟩ := h
  have hsz' : S.size = E.size := by simpa [hp] using hsz
  have hlt : ts[t-1] < ts[t] := strictInc_lt ts hs (t-1) t (by omega) htn
  refine ⟨by simpa using htn, by simpa using hti, ?_, ?_, ?_, ?_⟩ <;> (try simp only [Nat.add_sub_cancel])
  · simp [hq, hsz']
  · intro k hk; have := bE k hk; omega
  · intro k hk
    simp only [Array.size_push] at hk
    rcases Nat.lt_or_ge k S.size with h' | h'
    · have := bS k h'; simp [Array.getElem_push_lt h']; omega
    · have : k = S.size := by omega
      subst this; simpa using hv2
  · intro i h1 h2 hit
    rw [closedV_push_s S E v _ hsz', openV_push_s S E v _ hsz']
    rcases Nat.lt_or_ge i t with hlt' | hge
    · rw [cov i h1 h2 hlt']
      have := strictInc_le ts hs i (t-1) (by omega) (by omega)
      constructor
      · rintro (h | h)
        · exact Or.inl h
        · exact absurd h (not_openV_of_eq S E _ hsz')
      · rintro (h | h)
        · exact Or.inl h
        · omega
    · have : i = t := by omega
      subst this
      simp only [hq, true_iff]
      exact Or.inr hv2

theorem step_close_open (ts : Array Int) (ix : Array Bool) (hs : StrictInc ts) (t : Nat) (ht1 : 1 ≤ t) (htn : t < ts.size)
    (hti : t < ix.size) (S E : Array Int) (h : CovV ts ix t S E) (hp : ix[t-1]'(by omega) = true) (hq : ix[t] = true) :
    CovV ts ix (t+1) (S.push (2 * ts[t])) (E.push (2 * ts[t-1]'(by omega))) := by
  obtain ⟨ht, hi, hsz, bE, bS, cov⟩ := h
  have hsz' : S.size = E.size + 1 := by simpa [hp] using hsz
  have hlt : ts[t-1] < ts[t] := strictInc_lt ts hs (t-1) t (by omega) htn
  have hszn : S.size = (E.push (2 * ts[t-1]'(by omega))).size := by simp [hsz']
  refine ⟨by simpa using htn, by simpa using hti, ?_, ?_, ?_, ?_⟩ <;> (try simp only [Nat.add_sub_cancel])
  · simp [hq, hsz']
  · intro k hk
    simp only [Array.size_push] at hk
    rcases Nat.lt_or_ge k E.size with h' | h'
    · have := bE k h'; simp [Array.getElem_push_lt h']; omega
    · have : k = E.size := by omega
      subst this; simp; omega
  · intro k hk
    simp only [Array.size_push] at hk
    rcases Nat.lt_or_ge k S.size with h' | h'
    · have := bS k h'; simp [Array.getElem_push_lt h']; omega
    · have : k = S.size := by omega
      subst this; simp
  · intro i h1 h2 hit
    rw [closedV_push_s S _ _ _ hszn, openV_push_s S _ _ _ hszn, closedV_push_e S E _ _ hsz']
    rcases Nat.lt_or_ge i t with hlt' | hge
    · rw [cov i h1 h2 hlt', openV_iff_last S E _ hsz']
      have := strictInc_le ts hs i (t-1) (by omega) (by omega)
      constructor
      · rintro (h | h)
        · exact Or.inl (Or.inl h)
        · exact Or.inl (Or.inr ⟨h, by omega⟩)
      · rintro ((h | ⟨h, _⟩) | h)
        · exact Or.inl h
        · exact Or.inr h
        · omega
    · have : i = t := by omega
      subst this
      simp only [hq, true_iff]
      exact Or.inr (Int.le_refl _)


/-! push-based reference of the threshold scan: starts and ends are appended in the order they are found -/

structure RefSt where
  k : Nat
  S : Array Int
  E : Array Int

def thrRefLoop (ts : Array Int) (ix : Array Bool) (en : Array Int) (t : Nat) (s : RefSt) : R RefSt :=
  if h : t < ts.size then do
    let tt ← rd ts t
    let tp ← rd ts (t-1)
    let ek ← rd en s.k
    let it ← rdB ix t
    let ip ← rdB ix (t-1)
    if tt > ek then
      let k' ← thrSkip en tt s.k
      let E := if ip then s.E.push (2*tp) else s.E
      let S := if it then s.S.push (2*tt) else s.S
      thrRefLoop ts ix en (t+1) { k := k', S := S, E := E }
    else
      let S := if !ip && it then s.S.push (tt + tp) else s.S
      let E := if ip && !it then s.E.push (tt + tp) else s.E
      thrRefLoop ts ix en (t+1) { s with S := S, E := E }
  else .ok s
termination_by ts.size - t

/-- all positions from `t` on are still unset -/
def NoneFrom (a : Array (Option Int)) (t : Nat) : Prop := ∀ p, t ≤ p → (hp : p < a.size) → a[p] = none

theorem filterMap_set_last (l : List (Option Int)) (p : Nat) (v : Int) (hp : p < l.length)
    (hnone : ∀ q, p ≤ q → (hq : q < l.length) → l[q] = none) :
    (l.set p (some v)).filterMap id = l.filterMap id ++ [v] := by
  induction l generalizing p with
  | nil => simp at hp
  | cons a t ih =>
    cases p with
    | zero =>
      have ha : a = none := hnone 0 (Nat.le_refl _) (by simp)
      have ht : t.filterMap id = [] := by
        rw [List.filterMap_eq_nil_iff]
        intro x hx
        obtain ⟨q, hq, e⟩ := List.mem_iff_getElem.1 hx
        have := hnone (q+1) (by omega) (by simpa using hq)
        simp only [List.getElem_cons_succ] at this
        rw [← e, this]; rfl
      subst ha
      simp [ht]
    | succ p =>
      have hp' : p < t.length := by simpa using hp
      have := ih p hp' (fun q hq hql => by
        have := hnone (q+1) (by omega) (by simpa using hql)
        simpa using this)
      cases a <;> simp [this]

theorem setIfInBounds_filterMap (a : Array (Option Int)) (p : Nat) (v : Int) (hp : p < a.size)
    (hnone : NoneFrom a p) :
    ((a.setIfInBounds p (some v)).toList.filterMap id) = a.toList.filterMap id ++ [v] := by
  rw [Array.toList_setIfInBounds]
  exact filterMap_set_last a.toList p v (by simpa using hp) (fun q hq hql => by
    have := hnone q hq (by simpa using hql)
    simpa using this)

theorem noneFrom_set (a : Array (Option Int)) (p t : Nat) (v : Option Int) (h : NoneFrom a t) (hpt : p < t) :
    NoneFrom (a.setIfInBounds p v) t := by
  intro q hq hqs
  have hqs' : q < a.size := by simpa using hqs
  rw [Array.getElem_setIfInBounds hqs']
  have : p ≠ q := by omega
  simp [this]
  exact h q hq hqs'

theorem noneFrom_mono (a : Array (Option Int)) (t t' : Nat) (h : NoneFrom a t) (htt : t ≤ t') : NoneFrom a t' :=
  fun p hp hps => h p (by omega) hps

/-- the literal state (option arrays indexed by sample position) represents the pushed lists -/
def Rel (ix : Array Bool) (n t : Nat) (s : ThrSt) (r : RefSt) : Prop :=
  s.k = r.k ∧ s.ns.size = n ∧ s.ne.size = n ∧
  s.ns.toList.filterMap id = r.S.toList ∧ s.ne.toList.filterMap id = r.E.toList ∧
  NoneFrom s.ns t ∧ NoneFrom s.ne t ∧
  (∀ h : t - 1 < ix.size, ix[t-1] = true → NoneFrom s.ne (t-1))

theorem thrLoop_refines (ts : Array Int) (ix : Array Bool) (en : Array Int) (hix : ix.size = ts.size)
    (t : Nat) (ht : 1 ≤ t) (s : ThrSt) (r : RefSt) (hrel : Rel ix ts.size t s r) (s' : ThrSt)
    (hs : thrLoop ts ix en t s = .ok s') :
    ∃ r', thrRefLoop ts ix en t r = .ok r' ∧ Rel ix ts.size (max t ts.size) s' r' := by
  induction hn : ts.size - t generalizing t s r with
  | zero =>
    unfold thrLoop at hs
    unfold thrRefLoop
    have hnt : ¬ t < ts.size := by omega
    simp only [dif_neg hnt] at hs ⊢
    cases hs
    have : max t ts.size = t := by omega
    rw [this]
    exact ⟨r, rfl, hrel⟩
  | succ m ih =>
    have h : t < ts.size := by omega
    obtain ⟨hk, hns, hne, hS, hE, nS, nE, nE1⟩ := hrel
    unfold thrLoop at hs
    unfold thrRefLoop
    have r1 : rd ts t = .ok ts[t] := by simp [rd, h]
    have r2 : rd ts (t-1) = .ok (ts[t-1]'(by omega)) := by simp [rd, show t - 1 < ts.size by omega]
    have r4 : rdB ix t = .ok (ix[t]'(by omega)) := by simp [rdB, show t < ix.size by omega]
    have r5 : rdB ix (t-1) = .ok (ix[t-1]'(by omega)) := by simp [rdB, show t - 1 < ix.size by omega]
    simp only [dif_pos h, r1, r2, r4, r5, bind, Except.bind, ← hk] at hs ⊢
    cases hr3 : rd en s.k with
    | error e => simp [hr3] at hs
    | ok ek =>
      simp only [hr3] at hs ⊢
      have hmax : max (t+1) ts.size = max t ts.size := by omega
      split at hs
      · rename_i hgt
        simp only [hgt, if_true]
        cases hsk : thrSkip en ts[t] s.k with
        | error e => simp [hsk] at hs
        | ok k' =>
          simp only [hsk] at hs ⊢
          have := ih (t+1) (by omega) _ (RefSt.mk k' (if (ix[t]'(by omega)) then r.S.push (2*ts[t]) else r.S)
              (if (ix[t-1]'(by omega)) then r.E.push (2*(ts[t-1]'(by omega))) else r.E)) ?_ hs (by omega)
          · rw [hmax] at this; exact this
          · refine ⟨rfl, ?_, ?_, ?_, ?_, ?_, ?_, ?_⟩ <;> dsimp only
            · split <;> simp [hns]
            · split <;> simp [hne]
            · split
              · rw [setIfInBounds_filterMap _ t _ (by omega) nS, hS]; simp
              · exact hS
            · split
              · rename_i hip
                rw [setIfInBounds_filterMap _ (t-1) _ (by omega) (nE1 (by omega) hip), hE]; simp
              · exact hE
            · split
              · exact noneFrom_set _ t (t+1) _ (noneFrom_mono _ t (t+1) nS (by omega)) (by omega)
              · exact noneFrom_mono _ t (t+1) nS (by omega)
            · split
              · exact noneFrom_set _ (t-1) (t+1) _ (noneFrom_mono _ t (t+1) nE (by omega)) (by omega)
              · exact noneFrom_mono _ t (t+1) nE (by omega)
            · intro _ hit
              simp only [Nat.add_sub_cancel]
              split
              · exact noneFrom_set _ (t-1) t _ nE (by omega)
              · exact nE
      · rename_i hle
        simp only [hle, if_false]
        have := ih (t+1) (by omega) _ (RefSt.mk s.k
            (if (!(ix[t-1]'(by omega)) && (ix[t]'(by omega))) then r.S.push (ts[t] + (ts[t-1]'(by omega))) else r.S)
            (if ((ix[t-1]'(by omega)) && !(ix[t]'(by omega))) then r.E.push (ts[t] + (ts[t-1]'(by omega))) else r.E)) ?_ hs (by omega)
        · rw [hmax] at this; exact this
        · refine ⟨rfl, ?_, ?_, ?_, ?_, ?_, ?_, ?_⟩ <;> dsimp only
          · split <;> simp [hns]
          · split <;> simp [hne]
          · split
            · rw [setIfInBounds_filterMap _ t _ (by omega) nS, hS]; simp
            · exact hS
          · split
            · rw [setIfInBounds_filterMap _ t _ (by omega) nE, hE]; simp
            · exact hE
          · split
            · exact noneFrom_set _ t (t+1) _ (noneFrom_mono _ t (t+1) nS (by omega)) (by omega)
            · exact noneFrom_mono _ t (t+1) nS (by omega)
          · split
            · exact noneFrom_set _ t (t+1) _ (noneFrom_mono _ t (t+1) nE (by omega)) (by omega)
            · exact noneFrom_mono _ t (t+1) nE (by omega)
          · intro _ hit
            simp only [Nat.add_sub_cancel] at hit ⊢
            simp only [hit, Bool.not_true, Bool.and_false, Bool.false_eq_true, if_false]
            exact nE


theorem thrRefLoop_cov (ts : Array Int) (ix : Array Bool) (en : Array Int) (hs : StrictInc ts) (hix : ix.size = ts.size)
    (t : Nat) (ht1 : 1 ≤ t) (htn : t ≤ ts.size) (r : RefSt) (h : CovV ts ix t r.S r.E) (r' : RefSt)
    (hr : thrRefLoop ts ix en t r = .ok r') : CovV ts ix ts.size r'.S r'.E := by
  induction hn : ts.size - t generalizing t r with
  | zero =>
    unfold thrRefLoop at hr
    have hnt : ¬ t < ts.size := by omega
    simp only [dif_neg hnt] at hr
    cases hr
    have : t = ts.size := by omega
    subst this; exact h
  | succ m ih =>
    have hlt : t < ts.size := by omega
    have hti : t < ix.size := by omega
    unfold thrRefLoop at hr
    have r1 : rd ts t = .ok ts[t] := by simp [rd, hlt]
    have r2 : rd ts (t-1) = .ok (ts[t-1]'(by omega)) := by simp [rd, show t - 1 < ts.size by omega]
    have r4 : rdB ix t = .ok (ix[t]'(by omega)) := by simp [rdB, hti]
    have r5 : rdB ix (t-1) = .ok (ix[t-1]'(by omega)) := by simp [rdB, show t - 1 < ix.size by omega]
    simp only [dif_pos hlt, r1, r2, r4, r5, bind, Except.bind] at hr
    have hinc : ts[t-1]'(by omega) < ts[t] := strictInc_lt ts hs (t-1) t (by omega) hlt
    cases hr3 : rd en r.k with
    | error e => simp [hr3] at hr
    | ok ek =>
      simp only [hr3] at hr
      split at hr
      · cases hsk : thrSkip en ts[t] r.k with
        | error e => simp [hsk] at hr
        | ok k' =>
          simp only [hsk] at hr
          refine ih (t+1) (by omega) (by omega) _ ?_ hr (by omega)
          cases hp : ix[t-1]'(by omega) <;> cases hq : ix[t]'(by omega) <;> simp only [Bool.false_eq_true, if_false, if_true]
          · exact step_keep ts ix hs t ht1 hlt hti _ _ h (by rw [hp, hq])
          · exact step_open ts ix hs t ht1 hlt hti _ _ h hp hq _ (by omega) (Int.le_refl _)
          · exact step_close ts ix hs t ht1 hlt hti _ _ h hp hq _ (Int.le_refl _) (by omega)
          · exact step_close_open ts ix hs t ht1 hlt hti _ _ h hp hq
      · refine ih (t+1) (by omega) (by omega) _ ?_ hr (by omega)
        cases hp : ix[t-1]'(by omega) <;> cases hq : ix[t]'(by omega) <;>
          simp only [Bool.not_false, Bool.not_true, Bool.and_true, Bool.and_false, Bool.true_and, Bool.false_and,
            Bool.false_eq_true, if_false, if_true]
        · exact step_keep ts ix hs t ht1 hlt hti _ _ h (by rw [hp, hq])
        · exact step_open ts ix hs t ht1 hlt hti _ _ h hp hq _ (by omega) (by omega)
        · exact step_close ts ix hs t ht1 hlt hti _ _ h hp hq _ (by omega) (by omega)
        · exact step_keep ts ix hs t ht1 hlt hti _ _ h (by rw [hp, hq])

theorem ite_single_le (b : Bool) (v : Int) (k : Nat) (hk : k < (if b = true then #[v] else (#[] : Array Int)).size) :
    (if b = true then #[v] else (#[] : Array Int))[k] ≤ v := by
  cases b
  · simp at hk
  · simp at hk ⊢

theorem ite_single_get (b : Bool) (v : Int) (k : Nat) (hk : k < (if b = true then #[v] else (#[] : Array Int)).size) :
    (if b = true then #[v] else (#[] : Array Int))[k] = v := by
  cases b
  · simp at hk
  · simp at hk ⊢

theorem filterMap_replicate_none (n : Nat) :
    (Array.replicate n (none : Option Int)).toList.filterMap id = [] := by
  rw [List.filterMap_eq_nil_iff]
  intro x hx
  simp at hx
  rw [hx.2]; rfl

/-- the kernel output, whenever it returns, is the output of the push-based reference run -/
theorem threshold_out (ts : Array Int) (ix : Array Bool) (st en : Array Int)
    (hix : ix.size = ts.size) (hn : 0 < ts.size) (out : Array Int × Array Int)
    (h : jitthresholdScan ts ix st en = .ok out) :
    ∃ k r', thrLead ts en 0 = .ok k ∧
      thrRefLoop ts ix en 1 ⟨k, if ix[0]'(by omega) then #[2 * ts[0]'(by omega)] else #[], #[]⟩ = .ok r' ∧
      out.1 = r'.S ∧
      out.2 = (if ix[ts.size - 1]'(by omega) then r'.E.push (2 * ts[ts.size - 1]'(by omega)) else r'.E) := by
  unfold jitthresholdScan at h
  have r1 : rdB ix 0 = .ok (ix[0]'(by omega)) := by simp [rdB, show 0 < ix.size by omega]
  have r2 : rd ts 0 = .ok (ts[0]'(by omega)) := by simp [rd, hn]
  have r3 : rdB ix (ts.size - 1) = .ok (ix[ts.size - 1]'(by omega)) := by simp [rdB, show ts.size - 1 < ix.size by omega]
  have r4 : rd ts (ts.size - 1) = .ok (ts[ts.size - 1]'(by omega)) := by simp [rd, show ts.size - 1 < ts.size by omega]
  simp only [hn, if_true, r1, r2, r3, r4, bind, Except.bind] at h
  cases hk : thrLead ts en 0 with
  | error e => simp [hk] at h
  | ok k =>
    simp only [hk] at h
    cases hl : thrLoop ts ix en 1 (thrInit ts.size (ix[0]'(by omega)) (ts[0]'(by omega)) k) with
    | error e => simp [hl] at h
    | ok s' =>
      simp only [hl, pure, Except.pure] at h
      have h := Except.ok.inj h
      have hrel0 : Rel ix ts.size 1 (thrInit ts.size (ix[0]'(by omega)) (ts[0]'(by omega)) k)
          ⟨k, if ix[0]'(by omega) then #[2 * ts[0]'(by omega)] else #[], #[]⟩ := by
        have hnone0 : NoneFrom (Array.replicate ts.size (none : Option Int)) 0 := by
          intro p _ hp; simp
        refine ⟨rfl, ?_, ?_, ?_, ?_, ?_, ?_, ?_⟩ <;> simp only [thrInit]
        · (try split) <;> (try simp)
        · try simp
        · split
          · rw [setIfInBounds_filterMap _ 0 _ (by simpa using hn) hnone0, filterMap_replicate_none]; try simp
          · rw [filterMap_replicate_none]; try simp
        · rw [filterMap_replicate_none]; try simp
        · split
          · exact noneFrom_set _ 0 1 _ (noneFrom_mono _ 0 1 hnone0 (by omega)) (by omega)
          · exact noneFrom_mono _ 0 1 hnone0 (by omega)
        · exact noneFrom_mono _ 0 1 hnone0 (by omega)
        · intro _ _; exact hnone0
      obtain ⟨r', hr', hrel⟩ := thrLoop_refines ts ix en hix 1 (by omega) _ _ hrel0 s' hl
      have hmax : max 1 ts.size = ts.size := by omega
      rw [hmax] at hrel
      obtain ⟨_, hns, hne, hS, hE, nS, nE, nE1⟩ := hrel
      refine ⟨k, r', rfl, hr', ?_, ?_⟩
      · apply Array.ext'
        rw [← h]; simp [Array.toList_filterMap, hS]
      · apply Array.ext'
        rw [← h]
        cases hil : ix[ts.size - 1]'(by omega)
        · simp [Array.toList_filterMap, hE]
        · simp only [if_true, Array.toList_filterMap, Array.toList_push]
          rw [setIfInBounds_filterMap _ (ts.size - 1) _ (by omega) (nE1 (by omega) hil), hE]

/-- **jitthreshold, the new support is exactly the kept samples** (kernel level, doubled time values): for strictly
increasing timestamps, whenever the kernel returns, it returns as many starts as ends and sample `i` is kept iff
`2·t[i]` lies in one of the closed intervals `[start k, end k]` — every kept sample inside the new support, no
rejected sample inside.  (A kept sample alone in its support interval gets `start = end`: the zero-length interval
the constructor then drops is the open finding C07-threshold-lone-sample.) -/
theorem threshold_cover (ts : Array Int) (ix : Array Bool) (st en : Array Int) (hs : StrictInc ts)
    (hix : ix.size = ts.size) (hn : 0 < ts.size) (out : Array Int × Array Int)
    (h : jitthresholdScan ts ix st en = .ok out) :
    out.1.size = out.2.size ∧
    ∀ i, (hi : i < ts.size) → (ix[i]'(by omega) = true ↔ ClosedV out.1 out.2 (2 * ts[i])) := by
  obtain ⟨k, r', hk, hr', e1, e2⟩ := threshold_out ts ix st en hix hn out h
  have hcov0 : CovV ts ix 1 (if ix[0]'(by omega) then #[2 * ts[0]'(by omega)] else #[]) #[] := by
    refine ⟨by simpa using hn, by simp; omega, ?_, ?_, ?_, ?_⟩
    · cases h0 : ix[0]'(by omega) <;> simp
    · intro k hk; simp at hk
    · intro k hk
      exact ite_single_le _ _ k hk
    · intro i h1 h2 hi1
      have : i = 0 := by omega
      subst this
      cases h0 : ix[0]'(by omega)
      · simp only [Bool.false_eq_true, false_iff, if_false]
        rintro (⟨k, hk, _⟩ | ⟨hsz, _⟩)
        · simp at hk
        · simp at hsz
      · simp only [true_iff, if_true]
        right
        exact ⟨by simp, by simp, by simp⟩
  have hcov := thrRefLoop_cov ts ix en hs hix 1 (by omega) (by omega) _ hcov0 r' hr'
  obtain ⟨_, _, hsz, bE, bS, cov⟩ := hcov
  rw [e1, e2]
  cases hil : ix[ts.size - 1]'(by omega)
  · simp only [hil, Bool.false_eq_true, if_false] at hsz ⊢
    refine ⟨by simpa using hsz, fun i hi => ?_⟩
    rw [cov i hi (by omega) hi]
    constructor
    · rintro (h' | h')
      · exact h'
      · exact absurd h' (not_openV_of_eq _ _ _ (by simpa using hsz))
    · exact Or.inl
  · simp only [hil, if_true] at hsz ⊢
    have hsz' : r'.S.size = r'.E.size + 1 := by simpa using hsz
    refine ⟨by simp [hsz'], fun i hi => ?_⟩
    rw [cov i hi (by omega) hi, closedV_push_e _ _ _ _ hsz', openV_iff_last _ _ _ hsz']
    have := strictInc_le ts hs i (ts.size - 1) (by omega) (by omega)
    constructor
    · rintro (h' | h')
      · exact Or.inl h'
      · exact Or.inr ⟨h', by omega⟩
    · rintro (h' | ⟨h', _⟩)
      · exact Or.inl h'
      · exact Or.inr h'

/-! ## the new support lies inside the old one -/

theorem thrSkip_spec (en : Array Int) (tt : Int) (k k' : Nat) (h : thrSkip en tt k = .ok k') :
    k ≤ k' ∧ ∃ hk' : k' < en.size, tt ≤ en[k'] ∧ ∀ j, k ≤ j → j < k' → (hj : j < en.size) → en[j] < tt := by
  induction hn : en.size - k generalizing k with
  | zero =>
    unfold thrSkip at h
    have : ¬ k < en.size := by omega
    simp [this] at h
  | succ n ih =>
    unfold thrSkip at h
    have hk : k < en.size := by omega
    simp only [dif_pos hk] at h
    split at h
    · rename_i hgt
      obtain ⟨a, hk', b, c⟩ := ih (k+1) h (by omega)
      refine ⟨by omega, hk', b, fun j hj1 hj2 hj => ?_⟩
      rcases Nat.eq_or_lt_of_le hj1 with e | e
      · subst e; exact hgt
      · exact c j (by omega) hj2 hj
    · rename_i hle
      cases h
      exact ⟨Nat.le_refl _, hk, by omega, fun j hj1 hj2 _ => by omega⟩

/-- the interval found by the skip is the one that holds the sample -/
theorem skip_epoch (st en : Array Int) (hm : st.size = en.size) (hc : Canon st en hm) (tt : Int)
    (hin : InIv st en hm tt) (k k' : Nat) (hk' : k' < en.size) (hle : tt ≤ en[k'])
    (hsk : ∀ j, k ≤ j → j < k' → (hj : j < en.size) → en[j] < tt)
    (hbelow : ∀ j, j < k → (hj : j < en.size) → en[j] < tt) : st[k']'(by omega) ≤ tt := by
  obtain ⟨j0, hj0, a, b⟩ := hin
  have h1 : ¬ j0 < k' := by
    intro hlt
    rcases Nat.lt_or_ge j0 k with h | h
    · have := hbelow j0 h (by omega); omega
    · have := hsk j0 h hlt (by omega); omega
  rcases Nat.eq_or_lt_of_le (Nat.le_of_not_lt h1) with e | e
  · subst e; exact a
  · have := canon_sep' st en hm hc k' j0 e hj0
    omega

def ClosedIn (st en : Array Int) (hm : st.size = en.size) (S E : Array Int) : Prop :=
  ∀ k', (h1 : k' < E.size) → (h2 : k' < S.size) →
    ∃ j, ∃ hj : j < st.size, 2 * st[j] ≤ S[k'] ∧ E[k'] ≤ 2 * en[j]'(hm ▸ hj)

theorem closedIn_push_s (st en : Array Int) (hm) (S E : Array Int) (v : Int) (hsz : S.size ≥ E.size)
    (h : ClosedIn st en hm S E) : ClosedIn st en hm (S.push v) E := by
  intro k' h1 h2
  have h2' : k' < S.size := by omega
  obtain ⟨j, hj, a, b⟩ := h k' h1 h2'
  exact ⟨j, hj, by simpa [Array.getElem_push_lt h2'] using a, b⟩

theorem closedIn_push_e (st en : Array Int) (hm) (S E : Array Int) (v : Int) (hsz : S.size = E.size + 1)
    (h : ClosedIn st en hm S E)
    (hnew : ∃ j, ∃ hj : j < st.size, 2 * st[j] ≤ S[E.size]'(by omega) ∧ v ≤ 2 * en[j]'(hm ▸ hj)) :
    ClosedIn st en hm S (E.push v) := by
  intro k' h1 h2
  simp only [Array.size_push] at h1
  rcases Nat.lt_or_ge k' E.size with hlt | hge
  · obtain ⟨j, hj, a, b⟩ := h k' hlt h2
    exact ⟨j, hj, a, by simpa [Array.getElem_push_lt hlt] using b⟩
  · have : k' = E.size := by omega
    subst this
    obtain ⟨j, hj, a, b⟩ := hnew
    exact ⟨j, hj, a, by simpa using b⟩

/-- epoch bookkeeping of the scan after samples `0 .. t-1` -/
def EpV (ts : Array Int) (ix : Array Bool) (st en : Array Int) (hm : st.size = en.size) (t : Nat) (r : RefSt) : Prop :=
  ∃ ht : t - 1 < ts.size, ∃ hi : t - 1 < ix.size, ∃ hk : r.k < en.size,
  r.S.size = r.E.size + (if ix[t-1] = true then 1 else 0) ∧
  (st[r.k]'(by omega) ≤ ts[t-1] ∧ ts[t-1] ≤ en[r.k]) ∧
  ClosedIn st en hm r.S r.E ∧
  (∀ h : r.S.size = r.E.size + 1, 2 * st[r.k]'(by omega) ≤ r.S[r.E.size]'(by omega))

theorem thrRefLoop_ep (ts : Array Int) (ix : Array Bool) (st en : Array Int) (hm : st.size = en.size)
    (hc : Canon st en hm) (hs : StrictInc ts) (hix : ix.size = ts.size)
    (hin : ∀ i, (h : i < ts.size) → InIv st en hm ts[i])
    (t : Nat) (ht1 : 1 ≤ t) (htn : t ≤ ts.size) (r : RefSt) (h : EpV ts ix st en hm t r) (r' : RefSt)
    (hr : thrRefLoop ts ix en t r = .ok r') : EpV ts ix st en hm ts.size r' := by
  induction hn : ts.size - t generalizing t r with
  | zero =>
    unfold thrRefLoop at hr
    have hnt : ¬ t < ts.size := by omega
    simp only [dif_neg hnt] at hr
    cases hr
    have : t = ts.size := by omega
    subst this; exact h
  | succ m ih =>
    have hlt : t < ts.size := by omega
    have hti : t < ix.size := by omega
    obtain ⟨ht, hi, hk, hsz, ⟨hep1, hep2⟩, hcl, hop⟩ := h
    unfold thrRefLoop at hr
    have r1 : rd ts t = .ok ts[t] := by simp [rd, hlt]
    have r2 : rd ts (t-1) = .ok (ts[t-1]'(by omega)) := by simp [rd, show t - 1 < ts.size by omega]
    have r3 : rd en r.k = .ok en[r.k] := by simp [rd, hk]
    have r4 : rdB ix t = .ok (ix[t]'(by omega)) := by simp [rdB, hti]
    have r5 : rdB ix (t-1) = .ok (ix[t-1]'(by omega)) := by simp [rdB, show t - 1 < ix.size by omega]
    simp only [dif_pos hlt, r1, r2, r3, r4, r5, bind, Except.bind] at hr
    have hinc : ts[t-1]'(by omega) < ts[t] := strictInc_lt ts hs (t-1) t (by omega) hlt
    split at hr
    · rename_i hgt
      cases hsk : thrSkip en ts[t] r.k with
      | error e => simp [hsk] at hr
      | ok k' =>
        simp only [hsk] at hr
        obtain ⟨hkk', hk'lt, hle', hskp⟩ := thrSkip_spec en ts[t] r.k k' hsk
        have hst' : st[k']'(by omega) ≤ ts[t] := by
          apply skip_epoch st en hm hc ts[t] (hin t hlt) r.k k' hk'lt hle' hskp
          intro j hj hjs
          have := canon_en_mono st en hm hc j r.k (Nat.le_of_lt hj) (by omega)
          omega
        refine ih (t+1) (by omega) (by omega) _ ?_ hr (by omega)
        refine ⟨by simpa using hlt, by simpa using hti, hk'lt, ?_, ?_, ?_, ?_⟩ <;> (try simp only [Nat.add_sub_cancel])
        · cases hp : ix[t-1]'(by omega) <;> cases hq : ix[t]'(by omega) <;> simp [hp, hq] at hsz ⊢ <;> omega
        · exact ⟨hst', hle'⟩
        · cases hp : ix[t-1]'(by omega) <;> cases hq : ix[t]'(by omega) <;>
            simp only [hp, Bool.false_eq_true, if_false, if_true] at hsz ⊢
          · exact hcl
          · exact closedIn_push_s st en hm _ _ _ (by omega) hcl
          · exact closedIn_push_e st en hm _ _ _ (by omega) hcl ⟨r.k, by omega, hop (by omega), by omega⟩
          · exact closedIn_push_s st en hm _ _ _ (by simp; omega)
              (closedIn_push_e st en hm _ _ _ (by omega) hcl ⟨r.k, by omega, hop (by omega), by omega⟩)
        · cases hp : ix[t-1]'(by omega) <;> cases hq : ix[t]'(by omega) <;>
            simp only [hp, Bool.false_eq_true, if_false, if_true] at hsz ⊢
          · intro h; omega
          · intro _
            have e : r.E.size = r.S.size := by omega
            simp only [e]; simp; omega
          · intro h; simp at h; omega
          · intro _
            have e : (r.E.push (2 * ts[t-1]'(by omega))).size = r.S.size := by simp; omega
            simp only [e]; simp; omega
    · rename_i hle
      refine ih (t+1) (by omega) (by omega) _ ?_ hr (by omega)
      refine ⟨by simpa using hlt, by simpa using hti, hk, ?_, ?_, ?_, ?_⟩ <;> (try simp only [Nat.add_sub_cancel])
      · cases hp : ix[t-1]'(by omega) <;> cases hq : ix[t]'(by omega) <;> simp [hp, hq] at hsz ⊢ <;> omega
      · exact ⟨by omega, by omega⟩
      · cases hp : ix[t-1]'(by omega) <;> cases hq : ix[t]'(by omega) <;>
          simp only [hp, Bool.not_false, Bool.not_true, Bool.and_true, Bool.and_false, Bool.true_and, Bool.false_and,
            Bool.false_eq_true, if_false, if_true] at hsz ⊢
        · exact hcl
        · exact closedIn_push_s st en hm _ _ _ (by omega) hcl
        · exact closedIn_push_e st en hm _ _ _ (by omega) hcl ⟨r.k, by omega, hop (by omega), by omega⟩
        · exact hcl
      · cases hp : ix[t-1]'(by omega) <;> cases hq : ix[t]'(by omega) <;>
          simp only [hp, Bool.not_false, Bool.not_true, Bool.and_true, Bool.and_false, Bool.true_and, Bool.false_and,
            Bool.false_eq_true, if_false, if_true] at hsz ⊢
        · intro h; omega
        · intro _
          have e : r.E.size = r.S.size := by omega
          simp only [e]; simp; omega
        · intro h; simp at h; omega
        · exact hop

theorem thrLead_spec (ts en : Array Int) (hn : 0 < ts.size) (k k' : Nat) (h : thrLead ts en k = .ok k') :
    k ≤ k' ∧ ∃ hk' : k' < en.size, ts[0] ≤ en[k'] ∧ ∀ j, k ≤ j → j < k' → (hj : j < en.size) → en[j] < ts[0] := by
  induction hm : en.size - k generalizing k with
  | zero =>
    unfold thrLead at h
    have : ¬ k < en.size := by omega
    simp [hn, this] at h
  | succ n ih =>
    unfold thrLead at h
    have hk : k < en.size := by omega
    simp only [dif_pos hn, dif_pos hk] at h
    split at h
    · rename_i hgt
      obtain ⟨a, hk', b, c⟩ := ih (k+1) h (by omega)
      refine ⟨by omega, hk', b, fun j hj1 hj2 hj => ?_⟩
      rcases Nat.eq_or_lt_of_le hj1 with e | e
      · subst e; exact hgt
      · exact c j (by omega) hj2 hj
    · rename_i hle
      cases h
      exact ⟨Nat.le_refl _, hk, by omega, fun j hj1 hj2 _ => by omega⟩

/-- **jitthreshold, the new support lies inside the old one**: for a strictly increasing series lying inside a canonical
support, every interval `[start k, end k]` the kernel returns lies inside ONE interval of the old support — no new
interval extends beyond, or bridges the gap between, intervals of the original support (doubled time values) -/
theorem threshold_inside (ts : Array Int) (ix : Array Bool) (st en : Array Int) (hm : st.size = en.size)
    (hc : Canon st en hm) (hs : StrictInc ts) (hix : ix.size = ts.size) (hn : 0 < ts.size)
    (hin : ∀ i, (h : i < ts.size) → InIv st en hm ts[i]) (out : Array Int × Array Int)
    (h : jitthresholdScan ts ix st en = .ok out) : ClosedIn st en hm out.1 out.2 := by
  obtain ⟨k, r', hk, hr', e1, e2⟩ := threshold_out ts ix st en hix hn out h
  obtain ⟨_, hklt, hle, hskp⟩ := thrLead_spec ts en hn 0 k hk
  have hst0 : st[k]'(by omega) ≤ ts[0] :=
    skip_epoch st en hm hc ts[0] (hin 0 hn) 0 k hklt hle hskp (fun j hj _ => by omega)
  have hep0 : EpV ts ix st en hm 1 ⟨k, if ix[0]'(by omega) then #[2 * ts[0]'(by omega)] else #[], #[]⟩ := by
    refine ⟨by simpa using hn, by simp; omega, hklt, ?_, ⟨hst0, hle⟩, ?_, ?_⟩
    · cases h0 : ix[0]'(by omega) <;> simp
    · intro k' h1 _; simp at h1
    · intro hsz
      dsimp only
      rw [ite_single_get]
      omega
  obtain ⟨_, _, hk', hsz, ⟨_, hep2⟩, hcl, hop⟩ :=
    thrRefLoop_ep ts ix st en hm hc hs hix hin 1 (by omega) (by omega) _ hep0 r' hr'
  rw [e1, e2]
  cases hil : ix[ts.size - 1]'(by omega)
  · simp only [Bool.false_eq_true, if_false]; exact hcl
  · simp only [if_true]
    simp only [hil, if_true] at hsz
    exact closedIn_push_e st en hm _ _ _ hsz hcl ⟨r'.k, by omega, hop hsz, by omega⟩

end Pyn

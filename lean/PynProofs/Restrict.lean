import PynModel.Kernels.Restrict
/-!
# Lemmas about the restrict family (helper lemmas; the property theorems are in `PynProps/C03.lean`)
-/
namespace Pyn

theorem outside_ge (ts : Array Int) (s : Int) (t : Nat) : t ≤ outside ts s t := by
  fun_induction outside ts s t <;> omega

theorem outside_le (ts : Array Int) (s : Int) (t : Nat) (h : t ≤ ts.size) : outside ts s t ≤ ts.size := by
  fun_induction outside ts s t <;> omega

theorem inside_ge (ts : Array Int) (e : Int) (t : Nat) (acc) : t ≤ (inside ts e t acc).1 := by
  fun_induction inside ts e t acc <;> simp_all <;> omega

theorem inside_true_lt (ts : Array Int) (e : Int) (t : Nat) (acc) :
    (inside ts e t acc).2.1 = true → (inside ts e t acc).1 < ts.size := by
  fun_induction inside ts e t acc <;> simp_all

theorem inside_false_eq (ts : Array Int) (e : Int) (t : Nat) (acc) (ht : t ≤ ts.size):
    (inside ts e t acc).2.1 = false → (inside ts e t acc).1 = ts.size := by
  fun_induction inside ts e t acc with
  | case1 t acc h hgt => simp
  | case2 t acc h hgt ih => intro hf; exact ih (by omega) hf
  | case3 t acc h => intro _; simp; omega

/-- spec of the outside loop -/
theorem outside_spec (ts : Array Int) (s : Int) (t : Nat) :
    (∀ i, t ≤ i → i < outside ts s t → (h : i < ts.size) → ts[i] < s) ∧
    ((h : outside ts s t < ts.size) → ts[outside ts s t] ≥ s) := by
  fun_induction outside ts s t with
  | case1 t h hge => exact ⟨fun i h1 h2 => by omega, fun _ => hge⟩
  | case2 t h hlt ih =>
    refine ⟨fun i h1 h2 hi => ?_, ih.2⟩
    by_cases hit : i = t
    · subst hit; omega
    · exact ih.1 i (by omega) h2 hi
  | case3 t h => exact ⟨fun i h1 h2 => by omega, fun h' => by omega⟩

/-- spec of the inside loop -/
theorem inside_spec (ts : Array Int) (e : Int) (t : Nat) (acc : Array Nat) :
    let r := inside ts e t acc
    (∀ i, i ∈ r.2.2 ↔ i ∈ acc ∨ (t ≤ i ∧ i < r.1)) ∧
    (∀ i, t ≤ i → i < r.1 → (h : i < ts.size) → ts[i] ≤ e) ∧
    (r.2.1 = true → (h : r.1 < ts.size) → ts[r.1] > e) := by
  fun_induction inside ts e t acc with
  | case1 t acc h hgt =>
    refine ⟨fun i => ?_, fun i h1 h2 => by omega, fun _ _ => hgt⟩
    simp; omega
  | case2 t acc h hle ih =>
    obtain ⟨ih1, ih2, ih3⟩ := ih
    have hge := inside_ge ts e (t+1) (acc.push t)
    refine ⟨fun i => ?_, fun i h1 h2 hi => ?_, ih3⟩
    · rw [ih1 i]; simp only [Array.mem_push]; constructor
      · rintro ((h|h)|h) <;> first | exact Or.inl h | (right; omega)
      · rintro (h|h)
        · exact Or.inl (Or.inl h)
        · by_cases hit : i = t
          · exact Or.inl (Or.inr hit)
          · right; omega
    · by_cases hit : i = t
      · subst hit; omega
      · exact ih2 i (by omega) h2 hi
  | case3 t acc h =>
    refine ⟨fun i => ?_, fun i h1 h2 => by omega, fun h' => by simp at h'⟩
    simp; omega

/-! ## outer loop invariant -/

theorem st_mono (st en : Array Int) (hm : st.size = en.size) (hc : Canon st en hm)
    (a b : Nat) (hab : a ≤ b) (hb : b < st.size) : st[a]'(by omega) ≤ st[b] := by
  induction b with
  | zero => have : a = 0 := by omega
            subst this; exact Int.le_refl _
  | succ b ih =>
    by_cases h : a = b + 1
    · subst h; exact Int.le_refl _
    · have h1 := ih (by omega) (by omega)
      have h2 := hc.1 b (by omega)
      have h3 := hc.2 b hb
      omega

/-- samples strictly below `t` are decided: in acc iff in some interval -/
def Decided (ts st en : Array Int) (hm : st.size = en.size) (t : Nat) (acc : Array Nat) : Prop :=
  ∀ i, i ∈ acc ↔ (i < t ∧ ∃ hi : i < ts.size, InIv st en hm ts[i])

/-- a sample below `st[k]` and above all `en[k']`, k' < k, is in no interval -/
theorem not_inIv (st en : Array Int) (hm : st.size = en.size) (hc : Canon st en hm)
    (k : Nat) (hk : k < st.size) (x : Int) (hlt : x < st[k])
    (hpast : ∀ k', (hk' : k' < k) → x > en[k']'(by omega)) : ¬ InIv st en hm x := by
  rintro ⟨j, hj, h1, h2⟩
  by_cases hjk : j < k
  · have := hpast j hjk; omega
  · have := st_mono st en hm hc k j (by omega) hj; omega

theorem outer_spec (ts st en : Array Int) (hm : st.size = en.size)
    (hs : Sorted ts) (hc : Canon st en hm) (k t : Nat) (acc : Array Nat)
    (ht : t ≤ ts.size)
    (hpast : ∀ i k', (hi : i < ts.size) → t ≤ i → (hk' : k' < k) → (hk'' : k' < st.size) →
        ts[i] > en[k']'(hm ▸ hk''))
    (hdec : Decided ts st en hm t acc) :
    ∀ i, i ∈ outer ts st en hm k t acc ↔ ∃ hi : i < ts.size, InIv st en hm ts[i] := by
  fun_induction outer ts st en hm k t acc with
  | case1 k t acc hk t1 r hr ih =>
    have hek : k < en.size := hm ▸ hk
    have ho : (∀ i, t ≤ i → i < t1 → (h : i < ts.size) → ts[i] < st[k]) ∧
        ((h : t1 < ts.size) → ts[t1] ≥ st[k]) := outside_spec ts st[k] t
    have ht1 : t ≤ t1 := outside_ge ts st[k] t
    have ht1n : t1 ≤ ts.size := outside_le ts st[k] t ht
    have hi : (∀ i, i ∈ r.2.2 ↔ i ∈ acc ∨ (t1 ≤ i ∧ i < r.1)) ∧
        (∀ i, t1 ≤ i → i < r.1 → (h : i < ts.size) → ts[i] ≤ en[k]) ∧
        (r.2.1 = true → (h : r.1 < ts.size) → ts[r.1] > en[k]) := inside_spec ts en[k] t1 acc
    have hr1 : t1 ≤ r.1 := inside_ge ts en[k] t1 acc
    have hrn : r.1 < ts.size := inside_true_lt ts en[k] t1 acc hr
    apply ih (by omega)
    · -- hpast'
      intro i k' hi' hge hk' hk''
      by_cases hkk : k' < k
      · exact hpast i k' hi' (by omega) hkk hk''
      · have : k' = k := by omega
        subst this
        have h3 := hi.2.2 hr hrn
        have h4 := hs r.1 i hrn hi' hge
        omega
    · -- Decided'
      intro i
      rw [hi.1 i, hdec i]
      constructor
      · rintro (⟨h1, h2⟩ | ⟨h1, h2⟩)
        · exact ⟨by omega, h2⟩
        · refine ⟨h2, by omega, k, hk, ?_, ?_⟩
          · have h5 := ho.2 (by omega)
            have h6 := hs t1 i (by omega) (by omega) h1
            omega
          · exact hi.2.1 i h1 h2 (by omega)
      · rintro ⟨h1, h2, h3⟩
        by_cases hit : i < t
        · exact Or.inl ⟨hit, h2, h3⟩
        · right
          refine ⟨?_, h1⟩
          -- i ≥ t1, else not in any interval
          by_cases hlt : i < t1
          · exfalso
            exact not_inIv st en hm hc k hk ts[i] (ho.1 i (by omega) hlt h2)
              (fun k' hk' => hpast i k' h2 (by omega) hk' (by omega)) h3
          · omega
  | case2 k t acc hk t1 r hr =>
    have hek : k < en.size := hm ▸ hk
    have ho : (∀ i, t ≤ i → i < t1 → (h : i < ts.size) → ts[i] < st[k]) ∧
        ((h : t1 < ts.size) → ts[t1] ≥ st[k]) := outside_spec ts st[k] t
    have ht1 : t ≤ t1 := outside_ge ts st[k] t
    have ht1n : t1 ≤ ts.size := outside_le ts st[k] t ht
    have hi : (∀ i, i ∈ r.2.2 ↔ i ∈ acc ∨ (t1 ≤ i ∧ i < r.1)) ∧
        (∀ i, t1 ≤ i → i < r.1 → (h : i < ts.size) → ts[i] ≤ en[k]) ∧
        (r.2.1 = true → (h : r.1 < ts.size) → ts[r.1] > en[k]) := inside_spec ts en[k] t1 acc
    have hrn : r.1 = ts.size := inside_false_eq ts en[k] t1 acc ht1n (by simpa using hr)
    intro i
    rw [hi.1 i, hdec i]
    constructor
    · rintro (⟨h1, h2⟩ | ⟨h1, h2⟩)
      · exact h2
      · refine ⟨by omega, k, hk, ?_, ?_⟩
        · have h5 := ho.2 (by omega)
          have h6 := hs t1 i (by omega) (by omega) h1
          omega
        · exact hi.2.1 i h1 h2 (by omega)
    · rintro ⟨h2, h3⟩
      by_cases hit : i < t
      · exact Or.inl ⟨hit, h2, h3⟩
      · right
        refine ⟨?_, by omega⟩
        by_cases hlt : i < t1
        · exfalso
          exact not_inIv st en hm hc k hk ts[i] (ho.1 i (by omega) hlt h2)
            (fun k' hk' => hpast i k' h2 (by omega) hk' (by omega)) h3
        · omega
  | case3 k t acc hk =>
    intro i
    rw [hdec i]
    constructor
    · rintro ⟨_, h⟩; exact h
    · rintro ⟨h2, j, hj, h3, h4⟩
      refine ⟨?_, h2, j, hj, h3, h4⟩
      by_cases hit : i < t
      · exact hit
      · have := hpast i j h2 (by omega) (by omega) hj
        omega

/-! ## the guarded leading scan -/

theorem lead_le (ts en : Array Int) (k : Nat) (h : k ≤ en.size) : lead ts en k ≤ en.size := by
  fun_induction lead ts en k <;> omega

theorem lead_ge (ts en : Array Int) (k : Nat) : k ≤ lead ts en k := by
  fun_induction lead ts en k <;> omega

/-- every epoch skipped by the leading scan ends before the first sample -/
theorem lead_spec (ts en : Array Int) (k : Nat) :
    ∀ k', k ≤ k' → k' < lead ts en k → (hk' : k' < en.size) → ∃ h0 : 0 < ts.size, en[k'] < ts[0] := by
  fun_induction lead ts en k with
  | case1 k hk ht hlt ih =>
    intro k' h1 h2 hk'
    by_cases hkk : k' = k
    · subst hkk; exact ⟨ht, hlt⟩
    · exact ih k' (by omega) h2 hk'
  | case2 k hk ht hge => intro k' h1 h2; omega
  | case3 k hk ht => intro k' h1 h2; omega
  | case4 k hk => intro k' h1 h2; omega

/-- `jitrestrict` returns exactly the indices of the samples lying in some closed interval -/
theorem jitrestrict_mem (ts st en : Array Int) (hm : st.size = en.size)
    (hs : Sorted ts) (hc : Canon st en hm) :
    ∀ i, i ∈ jitrestrict ts st en hm ↔ ∃ hi : i < ts.size, InIv st en hm ts[i] := by
  unfold jitrestrict
  apply outer_spec ts st en hm hs hc (lead ts en 0) 0 #[] (Nat.zero_le _)
  · intro i k' hi _ hk' hk''
    obtain ⟨h0, hlt⟩ := lead_spec ts en 0 k' (Nat.zero_le _) hk' (hm ▸ hk'')
    have := hs 0 i h0 hi (Nat.zero_le _)
    omega
  · intro i; simp

/-! ## order and size of the result -/

def IncBelow (acc : Array Nat) (t : Nat) : Prop :=
  acc.toList.Pairwise (· < ·) ∧ ∀ a ∈ acc, a < t

theorem inside_inc (ts : Array Int) (e : Int) (t : Nat) (acc : Array Nat) (h : IncBelow acc t) :
    IncBelow (inside ts e t acc).2.2 (inside ts e t acc).1 := by
  fun_induction inside ts e t acc with
  | case1 t acc ht hgt => exact h
  | case2 t acc ht hle ih =>
    apply ih
    refine ⟨?_, ?_⟩
    · rw [Array.toList_push, List.pairwise_append]
      refine ⟨h.1, by simp, ?_⟩
      intro a ha b hb
      simp at hb; subst hb
      exact h.2 a (by simpa using ha)
    · intro a ha
      simp only [Array.mem_push] at ha
      rcases ha with ha | ha
      · have := h.2 a ha; omega
      · omega
  | case3 t acc ht => exact h

theorem IncBelow.mono {acc : Array Nat} {t t' : Nat} (h : IncBelow acc t) (htt : t ≤ t') :
    IncBelow acc t' := ⟨h.1, fun a ha => by have := h.2 a ha; omega⟩

theorem outer_inc (ts st en : Array Int) (hm : st.size = en.size) (k t : Nat) (acc : Array Nat)
    (h : IncBelow acc t) (ht : t ≤ ts.size) :
    IncBelow (outer ts st en hm k t acc) ts.size := by
  fun_induction outer ts st en hm k t acc with
  | case1 k t acc hk t1 r hr ih =>
    have h1 : t ≤ t1 := outside_ge ts st[k] t
    have h1n : t1 ≤ ts.size := outside_le ts st[k] t ht
    have hrn : r.1 < ts.size := inside_true_lt ts _ t1 acc hr
    exact ih (inside_inc ts _ t1 acc (h.mono h1)) (by omega)
  | case2 k t acc hk t1 r hr =>
    have h1 : t ≤ t1 := outside_ge ts st[k] t
    have h1n : t1 ≤ ts.size := outside_le ts st[k] t ht
    have hrn : r.1 = ts.size := inside_false_eq ts _ t1 acc h1n (by simpa using hr)
    have := inside_inc ts (en[k]'(hm ▸ hk)) t1 acc (h.mono h1)
    exact hrn ▸ this
  | case3 k t acc hk => exact h.mono ht

/-- the result is strictly increasing and every index is in range -/
theorem jitrestrict_inc (ts st en : Array Int) (hm : st.size = en.size) :
    IncBelow (jitrestrict ts st en hm) ts.size := by
  unfold jitrestrict
  exact outer_inc ts st en hm _ 0 #[] ⟨by simp, by simp⟩ (Nat.zero_le _)

/-- a strictly increasing list of naturals below `n` has at most `n` elements: the writes
`ix[x] = t` stay inside the preallocated `ix = np.zeros(n)` -/
theorem pairwise_lt_length_aux (l : List Nat) (n : Nat) (hp : l.Pairwise (· < ·)) (hb : ∀ a ∈ l, a < n) :
    ∀ m, (∀ a ∈ l, m ≤ a) → l.length ≤ n - m := by
  induction l with
  | nil => intro m _; simp
  | cons x xs ih =>
    intro m hm
    rw [List.pairwise_cons] at hp
    have h1 := ih hp.2 (fun a ha => hb a (by simp [ha])) (x+1) (fun a ha => hp.1 a ha)
    have h2 := hb x (by simp)
    have h3 := hm x (by simp)
    simp only [List.length_cons]
    omega

theorem pairwise_lt_length (l : List Nat) (n : Nat) (hp : l.Pairwise (· < ·)) (hb : ∀ a ∈ l, a < n) :
    l.length ≤ n := by
  have := pairwise_lt_length_aux l n hp hb 0 (fun _ _ => Nat.zero_le _)
  omega

theorem jitrestrict_size_le (ts st en : Array Int) (hm : st.size = en.size) :
    (jitrestrict ts st en hm).size ≤ ts.size := by
  have h := jitrestrict_inc ts st en hm
  have := pairwise_lt_length (jitrestrict ts st en hm).toList ts.size h.1 (by simpa using h.2)
  simpa using this

end Pyn

import PynModel.Core.Search
namespace Pyn

theorem ssLeft_bounds (a : Array Int) (x : Int) (i : Nat) (hi : i ≤ a.size) :
    i ≤ ssLeft a x i ∧ ssLeft a x i ≤ a.size := by
  fun_induction ssLeft a x i <;> omega

theorem ssLeft_spec (a : Array Int) (x : Int) (i : Nat) (hs : Sorted a) :
    (∀ k, i ≤ k → k < ssLeft a x i → (hk : k < a.size) → a[k] < x) ∧
    (∀ k, ssLeft a x i ≤ k → (hk : k < a.size) → a[k] ≥ x) := by
  fun_induction ssLeft a x i with
  | case1 i h hlt ih =>
    refine ⟨fun k h1 h2 hk => ?_, ih.2⟩
    by_cases hki : k = i
    · subst hki; exact hlt
    · exact ih.1 k (by omega) h2 hk
  | case2 i h hge =>
    refine ⟨fun k h1 h2 => by omega, fun k h1 hk => ?_⟩
    have := hs i k h hk h1; omega
  | case3 i h => exact ⟨fun k h1 h2 => by omega, fun k h1 hk => by omega⟩

theorem ssRight_bounds (a : Array Int) (x : Int) (i : Nat) (hi : i ≤ a.size) :
    i ≤ ssRight a x i ∧ ssRight a x i ≤ a.size := by
  fun_induction ssRight a x i <;> omega

theorem ssRight_spec (a : Array Int) (x : Int) (i : Nat) (hs : Sorted a) :
    (∀ k, i ≤ k → k < ssRight a x i → (hk : k < a.size) → a[k] ≤ x) ∧
    (∀ k, ssRight a x i ≤ k → (hk : k < a.size) → a[k] > x) := by
  fun_induction ssRight a x i with
  | case1 i h hlt ih =>
    refine ⟨fun k h1 h2 hk => ?_, ih.2⟩
    by_cases hki : k = i
    · subst hki; exact hlt
    · exact ih.1 k (by omega) h2 hk
  | case2 i h hge =>
    refine ⟨fun k h1 h2 => by omega, fun k h1 hk => ?_⟩
    have := hs i k h hk h1; omega
  | case3 i h => exact ⟨fun k h1 h2 => by omega, fun k h1 hk => by omega⟩

/-- for sorted `a`: index `k` lies in `[ssLeft a lo, ssLeft a hi)` iff `lo ≤ a[k] < hi` -/
theorem ssLeft_window (a : Array Int) (lo hi : Int) (hs : Sorted a) (k : Nat) (hk : k < a.size) :
    (ssLeft a lo 0 ≤ k ∧ k < ssLeft a hi 0) ↔ (lo ≤ a[k] ∧ a[k] < hi) := by
  have h1 := ssLeft_spec a lo 0 hs
  have h2 := ssLeft_spec a hi 0 hs
  constructor
  · rintro ⟨ha, hb⟩
    exact ⟨h1.2 k ha hk, h2.1 k (Nat.zero_le _) hb hk⟩
  · rintro ⟨ha, hb⟩
    refine ⟨?_, ?_⟩
    · by_cases hc : ssLeft a lo 0 ≤ k
      · exact hc
      · have := h1.1 k (Nat.zero_le _) (by omega) hk; omega
    · by_cases hc : k < ssLeft a hi 0
      · exact hc
      · have := h2.2 k (by omega) hk; omega

/-- for sorted `a`: index `k` lies in `[ssLeft a lo, ssRight a hi)` iff `lo ≤ a[k] ≤ hi` -/
theorem ss_closed_window (a : Array Int) (lo hi : Int) (hs : Sorted a) (k : Nat) (hk : k < a.size) :
    (ssLeft a lo 0 ≤ k ∧ k < ssRight a hi 0) ↔ (lo ≤ a[k] ∧ a[k] ≤ hi) := by
  have h1 := ssLeft_spec a lo 0 hs
  have h2 := ssRight_spec a hi 0 hs
  constructor
  · rintro ⟨ha, hb⟩
    exact ⟨h1.2 k ha hk, h2.1 k (Nat.zero_le _) hb hk⟩
  · rintro ⟨ha, hb⟩
    refine ⟨?_, ?_⟩
    · by_cases hc : ssLeft a lo 0 ≤ k
      · exact hc
      · have := h1.1 k (Nat.zero_le _) (by omega) hk; omega
    · by_cases hc : k < ssRight a hi 0
      · exact hc
      · have := h2.2 k (by omega) hk; omega

end Pyn

import PynModel.Kernels.SetOps
/-! # Lemmas about the set-operation sweeps -/
namespace Pyn

/-- what every emitted entry of `jitintersect` satisfies: it is the intersection of its two
recorded parents, and that intersection has positive length -/
def IEntryOK (s1 e1 s2 e2 : Array Int) (h1 : s1.size = e1.size) (h2 : s2.size = e2.size)
    (a b : Int) (p : Nat × Nat) : Prop :=
  ∃ hi : p.1 < s1.size, ∃ hj : p.2 < s2.size,
    a = max s1[p.1] s2[p.2] ∧ b = min (e1[p.1]'(h1 ▸ hi)) (e2[p.2]'(h2 ▸ hj)) ∧
    s2[p.2] < e1[p.1]'(h1 ▸ hi) ∧ s1[p.1] < e2[p.2]'(h2 ▸ hj)

def IOutOK (s1 e1 s2 e2 : Array Int) (h1 : s1.size = e1.size) (h2 : s2.size = e2.size) (o : IOut) : Prop :=
  o.st.size = o.en.size ∧ o.st.size = o.par.size ∧
  ∀ k, (hk : k < o.st.size) → (hk2 : k < o.en.size) → (hk3 : k < o.par.size) →
    IEntryOK s1 e1 s2 e2 h1 h2 o.st[k] o.en[k] o.par[k]

theorem skipTo_spec (e2 : Array Int) (s : Int) (j : Nat) (h : skipTo e2 s j < e2.size) :
    e2[skipTo e2 s j] > s := by
  fun_induction skipTo e2 s j with
  | case1 j hj hgt => exact hgt
  | case2 j hj hle ih => exact ih h
  | case3 j hj => omega

theorem IOutOK_push (s1 e1 s2 e2 : Array Int) (h1) (h2) (o : IOut) (ho : IOutOK s1 e1 s2 e2 h1 h2 o)
    (a b : Int) (p : Nat × Nat) (hp : IEntryOK s1 e1 s2 e2 h1 h2 a b p) :
    IOutOK s1 e1 s2 e2 h1 h2 { st := o.st.push a, en := o.en.push b, par := o.par.push p } := by
  obtain ⟨h3, h4, h5⟩ := ho
  refine ⟨by simp [h3], by simp [h4], ?_⟩
  intro k hk hk2 hk3
  simp only [Array.size_push] at hk hk2 hk3
  by_cases hlast : k = o.st.size
  · subst hlast
    have e1' : (o.st.push a)[o.st.size] = a := by simp
    have e2' : (o.en.push b)[o.st.size] = b := by simp [h3]
    have e3' : (o.par.push p)[o.st.size] = p := by simp [h4]
    simp only [e1', e2', e3']; exact hp
  · have hk' : k < o.st.size := by omega
    have e1' : (o.st.push a)[k] = o.st[k] := Array.getElem_push_lt hk'
    have e2' : (o.en.push b)[k] = o.en[k]'(by omega) := Array.getElem_push_lt (by omega)
    have e3' : (o.par.push p)[k] = o.par[k]'(by omega) := Array.getElem_push_lt (by omega)
    simp only [e1', e2', e3']; exact h5 k hk' (by omega) (by omega)

theorem jitintersectLoop_ok (s1 e1 s2 e2 : Array Int) (h1 : s1.size = e1.size) (h2 : s2.size = e2.size)
    (i j : Nat) (out : IOut) (ho : IOutOK s1 e1 s2 e2 h1 h2 out) :
    IOutOK s1 e1 s2 e2 h1 h2 (jitintersectLoop s1 e1 s2 e2 h1 h2 i j out) := by
  fun_induction jitintersectLoop s1 e1 s2 e2 h1 h2 i j out with
  | case1 i j out hi j' hj hj2 hi1 hov out' hlt ih =>
    apply ih
    exact IOutOK_push s1 e1 s2 e2 h1 h2 out ho _ _ _
      ⟨hi, hj2, rfl, rfl, hov, skipTo_spec e2 s1[i] j hj⟩
  | case2 i j out hi j' hj hj2 hi1 hov out' hge ih =>
    apply ih
    exact IOutOK_push s1 e1 s2 e2 h1 h2 out ho _ _ _
      ⟨hi, hj2, rfl, rfl, hov, skipTo_spec e2 s1[i] j hj⟩
  | case3 i j out hi j' hj hj2 hi1 hnov ih => exact ih ho
  | case4 i j out hi j' hj => exact ho
  | case5 i j out hi => exact ho

/-! ## completeness of the intersect sweep on canonical operands -/

theorem canon_st_step (st en : Array Int) (hm : st.size = en.size) (hc : Canon st en hm) (k : Nat) (h : k + 1 < st.size) :
    st[k] < st[k+1] := by
  have := hc.1 k (by omega); have := hc.2 k h; omega

theorem canon_sep (st en : Array Int) (hm : st.size = en.size) (hc : Canon st en hm) (a d : Nat) (h : a + d + 1 < st.size) :
    en[a]'(by omega) < st[a + d + 1] := by
  induction d with
  | zero => exact hc.2 a h
  | succ d ih =>
    have h1 := ih (by omega)
    have h2 := canon_st_step st en hm hc (a + d + 1) (by omega)
    have e : a + (d + 1) + 1 = a + d + 1 + 1 := by omega
    simp only [e]; omega

theorem canon_sep' (st en : Array Int) (hm : st.size = en.size) (hc : Canon st en hm) (a b : Nat) (hab : a < b) (hb : b < st.size) :
    en[a]'(by omega) < st[b] := by
  have := canon_sep st en hm hc a (b - a - 1) (by omega)
  have e : a + (b - a - 1) + 1 = b := by omega
  simp only [e] at this; exact this

theorem canon_st_mono (st en : Array Int) (hm : st.size = en.size) (hc : Canon st en hm) (a b : Nat) (hab : a ≤ b) (hb : b < st.size) :
    st[a]'(by omega) ≤ st[b] := by
  rcases Nat.eq_or_lt_of_le hab with h | h
  · subst h; exact Int.le_refl _
  · have := canon_sep' st en hm hc a b h hb; have := hc.1 a (by omega); omega

theorem canon_en_mono (st en : Array Int) (hm : st.size = en.size) (hc : Canon st en hm) (a b : Nat) (hab : a ≤ b) (hb : b < st.size) :
    en[a]'(by omega) ≤ en[b]'(by omega) := by
  rcases Nat.eq_or_lt_of_le hab with h | h
  · subst h; exact Int.le_refl _
  · have := canon_sep' st en hm hc a b h hb; have := hc.1 b hb; omega

theorem skipTo_skipped (e2 : Array Int) (s : Int) (j : Nat) (b : Nat) (hjb : j ≤ b) (hb : b < skipTo e2 s j) (hb2 : b < e2.size) :
    e2[b] ≤ s := by
  fun_induction skipTo e2 s j with
  | case1 j hj hgt => omega
  | case2 j hj hle ih =>
    rcases Nat.eq_or_lt_of_le hjb with h | h
    · subst h; omega
    · exact ih (by omega) hb
  | case3 j hj => omega

/-- intervals `a` of A and `b` of B overlap with positive length -/
def Ovl (s1 e1 s2 e2 : Array Int) (h1 : s1.size = e1.size) (h2 : s2.size = e2.size) (a b : Nat) : Prop :=
  ∃ ha : a < s1.size, ∃ hb : b < s2.size, s1[a] < e2[b]'(h2 ▸ hb) ∧ s2[b] < e1[a]'(h1 ▸ ha)

def ICovered (s1 e1 s2 e2 : Array Int) (h1 : s1.size = e1.size) (h2 : s2.size = e2.size) (i j : Nat) (out : IOut) : Prop :=
  ∀ a b, Ovl s1 e1 s2 e2 h1 h2 a b → (a < i ∨ b < j) → (a, b) ∈ out.par

theorem jitintersectLoop_complete (s1 e1 s2 e2 : Array Int) (h1 : s1.size = e1.size) (h2 : s2.size = e2.size)
    (hcA : Canon s1 e1 h1) (hcB : Canon s2 e2 h2) (i j : Nat) (out : IOut)
    (hinv : ICovered s1 e1 s2 e2 h1 h2 i j out) (a b : Nat) (hab : Ovl s1 e1 s2 e2 h1 h2 a b) :
    (a, b) ∈ (jitintersectLoop s1 e1 s2 e2 h1 h2 i j out).par := by
  fun_induction jitintersectLoop s1 e1 s2 e2 h1 h2 i j out with
  | case1 i j out hi j' hj hj2 hi1 hov out' hlt ih =>
    apply ih
    intro a' b' hab' hor
    obtain ⟨ha', hb', o1, o2⟩ := hab'
    simp only [out', Array.mem_push]
    by_cases hd : a' < i ∨ b' < j
    · exact Or.inl (hinv a' b' ⟨ha', hb', o1, o2⟩ hd)
    · have hai : i ≤ a' := by omega
      have hbj : j ≤ b' := by omega
      have hbj' : b' ≤ j' := by omega
      -- b' < j' impossible: skipped ones end before s1[i] ≤ s1[a']
      rcases Nat.eq_or_lt_of_le hbj' with hb'' | hb''
      · subst hb''
        rcases Nat.eq_or_lt_of_le hai with ha'' | ha''
        · subst ha''; exact Or.inr rfl
        · exfalso
          have := canon_sep' s1 e1 h1 hcA i a' ha'' ha'
          omega
      · exfalso
        have h3 := skipTo_skipped e2 s1[i] j b' hbj hb'' (by omega)
        have h4 := canon_st_mono s1 e1 h1 hcA i a' hai ha'
        omega
  | case2 i j out hi j' hj hj2 hi1 hov out' hge ih =>
    apply ih
    intro a' b' hab' hor
    obtain ⟨ha', hb', o1, o2⟩ := hab'
    simp only [out', Array.mem_push]
    by_cases hd : a' < i ∨ b' < j
    · exact Or.inl (hinv a' b' ⟨ha', hb', o1, o2⟩ hd)
    · have hai : i ≤ a' := by omega
      have hbj : j ≤ b' := by omega
      by_cases hbl : b' < j'
      · exfalso
        have h3 := skipTo_skipped e2 s1[i] j b' hbj hbl (by omega)
        have h4 := canon_st_mono s1 e1 h1 hcA i a' hai ha'
        omega
      · have ha'' : a' = i := by omega
        subst ha''
        rcases Nat.eq_or_lt_of_le (show j' ≤ b' by omega) with hb'' | hb''
        · subst hb''; exact Or.inr rfl
        · exfalso
          have := canon_sep' s2 e2 h2 hcB j' b' hb'' hb'
          omega
  | case3 i j out hi j' hj hj2 hi1 hnov ih =>
    apply ih
    intro a' b' hab' hor
    obtain ⟨ha', hb', o1, o2⟩ := hab'
    by_cases hd : a' < i ∨ b' < j
    · exact hinv a' b' ⟨ha', hb', o1, o2⟩ hd
    · exfalso
      have hai : i ≤ a' := by omega
      have hbj : j ≤ b' := by omega
      by_cases hbl : b' < j'
      · have h3 := skipTo_skipped e2 s1[i] j b' hbj hbl (by omega)
        have h4 := canon_st_mono s1 e1 h1 hcA i a' hai ha'
        omega
      · have ha'' : a' = i := by omega
        subst ha''
        have := canon_st_mono s2 e2 h2 hcB j' b' (by omega) hb'
        omega
  | case4 i j out hi j' hj =>
    obtain ⟨ha', hb', o1, o2⟩ := hab
    by_cases hd : a < i ∨ b < j
    · exact hinv a b ⟨ha', hb', o1, o2⟩ hd
    · exfalso
      have h3 := skipTo_skipped e2 s1[i] j b (by omega) (by omega) (by omega)
      have h4 := canon_st_mono s1 e1 h1 hcA i a (by omega) ha'
      omega
  | case5 i j out hi =>
    obtain ⟨ha', hb', o1, o2⟩ := hab
    exact hinv a b ⟨ha', hb', o1, o2⟩ (Or.inl (by omega))

/-! ## membership in an output of the union kernels -/

/-- membership of an instant in a `UOut` -/
def InU (o : UOut) (x : Int) : Prop :=
  ∃ k, ∃ h1 : k < o.st.size, ∃ h2 : k < o.en.size, o.st[k] ≤ x ∧ x ≤ o.en[k]

theorem InU_push (o : UOut) (hsz : o.st.size = o.en.size) (s e x : Int) :
    InU { st := o.st.push s, en := o.en.push e } x ↔ InU o x ∨ (s ≤ x ∧ x ≤ e) := by
  constructor
  · rintro ⟨k, h1, h2, a, b⟩
    simp only [Array.size_push] at h1 h2
    by_cases hk : k < o.st.size
    · left
      refine ⟨k, hk, by omega, ?_, ?_⟩
      · simpa [Array.getElem_push_lt hk] using a
      · have hk2 : k < o.en.size := by omega
        simpa [Array.getElem_push_lt hk2] using b
    · right
      have hk1 : k = o.st.size := by omega
      subst hk1
      constructor
      · simpa using a
      · have : o.st.size = o.en.size := hsz
        simp only [this] at b ⊢
        simpa using b
  · rintro (⟨k, h1, h2, a, b⟩ | ⟨a, b⟩)
    · refine ⟨k, by simp; omega, by simp; omega, ?_, ?_⟩
      · simpa [Array.getElem_push_lt h1] using a
      · simpa [Array.getElem_push_lt h2] using b
    · refine ⟨o.st.size, by simp, by simp; omega, ?_, ?_⟩
      · simpa using a
      · simp only [hsz]; simpa using b

end Pyn

import PynModel.Kernels.SetOps
/-! # Lemmas about the set-operation sweeps -/
namespace Pyn

/-- what every emitted entry of `jitintersect` satisfies: it is the intersection of its two
recorded parents, and that intersection has positive length -/
def IEntryOK (s1 e1 s2 e2 : Array Int) (h1 : s1.size = e1.size) (h2 : s2.size = e2.size)
    (a b : Int) (p : Nat × Nat) : Prop :=
  ∃ hi : p.1 < s1.size, ∃ hj : p.2 < s2.size,
    a = max s1[p.1] s2[p.2] ∧ b = min (e1[p.1]'(h1 ▸ hi)) (e2[p.2]'(h2 ▸ hj)) ∧
    s2[p.2] < e1[p.1]'(h1 ▸ hi) ∧ s1[p.1] < e2[p.2]'(h2 ▸ hj)

def IOutOK (s1 e1 s2 e2 : Array Int) (h1 : s1.size = e1.size) (h2 : s2.size = e2.size) (o : IOut) : Prop :=
  o.st.size = o.en.size ∧ o.st.size = o.par.size ∧
  ∀ k, (hk : k < o.st.size) → (hk2 : k < o.en.size) → (hk3 : k < o.par.size) →
    IEntryOK s1 e1 s2 e2 h1 h2 o.st[k] o.en[k] o.par[k]

theorem skipTo_spec (e2 : Array Int) (s : Int) (j : Nat) (h : skipTo e2 s j < e2.size) :
    e2[skipTo e2 s j] > s := by
  fun_induction skipTo e2 s j with
  | case1 j hj hgt => exact hgt
  | case2 j hj hle ih => exact ih h
  | case3 j hj => omega

theorem IOutOK_push (s1 e1 s2 e2 : Array Int) (h1) (h2) (o : IOut) (ho : IOutOK s1 e1 s2 e2 h1 h2 o)
    (a b : Int) (p : Nat × Nat) (hp : IEntryOK s1 e1 s2 e2 h1 h2 a b p) :
    IOutOK s1 e1 s2 e2 h1 h2 { st := o.st.push a, en := o.en.push b, par := o.par.push p } := by
  obtain ⟨h3, h4, h5⟩ := ho
  refine ⟨by simp [h3], by simp [h4], ?_⟩
  intro k hk hk2 hk3
  simp only [Array.size_push] at hk hk2 hk3
  by_cases hlast : k = o.st.size
  · subst hlast
    have e1' : (o.st.push a)[o.st.size] = a := by simp
    have e2' : (o.en.push b)[o.st.size] = b := by simp [h3]
    have e3' : (o.par.push p)[o.st.size] = p := by simp [h4]
    simp only [e1', e2', e3']; exact hp
  · have hk' : k < o.st.size := by omega
    have e1' : (o.st.push a)[k] = o.st[k] := Array.getElem_push_lt hk'
    have e2' : (o.en.push b)[k] = o.en[k]'(by omega) := Array.getElem_push_lt (by omega)
    have e3' : (o.par.push p)[k] = o.par[k]'(by omega) := Array.getElem_push_lt (by omega)
    simp only [e1', e2', e3']; exact h5 k hk' (by omega) (by omega)

theorem jitintersectLoop_ok (s1 e1 s2 e2 : Array Int) (h1 : s1.size = e1.size) (h2 : s2.size = e2.size)
    (i j : Nat) (out : IOut) (ho : IOutOK s1 e1 s2 e2 h1 h2 out) :
    IOutOK s1 e1 s2 e2 h1 h2 (jitintersectLoop s1 e1 s2 e2 h1 h2 i j out) := by
  fun_induction jitintersectLoop s1 e1 s2 e2 h1 h2 i j out with
  | case1 i j out hi j' hj hj2 hi1 hov out' hlt ih =>
    apply ih
    exact IOutOK_push s1 e1 s2 e2 h1 h2 out ho _ _ _
      ⟨hi, hj2, rfl, rfl, hov, skipTo_spec e2 s1[i] j hj⟩
  | case2 i j out hi j' hj hj2 hi1 hov out' hge ih =>
    apply ih
    exact IOutOK_push s1 e1 s2 e2 h1 h2 out ho _ _ _
      ⟨hi, hj2, rfl, rfl, hov, skipTo_spec e2 s1[i] j hj⟩
  | case3 i j out hi j' hj hj2 hi1 hnov ih => exact ih ho
  | case4 i j out hi j' hj => exact ho
  | case5 i j out hi => exact ho

end Pyn

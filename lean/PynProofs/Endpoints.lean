import PynProofs.Union
/-! # Every endpoint of a set-operation result is an endpoint of an operand; no emitted interval is inverted -/
namespace Pyn

/-- `v` is an endpoint of one of the two operands -/
def IsEnd (s1 e1 s2 e2 : Array Int) (v : Int) : Prop := v ∈ s1 ∨ v ∈ e1 ∨ v ∈ s2 ∨ v ∈ e2

/-- every entry of the output is made of endpoints of the operands and is not inverted -/
def EntOK (s1 e1 s2 e2 : Array Int) (st en : Array Int) : Prop :=
  st.size = en.size ∧ ∀ k, (hk : k < st.size) → (hk2 : k < en.size) →
    IsEnd s1 e1 s2 e2 st[k] ∧ IsEnd s1 e1 s2 e2 en[k] ∧ st[k] ≤ en[k]

theorem EntOK_push (s1 e1 s2 e2 st en : Array Int) (ho : EntOK s1 e1 s2 e2 st en) (a b : Int)
    (ha : IsEnd s1 e1 s2 e2 a) (hb : IsEnd s1 e1 s2 e2 b) (hab : a ≤ b) :
    EntOK s1 e1 s2 e2 (st.push a) (en.push b) := by
  obtain ⟨hsz, hk⟩ := ho
  refine ⟨by simp [hsz], ?_⟩
  intro k h1 h2
  simp only [Array.size_push] at h1 h2
  by_cases hlt : k < st.size
  · have := hk k hlt (by omega)
    simpa [Array.getElem_push_lt hlt, Array.getElem_push_lt (show k < en.size by omega)] using this
  · have hk' : k = st.size := by omega
    subst hk'
    have g1 : (st.push a)[st.size]'(by simp) = a := by simp
    have g2 : (en.push b)[st.size]'(by simp [← hsz]) = b := by simp [hsz]
    rw [g1, g2]; exact ⟨ha, hb, hab⟩

theorem unionSkip_ok (s1 e1 s2 e2 : Array Int) (h2 : s2.size = e2.size) (hcB : Canon s2 e2 h2) (s : Int) (j : Nat)
    (out : UOut) (ho : EntOK s1 e1 s2 e2 out.st out.en) :
    EntOK s1 e1 s2 e2 (unionSkip s2 e2 h2 s j out).2.st (unionSkip s2 e2 h2 s j out).2.en := by
  fun_induction unionSkip s2 e2 h2 s j out with
  | case1 j out hj hgt => exact ho
  | case2 j out hj hle ih =>
    apply ih
    exact EntOK_push _ _ _ _ _ _ ho _ _ (Or.inr (Or.inr (Or.inl (Array.getElem_mem _))))
      (Or.inr (Or.inr (Or.inr (Array.getElem_mem _)))) (hcB.1 j (h2 ▸ hj))
  | case3 j out hj => exact ho

theorem emitRest_ok1 (s1 e1 s2 e2 : Array Int) (h1 : s1.size = e1.size) (hcA : Canon s1 e1 h1) (i : Nat) (out : UOut)
    (ho : EntOK s1 e1 s2 e2 out.st out.en) :
    EntOK s1 e1 s2 e2 (emitRest s1 e1 h1 i out).st (emitRest s1 e1 h1 i out).en := by
  fun_induction emitRest s1 e1 h1 i out with
  | case1 i out hi ih =>
    apply ih
    exact EntOK_push _ _ _ _ _ _ ho _ _ (Or.inl (Array.getElem_mem _))
      (Or.inr (Or.inl (Array.getElem_mem _))) (hcA.1 i hi)
  | case2 i out hi => exact ho

theorem emitRest_ok2 (s1 e1 s2 e2 : Array Int) (h2 : s2.size = e2.size) (hcB : Canon s2 e2 h2) (i : Nat) (out : UOut)
    (ho : EntOK s1 e1 s2 e2 out.st out.en) :
    EntOK s1 e1 s2 e2 (emitRest s2 e2 h2 i out).st (emitRest s2 e2 h2 i out).en := by
  fun_induction emitRest s2 e2 h2 i out with
  | case1 i out hi ih =>
    apply ih
    exact EntOK_push _ _ _ _ _ _ ho _ _ (Or.inr (Or.inr (Or.inl (Array.getElem_mem _))))
      (Or.inr (Or.inr (Or.inr (Array.getElem_mem _)))) (hcB.1 i hi)
  | case2 i out hi => exact ho

theorem unionChain_end (s1 e1 s2 e2 : Array Int) (h1 : s1.size = e1.size) (h2 : s2.size = e2.size) (i j : Nat) (cur : Int) :
    i < s1.size → j < s2.size → ((unionChain s1 e1 s2 e2 h1 h2 i j cur).2.2 ∈ e1 ∨ (unionChain s1 e1 s2 e2 h1 h2 i j cur).2.2 ∈ e2) := by
  have hmax : ∀ (a b : Int), a ∈ e1 → b ∈ e2 → (max a b ∈ e1 ∨ max a b ∈ e2) := by
    intro a b ha hb
    rcases Int.le_total a b with h | h
    · right; rw [Int.max_eq_right h]; exact hb
    · left; rw [Int.max_eq_left h]; exact ha
  fun_induction unionChain s1 e1 s2 e2 h1 h2 i j cur with
  | case1 i j cur hi hj hi1 hj2 cur' hlt hi' hsep => intro _ _; exact hmax _ _ (Array.getElem_mem _) (Array.getElem_mem _)
  | case2 i j cur hi hj hi1 hj2 cur' hlt hi' hnsep hdead => intro _ _; exact hmax _ _ (Array.getElem_mem _) (Array.getElem_mem _)
  | case3 i j cur hi hj hi1 hj2 cur' hlt hi' hnsep hnd ih => intro _ _; exact ih hi' hj
  | case4 i j cur hi hj hi1 hj2 cur' hlt hi' => intro _ _; exact hmax _ _ (Array.getElem_mem _) (Array.getElem_mem _)
  | case5 i j cur hi hj hi1 hj2 cur' hge hj' hdead => intro _ _; exact hmax _ _ (Array.getElem_mem _) (Array.getElem_mem _)
  | case6 i j cur hi hj hi1 hj2 cur' hge hj' hnd hsep => intro _ _; exact hmax _ _ (Array.getElem_mem _) (Array.getElem_mem _)
  | case7 i j cur hi hj hi1 hj2 cur' hge hj' hnd hnsep ih => intro _ _; exact ih hi hj'
  | case8 i j cur hi hj hi1 hj2 cur' hge hj' => intro _ _; exact hmax _ _ (Array.getElem_mem _) (Array.getElem_mem _)
  | case9 i j cur hi hj => intro _ h; omega
  | case10 i j cur hi => intro h; omega

theorem jitunionLoop_ok (s1 e1 s2 e2 : Array Int) (h1 : s1.size = e1.size) (h2 : s2.size = e2.size)
    (hcA : Canon s1 e1 h1) (hcB : Canon s2 e2 h2) (i j : Nat) (out : UOut) :
    EntOK s1 e1 s2 e2 out.st out.en → j ≤ e2.size →
    EntOK s1 e1 s2 e2 (jitunionLoop s1 e1 s2 e2 h1 h2 i j out).2.2.st (jitunionLoop s1 e1 s2 e2 h1 h2 i j out).2.2.en := by
  fun_induction jitunionLoop s1 e1 s2 e2 h1 h2 i j out with
  | case1 i j out hi r j' hj hj2 hi1 hov c ih =>
    intro ho hjn
    have hr := unionSkip_ok s1 e1 s2 e2 h2 hcB s1[i] j out ho
    obtain ⟨k1, k2, k3, k4, k5⟩ := unionSkip_spec s2 e2 h2 s1[i] j out ho.1 hjn
    obtain ⟨c1, c2, cb, c3, c4⟩ := unionChain_spec s1 e1 s2 e2 h1 h2 hcA hcB i j' 0 hi hj2
      ⟨Int.le_of_lt (k4 hj), Int.le_of_lt hov⟩
    have hend := unionChain_end s1 e1 s2 e2 h1 h2 i j' 0 hi hj2
    apply ih _ (h2 ▸ cb)
    apply EntOK_push _ _ _ _ _ _ hr
    · rcases Int.le_total s1[i] s2[j'] with h | h
      · rw [Int.min_eq_left h]; exact Or.inl (Array.getElem_mem _)
      · rw [Int.min_eq_right h]; exact Or.inr (Or.inr (Or.inl (Array.getElem_mem _)))
    · rcases hend with h | h
      · exact Or.inr (Or.inl h)
      · exact Or.inr (Or.inr (Or.inr h))
    · have := hcA.1 i hi
      show min s1[i] s2[j'] ≤ (unionChain s1 e1 s2 e2 h1 h2 i j' 0).2.2
      omega
  | case2 i j out hi r j' hj hj2 hi1 hnov ih =>
    intro ho hjn
    have hr := unionSkip_ok s1 e1 s2 e2 h2 hcB s1[i] j out ho
    obtain ⟨k1, k2, k3, k4, k5⟩ := unionSkip_spec s2 e2 h2 s1[i] j out ho.1 hjn
    apply ih _ k3
    exact EntOK_push _ _ _ _ _ _ hr _ _ (Or.inl (Array.getElem_mem _))
      (Or.inr (Or.inl (Array.getElem_mem _))) (hcA.1 i hi)
  | case3 i j out hi r j' hj =>
    intro ho hjn
    exact unionSkip_ok s1 e1 s2 e2 h2 hcB s1[i] j out ho
  | case4 i j out hi =>
    intro ho hjn; exact ho

/-- **every endpoint of the union is an endpoint of an operand**, and no emitted interval is inverted -/
theorem jitunion_entries (s1 e1 s2 e2 : Array Int) (h1 : s1.size = e1.size) (h2 : s2.size = e2.size)
    (hcA : Canon s1 e1 h1) (hcB : Canon s2 e2 h2) :
    EntOK s1 e1 s2 e2 (jitunion s1 e1 s2 e2 h1 h2).st (jitunion s1 e1 s2 e2 h1 h2).en := by
  unfold jitunion
  apply emitRest_ok2 s1 e1 s2 e2 h2 hcB
  apply emitRest_ok1 s1 e1 s2 e2 h1 hcA
  exact jitunionLoop_ok s1 e1 s2 e2 h1 h2 hcA hcB 0 0 {} ⟨rfl, fun k hk => by simp at hk⟩ (Nat.zero_le _)


/-! ## intersect and set_diff -/

theorem max_isEnd (s1 e1 s2 e2 : Array Int) (a b : Int) (ha : IsEnd s1 e1 s2 e2 a) (hb : IsEnd s1 e1 s2 e2 b) :
    IsEnd s1 e1 s2 e2 (max a b) := by
  rcases Int.le_total a b with h | h
  · rw [Int.max_eq_right h]; exact hb
  · rw [Int.max_eq_left h]; exact ha

theorem min_isEnd (s1 e1 s2 e2 : Array Int) (a b : Int) (ha : IsEnd s1 e1 s2 e2 a) (hb : IsEnd s1 e1 s2 e2 b) :
    IsEnd s1 e1 s2 e2 (min a b) := by
  rcases Int.le_total a b with h | h
  · rw [Int.min_eq_left h]; exact ha
  · rw [Int.min_eq_right h]; exact hb

theorem jitintersect_entries (s1 e1 s2 e2 : Array Int) (h1 : s1.size = e1.size) (h2 : s2.size = e2.size)
    (hcA : Canon s1 e1 h1) (hcB : Canon s2 e2 h2) :
    EntOK s1 e1 s2 e2 (jitintersect s1 e1 s2 e2 h1 h2).st (jitintersect s1 e1 s2 e2 h1 h2).en := by
  obtain ⟨ha, hb, hc⟩ := jitintersectLoop_ok s1 e1 s2 e2 h1 h2 0 0 {} ⟨rfl, rfl, fun k hk => by simp at hk⟩
  refine ⟨ha, fun k hk hk2 => ?_⟩
  obtain ⟨hi, hj, hs, he, h3, h4⟩ := hc k hk hk2 (hb ▸ hk)
  have a1 := hcA.1 _ hi
  have a2 := hcB.1 _ hj
  refine ⟨?_, ?_, ?_⟩
  · show IsEnd s1 e1 s2 e2 (jitintersectLoop s1 e1 s2 e2 h1 h2 0 0 {}).st[k]
    rw [hs]
    exact max_isEnd _ _ _ _ _ _ (Or.inl (Array.getElem_mem _)) (Or.inr (Or.inr (Or.inl (Array.getElem_mem _))))
  · show IsEnd s1 e1 s2 e2 (jitintersectLoop s1 e1 s2 e2 h1 h2 0 0 {}).en[k]
    rw [he]
    exact min_isEnd _ _ _ _ _ _ (Or.inr (Or.inl (Array.getElem_mem _))) (Or.inr (Or.inr (Or.inr (Array.getElem_mem _))))
  · show (jitintersectLoop s1 e1 s2 e2 h1 h2 0 0 {}).st[k] ≤ (jitintersectLoop s1 e1 s2 e2 h1 h2 0 0 {}).en[k]
    rw [hs, he]; omega

theorem DEnt_push (s1 e1 s2 e2 : Array Int) (o : DOut) (ho : EntOK s1 e1 s2 e2 o.st o.en) (a b : Int) (p : Nat)
    (ha : IsEnd s1 e1 s2 e2 a) (hb : IsEnd s1 e1 s2 e2 b) (hab : a ≤ b) :
    EntOK s1 e1 s2 e2 (o.push a b p).st (o.push a b p).en := EntOK_push _ _ _ _ _ _ ho a b ha hb hab

theorem diffGaps_ent (s1 e1 s2 e2 : Array Int) (h2 : s2.size = e2.size) (hcB : Canon s2 e2 h2) (e1i : Int) (i : Nat)
    (j : Nat) (hj1 : 1 ≤ j) (out : DOut) (ho : EntOK s1 e1 s2 e2 out.st out.en) :
    EntOK s1 e1 s2 e2 (diffGaps s2 e2 h2 e1i i j hj1 out).1.2.st (diffGaps s2 e2 h2 e1i i j hj1 out).1.2.en := by
  induction hn : s2.size - j generalizing j out with
  | zero =>
    have hnj : ¬ j < s2.size := by omega
    unfold diffGaps
    simp only [dif_neg hnj]; exact ho
  | succ n ih =>
    have hj : j < s2.size := by omega
    unfold diffGaps
    simp only [dif_pos hj]
    split
    · apply ih (j+1) (by omega) _ _ (by omega)
      apply DEnt_push _ _ _ _ _ ho
      · exact Or.inr (Or.inr (Or.inr (Array.getElem_mem _)))
      · exact Or.inr (Or.inr (Or.inl (Array.getElem_mem _)))
      · have := hcB.2 (j-1) (by omega)
        have e : j - 1 + 1 = j := by omega
        simp only [e] at this; omega
    · exact ho

theorem jitdiffLoop_ent (s1 e1 s2 e2 : Array Int) (h1 : s1.size = e1.size) (h2 : s2.size = e2.size)
    (hcA : Canon s1 e1 h1) (hcB : Canon s2 e2 h2) (i j : Nat) (out : DOut) (ho : EntOK s1 e1 s2 e2 out.st out.en) :
    EntOK s1 e1 s2 e2 (jitdiffLoop s1 e1 s2 e2 h1 h2 i j out).2.st (jitdiffLoop s1 e1 s2 e2 h1 h2 i j out).2.en := by
  induction hn : s1.size - i generalizing i j out with
  | zero =>
    unfold jitdiffLoop
    have : ¬ i < s1.size := by omega
    simp only [dif_neg this]; exact ho
  | succ n ih =>
    have hi : i < s1.size := by omega
    unfold jitdiffLoop
    simp only [dif_pos hi]
    split
    · rename_i hj
      have hj2 : skipTo e2 s1[i] j < s2.size := h2 ▸ hj
      split
      · rename_i hov
        split
        · exact ih (i+1) _ _ ho (by omega)
        · rename_i hnot
          have fin : ∀ (o1 : DOut), EntOK s1 e1 s2 e2 o1.st o1.en →
              EntOK s1 e1 s2 e2 (diffGaps s2 e2 h2 (e1[i]'(h1 ▸ hi)) i (skipTo e2 s1[i] j + 1) (by omega) o1).1.2.st
                (diffGaps s2 e2 h2 (e1[i]'(h1 ▸ hi)) i (skipTo e2 s1[i] j + 1) (by omega) o1).1.2.en :=
            fun o1 h => diffGaps_ent s1 e1 s2 e2 h2 hcB _ i _ _ o1 h
          by_cases hc : s2[skipTo e2 s1[i] j]'hj2 > s1[i]
          · simp only [hc, if_true]
            have f := fin (out.push s1[i] (s2[skipTo e2 s1[i] j]'hj2) i)
              (DEnt_push _ _ _ _ _ ho _ _ i (Or.inl (Array.getElem_mem _))
                (Or.inr (Or.inr (Or.inl (Array.getElem_mem _)))) (Int.le_of_lt hc))
            split
            · rename_i hlast
              apply ih (i+1) _ _ _ (by omega)
              exact DEnt_push _ _ _ _ _ f _ _ i (Or.inr (Or.inr (Or.inr (Array.getElem_mem _))))
                (Or.inr (Or.inl (Array.getElem_mem _))) (Int.le_of_lt hlast)
            · exact ih (i+1) _ _ f (by omega)
          · simp only [hc, if_false]
            have f := fin out ho
            split
            · rename_i hlast
              apply ih (i+1) _ _ _ (by omega)
              exact DEnt_push _ _ _ _ _ f _ _ i (Or.inr (Or.inr (Or.inr (Array.getElem_mem _))))
                (Or.inr (Or.inl (Array.getElem_mem _))) (Int.le_of_lt hlast)
            · exact ih (i+1) _ _ f (by omega)
      · apply ih (i+1) _ _ _ (by omega)
        exact DEnt_push _ _ _ _ _ ho _ _ i (Or.inl (Array.getElem_mem _))
          (Or.inr (Or.inl (Array.getElem_mem _))) (hcA.1 i hi)
    · exact ho

theorem emitRestD_ent (s1 e1 s2 e2 : Array Int) (h1 : s1.size = e1.size) (hcA : Canon s1 e1 h1) (i : Nat) (out : DOut)
    (ho : EntOK s1 e1 s2 e2 out.st out.en) :
    EntOK s1 e1 s2 e2 (emitRestD s1 e1 h1 i out).st (emitRestD s1 e1 h1 i out).en := by
  induction hn : s1.size - i generalizing i out with
  | zero =>
    unfold emitRestD
    have : ¬ i < s1.size := by omega
    simp only [dif_neg this]; exact ho
  | succ n ih =>
    have hi : i < s1.size := by omega
    unfold emitRestD
    simp only [dif_pos hi]
    apply ih (i+1) _ _ (by omega)
    exact DEnt_push _ _ _ _ _ ho _ _ i (Or.inl (Array.getElem_mem _)) (Or.inr (Or.inl (Array.getElem_mem _))) (hcA.1 i hi)

/-- every endpoint of `A.set_diff(B)` is an endpoint of A or of B, and no piece is inverted -/
theorem jitdiff_entries (s1 e1 s2 e2 : Array Int) (h1 : s1.size = e1.size) (h2 : s2.size = e2.size)
    (hcA : Canon s1 e1 h1) (hcB : Canon s2 e2 h2) :
    EntOK s1 e1 s2 e2 (jitdiff s1 e1 s2 e2 h1 h2).st (jitdiff s1 e1 s2 e2 h1 h2).en := by
  unfold jitdiff
  exact emitRestD_ent s1 e1 s2 e2 h1 hcA _ _
    (jitdiffLoop_ent s1 e1 s2 e2 h1 h2 hcA hcB 0 0 {} ⟨rfl, fun k hk => by simp at hk⟩)

end Pyn

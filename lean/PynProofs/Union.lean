import PynProofs.Diff
/-! # Lemmas about the binary `jitunion` sweep (skip / chain / loop / tails) -/
namespace Pyn

/-- `x` lies in one of the intervals `lo ≤ a < hi` of the set -/
def InRange (s e : Array Int) (h : s.size = e.size) (lo hi : Nat) (x : Int) : Prop :=
  ∃ a, lo ≤ a ∧ a < hi ∧ InA s e h a x

theorem InRange_empty (s e : Array Int) (h) (lo : Nat) (x : Int) : ¬ InRange s e h lo lo x := by
  rintro ⟨a, h1, h2, _⟩; omega

theorem InRange_succ (s e : Array Int) (h : s.size = e.size) (lo hi : Nat) (hlh : lo ≤ hi) (x : Int) :
    InRange s e h lo (hi+1) x ↔ InRange s e h lo hi x ∨ InA s e h hi x := by
  constructor
  · rintro ⟨a, h1, h2, h3⟩
    rcases Nat.lt_or_ge a hi with hh | hh
    · exact Or.inl ⟨a, h1, hh, h3⟩
    · have : a = hi := by omega
      subst this; exact Or.inr h3
  · rintro (⟨a, h1, h2, h3⟩ | h3)
    · exact ⟨a, h1, by omega, h3⟩
    · exact ⟨hi, hlh, by omega, h3⟩

theorem InRange_first (s e : Array Int) (h : s.size = e.size) (lo hi : Nat) (hlh : lo < hi) (x : Int) :
    InRange s e h lo hi x ↔ InA s e h lo x ∨ InRange s e h (lo+1) hi x := by
  constructor
  · rintro ⟨a, h1, h2, h3⟩
    rcases Nat.eq_or_lt_of_le h1 with hh | hh
    · subst hh; exact Or.inl h3
    · exact Or.inr ⟨a, hh, h2, h3⟩
  · rintro (h3 | ⟨a, h1, h2, h3⟩)
    · exact ⟨lo, Nat.le_refl _, hlh, h3⟩
    · exact ⟨a, by omega, h2, h3⟩

theorem unionSkip_spec (s2 e2 : Array Int) (h2 : s2.size = e2.size) (s : Int) (j : Nat) (out : UOut)
    (hsz : out.st.size = out.en.size) (hjn : j ≤ e2.size) :
    (unionSkip s2 e2 h2 s j out).2.st.size = (unionSkip s2 e2 h2 s j out).2.en.size ∧
    j ≤ (unionSkip s2 e2 h2 s j out).1 ∧ (unionSkip s2 e2 h2 s j out).1 ≤ e2.size ∧
    (∀ hlt : (unionSkip s2 e2 h2 s j out).1 < e2.size, e2[(unionSkip s2 e2 h2 s j out).1] > s) ∧
    (∀ x, InU (unionSkip s2 e2 h2 s j out).2 x ↔ InU out x ∨ InRange s2 e2 h2 j (unionSkip s2 e2 h2 s j out).1 x) := by
  induction hn : e2.size - j generalizing j out with
  | zero =>
    unfold unionSkip
    have : ¬ j < e2.size := by omega
    simp only [dif_neg this]
    refine ⟨hsz, Nat.le_refl _, hjn, fun h => by omega, fun x => ?_⟩
    constructor
    · exact Or.inl
    · rintro (h | h)
      · exact h
      · exact absurd h (InRange_empty _ _ _ _ _)
  | succ n ih =>
    have hj : j < e2.size := by omega
    unfold unionSkip
    simp only [dif_pos hj]
    split
    · rename_i hgt
      refine ⟨hsz, Nat.le_refl _, hjn, fun _ => hgt, fun x => ?_⟩
      constructor
      · exact Or.inl
      · rintro (h | h)
        · exact h
        · exact absurd h (InRange_empty _ _ _ _ _)
    · rename_i hle
      obtain ⟨r1, r2, r3, r4, r5⟩ := ih (j+1) { st := out.st.push (s2[j]'(h2 ▸ hj)), en := out.en.push e2[j] }
        (by simp [hsz]) (by omega) (by omega)
      refine ⟨r1, by omega, r3, r4, fun x => ?_⟩
      rw [r5 x, InU_push out hsz, InRange_first s2 e2 h2 j _ (by omega) x]
      constructor
      · rintro ((h | h) | h)
        · exact Or.inl h
        · exact Or.inr (Or.inl ⟨h2 ▸ hj, h.1, h.2⟩)
        · exact Or.inr (Or.inr h)
      · rintro (h | (⟨_, h⟩ | h))
        · exact Or.inl (Or.inl h)
        · exact Or.inl (Or.inr h)
        · exact Or.inr h

theorem emitRest_spec (s e : Array Int) (h : s.size = e.size) (i : Nat) (out : UOut) (hsz : out.st.size = out.en.size) :
    (emitRest s e h i out).st.size = (emitRest s e h i out).en.size ∧
    (∀ x, InU (emitRest s e h i out) x ↔ InU out x ∨ InRange s e h i s.size x) := by
  induction hn : s.size - i generalizing i out with
  | zero =>
    unfold emitRest
    have : ¬ i < s.size := by omega
    simp only [dif_neg this]
    refine ⟨hsz, fun x => ⟨Or.inl, ?_⟩⟩
    rintro (h | ⟨a, h1, h2, _⟩)
    · exact h
    · omega
  | succ n ih =>
    have hi : i < s.size := by omega
    unfold emitRest
    simp only [dif_pos hi]
    obtain ⟨r1, r2⟩ := ih (i+1) { st := out.st.push s[i], en := out.en.push (e[i]'(h ▸ hi)) } (by simp [hsz]) (by omega)
    refine ⟨r1, fun x => ?_⟩
    rw [r2 x, InU_push out hsz, InRange_first s e h i _ hi x]
    constructor
    · rintro ((h | h) | h)
      · exact Or.inl h
      · exact Or.inr (Or.inl ⟨hi, h.1, h.2⟩)
      · exact Or.inr (Or.inr h)
    · rintro (h | (⟨_, h⟩ | h))
      · exact Or.inl (Or.inl h)
      · exact Or.inl (Or.inr h)
      · exact Or.inr h

theorem InRange_single (s e : Array Int) (h : s.size = e.size) (i : Nat) (x : Int) :
    InRange s e h i (i+1) x ↔ InA s e h i x := by
  rw [InRange_succ s e h i i (Nat.le_refl _) x]
  constructor
  · rintro (h | h)
    · exact absurd h (InRange_empty _ _ _ _ _)
    · exact h
  · exact Or.inr

theorem chain_exit (s1 e1 s2 e2 : Array Int) (h1 : s1.size = e1.size) (h2 : s2.size = e2.size) (i j : Nat)
    (hi : i < s1.size) (hj : j < s2.size) (hconn : s1[i] ≤ e2[j]'(h2 ▸ hj) ∧ s2[j] ≤ e1[i]'(h1 ▸ hi)) (x : Int) :
    (min s1[i] s2[j] ≤ x ∧ x ≤ max (e1[i]'(h1 ▸ hi)) (e2[j]'(h2 ▸ hj))) ↔
      InRange s1 e1 h1 i (i+1) x ∨ InRange s2 e2 h2 j (j+1) x := by
  rw [InRange_single, InRange_single]
  constructor
  · rintro ⟨a, b⟩
    by_cases hx : s1[i] ≤ x ∧ x ≤ e1[i]'(h1 ▸ hi)
    · exact Or.inl ⟨hi, hx.1, hx.2⟩
    · exact Or.inr ⟨hj, by omega, by omega⟩
  · rintro (⟨_, a, b⟩ | ⟨_, a, b⟩) <;> omega

theorem unionChain_spec (s1 e1 s2 e2 : Array Int) (h1 : s1.size = e1.size) (h2 : s2.size = e2.size)
    (hcA : Canon s1 e1 h1) (hcB : Canon s2 e2 h2) (i j : Nat) (cur : Int) :
    (hi : i < s1.size) → (hj : j < s2.size) → (s1[i] ≤ e2[j]'(h2 ▸ hj) ∧ s2[j] ≤ e1[i]'(h1 ▸ hi)) →
    (i ≤ (unionChain s1 e1 s2 e2 h1 h2 i j cur).1 ∧ j ≤ (unionChain s1 e1 s2 e2 h1 h2 i j cur).2.1 ∧
     (unionChain s1 e1 s2 e2 h1 h2 i j cur).2.1 ≤ s2.size ∧
     max (e1[i]'(h1 ▸ hi)) (e2[j]'(h2 ▸ hj)) ≤ (unionChain s1 e1 s2 e2 h1 h2 i j cur).2.2 ∧
     ∀ x, (min s1[i] s2[j] ≤ x ∧ x ≤ (unionChain s1 e1 s2 e2 h1 h2 i j cur).2.2) ↔
        InRange s1 e1 h1 i (unionChain s1 e1 s2 e2 h1 h2 i j cur).1 x ∨
        InRange s2 e2 h2 j (unionChain s1 e1 s2 e2 h1 h2 i j cur).2.1 x) := by
  fun_induction unionChain s1 e1 s2 e2 h1 h2 i j cur with
  | case1 i j cur hi hj hi1 hj2 cur' hlt hi' hsep =>
    intro _ _ hconn
    exact ⟨Nat.le_succ _, Nat.le_succ _, Nat.succ_le_of_lt hj, Int.le_refl _, chain_exit s1 e1 s2 e2 h1 h2 i j hi hj hconn⟩
  | case2 i j cur hi hj hi1 hj2 cur' hlt hi' hnsep hdead =>
    intro _ _ hconn
    exfalso
    have := hcA.2 i hi'; have := hcA.1 (i+1) hi'
    omega
  | case3 i j cur hi hj hi1 hj2 cur' hlt hi' hnsep hnd ih =>
    intro _ _ hconn
    have hsep := hcA.2 i hi'
    obtain ⟨r1, r2, rb, r3, r4⟩ := ih hi' hj ⟨by omega, by omega⟩
    refine ⟨by omega, r2, rb, by omega, fun x => ?_⟩
    rw [InRange_first s1 e1 h1 i _ (by omega) x, or_assoc, ← r4 x]
    constructor
    · rintro ⟨a, b⟩
      by_cases hx : s1[i] ≤ x ∧ x ≤ e1[i]'(h1 ▸ hi)
      · exact Or.inl ⟨hi, hx.1, hx.2⟩
      · exact Or.inr ⟨by omega, b⟩
    · rintro (⟨_, a, b⟩ | ⟨a, b⟩) <;> omega
  | case4 i j cur hi hj hi1 hj2 cur' hlt hi' =>
    intro _ _ hconn
    exact ⟨Nat.le_succ _, Nat.le_succ _, Nat.succ_le_of_lt hj, Int.le_refl _, chain_exit s1 e1 s2 e2 h1 h2 i j hi hj hconn⟩
  | case5 i j cur hi hj hi1 hj2 cur' hge hj' hdead =>
    intro _ _ hconn
    exfalso
    have := hcB.2 j hj'; have := hcB.1 (j+1) hj'
    omega
  | case6 i j cur hi hj hi1 hj2 cur' hge hj' hnd hsep =>
    intro _ _ hconn
    exact ⟨Nat.le_succ _, Nat.le_succ _, Nat.succ_le_of_lt hj, Int.le_refl _, chain_exit s1 e1 s2 e2 h1 h2 i j hi hj hconn⟩
  | case7 i j cur hi hj hi1 hj2 cur' hge hj' hnd hnsep ih =>
    intro _ _ hconn
    have hsep := hcB.2 j hj'
    obtain ⟨r1, r2, rb, r3, r4⟩ := ih hi hj' ⟨by omega, by omega⟩
    refine ⟨r1, by omega, rb, by omega, fun x => ?_⟩
    rw [InRange_first s2 e2 h2 j _ (by omega) x, ← or_assoc, or_comm (a := InRange s1 e1 h1 i _ x), or_assoc, ← r4 x]
    constructor
    · rintro ⟨a, b⟩
      by_cases hx : s2[j] ≤ x ∧ x ≤ e2[j]'(h2 ▸ hj)
      · exact Or.inl ⟨hj, hx.1, hx.2⟩
      · exact Or.inr ⟨by omega, b⟩
    · rintro (⟨_, a, b⟩ | ⟨a, b⟩) <;> omega
  | case8 i j cur hi hj hi1 hj2 cur' hge hj' =>
    intro _ _ hconn
    exact ⟨Nat.le_succ _, Nat.le_succ _, Nat.succ_le_of_lt hj, Int.le_refl _, chain_exit s1 e1 s2 e2 h1 h2 i j hi hj hconn⟩
  | case9 i j cur hi hj => intro _ h; omega
  | case10 i j cur hi => intro h; omega

theorem InRange_split (s e : Array Int) (h : s.size = e.size) (lo mid hi : Nat) (h1 : lo ≤ mid) (h2 : mid ≤ hi) (x : Int) :
    InRange s e h lo hi x ↔ InRange s e h lo mid x ∨ InRange s e h mid hi x := by
  constructor
  · rintro ⟨a, a1, a2, a3⟩
    rcases Nat.lt_or_ge a mid with hh | hh
    · exact Or.inl ⟨a, a1, hh, a3⟩
    · exact Or.inr ⟨a, hh, a2, a3⟩
  · rintro (⟨a, a1, a2, a3⟩ | ⟨a, a1, a2, a3⟩)
    · exact ⟨a, a1, by omega, a3⟩
    · exact ⟨a, by omega, a2, a3⟩

theorem or_shape1 (P0 P1 P2 P3 P4 P5 : Prop) :
    ((P0 ∨ P1) ∨ P2 ∨ P3) ∨ P4 ∨ P5 ↔ P0 ∨ (P2 ∨ P4) ∨ P1 ∨ P3 ∨ P5 := by grind

theorem or_shape2 (P0 P1 PA P4 P5 : Prop) :
    ((P0 ∨ P1) ∨ PA) ∨ P4 ∨ P5 ↔ P0 ∨ (PA ∨ P4) ∨ P1 ∨ P5 := by grind

theorem jitunionLoop_spec (s1 e1 s2 e2 : Array Int) (h1 : s1.size = e1.size) (h2 : s2.size = e2.size)
    (hcA : Canon s1 e1 h1) (hcB : Canon s2 e2 h2) (i j : Nat) (out : UOut) :
    out.st.size = out.en.size → j ≤ e2.size →
    ((jitunionLoop s1 e1 s2 e2 h1 h2 i j out).2.2.st.size = (jitunionLoop s1 e1 s2 e2 h1 h2 i j out).2.2.en.size ∧
     i ≤ (jitunionLoop s1 e1 s2 e2 h1 h2 i j out).1 ∧ j ≤ (jitunionLoop s1 e1 s2 e2 h1 h2 i j out).2.1 ∧
     ∀ x, InU (jitunionLoop s1 e1 s2 e2 h1 h2 i j out).2.2 x ↔
       InU out x ∨ InRange s1 e1 h1 i (jitunionLoop s1 e1 s2 e2 h1 h2 i j out).1 x ∨
         InRange s2 e2 h2 j (jitunionLoop s1 e1 s2 e2 h1 h2 i j out).2.1 x) := by
  fun_induction jitunionLoop s1 e1 s2 e2 h1 h2 i j out with
  | case1 i j out hi r j' hj hj2 hi1 hov c ih =>
    intro hsz hjn
    obtain ⟨k1, k2, k3, k4, k5⟩ := unionSkip_spec s2 e2 h2 s1[i] j out hsz hjn
    obtain ⟨c1, c2, cb, c3, c4⟩ := unionChain_spec s1 e1 s2 e2 h1 h2 hcA hcB i j' 0 hi hj2
      ⟨Int.le_of_lt (k4 hj), Int.le_of_lt hov⟩
    have hcj : (unionChain s1 e1 s2 e2 h1 h2 i j' 0).2.1 ≤ e2.size := h2 ▸ cb
    simp only [c, j', r] at ih ⊢
    obtain ⟨q1, q2, q3, q4⟩ := ih (by simp only [Array.size_push]; exact congrArg (· + 1) k1) hcj
    refine ⟨q1, Nat.le_trans c1 q2, Nat.le_trans k2 (Nat.le_trans c2 q3), fun x => ?_⟩
    rw [q4 x, InU_push _ k1, k5 x, c4 x,
      InRange_split s1 e1 h1 i _ _ c1 q2 x, InRange_split s2 e2 h2 j _ _ k2 (Nat.le_trans c2 q3) x,
      InRange_split s2 e2 h2 _ _ _ c2 q3 x]
    exact or_shape1 _ _ _ _ _ _
  | case2 i j out hi r j' hj hj2 hi1 hnov ih =>
    intro hsz hjn
    obtain ⟨k1, k2, k3, k4, k5⟩ := unionSkip_spec s2 e2 h2 s1[i] j out hsz hjn
    simp only [j', r] at ih ⊢
    obtain ⟨q1, q2, q3, q4⟩ := ih (by simp only [Array.size_push]; exact congrArg (· + 1) k1) k3
    refine ⟨q1, by omega, Nat.le_trans k2 q3, fun x => ?_⟩
    have hA : (s1[i] ≤ x ∧ x ≤ e1[i]'(h1 ▸ hi)) ↔ InA s1 e1 h1 i x :=
      ⟨fun h => ⟨hi, h.1, h.2⟩, fun ⟨_, a, b⟩ => ⟨a, b⟩⟩
    rw [q4 x, InU_push _ k1, k5 x, hA, InRange_first s1 e1 h1 i _ (by omega) x,
      InRange_split s2 e2 h2 j _ _ k2 q3 x]
    exact or_shape2 _ _ _ _ _
  | case3 i j out hi r j' hj =>
    intro hsz hjn
    obtain ⟨k1, k2, k3, k4, k5⟩ := unionSkip_spec s2 e2 h2 s1[i] j out hsz hjn
    simp only [j', r] at hj ⊢
    refine ⟨k1, Nat.le_refl _, k2, fun x => ?_⟩
    rw [k5 x]
    constructor
    · rintro (h | h)
      · exact Or.inl h
      · exact Or.inr (Or.inr h)
    · rintro (h | h | h)
      · exact Or.inl h
      · exact absurd h (InRange_empty _ _ _ _ _)
      · exact Or.inr h
  | case4 i j out hi =>
    intro hsz hjn
    refine ⟨hsz, Nat.le_refl _, Nat.le_refl _, fun x => ⟨Or.inl, ?_⟩⟩
    rintro (h | h | h)
    · exact h
    · exact absurd h (InRange_empty _ _ _ _ _)
    · exact absurd h (InRange_empty _ _ _ _ _)

end Pyn

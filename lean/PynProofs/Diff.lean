import PynProofs.SetOps
/-! # Lemmas about the `jitdiff` sweep: coverage of A minus B, avoidance of B -/
namespace Pyn

/-- membership of an instant in the output of `jitdiff` -/
def InD (o : DOut) (x : Int) : Prop :=
  ∃ k, ∃ h1 : k < o.st.size, ∃ h2 : k < o.en.size, o.st[k] ≤ x ∧ x ≤ o.en[k]

theorem InD_push (o : DOut) (hsz : o.st.size = o.en.size) (s e x : Int) (p : Nat) :
    InD (o.push s e p) x ↔ InD o x ∨ (s ≤ x ∧ x ≤ e) :=
  InU_push ⟨o.st, o.en⟩ hsz s e x

theorem push_sz (o : DOut) (hsz : o.st.size = o.en.size) (s e : Int) (p : Nat) :
    (o.push s e p).st.size = (o.push s e p).en.size := by simp [DOut.push, hsz]

/-- `x` lies in no (closed) interval of B -/
def NotB (s2 e2 : Array Int) (h2 : s2.size = e2.size) (x : Int) : Prop :=
  ∀ b, (hb : b < s2.size) → x < s2[b] ∨ e2[b]'(h2 ▸ hb) < x

theorem diffGaps_cover (s2 e2 : Array Int) (h2 : s2.size = e2.size) (e1i : Int) (i : Nat) (x : Int)
    (hnb : NotB s2 e2 h2 x) (j : Nat) (hj1 : 1 ≤ j) (hjn : j ≤ s2.size) (out : DOut) (hsz : out.st.size = out.en.size)
    :
    (diffGaps s2 e2 h2 e1i i j hj1 out).1.2.st.size = (diffGaps s2 e2 h2 e1i i j hj1 out).1.2.en.size ∧
    (∀ y, InD out y → InD (diffGaps s2 e2 h2 e1i i j hj1 out).1.2 y) ∧
    ((InD out x ∨ e2[j-1]'(by omega) < x) → (InD (diffGaps s2 e2 h2 e1i i j hj1 out).1.2 x ∨
      e2[(diffGaps s2 e2 h2 e1i i j hj1 out).1.1 - 1]'(by
        have := (diffGaps s2 e2 h2 e1i i j hj1 out).2; omega) < x)) := by
  induction hn : s2.size - j generalizing j out with
  | zero =>
    have hnj : ¬ j < s2.size := by omega
    unfold diffGaps
    simp only [dif_neg hnj]
    exact ⟨hsz, fun y hy => hy, fun hx => hx⟩
  | succ n ih =>
    have hj : j < s2.size := by omega
    unfold diffGaps
    simp only [dif_pos hj]
    split
    · rename_i hlt
      have hsz' := push_sz out hsz (e2[j-1]'(by omega)) s2[j] i
      have hx' : (InD out x ∨ e2[j-1]'(by omega) < x) → InD (out.push (e2[j-1]'(by omega)) s2[j] i) x ∨ e2[j+1-1]'(by omega) < x := by
        intro hx
        rcases hx with hx | hx
        · exact Or.inl ((InD_push out hsz _ _ x i).2 (Or.inl hx))
        · rcases hnb j hj with hb | hb
          · exact Or.inl ((InD_push out hsz _ _ x i).2 (Or.inr ⟨by omega, by omega⟩))
          · right; simpa using hb
      obtain ⟨g1, g2, g3⟩ := ih (j+1) (by omega) (by omega) _ hsz' (by omega)
      refine ⟨g1, fun y hy => g2 y ((InD_push out hsz _ _ y i).2 (Or.inl hy)), fun hx => g3 (hx' hx)⟩
    · exact ⟨hsz, fun y hy => hy, fun hx => hx⟩

/-- `x` lies in interval `a` of A -/
def InA (s1 e1 : Array Int) (h1 : s1.size = e1.size) (a : Nat) (x : Int) : Prop :=
  ∃ ha : a < s1.size, s1[a] ≤ x ∧ x ≤ e1[a]'(h1 ▸ ha)

theorem jitdiffLoop_cover (s1 e1 s2 e2 : Array Int) (h1 : s1.size = e1.size) (h2 : s2.size = e2.size) (x : Int)
    (hnb : NotB s2 e2 h2 x) (i j : Nat) (out : DOut) (hsz : out.st.size = out.en.size)
    (hcov : ∀ a, a < i → InA s1 e1 h1 a x → InD out x) :
    (jitdiffLoop s1 e1 s2 e2 h1 h2 i j out).2.st.size = (jitdiffLoop s1 e1 s2 e2 h1 h2 i j out).2.en.size ∧
    (∀ y, InD out y → InD (jitdiffLoop s1 e1 s2 e2 h1 h2 i j out).2 y) ∧
    (∀ a, a < (jitdiffLoop s1 e1 s2 e2 h1 h2 i j out).1 → InA s1 e1 h1 a x →
      InD (jitdiffLoop s1 e1 s2 e2 h1 h2 i j out).2 x) := by
  induction hn : s1.size - i generalizing i j out with
  | zero =>
    unfold jitdiffLoop
    have : ¬ i < s1.size := by omega
    simp only [dif_neg this]
    exact ⟨hsz, fun y hy => hy, hcov⟩
  | succ n ih =>
    have hi : i < s1.size := by omega
    unfold jitdiffLoop
    simp only [dif_pos hi]
    split
    · rename_i hj
      have hsk := skipTo_spec e2 s1[i] j hj
      split
      · rename_i hov
        split
        · rename_i hcovd
          -- interval i of A lies inside interval j' of B: nothing of it survives
          obtain ⟨r1, r2, r3⟩ := ih (i+1) (skipTo e2 s1[i] j) out hsz (by
            intro a ha hA
            rcases Nat.lt_or_ge a i with h | h
            · exact hcov a h hA
            · have : a = i := by omega
              subst this
              obtain ⟨_, hA1, hA2⟩ := hA
              rcases hnb _ (h2 ▸ hj) with hb | hb <;> omega) (by omega)
          exact ⟨r1, r2, r3⟩
        · rename_i hnot
          by_cases hc : s2[skipTo e2 s1[i] j]'(h2 ▸ hj) > s1[i]
          · simp only [hc, if_true]
            have hsz1 := push_sz out hsz s1[i] (s2[skipTo e2 s1[i] j]'(h2 ▸ hj)) i
            obtain ⟨g1, g2, g3⟩ := diffGaps_cover s2 e2 h2 (e1[i]'(h1 ▸ hi)) i x hnb (skipTo e2 s1[i] j + 1) (by omega)
              (by omega) (out.push s1[i] (s2[skipTo e2 s1[i] j]'(h2 ▸ hj)) i) hsz1
            have hxi : InA s1 e1 h1 i x →
                (InD (out.push s1[i] (s2[skipTo e2 s1[i] j]'(h2 ▸ hj)) i) x ∨ e2[skipTo e2 s1[i] j + 1 - 1]'(by omega) < x) := by
              rintro ⟨_, hA1, hA2⟩
              rcases hnb _ (h2 ▸ hj) with hb | hb
              · exact Or.inl ((InD_push out hsz _ _ x i).2 (Or.inr ⟨hA1, by omega⟩))
              · right; simpa using hb
            split
            · rename_i hlast
              obtain ⟨r1, r2, r3⟩ := ih (i+1) _ _ (push_sz _ g1 _ _ i) (by
                intro a ha hA
                apply (InD_push _ g1 _ _ x i).2
                rcases Nat.lt_or_ge a i with h | h
                · exact Or.inl (g2 x ((InD_push out hsz _ _ x i).2 (Or.inl (hcov a h hA))))
                · have hai : a = i := by omega
                  have hA' : InA s1 e1 h1 i x := hai ▸ hA
                  rcases g3 (hxi hA') with h | h
                  · exact Or.inl h
                  · obtain ⟨_, hA1, hA2⟩ := hA'
                    have hA2' : x ≤ e1[i]'(h1 ▸ hi) := hA2
                    exact Or.inr ⟨Int.le_of_lt h, hA2'⟩) (by omega)
              exact ⟨r1, fun y hy => r2 y ((InD_push _ g1 _ _ y i).2
                (Or.inl (g2 y ((InD_push out hsz _ _ y i).2 (Or.inl hy))))), r3⟩
            · rename_i hlast
              obtain ⟨r1, r2, r3⟩ := ih (i+1) _ _ g1 (by
                intro a ha hA
                rcases Nat.lt_or_ge a i with h | h
                · exact g2 x ((InD_push out hsz _ _ x i).2 (Or.inl (hcov a h hA)))
                · have : a = i := by omega
                  subst this
                  rcases g3 (hxi hA) with h | h
                  · exact h
                  · obtain ⟨_, hA1, hA2⟩ := hA
                    omega) (by omega)
              exact ⟨r1, fun y hy => r2 y (g2 y ((InD_push out hsz _ _ y i).2 (Or.inl hy))), r3⟩
          · simp only [hc, if_false]
            obtain ⟨g1, g2, g3⟩ := diffGaps_cover s2 e2 h2 (e1[i]'(h1 ▸ hi)) i x hnb (skipTo e2 s1[i] j + 1) (by omega)
              (by omega) out hsz
            have hxi : InA s1 e1 h1 i x → (InD out x ∨ e2[skipTo e2 s1[i] j + 1 - 1]'(by omega) < x) := by
              rintro ⟨_, hA1, hA2⟩
              rcases hnb _ (h2 ▸ hj) with hb | hb
              · omega
              · right; simpa using hb
            split
            · rename_i hlast
              obtain ⟨r1, r2, r3⟩ := ih (i+1) _ _ (push_sz _ g1 _ _ i) (by
                intro a ha hA
                apply (InD_push _ g1 _ _ x i).2
                rcases Nat.lt_or_ge a i with h | h
                · exact Or.inl (g2 x (hcov a h hA))
                · have hai : a = i := by omega
                  have hA' : InA s1 e1 h1 i x := hai ▸ hA
                  rcases g3 (hxi hA') with h | h
                  · exact Or.inl h
                  · obtain ⟨_, hA1, hA2⟩ := hA'
                    have hA2' : x ≤ e1[i]'(h1 ▸ hi) := hA2
                    exact Or.inr ⟨Int.le_of_lt h, hA2'⟩) (by omega)
              exact ⟨r1, fun y hy => r2 y ((InD_push _ g1 _ _ y i).2 (Or.inl (g2 y hy))), r3⟩
            · rename_i hlast
              obtain ⟨r1, r2, r3⟩ := ih (i+1) _ _ g1 (by
                intro a ha hA
                rcases Nat.lt_or_ge a i with h | h
                · exact g2 x (hcov a h hA)
                · have : a = i := by omega
                  subst this
                  rcases g3 (hxi hA) with h | h
                  · exact h
                  · obtain ⟨_, hA1, hA2⟩ := hA
                    omega) (by omega)
              exact ⟨r1, fun y hy => r2 y (g2 y hy), r3⟩
      · obtain ⟨r1, r2, r3⟩ := ih (i+1) (skipTo e2 s1[i] j) _ (push_sz out hsz s1[i] (e1[i]'(h1 ▸ hi)) i) (by
          intro a ha hA
          apply (InD_push out hsz _ _ x i).2
          rcases Nat.lt_or_ge a i with h | h
          · exact Or.inl (hcov a h hA)
          · have : a = i := by omega
            subst this
            obtain ⟨_, hA1, hA2⟩ := hA
            exact Or.inr ⟨hA1, hA2⟩) (by omega)
        exact ⟨r1, fun y hy => r2 y ((InD_push out hsz _ _ y i).2 (Or.inl hy)), r3⟩
    · exact ⟨hsz, fun y hy => hy, hcov⟩

theorem emitRestD_cover (s1 e1 : Array Int) (h1 : s1.size = e1.size) (x : Int) (i : Nat) (out : DOut)
    (hsz : out.st.size = out.en.size) :
    (∀ y, InD out y → InD (emitRestD s1 e1 h1 i out) y) ∧
    (∀ a, i ≤ a → InA s1 e1 h1 a x → InD (emitRestD s1 e1 h1 i out) x) := by
  induction hn : s1.size - i generalizing i out with
  | zero =>
    unfold emitRestD
    have : ¬ i < s1.size := by omega
    simp only [dif_neg this]
    exact ⟨fun y hy => hy, fun a ha ⟨h, _⟩ => by omega⟩
  | succ n ih =>
    have hi : i < s1.size := by omega
    unfold emitRestD
    simp only [dif_pos hi]
    obtain ⟨r1, r2⟩ := ih (i+1) (out.push s1[i] (e1[i]'(h1 ▸ hi)) i) (push_sz out hsz _ _ i) (by omega)
    refine ⟨fun y hy => r1 y ((InD_push out hsz _ _ y i).2 (Or.inl hy)), fun a ha hA => ?_⟩
    rcases Nat.eq_or_lt_of_le ha with h | h
    · have hA' : InA s1 e1 h1 i x := h ▸ hA
      obtain ⟨_, a1, a2⟩ := hA'
      exact r1 x ((InD_push out hsz _ _ x i).2 (Or.inr ⟨a1, a2⟩))
    · exact r2 a (by omega) hA


/-- the closed piece `[a, b]` meets no interval of B in more than an endpoint -/
def Between (s2 e2 : Array Int) (h2 : s2.size = e2.size) (a b : Int) : Prop :=
  ∀ j, (hj : j < s2.size) → e2[j]'(h2 ▸ hj) ≤ a ∨ b ≤ s2[j]

def DB (s2 e2 : Array Int) (h2 : s2.size = e2.size) (o : DOut) : Prop :=
  ∀ k, (hk : k < o.st.size) → (hk2 : k < o.en.size) → Between s2 e2 h2 o.st[k] o.en[k]

theorem DB_push (s2 e2 : Array Int) (h2 : s2.size = e2.size) (o : DOut) (hsz : o.st.size = o.en.size)
    (hdb : DB s2 e2 h2 o) (s e : Int) (p : Nat) (hb : Between s2 e2 h2 s e) : DB s2 e2 h2 (o.push s e p) := by
  intro k hk hk2
  simp only [DOut.push, Array.size_push] at hk hk2
  by_cases hlt : k < o.st.size
  · have := hdb k hlt (by omega)
    simpa [DOut.push, Array.getElem_push_lt hlt, Array.getElem_push_lt (show k < o.en.size by omega)] using this
  · have hk' : k = o.st.size := by omega
    subst hk'
    simp only [DOut.push]
    have g1 : (o.st.push s)[o.st.size]'(by simp) = s := by simp
    have g2 : (o.en.push e)[o.st.size]'(by simp [← hsz]) = e := by simp [hsz]
    rw [g1, g2]; exact hb

theorem gap_between (s2 e2 : Array Int) (h2 : s2.size = e2.size) (hcB : Canon s2 e2 h2) (j : Nat) (hj1 : 1 ≤ j)
    (hj : j < s2.size) : Between s2 e2 h2 (e2[j-1]'(by omega)) s2[j] := by
  intro b hb
  rcases Nat.lt_or_ge b j with h | h
  · left; exact canon_en_mono s2 e2 h2 hcB b (j-1) (by omega) (by omega)
  · right; exact canon_st_mono s2 e2 h2 hcB j b h hb

theorem diffGaps_between (s2 e2 : Array Int) (h2 : s2.size = e2.size) (hcB : Canon s2 e2 h2) (e1i : Int) (i : Nat)
    (j : Nat) (hj1 : 1 ≤ j) (out : DOut) (hsz : out.st.size = out.en.size) (hdb : DB s2 e2 h2 out) :
    (diffGaps s2 e2 h2 e1i i j hj1 out).1.2.st.size = (diffGaps s2 e2 h2 e1i i j hj1 out).1.2.en.size ∧
    DB s2 e2 h2 (diffGaps s2 e2 h2 e1i i j hj1 out).1.2 ∧
    (∀ hlt : (diffGaps s2 e2 h2 e1i i j hj1 out).1.1 < s2.size, e1i ≤ s2[(diffGaps s2 e2 h2 e1i i j hj1 out).1.1]) ∧
    (∀ b, j ≤ b → (hb : b < (diffGaps s2 e2 h2 e1i i j hj1 out).1.1) → (hb2 : b < s2.size) → s2[b] < e1i) := by
  induction hn : s2.size - j generalizing j out with
  | zero =>
    have hnj : ¬ j < s2.size := by omega
    unfold diffGaps
    simp only [dif_neg hnj]
    exact ⟨hsz, hdb, fun h => by omega, fun b h1 h2 => by omega⟩
  | succ n ih =>
    have hj : j < s2.size := by omega
    unfold diffGaps
    simp only [dif_pos hj]
    split
    · rename_i hlt
      obtain ⟨g1, g2, g3, g4⟩ := ih (j+1) (by omega) (out.push (e2[j-1]'(by omega)) s2[j] i)
        (by simp [DOut.push, hsz]) (DB_push s2 e2 h2 out hsz hdb _ _ i (gap_between s2 e2 h2 hcB j hj1 hj)) (by omega)
      refine ⟨g1, g2, g3, fun b hb1 hb2 hb3 => ?_⟩
      rcases Nat.eq_or_lt_of_le hb1 with h | h
      · subst h; exact hlt
      · exact g4 b (by omega) hb2 hb3
    · rename_i hge
      exact ⟨hsz, hdb, fun _ => Int.not_lt.1 hge, fun b h1 (h2 : b < j) _ => by omega⟩

def JInv (s1 e2 : Array Int) (i j : Nat) : Prop :=
  ∀ b, b < j → (hb : b < e2.size) → (hi : i < s1.size) → e2[b] ≤ s1[i]

theorem jitdiffLoop_between (s1 e1 s2 e2 : Array Int) (h1 : s1.size = e1.size) (h2 : s2.size = e2.size)
    (hcA : Canon s1 e1 h1) (hcB : Canon s2 e2 h2) (i j : Nat) (out : DOut) (hsz : out.st.size = out.en.size)
    (hdb : DB s2 e2 h2 out) (hJ : JInv s1 e2 i j) :
    (jitdiffLoop s1 e1 s2 e2 h1 h2 i j out).2.st.size = (jitdiffLoop s1 e1 s2 e2 h1 h2 i j out).2.en.size ∧
    DB s2 e2 h2 (jitdiffLoop s1 e1 s2 e2 h1 h2 i j out).2 ∧
    (∀ hlt : (jitdiffLoop s1 e1 s2 e2 h1 h2 i j out).1 < s1.size, ∀ b, (hb : b < e2.size) →
      e2[b] ≤ s1[(jitdiffLoop s1 e1 s2 e2 h1 h2 i j out).1]) := by
  induction hn : s1.size - i generalizing i j out with
  | zero =>
    unfold jitdiffLoop
    have : ¬ i < s1.size := by omega
    simp only [dif_neg this]
    exact ⟨hsz, hdb, fun h => by omega⟩
  | succ n ih =>
    have hi : i < s1.size := by omega
    have hJ' : ∀ b, b < skipTo e2 s1[i] j → (hb : b < e2.size) → e2[b] ≤ s1[i] := by
      intro b hb hb2
      rcases Nat.lt_or_ge b j with h | h
      · exact hJ b h hb2 hi
      · exact skipTo_skipped e2 s1[i] j b h hb hb2
    have hse : s1[i] ≤ e1[i]'(h1 ▸ hi) := hcA.1 i hi
    have hnext : ∀ (hi' : i + 1 < s1.size) (v : Int), v ≤ e1[i]'(h1 ▸ hi) → v ≤ s1[i+1] := by
      intro hi' v hv; have := hcA.2 i hi'; omega
    unfold jitdiffLoop
    simp only [dif_pos hi]
    split
    · rename_i hj
      have hsk := skipTo_spec e2 s1[i] j hj
      have hj2 : skipTo e2 s1[i] j < s2.size := h2 ▸ hj
      split
      · rename_i hov
        split
        · rename_i hcovd
          exact ih (i+1) (skipTo e2 s1[i] j) out hsz hdb (by
            intro b hb hb2 hi'
            exact hnext hi' _ (Int.le_trans (hJ' b hb hb2) hse)) (by omega)
        · rename_i hnot
          have hbw : Between s2 e2 h2 s1[i] (s2[skipTo e2 s1[i] j]'hj2) := by
            intro b hb
            rcases Nat.lt_or_ge b (skipTo e2 s1[i] j) with h | h
            · exact Or.inl (hJ' b h (h2 ▸ hb))
            · exact Or.inr (canon_st_mono s2 e2 h2 hcB _ b h hb)
          -- the two continuations after the gaps, for either value of `out1`
          have fin : ∀ (o1 : DOut), o1.st.size = o1.en.size → DB s2 e2 h2 o1 →
              (let g := diffGaps s2 e2 h2 (e1[i]'(h1 ▸ hi)) i (skipTo e2 s1[i] j + 1) (by omega) o1
               g.1.2.st.size = g.1.2.en.size ∧ DB s2 e2 h2 g.1.2 ∧
               Between s2 e2 h2 (e2[g.1.1 - 1]'(by have := g.2; omega)) (e1[i]'(h1 ▸ hi)) ∧
               (e2[g.1.1 - 1]'(by have := g.2; omega) < e1[i]'(h1 ▸ hi) → JInv s1 e2 (i+1) g.1.1) ∧
               JInv s1 e2 (i+1) (g.1.1 - 1)) := by
            intro o1 hs1 hd1
            obtain ⟨g1, g2, g3, g4⟩ := diffGaps_between s2 e2 h2 hcB (e1[i]'(h1 ▸ hi)) i (skipTo e2 s1[i] j + 1)
              (by omega) o1 hs1 hd1
            have hb := (diffGaps s2 e2 h2 (e1[i]'(h1 ▸ hi)) i (skipTo e2 s1[i] j + 1) (by omega) o1).2
            refine ⟨g1, g2, ?_, ?_, ?_⟩
            · intro b hbb
              rcases Nat.lt_or_ge b (diffGaps s2 e2 h2 (e1[i]'(h1 ▸ hi)) i (skipTo e2 s1[i] j + 1) (by omega) o1).1.1 with h | h
              · exact Or.inl (canon_en_mono s2 e2 h2 hcB b _ (by omega) (by omega))
              · right
                have hlt : (diffGaps s2 e2 h2 (e1[i]'(h1 ▸ hi)) i (skipTo e2 s1[i] j + 1) (by omega) o1).1.1 < s2.size := by omega
                exact Int.le_trans (g3 hlt) (canon_st_mono s2 e2 h2 hcB _ b h hbb)
            · intro hl b hb1 hb2 hi'
              have := canon_en_mono s2 e2 h2 hcB b
                ((diffGaps s2 e2 h2 (e1[i]'(h1 ▸ hi)) i (skipTo e2 s1[i] j + 1) (by omega) o1).1.1 - 1) (by omega) (by omega)
              exact hnext hi' _ (by omega)
            · intro b hb1 hb2 hi'
              have hq : ∀ q, skipTo e2 s1[i] j ≤ q →
                  q < (diffGaps s2 e2 h2 (e1[i]'(h1 ▸ hi)) i (skipTo e2 s1[i] j + 1) (by omega) o1).1.1 →
                  (hq : q < s2.size) → s2[q] < e1[i]'(h1 ▸ hi) := by
                intro q hq1 hq2 hq3
                rcases Nat.eq_or_lt_of_le hq1 with h | h
                · subst h; exact hov
                · exact g4 q (by omega) hq2 hq3
              have a1 := hcB.2 b (by omega)
              have a2 := canon_st_mono s2 e2 h2 hcB (b+1)
                ((diffGaps s2 e2 h2 (e1[i]'(h1 ▸ hi)) i (skipTo e2 s1[i] j + 1) (by omega) o1).1.1 - 1) (by omega) (by omega)
              have a3 := hq ((diffGaps s2 e2 h2 (e1[i]'(h1 ▸ hi)) i (skipTo e2 s1[i] j + 1) (by omega) o1).1.1 - 1)
                (by omega) (by omega) (by omega)
              exact hnext hi' _ (by omega)
          by_cases hc : s2[skipTo e2 s1[i] j]'hj2 > s1[i]
          · simp only [hc, if_true]
            obtain ⟨f1, f2, f3, f4, f5⟩ := fin (out.push s1[i] (s2[skipTo e2 s1[i] j]'hj2) i) (by simp [DOut.push, hsz])
              (DB_push s2 e2 h2 out hsz hdb _ _ i hbw)
            split
            · rename_i hlast
              exact ih (i+1) _ _ (push_sz _ f1 _ _ i) (DB_push s2 e2 h2 _ f1 f2 _ _ i f3) (f4 hlast) (by omega)
            · exact ih (i+1) _ _ f1 f2 f5 (by omega)
          · simp only [hc, if_false]
            obtain ⟨f1, f2, f3, f4, f5⟩ := fin out hsz hdb
            split
            · rename_i hlast
              exact ih (i+1) _ _ (push_sz _ f1 _ _ i) (DB_push s2 e2 h2 _ f1 f2 _ _ i f3) (f4 hlast) (by omega)
            · exact ih (i+1) _ _ f1 f2 f5 (by omega)
      · rename_i hnov
        exact ih (i+1) (skipTo e2 s1[i] j) _ (by simp [DOut.push, hsz])
          (DB_push s2 e2 h2 out hsz hdb _ _ i (by
            intro b hb
            rcases Nat.lt_or_ge b (skipTo e2 s1[i] j) with h | h
            · exact Or.inl (hJ' b h (h2 ▸ hb))
            · right
              have := canon_st_mono s2 e2 h2 hcB _ b h hb
              omega)) (by
            intro b hb hb2 hi'
            exact hnext hi' _ (Int.le_trans (hJ' b hb hb2) hse)) (by omega)
    · rename_i hj
      exact ⟨hsz, hdb, fun _ b hb => hJ' b (by omega) hb⟩

theorem emitRestD_between (s1 e1 s2 e2 : Array Int) (h1 : s1.size = e1.size) (h2 : s2.size = e2.size)
    (hcA : Canon s1 e1 h1) (i : Nat) (out : DOut) (hsz : out.st.size = out.en.size) (hdb : DB s2 e2 h2 out)
    (hall : ∀ hi : i < s1.size, ∀ b, (hb : b < e2.size) → e2[b] ≤ s1[i]) :
    DB s2 e2 h2 (emitRestD s1 e1 h1 i out) := by
  induction hn : s1.size - i generalizing i out with
  | zero =>
    unfold emitRestD
    have : ¬ i < s1.size := by omega
    simp only [dif_neg this]; exact hdb
  | succ n ih =>
    have hi : i < s1.size := by omega
    unfold emitRestD
    simp only [dif_pos hi]
    apply ih (i+1) _ (push_sz out hsz _ _ i) _ _ (by omega)
    · exact DB_push s2 e2 h2 out hsz hdb _ _ i (fun b hb => Or.inl (hall hi b (h2 ▸ hb)))
    · intro hi' b hb
      have := hall hi b hb
      have := canon_st_step s1 e1 h1 hcA i hi'
      omega

end Pyn

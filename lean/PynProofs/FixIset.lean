import PynModel.Kernels.FixIset
/-! # Lemmas about `_jitfix_iset` -/
namespace Pyn

/-- exit condition and value of the merge scan, for non-decreasing `en` -/
theorem fixMerge_spec (st en : Array Int) (h : st.size = en.size) (hen : Sorted en)
    (i : Nat) (hi : i < st.size) (newend : Int) (h0 : newend = en[i]'(h ▸ hi)) :
    ∃ hr : (fixMerge st en h i hi newend).1 < st.size,
    (fixMerge st en h i hi newend).2 = en[(fixMerge st en h i hi newend).1]'(h ▸ hr) ∧
    ((h1 : (fixMerge st en h i hi newend).1 + 1 < st.size) →
      en[(fixMerge st en h i hi newend).1]'(h ▸ hr) ≤ st[(fixMerge st en h i hi newend).1 + 1]) := by
  fun_induction fixMerge st en h i hi newend with
  | case1 i hi newend h1 hlt ih =>
    have hs := hen i (i+1) (h ▸ hi) (h ▸ h1) (by omega)
    exact ih (by omega)
  | case2 i hi newend h1 hge =>
    exact ⟨hi, h0, fun _ => by dsimp only; omega⟩
  | case3 i hi newend h1 =>
    exact ⟨hi, h0, fun h1' => by dsimp only at h1'; omega⟩

theorem fixTrim_le (st : Array Int) (i : Nat) (e : Int) : fixTrim st i e ≤ e := by
  unfold fixTrim; split <;> (try split) <;> omega

theorem fixTrim_lt_next (st : Array Int) (i : Nat) (e : Int) (h1 : i + 1 < st.size)
    (hle : e ≤ st[i+1]) : fixTrim st i e < st[i+1] := by
  unfold fixTrim
  simp only [h1, ↓reduceDIte]
  split
  · rename_i heq; simp at heq; omega
  · rename_i hne; simp at hne; omega

/-- invariant of the main loop: what has been emitted is canonical and ends before every start
still to be scanned -/
def FixInv (st : Array Int) (i : Nat) (out : Array (Int × Int)) : Prop :=
  (∀ p ∈ out, p.1 < p.2) ∧
  out.toList.Pairwise (fun p q => p.2 < q.1) ∧
  (∀ p ∈ out, ∀ j, i ≤ j → (hj : j < st.size) → p.2 < st[j])

theorem fixLoop_inv (st en : Array Int) (h : st.size = en.size) (hst : Sorted st) (hen : Sorted en)
    (i : Nat) (out : Array (Int × Int)) (hinv : FixInv st i out) :
    (∀ p ∈ fixLoop st en h i out, p.1 < p.2) ∧
    (fixLoop st en h i out).toList.Pairwise (fun p q => p.2 < q.1) := by
  fun_induction fixLoop st en h i out with
  | case1 i out i1 hi r newend out' ih =>
    apply ih
    have hge : i ≤ i1 := fixSkip_ge st en h i
    have hr : i1 ≤ r.1 ∧ r.1 < st.size := fixMerge_bounds st en h i1 hi _
    have hspec : ∃ hr : r.1 < st.size, r.2 = en[r.1]'(h ▸ hr) ∧
        ((h1 : r.1 + 1 < st.size) → en[r.1]'(h ▸ hr) ≤ st[r.1 + 1]) :=
      fixMerge_spec st en h hen i1 hi _ rfl
    obtain ⟨hr', hs1, hs2⟩ := hspec
    have hnext : ∀ j, r.1 + 1 ≤ j → (hj : j < st.size) → newend < st[j] := by
      intro j hj1 hj
      have h1 : r.1 + 1 < st.size := by omega
      have h2 : fixTrim st r.1 r.2 < st[r.1 + 1] :=
        fixTrim_lt_next st r.1 r.2 h1 (by rw [hs1]; exact hs2 h1)
      have h3 := hst (r.1 + 1) j h1 hj hj1
      show fixTrim st r.1 r.2 < st[j]
      omega
    have hold : ∀ p ∈ out, ∀ j, r.1 + 1 ≤ j → (hj : j < st.size) → p.2 < st[j] :=
      fun p hp j hj1 hj => hinv.2.2 p hp j (by omega) hj
    show FixInv st (r.1 + 1) (if newend > st[i1] then out.push (st[i1], newend) else out)
    split
    · rename_i hgt
      refine ⟨?_, ?_, ?_⟩
      · intro p hp
        simp only [Array.mem_push] at hp
        rcases hp with hp | hp
        · exact hinv.1 p hp
        · subst hp; exact hgt
      · rw [Array.toList_push, List.pairwise_append]
        refine ⟨hinv.2.1, by simp, ?_⟩
        intro p hp q hq
        simp at hq; subst hq
        exact hinv.2.2 p (by simpa using hp) i1 hge hi
      · intro p hp j hj1 hj
        simp only [Array.mem_push] at hp
        rcases hp with hp | hp
        · exact hold p hp j hj1 hj
        · subst hp; exact hnext j hj1 hj
    · exact ⟨hinv.1, hinv.2.1, hold⟩
  | case2 i out i1 hi => exact ⟨hinv.1, hinv.2.1⟩

end Pyn

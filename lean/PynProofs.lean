import PynProofs.Restrict
import PynProofs.FixIset
import PynProofs.SetOps
import PynProofs.Search
import PynProofs.Parseval
import PynProofs.Diff
import PynProofs.Union
import PynProofs.Cover

import PynProofs.Restrict
import PynProofs.FixIset
import PynProofs.SetOps

import PynProofs.Restrict

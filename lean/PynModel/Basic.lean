/-!
# Basic definitions shared by all kernel models

Time is `Int` nanoseconds (see DESIGN §2.3). Arrays are `Array Int`.  A Python read `a[i]`
that sits under a guard implying `i < len(a)` is written `a[i]'h` in the models; a read with no
such guard is a *checked* read `rd a i : R Int` that fails with `Err.oob`.
-/
namespace Pyn

inductive Err where
  | oob        -- index outside the array (Python IndexError / numba out-of-bounds read)
  | unbound    -- local variable read before assignment
  | assertion  -- an `assert` / explicit raise of the modelled code
deriving Repr, DecidableEq, Inhabited

abbrev R := Except Err

/-- checked read -/
@[inline] def rd (a : Array Int) (i : Nat) : R Int :=
  if h : i < a.size then .ok a[i] else .error .oob

@[inline] def rdB (a : Array Bool) (i : Nat) : R Bool :=
  if h : i < a.size then .ok a[i] else .error .oob

@[inline] def rdN (a : Array Nat) (i : Nat) : R Nat :=
  if h : i < a.size then .ok a[i] else .error .oob

/-- timestamps are non-decreasing -/
def Sorted (ts : Array Int) : Prop :=
  ∀ i j, (hi : i < ts.size) → (hj : j < ts.size) → i ≤ j → ts[i] ≤ ts[j]

/-- strictly increasing -/
def StrictSorted (ts : Array Int) : Prop :=
  ∀ i j, (hi : i < ts.size) → (hj : j < ts.size) → i < j → ts[i] < ts[j]

/-- what the kernels need of an interval set: `s ≤ e` per interval, `e_k < s_{k+1}` -/
def Canon (st en : Array Int) (hm : st.size = en.size) : Prop :=
  (∀ k, (h : k < st.size) → st[k] ≤ en[k]'(hm ▸ h)) ∧
  (∀ k, (h : k + 1 < st.size) → en[k]'(by omega) < st[k+1])

/-- canonical in the sense of property C01: `s < e` per interval, `e_k < s_{k+1}` -/
def StrictCanon (st en : Array Int) (hm : st.size = en.size) : Prop :=
  (∀ k, (h : k < st.size) → st[k] < en[k]'(hm ▸ h)) ∧
  (∀ k, (h : k + 1 < st.size) → en[k]'(by omega) < st[k+1])

/-- `x` lies in one of the closed intervals -/
def InIv (st en : Array Int) (hm : st.size = en.size) (x : Int) : Prop :=
  ∃ k, ∃ h : k < st.size, st[k] ≤ x ∧ x ≤ en[k]'(hm ▸ h)

/-- executable versions (used by the driver and by `decide` witnesses) -/
def sortedB (ts : Array Int) : Bool :=
  (List.range (ts.size - 1)).all fun i => ts[i]! ≤ ts[i+1]!

def canonB (st en : Array Int) : Bool :=
  st.size == en.size &&
  (List.range st.size).all (fun k => st[k]! ≤ en[k]!) &&
  (List.range (st.size - 1)).all (fun k => en[k]! < st[k+1]!)

def strictCanonB (st en : Array Int) : Bool :=
  st.size == en.size &&
  (List.range st.size).all (fun k => st[k]! < en[k]!) &&
  (List.range (st.size - 1)).all (fun k => en[k]! < st[k+1]!)

def inIvB (st en : Array Int) (x : Int) : Bool :=
  (List.range st.size).any fun k => st[k]! ≤ x && x ≤ en[k]!

end Pyn

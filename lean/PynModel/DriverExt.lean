import PynModel.Driver
import PynModel.Core.Series
import PynModel.Core.Group
import PynModel.Core.Meta
import PynModel.Process.Convolve
import PynModel.Process.Spectrum
import PynModel.Process.Tuning
import PynModel.Core.NumpyWrap
import PynModel.Kernels.Eta
import PynModel.Core.Trial
import PynModel.Core.Interp
import PynModel.Core.ISetOps
import PynModel.Process.RandomizeGroup
import PynModel.Core.GroupBy
/-!
# Line protocol, part 2: container-level operations (series constructor and histories)
`snew <t> <rows> <sup|none>`            → `t|rows|sup|num/den`
`hist <t> <rows> <sup|none> <op;op;…>`  → the state after the constructor and after every step, `;`-joined
ops: `R/<supe>` restrict, `T/<ix>` take, `G/<a>/<b>` get, `N/<ts>/<supe>` retime, `K` keep
supe: `S` | `L/<st>/<en>` | `U/<st>/<en>` | `I/<st>/<en>` | `D/<st>/<en>` (self ∪ / ∩ / − literal)
-/
namespace Pyn

def parsePairs (s : String) : Option (Array (Int × Int)) :=
  if s == "-" then some #[] else
  (s.splitOn ",").foldl (fun acc x => match acc, x.splitOn ":" with
    | some a, [u, v] => match u.toInt?, v.toInt? with
      | some u, some v => some (a.push (u, v))
      | _, _ => none
    | _, _ => none) (some #[])

def showSeries (s : Series) : String :=
  showArr s.t ++ "|" ++ showArr s.rows ++ "|" ++ showPairs s.sup ++ "|" ++ toString s.rateNum ++ "/" ++ toString s.rateDen

def parseSupE : List String → Option SupE
  | ["S"] => some .self
  | [k, st, en] =>
    match parseArr st, parseArr en with
    | some st, some en =>
      if k == "L" then some (.lit st en)
      else if k == "U" then some (.union .self (.lit st en))
      else if k == "I" then some (.inter .self (.lit st en))
      else if k == "D" then some (.diff .self (.lit st en))
      else none
    | _, _ => none
  | _ => none

def parseOp (s : String) : Option Op :=
  match s.splitOn "/" with
  | ["K"] => some .keep
  | "R" :: rest => (parseSupE rest).map .restrict
  | ["F", ts] => (parseArr ts).map .fresh
  | ["T", ix] => (parseNatArr ix).map .take
  | ["G", a, b] => match a.toInt?, b.toInt? with
    | some a, some b => some (.get a b)
    | _, _ => none
  | "N" :: ts :: rest => match parseArr ts, parseSupE rest with
    | some ts, some e => some (.retime ts e)
    | _, _ => none
  | _ => none

def parseSupOpt (s : String) : Option (Option (Array (Int × Int))) :=
  if s == "none" then some none else (parsePairs s).map some

def seriesStep (toks : List String) : String :=
  match toks with
  | ["snew", t, rows, sup] =>
    match parseArr t, parseNatArr rows, parseSupOpt sup with
    | some t, some rows, some sup =>
      if t.size = rows.size then showSeries (Series.new t rows sup) else "ERR assert"
    | _, _, _ => "bad-op"
  | ["hist", t, rows, sup, ops] =>
    match parseArr t, parseNatArr rows, parseSupOpt sup with
    | some t, some rows, some sup =>
      if t.size = rows.size then
        let s0 := Series.new t rows sup
        let rec go (s : Series) (acc : List String) : List String → Option (List String)
          | [] => some acc.reverse
          | o :: os => match parseOp o with
            | some op => let s' := s.step op; go s' (showSeries s' :: acc) os
            | none => none
        match go s0 [showSeries s0] (if ops == "-" then [] else ops.splitOn ";") with
        | some l => ";".intercalate l
        | none => "bad-op"
      else "ERR assert"
    | _, _, _ => "bad-op"
  | _ => "bad-op"

/-! ## groups
`ghist <members> <sup|none> <bypass> <op;op;…>`; members `key@t@rows@sup` joined by `+` (`-` = none);
ops: `S/<keys>` select, `R/<pairs>` restrict, `G/<a>/<b>` get, `M/<members>/<sup|none>/<resetIndex>/<resetSupport>`
merge with the group built from those members, `Y` to_tsd → to_tsgroup.  Output: state after the
constructor and after each op (`ERR <kind>` where the op is rejected; the state is then unchanged). -/
def parseMember (s : String) : Option Member :=
  match s.splitOn "@" with
  | [k, t, rows, sup] =>
    match k.toInt?, parseArr t, parseNatArr rows, parsePairs sup with
    | some k, some t, some rows, some sup => if t.size = rows.size then some ⟨k, ⟨t, rows, sup⟩⟩ else none
    | _, _, _, _ => none
  | _ => none

def parseMembers (s : String) : Option (List Member) :=
  if s == "-" then some [] else
  (s.splitOn "+").foldr (fun x acc => match parseMember x, acc with
    | some m, some l => some (m :: l)
    | _, _ => none) (some [])

def showGErr : GErr → String
  | .dupKey => "ERR dupkey" | .emptyUnion => "ERR emptyunion" | .keyError => "ERR key"
  | .overlap => "ERR overlap" | .support => "ERR support"

def showGroup (g : Group) : String :=
  showPairs g.sup ++ "|" ++ (if g.ms.isEmpty then "-" else
    "+".intercalate (g.ms.map fun m => s!"{m.key}@{showArr m.s.t}@{showArr m.s.rows}@{showPairs m.s.sup}"))

def parseBool (s : String) : Option Bool := if s == "1" then some true else if s == "0" then some false else none

def groupOp (g : Group) (s : String) : Option (Except GErr Group) :=
  match s.splitOn "/" with
  | ["S", ks] => (parseArr ks).map fun ks => g.select ks.toList
  | ["R", p] => (parsePairs p).map fun p => g.restrict p
  | ["G", a, b] => match a.toInt?, b.toInt? with
    | some a, some b => some (g.get a b)
    | _, _ => none
  | ["M", ms, sup, ri, rs] =>
    match parseMembers ms, parseSupOpt sup, parseBool ri, parseBool rs with
    | some ms, some sup, some ri, some rs =>
      match Group.new ms sup false with
      | .ok h => some (g.merge h ri rs)
      | .error e => some (.error e)
    | _, _, _, _ => none
  | ["M3", ms1, sup1, ms2, sup2, ri, rs] =>
    match parseMembers ms1, parseSupOpt sup1, parseMembers ms2, parseSupOpt sup2, parseBool ri, parseBool rs with
    | some ms1, some sup1, some ms2, some sup2, some ri, some rs =>
      match Group.new ms1 sup1 false, Group.new ms2 sup2 false with
      | .ok h1, .ok h2 => some (g.mergeN [h1, h2] ri rs)
      | .error e, _ => some (.error e)
      | _, .error e => some (.error e)
    | _, _, _, _, _, _ => none
  | ["Y"] => some g.roundtrip
  | _ => none

def groupStep (toks : List String) : String :=
  match toks with
  | ["ghist", ms, sup, bypass, ops] =>
    match parseMembers ms, parseSupOpt sup, parseBool bypass with
    | some ms, some sup, some bypass =>
      match Group.new ms sup bypass with
      | .error e => showGErr e
      | .ok g0 =>
        let rec go (g : Group) (acc : List String) : List String → Option (List String)
          | [] => some acc.reverse
          | o :: os => match groupOp g o with
            | some (.ok g') => go g' (showGroup g' :: acc) os
            | some (.error e) => go g (showGErr e :: acc) os
            | none => none
        match go g0 [showGroup g0] (if ops == "-" then [] else ops.splitOn ";") with
        | some l => ";".intercalate l
        | none => "bad-op"
    | _, _, _ => "bad-op"
  | _ => "bad-op"

/-! ## IntervalSets with metadata
rows: `none` or rows joined by `,`, each row = tag values joined by `.` (`e` = the empty row)
`tnew <st> <en> <rows>` · `tget <pairs> <rows> <ix>` · `tint <pairsA> <rowsA> <pairsB> <rowsB>` ·
`tdiff …` · `tsplit <pairs> <rows> <size>`   → `<pairs>|<rows>` -/
def parseRow (s : String) : Option Row :=
  if s == "e" then some [] else
  (s.splitOn ".").foldr (fun x acc => match x.toNat?, acc with
    | some v, some l => some (v :: l)
    | _, _ => none) (some [])

def parseRows (s : String) : Option (Option (Array Row)) :=
  if s == "none" then some none else if s == "-" then some (some #[]) else
  ((s.splitOn ",").foldr (fun x acc => match parseRow x, acc with
    | some r, some l => some (r :: l)
    | _, _ => none) (some [])).map fun l => some l.toArray

def showRow (r : Row) : String := if r.isEmpty then "e" else ".".intercalate (r.map toString)
def showRows : Option (Array Row) → String
  | none => "none"
  | some a => if a.size == 0 then "-" else ",".intercalate (a.toList.map showRow)
def showT (t : TISet) : String := showPairs t.iv ++ "|" ++ showRows t.rows

def metaStep (toks : List String) : String :=
  match toks with
  | ["tnew", st, en, rows] =>
    match parseArr st, parseArr en, parseRows rows with
    | some st, some en, some rows =>
      if h : st.size = en.size then
        if rows.all (·.size == st.size) then showT (TISet.new st en h rows) else "ERR length"
      else "ERR assert"
    | _, _, _ => "bad-op"
  | ["tget", p, rows, ix] =>
    match parsePairs p, parseRows rows, parseNatArr ix with
    | some p, some rows, some ix =>
      match TISet.getIdx ⟨p, rows⟩ ix with
      | some t => showT t
      | none => "ERR index"
    | _, _, _ => "bad-op"
  | [op, pa, ra, pb, rb] =>
    match parsePairs pa, parseRows ra, parsePairs pb, parseRows rb with
    | some pa, some ra, some pb, some rb =>
      if op == "tint" then showT (TISet.intersect ⟨pa, ra⟩ ⟨pb, rb⟩)
      else if op == "tdiff" then showT (TISet.diff ⟨pa, ra⟩ ⟨pb, rb⟩)
      else "bad-op"
    | _, _, _, _ => "bad-op"
  | ["tsplit", p, rows, size] =>
    match parsePairs p, parseRows rows, size.toInt? with
    | some p, some rows, some size => showT (TISet.split ⟨p, rows⟩ size)
    | _, _, _ => "bad-op"
  | _ => "bad-op"

/-- `conv <mode> <ts> <x> <k> <sup pairs>` → the convolved signal -/
def convStep (toks : List String) : String :=
  match toks with
  | ["conv", mode, ts, x, k, sup] =>
    match mode.toNat?, parseArr ts, parseArr x, parseArr k, parsePairs sup with
    | some mode, some ts, some x, some k, some sup =>
      if ts.size = x.size ∧ 0 < k.size ∧ mode < 3 then showArr (convolve mode ts x.toList k.toList sup.toList).toArray
      else "pre-fail"
    | _, _, _, _, _ => "bad-op"
  | _ => "bad-op"

/-- `fftbins <n>` → sorted rows `bin:position:kept:doubled` -/
def specStep (toks : List String) : String :=
  match toks with
  | ["fftbins", n] =>
    match n.toNat? with
    | some n => if n == 0 then "-" else
        ",".intercalate ((sortedBins n).map fun p =>
          s!"{p.1}:{p.2}:{if keptOneSided p.1 then 1 else 0}:{if doubledBin n p.1 then 1 else 0}")
    | none => "bad-op"
  | _ => "bad-op"

/-- `hist <edges> <vals>` → counts per bin -/
def histStep (toks : List String) : String :=
  match toks with
  | ["hist1", edges, vals] =>
    match parseArr edges, parseArr vals with
    | some edges, some vals => showArr (histCounts edges vals.toList).toArray
    | _, _ => "bad-op"
  | _ => "bad-op"

/-- `wrap <n> <inShape> <outShape|none>` → `raw` | `series:<ndim>:<cols 0/1>`;
`concatok <t1>/<t2>/…` → 0/1 -/
def wrapStep (toks : List String) : String :=
  match toks with
  | ["wrap", n, inS, outS] =>
    match n.toNat?, parseNatArr inS, (if outS == "none" then some none else (parseNatArr outS).map some) with
    | some n, some inS, some outS =>
      match wrapOut n inS.toList (outS.map (·.toList)) with
      | .raw => "raw"
      | .series nd c => s!"series:{nd}:{if c then 1 else 0}"
    | _, _, _ => "bad-op"
  | ["concatok", parts] =>
    let ps := (parts.splitOn "/").map parseArr
    if ps.all (·.isSome) then
      (if concatAccepts (ps.map fun p => (p.getD #[]).toList) then "1" else "0")
    else "bad-op"
  | _ => "bad-op"

/-- `eta ta ca tt dd st en w0 w1 bs` → the rows as exact fractions `num/den` -/
def etaStep (toks : List String) : String :=
  match toks with
  | ["eta", ta, ca, tt, dd, st, en, w0, w1, bs] =>
    match parseArr ta, parseArr ca, parseArr tt, parseArr dd, parseArr st, parseArr en, w0.toNat?, w1.toNat?, bs.toInt? with
    | some ta, some ca, some tt, some dd, some st, some en, some w0, some w1, some bs =>
      if h : st.size = en.size ∧ ca.size = ta.size then
        match eventTriggerAverage ta ca tt dd st en h.1 h.2 w0 w1 bs with
        | .ok r => ",".intercalate (r.toList.map fun q => s!"{q.num}/{q.den}")
        | .error e => showErr e
      else "pre-fail"
    | _, _, _, _, _, _, _, _, _ => "bad-op"
  | _ => "bad-op"

/-- `trial t pairs align(0 start / 1 end)` → rows `|`-separated, cells `,`-separated, `-` = padding -/
def trialStep (toks : List String) : String :=
  match toks with
  | ["trial", t, tr, al] =>
    match parseArr t, parsePairs tr, parseBool al with
    | some t, some tr, some al =>
      match trialTensor t tr.toList al with
      | .ok rows => "|".intercalate (rows.map fun r =>
          if r.size == 0 then "." else ",".intercalate (r.toList.map fun c => match c with | some k => toString k | none => "-"))
      | .error .index => "ERR index"
      | .error .value => "ERR value"
    | _, _, _ => "bad-op"
  | _ => "bad-op"

/-- `tcount ts st en bs align` → rows as in `trial` -/
def tcountStep (toks : List String) : String :=
  match toks with
  | ["tcount", ts, st, en, bs, al] =>
    match parseArr ts, parseArr st, parseArr en, bs.toInt?, parseBool al with
    | some ts, some st, some en, some bs, some al =>
      if h : st.size = en.size ∧ 0 < bs then
        match trialCount ts st en h.1 bs al with
        | .ok rows => "|".intercalate (rows.map fun r =>
            if r.size == 0 then "." else ",".intercalate (r.toList.map fun c => match c with | some k => toString k | none => "-"))
        | .error e => showErr e
      else "pre-fail"
    | _, _, _, _, _ => "bad-op"
  | _ => "bad-op"

/-- `interp tq tt dd st en` → `t:num/den` or `t:nan` per query time inside the epochs -/
def interpStep (toks : List String) : String :=
  match toks with
  | ["interp", tq, tt, dd, st, en] =>
    match parseArr tq, parseArr tt, parseArr dd, parseArr st, parseArr en with
    | some tq, some tt, some dd, some st, some en =>
      if st.size = en.size ∧ tt.size = dd.size then
        let r := interpolate tq tt (dd.map fun (v : Int) => ((v : Int) : Rat)) st en
        if r.isEmpty then "-" else
        ",".intercalate (r.map fun (x, v) => match v with
          | some q => s!"{x}:{q.num}/{q.den}"
          | none => s!"{x}:nan")
      else "pre-fail"
    | _, _, _, _, _ => "bad-op"
  | _ => "bad-op"

/-- `idrops <pairs> <thr>` · `idropl <pairs> <thr>` · `imclose <pairs> <thr>` · `itspan <pairs>` · `iget <pairs> <ix>`
→ pairs (`err` where NumPy raises IndexError) -/
def isetStep (toks : List String) : String :=
  match toks with
  | ["ifsup", ts, gap] =>
    match parseArr ts, gap.toInt? with
    | some ts, some gap => match ISet.findSupport ts gap with
      | some r => showPairs r
      | none => "err"
    | _, _ => "bad-op"
  | [op, p, a] =>
    match parsePairs p with
    | some p =>
      if op == "iget" then
        match parseNatArr a with
        | some ix => match ISet.getIdx p ix with
          | some r => showPairs r
          | none => "err"
        | none => "bad-op"
      else match a.toInt? with
        | some thr =>
          if op == "idrops" then showPairs (ISet.dropShort p thr)
          else if op == "idropl" then showPairs (ISet.dropLong p thr)
          else if op == "imclose" then showPairs (ISet.mergeClose p thr)
          else "bad-op"
        | none => "bad-op"
    | none => "bad-op"
  | ["itspan", p] =>
    match parsePairs p with
    | some p => match ISet.timeSpan p with
      | some r => showPairs r
      | none => "err"
    | none => "bad-op"
  | _ => "bad-op"

/-- members `k@t` joined by `+`; draws / permutations joined by `/`
`gshift <members> <a> <b> <shifts>` · `gjitter <members> <draws> <sup|none>` · `gshuffle <members> <perms>` → the group -/
def parseKT (s : String) : Option (List (Int × Array Int)) :=
  if s == "-" then some [] else
  (s.splitOn "+").foldr (fun x acc => match x.splitOn "@", acc with
    | [k, t], some l => match k.toInt?, parseArr t with
      | some k, some t => some ((k, t) :: l)
      | _, _ => none
    | _, _ => none) (some [])

def parseArrs (s : String) : Option (List (Array Int)) :=
  (s.splitOn "/").foldr (fun x acc => match parseArr x, acc with
    | some a, some l => some (a :: l)
    | _, _ => none) (some [])

def showGE (r : Except GErr Group) : String :=
  match r with
  | .ok g => showGroup g
  | .error e => showGErr e

def rgroupStep (toks : List String) : String :=
  match toks with
  | ["gshift", ms, a, b, sh] =>
    match parseKT ms, a.toInt?, b.toInt?, parseArr sh with
    | some ms, some a, some b, some sh => if sh.size = ms.length then showGE (shiftGroup ms a b sh.toList) else "pre-fail"
    | _, _, _, _ => "bad-op"
  | ["gjitter", ms, dr, sup] =>
    match parseKT ms, parseArrs dr, parseSupOpt sup with
    | some ms, some dr, some sup =>
      if dr.length = ms.length ∧ (List.zipWith (fun m (j : Array Int) => decide (m.2.size = j.size)) ms dr).all id then
        showGE (jitterGroup ms dr sup) else "pre-fail"
    | _, _, _ => "bad-op"
  | ["gshuffle", ms, pm] =>
    match parseKT ms, parseArrs pm with
    | some ms, some pm =>
      if pm.length = ms.length then showGE (shuffleGroup ms (pm.map fun p => p.toList.map Int.toNat)) else "pre-fail"
    | _, _ => "bad-op"
  | _ => "bad-op"

/-- `groupby <col>` → `v:i.i;v:i` · `groupby2 <c1> <c2>` → `a.b:i.i;…` · `getgroup <tags> <col> <v>` → tags of the group or `ERR nogroup`
(a history is driven by the harness: it sends the column the object carries at the time of each call) -/
def showIdx (l : List Nat) : String := if l.isEmpty then "-" else ".".intercalate (l.map toString)
def gbStep (toks : List String) : String :=
  match toks with
  | ["groupby", c] =>
    match parseNatArr c with
    | some c => ";".intercalate ((groupBy c.toList).map fun g => toString g.1 ++ ":" ++ showIdx g.2)
    | none => "bad-op"
  | ["groupby2", c1, c2] =>
    match parseNatArr c1, parseNatArr c2 with
    | some c1, some c2 =>
      if c1.size == c2.size then
        ";".intercalate ((groupBy2 c1.toList c2.toList).map fun g => toString g.1.1 ++ "." ++ toString g.1.2 ++ ":" ++ showIdx g.2)
      else "bad-op"
    | _, _ => "bad-op"
  | ["getgroup", t, c, v] =>
    match parseNatArr t, parseNatArr c, v.toNat? with
    | some t, some c, some v =>
      match getGroup t.toList c.toList v with
      | some r => showIdx r
      | none => "ERR nogroup"
    | _, _, _ => "bad-op"
  | _ => "bad-op"

/-- `npsplit <ts> <cuts>` → the pieces of the index under NumPy's rule for any non-negative split points: `a,b|-|c` -/
def npsplitStep (toks : List String) : String :=
  match toks with
  | ["npsplit", t, c] =>
    match parseArr t, parseNatArr c with
    | some t, some c => "|".intercalate ((npSplit t.toList c.toList).map fun p => showArr p.toArray)
    | _, _ => "bad-op"
  | _ => "bad-op"

def stepAll (line : String) : String :=
  let toks := (line.trimAscii.toString.splitOn " ").filter (· ≠ "")
  match toks with
  | "snew" :: _ => seriesStep toks
  | "hist" :: _ => seriesStep toks
  | "ghist" :: _ => groupStep toks
  | "conv" :: _ => convStep toks
  | "fftbins" :: _ => specStep toks
  | "hist1" :: _ => histStep toks
  | "wrap" :: _ => wrapStep toks
  | "concatok" :: _ => wrapStep toks
  | "tnew" :: _ => metaStep toks
  | "tget" :: _ => metaStep toks
  | "tint" :: _ => metaStep toks
  | "tdiff" :: _ => metaStep toks
  | "tsplit" :: _ => metaStep toks
  | "eta" :: _ => etaStep toks
  | "trial" :: _ => trialStep toks
  | "tcount" :: _ => tcountStep toks
  | "interp" :: _ => interpStep toks
  | "iget" :: _ => isetStep toks
  | "idrops" :: _ => isetStep toks
  | "idropl" :: _ => isetStep toks
  | "imclose" :: _ => isetStep toks
  | "itspan" :: _ => isetStep toks
  | "ifsup" :: _ => isetStep toks
  | "gshift" :: _ => rgroupStep toks
  | "gjitter" :: _ => rgroupStep toks
  | "gshuffle" :: _ => rgroupStep toks
  | "groupby" :: _ => gbStep toks
  | "npsplit" :: _ => npsplitStep toks
  | "groupby2" :: _ => gbStep toks
  | "getgroup" :: _ => gbStep toks
  | _ => kernelStep toks

end Pyn

import PynModel.Driver
import PynModel.Core.Series
/-!
# Line protocol, part 2: container-level operations (series constructor and histories)
`snew <t> <rows> <sup|none>`            → `t|rows|sup|num/den`
`hist <t> <rows> <sup|none> <op;op;…>`  → the state after the constructor and after every step, `;`-joined
ops: `R/<supe>` restrict, `T/<ix>` take, `G/<a>/<b>` get, `N/<ts>/<supe>` retime, `K` keep
supe: `S` | `L/<st>/<en>` | `U/<st>/<en>` | `I/<st>/<en>` | `D/<st>/<en>` (self ∪ / ∩ / − literal)
-/
namespace Pyn

def parsePairs (s : String) : Option (Array (Int × Int)) :=
  if s == "-" then some #[] else
  (s.splitOn ",").foldl (fun acc x => match acc, x.splitOn ":" with
    | some a, [u, v] => match u.toInt?, v.toInt? with
      | some u, some v => some (a.push (u, v))
      | _, _ => none
    | _, _ => none) (some #[])

def showSeries (s : Series) : String :=
  showArr s.t ++ "|" ++ showArr s.rows ++ "|" ++ showPairs s.sup ++ "|" ++ toString s.rateNum ++ "/" ++ toString s.rateDen

def parseSupE : List String → Option SupE
  | ["S"] => some .self
  | [k, st, en] =>
    match parseArr st, parseArr en with
    | some st, some en =>
      if k == "L" then some (.lit st en)
      else if k == "U" then some (.union .self (.lit st en))
      else if k == "I" then some (.inter .self (.lit st en))
      else if k == "D" then some (.diff .self (.lit st en))
      else none
    | _, _ => none
  | _ => none

def parseOp (s : String) : Option Op :=
  match s.splitOn "/" with
  | ["K"] => some .keep
  | "R" :: rest => (parseSupE rest).map .restrict
  | ["F", ts] => (parseArr ts).map .fresh
  | ["T", ix] => (parseNatArr ix).map .take
  | ["G", a, b] => match a.toInt?, b.toInt? with
    | some a, some b => some (.get a b)
    | _, _ => none
  | "N" :: ts :: rest => match parseArr ts, parseSupE rest with
    | some ts, some e => some (.retime ts e)
    | _, _ => none
  | _ => none

def parseSupOpt (s : String) : Option (Option (Array (Int × Int))) :=
  if s == "none" then some none else (parsePairs s).map some

def seriesStep (toks : List String) : String :=
  match toks with
  | ["snew", t, rows, sup] =>
    match parseArr t, parseNatArr rows, parseSupOpt sup with
    | some t, some rows, some sup =>
      if t.size = rows.size then showSeries (Series.new t rows sup) else "ERR assert"
    | _, _, _ => "bad-op"
  | ["hist", t, rows, sup, ops] =>
    match parseArr t, parseNatArr rows, parseSupOpt sup with
    | some t, some rows, some sup =>
      if t.size = rows.size then
        let s0 := Series.new t rows sup
        let rec go (s : Series) (acc : List String) : List String → Option (List String)
          | [] => some acc.reverse
          | o :: os => match parseOp o with
            | some op => let s' := s.step op; go s' (showSeries s' :: acc) os
            | none => none
        match go s0 [showSeries s0] (if ops == "-" then [] else ops.splitOn ";") with
        | some l => ";".intercalate l
        | none => "bad-op"
      else "ERR assert"
    | _, _, _ => "bad-op"
  | _ => "bad-op"

def stepAll (line : String) : String :=
  let toks := (line.trimAscii.toString.splitOn " ").filter (· ≠ "")
  match toks with
  | "snew" :: _ => seriesStep toks
  | "hist" :: _ => seriesStep toks
  | _ => kernelStep toks

end Pyn

import PynModel.Core.ISet
/-!
# Metadata attached to intervals / columns / group members
A metadata row is an opaque list of tag values (`List Nat`, one per metadata column).  An IntervalSet
with metadata is `TISet`: intervals + `some rows` (row k describes interval k) or `none`.

`fixLoopW` is `_jitfix_iset` with its warning flags: it returns the same intervals as `fixLoop`
plus `changed` = any of `to_warn[1:]` ("Some ends precede the relative start", "Some starts precede
the previous end", "Some epochs have no duration") — the condition under which the constructor
drops metadata.  `to_warn[0]` (the 1 µs trim) keeps the intervals in one-to-one correspondence and
keeps metadata.
-/
namespace Pyn

def fixLoopW (st en : Array Int) (h : st.size = en.size) (i : Nat) (out : Array (Int × Int)) (changed : Bool) :
    Array (Int × Int) × Bool :=
  let i1 := fixSkip st en h i
  if hi : i1 < st.size then
    let r := fixMerge st en h i1 hi (en[i1]'(h ▸ hi))
    let newend := fixTrim st r.1 r.2
    let out' := if newend > st[i1] then out.push (st[i1], newend) else out
    fixLoopW st en h (r.1 + 1) out' (changed || i1 != i || r.1 != i1 || !(newend > st[i1]))
  else (out, changed || i1 != i)
termination_by st.size - i
decreasing_by
  have h1 := fixSkip_ge st en h i
  have h2 := fixMerge_bounds st en h (fixSkip st en h i) hi (en[fixSkip st en h i]'(h ▸ hi))
  omega

def strictIncB (a : Array Int) : Bool :=
  (List.range (a.size - 1)).all fun i => a[i]! < a[i+1]!

abbrev Row := List Nat

structure TISet where
  iv : Array (Int × Int)
  rows : Option (Array Row)
deriving Repr, DecidableEq

/-- `IntervalSet(start, end, metadata=rows)`: metadata is kept iff starts and ends were strictly
increasing as given and the repair scan changed nothing but 1 µs trims -/
def TISet.new (st en : Array Int) (h : st.size = en.size) (rows : Option (Array Row)) : TISet :=
  let r := fixLoopW (sortArr st) (sortArr en) (by rw [sortArr_size, sortArr_size, h]) 0 #[] false
  ⟨r.1, if strictIncB st && strictIncB en && !r.2 then rows else none⟩

def gatherR (a : Array Row) (ix : Array Nat) : Array Row := ix.map (a[·]!)
def gatherP (a : Array (Int × Int)) (ix : Array Nat) : Array (Int × Int) := ix.map (a[·]!)

/-- `ep[key]` for an integer / slice / list / array / boolean-mask key, given as positions:
`values[key]`, `_metadata.iloc[key].reset_index(drop=True)`, then the constructor -/
def TISet.getIdx (a : TISet) (ix : Array Nat) : Option TISet :=
  if ix.all (· < a.iv.size) then
    let p := gatherP a.iv ix
    some (TISet.new (pairsSt p) (pairsEn p) (pairs_size p) (a.rows.map (gatherR · ix)))
  else none

/-- `a.intersect(b)`: rows of the parents `(i, j)` the kernel reports, joined (A's columns then B's) -/
def TISet.intersect (a b : TISet) : TISet :=
  let r := jitintersect (pairsSt a.iv) (pairsEn a.iv) (pairsSt b.iv) (pairsEn b.iv) (pairs_size _) (pairs_size _)
  let ra := a.rows.getD (Array.replicate a.iv.size [])
  let rb := b.rows.getD (Array.replicate b.iv.size [])
  let rows := r.par.map fun (i, j) => ra[i]! ++ rb[j]!
  if h : r.st.size = r.en.size then TISet.new r.st r.en h (some rows) else ⟨#[], none⟩

/-- `a.set_diff(b)`: rows of the parent index the kernel reports -/
def TISet.diff (a b : TISet) : TISet :=
  let r := jitdiff (pairsSt a.iv) (pairsEn a.iv) (pairsSt b.iv) (pairsEn b.iv) (pairs_size _) (pairs_size _)
  let ra := a.rows.getD (Array.replicate a.iv.size [])
  if h : r.st.size = r.en.size then TISet.new r.st r.en h (some (r.par.map (ra[·]!))) else ⟨#[], none⟩

/-- `a.union(b)` drops metadata -/
def TISet.union (a b : TISet) : TISet := ⟨ISet.union a.iv b.iv, none⟩

/-- `ep.split(size)`: every interval longer than `size` is cut into consecutive pieces of length `size`
starting at its start; a last piece shorter than `size` is discarded; each piece is shortened by
1 µs; pieces carry their parent's row.  (`np.arange(start, end, size)` = `start + j·size < end`.) -/
def splitPieces (s e size : Int) (fuel : Nat) (cur : Int) (acc : Array (Int × Int)) : Array (Int × Int) :=
  match fuel with
  | 0 => acc
  | fuel + 1 =>
    if cur < e then
      let nxt := if cur + size < e then cur + size else e
      let acc' := if nxt - cur ≥ size then acc.push (cur, nxt - 1000) else acc
      splitPieces s e size fuel (cur + size) acc'
    else acc

def TISet.split (a : TISet) (size : Int) : TISet :=
  if size ≤ 0 then ⟨#[], none⟩ else
  let ra := a.rows.getD (Array.replicate a.iv.size [])
  let parts := (List.range a.iv.size).flatMap fun k =>
    let p := a.iv[k]!
    if p.2 - p.1 > size then
      ((splitPieces p.1 p.2 size ((p.2 - p.1) / size + 2).toNat p.1 #[]).toList.map fun q => (q, ra[k]!))
    else []
  let st := (parts.map (·.1.1)).toArray
  let en := (parts.map (·.1.2)).toArray
  if h : st.size = en.size then TISet.new st en h (some (parts.map (·.2)).toArray) else ⟨#[], none⟩

/-! ## label-indexed metadata frames (TsdFrame columns, TsGroup members) -/

/-- rows in index order: (label, row) -/
abbrev Frame := List (Int × Row)

def Frame.find (f : Frame) (l : Int) : Option Row :=
  match f with
  | [] => none
  | (l', r) :: rest => if l' = l then some r else Frame.find rest l

/-- `df.loc[labels]` -/
def Frame.loc (f : Frame) : List Int → Option Frame
  | [] => some []
  | l :: rest => match f.find l, Frame.loc f rest with
    | some r, some g => some ((l, r) :: g)
    | _, _ => none

/-- `df.iloc[positions]` -/
def Frame.iloc (f : Frame) : List Nat → Option Frame
  | [] => some []
  | p :: rest => match f[p]?, Frame.iloc f rest with
    | some x, some g => some (x :: g)
    | _, _ => none

/-- `reset_index(drop=True)` -/
def Frame.reset (f : Frame) : Frame := f.mapIdx fun i x => ((i : Int), x.2)

end Pyn

import PynModel.Core.ISet
import PynModel.Core.Slice
import PynModel.Kernels.Restrict
/-!
# Time-series containers: `_Base.__init__` / `_BaseTsd.__init__` / `Ts.__init__` and the factory every
operation returns through (`_define_instance`, `_initialize_tsd_output` → the class constructor)

A series is (timestamps in ns, opaque row ids, time support).  `Series.new` is the constructor:
* `TsIndex.__new__` sorts the timestamps (the data rows are **not** permuted: the code sorts `t` only);
* an empty index gets the empty support and rate NaN, whatever support was passed;
* with a support: `_restrict` (the `jitrestrict` model) selects timestamps and rows with one index vector;
* without one: support = `IntervalSet(t[0], t[-1])` (through the IntervalSet constructor).
`rate = len(index) / Σ(end − start)` is `Series.rateNum / Series.rateDen` (exact fraction).
-/
namespace Pyn

structure Series where
  t : Array Int
  rows : Array Nat
  sup : Array (Int × Int)
deriving Repr, DecidableEq

def gatherI (a : Array Int) (ix : Array Nat) : Array Int := ix.map (a[·]!)
def gatherN (a : Array Nat) (ix : Array Nat) : Array Nat := ix.map (a[·]!)

def Series.new (t : Array Int) (rows : Array Nat) (sup : Option (Array (Int × Int))) : Series :=
  let ts := sortArr t
  if ts.size = 0 then ⟨#[], #[], #[]⟩
  else match sup with
    | none => ⟨ts, rows, ISet.mk #[ts[0]!] #[ts[ts.size - 1]!] rfl⟩
    | some p =>
      let ix := jitrestrict ts (pairsSt p) (pairsEn p) (pairs_size p)
      ⟨gatherI ts ix, gatherN rows ix, p⟩

/-- `x.restrict(ep)` for an IntervalSet `ep` (already canonical: it is an IntervalSet object):
`_restrict` selects, then `_define_instance` runs the constructor on the selection -/
def Series.restrictTo (s : Series) (p : Array (Int × Int)) : Series :=
  let r := Series.new s.t s.rows (some p)
  Series.new r.t r.rows (some p)

def Series.rateNum (s : Series) : Nat := s.t.size
def Series.rateDen (s : Series) : Int := s.sup.foldl (fun acc p => acc + (p.2 - p.1)) 0

/-! ## a small language of support expressions and operations, for histories -/

/-- how an operation obtains the support it passes on: the object's own, a literal given by the
caller (through the IntervalSet constructor), or set algebra on those -/
inductive SupE where
  | self
  | lit (st en : Array Int)
  | union (a b : SupE)
  | inter (a b : SupE)
  | diff (a b : SupE)
deriving Repr

def SupE.eval (cur : Array (Int × Int)) : SupE → Array (Int × Int)
  | .self => cur
  | .lit st en => if h : st.size = en.size then ISet.mk st en h else #[]
  | .union a b => ISet.union (a.eval cur) (b.eval cur)
  | .inter a b => ISet.intersect (a.eval cur) (b.eval cur)
  | .diff a b => ISet.diff (a.eval cur) (b.eval cur)

inductive Op where
  /-- `x.restrict(ep)` -/
  | restrict (e : SupE)
  /-- integer / slice / list / boolean-mask indexing: the selected positions, support kept -/
  | take (ix : Array Nat)
  /-- `x.get(start, end)` -/
  | get (s e : Int)
  /-- an operation that returns a series on a new time axis (count, bin_average, value_from,
  interpolate, perievent, randomisation, to_tsd, …) with support `e`; rows are fresh -/
  | retime (ts : Array Int) (e : SupE)
  /-- element-wise numpy function, arithmetic, convolve, smooth, filters: same axis, same support -/
  | keep
  /-- an operation that builds its result WITHOUT passing a support (`nap.Ts(t=…)` inside
  `shuffle_ts_intervals`, `jitter_timestamps(keep_tsupport=False)`): default support `[min, max]` -/
  | fresh (ts : Array Int)
deriving Repr

def Series.step (s : Series) : Op → Series
  | .restrict e => s.restrictTo (e.eval s.sup)
  | .take ix =>
    if ix.all (· < s.t.size) then Series.new (gatherI s.t ix) (gatherN s.rows ix) (some s.sup) else s
  | .get a b =>
    match getSlice s.t 3 a (some b) with
    | .ok (i, j) =>
      let ix := (sliceIdx s.t.size i j).toArray
      Series.new (gatherI s.t ix) (gatherN s.rows ix) (some s.sup)
    | .error _ => s
  | .retime ts e => Series.new ts (Array.range ts.size) (some (e.eval s.sup))
  | .keep => Series.new s.t s.rows (some s.sup)
  | .fresh ts => Series.new ts (Array.range ts.size) none

def Series.run (s : Series) (ops : List Op) : Series := ops.foldl Series.step s

end Pyn

import PynModel.Core.Series
/-!
# `TsGroup`: a keyed collection of series on one time support
`Group.new` follows `TsGroup.__init__`: keys converted to integers by the caller of the model (the
harness passes the integer value of every key form), uniqueness check, sort by key with the data
attached, support = the one given or `_union_intervals` of the members' supports (three branches:
n = 1 the member's own, n = 2 `jitunion`, n > 2 `jitunion_isets`, each through the IntervalSet
constructor), every member restricted unless `bypass_check`.
-/
namespace Pyn

structure Member where
  key : Int
  s : Series
deriving Repr, DecidableEq

structure Group where
  ms : List Member
  sup : Array (Int × Int)
deriving Repr, DecidableEq

inductive GErr where
  | dupKey       -- "Two dictionary keys contain the same integer value!"
  | emptyUnion   -- "Union of time supports is empty."
  | keyError     -- key not in group index
  | overlap      -- merge: overlapping keys
  | support      -- merge: different time supports
deriving Repr, DecidableEq

/-- stable insertion sort of pairs by first component (models `np.argsort` on starts / times; any
sorting permutation gives the same results where it is used) -/
def insertTK (x : Int × Int) : List (Int × Int) → List (Int × Int)
  | [] => [x]
  | y :: ys => if x.1 ≤ y.1 then x :: y :: ys else y :: insertTK x ys

def sortTK : List (Int × Int) → List (Int × Int)
  | [] => []
  | x :: xs => insertTK x (sortTK xs)

def insertM (m : Member) : List Member → List Member
  | [] => [m]
  | y :: ys => if m.key ≤ y.key then m :: y :: ys else y :: insertM m ys

def sortM : List Member → List Member
  | [] => []
  | x :: xs => insertM x (sortM xs)

def hasDup : List Int → Bool
  | [] => false
  | x :: xs => xs.contains x || hasDup xs

def lookupM (k : Int) : List Member → Option Series
  | [] => none
  | m :: ms => if m.key = k then some m.s else lookupM k ms

/-- `_union_intervals` -/
def unionSupports : List (Array (Int × Int)) → Array (Int × Int)
  | [a] => a
  | [a, b] => ISet.union a b
  | l =>
    let all := (sortTK (l.flatMap (·.toList))).toArray   -- `idx = np.argsort(starts)`
    let r := jitunionIsets (pairsSt all) (pairsEn all) (pairs_size all)
    if h : r.st.size = r.en.size then ISet.mk r.st r.en h else #[]

def Group.new (data : List Member) (sup : Option (Array (Int × Int))) (bypass : Bool) : Except GErr Group :=
  if hasDup (data.map (·.key)) then .error .dupKey else
  let ms := sortM data
  let supR : Except GErr (Array (Int × Int)) := match sup with
    | some p => .ok p
    | none =>
      let u := unionSupports (ms.map (·.s.sup))
      if u.size = 0 then .error .emptyUnion else .ok u
  match supR with
  | .error e => .error e
  | .ok p => .ok ⟨if bypass then ms else ms.map (fun m => ⟨m.key, m.s.restrictTo p⟩), p⟩

def Group.keys (g : Group) : List Int := g.ms.map (·.key)

/-- `g[[k1, k2, …]]` / boolean mask / `getby_*` (all reduce to a key list): `_ts_group_from_keys` -/
def Group.select (g : Group) (ks : List Int) : Except GErr Group :=
  if ks.all (fun k => (lookupM k g.ms).isSome) then
    Group.new (ks.filterMap (fun k => (lookupM k g.ms).map (fun s => ⟨k, s⟩))) (some g.sup) false
  else .error .keyError

/-- `g.restrict(ep)` -/
def Group.restrict (g : Group) (ep : Array (Int × Int)) : Except GErr Group :=
  Group.new (g.ms.map (fun m => ⟨m.key, m.s.restrictTo ep⟩)) (some ep) true

/-- `g.get(start, end)` -/
def Group.get (g : Group) (a b : Int) : Except GErr Group :=
  Group.new (g.ms.map (fun m => ⟨m.key, m.s.step (.get a b)⟩)) (some g.sup) true

/-- `g.merge(h)` with `reset_index` / `reset_time_support` flags -/
def Group.merge (g h : Group) (resetIndex resetSupport : Bool) : Except GErr Group :=
  let items := g.ms ++ h.ms
  if !resetIndex && (h.ms.any fun m => (lookupM m.key g.ms).isSome) then .error .overlap
  else if !resetSupport && g.sup != h.sup then .error .support
  else
    let data := if resetIndex then items.mapIdx (fun i m => (⟨(i : Int), m.s⟩ : Member)) else items
    Group.new data (if resetSupport then none else some g.sup) false

/-- the loop of `TsGroup.merge_group(g, *hs)`: for each further group IN ORDER — key overlap with everything
gathered so far (unless `reset_index`), then its time support against the FIRST group's (unless
`reset_time_support`) — and only then its items are appended -/
def mergeItems (g : Group) (resetIndex resetSupport : Bool) : List Member → List Group → Except GErr (List Member)
  | acc, [] => .ok acc
  | acc, h :: hs =>
    if !resetIndex && (h.ms.any fun m => (lookupM m.key acc).isSome) then .error .overlap
    else if !resetSupport && g.sup != h.sup then .error .support
    else mergeItems g resetIndex resetSupport (acc ++ h.ms) hs

/-- `TsGroup.merge_group(g, h₁, …, hₙ)` (any number of groups) -/
def Group.mergeN (g : Group) (hs : List Group) (resetIndex resetSupport : Bool) : Except GErr Group :=
  match mergeItems g resetIndex resetSupport g.ms hs with
  | .error e => .error e
  | .ok items =>
    let data := if resetIndex then items.mapIdx (fun i m => (⟨(i : Int), m.s⟩ : Member)) else items
    Group.new data (if resetSupport then none else some g.sup) false

/-- `g.to_tsd()`: all (time, key) pairs; the code sorts them by time with `np.argsort` (any sorting
permutation); here: stable insertion by time -/
def Group.toTsd (g : Group) : List (Int × Int) :=
  sortTK (g.ms.flatMap fun m => m.s.t.toList.map fun t => (t, m.key))

/-- `Tsd.to_tsgroup()`: one member per distinct value, holding the timestamps carrying it -/
def memberOf (k : Int) (l : List (Int × Int)) : List Int := (l.filter (·.2 = k)).map (·.1)

/-- the pooled pairs as `to_tsd` returns them: `Tsd(t=times[idx], d=keys[idx], time_support=g.sup)` runs the
series constructor, which restricts to the group support (a no-op unless members were admitted with
`bypass_check`) and gives an empty object the empty support -/
def Group.toTsdR (g : Group) : List (Int × Int) × Array (Int × Int) :=
  let l := g.toTsd
  if l.isEmpty then ([], #[]) else
  let ix := jitrestrict (l.map (·.1)).toArray (pairsSt g.sup) (pairsEn g.sup) (pairs_size g.sup)
  (ix.toList.filterMap (l[·]?), g.sup)

/-- `g.to_tsd().to_tsgroup()`: members with at least one sample, each rebuilt as `Ts(t, time_support)` -/
def Group.roundtrip (g : Group) : Except GErr Group :=
  let (l, sup) := g.toTsdR
  let ks := g.keys.filter fun k => (memberOf k l).length != 0
  Group.new (ks.map fun k => ⟨k, Series.new (memberOf k l).toArray (Array.range (memberOf k l).length) (some sup)⟩)
    (some sup) true

end Pyn

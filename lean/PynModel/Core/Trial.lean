import PynModel.Core.Slice
/-!
# `to_trial_tensor` (layout only): which sample goes to which cell
`slices = [self.get_slice(s, e) for s, e in ep.values]; lengths = stop - start; n_t = max(lengths)`, then row `i`
receives `values[slice_i]` at columns `0 .. len_i` (`align="start"`) or `n_t - len_i .. n_t` (`align="end"`), every
other cell keeps the padding value.  A cell is modelled as `some k` (sample position `k`) or `none` (padding).
`max([])` raises in Python: an empty `ep` is `.error .value` here.
-/
namespace Pyn

def trialRow (a len nt : Nat) (alignEnd : Bool) : Array (Option Nat) :=
  (Array.range nt).map fun j =>
    if alignEnd then (if nt - len ≤ j then some (a + (j - (nt - len))) else none)
    else (if j < len then some (a + j) else none)

def trialSlices (t : Array Int) (trials : List (Int × Int)) : Except SliceErr (List (Int × Int)) :=
  trials.mapM fun p => getSlice t 3 p.1 (some p.2)

def trialTensor (t : Array Int) (trials : List (Int × Int)) (alignEnd : Bool) :
    Except SliceErr (List (Array (Option Nat))) := do
  let sl ← trialSlices t trials
  if sl.isEmpty then throw .value
  let nt := (sl.map fun p => (p.2 - p.1).toNat).foldl max 0
  pure (sl.map fun p => trialRow p.1.toNat (p.2 - p.1).toNat nt alignEnd)

end Pyn

import PynModel.Core.Slice
import PynModel.Kernels.Count
/-!
# `to_trial_tensor` (layout only): which sample goes to which cell
`slices = [self.get_slice(s, e) for s, e in ep.values]; lengths = stop - start; n_t = max(lengths)`, then row `i`
receives `values[slice_i]` at columns `0 .. len_i` (`align="start"`) or `n_t - len_i .. n_t` (`align="end"`), every
other cell keeps the padding value.  A cell is modelled as `some k` (sample position `k`) or `none` (padding).
`max([])` raises in Python: an empty `ep` is `.error .value` here.
-/
namespace Pyn

def trialRow (a len nt : Nat) (alignEnd : Bool) : Array (Option Nat) :=
  (Array.range nt).map fun j =>
    if alignEnd then (if nt - len ≤ j then some (a + (j - (nt - len))) else none)
    else (if j < len then some (a + j) else none)

def trialSlices (t : Array Int) (trials : List (Int × Int)) : Except SliceErr (List (Int × Int)) :=
  trials.mapM fun p => getSlice t 3 p.1 (some p.2)

def trialTensor (t : Array Int) (trials : List (Int × Int)) (alignEnd : Bool) :
    Except SliceErr (List (Array (Option Nat))) := do
  let sl ← trialSlices t trials
  if sl.isEmpty then throw .value
  let nt := (sl.map fun p => (p.2 - p.1).toNat).foldl max 0
  pure (sl.map fun p => trialRow p.1.toNat (p.2 - p.1).toNat nt alignEnd)

/-- `trial_count(ep, bin_size, align)`: `count(bin_size, ep)`, then per trial the bins whose centre lies in
`[start, end]` (`count.get(start, end)`: two `searchsorted` on the bin centres, here doubled), written into a row of
`n_t = max ceil((end + bin - start) / bin)` cells from the left or from the right, and finally the tensor is trimmed to
the longest row.  A cell is `some count` or `none` (padding).  `np.max` of an empty array raises: `.error .assertion`. -/
def trialCount (ts st en : Array Int) (hm : st.size = en.size) (bs : Int) (alignEnd : Bool) :
    R (List (Array (Option Nat))) := do
  let cnt ← jitbin ts (ts.map fun _ => 0) st en hm bs
  let cen := cnt.map (·.1)
  let sl := (List.range st.size).map fun i => (ssLeft cen (2 * st[i]!) 0, ssRight cen (2 * en[i]!) 0)
  if sl.isEmpty then throw .assertion
  let nt : Nat := ((List.range st.size).map fun i => ((en[i]! + bs - st[i]! + bs - 1) / bs).toNat).foldl max 0
  let mx := (sl.map fun p => p.2 - p.1).foldl max 0
  let rows := sl.map fun p =>
    (trialRow p.1 (p.2 - p.1) nt alignEnd).map fun c => c.map fun k => (cnt.getD k (0, 0, 0)).2.1
  pure (rows.map fun r => if alignEnd then r.extract (nt - mx) nt else r.extract 0 mx)

end Pyn

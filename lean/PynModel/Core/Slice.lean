import PynModel.Core.Search
/-!
# `_Base._get_slice` (after `fix:` 977d4c8: restrict mode locates `end` with side="right")
Modes: 0 `before_t`, 1 `after_t`, 2 `closest_t`, 3 `restrict`.  `n_points` is not modelled.
Python's negative indices wrap around; `pyGet` reproduces that (and fails outside `[-n, n)`).
-/
namespace Pyn

inductive SliceErr where
  | index      -- IndexError
  | value      -- ValueError ('start' should not precede 'end')
deriving Repr, DecidableEq

def pyGet (t : Array Int) (i : Int) : Except SliceErr Int :=
  let n : Int := t.size
  if 0 ≤ i ∧ i < n then .ok (t.getD i.toNat 0)
  else if -n ≤ i ∧ i < 0 then .ok (t.getD (i + n).toNat 0)
  else .error .index

def b2i (b : Bool) : Int := if b then 1 else 0

/-- returns the `(start, stop)` of the slice (`step` is `None` without `n_points`) -/
def getSlice (t : Array Int) (mode : Nat) (start : Int) (end_ : Option Int) : Except SliceErr (Int × Int) := do
  let n : Int := t.size
  let mut i : Int := ssLeft t start
  if i == n && mode != 3 then i := i - 1
  if mode == 0 then
    let v ← pyGet t i
    i := i - b2i (v > start)
  else if mode == 2 then
    let v ← pyGet t i
    let p ← pyGet t (i - 1)
    i := i - b2i (v - start > ((p - start).natAbs : Int))
  match end_ with
  | none =>
    if i < 0 then return (0, 0)
    else if i == n - 1 && mode == 1 then return (i, i)
    else return (i, i + 1)
  | some e =>
    i := max 0 i
    if start > e then throw .value
    let mut j : Int := ssLeft t e
    let mut add : Int := 0
    if j == n then
      j := j - 1
      add := 1
    if mode == 0 then
      let v ← pyGet t j
      j := j - (b2i (v > e) - b2i (j == 0))
    else if mode == 2 then
      let v ← pyGet t j
      let p ← pyGet t (j - 1)
      j := j - b2i (v - e > ((p - e).natAbs : Int))
    else if mode == 1 && j == n - 1 then
      j := j + add
    else if mode == 3 then
      j := ssRight t e
    return (i, j)

/-- the positions selected by a Python `slice(a, b)` on a sequence of length `n` (a, b ≥ 0 here) -/
def sliceIdx (n : Nat) (a b : Int) : List Nat :=
  (List.range n).filter fun k => a ≤ (k : Int) ∧ (k : Int) < b

end Pyn

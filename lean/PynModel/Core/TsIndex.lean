import PynModel.Core.ISet
/-!
# `TsIndex.format_timestamps` / `return_timestamps` / `TsIndex.__new__` in exact arithmetic
A time given by the user in unit `u` is a rational number `x` of that unit.  `format_timestamps`
divides by 10³ / 10⁶ and rounds to 9 decimals of a second, i.e. to an integer number of
nanoseconds (`np.around` rounds half to even).  The float step — that the double nearest to
`x / 10³` rounds to the same nanosecond — is outside the model (DESIGN §2.3) and is what the
equivariance run of the check measures.
-/
namespace Pyn

inductive TUnit where
  | s | ms | us
deriving Repr, DecidableEq

/-- nanoseconds per unit -/
def TUnit.nsPer : TUnit → Int
  | .s => 1000000000
  | .ms => 1000000
  | .us => 1000

/-- `np.around(·)` to the nearest integer, ties to even -/
def roundHE (q : Rat) : Int :=
  let f := q.floor
  let r := q - (f : Rat)
  if r < 1/2 then f else if 1/2 < r then f + 1 else if f % 2 = 0 then f else f + 1

/-- `format_timestamps(x, u)` as integer nanoseconds -/
def fmt (u : TUnit) (x : Rat) : Int := roundHE (x * (u.nsPer : Rat))

/-- `return_timestamps(t, u)`: stored seconds times the unit factor, as an exact rational of unit `u` -/
def ret (u : TUnit) (t : Int) : Rat := (t : Rat) / (u.nsPer : Rat)

/-- `TsIndex.__new__`: convert, round, sort -/
def TsIndex.new (u : TUnit) (xs : List Rat) : Array Int := sortArr (xs.map (fmt u)).toArray

end Pyn

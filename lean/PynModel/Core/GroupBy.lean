import PynModel.Basic
/-!
# `groupby` on metadata (`_MetadataMixin.groupby`, `get_group=`, `groupby_apply`)
Metadata values are coded as naturals (the harness codes the categories).  `groupby(col)` is a FUNCTION OF THE METADATA THE OBJECT
CARRIES AT THE TIME OF THE CALL: value ↦ the positions (IntervalSet rows, TsdFrame columns, TsGroup members in index order) holding it,
in increasing order, the values in increasing order (pandas sorts the group keys).
`MState` is the metadata table under `set_info` / item / attribute assignment: a column is replaced as a whole.
-/
namespace Pyn

/-- positions whose value in the column is `v`, increasing -/
def groupIdx (col : List Nat) (v : Nat) : List Nat :=
  (List.range col.length).filter fun i => col.getD i 0 == v

/-- the distinct values of the column, increasing -/
def groupKeys (col : List Nat) : List Nat :=
  (List.range (col.foldl max 0 + 1)).filter fun v => col.contains v

/-- `obj.groupby(col)` -/
def groupBy (col : List Nat) : List (Nat × List Nat) :=
  (groupKeys col).map fun v => (v, groupIdx col v)

/-- `obj.groupby(col, get_group=v)` on elements carrying the tags `tags`: `none` when `v` is not a group ("Group not found") -/
def getGroup (tags col : List Nat) (v : Nat) : Option (List Nat) :=
  if col.contains v then some ((groupIdx col v).map fun i => tags.getD i 0) else none

/-- `obj.groupby([c1, c2])`: joint grouping, keys in lexicographic order, empty combinations absent -/
def groupBy2 (c1 c2 : List Nat) : List ((Nat × Nat) × List Nat) :=
  ((groupKeys c1).flatMap fun a => (groupKeys c2).map fun b =>
      ((a, b), (groupIdx c1 a).filter fun i => c2.getD i 0 == b)).filter fun g => !g.2.isEmpty

/-- the metadata table: named columns; assigning a column replaces it -/
structure MState where
  cols : List (String × List Nat)

def MState.set (s : MState) (name : String) (c : List Nat) : MState :=
  ⟨(name, c) :: s.cols.filter (fun p => p.1 != name)⟩
def MState.get (s : MState) (name : String) : Option (List Nat) :=
  (s.cols.find? (fun p => p.1 == name)).map (·.2)
/-- `groupby(name)` after a history of assignments -/
def MState.groupby (s : MState) (name : String) : Option (List (Nat × List Nat)) :=
  (s.get name).map groupBy

end Pyn

import PynModel.Basic
/-!
# `np.searchsorted` as an executable specification function (linear scan; the theorems only use
the characterisation "first index whose element is ≥ x" / "> x").
-/
namespace Pyn

/-- `np.searchsorted(a, x, side="left")` for sorted `a`: first index `i` with `a[i] ≥ x` -/
def ssLeft (a : Array Int) (x : Int) (i : Nat := 0) : Nat :=
  if h : i < a.size then (if a[i] < x then ssLeft a x (i+1) else i) else i
termination_by a.size - i

/-- `np.searchsorted(a, x, side="right")`: first index `i` with `a[i] > x` -/
def ssRight (a : Array Int) (x : Int) (i : Nat := 0) : Nat :=
  if h : i < a.size then (if a[i] ≤ x then ssRight a x (i+1) else i) else i
termination_by a.size - i

end Pyn

import PynModel.Core.Series
/-!
# Shape-level model of the NumPy wrappers (`__array_ufunc__`, `__array_function__`,
`_initialize_tsd_output`, `_concatenate_tsd`, `_split_tsd`)
The numbers are NumPy's by construction (the wrapper calls the function on `.values`); what the
wrapper decides is (1) whether the result becomes a time series again, (2) of which class, (3) whether
column labels are kept — all from the result's shape alone.
-/
namespace Pyn

inductive Wrapped where
  /-- returned as a plain NumPy object / scalar -/
  | raw
  /-- returned as Tsd (ndim 1), TsdFrame (ndim 2) or TsdTensor (ndim ≥ 3) on the input's time axis;
  `cols`: the input's column labels and metadata are carried over -/
  | series (ndim : Nat) (cols : Bool)
deriving Repr, DecidableEq

/-- `_initialize_tsd_output(input, out)`: `n` = number of timestamps, `inShape` = shape of the input's
values, `outShape` = shape of the function's result (`none` for a non-array result) -/
def wrapOut (n : Nat) (inShape : List Nat) (outShape : Option (List Nat)) : Wrapped :=
  match outShape with
  | none => .raw
  | some [] => .raw
  | some (d0 :: rest) =>
    if d0 = n then
      .series (rest.length + 1) (rest.length == 1 && inShape.length == 2 && rest == inShape.drop 1)
    else .raw

/-- `__array_ufunc__`: refuses (NotImplemented) more than one operand of the same pynapple class -/
def ufuncAccepts (nSameClassOperands : Nat) : Bool := nSameClassOperands ≤ 1

/-- `np.split(x, cuts)` along time for increasing cuts: consecutive slices -/
def splitFrom (off : Nat) (l : List Int) : List Nat → List (List Int)
  | [] => [l]
  | c :: cs => l.take (c - off) :: splitFrom c (l.drop (c - off)) cs

def splitAtCuts (l : List Int) (cuts : List Nat) : List (List Int) := splitFrom 0 l cuts

/-- `np.split(x, cuts)` for ANY list of non-negative split points, as NumPy cuts it (`div = [0] + cuts + [N]`, piece i = `x[div[i]:div[i+1]]`, Python
slices clamp): split points that step back give an empty piece and then repeat rows.  `_split_tsd` applies the same rule to the index and to the data. -/
def sliceL {α : Type} (l : List α) (a b : Nat) : List α := (l.drop a).take (b - a)

def npSplitFrom {α : Type} (l : List α) (prev : Nat) : List Nat → List (List α)
  | [] => [l.drop prev]
  | c :: cs => sliceL l prev c :: npSplitFrom l c cs

def npSplit {α : Type} (l : List α) (cuts : List Nat) : List (List α) := npSplitFrom l 0 cuts

/-- `_concatenate_tsd` along time: accepted iff the stacked index is strictly increasing -/
def concatAccepts (ts : List (List Int)) : Bool :=
  let all := ts.flatten
  (List.range (all.length - 1)).all fun i => all[i]! < all[i+1]!

def concatSeries (parts : List Series) : Option Series :=
  if concatAccepts (parts.map (·.t.toList)) then
    match parts with
    | [] => none
    | p :: rest =>
      let sup := rest.foldl (fun acc q => ISet.union acc q.sup) p.sup
      let t := (parts.map (·.t.toList)).flatten.toArray
      some (Series.new t (Array.range t.size) (some sup))
  else none

end Pyn

import PynModel.Core.ISet
/-!
# The remaining IntervalSet-returning methods of `IntervalSet` (ns endpoints, no metadata)

Every one of them ends in a call of the constructor (`ISet.mk`, i.e. sort + `_jitfix_iset`) on arrays it
has assembled; the model keeps exactly that shape.

* `ep[key]` for an integer / slice / list / boolean-mask key (positions `ix`): `values[key]` → constructor;
* `drop_short_intervals(thr)` = `self[(end - start) > thr]`, `drop_long_intervals(thr)` = `self[(end - start) < thr]`;
* `merge_close_intervals(thr)`: `tojoin = (start[1:] - end[0:-1]) > thr`,
  `start = hstack((start[0], start[1:][tojoin]))`, `end = hstack((end[0:-1][tojoin], end[-1]))` → constructor;
* `time_span()`: `IntervalSet(values[0,0], values[-1,1])` (IndexError on the empty set → `none`).
-/
namespace Pyn

/-- the constructor applied to an array of pairs -/
def ISet.ofPairs (p : Array (Int × Int)) : Array (Int × Int) := ISet.mk (pairsSt p) (pairsEn p) (pairs_size p)

/-- `ep[ix]` (positions; NumPy raises IndexError when one is out of range) -/
def ISet.getIdx (p : Array (Int × Int)) (ix : Array Nat) : Option (Array (Int × Int)) :=
  if ix.all (· < p.size) then some (ISet.ofPairs (ix.map (p[·]!))) else none

/-- `ep[mask]` for a boolean mask given as a predicate on the rows -/
def ISet.select (p : Array (Int × Int)) (f : Int × Int → Bool) : Array (Int × Int) := ISet.ofPairs (p.filter f)

def ISet.dropShort (p : Array (Int × Int)) (thr : Int) : Array (Int × Int) :=
  ISet.select p fun q => decide (q.2 - q.1 > thr)

def ISet.dropLong (p : Array (Int × Int)) (thr : Int) : Array (Int × Int) :=
  ISet.select p fun q => decide (q.2 - q.1 < thr)

/-- `xs[mask]` -/
def maskSel (xs : List Int) (m : List Bool) : List Int :=
  (xs.zip m).filterMap fun (x, b) => if b then some x else none

/-- `(start[1:] - end[0:-1]) > thr` -/
def tojoin (l : List (Int × Int)) (thr : Int) : List Bool :=
  List.zipWith (fun a b => decide (b.1 - a.2 > thr)) l l.tail

/-- the two arrays `merge_close_intervals` hands to the constructor (non-empty `l`) -/
def mergeCloseSE (a : Int × Int) (rest : List (Int × Int)) (thr : Int) : List Int × List Int :=
  let l := a :: rest
  let m := tojoin l thr
  (a.1 :: maskSel (l.tail.map (·.1)) m, maskSel (l.dropLast.map (·.2)) m ++ [(l.getLast (by simp [l])).2])

theorem maskSel_length (xs : List Int) (m : List Bool) (h : xs.length = m.length) :
    (maskSel xs m).length = m.count true := by
  induction xs generalizing m with
  | nil => cases m with
    | nil => simp [maskSel]
    | cons b m => simp at h
  | cons x xs ih =>
    cases m with
    | nil => simp at h
    | cons b m =>
      have := ih m (by simpa using h)
      unfold maskSel at this ⊢
      cases b <;> simp_all

theorem tojoin_length (a : Int × Int) (rest : List (Int × Int)) (thr : Int) :
    (tojoin (a :: rest) thr).length = rest.length := by
  simp [tojoin]

theorem mergeCloseSE_size (a : Int × Int) (rest : List (Int × Int)) (thr : Int) :
    (mergeCloseSE a rest thr).1.toArray.size = (mergeCloseSE a rest thr).2.toArray.size := by
  unfold mergeCloseSE
  simp only [List.size_toArray, List.length_cons, List.length_append, List.length_nil]
  rw [maskSel_length _ _ (by simp [tojoin_length]), maskSel_length _ _ (by simp [tojoin_length])]

def ISet.mergeClose (p : Array (Int × Int)) (thr : Int) : Array (Int × Int) :=
  match p.toList with
  | [] => #[]
  | a :: rest =>
    ISet.mk (mergeCloseSE a rest thr).1.toArray (mergeCloseSE a rest thr).2.toArray (mergeCloseSE_size a rest thr)

/-- the loop of `find_support`: `for i in range(n-1): if t[i+1] - t[i] > gap: ends.append(t[i] + 1e-6);
starts.append(t[i+1])`, then `ends.append(t[-1] + 1e-6)`; returns what is appended to `starts = [t[0]]` and `ends = []` -/
def findLoop (gap : Int) : Int → List Int → List Int × List Int
  | prev, [] => ([], [prev + 1000])
  | prev, x :: r =>
    let q := findLoop gap x r
    if x - prev > gap then (x :: q.1, (prev + 1000) :: q.2) else q

theorem findLoop_length (gap prev : Int) (r : List Int) :
    (findLoop gap prev r).2.length = (findLoop gap prev r).1.length + 1 := by
  induction r generalizing prev with
  | nil => simp [findLoop]
  | cons x r ih =>
    simp only [findLoop]
    split <;> simp [ih]

/-- `ts.find_support(min_gap)` (IndexError on an empty series → `none`) -/
def ISet.findSupport (ts : Array Int) (gap : Int) : Option (Array (Int × Int)) :=
  match ts.toList with
  | [] => none
  | t0 :: rest =>
    some (ISet.mk (t0 :: (findLoop gap t0 rest).1).toArray (findLoop gap t0 rest).2.toArray
      (by simp [findLoop_length]))

def ISet.timeSpan (p : Array (Int × Int)) : Option (Array (Int × Int)) :=
  if h : 0 < p.size then some (ISet.mk #[p[0].1] #[p[p.size - 1].2] rfl) else none

end Pyn

/-!
# Effect model for C10: buffers with identities, operations that allocate and write
A heap maps buffer identities to contents.  An operation allocates `k` fresh buffers (identities
`next … next+k-1`) and performs a list of writes `(buffer id, new content)`.
-/
namespace Pyn

structure Heap where
  next : Nat
  cell : Nat → Option Int

structure Effect where
  allocs : Nat
  writes : List (Nat × Int)

def Heap.write (h : Heap) (w : Nat × Int) : Heap :=
  { h with cell := fun i => if i = w.1 then some w.2 else h.cell i }

def Heap.apply (h : Heap) (e : Effect) : Heap :=
  e.writes.foldl Heap.write { h with next := h.next + e.allocs }

def Heap.run (h : Heap) (es : List Effect) : Heap := es.foldl Heap.apply h

/-- every write of the operation targets a buffer the operation allocated itself -/
def Effect.Local (e : Effect) (next : Nat) : Prop :=
  ∀ w ∈ e.writes, next ≤ w.1 ∧ w.1 < next + e.allocs

end Pyn

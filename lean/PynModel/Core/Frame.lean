/-!
# Effect model for C10: buffers with identities, operations that allocate and write
A heap maps buffer identities to contents.  An operation allocates `k` fresh buffers (identities
`next … next+k-1`) and performs a list of writes `(buffer id, new content)`.
-/
namespace Pyn

structure Heap where
  next : Nat
  cell : Nat → Option Int

structure Effect where
  allocs : Nat
  writes : List (Nat × Int)

def Heap.write (h : Heap) (w : Nat × Int) : Heap :=
  { h with cell := fun i => if i = w.1 then some w.2 else h.cell i }

def Heap.apply (h : Heap) (e : Effect) : Heap :=
  e.writes.foldl Heap.write { h with next := h.next + e.allocs }

def Heap.run (h : Heap) (es : List Effect) : Heap := es.foldl Heap.apply h

/-- every write of the operation targets a buffer the operation allocated itself -/
def Effect.Local (e : Effect) (next : Nat) : Prop :=
  ∀ w ∈ e.writes, next ≤ w.1 ∧ w.1 < next + e.allocs

/-! ## frozen buffers (`flags.writeable = False`)
The start/end array of an IntervalSet and the array of a time index are frozen by their constructors (`fix:` b120f81, c3ecfb8).  A write to a frozen
buffer raises before anything is stored; an operation (ANY user code holding the exported array, a view of it, or the container) is a sequence of
attempted writes that stops at the first refusal. -/
structure FHeap where
  heap : Heap
  frozen : Nat → Bool

def FHeap.write (h : FHeap) (w : Nat × Int) : Option FHeap :=
  if h.frozen w.1 then none else some { h with heap := h.heap.write w }

/-- the state after an operation attempting the writes in order (an exception leaves the writes made so far) -/
def FHeap.attempt (h : FHeap) : List (Nat × Int) → FHeap
  | [] => h
  | w :: ws => match h.write w with
    | some h' => h'.attempt ws
    | none => h

def FHeap.run (h : FHeap) (ops : List (List (Nat × Int))) : FHeap := ops.foldl FHeap.attempt h

end Pyn

import PynModel.Kernels.FixIset
import PynModel.Kernels.SetOps
/-!
# `IntervalSet.__init__` and the IntervalSet-returning operations
The constructor formats to ns (done by the caller of the model: the abstraction α), sorts starts
and ends **independently** (`np.sort` each — the code sorts only when not strictly increasing,
sorting a sorted array is the identity) and runs `_jitfix_iset`.
-/
namespace Pyn

/-- insertion sort (structural recursion, so that `decide +kernel` can evaluate witnesses);
`np.sort` is specified only as "a sorted permutation", which is all the proofs use -/
def insertS (x : Int) : List Int → List Int
  | [] => [x]
  | y :: ys => if x ≤ y then x :: y :: ys else y :: insertS x ys

def isort : List Int → List Int
  | [] => []
  | x :: xs => insertS x (isort xs)

theorem length_insertS (x : Int) (l : List Int) : (insertS x l).length = l.length + 1 := by
  induction l with
  | nil => rfl
  | cons y ys ih => simp only [insertS]; split <;> simp [ih]

theorem length_isort (l : List Int) : (isort l).length = l.length := by
  induction l with
  | nil => rfl
  | cons x xs ih => simp [isort, length_insertS, ih]

def sortArr (a : Array Int) : Array Int := (isort a.toList).toArray

theorem sortArr_size (a : Array Int) : (sortArr a).size = a.size := by simp [sortArr, length_isort]

/-- the constructor on ns endpoints -/
def ISet.mk (st en : Array Int) (h : st.size = en.size) : Array (Int × Int) :=
  jitfixIset (sortArr st) (sortArr en) (by rw [sortArr_size, sortArr_size, h])

def pairsSt (p : Array (Int × Int)) : Array Int := p.map (·.1)
def pairsEn (p : Array (Int × Int)) : Array Int := p.map (·.2)
theorem pairs_size (p : Array (Int × Int)) : (pairsSt p).size = (pairsEn p).size := by simp [pairsSt, pairsEn]

/-- `IntervalSet.union` = constructor ∘ `jitunion` (and likewise below) -/
def ISet.union (a b : Array (Int × Int)) : Array (Int × Int) :=
  let r := jitunion (pairsSt a) (pairsEn a) (pairsSt b) (pairsEn b) (pairs_size a) (pairs_size b)
  if h : r.st.size = r.en.size then ISet.mk r.st r.en h else #[]

def ISet.intersect (a b : Array (Int × Int)) : Array (Int × Int) :=
  let r := jitintersect (pairsSt a) (pairsEn a) (pairsSt b) (pairsEn b) (pairs_size a) (pairs_size b)
  if h : r.st.size = r.en.size then ISet.mk r.st r.en h else #[]

def ISet.diff (a b : Array (Int × Int)) : Array (Int × Int) :=
  let r := jitdiff (pairsSt a) (pairsEn a) (pairsSt b) (pairsEn b) (pairs_size a) (pairs_size b)
  if h : r.st.size = r.en.size then ISet.mk r.st r.en h else #[]

end Pyn

import PynModel.Core.Search
/-!
# `Tsd.interpolate(ts, ep)`: per epoch, `np.interp` of the query times on that epoch's samples
`np.interp(x, xp, fp)` (default `left = fp[0]`, `right = fp[-1]`) is a specification function over exact rationals:
for non-decreasing `xp` it is the piecewise-linear interpolant through `(xp[j], fp[j])`, constant outside.  Times are
integers (ns), values rationals.  A cell of the result is `some v` or `none` (NaN: the epoch holds no source sample).
-/
namespace Pyn

/-- `np.interp(x, xp, fp)` -/
def npInterp (xp : Array Int) (fp : Array Rat) (x : Int) : Option Rat :=
  if h : 0 < xp.size ∧ xp.size = fp.size then
    if x ≤ xp[0]'h.1 then some (fp[0]'(by omega))
    else if x ≥ xp[xp.size - 1]'(by omega) then some (fp[fp.size - 1]'(by omega))
    else
      -- last position with xp[j] ≤ x; here 0 ≤ j and j + 1 < size
      let j := ssRight xp x 0 - 1
      if hj : j + 1 < xp.size then
        let x0 := xp[j]'(by omega)
        let x1 := xp[j+1]
        let y0 := fp[j]'(by omega)
        let y1 := fp[j+1]'(by omega)
        some (y0 + ((x - x0 : Int) : Rat) * (y1 - y0) / ((x1 - x0 : Int) : Rat))
      else none
  else none

/-- positions `[a, b)` of the samples of `t` lying in the closed interval `[s, e]` (`x.get(s, e)`) -/
def window (t : Array Int) (s e : Int) : Nat × Nat := (ssLeft t s 0, ssRight t e 0)

/-- `self.interpolate(ts, ep)`: for each epoch in order, every query time of the epoch gets `np.interp` on the source
samples of THAT epoch (`none` = NaN when the epoch has no source sample) -/
def interpolate (tq tt : Array Int) (dd : Array Rat) (st en : Array Int) : List (Int × Option Rat) :=
  (List.range st.size).flatMap fun k =>
    let wq := window tq st[k]! en[k]!
    let ws := window tt st[k]! en[k]!
    let xp := tt.extract ws.1 ws.2
    let fp := dd.extract ws.1 ws.2
    ((tq.extract wq.1 wq.2).toList.map fun x => (x, if xp.size = 0 then none else npInterp xp fp x))

end Pyn

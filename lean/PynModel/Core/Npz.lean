import PynModel.Core.Group
/-!
# save / load through an npz file, per class
The file is modelled as the record of arrays the writer stores; `load` is the reader: rebuild the
IntervalSet from `start`/`end` **through the constructor**, then the object **through its
constructor** with that support (which restricts again), then per class what the reader does.
Key *names* are not modelled here: they are regenerated from the source (`PynGen/NpzKeys.lean`) and
checked by `decide` in `PynProps/C11.lean`.
-/
namespace Pyn

structure NpzSeries where
  t : Array Int
  d : Array Nat           -- data rows (opaque ids); for `Ts` the reader passes no data
  start : Array Int
  stop : Array Int

def saveSeries (s : Series) : NpzSeries := ⟨s.t, s.rows, pairsSt s.sup, pairsEn s.sup⟩

def loadSeries (f : NpzSeries) : Series :=
  if h : f.start.size = f.stop.size then Series.new f.t f.d (some (ISet.mk f.start f.stop h))
  else ⟨#[], #[], #[]⟩

/-- TsGroup file: pooled timestamps sorted by time with the owning key (`t`, `index`), the key list
(`keys`, which keeps members that have no sample), support -/
structure NpzGroup where
  tk : List (Int × Int)     -- (t, index) after `idx = np.argsort(times)`
  keys : List Int
  start : Array Int
  stop : Array Int

def saveGroup (g : Group) : NpzGroup := ⟨g.toTsd, g.keys, pairsSt g.sup, pairsEn g.sup⟩

def loadGroup (f : NpzGroup) : Except GErr Group :=
  if h : f.start.size = f.stop.size then
    let sup := ISet.mk f.start f.stop h
    Group.new (f.keys.map fun k =>
        ⟨k, Series.new (memberOf k f.tk).toArray (Array.range (memberOf k f.tk).length) (some sup)⟩)
      (some sup) true
  else .error .support

end Pyn

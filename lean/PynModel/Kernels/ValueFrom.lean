import PynModel.Basic
/-!
# `jitvaluefrom` (after the `fix:` commit eba7cfb: `nan_cond` initialised before the inner scan)
`mode`: 0 before, 1 closest, 2 after.  The result is, per query sample, `some i` (index into the
restricted target array) or `none` (NaN).
-/
namespace Pyn

/-- `np.sum(c[0:k])` -/
def psum (c : Array Nat) (k : Nat) : Nat := (c.toList.take k).sum

def vfNew (mode : Nat) (d : Int) : Int := if mode = 1 then (d.natAbs : Int) else d

def vfBreak (mode : Nat) (new interval : Int) : Bool :=
  if mode = 1 then new > interval
  else if mode = 0 then (new > 0 && interval ≤ 0) || interval ≥ 0
  else (new < 0 && interval ≥ 0) || interval ≥ 0

def vfNan (mode : Nat) (new interval : Int) : Bool :=
  if mode = 1 then false else if mode = 0 then interval > 0 else new < 0

/-- inner scan `while i < maxi` (lines 143-169): returns (i, idx[t], nan_cond) -/
def vfInner (tt : Array Int) (x : Int) (mode : Nat) (maxi : Nat) (hmax : maxi ≤ tt.size)
    (i : Nat) (interval : Int) (cur : Option Nat) (nanc : Bool) : Nat × Option Nat × Bool :=
  if h : i < maxi then
    let new := vfNew mode (tt[i] - x)
    if vfBreak mode new interval then
      (i, if vfNan mode new interval then none else cur, vfNan mode new interval)
    else vfInner tt x mode maxi hmax (i+1) new (some i) (vfNan mode new interval)
  else (i, cur, nanc)
termination_by maxi - i

theorem vfInner_bounds (tt : Array Int) (x : Int) (mode maxi : Nat) (hmax) (i : Nat) (interval : Int)
    (cur : Option Nat) (nanc : Bool) (hi : i ≤ maxi) :
    i ≤ (vfInner tt x mode maxi hmax i interval cur nanc).1 ∧
    (vfInner tt x mode maxi hmax i interval cur nanc).1 ≤ maxi := by
  fun_induction vfInner tt x mode maxi hmax i interval cur nanc <;> simp_all <;> omega

/-- loop over the query samples of one epoch (`while t < maxt`) -/
def vfT (ts tt : Array Int) (mode maxt maxi : Nat) (hmt : maxt ≤ ts.size) (hmi : maxi ≤ tt.size)
    (t i : Nat) (hi : i < maxi) (idx : Array (Option Nat)) : Array (Option Nat) :=
  if ht : t < maxt then
    let x := ts[t]
    let interval := vfNew mode (tt[i] - x)
    let nan0 : Bool := if mode = 0 then interval > 0 else false
    let r := vfInner tt x mode maxi hmi (i+1) interval (some i) nan0
    have hb : i + 1 ≤ r.1 ∧ r.1 ≤ maxi :=
      vfInner_bounds tt x mode maxi hmi (i+1) interval (some i) nan0 (by omega)
    let cur :=
      if r.1 = maxi then
        let nc : Bool := if mode = 2 then tt[r.1 - 1]'(by omega) - x < 0 else r.2.2
        if nc then none else r.2.1
      else r.2.1
    vfT ts tt mode maxt maxi hmt hmi (t+1) (r.1 - 1) (by omega) (idx.setIfInBounds t cur)
  else idx
termination_by maxt - t

/-- loop over the epochs -/
def vfK (ts tt : Array Int) (count ctarget : Array Nat) (mode m : Nat) (k : Nat)
    (idx : Array (Option Nat)) : R (Array (Option Nat)) :=
  if hk : k < m then do
    let ck ← rdN count k
    let dk ← rdN ctarget k
    if ck > 0 ∧ dk > 0 then
      let t := psum count k
      let i := psum ctarget k
      if hb : t + ck ≤ ts.size ∧ i + dk ≤ tt.size then
        if hi : i < i + dk then
          vfK ts tt count ctarget mode m (k+1) (vfT ts tt mode (t+ck) (i+dk) hb.1 hb.2 t i hi idx)
        else .error .oob
      else .error .oob
    else vfK ts tt count ctarget mode m (k+1) idx
  else .ok idx
termination_by m - k

/-- `m` = number of epochs (`starts.shape[0]`) -/
def jitvaluefrom (ts tt : Array Int) (count ctarget : Array Nat) (m mode : Nat) : R (Array (Option Nat)) :=
  let idx : Array (Option Nat) := Array.replicate ts.size none
  if ts.size > 0 ∧ tt.size > 0 then vfK ts tt count ctarget mode m 0 idx else .ok idx

end Pyn

import PynModel.Kernels.Process
/-!
# `_jitperievent_trigger_average` (event-trigger average), index level, exact arithmetic

Arguments as the caller `compute_event_trigger_average` passes them (the kernel's parameter names are
swapped with respect to their meaning; the names here say what the arrays hold):

* `ta`  — left edges of the count bins (`time_array` of the kernel), non-decreasing, `T = ta.size`;
* `ca`  — spike count of ONE unit in each bin (`count_array[:, n]`; the kernel treats every column alike);
* `tt`, `dd` — timestamps and values of the 1-D feature (`time_target_array`, `data_target_array`);
* `st`, `en` — the epochs; `w0`, `w1` — number of bins before / after (`windows`); `bs` — bin size.

Every array read of the Python text is an `a[i]'h` read here, whose in-bounds proof is checked when the
definition is elaborated, except the two facts that come from `jitrestrict_with_count` (one counter per
epoch, counters sum to the number of selected samples): those are tested at run time (`.error .oob`) and
`PynProps/C15.lean: eta_safe` proves the error branch unreachable.  The model follows the source after
`fix:` f283349: the scan position `i` is re-assigned only where `i_start` has been computed.

Numbers: values are integers, means and the final normalisation are exact rationals.
-/
namespace Pyn

/-- `while i_stop < maxi: if tt[i_stop] < rbound: i_stop += 1 else: break` -/
def etaStop (tt : Array Int) (rb : Int) (maxi : Nat) (hm : maxi ≤ tt.size) (j : Nat) (hj : j ≤ maxi) :
    { r : Nat // j ≤ r ∧ r ≤ maxi } :=
  if h : j < maxi then
    if tt[j] < rb then
      let r := etaStop tt rb maxi hm (j+1) h
      ⟨r.1, by have := r.2.1; omega, r.2.2⟩
    else ⟨j, Nat.le_refl _, hj⟩
  else ⟨j, Nat.le_refl _, hj⟩
termination_by maxi - j

theorem etaStop_gt (tt : Array Int) (rb : Int) (maxi : Nat) (hm : maxi ≤ tt.size) (j : Nat) (hj : j ≤ maxi)
    (h : j < maxi) (hlt : tt[j] < rb) : j < (etaStop tt rb maxi hm j hj).1 := by
  unfold etaStop
  rw [dif_pos h, if_pos hlt]
  have := (etaStop tt rb maxi hm (j+1) h).2.1
  show j < (etaStop tt rb maxi hm (j+1) h).1
  omega

/-- `while i_start < i_stop - 1: if tt[i_start] < lbound: i_start += 1 else: break` -/
def etaStart (tt : Array Int) (lb : Int) (stop : Nat) (hs : stop ≤ tt.size) (j : Nat) (hj : j < stop) :
    { r : Nat // j ≤ r ∧ r < stop } :=
  if h : j + 1 < stop then
    if tt[j] < lb then
      let r := etaStart tt lb stop hs (j+1) h
      ⟨r.1, by have := r.2.1; omega, r.2.2⟩
    else ⟨j, Nat.le_refl _, hj⟩
  else ⟨j, Nat.le_refl _, hj⟩
termination_by stop - j

/-- `np.sum(data[a:b], 0)` (Python slicing never fails) -/
def sliceSum (dd : Array Int) (a b : Nat) : Int := (dd.extract a b).foldl (· + ·) 0

/-- `hankel_array[-1] = v` (the array has `w0 + w1 + 1 ≥ 1` rows) -/
def hSetLast (h : Array Rat) (v : Rat) : Array Rat := h.pop.push v
/-- `hankel_array[0:-1] = hankel_array[1:]; hankel_array[-1] = 0.0` -/
def hShift (h : Array Rat) : Array Rat := (h.extract 1 h.size).push 0
/-- `new_data_array[:, n] += hankel_array * c` -/
def hAdd (out h : Array Rat) (c : Int) : Array Rat := Array.zipWith (fun o x => o + x * (c : Rat)) out h

/-- one count bin `[lb, lb + bs)`: if a feature sample of the epoch lies before its right edge, the mean
of the samples scanned (`i_start .. i_stop`) goes to the last hankel row and the scan position moves to
`i_start`; otherwise nothing changes -/
def etaBin (tt dd : Array Int) (lb bs : Int) (maxi : Nat) (hm : maxi ≤ tt.size) (i : Nat) (hi : i < maxi)
    (hk : Array Rat) : { r : Nat // r < maxi } × Array Rat :=
  if hlt : tt[i] < lb + bs then
    let stop := etaStop tt (lb + bs) maxi hm i (Nat.le_of_lt hi)
    have hgt : i < stop.1 := etaStop_gt tt (lb + bs) maxi hm i _ hi hlt
    let start := etaStart tt lb stop.1 (Nat.le_trans stop.2.2 hm) i hgt
    let v : Rat := ((sliceSum dd start.1 stop.1 : Int) : Rat) / (((stop.1 - start.1 : Nat) : Int) : Rat)
    (⟨start.1, by have := start.2.2; have := stop.2.2; omega⟩, hSetLast hk v)
  else (⟨i, hi⟩, hk)

/-- the flush at the end of an epoch: `for j in range(w1): out += hankel * ca[t - w1 + j]; shift` -/
def etaTail (ca : Array Int) (base w1 : Nat) (hb : base + w1 ≤ ca.size) (j : Nat) (hk out : Array Rat) :
    Array Rat × Array Rat :=
  if hj : j < w1 then
    etaTail ca base w1 hb (j+1) (hShift hk) (hAdd out hk (ca[base + j]'(by omega)))
  else (hk, out)
termination_by w1 - j

/-- what happens once `t` (already incremented) has left the epoch -/
def etaEnd (ca : Array Int) (w1 tstart t : Nat) (ht : t ≤ ca.size) (hk out : Array Rat) :
    Nat × Array Rat × Array Rat :=
  if hw : t - tstart > w1 then
    let r := etaTail ca (t - w1) w1 (by omega) 0 hk out
    (t, Array.replicate hk.size 0, r.2)
  else (t, Array.replicate hk.size 0, out)

/-- `while t < T:` for one epoch (end `ek`, feature samples `[.., maxi)`); returns `(t, hankel, out)` -/
def etaWhile (ta ca tt dd : Array Int) (hca : ca.size = ta.size) (bs : Int) (w1 : Nat) (ek : Int)
    (tstart maxi : Nat) (hm : maxi ≤ tt.size) (t : Nat) (hts : tstart ≤ t) (i : Nat) (hi : i < maxi)
    (hk out : Array Rat) : Nat × Array Rat × Array Rat :=
  if ht : t < ta.size then
    let b := etaBin tt dd ta[t] bs maxi hm i hi hk
    let out1 := if hw : t - tstart ≥ w1 then hAdd out b.2 (ca[t - w1]'(by omega)) else out
    let hk2 := hShift b.2
    if hend : t + 1 < ta.size then
      if ta[t+1] > ek then etaEnd ca w1 tstart (t+1) (by omega) hk2 out1
      else etaWhile ta ca tt dd hca bs w1 ek tstart maxi hm (t+1) (by omega) b.1.1 b.1.2 hk2 out1
    else etaEnd ca w1 tstart (t+1) (by omega) hk2 out1
  else (t, hk, out)
termination_by ta.size - t

/-- `for k in range(N_epochs): if count[k] > 0: …` -/
def etaK (ta ca tt dd en : Array Int) (hca : ca.size = ta.size) (bs : Int) (w1 : Nat) (c : Array Nat)
    (k t : Nat) (hk out : Array Rat) : R (Array Rat) :=
  if hkk : k < en.size then do
    let cnt ← rdN c k
    if hpos : cnt > 0 then
      let i := psum c k
      if hb : i + cnt ≤ tt.size then
        let r := etaWhile ta ca tt dd hca bs w1 en[k] t (i + cnt) hb t (Nat.le_refl _) i (by omega) hk out
        etaK ta ca tt dd en hca bs w1 c (k+1) r.1 r.2.1 r.2.2
      else .error .oob
    else etaK ta ca tt dd en hca bs w1 c (k+1) t hk out
  else .ok out
termination_by en.size - k

/-- the kernel for one unit: rows `-w0 .. w1` of the event-trigger average -/
def eventTriggerAverage (ta ca tt dd st en : Array Int) (hm : st.size = en.size) (hca : ca.size = ta.size)
    (w0 w1 : Nat) (bs : Int) : R (Array Rat) := do
  let rt := jitrestrictCount tt st en hm
  let tt' := rt.1.map (fun i => tt.getD i 0)
  let dd' := rt.1.map (fun i => dd.getD i 0)
  let W := w0 + w1 + 1
  let out ← etaK ta ca tt' dd' en hca bs w1 rt.2 0 0 (Array.replicate W 0) (Array.replicate W 0)
  let total : Int := ca.foldl (· + ·) 0
  pure (if total > 0 then out.map (· / (total : Rat)) else out)

end Pyn

import PynModel.Kernels.Restrict
/-!
# `jitcount` and `_jitbin_array`
Bin size `bs` is in ns (> 0).  A bin `[l, l + bs)` is reported iff its centre `l + bs/2` does not
exceed the epoch end: on integers `2*l + bs ≤ 2*e`.  The reported timestamp is the centre; the
model returns it **doubled** (`2*l + bs`) so that it stays an integer.
`np.round(l + bs, 9)` is the identity on the ns lattice.
-/
namespace Pyn

/-- `int(np.ceil((e + bs - s) / bs))` when `e - s > bs`, else 1 -/
def nbBins (s e bs : Int) : Nat :=
  if e - s > bs then ((e + bs - s + bs - 1) / bs).toNat else 1

/-- innermost loop `while t < maxt: if time_array[t] < rbound: cnt[b] += 1; t += 1 else break`
(also accumulates the data for `_jitbin_array`) -/
def countIn (ts dat : Array Int) (maxt : Nat) (hm : maxt ≤ ts.size) (rbound : Int)
    (t c : Nat) (sum : Int) : Nat × Nat × Int :=
  if h : t < maxt then
    if ts[t] < rbound then countIn ts dat maxt hm rbound (t+1) (c+1) (sum + dat.getD t 0)
    else (t, c, sum)
  else (t, c, sum)
termination_by maxt - t

/-- `while b < maxb:` — `nb` is the number of bins still allowed by the preallocation -/
def binLoop (ts dat : Array Int) (maxt : Nat) (hm : maxt ≤ ts.size) (e bs : Int)
    (nb : Nat) (lbound : Int) (t : Nat) (out : Array (Int × Nat × Int)) : Array (Int × Nat × Int) :=
  match nb with
  | 0 => out
  | nb + 1 =>
    if 2 * lbound + bs > 2 * e then out
    else
      let r := countIn ts dat maxt hm (lbound + bs) t 0 0
      binLoop ts dat maxt hm e bs nb (lbound + bs) r.1 (out.push (2 * lbound + bs, r.2.1, r.2.2))

/-- epoch loop `while k < m` -/
def countK (ts dat st en : Array Int) (hm : st.size = en.size) (countin : Array Nat) (bs : Int)
    (k t : Nat) (out : Array (Int × Nat × Int)) : R (Array (Int × Nat × Int)) :=
  if hk : k < st.size then do
    let ck ← rdN countin k
    if hmax : t + ck ≤ ts.size then
      let out' := binLoop ts dat (t + ck) hmax (en[k]'(hm ▸ hk)) bs (nbBins st[k] (en[k]'(hm ▸ hk)) bs) st[k] t out
      countK ts dat st en hm countin bs (k+1) (t + ck) out'
    else .error .oob
  else .ok out
termination_by st.size - k

/-- `jitcount` / `jitbin_array`: (doubled centre, count, sum of data) per reported bin.
`dat` is ignored by `jitcount`. -/
def jitbin (ts dat st en : Array Int) (hm : st.size = en.size) (bs : Int) : R (Array (Int × Nat × Int)) :=
  let r := jitrestrictCount ts st en hm
  let ts' := r.1.map (fun i => ts.getD i 0)
  let dat' := r.1.map (fun i => dat.getD i 0)
  countK ts' dat' st en hm r.2 bs 0 0 #[]

end Pyn

import PynModel.Basic
/-!
# `_jitfix_iset` (after the `fix:` commit 3e52e6d: one skip scan for zero-length and inverted
pairs; an interval emptied by the 1 µs trim is dropped).  Time is in ns, so 1 µs = 1000.
-/
namespace Pyn

/-- skip scan: first `i' ≥ i` with `end[i'] > start[i']` -/
def fixSkip (st en : Array Int) (h : st.size = en.size) (i : Nat) : Nat :=
  if hi : i < st.size then
    if en[i]'(h ▸ hi) == st[i] then fixSkip st en h (i+1)
    else if en[i]'(h ▸ hi) < st[i] then fixSkip st en h (i+1)
    else i
  else i
termination_by st.size - i

theorem fixSkip_ge (st en : Array Int) (h) (i : Nat) : i ≤ fixSkip st en h i := by
  fun_induction fixSkip st en h i <;> omega

/-- merge scan `while i < m - 1: if start[i+1] < end[i]: i += 1; newend = max(end[i-1], end[i])` -/
def fixMerge (st en : Array Int) (h : st.size = en.size) (i : Nat) (hi : i < st.size) (newend : Int) :
    Nat × Int :=
  if h1 : i + 1 < st.size then
    if st[i+1] < en[i]'(h ▸ hi) then
      fixMerge st en h (i+1) h1 (max (en[i]'(h ▸ hi)) (en[i+1]'(h ▸ h1)))
    else (i, newend)
  else (i, newend)
termination_by st.size - i

theorem fixMerge_bounds (st en : Array Int) (h) (i : Nat) (hi : i < st.size) (newend : Int) :
    i ≤ (fixMerge st en h i hi newend).1 ∧ (fixMerge st en h i hi newend).1 < st.size := by
  fun_induction fixMerge st en h i hi newend <;> omega

/-- the 1 µs trim: `if i < m - 1: if newend == start[i+1]: newend -= 1e-6` -/
def fixTrim (st : Array Int) (i : Nat) (newend : Int) : Int :=
  if h : i + 1 < st.size then
    if newend == st[i+1] then newend - 1000 else newend
  else newend

def fixLoop (st en : Array Int) (h : st.size = en.size) (i : Nat) (out : Array (Int × Int)) :
    Array (Int × Int) :=
  let i1 := fixSkip st en h i
  if hi : i1 < st.size then
    let r := fixMerge st en h i1 hi (en[i1]'(h ▸ hi))
    let newend := fixTrim st r.1 r.2
    let out' := if newend > st[i1] then out.push (st[i1], newend) else out
    fixLoop st en h (r.1 + 1) out'
  else out
termination_by st.size - i
decreasing_by
  have h1 := fixSkip_ge st en h i
  have h2 := fixMerge_bounds st en h (fixSkip st en h i) hi (en[fixSkip st en h i]'(h ▸ hi))
  omega

def jitfixIset (st en : Array Int) (h : st.size = en.size) : Array (Int × Int) :=
  fixLoop st en h 0 #[]

end Pyn

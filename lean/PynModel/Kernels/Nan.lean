import PynModel.Basic
/-!
# `jitremove_nan`
`index_nan[0]` and `index_nan[-1]` are read unconditionally: the kernel needs `n > 0`.  Its only
caller `_dropna` enters it only when `np.any(index_nan)` and not `np.all(index_nan)`, which
implies `n ≥ 2`.  Output: indices of starts and of ends (the caller indexes `time_array`).
-/
namespace Pyn

def removeNanLoop (nan : Array Bool) (t : Nat) (ht : 1 ≤ t) (s e : Array Nat) : Array Nat × Array Nat :=
  if h : t < nan.size then
    let s' := if nan[t-1] && !nan[t] then s.push t else s
    let e' := if !nan[t-1] && nan[t] then e.push (t-1) else e
    removeNanLoop nan (t+1) (by omega) s' e'
  else (s, e)
termination_by nan.size - t

def jitremoveNan (nan : Array Bool) (hn : 0 < nan.size) : Array Nat × Array Nat :=
  let s0 := if !nan[0] then #[0] else #[]
  let r := removeNanLoop nan 1 (by omega) s0 #[]
  let e := if !nan[nan.size - 1] then r.2.push (nan.size - 1) else r.2
  (r.1, e)

end Pyn

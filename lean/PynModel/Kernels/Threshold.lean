import PynModel.Basic
/-!
# `jitthreshold`
The comparison `data > thr` (etc.) is done by NumPy before the scan; the model takes the Boolean
mask `ix`.  The reads of `ends[k]` are *not* guarded in the Python source: they are checked reads here, and
`PynProps/C15.lean: threshold_safe` proves the error unreachable for a series lying inside a canonical
support (any length, 0 and 1 included, since `fix:` efb22ea); with no epoch at all the kernel returns before the scan.
Midpoints `t[i] - (t[i] - t[i-1]) / 2` are kept exact by returning every boundary **doubled**
(`t[i] + t[i-1]`, and `2 * t[i]` for a sample time).
-/
namespace Pyn

/-- `while t < n and time_array[t] > ends[k]: k += 1` with t = 0 (the read `ends[k]` is unguarded) -/
def thrLead (ts en : Array Int) (k : Nat) : R Nat :=
  if ht : 0 < ts.size then
    if hk : k < en.size then
      if ts[0] > en[k] then thrLead ts en (k+1) else .ok k
    else .error .oob
  else .ok k
termination_by en.size - k

/-- the inner `while time_array[t] > ends[k]: k += 1` of a transition (`ends[k]` unguarded) -/
def thrSkip (en : Array Int) (tt : Int) (k : Nat) : R Nat :=
  if hk : k < en.size then
    if tt > en[k] then thrSkip en tt (k+1) else .ok k
  else .error .oob
termination_by en.size - k

structure ThrSt where
  k : Nat
  ns : Array (Option Int)   -- new_start where ix_start is set (doubled)
  ne : Array (Option Int)   -- new_end where ix_end is set (doubled)

/-- main loop `while t < n` (reads `ends[k]` unguarded) -/
def thrLoop (ts : Array Int) (ix : Array Bool) (en : Array Int) (t : Nat) (s : ThrSt) : R ThrSt :=
  if h : t < ts.size then do
    let tt ← rd ts t
    let tp ← rd ts (t-1)
    let ek ← rd en s.k
    let it ← rdB ix t
    let ip ← rdB ix (t-1)
    if tt > ek then
      let k' ← thrSkip en tt s.k
      let ne := if ip then s.ne.setIfInBounds (t-1) (some (2*tp)) else s.ne
      let ns := if it then s.ns.setIfInBounds t (some (2*tt)) else s.ns
      thrLoop ts ix en (t+1) { k := k', ns := ns, ne := ne }
    else
      let ns := if !ip && it then s.ns.setIfInBounds t (some (tt + tp)) else s.ns
      let ne := if ip && !it then s.ne.setIfInBounds t (some (tt + tp)) else s.ne
      thrLoop ts ix en (t+1) { s with ns := ns, ne := ne }
  else .ok s
termination_by ts.size - t

/-- state before the main loop: `new_start[0] = time_array[0]` when the first sample is kept -/
def thrInit (n : Nat) (i0 : Bool) (t0 : Int) (k : Nat) : ThrSt :=
  let none_ : Array (Option Int) := Array.replicate n none
  { k := k, ns := if i0 then none_.setIfInBounds 0 (some (2*t0)) else none_, ne := none_ }

/-- the scan (everything after the `if ends.shape[0] == 0` guard): (doubled new starts, doubled new ends), as the kernel
stands after `fix:` d92f793 / 6abb03b / efb22ea -/
def jitthresholdScan (ts : Array Int) (ix : Array Bool) (st en : Array Int) :
    R (Array Int × Array Int) := do
  let n := ts.size
  let k ← thrLead ts en 0
  -- `if t < n and ix[t]` with t = 0
  let i0 ← if 0 < n then rdB ix 0 else pure false
  let t0 ← if 0 < n then rd ts 0 else pure 0
  let s ← thrLoop ts ix en 1 (thrInit n i0 t0 k)
  -- `if n > 0 and ix[n - 1]`: the last sample closes the run it belongs to
  let il ← if 0 < n then rdB ix (n-1) else pure false
  let tl ← if 0 < n then rd ts (n-1) else pure 0
  let ne1 := if il then s.ne.setIfInBounds (n-1) (some (2*tl)) else s.ne
  pure (s.ns.filterMap id, ne1.filterMap id)

/-- the kernel: with NO epoch at all (the default support of a one-sample series is empty) nothing is scanned and no
interval is returned (guard added by `fix:` — the scan would read `ends[0]`) -/
def jitthreshold (ts : Array Int) (ix : Array Bool) (st en : Array Int) :
    R (Array Int × Array Int) :=
  if en.size = 0 then pure (#[], #[]) else jitthresholdScan ts ix st en

theorem jitthreshold_eq_scan (ts : Array Int) (ix : Array Bool) (st en : Array Int) (h : 0 < en.size) :
    jitthreshold ts ix st en = jitthresholdScan ts ix st en := by
  unfold jitthreshold; rw [if_neg (by omega)]

end Pyn

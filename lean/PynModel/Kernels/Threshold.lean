import PynModel.Basic
/-!
# `jitthreshold`
The comparison `data > thr` (etc.) is done by NumPy before the scan; the model takes the Boolean
mask `ix`.  Several reads are *not* guarded in the Python source (`time_array[t] < starts[k]`,
and the tail `ix[t]`, `time_array[t]` with `t = 1` when `n ≤ 1`): they are checked reads here.
Midpoints `t[i] - (t[i] - t[i-1]) / 2` are kept exact by returning every boundary **doubled**
(`t[i] + t[i-1]`, and `2 * t[i]` for a sample time).
-/
namespace Pyn

/-- `while time_array[t] < starts[k]: k += 1` with t = 0 (both reads unguarded) -/
def thrLead (ts st : Array Int) (k : Nat) : R Nat :=
  if hk : k < st.size then
    if ht : 0 < ts.size then
      if ts[0] < st[k] then thrLead ts st (k+1) else .ok k
    else .error .oob
  else .error .oob
termination_by st.size - k

structure ThrSt where
  k : Nat
  ns : Array (Option Int)   -- new_start where ix_start is set (doubled)
  ne : Array (Option Int)   -- new_end where ix_end is set (doubled)

/-- main loop `while t < n - 1` (reads `ends[k]` unguarded) -/
def thrLoop (ts : Array Int) (ix : Array Bool) (en : Array Int) (t : Nat) (s : ThrSt) : R ThrSt :=
  if h : t + 1 < ts.size then do
    let tt ← rd ts t
    let tp ← rd ts (t-1)
    let ek ← rd en s.k
    let it ← rdB ix t
    let ip ← rdB ix (t-1)
    if tt > ek then
      let ne := if ip then s.ne.setIfInBounds (t-1) (some (2*tp)) else s.ne
      let ns := if it then s.ns.setIfInBounds t (some (2*tt)) else s.ns
      thrLoop ts ix en (t+1) { k := s.k + 1, ns := ns, ne := ne }
    else
      let ns := if !ip && it then s.ns.setIfInBounds t (some (tt + tp)) else s.ns
      let ne := if ip && !it then s.ne.setIfInBounds t (some (tt + tp)) else s.ne
      thrLoop ts ix en (t+1) { s with ns := ns, ne := ne }
  else .ok s
termination_by ts.size - t

/-- state before the main loop: `new_start[0] = time_array[0]` when the first sample is kept -/
def thrInit (n : Nat) (i0 : Bool) (t0 : Int) (k : Nat) : ThrSt :=
  let none_ : Array (Option Int) := Array.replicate n none
  { k := k, ns := if i0 then none_.setIfInBounds 0 (some (2*t0)) else none_, ne := none_ }

/-- result: (mask of kept samples, doubled new starts, doubled new ends) -/
def jitthreshold (ts : Array Int) (ix : Array Bool) (st en : Array Int) :
    R (Array Int × Array Int) := do
  let n := ts.size
  let k ← thrLead ts st 0
  let i0 ← rdB ix 0
  let t0 ← rd ts 0
  let s ← thrLoop ts ix en 1 (thrInit n i0 t0 k)
  -- after the loop `t = max 1 (n-1)`
  let t := if n ≥ 2 then n - 1 else 1
  let it ← rdB ix t
  let ip ← rdB ix (t-1)
  let tt ← rd ts t
  let tp ← rd ts (t-1)
  let ne1 := if it && ip then s.ne.setIfInBounds t (some (2*tt)) else s.ne
  let (ns2, ne2) :=
    if it && !ip then (s.ns.setIfInBounds t (some (tt + tp)), ne1.setIfInBounds t (some (2*tt)))
    else if ip && !it then (s.ns, ne1.setIfInBounds t (some (tt + tp)))
    else (s.ns, ne1)
  pure (ns2.filterMap id, ne2.filterMap id)

end Pyn

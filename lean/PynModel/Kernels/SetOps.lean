import PynModel.Basic
/-!
# `jitintersect`, `jitunion`, `jitdiff`, `jitunion_isets`
Every read of the Python source sits under `i < m` / `j < n`, except `end2[j-1]` in `jitdiff`
(lines 651, 662, 664): there the model needs `1 ≤ j`, which is supplied by the structure of the
loop (`j` was incremented on both branches just before); Lean checks that argument when it
elaborates `e2[j-1]'_`.
-/
namespace Pyn

/-- inner skip loop shared by the three sweeps:
`while j < n: if end2[j] > start1[i]: break; j += 1` -/
def skipTo (e2 : Array Int) (s : Int) (j : Nat) : Nat :=
  if h : j < e2.size then
    if e2[j] > s then j else skipTo e2 s (j+1)
  else j
termination_by e2.size - j

theorem skipTo_ge (e2 : Array Int) (s : Int) (j : Nat) : j ≤ skipTo e2 s j := by
  fun_induction skipTo e2 s j <;> omega

theorem skipTo_le (e2 : Array Int) (s : Int) (j : Nat) (h : j ≤ e2.size) : skipTo e2 s j ≤ e2.size := by
  fun_induction skipTo e2 s j <;> omega

/-! ## intersect -/

structure IOut where
  st : Array Int := #[]
  en : Array Int := #[]
  par : Array (Nat × Nat) := #[]
deriving Repr

def jitintersectLoop (s1 e1 s2 e2 : Array Int) (h1 : s1.size = e1.size) (h2 : s2.size = e2.size)
    (i j : Nat) (out : IOut) : IOut :=
  if hi : i < s1.size then
    let j' := skipTo e2 s1[i] j
    if hj : j' < e2.size then
      have hj2 : j' < s2.size := h2 ▸ hj
      have hi1 : i < e1.size := h1 ▸ hi
      if s2[j'] < e1[i] then
        let out' : IOut := { st := out.st.push (max s1[i] s2[j']),
                             en := out.en.push (min e1[i] e2[j']),
                             par := out.par.push (i, j') }
        if e2[j'] < e1[i] then jitintersectLoop s1 e1 s2 e2 h1 h2 i (j'+1) out'
        else jitintersectLoop s1 e1 s2 e2 h1 h2 (i+1) j' out'
      else jitintersectLoop s1 e1 s2 e2 h1 h2 (i+1) j' out
    else out
  else out
termination_by (s1.size - i) + (e2.size - j)
decreasing_by
  all_goals simp_wf
  all_goals have := skipTo_ge e2 s1[i] j
  all_goals omega

def jitintersect (s1 e1 s2 e2 : Array Int) (h1 : s1.size = e1.size) (h2 : s2.size = e2.size) : IOut :=
  jitintersectLoop s1 e1 s2 e2 h1 h2 0 0 {}

/-! ## union -/

structure UOut where
  st : Array Int := #[]
  en : Array Int := #[]
deriving Repr

/-- `while j < n: if end2[j] > start1[i]: break; emit set-2 interval j; j += 1` -/
def unionSkip (s2 e2 : Array Int) (h2 : s2.size = e2.size) (s : Int) (j : Nat) (out : UOut) : Nat × UOut :=
  if h : j < e2.size then
    if e2[j] > s then (j, out)
    else unionSkip s2 e2 h2 s (j+1) { st := out.st.push (s2[j]'(h2 ▸ h)), en := out.en.push e2[j] }
  else (j, out)
termination_by e2.size - j

theorem unionSkip_ge (s2 e2 : Array Int) (h2) (s : Int) (j : Nat) (out) :
    j ≤ (unionSkip s2 e2 h2 s j out).1 := by
  fun_induction unionSkip s2 e2 h2 s j out <;> simp_all <;> omega

theorem unionSkip_le (s2 e2 : Array Int) (h2) (s : Int) (j : Nat) (out) (h : j ≤ e2.size) :
    (unionSkip s2 e2 h2 s j out).1 ≤ e2.size := by
  fun_induction unionSkip s2 e2 h2 s j out <;> simp_all <;> omega

/-- the chain-merging loop `while i < m and j < n:` (lines 549-577).  `cur` is `newend[ct]`.
Returns `(i, j, end of the merged interval)`; the caller performs `ct += 1`. -/
def unionChain (s1 e1 s2 e2 : Array Int) (h1 : s1.size = e1.size) (h2 : s2.size = e2.size)
    (i j : Nat) (cur : Int) : Nat × Nat × Int :=
  if hi : i < s1.size then
    if hj : j < s2.size then
      have hi1 : i < e1.size := h1 ▸ hi
      have hj2 : j < e2.size := h2 ▸ hj
      let cur' := max e1[i] e2[j]
      if e1[i] < e2[j] then
        -- `i += 1`
        if hi' : i + 1 < s1.size then
          if e2[j] < s1[i+1] then (i+1, j+1, cur')                    -- set 2 interval comes first
          else if e1[i+1]'(h1 ▸ hi') < s2[j] then (i+2, j, cur')      -- set 1 interval comes first
          else unionChain s1 e1 s2 e2 h1 h2 (i+1) j cur'
        else (i+1, j+1, cur')                                         -- `i == m`
      else
        -- `j += 1`
        if hj' : j + 1 < s2.size then
          if e2[j+1]'(h2 ▸ hj') < s1[i] then (i, j+2, cur')
          else if e1[i] < s2[j+1] then (i+1, j+1, cur')
          else unionChain s1 e1 s2 e2 h1 h2 i (j+1) cur'
        else (i+1, j+1, cur')                                         -- `j == n`
    else (i, j, cur)
  else (i, j, cur)
termination_by (s1.size - i) + (s2.size - j)

theorem unionChain_ge (s1 e1 s2 e2 : Array Int) (h1) (h2) (i j : Nat) (cur : Int) :
    i ≤ (unionChain s1 e1 s2 e2 h1 h2 i j cur).1 ∧ j ≤ (unionChain s1 e1 s2 e2 h1 h2 i j cur).2.1 ∧
    (i < s1.size → j < s2.size →
      i + j < (unionChain s1 e1 s2 e2 h1 h2 i j cur).1 + (unionChain s1 e1 s2 e2 h1 h2 i j cur).2.1) := by
  fun_induction unionChain s1 e1 s2 e2 h1 h2 i j cur <;> simp_all <;> omega

def jitunionLoop (s1 e1 s2 e2 : Array Int) (h1 : s1.size = e1.size) (h2 : s2.size = e2.size)
    (i j : Nat) (out : UOut) : Nat × Nat × UOut :=
  if hi : i < s1.size then
    let r := unionSkip s2 e2 h2 s1[i] j out
    let j' := r.1
    if hj : j' < e2.size then
      have hj2 : j' < s2.size := h2 ▸ hj
      have hi1 : i < e1.size := h1 ▸ hi
      if s2[j'] < e1[i] then
        let c := unionChain s1 e1 s2 e2 h1 h2 i j' 0
        jitunionLoop s1 e1 s2 e2 h1 h2 c.1 c.2.1
          { st := r.2.st.push (min s1[i] s2[j']), en := r.2.en.push c.2.2 }
      else
        jitunionLoop s1 e1 s2 e2 h1 h2 (i+1) j' { st := r.2.st.push s1[i], en := r.2.en.push e1[i] }
    else (i, j', r.2)
  else (i, j, out)
termination_by (s1.size - i) + (s2.size - j)
decreasing_by
  · simp_wf
    have hg := unionSkip_ge s2 e2 h2 s1[i] j out
    have hjj : (unionSkip s2 e2 h2 s1[i] j out).1 < e2.size := hj
    have hc := unionChain_ge s1 e1 s2 e2 h1 h2 i (unionSkip s2 e2 h2 s1[i] j out).1 0
    have h3 := hc.2.2 hi (by omega)
    have h4 := hc.1
    have h5 := hc.2.1
    omega
  · simp_wf
    have hg := unionSkip_ge s2 e2 h2 s1[i] j out
    have hjj : (unionSkip s2 e2 h2 s1[i] j out).1 < e2.size := hj
    omega

/-- `while i < m: emit set-1 interval i` -/
def emitRest (s e : Array Int) (h : s.size = e.size) (i : Nat) (out : UOut) : UOut :=
  if hi : i < s.size then
    emitRest s e h (i+1) { st := out.st.push s[i], en := out.en.push (e[i]'(h ▸ hi)) }
  else out
termination_by s.size - i

def jitunion (s1 e1 s2 e2 : Array Int) (h1 : s1.size = e1.size) (h2 : s2.size = e2.size) : UOut :=
  let r := jitunionLoop s1 e1 s2 e2 h1 h2 0 0 {}
  emitRest s2 e2 h2 r.2.1 (emitRest s1 e1 h1 r.1 r.2.2)

/-! ## diff -/

structure DOut where
  st : Array Int := #[]
  en : Array Int := #[]
  par : Array Nat := #[]
deriving Repr

def DOut.push (o : DOut) (s e : Int) (i : Nat) : DOut :=
  { st := o.st.push s, en := o.en.push e, par := o.par.push i }

/-- lines 647-659: `while j < n: if start2[j] < end1[i]: emit (end2[j-1], start2[j]); j += 1 else break`.
`1 ≤ j` is a parameter: the read `end2[j-1]` needs it. -/
def diffGaps (s2 e2 : Array Int) (h2 : s2.size = e2.size) (e1i : Int) (i : Nat)
    (j : Nat) (hj1 : 1 ≤ j) (out : DOut) : { r : Nat × DOut // 1 ≤ r.1 ∧ j ≤ r.1 ∧ (j ≤ s2.size → r.1 ≤ s2.size) } :=
  if h : j < s2.size then
    if s2[j] < e1i then
      let r := diffGaps s2 e2 h2 e1i i (j+1) (by omega)
                 (out.push (e2[j-1]'(by omega)) s2[j] i)
      ⟨r.1, by have := r.2; omega⟩
    else ⟨(j, out), by omega⟩
  else ⟨(j, out), by omega⟩
termination_by s2.size - j

def jitdiffLoop (s1 e1 s2 e2 : Array Int) (h1 : s1.size = e1.size) (h2 : s2.size = e2.size)
    (i j : Nat) (out : DOut) : Nat × DOut :=
  if hi : i < s1.size then
    let j' := skipTo e2 s1[i] j
    if hj : j' < e2.size then
      have hj2 : j' < s2.size := h2 ▸ hj
      have hi1 : i < e1.size := h1 ▸ hi
      if s2[j'] < e1[i] then
        if s2[j'] < s1[i] ∧ e1[i] < e2[j'] then
          jitdiffLoop s1 e1 s2 e2 h1 h2 (i+1) j' out
        else
          -- both branches do `j += 1`; the first also emits and does `ct += 1`, the second
          -- writes `newstart[ct]`/`newend[ct]` without `ct += 1` (overwritten or re-written below)
          let out1 := if s2[j'] > s1[i] then out.push s1[i] s2[j'] i else out
          let g := diffGaps s2 e2 h2 e1[i] i (j'+1) (by omega) out1
          let jg := g.1.1
          have hjg : 1 ≤ jg ∧ jg ≤ s2.size := ⟨g.2.1, g.2.2.2 (by omega)⟩
          if e2[jg-1]'(by omega) < e1[i] then
            jitdiffLoop s1 e1 s2 e2 h1 h2 (i+1) jg (g.1.2.push (e2[jg-1]'(by omega)) e1[i] i)
          else
            jitdiffLoop s1 e1 s2 e2 h1 h2 (i+1) (jg-1) g.1.2
      else
        jitdiffLoop s1 e1 s2 e2 h1 h2 (i+1) j' (out.push s1[i] e1[i] i)
    else (i, out)
  else (i, out)
termination_by s1.size - i

/-- `while i < m: emit set-1 interval i with meta i` -/
def emitRestD (s e : Array Int) (h : s.size = e.size) (i : Nat) (out : DOut) : DOut :=
  if hi : i < s.size then emitRestD s e h (i+1) (out.push s[i] (e[i]'(h ▸ hi)) i) else out
termination_by s.size - i

def jitdiff (s1 e1 s2 e2 : Array Int) (h1 : s1.size = e1.size) (h2 : s2.size = e2.size) : DOut :=
  let r := jitdiffLoop s1 e1 s2 e2 h1 h2 0 0 {}
  emitRestD s1 e1 h1 r.1 r.2

/-! ## n-ary union (`jitunion_isets`); `starts`/`ends` already argsorted by `starts`.
After `fix:` 5c9a07f the kernel returns the empty result for `n == 0`, which is what guards the
reads `starts[0]`, `ends[0]`. -/

def unionIsetsLoop (st en : Array Int) (h : st.size = en.size) (i : Nat) (curS e : Int) (out : UOut) : UOut :=
  if hi : i < st.size then
    if st[i] > e then
      unionIsetsLoop st en h (i+1) st[i] (en[i]'(h ▸ hi)) { st := out.st.push curS, en := out.en.push e }
    else
      unionIsetsLoop st en h (i+1) curS (max e (en[i]'(h ▸ hi))) out
  else { st := out.st.push curS, en := out.en.push e }
termination_by st.size - i

def jitunionIsets (st en : Array Int) (h : st.size = en.size) : UOut :=
  if hn : 0 < st.size then unionIsetsLoop st en h 1 st[0] (en[0]'(h ▸ hn)) {} else {}

end Pyn

import PynModel.Basic
/-!
# `jitrestrict`, `jitrestrict_with_count`, `jitin_interval`
(`pynapple/core/_jitted_functions.py`).  One Lean function per Python loop.
-/
namespace Pyn

/-- `while k < m and t < n and ends[k] < time_array[t]: k += 1`   (t = 0 there) -/
def lead (ts en : Array Int) (k : Nat) : Nat :=
  if hk : k < en.size then
    if ht : 0 < ts.size then
      if en[k] < ts[0] then lead ts en (k+1) else k
    else k
  else k
termination_by en.size - k

/-- outside loop: `while t < n: if ts[t] >= starts[k]: break; t += 1` -/
def outside (ts : Array Int) (s : Int) (t : Nat) : Nat :=
  if h : t < ts.size then
    if ts[t] ≥ s then t else outside ts s (t+1)
  else t
termination_by ts.size - t

/-- inside loop of `jitrestrict`: returns (t', whether `k += 1; break` fired, ix) -/
def inside (ts : Array Int) (e : Int) (t : Nat) (acc : Array Nat) : Nat × Bool × Array Nat :=
  if h : t < ts.size then
    if ts[t] > e then (t, true, acc) else inside ts e (t+1) (acc.push t)
  else (t, false, acc)
termination_by ts.size - t

/-- main loop `while k < m` of `jitrestrict` -/
def outer (ts st en : Array Int) (hm : st.size = en.size) (k t : Nat) (acc : Array Nat) : Array Nat :=
  if hk : k < st.size then
    let t1 := outside ts st[k] t
    let r := inside ts (en[k]'(hm ▸ hk)) t1 acc
    if r.2.1 then
      outer ts st en hm (k+1) r.1 r.2.2     -- `k += 1; break`, then `k == m` / `t == n` tests
    else
      r.2.2                                 -- inner loop ran to `t == n`
  else acc
termination_by st.size - k

def jitrestrict (ts st en : Array Int) (hm : st.size = en.size) : Array Nat :=
  outer ts st en hm (lead ts en 0) 0 #[]

/-! ## with count -/

/-- inside loop of `jitrestrict_with_count`: also `count[k] += 1` -/
def insideC (ts : Array Int) (e : Int) (k : Nat) (t : Nat) (acc : Array Nat) (cnt : Array Nat) :
    Nat × Bool × Array Nat × Array Nat :=
  if h : t < ts.size then
    if ts[t] > e then (t, true, acc, cnt)
    else insideC ts e k (t+1) (acc.push t) (cnt.modify k (· + 1))
  else (t, false, acc, cnt)
termination_by ts.size - t

def outerC (ts st en : Array Int) (hm : st.size = en.size) (k t : Nat) (acc : Array Nat)
    (cnt : Array Nat) : Array Nat × Array Nat :=
  if hk : k < st.size then
    let t1 := outside ts st[k] t
    let r := insideC ts (en[k]'(hm ▸ hk)) k t1 acc cnt
    if r.2.1 then outerC ts st en hm (k+1) r.1 r.2.2.1 r.2.2.2
    else (r.2.2.1, r.2.2.2)
  else (acc, cnt)
termination_by st.size - k

def jitrestrictCount (ts st en : Array Int) (hm : st.size = en.size) : Array Nat × Array Nat :=
  outerC ts st en hm (lead ts en 0) 0 #[] (Array.replicate st.size 0)

/-! ## in_interval -/

/-- inside loop of `jitin_interval`: `data[t] = k` -/
def insideI (ts : Array Int) (e : Int) (k : Nat) (t : Nat) (data : Array (Option Nat)) :
    Nat × Bool × Array (Option Nat) :=
  if h : t < ts.size then
    if ts[t] > e then (t, true, data)
    else insideI ts e k (t+1) (data.setIfInBounds t (some k))
  else (t, false, data)
termination_by ts.size - t

def outerI (ts st en : Array Int) (hm : st.size = en.size) (k t : Nat)
    (data : Array (Option Nat)) : Array (Option Nat) :=
  if hk : k < st.size then
    let t1 := outside ts st[k] t
    let r := insideI ts (en[k]'(hm ▸ hk)) k t1 data
    if r.2.1 then outerI ts st en hm (k+1) r.1 r.2.2 else r.2.2
  else data
termination_by st.size - k

/-- `none` stands for NaN -/
def jitinInterval (ts st en : Array Int) (hm : st.size = en.size) : Array (Option Nat) :=
  outerI ts st en hm (lead ts en 0) 0 (Array.replicate ts.size none)

end Pyn

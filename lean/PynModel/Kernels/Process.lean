import PynModel.Kernels.Restrict
import PynModel.Kernels.ValueFrom
/-!
# process kernels: `_cross_correlogram`, `_jitcontinuous_perievent`, `_overlap_split`
-/
namespace Pyn

/-! ## `_cross_correlogram`
All times are compared **doubled** because the half window `w = (nbins / 2) * binsize` is a
half-integer multiple of the bin size.  `nbins` is computed by the caller-side formula. -/

def ccNbins (binsize windowsize : Int) : Nat :=
  let nb := ((windowsize * 2) / binsize).toNat
  if nb % 2 = 0 then nb + 1 else nb

/-- `while i2 < nt2 and t2[i2] < lbound: i2 += 1` -/
def ccFwd (t2 : Array Int) (lb2 : Int) (i2 : Nat) (h : i2 ≤ t2.size) : { r : Nat // r ≤ t2.size } :=
  if hi : i2 < t2.size then
    if 2 * t2[i2] < lb2 then ccFwd t2 lb2 (i2+1) hi else ⟨i2, h⟩
  else ⟨i2, h⟩
termination_by t2.size - i2

/-- `while i2 > 0 and t2[i2 - 1] > lbound: i2 -= 1` -/
def ccBack (t2 : Array Int) (lb2 : Int) (i2 : Nat) (h : i2 ≤ t2.size) : { r : Nat // r ≤ t2.size } :=
  match i2, h with
  | 0, h => ⟨0, h⟩
  | i+1, h => if 2 * t2[i] > lb2 then ccBack t2 lb2 i (by omega) else ⟨i+1, h⟩

/-- `while leftb < nt2 and t2[leftb] < rbound: leftb += 1; k += 1` -/
def ccCount (t2 : Array Int) (rb2 : Int) (leftb k : Nat) : Nat × Nat :=
  if h : leftb < t2.size then
    if 2 * t2[leftb] < rb2 then ccCount t2 rb2 (leftb+1) (k+1) else (leftb, k)
  else (leftb, k)
termination_by t2.size - leftb

/-- `for j in range(nbins)` -/
def ccBins (t2 : Array Int) (bs2 : Int) (nb : Nat) (j : Nat) (rb2 : Int) (leftb : Nat) (C : Array Nat) : Array Nat :=
  match nb with
  | 0 => C
  | nb+1 =>
    let r := ccCount t2 (rb2 + bs2) leftb 0
    ccBins t2 bs2 nb (j+1) (rb2 + bs2) r.1 (C.modify j (· + r.2))

/-- `for i1 in range(nt1)` -/
def ccOuter (t1 t2 : Array Int) (bs : Int) (nbins : Nat) (i1 : Nat) (i2 : Nat) (h : i2 ≤ t2.size)
    (C : Array Nat) : Array Nat :=
  if hi : i1 < t1.size then
    let lb2 := 2 * t1[i1] - nbins * bs
    let a := ccFwd t2 lb2 i2 h
    let b := ccBack t2 lb2 a.1 a.2
    ccOuter t1 t2 bs nbins (i1+1) b.1 b.2 (ccBins t2 (2*bs) nbins 0 lb2 b.1 C)
  else C
termination_by t1.size - i1

/-- raw counts per bin (the Python divides by `nt1 * binsize`) -/
def crossCorrelogram (t1 t2 : Array Int) (binsize windowsize : Int) : Array Nat :=
  let nbins := ccNbins binsize windowsize
  ccOuter t1 t2 binsize nbins 0 0 (Nat.zero_le _) (Array.replicate nbins 0)

/-! ## `_jitcontinuous_perievent` -/

/-- `while t < maxt: new = |ts[t] - x|; if new > interval: break else interval = new; t_pos = t; t += 1` -/
def pcInner (ts : Array Int) (x : Int) (maxt : Nat) (hm : maxt ≤ ts.size) (t : Nat) (interval : Int)
    (tpos : Nat) : Nat × Nat :=
  if h : t < maxt then
    let new : Int := ((ts[t] - x).natAbs : Int)
    if new > interval then (t, tpos) else pcInner ts x maxt hm (t+1) new t
  else (t, tpos)
termination_by maxt - t

theorem pcInner_bounds (ts : Array Int) (x : Int) (maxt : Nat) (hm) (t : Nat) (interval : Int) (tpos : Nat)
    (ht : t ≤ maxt) (hp : tpos < t) :
    t ≤ (pcInner ts x maxt hm t interval tpos).1 ∧ (pcInner ts x maxt hm t interval tpos).1 ≤ maxt ∧
    (pcInner ts x maxt hm t interval tpos).2 < (pcInner ts x maxt hm t interval tpos).1 := by
  fun_induction pcInner ts x maxt hm t interval tpos <;> simp_all <;> omega

/-- `while i < maxi` : one entry `(lo, hi, start_w)` per target event -/
def pcI (ts tt : Array Int) (w0 w1 : Nat) (startT maxt maxi : Nat) (hmt : maxt ≤ ts.size)
    (hmi : maxi ≤ tt.size) (t i : Nat) (ht : t < maxt) (out : Array (Nat × Nat × Nat)) :
    Array (Nat × Nat × Nat) :=
  if hi : i < maxi then
    let x := tt[i]
    let interval : Int := ((ts[t] - x).natAbs : Int)
    let r := pcInner ts x maxt hmt (t+1) interval t
    have hb : t + 1 ≤ r.1 ∧ r.1 ≤ maxt ∧ r.2 < r.1 :=
      pcInner_bounds ts x maxt hmt (t+1) interval t (by omega) (by omega)
    let tpos := r.2
    let left := min w0 (tpos - startT)
    let right := min w1 (maxt - tpos - 1)
    pcI ts tt w0 w1 startT maxt maxi hmt hmi (r.1 - 1) (i+1) (by omega)
      (out.push (tpos - left, tpos + right + 1, w0 - left))
  else out
termination_by maxi - i

def pcK (ts tt : Array Int) (c0 c1 : Array Nat) (w0 w1 : Nat) (m k : Nat)
    (out : Array (Nat × Nat × Nat)) : R (Array (Nat × Nat × Nat)) :=
  if hk : k < m then do
    let a ← rdN c0 k
    let b ← rdN c1 k
    if a > 0 ∧ b > 0 then
      let t := psum c0 k
      let i := psum c1 k
      if hb : t + a ≤ ts.size ∧ i + b ≤ tt.size then
        if ht : t < t + a then
          pcK ts tt c0 c1 w0 w1 m (k+1) (pcI ts tt w0 w1 t (t+a) (i+b) hb.1 hb.2 t i ht out)
        else .error .oob
      else .error .oob
    else
      -- targets of an epoch without samples keep the zero rows of `slice_idx` / `start_w`
      pcK ts tt c0 c1 w0 w1 m (k+1) (out ++ Array.replicate b (0, 0, 0))
  else .ok out
termination_by m - k

/-- result: (restricted sample indices, per restricted target `(lo, hi, start_w)`) -/
def continuousPerievent (ts tt st en : Array Int) (hm : st.size = en.size) (w0 w1 : Nat) :
    R (Array Nat × Array (Nat × Nat × Nat)) := do
  let rt := jitrestrictCount tt st en hm
  let rs := jitrestrictCount ts st en hm
  let tt' := rt.1.map (fun i => tt.getD i 0)
  let ts' := rs.1.map (fun i => ts.getD i 0)
  let out ← pcK ts' tt' rs.2 rt.2 w0 w1 st.size 0 #[]
  pure (rs.1, out)

/-! ## `_overlap_split` (times in ns; `step = (1 - overlap) * interval_size` must be > 0) -/

def ovInner (e L step : Int) (hs : 0 < step) (t : Int) (out : Array (Int × Int)) : Array (Int × Int) :=
  if t + L < e then ovInner e L step hs (t + step) (out.push (t, t + L)) else out
termination_by (e - L - t).toNat
decreasing_by omega

def overlapSplit (st en : Array Int) (hm : st.size = en.size) (L step : Int) (hs : 0 < step)
    (k : Nat) (out : Array (Int × Int)) : Array (Int × Int) :=
  if hk : k < st.size then
    overlapSplit st en hm L step hs (k+1) (ovInner (en[k]'(hm ▸ hk)) L step hs st[k] out)
  else out
termination_by st.size - k

end Pyn

import PynModel.Core.Search
/-!
# `_convolve` (per-epoch convolution with trimming) and the windowed-sinc spectral inversion, over ℤ
`scipy.signal.convolve(x, k)` is the full convolution `(x * k)[n] = Σ_{i+j=n} x[i]·k[j]`, here
`convFull`, written as that sum.  Trim modes:
0 = both, 1 = left, 2 = right, with the code's cut indices.
After `fix:` 0e85625 an epoch holding no sample is skipped.
-/
namespace Pyn

/-- `Σ_{i < n} f i` -/
def sumTo : Nat → (Nat → Int) → Int
  | 0, _ => 0
  | n + 1, f => sumTo n f + f n

/-- `(x * k)[n] = Σ_i x[i]·k[n-i]` -/
def convAt (x k : List Int) (n : Nat) : Int :=
  sumTo x.length fun i => if i ≤ n then x.getD i 0 * k.getD (n - i) 0 else 0

/-- full convolution (`scipy.signal.convolve(x, k)`, `np.convolve(x, k)`): length `|x| + |k| - 1` -/
def convFull (x k : List Int) : List Int :=
  (List.range (x.length + k.length - 1)).map (convAt x k)

/-- `cut` of `_convolve` for a slice of `t` samples and a kernel of length `k` -/
def trimCut (mode k t : Nat) : Nat × Nat :=
  if mode == 1 then (k - 1, t + k - 1)
  else if mode == 2 then (0, t)
  else ((k - 1) / 2, t + k - 1 - ((k - 1) / 2) - (1 - k % 2))

def convTrim (mode : Nat) (x k : List Int) : List Int :=
  let c := trimCut mode k.length x.length
  ((convFull x k).drop c.1).take (c.2 - c.1)

/-- `out[i0:i1] = seg` -/
def setRange (out : List Int) (i0 : Nat) (seg : List Int) : List Int :=
  out.take i0 ++ seg ++ out.drop (i0 + seg.length)

/-- the loop over epochs: `idx_s = searchsorted(t, s)`, `idx_e = searchsorted(t, e, 'right')`,
`out[idx_s:idx_e] = convolve(x[idx_s:idx_e], k)[cut]` -/
def convEpochs (mode : Nat) (ts : Array Int) (x k : List Int) : List (Int × Int) → List Int → List Int
  | [], out => out
  | (s, e) :: rest, out =>
    let i0 := ssLeft ts s
    let i1 := ssRight ts e
    if i1 ≤ i0 then convEpochs mode ts x k rest out
    else convEpochs mode ts x k rest (setRange out i0 (convTrim mode ((x.drop i0).take (i1 - i0)) k))

def convolve (mode : Nat) (ts : Array Int) (x k : List Int) (sup : List (Int × Int)) : List Int :=
  convEpochs mode ts x k sup (List.replicate x.length 0)

/-- `_compute_spectral_inversion`: negate, add 1 at `len // 2` (`one` = the integer standing for 1.0
when the kernel is scaled to integers) -/
def spectralInv (one : Int) (k : List Int) : List Int :=
  (k.map (-·)).set (k.length / 2) (one - k.getD (k.length / 2) 0)

end Pyn

import PynModel.Core.Search
/-!
# Counting part of the tuning curves: `np.histogram(values, bins)`
NumPy's rule: bins are half-open `[e_b, e_{b+1})` except the last, which is closed; values outside
`[e_0, e_last]` are not counted.  Values and edges are integers (lattice units).
-/
namespace Pyn

/-- the bin a value falls in -/
def histIdx (edges : Array Int) (v : Int) : Option Nat :=
  if edges.size < 2 then none
  else if v < edges[0]! ∨ edges[edges.size - 1]! < v then none
  else if v = edges[edges.size - 1]! then some (edges.size - 2)
  else some (ssRight edges v - 1)

/-- `np.histogram(vals, edges)[0]` -/
def histCounts (edges : Array Int) (vals : List Int) : List Nat :=
  (List.range (edges.size - 1)).map fun b => (vals.filter fun v => histIdx edges v == some b).length

/-- number of values inside `[e_0, e_last]` -/
def inRangeCount (edges : Array Int) (vals : List Int) : Nat :=
  (vals.filter fun v => (histIdx edges v).isSome).length

end Pyn

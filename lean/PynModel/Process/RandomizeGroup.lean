import PynModel.Process.Randomize
import PynModel.Core.Group
/-!
# The surrogate generators on a `TsGroup`
`_shift_tsgroup`, `_resample_tsgroup`, `_jitter_tsgroup`, `_shuffle_intervals_tsgroup` all have one shape: compute the
new timestamps of every member (one draw per member, in key order), build `nap.Ts(t=new)` for each — no support —
and hand the dictionary to `nap.TsGroup(…)`, with `time_support=tsgroup.time_support` when the support is kept
(shift, resample, jitter with `keep_tsupport=True`) and without it otherwise (jitter, shuffle): then the group
support is the union of the members' own supports.
-/
namespace Pyn

/-- `nap.TsGroup({k: nap.Ts(t=t_k)}, time_support=sup)` -/
def regroup (ms : List (Int × Array Int)) (sup : Option (Array (Int × Int))) : Except GErr Group :=
  Group.new (ms.map fun m => ⟨m.1, Series.new m.2 (Array.range m.2.size) none⟩) sup false

/-- `shift_timestamps(group)` on the support `[a, b]`, one shift per member -/
def shiftGroup (ms : List (Int × Array Int)) (a b : Int) (shifts : List Int) : Except GErr Group :=
  regroup (List.zipWith (fun m s => (m.1, shiftTs m.2 a b s)) ms shifts) (some #[(a, b)])

/-- `jitter_timestamps(group, keep_tsupport)`, one array of jitters per member; `sup = some` iff the support is kept -/
def jitterGroup (ms : List (Int × Array Int)) (draws : List (Array Int)) (sup : Option (Array (Int × Int))) :
    Except GErr Group :=
  regroup (List.zipWith (fun m j => (m.1, jitterTs m.2 j)) ms draws) sup

/-- `shuffle_ts_intervals(group)`, one permutation per member -/
def shuffleGroup (ms : List (Int × Array Int)) (perms : List (List Nat)) : Except GErr Group :=
  regroup (List.zipWith (fun m p => (m.1, (shuffleTs m.2.toList p).toArray)) ms perms) none

end Pyn

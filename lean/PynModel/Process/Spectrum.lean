import PynModel.Kernels.Process
/-!
# Bookkeeping of `compute_fft` / `compute_power_spectral_density` (the DFT itself is NumPy's)
Frequencies are `k · fs / n` for integer bin numbers `k`; everything below is about the `k`s.
-/
namespace Pyn

/-- `np.fft.fftfreq(n, 1/fs) · n / fs`: bin number of FFT output position `j` -/
def fftfreqIdx (n : Nat) : List Int :=
  (List.range ((n + 1) / 2)).map (fun (i : Nat) => (i : Int)) ++
  (List.range (n / 2)).map (fun (i : Nat) => (i : Int) - ((n / 2 : Nat) : Int))

/-- `ret.sort_index()`: bins in increasing frequency, each with its position in the FFT output -/
def sortedBins (n : Nat) : List (Int × Nat) :=
  (List.range (n / 2)).map (fun (i : Nat) => ((i : Int) - ((n / 2 : Nat) : Int), (n + 1) / 2 + i)) ++
  (List.range ((n + 1) / 2)).map (fun (i : Nat) => ((i : Int), i))

/-- the `n`-point signal the FFT sees: cropped or zero-padded -/
def nPoint (x : List Int) (n : Nat) : List Int := (x ++ List.replicate (n - x.length) 0).take n

/-- one-sided output keeps `index >= 0` -/
def keptOneSided (k : Int) : Bool := decide (0 ≤ k)

/-- `doubled_freqs = (index != 0) & (index < fs/2 - 1e-6)` with `index = k·fs/n`: `k ≠ 0 ∧ 2k < n` -/
def doubledBin (n : Nat) (k : Int) : Bool := k != 0 && decide (2 * k < (n : Int))

end Pyn

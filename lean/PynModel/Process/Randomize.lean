import PynModel.Core.ISet
/-!
# `randomize.py` — each generator as a deterministic function of the numbers drawn
(the harness records / supplies the draws of `np.random.uniform`, `np.random.permutation`).
Single-interval support `[a, b]`, times in ns.
-/
namespace Pyn

/-- `_shift_ts` after `fix:` bd65428: `(t - start + shift) % (end - start) + start`, then `np.sort` -/
def shiftOne (a b s t : Int) : Int := (t - a + s) % (b - a) + a

def shiftTs (ts : Array Int) (a b s : Int) : Array Int := sortArr (ts.map (shiftOne a b s))

/-- `_jitter_ts`: add the drawn jitters, sort -/
def jitterTs (ts js : Array Int) : Array Int := sortArr ((ts.zip js).map fun (t, j) => t + j)

/-- `_shuffle_intervals_ts`: `hstack([t0, t0 + cumsum(shuffled_intervals)])` -/
def cums (t0 : Int) : List Int → List Int
  | [] => [t0]
  | d :: ds => t0 :: cums (t0 + d) ds

def diffs : List Int → List Int
  | [] => []
  | [_] => []
  | x :: y :: rest => (y - x) :: diffs (y :: rest)

/-- apply the permutation `p` (as `np.random.permutation(intervals)` returns `intervals[p]`) -/
def permute (l : List Int) (p : List Nat) : List Int := p.map fun i => l.getD i 0

def shuffleTs (ts : List Int) (p : List Nat) : List Int :=
  match ts with
  | [] => []
  | t0 :: _ => cums t0 (permute (diffs ts) p)

end Pyn

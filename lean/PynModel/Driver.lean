import PynModel.Basic
import PynModel.Kernels.Restrict
import PynModel.Kernels.SetOps
import PynModel.Kernels.FixIset
import PynModel.Kernels.Nan
import PynModel.Kernels.Threshold
import PynModel.Kernels.ValueFrom
import PynModel.Kernels.Count
import PynModel.Kernels.Process
import PynModel.Core.ISet
import PynModel.Core.Slice
import PynModel.Process.Randomize
/-!
# Line protocol driver: one operation per input line, one canonical output line.
Arrays are comma-separated integers, `-` is the empty array.  Anything the driver cannot
parse, or whose modelled precondition (equal lengths, …) fails, answers `bad-op` / `pre-fail`;
it never substitutes a default.
-/
namespace Pyn

def parseArr (s : String) : Option (Array Int) :=
  if s == "-" then some #[] else
  (s.splitOn ",").foldl (fun acc x => match acc, x.toInt? with
    | some a, some v => some (a.push v)
    | _, _ => none) (some #[])

def parseNatArr (s : String) : Option (Array Nat) :=
  (parseArr s).bind fun a => if a.all (· ≥ 0) then some (a.map Int.toNat) else none

def parseBoolArr (s : String) : Option (Array Bool) :=
  (parseArr s).map fun a => a.map (· != 0)

def showArr {α} [ToString α] (a : Array α) : String :=
  if a.size == 0 then "-" else ",".intercalate (a.toList.map toString)

def showOpt (a : Array (Option Nat)) : String :=
  if a.size == 0 then "-" else ",".intercalate (a.toList.map fun | none => "n" | some v => toString v)

def showErr : Err → String
  | .oob => "ERR oob" | .unbound => "ERR unbound" | .assertion => "ERR assert"

def showPairs (a : Array (Int × Int)) : String :=
  if a.size == 0 then "-" else ",".intercalate (a.toList.map fun (x, y) => s!"{x}:{y}")

def kernelStep (toks : List String) : String :=
  match toks with
  | ["restrict", ts, st, en] =>
    match parseArr ts, parseArr st, parseArr en with
    | some ts, some st, some en =>
      if h : st.size = en.size then showArr (jitrestrict ts st en h) else "pre-fail"
    | _, _, _ => "bad-op"
  | ["restrictc", ts, st, en] =>
    match parseArr ts, parseArr st, parseArr en with
    | some ts, some st, some en =>
      if h : st.size = en.size then
        let r := jitrestrictCount ts st en h
        showArr r.1 ++ "|" ++ showArr r.2
      else "pre-fail"
    | _, _, _ => "bad-op"
  | ["inint", ts, st, en] =>
    match parseArr ts, parseArr st, parseArr en with
    | some ts, some st, some en =>
      if h : st.size = en.size then showOpt (jitinInterval ts st en h) else "pre-fail"
    | _, _, _ => "bad-op"
  | ["valuefrom", ts, tt, c, ct, m, mode] =>
    match parseArr ts, parseArr tt, parseNatArr c, parseNatArr ct, m.toNat?, mode.toNat? with
    | some ts, some tt, some c, some ct, some m, some mode =>
      match jitvaluefrom ts tt c ct m mode with
      | .ok r => showOpt r
      | .error e => showErr e
    | _, _, _, _, _, _ => "bad-op"
  | ["bin", ts, dat, st, en, bs] =>
    match parseArr ts, parseArr dat, parseArr st, parseArr en, bs.toInt? with
    | some ts, some dat, some st, some en, some bs =>
      if h : st.size = en.size then
        if bs > 0 then
          match jitbin ts dat st en h bs with
          | .ok r => if r.size == 0 then "-" else
              ",".intercalate (r.toList.map fun (c, n, s) => s!"{c}:{n}:{s}")
          | .error e => showErr e
        else "pre-fail"
      else "pre-fail"
    | _, _, _, _, _ => "bad-op"
  | ["removenan", mask] =>
    match parseBoolArr mask with
    | some mask =>
      if h : 0 < mask.size then
        let r := jitremoveNan mask h
        showArr r.1 ++ "|" ++ showArr r.2
      else "pre-fail"
    | none => "bad-op"
  | ["threshold", ts, mask, st, en] =>
    match parseArr ts, parseBoolArr mask, parseArr st, parseArr en with
    | some ts, some mask, some st, some en =>
      match jitthreshold ts mask st en with
      | .ok r => showArr r.1 ++ "|" ++ showArr r.2
      | .error e => showErr e
    | _, _, _, _ => "bad-op"
  | ["intersect", s1, e1, s2, e2] =>
    match parseArr s1, parseArr e1, parseArr s2, parseArr e2 with
    | some s1, some e1, some s2, some e2 =>
      if h : s1.size = e1.size ∧ s2.size = e2.size then
        let r := jitintersect s1 e1 s2 e2 h.1 h.2
        showArr r.st ++ "|" ++ showArr r.en ++ "|" ++
          (if r.par.size == 0 then "-" else ",".intercalate (r.par.toList.map fun (a, b) => s!"{a}:{b}"))
      else "pre-fail"
    | _, _, _, _ => "bad-op"
  | ["union", s1, e1, s2, e2] =>
    match parseArr s1, parseArr e1, parseArr s2, parseArr e2 with
    | some s1, some e1, some s2, some e2 =>
      if h : s1.size = e1.size ∧ s2.size = e2.size then
        let r := jitunion s1 e1 s2 e2 h.1 h.2
        showArr r.st ++ "|" ++ showArr r.en
      else "pre-fail"
    | _, _, _, _ => "bad-op"
  | ["diff", s1, e1, s2, e2] =>
    match parseArr s1, parseArr e1, parseArr s2, parseArr e2 with
    | some s1, some e1, some s2, some e2 =>
      if h : s1.size = e1.size ∧ s2.size = e2.size then
        let r := jitdiff s1 e1 s2 e2 h.1 h.2
        showArr r.st ++ "|" ++ showArr r.en ++ "|" ++ showArr r.par
      else "pre-fail"
    | _, _, _, _ => "bad-op"
  | ["unionisets", st, en] =>
    match parseArr st, parseArr en with
    | some st, some en =>
      if h : st.size = en.size then
        let r := jitunionIsets st en h
        showArr r.st ++ "|" ++ showArr r.en
      else "pre-fail"
    | _, _ => "bad-op"
  | ["fixiset", st, en] =>
    match parseArr st, parseArr en with
    | some st, some en =>
      if h : st.size = en.size then showPairs (jitfixIset st en h) else "pre-fail"
    | _, _ => "bad-op"
  | ["xcorr", t1, t2, bs, ws] =>
    match parseArr t1, parseArr t2, bs.toInt?, ws.toInt? with
    | some t1, some t2, some bs, some ws =>
      if bs > 0 ∧ ws ≥ 0 then showArr (crossCorrelogram t1 t2 bs ws) else "pre-fail"
    | _, _, _, _ => "bad-op"
  | ["pericont", ts, tt, st, en, w0, w1] =>
    match parseArr ts, parseArr tt, parseArr st, parseArr en, w0.toNat?, w1.toNat? with
    | some ts, some tt, some st, some en, some w0, some w1 =>
      if h : st.size = en.size then
        match continuousPerievent ts tt st en h w0 w1 with
        | .ok r => showArr r.1 ++ "|" ++
            (if r.2.size == 0 then "-" else ",".intercalate (r.2.toList.map fun (a, b, c) => s!"{a}:{b}:{c}"))
        | .error e => showErr e
      else "pre-fail"
    | _, _, _, _, _, _ => "bad-op"
  | ["ovsplit", st, en, L, step] =>
    match parseArr st, parseArr en, L.toInt?, step.toInt? with
    | some st, some en, some L, some step =>
      if h : st.size = en.size ∧ 0 < step then showPairs (overlapSplit st en h.1 L step h.2 0 #[])
      else "pre-fail"
    | _, _, _, _ => "bad-op"
  | ["getslice", t, mode, start, end_] =>
    match parseArr t, mode.toNat?, start.toInt?, (if end_ == "-" then some none else end_.toInt?.map some) with
    | some t, some mode, some start, some e =>
      match getSlice t mode start e with
      | .ok (a, b) => s!"{a}:{b}"
      | .error .index => "ERR index"
      | .error .value => "ERR value"
    | _, _, _, _ => "bad-op"
  | ["shift", ts, a, b, sh] =>
    match parseArr ts, a.toInt?, b.toInt?, sh.toInt? with
    | some ts, some a, some b, some sh => if a < b then showArr (shiftTs ts a b sh) else "pre-fail"
    | _, _, _, _ => "bad-op"
  | ["jitter", ts, js] =>
    match parseArr ts, parseArr js with
    | some ts, some js => if ts.size = js.size then showArr (jitterTs ts js) else "pre-fail"
    | _, _ => "bad-op"
  | ["shuffle", ts, p] =>
    match parseArr ts, parseNatArr p with
    | some ts, some p => showArr (shuffleTs ts.toList p.toList).toArray
    | _, _ => "bad-op"
  | ["mkiset", st, en] =>
    match parseArr st, parseArr en with
    | some st, some en =>
      if h : st.size = en.size then showPairs (ISet.mk st en h) else "ERR assert"
    | _, _ => "bad-op"
  | [op, s1, e1, s2, e2] =>
    match parseArr s1, parseArr e1, parseArr s2, parseArr e2 with
    | some s1, some e1, some s2, some e2 =>
      if s1.size = e1.size ∧ s2.size = e2.size then
        let a := s1.zip e1
        let b := s2.zip e2
        if op == "iunion" then showPairs (ISet.union a b)
        else if op == "iintersect" then showPairs (ISet.intersect a b)
        else if op == "idiff" then showPairs (ISet.diff a b)
        else "bad-op"
      else "pre-fail"
    | _, _, _, _ => "bad-op"
  | _ => "bad-op"

def step (line : String) : String :=
  kernelStep ((line.trimAscii.toString.splitOn " ").filter (· ≠ ""))

end Pyn

import PynProps.C01
import PynProps.C02
import PynProps.C03
import PynProps.C05
import PynProps.C06
import PynProps.C07
import PynProps.C15
import PynProps.C16

import PynProps.C03

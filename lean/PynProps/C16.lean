import PynProps.C05
import PynProofs.Search
import PynModel.Kernels.Process
/-!
# C16 — correlograms and peri-event alignment report true lags to the reference events
Models: `Pyn.crossCorrelogram` (`_cross_correlogram`, doubled integer times so that the half-bin
offset of the window stays exact), `Pyn.ssLeft` (the two `np.searchsorted` calls of `_align_tsd`),
`Pyn.continuousPerievent`.

Proved: the peri-event window (`compute_perievent`), and that **the correlogram is the histogram of
lags** (`xcorr_histogram`: for sorted trains of any lengths the raw count of bin `p` is the number of
(reference, target) pairs whose lag lies in the half-open bin `[(p − N/2)·b, (p + 1 − N/2)·b)`, via the
sliding lower index `ccFwd_spec` / `ccBack_id`, the bin scan `ccCount_counts`, `ccBins_counts`,
`ccOuter_counts`).  Normalisations and the nearest-sample search of the continuous peri-event are
decided by oracle + correspondence (safety of that kernel: C15 `pericont_safe`).
-/
namespace Pyn.C16
open Pyn

/-- **compute_perievent window.** `_align_tsd` slices `tsd.index[lb:rb]` with
`lb = searchsorted(t, r - w0)`, `rb = searchsorted(t, r + w1)` (both side="left").  For sorted
timestamps, sample `k` is in the slice iff `r - w0 ≤ t[k] < r + w1`: the samples strictly inside
the window plus those on its left edge; its lag is `t[k] - r`. -/
theorem perievent_window (t : Array Int) (hs : Sorted t) (r w0 w1 : Int) (k : Nat) (hk : k < t.size) :
    (ssLeft t (r - w0) 0 ≤ k ∧ k < ssLeft t (r + w1) 0) ↔ (-w0 ≤ t[k] - r ∧ t[k] - r < w1) := by
  rw [ssLeft_window t (r - w0) (r + w1) hs k hk]
  constructor <;> (rintro ⟨a, b⟩; constructor <;> omega)

/-- **innermost scan of the correlogram**: from `leftb`, `ccCount` consumes the maximal run of
target spikes below the (doubled) right bin edge and counts them. -/
theorem ccCount_spec (t2 : Array Int) (rb : Int) (l k : Nat) :
    l ≤ (ccCount t2 rb l k).1 ∧ (ccCount t2 rb l k).2 = k + ((ccCount t2 rb l k).1 - l) ∧
    (∀ i, l ≤ i → i < (ccCount t2 rb l k).1 → (hi : i < t2.size) → 2 * t2[i] < rb) ∧
    ((h : (ccCount t2 rb l k).1 < t2.size) → 2 * t2[(ccCount t2 rb l k).1] ≥ rb) := by
  fun_induction ccCount t2 rb l k with
  | case1 l k h hlt ih =>
    obtain ⟨h1, h2, h3, h4⟩ := ih
    refine ⟨by omega, by omega, ?_, h4⟩
    intro i hi1 hi2 hi
    by_cases hil : i = l
    · subst hil; exact hlt
    · exact h3 i (by omega) hi2 hi
  | case2 l k h hge => exact ⟨Nat.le_refl _, by simp, fun i h1 h2 => by omega, fun _ => by dsimp only; omega⟩
  | case3 l k h => exact ⟨Nat.le_refl _, by simp, fun i h1 h2 => by omega, fun h' => by dsimp only at h'; omega⟩

/-- number of bins is odd (so that one bin is centred on lag 0) -/
theorem nbins_odd (b w : Int) : ccNbins b w % 2 = 1 := by
  unfold ccNbins; simp only; split <;> omega

/-! ## the correlogram is the histogram of lags -/

/-- number of target spikes whose doubled time lies in `[a, b)` -/
def cnt2 (t2 : Array Int) (a b : Int) : Nat :=
  ((List.range t2.size).filter fun i => decide (a ≤ 2 * t2[i]!) && decide (2 * t2[i]! < b)).length

theorem ccFwd_spec (t2 : Array Int) (lb : Int) (i2 : Nat) (h : i2 ≤ t2.size)
    (hlow : ∀ i, i < i2 → (hi : i < t2.size) → 2 * t2[i] < lb) :
    i2 ≤ (ccFwd t2 lb i2 h).1 ∧ (∀ i, i < (ccFwd t2 lb i2 h).1 → (hi : i < t2.size) → 2 * t2[i] < lb) ∧
    ((hr : (ccFwd t2 lb i2 h).1 < t2.size) → lb ≤ 2 * t2[(ccFwd t2 lb i2 h).1]) := by
  induction hn : t2.size - i2 generalizing i2 with
  | zero =>
    unfold ccFwd
    have : ¬ i2 < t2.size := by omega
    simp only [dif_neg this]
    exact ⟨Nat.le_refl _, hlow, fun hr => by omega⟩
  | succ n ih =>
    unfold ccFwd
    have hi : i2 < t2.size := by omega
    simp only [dif_pos hi]
    split
    · rename_i hlt
      obtain ⟨a, b, c⟩ := ih (i2+1) hi (fun i h1 h2 => by
        by_cases e : i = i2
        · subst e; exact hlt
        · exact hlow i (by omega) h2) (by omega)
      exact ⟨by omega, b, c⟩
    · rename_i hge
      exact ⟨Nat.le_refl _, hlow, fun _ => by show lb ≤ 2 * t2[i2]; omega⟩

theorem ccBack_id (t2 : Array Int) (lb : Int) (r : Nat) (h : r ≤ t2.size)
    (hlow : ∀ i, i < r → (hi : i < t2.size) → 2 * t2[i] < lb) : (ccBack t2 lb r h).1 = r := by
  cases r with
  | zero => simp [ccBack]
  | succ i =>
    unfold ccBack
    have := hlow i (by omega) (by omega)
    have hn : ¬ 2 * t2[i] > lb := by omega
    simp [hn]

theorem ccCount_le (t2 : Array Int) (b : Int) (l k : Nat) (hl : l ≤ t2.size) : (ccCount t2 b l k).1 ≤ t2.size := by
  induction hn : t2.size - l generalizing l k with
  | zero =>
    unfold ccCount
    have : ¬ l < t2.size := by omega
    simp only [dif_neg this]; exact hl
  | succ n ih =>
    unfold ccCount
    have hi : l < t2.size := by omega
    simp only [dif_pos hi]
    split
    · exact ih (l+1) (k+1) hi (by omega)
    · exact hl

/-- count of the scan from a partition point -/
theorem ccCount_counts (t2 : Array Int) (hs : Sorted t2) (a b : Int) (l : Nat) (hl : l ≤ t2.size)
    (hlow : ∀ i, i < l → (hi : i < t2.size) → 2 * t2[i] < a)
    (hhigh : ∀ i, l ≤ i → (hi : i < t2.size) → a ≤ 2 * t2[i]) :
    (ccCount t2 b l 0).2 = cnt2 t2 a b ∧ l ≤ (ccCount t2 b l 0).1 ∧ (ccCount t2 b l 0).1 ≤ t2.size ∧
    (∀ i, i < (ccCount t2 b l 0).1 → (hi : i < t2.size) → l ≤ i → 2 * t2[i] < b) ∧
    (∀ i, (ccCount t2 b l 0).1 ≤ i → (hi : i < t2.size) → b ≤ 2 * t2[i]) := by
  obtain ⟨h1, h2, h3, h4⟩ := ccCount_spec t2 b l 0
  have hle : (ccCount t2 b l 0).1 ≤ t2.size := ccCount_le t2 b l 0 hl
  generalize (ccCount t2 b l 0) = r at h1 h2 h3 h4 hle
  have hge : ∀ i, r.1 ≤ i → (hi : i < t2.size) → b ≤ 2 * t2[i] := by
    intro i hi1 hi
    have hr : r.1 < t2.size := by omega
    have := h4 hr
    have := hs r.1 i hr hi hi1
    omega
  refine ⟨?_, h1, hle, fun i hi1 hi hli => h3 i hli hi1 hi, hge⟩
  rw [h2]
  unfold cnt2
  have e : ((List.range t2.size).filter fun i => decide (a ≤ 2 * t2[i]!) && decide (2 * t2[i]! < b)) =
      ((List.range t2.size).filter fun i => decide (l ≤ i) && decide (i < r.1)) := by
    apply List.filter_congr
    intro i hi
    simp only [List.mem_range] at hi
    rw [getElem!_pos t2 i hi]
    by_cases hli : l ≤ i
    · have := hhigh i hli hi
      by_cases hir : i < r.1
      · have := h3 i hli hir hi
        simp [hli, hir, *]
      · have := hge i (by omega) hi
        have hn : ¬ 2 * t2[i] < b := by omega
        simp [hli, hir, hn]
    · have := hlow i (by omega) hi
      have hn : ¬ a ≤ 2 * t2[i] := by omega
      simp [hli, hn]
  rw [e, C05.filter_range_interval t2.size l r.1 h1 hle]
  omega

theorem ccBins_counts (t2 : Array Int) (hs : Sorted t2) (bs2 : Int) (hbs : 0 < bs2) (nb j : Nat) (rb2 : Int) (leftb : Nat)
    (C : Array Nat) (hl : leftb ≤ t2.size) (hj : j + nb ≤ C.size)
    (hlow : ∀ i, i < leftb → (hi : i < t2.size) → 2 * t2[i] < rb2)
    (hhigh : ∀ i, leftb ≤ i → (hi : i < t2.size) → rb2 ≤ 2 * t2[i]) :
    (ccBins t2 bs2 nb j rb2 leftb C).size = C.size ∧
    ∀ p, (hp : p < C.size) → (hp' : p < (ccBins t2 bs2 nb j rb2 leftb C).size) →
      (ccBins t2 bs2 nb j rb2 leftb C)[p] = C[p] +
        (if j ≤ p ∧ p < j + nb then cnt2 t2 (rb2 + ((p - j : Nat) : Int) * bs2) (rb2 + (((p - j : Nat) : Int) + 1) * bs2) else 0) := by
  induction nb generalizing j rb2 leftb C with
  | zero =>
    simp only [ccBins]
    refine ⟨trivial, fun p hp hp' => ?_⟩
    have : ¬ (j ≤ p ∧ p < j + 0) := by omega
    rw [if_neg this]; rfl
  | succ nb ih =>
    simp only [ccBins]
    obtain ⟨c1, c2, c3, c4, c5⟩ := ccCount_counts t2 hs rb2 (rb2 + bs2) leftb hl hlow hhigh
    have hsz : (C.modify j (· + (ccCount t2 (rb2 + bs2) leftb 0).2)).size = C.size := by simp
    obtain ⟨i1, i2⟩ := ih (j+1) (rb2 + bs2) (ccCount t2 (rb2 + bs2) leftb 0).1
      (C.modify j (· + (ccCount t2 (rb2 + bs2) leftb 0).2)) c3 (by rw [hsz]; omega)
      (fun i hi1 hi => by
        by_cases hli : leftb ≤ i
        · exact c4 i hi1 hi hli
        · have := hlow i (by omega) hi; omega)
      c5
    refine ⟨by rw [i1, hsz], ?_⟩
    intro p hp hp'
    rw [i2 p (by rw [hsz]; exact hp) hp', Array.getElem_modify]
    by_cases hpj : p = j
    · subst hpj
      have h1 : ¬ (p + 1 ≤ p ∧ p < p + 1 + nb) := by omega
      have h2 : (p ≤ p ∧ p < p + (nb + 1)) := by omega
      simp only [h1, h2, if_false, if_true, Nat.sub_self, c1]
      simp
    · have hne : ¬ j = p := fun e => hpj e.symm
      simp only [hne, if_false]
      by_cases hin : j + 1 ≤ p ∧ p < j + 1 + nb
      · have h2 : j ≤ p ∧ p < j + (nb + 1) := by omega
        simp only [hin, h2, and_self, if_true]
        have e1 : ((p - (j + 1) : Nat) : Int) = ((p - j : Nat) : Int) - 1 := by omega
        rw [e1]
        have e2 : rb2 + bs2 + (((p - j : Nat) : Int) - 1) * bs2 = rb2 + ((p - j : Nat) : Int) * bs2 := by
          rw [Int.sub_mul]; omega
        have e3 : rb2 + bs2 + (((p - j : Nat) : Int) - 1 + 1) * bs2 = rb2 + (((p - j : Nat) : Int) + 1) * bs2 := by
          rw [Int.sub_add_cancel, Int.add_mul]; omega
        rw [e2, e3]
      · have h2 : ¬ (j ≤ p ∧ p < j + (nb + 1)) := by omega
        simp only [hin, h2, if_false]

/-- `Σ_{a = i}^{n-1} f a` -/
def sumFrom (f : Nat → Nat) (i n : Nat) : Nat :=
  if i < n then f i + sumFrom f (i+1) n else 0
termination_by n - i

theorem ccOuter_counts (t1 t2 : Array Int) (hs1 : Sorted t1) (hs2 : Sorted t2) (bs : Int) (hbs : 0 < bs) (nbins : Nat)
    (i1 i2 : Nat) (h : i2 ≤ t2.size) (C : Array Nat) (hC : C.size = nbins)
    (hlow : (hi1 : i1 < t1.size) → ∀ i, i < i2 → (hi : i < t2.size) → 2 * t2[i] < 2 * t1[i1] - nbins * bs) :
    (ccOuter t1 t2 bs nbins i1 i2 h C).size = nbins ∧
    ∀ p, (hp : p < nbins) → (hp' : p < (ccOuter t1 t2 bs nbins i1 i2 h C).size) →
      (ccOuter t1 t2 bs nbins i1 i2 h C)[p] = C[p]'(hC ▸ hp) +
        sumFrom (fun a => cnt2 t2 (2 * t1[a]! - nbins * bs + (p : Int) * (2 * bs))
                                  (2 * t1[a]! - nbins * bs + ((p : Int) + 1) * (2 * bs))) i1 t1.size := by
  induction hn : t1.size - i1 generalizing i1 i2 C with
  | zero =>
    unfold ccOuter
    have hi : ¬ i1 < t1.size := by omega
    simp only [dif_neg hi]
    refine ⟨hC, fun p hp hp' => ?_⟩
    unfold sumFrom; simp [hi]
  | succ n ih =>
    have hi : i1 < t1.size := by omega
    unfold ccOuter
    simp only [dif_pos hi]
    have hl := hlow hi
    obtain ⟨f1, f2, f3⟩ := ccFwd_spec t2 (2 * t1[i1] - nbins * bs) i2 h hl
    have hb := ccBack_id t2 (2 * t1[i1] - nbins * bs) (ccFwd t2 (2 * t1[i1] - nbins * bs) i2 h).1
      (ccFwd t2 (2 * t1[i1] - nbins * bs) i2 h).2 f2
    have hhigh : ∀ i, (ccFwd t2 (2 * t1[i1] - nbins * bs) i2 h).1 ≤ i → (hi : i < t2.size) → 2 * t1[i1] - nbins * bs ≤ 2 * t2[i] := by
      intro i hi1 hi
      have hr : (ccFwd t2 (2 * t1[i1] - nbins * bs) i2 h).1 < t2.size := by omega
      have := f3 hr
      have := hs2 _ i hr hi hi1
      omega
    obtain ⟨g1, g2⟩ := ccBins_counts t2 hs2 (2 * bs) (by omega) nbins 0 (2 * t1[i1] - nbins * bs)
      (ccBack t2 (2 * t1[i1] - nbins * bs) (ccFwd t2 (2 * t1[i1] - nbins * bs) i2 h).1 (ccFwd t2 (2 * t1[i1] - nbins * bs) i2 h).2).1
      C (ccBack t2 _ _ _).2 (by omega) (by rw [hb]; exact f2) (by rw [hb]; exact hhigh)
    obtain ⟨k1, k2⟩ := ih (i1+1) _ (ccBack t2 _ _ _).2 _ (by rw [g1, hC])
      (fun hi1' i hi2 hi' => by
        rw [hb] at hi2
        have := f2 i hi2 hi'
        have := hs1 i1 (i1+1) hi hi1' (by omega)
        omega) (by omega)
    refine ⟨k1, fun p hp hp' => ?_⟩
    rw [k2 p hp hp', g2 p (by omega) (by rw [g1]; omega)]
    have hin : 0 ≤ p ∧ p < 0 + nbins := by omega
    simp only [hin, and_self, if_true, Nat.sub_zero]
    conv => rhs; unfold sumFrom
    simp only [hi, if_true, getElem!_pos t1 i1 hi]
    omega

/-- **the cross-correlogram is the histogram of lags.**  For non-decreasing reference and target spike
trains of any lengths (coincident spikes, lags exactly on bin edges included) and `N = nbins` (odd) bins
of width `b`: the raw count of bin `p` is the number of pairs (reference a, target c) whose lag
`t2[c] - t1[a]` satisfies `(p - N/2)·b ≤ lag < (p + 1 - N/2)·b` (written doubled to stay in ℤ):
half-open bins, the bin with `p = ⌊N/2⌋` centred on lag 0, every pair inside the window counted
exactly once.  (The code then divides by `len(t1)·b`.) -/
theorem xcorr_histogram (t1 t2 : Array Int) (hs1 : Sorted t1) (hs2 : Sorted t2) (b w : Int) (hb : 0 < b)
    (p : Nat) (hp : p < ccNbins b w) :
    ∃ hp' : p < (crossCorrelogram t1 t2 b w).size,
      (crossCorrelogram t1 t2 b w)[p] =
        sumFrom (fun a => cnt2 t2 (2 * t1[a]! - (ccNbins b w : Int) * b + (p : Int) * (2 * b))
                                  (2 * t1[a]! - (ccNbins b w : Int) * b + ((p : Int) + 1) * (2 * b))) 0 t1.size := by
  unfold crossCorrelogram
  obtain ⟨k1, k2⟩ := ccOuter_counts t1 t2 hs1 hs2 b hb (ccNbins b w) 0 0 (Nat.zero_le _)
    (Array.replicate (ccNbins b w) 0) (by simp) (fun _ i hi => by omega)
  refine ⟨by rw [k1]; exact hp, ?_⟩
  rw [k2 p hp (by rw [k1]; exact hp)]
  simp


/-! concrete correlograms: reference [0,10], target [1,2,11], bin 1, window 3 → 7 bins centred on
-3..3; lag 1 twice (1-0, 11-10), lag 2 once; a lag exactly on a bin edge (0.5 with bin 1, here in
doubled units) falls in the upper bin -/
example : crossCorrelogram #[0, 10] #[1, 2, 11] 1 3 = #[0, 0, 0, 0, 2, 1, 0] := by decide +kernel
example : crossCorrelogram #[0] #[1] 2 2 = #[0, 0, 1] := by decide +kernel   -- lag 1 = edge between bin 0 and bin +2

end Pyn.C16

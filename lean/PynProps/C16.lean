import PynProofs.Search
import PynModel.Kernels.Process
/-!
# C16 — correlograms and peri-event alignment report true lags to the reference events
Models: `Pyn.crossCorrelogram` (`_cross_correlogram`, doubled integer times so that the half-bin
offset of the window stays exact), `Pyn.ssLeft` (the two `np.searchsorted` calls of `_align_tsd`),
`Pyn.continuousPerievent`.

Proved: the peri-event window (`compute_perievent`) and the innermost bin-count scan of the
correlogram.  The sliding lower index of the correlogram and the nearest-sample search of the
continuous peri-event are decided by oracle + correspondence only.
-/
namespace Pyn.C16
open Pyn

/-- **compute_perievent window.** `_align_tsd` slices `tsd.index[lb:rb]` with
`lb = searchsorted(t, r - w0)`, `rb = searchsorted(t, r + w1)` (both side="left").  For sorted
timestamps, sample `k` is in the slice iff `r - w0 ≤ t[k] < r + w1`: the samples strictly inside
the window plus those on its left edge; its lag is `t[k] - r`. -/
theorem perievent_window (t : Array Int) (hs : Sorted t) (r w0 w1 : Int) (k : Nat) (hk : k < t.size) :
    (ssLeft t (r - w0) 0 ≤ k ∧ k < ssLeft t (r + w1) 0) ↔ (-w0 ≤ t[k] - r ∧ t[k] - r < w1) := by
  rw [ssLeft_window t (r - w0) (r + w1) hs k hk]
  constructor <;> (rintro ⟨a, b⟩; constructor <;> omega)

/-- **innermost scan of the correlogram**: from `leftb`, `ccCount` consumes the maximal run of
target spikes below the (doubled) right bin edge and counts them. -/
theorem ccCount_spec (t2 : Array Int) (rb : Int) (l k : Nat) :
    l ≤ (ccCount t2 rb l k).1 ∧ (ccCount t2 rb l k).2 = k + ((ccCount t2 rb l k).1 - l) ∧
    (∀ i, l ≤ i → i < (ccCount t2 rb l k).1 → (hi : i < t2.size) → 2 * t2[i] < rb) ∧
    ((h : (ccCount t2 rb l k).1 < t2.size) → 2 * t2[(ccCount t2 rb l k).1] ≥ rb) := by
  fun_induction ccCount t2 rb l k with
  | case1 l k h hlt ih =>
    obtain ⟨h1, h2, h3, h4⟩ := ih
    refine ⟨by omega, by omega, ?_, h4⟩
    intro i hi1 hi2 hi
    by_cases hil : i = l
    · subst hil; exact hlt
    · exact h3 i (by omega) hi2 hi
  | case2 l k h hge => exact ⟨Nat.le_refl _, by simp, fun i h1 h2 => by omega, fun _ => by dsimp only; omega⟩
  | case3 l k h => exact ⟨Nat.le_refl _, by simp, fun i h1 h2 => by omega, fun h' => by dsimp only at h'; omega⟩

/-- number of bins is odd (so that one bin is centred on lag 0) -/
theorem nbins_odd (b w : Int) : ccNbins b w % 2 = 1 := by
  unfold ccNbins; simp only; split <;> omega

/-! concrete correlograms: reference [0,10], target [1,2,11], bin 1, window 3 → 7 bins centred on
-3..3; lag 1 twice (1-0, 11-10), lag 2 once; a lag exactly on a bin edge (0.5 with bin 1, here in
doubled units) falls in the upper bin -/
example : crossCorrelogram #[0, 10] #[1, 2, 11] 1 3 = #[0, 0, 0, 0, 2, 1, 0] := by decide +kernel
example : crossCorrelogram #[0] #[1] 2 2 = #[0, 0, 1] := by decide +kernel   -- lag 1 = edge between bin 0 and bin +2

end Pyn.C16

import PynProps.C05
import PynProofs.Search
import PynModel.Kernels.Process
import PynProps.C06
import PynProps.C15
/-!
# C16 — correlograms and peri-event alignment report true lags to the reference events
Models: `Pyn.crossCorrelogram` (`_cross_correlogram`, doubled integer times so that the half-bin
offset of the window stays exact), `Pyn.ssLeft` (the two `np.searchsorted` calls of `_align_tsd`),
`Pyn.continuousPerievent`.

Proved: the peri-event window (`compute_perievent`), and that **the correlogram is the histogram of
lags** (`xcorr_histogram`: for sorted trains of any lengths the raw count of bin `p` is the number of
(reference, target) pairs whose lag lies in the half-open bin `[(p − N/2)·b, (p + 1 − N/2)·b)`, via the
sliding lower index `ccFwd_spec` / `ccBack_id`, the bin scan `ccCount_counts`, `ccBins_counts`,
`ccOuter_counts`).  Continuous peri-event (`_jitcontinuous_perievent`): `pcK_entries` — for the e-th event of
epoch k the stored slice is taken around a NEAREST sample of THAT epoch's samples (`pcInner_closest`, `pcI_nearest`,
cursor invariant across events as in C06), clipped to the epoch, and `pc_layout` — row o of the window holds the
sample o − w0 steps from it iff that position lies inside the epoch, else NaN; events of an epoch without samples
keep all-NaN columns.  Normalisations are decided by oracle + correspondence (safety: C15 `pericont_safe`).
-/
namespace Pyn.C16
open Pyn Pyn.C06

/-- **compute_perievent window.** `_align_tsd` slices `tsd.index[lb:rb]` with
`lb = searchsorted(t, r - w0)`, `rb = searchsorted(t, r + w1)` (both side="left").  For sorted
timestamps, sample `k` is in the slice iff `r - w0 ≤ t[k] < r + w1`: the samples strictly inside
the window plus those on its left edge; its lag is `t[k] - r`. -/
theorem perievent_window (t : Array Int) (hs : Sorted t) (r w0 w1 : Int) (k : Nat) (hk : k < t.size) :
    (ssLeft t (r - w0) 0 ≤ k ∧ k < ssLeft t (r + w1) 0) ↔ (-w0 ≤ t[k] - r ∧ t[k] - r < w1) := by
  rw [ssLeft_window t (r - w0) (r + w1) hs k hk]
  constructor <;> (rintro ⟨a, b⟩; constructor <;> omega)

/-- **innermost scan of the correlogram**: from `leftb`, `ccCount` consumes the maximal run of
target spikes below the (doubled) right bin edge and counts them. -/
theorem ccCount_spec (t2 : Array Int) (rb : Int) (l k : Nat) :
    l ≤ (ccCount t2 rb l k).1 ∧ (ccCount t2 rb l k).2 = k + ((ccCount t2 rb l k).1 - l) ∧
    (∀ i, l ≤ i → i < (ccCount t2 rb l k).1 → (hi : i < t2.size) → 2 * t2[i] < rb) ∧
    ((h : (ccCount t2 rb l k).1 < t2.size) → 2 * t2[(ccCount t2 rb l k).1] ≥ rb) := by
  fun_induction ccCount t2 rb l k with
  | case1 l k h hlt ih =>
    obtain ⟨h1, h2, h3, h4⟩ := ih
    refine ⟨by omega, by omega, ?_, h4⟩
    intro i hi1 hi2 hi
    by_cases hil : i = l
    · subst hil; exact hlt
    · exact h3 i (by omega) hi2 hi
  | case2 l k h hge => exact ⟨Nat.le_refl _, by simp, fun i h1 h2 => by omega, fun _ => by dsimp only; omega⟩
  | case3 l k h => exact ⟨Nat.le_refl _, by simp, fun i h1 h2 => by omega, fun h' => by dsimp only at h'; omega⟩

/-- number of bins is odd (so that one bin is centred on lag 0) -/
theorem nbins_odd (b w : Int) : ccNbins b w % 2 = 1 := by
  unfold ccNbins; simp only; split <;> omega

/-! ## the correlogram is the histogram of lags -/

/-- number of target spikes whose doubled time lies in `[a, b)` -/
def cnt2 (t2 : Array Int) (a b : Int) : Nat :=
  ((List.range t2.size).filter fun i => decide (a ≤ 2 * t2[i]!) && decide (2 * t2[i]! < b)).length

theorem ccFwd_spec (t2 : Array Int) (lb : Int) (i2 : Nat) (h : i2 ≤ t2.size)
    (hlow : ∀ i, i < i2 → (hi : i < t2.size) → 2 * t2[i] < lb) :
    i2 ≤ (ccFwd t2 lb i2 h).1 ∧ (∀ i, i < (ccFwd t2 lb i2 h).1 → (hi : i < t2.size) → 2 * t2[i] < lb) ∧
    ((hr : (ccFwd t2 lb i2 h).1 < t2.size) → lb ≤ 2 * t2[(ccFwd t2 lb i2 h).1]) := by
  induction hn : t2.size - i2 generalizing i2 with
  | zero =>
    unfold ccFwd
    have : ¬ i2 < t2.size := by omega
    simp only [dif_neg this]
    exact ⟨Nat.le_refl _, hlow, fun hr => by omega⟩
  | succ n ih =>
    unfold ccFwd
    have hi : i2 < t2.size := by omega
    simp only [dif_pos hi]
    split
    · rename_i hlt
      obtain ⟨a, b, c⟩ := ih (i2+1) hi (fun i h1 h2 => by
        by_cases e : i = i2
        · subst e; exact hlt
        · exact hlow i (by omega) h2) (by omega)
      exact ⟨by omega, b, c⟩
    · rename_i hge
      exact ⟨Nat.le_refl _, hlow, fun _ => by show lb ≤ 2 * t2[i2]; omega⟩

theorem ccBack_id (t2 : Array Int) (lb : Int) (r : Nat) (h : r ≤ t2.size)
    (hlow : ∀ i, i < r → (hi : i < t2.size) → 2 * t2[i] < lb) : (ccBack t2 lb r h).1 = r := by
  cases r with
  | zero => simp [ccBack]
  | succ i =>
    unfold ccBack
    have := hlow i (by omega) (by omega)
    have hn : ¬ 2 * t2[i] > lb := by omega
    simp [hn]

theorem ccCount_le (t2 : Array Int) (b : Int) (l k : Nat) (hl : l ≤ t2.size) : (ccCount t2 b l k).1 ≤ t2.size := by
  induction hn : t2.size - l generalizing l k with
  | zero =>
    unfold ccCount
    have : ¬ l < t2.size := by omega
    simp only [dif_neg this]; exact hl
  | succ n ih =>
    unfold ccCount
    have hi : l < t2.size := by omega
    simp only [dif_pos hi]
    split
    · exact ih (l+1) (k+1) hi (by omega)
    · exact hl

/-- count of the scan from a partition point -/
theorem ccCount_counts (t2 : Array Int) (hs : Sorted t2) (a b : Int) (l : Nat) (hl : l ≤ t2.size)
    (hlow : ∀ i, i < l → (hi : i < t2.size) → 2 * t2[i] < a)
    (hhigh : ∀ i, l ≤ i → (hi : i < t2.size) → a ≤ 2 * t2[i]) :
    (ccCount t2 b l 0).2 = cnt2 t2 a b ∧ l ≤ (ccCount t2 b l 0).1 ∧ (ccCount t2 b l 0).1 ≤ t2.size ∧
    (∀ i, i < (ccCount t2 b l 0).1 → (hi : i < t2.size) → l ≤ i → 2 * t2[i] < b) ∧
    (∀ i, (ccCount t2 b l 0).1 ≤ i → (hi : i < t2.size) → b ≤ 2 * t2[i]) := by
  obtain ⟨h1, h2, h3, h4⟩ := ccCount_spec t2 b l 0
  have hle : (ccCount t2 b l 0).1 ≤ t2.size := ccCount_le t2 b l 0 hl
  generalize (ccCount t2 b l 0) = r at h1 h2 h3 h4 hle
  have hge : ∀ i, r.1 ≤ i → (hi : i < t2.size) → b ≤ 2 * t2[i] := by
    intro i hi1 hi
    have hr : r.1 < t2.size := by omega
    have := h4 hr
    have := hs r.1 i hr hi hi1
    omega
  refine ⟨?_, h1, hle, fun i hi1 hi hli => h3 i hli hi1 hi, hge⟩
  rw [h2]
  unfold cnt2
  have e : ((List.range t2.size).filter fun i => decide (a ≤ 2 * t2[i]!) && decide (2 * t2[i]! < b)) =
      ((List.range t2.size).filter fun i => decide (l ≤ i) && decide (i < r.1)) := by
    apply List.filter_congr
    intro i hi
    simp only [List.mem_range] at hi
    rw [getElem!_pos t2 i hi]
    by_cases hli : l ≤ i
    · have := hhigh i hli hi
      by_cases hir : i < r.1
      · have := h3 i hli hir hi
        simp [hli, hir, *]
      · have := hge i (by omega) hi
        have hn : ¬ 2 * t2[i] < b := by omega
        simp [hli, hir, hn]
    · have := hlow i (by omega) hi
      have hn : ¬ a ≤ 2 * t2[i] := by omega
      simp [hli, hn]
  rw [e, C05.filter_range_interval t2.size l r.1 h1 hle]
  omega

theorem ccBins_counts (t2 : Array Int) (hs : Sorted t2) (bs2 : Int) (hbs : 0 < bs2) (nb j : Nat) (rb2 : Int) (leftb : Nat)
    (C : Array Nat) (hl : leftb ≤ t2.size) (hj : j + nb ≤ C.size)
    (hlow : ∀ i, i < leftb → (hi : i < t2.size) → 2 * t2[i] < rb2)
    (hhigh : ∀ i, leftb ≤ i → (hi : i < t2.size) → rb2 ≤ 2 * t2[i]) :
    (ccBins t2 bs2 nb j rb2 leftb C).size = C.size ∧
    ∀ p, (hp : p < C.size) → (hp' : p < (ccBins t2 bs2 nb j rb2 leftb C).size) →
      (ccBins t2 bs2 nb j rb2 leftb C)[p] = C[p] +
        (if j ≤ p ∧ p < j + nb then cnt2 t2 (rb2 + ((p - j : Nat) : Int) * bs2) (rb2 + (((p - j : Nat) : Int) + 1) * bs2) else 0) := by
  induction nb generalizing j rb2 leftb C with
  | zero =>
    simp only [ccBins]
    refine ⟨trivial, fun p hp hp' => ?_⟩
    have : ¬ (j ≤ p ∧ p < j + 0) := by omega
    rw [if_neg this]; rfl
  | succ nb ih =>
    simp only [ccBins]
    obtain ⟨c1, c2, c3, c4, c5⟩ := ccCount_counts t2 hs rb2 (rb2 + bs2) leftb hl hlow hhigh
    have hsz : (C.modify j (· + (ccCount t2 (rb2 + bs2) leftb 0).2)).size = C.size := by simp
    obtain ⟨i1, i2⟩ := ih (j+1) (rb2 + bs2) (ccCount t2 (rb2 + bs2) leftb 0).1
      (C.modify j (· + (ccCount t2 (rb2 + bs2) leftb 0).2)) c3 (by rw [hsz]; omega)
      (fun i hi1 hi => by
        by_cases hli : leftb ≤ i
        · exact c4 i hi1 hi hli
        · have := hlow i (by omega) hi; omega)
      c5
    refine ⟨by rw [i1, hsz], ?_⟩
    intro p hp hp'
    rw [i2 p (by rw [hsz]; exact hp) hp', Array.getElem_modify]
    by_cases hpj : p = j
    · subst hpj
      have h1 : ¬ (p + 1 ≤ p ∧ p < p + 1 + nb) := by omega
      have h2 : (p ≤ p ∧ p < p + (nb + 1)) := by omega
      simp only [h1, h2, if_false, if_true, Nat.sub_self, c1]
      simp
    · have hne : ¬ j = p := fun e => hpj e.symm
      simp only [hne, if_false]
      by_cases hin : j + 1 ≤ p ∧ p < j + 1 + nb
      · have h2 : j ≤ p ∧ p < j + (nb + 1) := by omega
        simp only [hin, h2, and_self, if_true]
        have e1 : ((p - (j + 1) : Nat) : Int) = ((p - j : Nat) : Int) - 1 := by omega
        rw [e1]
        have e2 : rb2 + bs2 + (((p - j : Nat) : Int) - 1) * bs2 = rb2 + ((p - j : Nat) : Int) * bs2 := by
          rw [Int.sub_mul]; omega
        have e3 : rb2 + bs2 + (((p - j : Nat) : Int) - 1 + 1) * bs2 = rb2 + (((p - j : Nat) : Int) + 1) * bs2 := by
          rw [Int.sub_add_cancel, Int.add_mul]; omega
        rw [e2, e3]
      · have h2 : ¬ (j ≤ p ∧ p < j + (nb + 1)) := by omega
        simp only [hin, h2, if_false]

/-- `Σ_{a = i}^{n-1} f a` -/
def sumFrom (f : Nat → Nat) (i n : Nat) : Nat :=
  if i < n then f i + sumFrom f (i+1) n else 0
termination_by n - i

theorem ccOuter_counts (t1 t2 : Array Int) (hs1 : Sorted t1) (hs2 : Sorted t2) (bs : Int) (hbs : 0 < bs) (nbins : Nat)
    (i1 i2 : Nat) (h : i2 ≤ t2.size) (C : Array Nat) (hC : C.size = nbins)
    (hlow : (hi1 : i1 < t1.size) → ∀ i, i < i2 → (hi : i < t2.size) → 2 * t2[i] < 2 * t1[i1] - nbins * bs) :
    (ccOuter t1 t2 bs nbins i1 i2 h C).size = nbins ∧
    ∀ p, (hp : p < nbins) → (hp' : p < (ccOuter t1 t2 bs nbins i1 i2 h C).size) →
      (ccOuter t1 t2 bs nbins i1 i2 h C)[p] = C[p]'(hC ▸ hp) +
        sumFrom (fun a => cnt2 t2 (2 * t1[a]! - nbins * bs + (p : Int) * (2 * bs))
                                  (2 * t1[a]! - nbins * bs + ((p : Int) + 1) * (2 * bs))) i1 t1.size := by
  induction hn : t1.size - i1 generalizing i1 i2 C with
  | zero =>
    unfold ccOuter
    have hi : ¬ i1 < t1.size := by omega
    simp only [dif_neg hi]
    refine ⟨hC, fun p hp hp' => ?_⟩
    unfold sumFrom; simp [hi]
  | succ n ih =>
    have hi : i1 < t1.size := by omega
    unfold ccOuter
    simp only [dif_pos hi]
    have hl := hlow hi
    obtain ⟨f1, f2, f3⟩ := ccFwd_spec t2 (2 * t1[i1] - nbins * bs) i2 h hl
    have hb := ccBack_id t2 (2 * t1[i1] - nbins * bs) (ccFwd t2 (2 * t1[i1] - nbins * bs) i2 h).1
      (ccFwd t2 (2 * t1[i1] - nbins * bs) i2 h).2 f2
    have hhigh : ∀ i, (ccFwd t2 (2 * t1[i1] - nbins * bs) i2 h).1 ≤ i → (hi : i < t2.size) → 2 * t1[i1] - nbins * bs ≤ 2 * t2[i] := by
      intro i hi1 hi
      have hr : (ccFwd t2 (2 * t1[i1] - nbins * bs) i2 h).1 < t2.size := by omega
      have := f3 hr
      have := hs2 _ i hr hi hi1
      omega
    obtain ⟨g1, g2⟩ := ccBins_counts t2 hs2 (2 * bs) (by omega) nbins 0 (2 * t1[i1] - nbins * bs)
      (ccBack t2 (2 * t1[i1] - nbins * bs) (ccFwd t2 (2 * t1[i1] - nbins * bs) i2 h).1 (ccFwd t2 (2 * t1[i1] - nbins * bs) i2 h).2).1
      C (ccBack t2 _ _ _).2 (by omega) (by rw [hb]; exact f2) (by rw [hb]; exact hhigh)
    obtain ⟨k1, k2⟩ := ih (i1+1) _ (ccBack t2 _ _ _).2 _ (by rw [g1, hC])
      (fun hi1' i hi2 hi' => by
        rw [hb] at hi2
        have := f2 i hi2 hi'
        have := hs1 i1 (i1+1) hi hi1' (by omega)
        omega) (by omega)
    refine ⟨k1, fun p hp hp' => ?_⟩
    rw [k2 p hp hp', g2 p (by omega) (by rw [g1]; omega)]
    have hin : 0 ≤ p ∧ p < 0 + nbins := by omega
    simp only [hin, and_self, if_true, Nat.sub_zero]
    conv => rhs; unfold sumFrom
    simp only [hi, if_true, getElem!_pos t1 i1 hi]
    omega

/-- **the cross-correlogram is the histogram of lags.**  For non-decreasing reference and target spike
trains of any lengths (coincident spikes, lags exactly on bin edges included) and `N = nbins` (odd) bins
of width `b`: the raw count of bin `p` is the number of pairs (reference a, target c) whose lag
`t2[c] - t1[a]` satisfies `(p - N/2)·b ≤ lag < (p + 1 - N/2)·b` (written doubled to stay in ℤ):
half-open bins, the bin with `p = ⌊N/2⌋` centred on lag 0, every pair inside the window counted
exactly once.  (The code then divides by `len(t1)·b`.) -/
theorem xcorr_histogram (t1 t2 : Array Int) (hs1 : Sorted t1) (hs2 : Sorted t2) (b w : Int) (hb : 0 < b)
    (p : Nat) (hp : p < ccNbins b w) :
    ∃ hp' : p < (crossCorrelogram t1 t2 b w).size,
      (crossCorrelogram t1 t2 b w)[p] =
        sumFrom (fun a => cnt2 t2 (2 * t1[a]! - (ccNbins b w : Int) * b + (p : Int) * (2 * b))
                                  (2 * t1[a]! - (ccNbins b w : Int) * b + ((p : Int) + 1) * (2 * b))) 0 t1.size := by
  unfold crossCorrelogram
  obtain ⟨k1, k2⟩ := ccOuter_counts t1 t2 hs1 hs2 b hb (ccNbins b w) 0 0 (Nat.zero_le _)
    (Array.replicate (ccNbins b w) 0) (by simp) (fun _ i hi => by omega)
  refine ⟨by rw [k1]; exact hp, ?_⟩
  rw [k2 p hp (by rw [k1]; exact hp)]
  simp


/-! concrete correlograms: reference [0,10], target [1,2,11], bin 1, window 3 → 7 bins centred on
-3..3; lag 1 twice (1-0, 11-10), lag 2 once; a lag exactly on a bin edge (0.5 with bin 1, here in
doubled units) falls in the upper bin -/
example : crossCorrelogram #[0, 10] #[1, 2, 11] 1 3 = #[0, 0, 0, 0, 2, 1, 0] := by decide +kernel
example : crossCorrelogram #[0] #[1] 2 2 = #[0, 0, 1] := by decide +kernel   -- lag 1 = edge between bin 0 and bin +2


/-! ## compute_perievent_continuous: nearest sample of the same epoch, window clipped to the epoch -/

/-- the inner scan of `_jitcontinuous_perievent`: from the cursor it walks while the distance to the event does not
increase and stops at the first strict increase (or at the end of the epoch's samples) -/
theorem pcInner_closest (ts : Array Int) (x : Int) (maxt : Nat) (hm : maxt ≤ ts.size) (t : Nat) (interval : Int)
    (tpos : Nat) (ht1 : 1 ≤ t) (ht : t ≤ maxt) (hp : tpos = t - 1) (hint : interval = D ts x (t - 1)) :
    (pcInner ts x maxt hm t interval tpos).1 = (pcInner ts x maxt hm t interval tpos).2 + 1 ∧
    t - 1 ≤ (pcInner ts x maxt hm t interval tpos).2 ∧ (pcInner ts x maxt hm t interval tpos).2 < maxt ∧
    (∀ q, t - 1 ≤ q → q ≤ (pcInner ts x maxt hm t interval tpos).2 →
        D ts x (pcInner ts x maxt hm t interval tpos).2 ≤ D ts x q) ∧
    ((pcInner ts x maxt hm t interval tpos).2 + 1 < maxt →
        D ts x (pcInner ts x maxt hm t interval tpos).2 < D ts x ((pcInner ts x maxt hm t interval tpos).2 + 1)) := by
  induction hn : maxt - t generalizing t interval tpos with
  | zero =>
    unfold pcInner
    have : ¬ t < maxt := by omega
    simp only [dif_neg this]
    subst hp
    exact ⟨by omega, Nat.le_refl _, by omega, fun q h1 h2 => by
      have : q = t - 1 := by omega
      subst this; exact Int.le_refl _, fun h => by omega⟩
  | succ n ih =>
    have hlt : t < maxt := by omega
    unfold pcInner
    simp only [dif_pos hlt]
    have hnew : (((ts[t]'(by omega) - x).natAbs : Int)) = D ts x t := by rw [D_eq ts x t (by omega)]
    simp only [hnew]
    by_cases hb : D ts x t > interval
    · simp only [hb, if_true]
      subst hp
      refine ⟨by omega, Nat.le_refl _, by omega, fun q h1 h2 => by
        have : q = t - 1 := by omega
        subst this; exact Int.le_refl _, fun _ => ?_⟩
      have e : t - 1 + 1 = t := by omega
      rw [e, ← hint]; exact hb
    · simp only [hb, if_false]
      obtain ⟨a1, a2, a3, a4, a5⟩ := ih (t+1) (D ts x t) t (by omega) (by omega) (by simp) (by simp) (by omega)
      refine ⟨a1, by omega, a3, ?_, a5⟩
      intro q h1 h2
      by_cases hq : q = t - 1
      · subst hq
        have := a4 t (by simp) (by simpa using a2)
        rw [← hint]; omega
      · exact a4 q (by simp; omega) h2

/-- what the kernel stores for an event at time `x` in an epoch whose samples are the positions `[startT, maxt)`:
the slice `[lo, hi)` of samples around a NEAREST sample `tpos` of the epoch, clipped to the epoch, and the row
`start_w` at which the slice is written in the `(w0 + w1 + 1)`-row window -/
def PcEntry (ts : Array Int) (w0 w1 startT maxt : Nat) (x : Int) (e : Nat × Nat × Nat) : Prop :=
  ∃ tpos, startT ≤ tpos ∧ tpos < maxt ∧ (∀ q, startT ≤ q → q < maxt → D ts x tpos ≤ D ts x q) ∧
    e = (tpos - min w0 (tpos - startT), tpos + min w1 (maxt - tpos - 1) + 1, w0 - min w0 (tpos - startT))

theorem pcI_nearest (ts tt : Array Int) (hsq : Sorted ts) (hst : Sorted tt) (w0 w1 startT maxt maxi : Nat)
    (hmt : maxt ≤ ts.size) (hmi : maxi ≤ tt.size) (t i : Nat) (ht : t < maxt) (hlo : startT ≤ t)
    (out0 : Array (Nat × Nat × Nat))
    (hleft : (hi : i < maxi) → ∀ q, startT ≤ q → q < t → D ts (tt[i]'(by omega)) t ≤ D ts (tt[i]'(by omega)) q) :
    (pcI ts tt w0 w1 startT maxt maxi hmt hmi t i ht out0).size = out0.size + (maxi - i) ∧
    (∀ k, (hk : k < out0.size) → (hk2 : k < (pcI ts tt w0 w1 startT maxt maxi hmt hmi t i ht out0).size) →
      (pcI ts tt w0 w1 startT maxt maxi hmt hmi t i ht out0)[k] = out0[k]) ∧
    ∀ d, (hd : i + d < maxi) → (hk : out0.size + d < (pcI ts tt w0 w1 startT maxt maxi hmt hmi t i ht out0).size) →
      PcEntry ts w0 w1 startT maxt (tt[i + d]'(by omega)) (pcI ts tt w0 w1 startT maxt maxi hmt hmi t i ht out0)[out0.size + d] := by
  induction hn : maxi - i generalizing t i out0 with
  | zero =>
    unfold pcI
    have : ¬ i < maxi := by omega
    simp only [dif_neg this]
    exact ⟨by omega, fun k hk hk2 => trivial, fun d hd => by omega⟩
  | succ n ih =>
    have hi : i < maxi := by omega
    unfold pcI
    simp only [dif_pos hi]
    have hint : (((ts[t]'(by omega) - tt[i]'(by omega)).natAbs : Int)) = D ts (tt[i]'(by omega)) t := by
      rw [D_eq ts _ t (by omega)]
    simp only [hint]
    obtain ⟨a1, a2, a3, a4, a5⟩ := pcInner_closest ts (tt[i]'(by omega)) maxt hmt (t+1) (D ts (tt[i]'(by omega)) t) t
      (by omega) (by omega) (by simp) (by simp)
    simp only [Nat.add_sub_cancel] at a2 a4
    obtain ⟨r, hr⟩ : ∃ r, r = pcInner ts (tt[i]'(by omega)) maxt hmt (t+1) (D ts (tt[i]'(by omega)) t) t := ⟨_, rfl⟩
    rw [← hr] at a1 a2 a3 a4 a5
    -- optimality of r.2 over the whole epoch
    have hopt : ∀ q, startT ≤ q → q < maxt → D ts (tt[i]'(by omega)) r.2 ≤ D ts (tt[i]'(by omega)) q := by
      intro q hq1 hq2
      have hjt : D ts (tt[i]'(by omega)) r.2 ≤ D ts (tt[i]'(by omega)) t := a4 t (Nat.le_refl _) a2
      by_cases hqt : q < t
      · have := hleft hi q hq1 hqt; omega
      · by_cases hqj : q ≤ r.2
        · exact a4 q (by omega) hqj
        · have hj1 : r.2 + 1 < maxt := by omega
          have hgrow := a5 hj1
          rw [D_eq ts _ r.2 (by omega), D_eq ts _ (r.2+1) (by omega)] at hgrow
          rw [D_eq ts _ r.2 (by omega), D_eq ts _ q (by omega)]
          have m1 := hsq r.2 (r.2+1) (by omega) (by omega) (by omega)
          have m2 := hsq (r.2+1) q (by omega) (by omega) (by omega)
          omega
    have hcur : r.1 - 1 = r.2 := by omega
    have key := ih (r.1 - 1) (i+1) (by omega) (by omega)
      (out0.push (r.2 - min w0 (r.2 - startT), r.2 + min w1 (maxt - r.2 - 1) + 1, w0 - min w0 (r.2 - startT)))
      (fun hi' q hq1 hq2 => by
        rw [hcur] at hq2 ⊢
        rw [D_eq ts _ r.2 (by omega), D_eq ts _ q (by omega)]
        have h0 := hopt q hq1 (by omega)
        rw [D_eq ts _ r.2 (by omega), D_eq ts _ q (by omega)] at h0
        exact left_invariant ts[q] ts[r.2] tt[i] tt[i+1] (hsq q r.2 (by omega) (by omega) (by omega))
          (hst i (i+1) (by omega) (by omega) (by omega)) h0)
      (by omega)
    subst hr
    obtain ⟨b1, bp, b2⟩ := key
    refine ⟨by rw [b1]; simp; omega, fun k hk hk2 => ?_, fun d hd hk => ?_⟩
    · rw [bp k (by simp; omega) hk2, Array.getElem_push_lt hk]
    rcases Nat.eq_zero_or_pos d with h0 | hpos
    · subst h0
      have := bp out0.size (by simp) (by simpa using hk)
      simp only [Nat.add_zero] at hk ⊢
      rw [this]
      simp only [Array.getElem_push_eq]
      exact ⟨_, by omega, a3, hopt, rfl⟩
    · have := b2 (d - 1) (by omega) (by rw [b1]; simp; omega)
      have e1 : i + 1 + (d - 1) = i + d := by omega
      simp only [e1, Array.size_push] at this
      have e2 : out0.size + 1 + (d - 1) = out0.size + d := by omega
      simp only [e2] at this
      exact this

theorem getElem_append_replicate_left (out : Array (Nat × Nat × Nat)) (b : Nat) (v : Nat × Nat × Nat) (k : Nat)
    (hk : k < out.size) : (out ++ Array.replicate b v)[k]'(by simp; omega) = out[k] := by
  simp [Array.getElem_append_left hk]

/-- **`_jitcontinuous_perievent`, every epoch**: with `c0[k]` samples and `c1[k]` events in epoch `k` (the counters of
`jitrestrict_with_count`), the entry of event `e` of epoch `k` is a `PcEntry` over the sample window of THAT epoch
(`[psum c0 k, psum c0 k + c0[k])`) when the epoch holds samples, and the all-zero entry otherwise -/
theorem pcK_entries (ts tt : Array Int) (hsq : Sorted ts) (hst : Sorted tt) (c0 c1 : Array Nat) (w0 w1 m : Nat)
    (h0 : c0.size = m) (h1 : c1.size = m) (hs0 : C15.asum c0 = ts.size) (hs1 : C15.asum c1 = tt.size)
    (k : Nat) (out0 : Array (Nat × Nat × Nat)) (hsz : out0.size = psum c1 k) (hkm : k ≤ m)
    (out : Array (Nat × Nat × Nat)) (hr : pcK ts tt c0 c1 w0 w1 m k out0 = .ok out) :
    out.size = tt.size ∧
    (∀ e, (he : e < out0.size) → (he2 : e < out.size) → out[e] = out0[e]) ∧
    ∀ k', k ≤ k' → (hk' : k' < m) → ∀ d, (hd : d < c1[k']'(by omega)) →
      ∃ he : psum c1 k' + d < out.size, ∃ het : psum c1 k' + d < tt.size,
        if 0 < c0[k']'(by omega) then
          PcEntry ts w0 w1 (psum c0 k') (psum c0 k' + c0[k']'(by omega)) tt[psum c1 k' + d] out[psum c1 k' + d]
        else out[psum c1 k' + d] = (0, 0, 0) := by
  induction hn : m - k generalizing k out0 with
  | zero =>
    unfold pcK at hr
    have hnk : ¬ k < m := by omega
    simp only [dif_neg hnk] at hr
    cases hr
    have hkm' : k = m := by omega
    subst hkm'
    have : psum c1 k = C15.asum c1 := by
      unfold psum C15.asum; rw [← h1]
      have : c1.size = c1.toList.length := by simp
      rw [this, List.take_length]
    refine ⟨by rw [hsz, this, hs1], fun e he he2 => rfl, fun k' hk1 hk2 => by omega⟩
  | succ n ih =>
    have hk : k < m := by omega
    unfold pcK at hr
    have hr1 : rdN c0 k = .ok (c0[k]'(by omega)) := by simp [rdN, show k < c0.size by omega]
    have hr2 : rdN c1 k = .ok (c1[k]'(by omega)) := by simp [rdN, show k < c1.size by omega]
    have hle1 : psum c0 k + c0[k]'(by omega) ≤ ts.size := by
      have := C15.psum_le_asum c0 (k+1)
      rw [C15.psum_succ c0 k (by omega), hs0] at this; exact this
    have hle2 : psum c1 k + c1[k]'(by omega) ≤ tt.size := by
      have := C15.psum_le_asum c1 (k+1)
      rw [C15.psum_succ c1 k (by omega), hs1] at this; exact this
    simp only [dif_pos hk, hr1, hr2, bind, Except.bind] at hr
    split at hr
    · rename_i hpos
      rw [dif_pos ⟨hle1, hle2⟩, dif_pos (by omega)] at hr
      -- the events of this epoch
      obtain ⟨p1, p2, p3⟩ := pcI_nearest ts tt hsq hst w0 w1 (psum c0 k) (psum c0 k + c0[k]'(by omega))
        (psum c1 k + c1[k]'(by omega)) hle1 hle2 (psum c0 k) (psum c1 k) (by omega) (Nat.le_refl _) out0
        (fun _ q h1 h2 => by omega)
      have hsz' : (pcI ts tt w0 w1 (psum c0 k) (psum c0 k + c0[k]'(by omega)) (psum c1 k + c1[k]'(by omega)) hle1 hle2
          (psum c0 k) (psum c1 k) (by omega) out0).size = psum c1 (k+1) := by
        rw [p1, hsz, C15.psum_succ c1 k (by omega)]; omega
      obtain ⟨q1, q2, q3⟩ := ih (k+1) _ hsz' (by omega) hr (by omega)
      refine ⟨q1, fun e he he2 => ?_, fun k' hk1 hk2 d hd => ?_⟩
      · rw [q2 e (by rw [p1]; omega) he2, p2 e he]
      · rcases Nat.eq_or_lt_of_le hk1 with e | e
        · subst e
          have hlt : psum c1 k + d < (pcI ts tt w0 w1 (psum c0 k) (psum c0 k + c0[k]'(by omega)) (psum c1 k + c1[k]'(by omega)) hle1 hle2
              (psum c0 k) (psum c1 k) (by omega) out0).size := by rw [p1, hsz]; omega
          refine ⟨by rw [q1]; omega, by omega, ?_⟩
          simp only [hpos.1, if_true]
          rw [q2 (psum c1 k + d) hlt (by rw [q1]; omega)]
          have := p3 d (by omega) (by rw [hsz]; exact hlt)
          simp only [hsz] at this
          exact this
        · exact q3 k' (by omega) hk2 d hd
    · rename_i hnpos
      have hsz' : (out0 ++ Array.replicate (c1[k]'(by omega)) ((0, 0, 0) : Nat × Nat × Nat)).size = psum c1 (k+1) := by
        simp [hsz, C15.psum_succ c1 k (by omega)]
      obtain ⟨q1, q2, q3⟩ := ih (k+1) _ hsz' (by omega) hr (by omega)
      refine ⟨q1, fun e he he2 => ?_, fun k' hk1 hk2 d hd => ?_⟩
      · rw [q2 e (by simp; omega) he2]
        exact getElem_append_replicate_left out0 _ _ e he
      · rcases Nat.eq_or_lt_of_le hk1 with e | e
        · subst e
          refine ⟨by rw [q1]; omega, by omega, ?_⟩
          have hlt : psum c1 k + d < (out0 ++ Array.replicate (c1[k]'(by omega)) ((0, 0, 0) : Nat × Nat × Nat)).size := by
            simp [hsz]; omega
          have hz : ¬ 0 < c0[k]'(by omega) := by
            intro hh; exact hnpos ⟨hh, by omega⟩
          simp only [hz, if_false]
          rw [q2 (psum c1 k + d) hlt (by rw [q1]; omega)]
          rw [Array.getElem_append_right (by omega)]
          simp
        · exact q3 k' (by omega) hk2 d hd

/-- **layout of one column**: with the stored slice `[lo, hi)` written from row `start_w`, row `o` of the
`(w0 + w1 + 1)`-row window holds the sample `o - w0` steps from `tpos` exactly when that position lies inside the
epoch's samples `[startT, maxt)`; every other row keeps NaN -/
theorem pc_layout (w0 w1 startT maxt tpos o : Nat) (h1 : startT ≤ tpos) (h2 : tpos < maxt) :
    let left := min w0 (tpos - startT)
    let right := min w1 (maxt - tpos - 1)
    ((w0 - left ≤ o ∧ o < w0 - left + ((tpos + right + 1) - (tpos - left))) ↔
      (o ≤ w0 + w1 ∧ startT + w0 ≤ tpos + o ∧ tpos + o < maxt + w0)) ∧
    (w0 - left ≤ o → (tpos - left) + (o - (w0 - left)) + w0 = tpos + o) := by
  intro left right
  constructor
  · constructor <;> (intro h; omega)
  · intro h; omega

end Pyn.C16

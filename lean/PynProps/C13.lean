import PynProps.C12
import PynProps.C02
import PynModel.Core.Meta
/-!
# C13 — metadata and labels stay attached to the element they describe

> Metadata attached to intervals, columns or members … remain attached to the same element through
> every indexing form … Intervals produced by intersect, set_diff and split carry the metadata of the
> parent interval(s) that contain them. Operations that cannot keep the correspondence … drop
> metadata entirely rather than attach it to the wrong element.

Model: `Pyn.TISet` (intervals + one opaque row per interval or none), `TISet.new` = the IntervalSet
constructor with its warning flags (`fixLoopW` = `_jitfix_iset` + `to_warn`), `getIdx`, `intersect`,
`diff`, `split`, `union`; `Pyn.Frame` with `loc` / `iloc` / `reset` for label-indexed metadata.

Proved (all sizes): the constructor keeps metadata ONLY when it emitted every input pair in place
(`new_rows_faithful`), hence every indexing form returns each interval with its own row or no metadata
at all (`getIdx_rows`), intersect rows are those of the two parents containing the piece
(`intersect_rows`), set_diff rows are those of the parent containing the piece (`diff_rows`), `loc` and `iloc` coincide on the `0..n-1` index (`loc_eq_iloc`), `loc` follows
labels (`loc_sound`).  split parents, TsdFrame columns and TsGroup members: tagged-data
oracle + model correspondence.
-/
namespace Pyn.C13
open Pyn Pyn.C01

theorem fixLoopW_fst (st en : Array Int) (h : st.size = en.size) (i : Nat) (out) (c : Bool) :
    (fixLoopW st en h i out c).1 = fixLoop st en h i out := by
  fun_induction fixLoopW st en h i out c with
  | case1 i out c i1 hi r newend out' ih =>
    have hi' : fixSkip st en h i < st.size := hi
    rw [fixLoop]; simp only [dif_pos hi']; exact ih
  | case2 i out c i1 hi =>
    have hi' : ¬ fixSkip st en h i < st.size := hi
    rw [fixLoop]; simp only [dif_neg hi']

theorem fixLoopW_monoAux (st en : Array Int) (h : st.size = en.size) (i : Nat) (out) (c : Bool) (hc : c = true) :
    (fixLoopW st en h i out c).2 = true := by
  fun_induction fixLoopW st en h i out c with
  | case1 i out c i1 hi r newend out' ih => exact ih (by simp [hc])
  | case2 i out c i1 hi => simp [hc]

theorem fixLoopW_mono (st en : Array Int) (h : st.size = en.size) (i : Nat) (out) :
    (fixLoopW st en h i out true).2 = true := fixLoopW_monoAux st en h i out true rfl

theorem fixMerge_none (st en : Array Int) (h : st.size = en.size) (i : Nat) (hi : i < st.size) (ne : Int)
    (hr : (fixMerge st en h i hi ne).1 = i) : (fixMerge st en h i hi ne).2 = ne := by
  unfold fixMerge at hr ⊢
  split
  · rename_i h1
    split
    · rename_i hlt
      simp only [h1, hlt, dite_true, if_true] at hr
      have := (fixMerge_bounds st en h (i+1) h1 (max (en[i]'(h ▸ hi)) (en[i+1]'(h ▸ h1)))).1
      omega
    · rfl
  · rfl

/-- if no warning other than the 1 µs trim fired, the scan emitted every input pair, in place, with
at most its end trimmed -/
theorem fixLoopW_unchanged (st en : Array Int) (h : st.size = en.size) (i : Nat) (out) (c : Bool)
    (hu : (fixLoopW st en h i out c).2 = false) :
    (fixLoopW st en h i out c).1.size = out.size + (st.size - i) ∧
    (∀ k, (hk : k < out.size) → ∃ hk' : k < (fixLoopW st en h i out c).1.size, (fixLoopW st en h i out c).1[k] = out[k]) ∧
    (∀ k, i ≤ k → (hk : k < st.size) → ∃ hk' : out.size + (k - i) < (fixLoopW st en h i out c).1.size,
      (fixLoopW st en h i out c).1[out.size + (k - i)] = (st[k], fixTrim st k (en[k]'(h ▸ hk)))) := by
  fun_induction fixLoopW st en h i out c with
  | case1 i out c i1 hi r newend out' ih =>
    have hc : (c || i1 != i || r.1 != i1 || !(decide (newend > st[i1]))) = false := by
      cases hcc : (c || i1 != i || r.1 != i1 || !(decide (newend > st[i1])))
      · rfl
      · rw [hcc, fixLoopW_mono] at hu; cases hu
    simp only [Bool.or_eq_false_iff, bne_eq_false_iff_eq, Bool.not_eq_false', decide_eq_true_eq] at hc
    obtain ⟨⟨⟨hc0, h1⟩, h2⟩, h3⟩ := hc
    have hr2 : r.2 = en[i1]'(h ▸ hi) := fixMerge_none st en h i1 hi _ h2
    have hout' : out' = out.push (st[i1], newend) := by show (if newend > st[i1] then _ else _) = _; simp [h3]
    obtain ⟨ihs, ihp, ihk⟩ := ih hu
    have hge := fixSkip_ge st en h i
    refine ⟨?_, ?_, ?_⟩
    · rw [ihs, hout']; simp; omega
    · intro k hk
      obtain ⟨hk', e⟩ := ihp k (by rw [hout']; simp; omega)
      refine ⟨hk', ?_⟩
      rw [e]; simp [hout', Array.getElem_push_lt hk]
    · intro k hik hk
      by_cases hki : k = i
      · subst hki
        obtain ⟨hk', e⟩ := ihp out.size (by rw [hout']; simp)
        refine ⟨by simpa using hk', ?_⟩
        simp only [Nat.sub_self, Nat.add_zero]
        rw [e]
        simp only [hout', Array.getElem_push_eq]
        show (st[i1], fixTrim st r.1 r.2) = _
        simp [h1, h2, hr2]
      · obtain ⟨hk', e⟩ := ihk k (by omega) hk
        have hidx : out'.size + (k - (r.1 + 1)) = out.size + (k - i) := by rw [hout']; simp; omega
        refine ⟨by rw [← hidx]; exact hk', ?_⟩
        simp only [← hidx]; exact e
  | case2 i out c i1 hi =>
    simp only [Bool.or_eq_false_iff, bne_eq_false_iff_eq] at hu
    have : st.size ≤ i := by omega
    refine ⟨by simp; omega, fun k hk => ⟨hk, rfl⟩, fun k hik hk => by omega⟩

theorem strictIncB_adj (a : Array Int) (h : strictIncB a = true) (i : Nat) (hi : i + 1 < a.size) :
    a[i] < a[i+1] := by
  unfold strictIncB at h
  simp only [List.all_eq_true, List.mem_range, decide_eq_true_eq] at h
  have := h i (by omega)
  rwa [getElem!_pos a i (by omega), getElem!_pos a (i+1) hi] at this

theorem strictIncB_lt (a : Array Int) (h : strictIncB a = true) (i d : Nat) (hj : i + d + 1 < a.size) :
    a[i] < a[i + d + 1] := by
  induction d with
  | zero => exact strictIncB_adj a h i hj
  | succ d ih =>
    have h1 := ih (by omega)
    have h2 := strictIncB_adj a h (i + d + 1) (by omega)
    have e : i + (d + 1) + 1 = i + d + 1 + 1 := by omega
    simp only [e]; omega

theorem strictIncB_sorted (a : Array Int) (h : strictIncB a = true) : Sorted a := by
  intro i j hi hj hij
  rcases Nat.lt_or_eq_of_le hij with hlt | heq
  · obtain ⟨d, rfl⟩ : ∃ d, j = i + d + 1 := ⟨j - i - 1, by omega⟩
    exact Int.le_of_lt (strictIncB_lt a h i d hj)
  · subst heq; exact Int.le_refl _

/-- **The constructor attaches metadata only to intervals it did not change.**  Whenever
`IntervalSet(start, end, metadata=rows)` keeps metadata, the result has exactly one interval per
input pair, interval k starts at `start[k]` and ends at `end[k]` (or 1 µs earlier when it touched its
successor), and carries `rows[k]`.  In every other case (unsorted starts or ends, dropped / merged /
empty epochs) the result carries no metadata at all. -/
theorem new_rows_faithful (st en : Array Int) (h : st.size = en.size) (rows : Option (Array Row)) (r : Array Row)
    (hk : (TISet.new st en h rows).rows = some r) :
    rows = some r ∧ (TISet.new st en h rows).iv.size = st.size ∧
    ∀ k, (hk : k < st.size) → ∃ hk' : k < (TISet.new st en h rows).iv.size,
      (TISet.new st en h rows).iv[k] = (st[k], fixTrim st k (en[k]'(h ▸ hk))) := by
  unfold TISet.new at hk ⊢
  simp only at hk ⊢
  split at hk
  · rename_i hc
    simp only [Bool.and_eq_true, Bool.not_eq_true'] at hc
    obtain ⟨⟨hs, he⟩, hu⟩ := hc
    have e1 := C12.sortArr_of_sorted st (strictIncB_sorted st hs)
    have e2 := C12.sortArr_of_sorted en (strictIncB_sorted en he)
    refine ⟨hk, ?_⟩
    have key := fixLoopW_unchanged (sortArr st) (sortArr en) (by rw [sortArr_size, sortArr_size, h]) 0 #[] false hu
    obtain ⟨ks, _, kk⟩ := key
    refine ⟨by rw [ks, sortArr_size]; simp, ?_⟩
    intro k hk
    obtain ⟨hk', e⟩ := kk k (Nat.zero_le _) (by rw [sortArr_size]; exact hk)
    simp only [Array.size_empty, Nat.zero_add, Nat.sub_zero] at hk' e
    refine ⟨hk', ?_⟩
    rw [e]
    simp only [e1, e2]
  · cases hk

theorem fixTrim_cases (st : Array Int) (k : Nat) (e : Int) : fixTrim st k e = e ∨ fixTrim st k e = e - 1000 := by
  unfold fixTrim; split
  · split <;> simp
  · simp

theorem gatherP_get (a : Array (Int × Int)) (ix : Array Nat) (j : Nat) (hj : j < ix.size) (hb : ix[j] < a.size) :
    (gatherP a ix)[j]'(by simpa [gatherP] using hj) = a[ix[j]] := by
  simp [gatherP, getElem!_pos a ix[j] hb]

/-- **Indexing keeps every row on its interval** (integer, slice, list, array, boolean mask — any
positions, in any order, with repetitions).  If the result carries metadata then result interval j
IS source interval `ix[j]` (same start, same end up to the 1 µs trim) and its row is that interval's
row; a key that reorders or repeats intervals yields no metadata instead. -/
theorem getIdx_rows (a b : TISet) (ix : Array Nat) (hg : a.getIdx ix = some b) (rb : Array Row)
    (hb : b.rows = some rb) :
    ∃ ra, a.rows = some ra ∧ rb = gatherR ra ix ∧ b.iv.size = ix.size ∧
      ∀ j, (hj : j < ix.size) → ∃ (h1 : j < b.iv.size) (h2 : ix[j] < a.iv.size),
        b.iv[j].1 = a.iv[ix[j]].1 ∧ (b.iv[j].2 = a.iv[ix[j]].2 ∨ b.iv[j].2 = a.iv[ix[j]].2 - 1000) := by
  unfold TISet.getIdx at hg
  split at hg
  · rename_i hall
    simp only [Option.some.injEq] at hg
    subst hg
    cases hra : a.rows with
    | none =>
      simp only [hra, Option.map_none] at hb
      have := (new_rows_faithful _ _ _ _ rb hb).1
      cases this
    | some ra =>
      simp only [hra, Option.map_some] at hb ⊢
      obtain ⟨h1, h2, h3⟩ := new_rows_faithful _ _ _ _ rb hb
      simp only [Option.some.injEq] at h1
      refine ⟨ra, rfl, h1.symm, by simpa [pairsSt, gatherP] using h2, ?_⟩
      intro j hj
      have hjb : ix[j] < a.iv.size := by
        have := Array.all_eq_true.mp hall j hj; simpa using this
      obtain ⟨hk', e⟩ := h3 j (by simpa [pairsSt, gatherP] using hj)
      refine ⟨hk', hjb, ?_⟩
      rw [e]
      have g := gatherP_get a.iv ix j hj hjb
      simp only [pairsSt, pairsEn, Array.getElem_map, g]
      refine ⟨trivial, ?_⟩
      exact fixTrim_cases _ _ _
  · cases hg

/-- union / merge_close_intervals / time_span results carry no metadata -/
theorem union_drops (a b : TISet) : (a.union b).rows = none := rfl

theorem pairsSt_get (p : Array (Int × Int)) (k : Nat) (h : k < (pairsSt p).size) :
    (pairsSt p)[k] = (p[k]'(by simpa [pairsSt] using h)).1 := by simp [pairsSt]
theorem pairsEn_get (p : Array (Int × Int)) (k : Nat) (h : k < (pairsEn p).size) :
    (pairsEn p)[k] = (p[k]'(by simpa [pairsEn] using h)).2 := by simp [pairsEn]

theorem intersect_eq (a b : TISet) (ra rb : Array Row) (ha : a.rows = some ra) (hb : b.rows = some rb)
    (hse : (jitintersect (pairsSt a.iv) (pairsEn a.iv) (pairsSt b.iv) (pairsEn b.iv) (pairs_size _) (pairs_size _)).st.size =
           (jitintersect (pairsSt a.iv) (pairsEn a.iv) (pairsSt b.iv) (pairsEn b.iv) (pairs_size _) (pairs_size _)).en.size) :
    a.intersect b = TISet.new _ _ hse (some ((jitintersect (pairsSt a.iv) (pairsEn a.iv) (pairsSt b.iv) (pairsEn b.iv)
        (pairs_size _) (pairs_size _)).par.map fun p => ra[p.1]! ++ rb[p.2]!)) := by
  unfold TISet.intersect
  simp only [ha, hb, Option.getD_some, dif_pos hse]

/-- **intersect: each result interval carries the rows of the two parents that contain it.**  If the
result keeps metadata, result interval k is `A[i] ∩ B[j]` (up to the 1 µs trim of its end) for the
parent pair `(i, j)` whose rows it carries. -/
theorem intersect_rows (a b : TISet) (ra rb : Array Row) (ha : a.rows = some ra) (hb : b.rows = some rb)
    (r : Array Row) (hr : (a.intersect b).rows = some r) :
    let o := jitintersect (pairsSt a.iv) (pairsEn a.iv) (pairsSt b.iv) (pairsEn b.iv) (pairs_size _) (pairs_size _)
    r.size = o.par.size ∧ (a.intersect b).iv.size = o.par.size ∧
    ∀ k, (hk : k < o.par.size) → ∃ (h0 : k < r.size) (h1 : k < (a.intersect b).iv.size)
        (hi : o.par[k].1 < a.iv.size) (hj : o.par[k].2 < b.iv.size),
      r[k] = ra[o.par[k].1]! ++ rb[o.par[k].2]! ∧
      (a.intersect b).iv[k].1 = max a.iv[o.par[k].1].1 b.iv[o.par[k].2].1 ∧
      ((a.intersect b).iv[k].2 = min a.iv[o.par[k].1].2 b.iv[o.par[k].2].2 ∨
       (a.intersect b).iv[k].2 = min a.iv[o.par[k].1].2 b.iv[o.par[k].2].2 - 1000) := by
  intro o
  have hent := C02.intersect_entries (pairsSt a.iv) (pairsEn a.iv) (pairsSt b.iv) (pairsEn b.iv) (pairs_size _) (pairs_size _)
  obtain ⟨hse, hsp, hall⟩ := hent
  rw [intersect_eq a b ra rb ha hb hse] at hr ⊢
  obtain ⟨h1, h2, h3⟩ := new_rows_faithful _ _ _ _ r hr
  simp only [Option.some.injEq] at h1
  refine ⟨by rw [← h1]; simp [o], by rw [h2]; exact hsp, ?_⟩
  intro k hk
  have hks : k < o.st.size := by rw [hsp]; exact hk
  obtain ⟨hk', e⟩ := h3 k hks
  obtain ⟨hi, hj, es, ee, _, _⟩ := hall k hks (hse ▸ hks) hk
  have hi' : o.par[k].1 < a.iv.size := Nat.lt_of_lt_of_eq hi (by simp [pairsSt])
  have hj' : o.par[k].2 < b.iv.size := Nat.lt_of_lt_of_eq hj (by simp [pairsSt])
  refine ⟨by rw [← h1]; simpa [o] using hk, hk', hi', hj', ?_, ?_, ?_⟩
  · simp [← h1, o]
  · rw [e]; simp only; rw [es, pairsSt_get, pairsSt_get]
  · rw [e]; simp only
    have := fixTrim_cases o.st k (o.en[k]'(hse ▸ hks))
    rw [ee, pairsEn_get, pairsEn_get] at this
    rw [ee, pairsEn_get, pairsEn_get]
    exact this

theorem diff_eq (a b : TISet) (ra : Array Row) (ha : a.rows = some ra)
    (hse : (jitdiff (pairsSt a.iv) (pairsEn a.iv) (pairsSt b.iv) (pairsEn b.iv) (pairs_size _) (pairs_size _)).st.size =
           (jitdiff (pairsSt a.iv) (pairsEn a.iv) (pairsSt b.iv) (pairsEn b.iv) (pairs_size _) (pairs_size _)).en.size) :
    a.diff b = TISet.new _ _ hse (some ((jitdiff (pairsSt a.iv) (pairsEn a.iv) (pairsSt b.iv) (pairsEn b.iv)
        (pairs_size _) (pairs_size _)).par.map (ra[·]!))) := by
  unfold TISet.diff
  simp only [ha, Option.getD_some, dif_pos hse]

/-- **set_diff: each remaining piece carries the row of the interval of A that contains it.**  For any
A with metadata and any B with non-decreasing ends (every IntervalSet): if the result keeps metadata,
result interval k lies inside `A[p]` for the parent `p` whose row it carries. -/
theorem diff_rows (a b : TISet) (ra : Array Row) (ha : a.rows = some ra) (hb : Sorted (pairsEn b.iv))
    (r : Array Row) (hr : (a.diff b).rows = some r) :
    let o := jitdiff (pairsSt a.iv) (pairsEn a.iv) (pairsSt b.iv) (pairsEn b.iv) (pairs_size _) (pairs_size _)
    r.size = o.par.size ∧ (a.diff b).iv.size = o.par.size ∧
    ∀ k, (hk : k < o.par.size) → ∃ (h0 : k < r.size) (h1 : k < (a.diff b).iv.size) (hp : o.par[k] < a.iv.size),
      r[k] = ra[o.par[k]]! ∧ a.iv[o.par[k]].1 ≤ (a.diff b).iv[k].1 ∧ (a.diff b).iv[k].2 ≤ a.iv[o.par[k]].2 := by
  intro o
  obtain ⟨hse, hsp, hall⟩ := C02.diff_entries (pairsSt a.iv) (pairsEn a.iv) (pairsSt b.iv) (pairsEn b.iv) (pairs_size _) (pairs_size _) hb
  rw [diff_eq a b ra ha hse] at hr ⊢
  obtain ⟨h1, h2, h3⟩ := new_rows_faithful _ _ _ _ r hr
  simp only [Option.some.injEq] at h1
  refine ⟨by rw [← h1]; simp [o], by rw [h2]; exact hsp, ?_⟩
  intro k hk
  have hks : k < o.st.size := by rw [hsp]; exact hk
  obtain ⟨hk', e⟩ := h3 k hks
  obtain ⟨hp, c1, c2⟩ := hall k hks (hse ▸ hks) hk
  have hp' : o.par[k] < a.iv.size := Nat.lt_of_lt_of_eq hp (by simp [pairsSt])
  refine ⟨by rw [← h1]; simpa [o] using hk, hk', hp', ?_, ?_, ?_⟩
  · simp [← h1, o]
  · rw [e]; simp only
    rw [pairsSt_get] at c1; exact c1
  · rw [e]; simp only
    rw [pairsEn_get] at c2
    have := fixTrim_le o.st k (o.en[k]'(hse ▸ hks))
    exact Int.le_trans this c2

/-! ## split: pieces carry the row of the interval that contains them -/

theorem splitPieces_inside (s e size : Int) (hsz : 0 < size) (fuel : Nat) (cur : Int) (acc : Array (Int × Int))
    (q : Int × Int) (hq : q ∈ splitPieces s e size fuel cur acc) :
    q ∈ acc ∨ (cur ≤ q.1 ∧ q.2 ≤ e) := by
  induction fuel generalizing cur acc with
  | zero =>
    have : splitPieces s e size 0 cur acc = acc := rfl
    rw [this] at hq; exact Or.inl hq
  | succ fuel ih =>
    have e1 : splitPieces s e size (fuel + 1) cur acc =
        if cur < e then
          splitPieces s e size fuel (cur + size)
            (if (if cur + size < e then cur + size else e) - cur ≥ size then
              acc.push (cur, (if cur + size < e then cur + size else e) - 1000) else acc)
        else acc := rfl
    rw [e1] at hq
    by_cases hlt : cur < e
    · rw [if_pos hlt] at hq
      rcases ih (cur + size) _ hq with h | h
      · by_cases hc : (if cur + size < e then cur + size else e) - cur ≥ size
        · rw [if_pos hc] at h
          simp only [Array.mem_push] at h
          rcases h with h | h
          · exact Or.inl h
          · right
            subst h
            simp only
            split <;> omega
        · rw [if_neg hc] at h; exact Or.inl h
      · exact Or.inr ⟨by omega, h.2⟩
    · rw [if_neg hlt] at hq; exact Or.inl hq

/-- the (piece, row) pairs `ep.split(size)` hands to the constructor -/
def splitParts (a : TISet) (size : Int) (ra : Array Row) : List ((Int × Int) × Row) :=
  (List.range a.iv.size).flatMap fun k =>
    if (a.iv[k]!).2 - (a.iv[k]!).1 > size then
      ((splitPieces (a.iv[k]!).1 (a.iv[k]!).2 size (((a.iv[k]!).2 - (a.iv[k]!).1) / size + 2).toNat (a.iv[k]!).1 #[]).toList.map
        fun q => (q, ra[k]!))
    else []

theorem split_eq (a : TISet) (size : Int) (hpos : 0 < size) (ra : Array Row) (ha : a.rows = some ra) :
    a.split size = TISet.new ((splitParts a size ra).map (·.1.1)).toArray ((splitParts a size ra).map (·.1.2)).toArray
      (by simp) (some ((splitParts a size ra).map (·.2)).toArray) := by
  unfold TISet.split
  have hs0 : ¬ size ≤ 0 := by omega
  simp only [hs0, if_false, ha, Option.getD_some]
  rw [dif_pos (by simp)]
  rfl

theorem splitParts_inside (a : TISet) (size : Int) (hpos : 0 < size) (ra : Array Row) :
    ∀ x ∈ splitParts a size ra, ∃ k, ∃ hk : k < a.iv.size, x.2 = ra[k]! ∧ a.iv[k].1 ≤ x.1.1 ∧ x.1.2 ≤ a.iv[k].2 := by
  intro x hx
  unfold splitParts at hx
  simp only [List.mem_flatMap, List.mem_range] at hx
  obtain ⟨k, hk, hx⟩ := hx
  split at hx
  · simp only [List.mem_map, Array.mem_toList_iff] at hx
    obtain ⟨q, hq, rfl⟩ := hx
    rcases splitPieces_inside _ _ size hpos _ _ _ q hq with h | h
    · simp at h
    · refine ⟨k, hk, rfl, ?_, ?_⟩
      · simpa [getElem!_pos a.iv k hk] using h.1
      · simpa [getElem!_pos a.iv k hk] using h.2
  · simp at hx

/-- **split: every piece carries the row of the interval that contains it.**  Whenever `ep.split(size)` keeps
metadata, each of its intervals lies inside an interval `k` of `ep` and carries row `k` -/
theorem split_rows (a : TISet) (size : Int) (hpos : 0 < size) (ra : Array Row) (ha : a.rows = some ra) (r : Array Row)
    (hr : (a.split size).rows = some r) :
    ∀ j, (hj : j < (a.split size).iv.size) → ∃ hj' : j < r.size, ∃ k, ∃ hk : k < a.iv.size,
      r[j] = ra[k]! ∧ a.iv[k].1 ≤ (a.split size).iv[j].1 ∧ (a.split size).iv[j].2 ≤ a.iv[k].2 := by
  rw [split_eq a size hpos ra ha] at hr ⊢
  obtain ⟨h1, h2, h3⟩ := new_rows_faithful _ _ _ _ r hr
  simp only [Option.some.injEq] at h1
  intro j hj
  have hjp : j < (splitParts a size ra).length := by rw [h2] at hj; simpa using hj
  obtain ⟨hj2, e⟩ := h3 j (by simpa using hjp)
  obtain ⟨k, hk, e1, e2, e3⟩ := splitParts_inside a size hpos ra _ (List.getElem_mem hjp)
  refine ⟨by rw [← h1]; simpa using hjp, k, hk, ?_, ?_, ?_⟩
  · simp [← h1, e1]
  · rw [e]; simpa using e2
  · rw [e]
    simp only
    have := fixTrim_le ((splitParts a size ra).map (·.1.1)).toArray j
      (((splitParts a size ra).map (·.1.2)).toArray[j]'(by simpa using hjp))
    have e4 : ((splitParts a size ra).map (·.1.2)).toArray[j]'(by simpa using hjp) = (splitParts a size ra)[j].1.2 := by simp
    omega


/-! ## label-indexed frames: `loc` follows labels, `iloc` follows positions, and they coincide on
the `0..n-1` index every IntervalSet has -/

theorem loc_sound (f : Frame) (ls : List Int) (g : Frame) (h : f.loc ls = some g) :
    g.map (·.1) = ls ∧ ∀ x ∈ g, f.find x.1 = some x.2 := by
  induction ls generalizing g with
  | nil => simp [Frame.loc] at h; subst h; simp
  | cons l rest ih =>
    simp only [Frame.loc] at h
    split at h
    · rename_i r g' hf hr
      simp only [Option.some.injEq] at h
      subst h
      obtain ⟨i1, i2⟩ := ih g' hr
      refine ⟨by simp [i1], ?_⟩
      intro x hx
      simp only [List.mem_cons] at hx
      rcases hx with rfl | hx
      · exact hf
      · exact i2 x hx
    · cases h

theorem iloc_sound (f : Frame) (ps : List Nat) (g : Frame) (h : f.iloc ps = some g) :
    g.length = ps.length ∧ ∀ i, (hi : i < ps.length) → g[i]? = f[ps[i]]? ∧ ps[i] < f.length := by
  induction ps generalizing g with
  | nil => simp [Frame.iloc] at h; subst h; simp
  | cons p rest ih =>
    simp only [Frame.iloc] at h
    split at h
    · rename_i x g' hf hr
      simp only [Option.some.injEq] at h
      subst h
      obtain ⟨i1, i2⟩ := ih g' hr
      refine ⟨by simp [i1], ?_⟩
      intro i hi
      cases i with
      | zero =>
        simp only [List.getElem_cons_zero, List.getElem?_cons_zero, hf, true_and]
        exact (List.getElem?_eq_some_iff.mp hf).1
      | succ i => simpa using i2 i (by simpa using hi)
    · cases h

theorem find_offset (f : Frame) (off : Int) (hl : ∀ i, (h : i < f.length) → f[i].1 = off + i) (p : Nat) :
    f.find (off + p) = f[p]?.map (·.2) := by
  induction f generalizing off p with
  | nil => simp [Frame.find]
  | cons x rest ih =>
    obtain ⟨l, r⟩ := x
    have h0 : l = off := by have := hl 0 (by simp); simpa using this
    simp only [Frame.find]
    cases p with
    | zero => simp [h0]
    | succ p =>
      have hne : ¬ l = off + ((p + 1 : Nat) : Int) := by omega
      simp only [hne, if_false, List.getElem?_cons_succ]
      have := ih (off + 1) (fun i h => by
        have := hl (i + 1) (by simpa using h)
        simp only [List.getElem_cons_succ] at this
        rw [this]; push_cast; omega) p
      rw [← this]; congr 1; push_cast; omega

/-- **`loc` and `iloc` agree on an index that is `0, 1, …, n-1`** — the invariant of every
IntervalSet's metadata (`reset_index(drop=True)` after every selection; index built as `arange` by the
constructor), which is what makes the code's mixture of `.loc[parent index]` (intersect, set_diff,
split) and `.iloc[key]` (indexing) address the same rows. -/
theorem loc_eq_iloc (f : Frame) (hl : ∀ i, (h : i < f.length) → f[i].1 = (i : Int)) (ps : List Nat) :
    (f.loc (ps.map fun (p : Nat) => (p : Int))).map (·.map (·.2)) = (f.iloc ps).map (·.map (·.2)) := by
  induction ps with
  | nil => simp [Frame.loc, Frame.iloc]
  | cons p rest ih =>
    simp only [Frame.loc, Frame.iloc, List.map_cons]
    have hf := find_offset f 0 (by simpa using hl) p
    simp only [Int.zero_add] at hf
    rw [hf]
    cases hx : f[p]? with
    | none => simp
    | some x =>
      simp only [Option.map_some]
      generalize f.loc (List.map (fun (p : Nat) => (p : Int)) rest) = A at ih ⊢
      generalize f.iloc rest = B at ih ⊢
      cases A <;> cases B <;> simp_all

theorem reset_index (f : Frame) : ∀ i, (h : i < f.reset.length) → f.reset[i].1 = (i : Int) := by
  intro i h; simp [Frame.reset]

theorem reset_rows (f : Frame) : f.reset.map (·.2) = f.map (·.2) := by
  apply List.ext_getElem <;> simp [Frame.reset]


/-! ### non-vacuity / the dropping cases -/
-- sorted input, touching neighbours: rows kept, end trimmed
example : TISet.new #[0, 5000] #[5000, 9000] rfl (some #[[1], [2]]) = ⟨#[(0, 4000), (5000, 9000)], some #[[1], [2]]⟩ := by
  decide +kernel
-- unsorted starts: sorted, metadata dropped
example : TISet.new #[5000, 0] #[9000, 3000] rfl (some #[[1], [2]]) = ⟨#[(0, 3000), (5000, 9000)], none⟩ := by
  decide +kernel
-- overlapping epochs merged: metadata dropped
example : TISet.new #[0, 2000] #[3000, 9000] rfl (some #[[1], [2]]) = ⟨#[(0, 9000)], none⟩ := by decide +kernel
-- reordering key: no metadata rather than swapped metadata
example : (TISet.getIdx ⟨#[(0, 1000), (2000, 3000), (5000, 6000)], some #[[10], [11], [12]]⟩ #[2, 0]).map (·.rows) = some none := by
  decide +kernel
example : (TISet.getIdx ⟨#[(0, 1000), (2000, 3000), (5000, 6000)], some #[[10], [11], [12]]⟩ #[0, 2]) =
    some ⟨#[(0, 1000), (5000, 6000)], some #[[10], [12]]⟩ := by decide +kernel
example : TISet.intersect ⟨#[(0, 4000), (6000, 9000)], some #[[1], [2]]⟩ ⟨#[(3000, 7000)], some #[[7]]⟩ =
    ⟨#[(3000, 4000), (6000, 7000)], some #[[1, 7], [2, 7]]⟩ := by decide +kernel
example : TISet.diff ⟨#[(0, 4000), (6000, 9000)], some #[[1], [2]]⟩ ⟨#[(3000, 7000)], none⟩ =
    ⟨#[(0, 3000), (7000, 9000)], some #[[1], [2]]⟩ := by decide +kernel
example : TISet.split ⟨#[(0, 2000), (10000, 25000)], some #[[1], [2]]⟩ 10000 =
    ⟨#[(10000, 19000)], some #[[2]]⟩ := by decide +kernel

end Pyn.C13

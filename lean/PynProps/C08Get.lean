import PynProps.C08
import PynProps.C11
import PynProps.C03
/-!
# C08, `x.get(start, end)` end to end

`PynProps/C08.lean: get_window` is about the slice `_get_slice` returns.  The method then indexes the object with that
slice, which goes through the constructor with the object's own support (`Series.step (.get a b)`).  For a well-formed
object (C04) nothing more is lost there: the result holds exactly the samples with `start ≤ t ≤ end`, in order, each
with its own row.  (The object's support must hold its samples: a one-instant series built without `time_support` has
the empty default support and loses everything here — open finding C08-one-instant-default-support.)
-/
namespace Pyn.C08
open Pyn Pyn.C01 Pyn.C04

theorem sliceIdx_pairwise (n : Nat) (a b : Int) : (sliceIdx n a b).Pairwise (· < ·) :=
  List.Pairwise.filter _ List.pairwise_lt_range

theorem sliceIdx_lt (n : Nat) (a b : Int) : ∀ k ∈ sliceIdx n a b, k < n := by
  intro k hk
  have := (List.mem_filter.mp hk).1
  simpa using this

/-- **x.get(start, end) returns exactly the samples with start ≤ t ≤ end**, in their order — the whole method, for every
well-formed series -/
theorem get_eq_filter (s : Series) (h : WF s) (a b : Int) (hab : a ≤ b) :
    (s.step (.get a b)).t.toList = s.t.toList.filter (fun t => decide (a ≤ t) && decide (t ≤ b)) := by
  obtain ⟨hs, hr, hc, hin⟩ := h
  simp only [Series.step]
  rw [getSlice_restrict_eq s.t a b hab]
  simp only
  have hpw := sliceIdx_pairwise s.t.size ((ssLeft s.t a 0 : Nat) : Int) ((ssRight s.t b 0 : Nat) : Int)
  have hlt := sliceIdx_lt s.t.size ((ssLeft s.t a 0 : Nat) : Int) ((ssRight s.t b 0 : Nat) : Int)
  have hsorted : Sorted (gatherI s.t (sliceIdx s.t.size ((ssLeft s.t a 0 : Nat) : Int) ((ssRight s.t b 0 : Nat) : Int)).toArray) :=
    gatherI_sorted _ _ hs (by simpa using hpw) (by intro k hk; exact hlt k (by simpa using hk))
  have hinside : ∀ i, (hi : i < (gatherI s.t (sliceIdx s.t.size ((ssLeft s.t a 0 : Nat) : Int) ((ssRight s.t b 0 : Nat) : Int)).toArray).size) →
      InIv (pairsSt s.sup) (pairsEn s.sup) (pairs_size s.sup)
        (gatherI s.t (sliceIdx s.t.size ((ssLeft s.t a 0 : Nat) : Int) ((ssRight s.t b 0 : Nat) : Int)).toArray)[i] := by
    intro i hi
    have hi' : i < (sliceIdx s.t.size ((ssLeft s.t a 0 : Nat) : Int) ((ssRight s.t b 0 : Nat) : Int)).length := by
      simpa [gatherI] using hi
    have hk := hlt _ (List.getElem_mem hi')
    have : (gatherI s.t (sliceIdx s.t.size ((ssLeft s.t a 0 : Nat) : Int) ((ssRight s.t b 0 : Nat) : Int)).toArray)[i] =
        s.t[(sliceIdx s.t.size ((ssLeft s.t a 0 : Nat) : Int) ((ssRight s.t b 0 : Nat) : Int))[i]] := by
      simp [gatherI, getElem!_pos, hk]
    rw [this]
    exact hin _ hk
  rw [C11.new_t_of_inside _ _ _ hsorted hc hinside]
  simp only [gatherI, List.map_toArray]
  -- positions in the slice = positions whose timestamp lies in the window
  have hfilt : sliceIdx s.t.size ((ssLeft s.t a 0 : Nat) : Int) ((ssRight s.t b 0 : Nat) : Int) =
      (List.range s.t.size).filter (fun k => (fun t => decide (a ≤ t) && decide (t ≤ b)) s.t[k]!) := by
    unfold sliceIdx
    apply List.filter_congr
    intro k hk
    have hk' : k < s.t.size := by simpa using hk
    have := ss_closed_window s.t a b hs k hk'
    simp only [getElem!_pos s.t k hk']
    rw [Bool.eq_iff_iff]
    simp only [decide_eq_true_eq, Bool.and_eq_true]
    constructor
    · intro hh; exact this.mp ⟨by omega, by omega⟩
    · intro hh; have := this.mpr hh; omega
  rw [hfilt]
  exact C03.gather_filter s.t (fun t => decide (a ≤ t) && decide (t ≤ b))

theorem new_some_sup (t : Array Int) (rows : Array Nat) (p : Array (Int × Int)) :
    (Series.new t rows (some p)).sup = p ∨ ((Series.new t rows (some p)).t.size = 0 ∧ (Series.new t rows (some p)).sup = #[]) := by
  unfold Series.new
  simp only
  split
  · right; simp
  · left; rfl

/-- **… on the unchanged time support** — unless no sample is selected from a series that had none to begin with (then the
result is the empty object, whose support is empty: the rule behind the open finding C08-get-empty-window-support is that an
EMPTY INDEX gives the empty support; the model has the same rule) -/
theorem get_support (s : Series) (a b : Int) (hab : a ≤ b) :
    (s.step (.get a b)).sup = s.sup ∨ ((s.step (.get a b)).t.size = 0 ∧ (s.step (.get a b)).sup = #[]) := by
  simp only [Series.step]
  rw [getSlice_restrict_eq s.t a b hab]
  exact new_some_sup _ _ _

example : ((⟨#[0, 1000, 2000, 3000], #[0, 1, 2, 3], #[(0, 3000)]⟩ : Series).step (.get 1000 2500)).t = #[1000, 2000] := by decide +kernel

end Pyn.C08

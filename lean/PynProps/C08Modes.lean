import PynProps.C08
/-!
# C08, `_get_slice(start, mode="before_t" / "after_t")` for a single instant
The internal mode `before_t` (used with `n_points` / by callers that want the sample preceding an instant) — index
arithmetic on `searchsorted(side="left")` with a `-1` correction and the clamp at the end of the array.  For
non-decreasing timestamps of ANY positive length and ANY `start`: the slice is empty exactly when every sample lies after
`start`; otherwise it is one position `i` holding a latest sample at or before `start`.
-/
namespace Pyn.C08
open Pyn

theorem get_before (t : Array Int) (hs : Sorted t) (hn : 0 < t.size) (s : Int) :
    ((∀ k, (hk : k < t.size) → s < t[k]) ∧ getSlice t 0 s none = .ok (0, 0)) ∨
    (∃ i : Nat, ∃ hi : i < t.size, getSlice t 0 s none = .ok ((i : Int), (i : Int) + 1) ∧ t[i] ≤ s ∧
      ∀ k, (hk : k < t.size) → t[k] ≤ s → t[k] ≤ t[i]) := by
  have hb := ssLeft_bounds t s 0 (Nat.zero_le _)
  obtain ⟨sp1, sp2⟩ := ssLeft_spec t s 0 hs
  rcases Nat.lt_or_ge (ssLeft t s 0) t.size with hlt | hge
  · have pj : pyGet t ((ssLeft t s 0 : Nat) : Int) = .ok t[ssLeft t s 0] := pyGet_nat t _ hlt
    have hne : ¬ (((ssLeft t s 0 : Nat) : Int) = (t.size : Int)) := by omega
    have hhi := sp2 (ssLeft t s 0) (Nat.le_refl _) hlt
    by_cases hv : t[ssLeft t s 0] > s
    · rcases Nat.eq_zero_or_pos (ssLeft t s 0) with h0 | hpos
      · -- every sample is after start: empty slice
        left
        refine ⟨fun k hk => ?_, ?_⟩
        · have := hs (ssLeft t s 0) k hlt hk (by omega); omega
        · unfold getSlice
          have hv' : s < t[0] := by simpa [h0] using hv
          have p0 : pyGet t 0 = .ok t[0] := by simpa using pyGet_nat t 0 hn
          have hne0 : ¬ ((0 : Int) = (t.size : Int)) := by omega
          simp [h0, hne0, p0, bind, Except.bind, pure, Except.pure, b2i, hv']
      · -- the sample just before the insertion point
        right
        have hj : ssLeft t s 0 - 1 < t.size := by omega
        have hlo := sp1 (ssLeft t s 0 - 1) (by omega) (by omega) hj
        refine ⟨ssLeft t s 0 - 1, hj, ?_, by omega, ?_⟩
        · unfold getSlice
          have e : ((ssLeft t s 0 - 1 : Nat) : Int) = ((ssLeft t s 0 : Nat) : Int) - 1 := by omega
          have hnn : ¬ (((ssLeft t s 0 : Nat) : Int) - 1 < 0) := by omega
          have hv' : s < t[ssLeft t s 0] := hv
          simp [hne, pj, bind, Except.bind, pure, Except.pure, b2i, hv', e, hnn]
        · intro k hk hks
          rcases Nat.lt_or_ge k (ssLeft t s 0) with h | h
          · exact hs k (ssLeft t s 0 - 1) hk hj (by omega)
          · have := hs (ssLeft t s 0) k hlt hk h; omega
    · -- a sample exactly at start: the first of them
      right
      refine ⟨ssLeft t s 0, hlt, ?_, by omega, fun k hk hks => by omega⟩
      unfold getSlice
      have hnn : ¬ (((ssLeft t s 0 : Nat) : Int) < 0) := by omega
      have hv' : ¬ (s < t[ssLeft t s 0]) := by omega
      simp [hne, pj, bind, Except.bind, pure, Except.pure, b2i, hv', hnn]
  · -- every sample is before start: the last one
    right
    have hsz : ssLeft t s 0 = t.size := by omega
    have hl : t.size - 1 < t.size := by omega
    have hlast := sp1 (t.size - 1) (by omega) (by omega) hl
    refine ⟨t.size - 1, hl, ?_, by omega, fun k hk _ => hs k (t.size - 1) hk hl (by omega)⟩
    unfold getSlice
    have e : ((t.size - 1 : Nat) : Int) = (t.size : Int) - 1 := by omega
    have pl : pyGet t ((t.size : Int) - 1) = .ok (t[t.size - 1]'hl) := by rw [← e]; exact pyGet_nat t _ hl
    have hnn : ¬ ((t.size : Int) - 1 < 0) := by omega
    have hv' : ¬ (s < t[t.size - 1]'hl) := by omega
    simp [hsz, pl, bind, Except.bind, pure, Except.pure, b2i, hv', e, hnn]

/-- **mode `after_t`, single instant** (exact characterisation, including the documented edge: when the earliest sample at or
after `start` is the LAST sample of the series — or there is none — the slice is the empty `(n-1, n-1)`): otherwise the slice
is the one position holding the earliest sample at or after `start` -/
theorem get_after (t : Array Int) (hs : Sorted t) (hn : 0 < t.size) (s : Int) :
    (∃ i : Nat, ∃ hi : i < t.size, i + 1 < t.size ∧ getSlice t 1 s none = .ok ((i : Int), (i : Int) + 1) ∧ s ≤ t[i] ∧
      ∀ k, (hk : k < t.size) → k < i → t[k] < s) ∨
    (getSlice t 1 s none = .ok ((t.size : Int) - 1, (t.size : Int) - 1) ∧ ∀ k, (hk : k < t.size) → k + 1 < t.size → t[k] < s) := by
  have hb := ssLeft_bounds t s 0 (Nat.zero_le _)
  obtain ⟨sp1, sp2⟩ := ssLeft_spec t s 0 hs
  rcases Nat.lt_or_ge (ssLeft t s 0 + 1) t.size with hlt | hge
  · left
    refine ⟨ssLeft t s 0, by omega, hlt, ?_, ?_, fun k hk hki => sp1 k (by omega) hki hk⟩
    · unfold getSlice
      have hne : ¬ (((ssLeft t s 0 : Nat) : Int) = (t.size : Int)) := by omega
      have hne2 : ¬ (((ssLeft t s 0 : Nat) : Int) = (t.size : Int) - 1) := by omega
      have hnn : ¬ (((ssLeft t s 0 : Nat) : Int) < 0) := by omega
      simp [hne, hne2, hnn, pure, Except.pure]
    · have := sp2 (ssLeft t s 0) (Nat.le_refl _) (by omega); omega
  · right
    refine ⟨?_, fun k hk hk1 => sp1 k (by omega) (by omega) hk⟩
    unfold getSlice
    rcases Nat.lt_or_ge (ssLeft t s 0) t.size with h | h
    · have e : ((ssLeft t s 0 : Nat) : Int) = (t.size : Int) - 1 := by omega
      have hne : ¬ ((t.size : Int) - 1 = (t.size : Int)) := by omega
      have hnn : ¬ ((t.size : Int) - 1 < 0) := by omega
      simp [e, hne, hnn, pure, Except.pure]
    · have e : ((ssLeft t s 0 : Nat) : Int) = (t.size : Int) := by omega
      have hnn : ¬ ((t.size : Int) - 1 < 0) := by omega
      simp [e, hnn, pure, Except.pure]

def sliceIs : Except SliceErr (Int × Int) → Int × Int → Bool
  | .ok p, q => p == q
  | _, _ => false

example : sliceIs (getSlice #[0, 1000, 1000, 3000] 0 1000 none) (1, 2) ∧ sliceIs (getSlice #[0, 1000, 1000, 3000] 0 2500 none) (2, 3)
    ∧ sliceIs (getSlice #[0, 1000, 1000, 3000] 0 (-5) none) (0, 0) ∧ sliceIs (getSlice #[0, 1000, 1000, 3000] 0 9000 none) (3, 4) := by
  decide +kernel

example : sliceIs (getSlice #[0, 1000, 1000, 3000] 1 500 none) (1, 2) ∧ sliceIs (getSlice #[0, 1000, 1000, 3000] 1 2500 none) (3, 3)
    ∧ sliceIs (getSlice #[0, 1000, 1000, 3000] 1 9000 none) (3, 3) := by
  decide +kernel

end Pyn.C08

import PynProps.C20
import PynProps.C03
import PynModel.Process.RandomizeGroup
/-!
# C20 on a TsGroup: the member-wise lifting

Every generator rebuilds the group from per-member timestamps (`Pyn.regroup`).  When the support is kept
(shift, resample, `jitter(keep_tsupport=True)`), the new group has the same keys, the same support, and under
each key exactly the new timestamps that lie in the support (`regroup_keep_member`); for shift that is all of
them (`shiftGroup_member`: count and support conserved member-wise).  When the support is recomputed (jitter,
shuffle) the new support is the union of the members' own supports, and a member whose new timestamps span no
duration has none: `regroup_lone_spike_witness` is the open finding C20-group-lone-spike.
-/
namespace Pyn.C20
open Pyn Pyn.C01

theorem lookup_mk (ms : List (Int × Array Int)) (k : Int) :
    lookupM k (ms.map fun m => (⟨m.1, Series.new m.2 (Array.range m.2.size) none⟩ : Member)) =
      (ms.find? (·.1 = k)).map fun m => Series.new m.2 (Array.range m.2.size) none := by
  induction ms with
  | nil => simp [lookupM]
  | cons m ms ih =>
    simp only [List.map_cons, lookupM, List.find?_cons]
    by_cases h : m.1 = k
    · simp [h]
    · simp [h, ih]

/-- **keys are preserved** (and come out in increasing order), whatever the generator and the draws -/
theorem regroup_keys (ms : List (Int × Array Int)) (sup) (g : Group) (h : regroup ms sup = .ok g) :
    g.keys.Pairwise (· < ·) ∧ ∀ k, k ∈ g.keys ↔ k ∈ ms.map (·.1) := by
  have := C12.new_keys _ sup false g h
  refine ⟨this.1, fun k => ?_⟩
  rw [this.2 k]
  simp

/-- **support kept**: the rebuilt group has the support it was given … -/
theorem regroup_keep_support (ms : List (Int × Array Int)) (p : Array (Int × Int)) (g : Group)
    (h : regroup ms (some p) = .ok g) : g.sup = p := C12.new_support_given _ p false g h

/-- … and under each key exactly the new timestamps of that member that lie in the support, in order -/
theorem regroup_keep_member (ms : List (Int × Array Int)) (p : Array (Int × Int)) (hp : CanonicalPairs p) (g : Group)
    (h : regroup ms (some p) = .ok g) (k : Int) (m : Int × Array Int) (hm : ms.find? (·.1 = k) = some m) :
    ∃ s, lookupM k g.ms = some s ∧ s.t.toList = (sortArr m.2).toList.filter (inIvB (pairsSt p) (pairsEn p)) := by
  have h1 := C12.new_member _ (some p) false g h k
  rw [lookup_mk, hm] at h1
  simp only [Option.map_some, Bool.false_eq_true, if_false] at h1
  refine ⟨_, h1, ?_⟩
  rw [regroup_keep_support ms p g h]
  rw [← C03.new_support_eq_restrict _ _ p hp, C03.new_some_t]
  exact C03.restrictT_eq _ _ _ _ (sortArr_sorted _) (C04.canon_of_canonicalPairs p hp)

theorem inIvB_single (a b x : Int) : inIvB (pairsSt #[(a, b)]) (pairsEn #[(a, b)]) x = (decide (a ≤ x) && decide (x ≤ b)) := by
  simp [inIvB, pairsSt, pairsEn]

theorem single_canonical (a b : Int) (hab : a < b) : CanonicalPairs #[(a, b)] :=
  ⟨fun q hq => by simp at hq; subst hq; exact hab, by simp⟩

theorem find_zipWith_shift (ms : List (Int × Array Int)) (a b : Int) (shifts : List Int) (k : Int) (m : Int × Array Int)
    (hm : (List.zipWith (fun m s => (m.1, shiftTs m.2 a b s)) ms shifts).find? (·.1 = k) = some m) :
    ∃ m0 ∈ ms, ∃ s, m0.1 = k ∧ m = (k, shiftTs m0.2 a b s) := by
  induction ms generalizing shifts with
  | nil => simp at hm
  | cons x xs ih =>
    cases shifts with
    | nil => simp at hm
    | cons s ss =>
      simp only [List.zipWith_cons_cons, List.find?_cons] at hm
      by_cases hx : x.1 = k
      · simp only [hx, decide_true] at hm
        cases hm
        exact ⟨x, by simp, s, hx, rfl⟩
      · simp only [hx, decide_false] at hm
        obtain ⟨m0, h0, r⟩ := ih ss hm
        exact ⟨m0, List.mem_cons_of_mem _ h0, r⟩

/-- **shift_timestamps on a TsGroup conserves every member**: under each key the group holds exactly the shifted
timestamps of that member — as many as it was given, all inside the kept support `[a, b]` -/
theorem shiftGroup_member (ms : List (Int × Array Int)) (a b : Int) (hab : a < b) (shifts : List Int) (g : Group)
    (h : shiftGroup ms a b shifts = .ok g) (k : Int) (m : Int × Array Int)
    (hm : (List.zipWith (fun m s => (m.1, shiftTs m.2 a b s)) ms shifts).find? (·.1 = k) = some m) :
    g.sup = #[(a, b)] ∧ ∃ m0 ∈ ms, ∃ sh, m0.1 = k ∧ ∃ s, lookupM k g.ms = some s ∧ s.t = shiftTs m0.2 a b sh ∧
      s.t.size = m0.2.size := by
  unfold shiftGroup at h
  refine ⟨regroup_keep_support _ _ g h, ?_⟩
  obtain ⟨m0, h0, sh, hk, e⟩ := find_zipWith_shift ms a b shifts k m hm
  obtain ⟨s, hs, ht⟩ := regroup_keep_member _ _ (single_canonical a b hab) g h k m hm
  have ht' : s.t = shiftTs m0.2 a b sh := by
    apply Array.ext'
    rw [ht, e]
    simp only
    have hsorted : sortArr (shiftTs m0.2 a b sh) = shiftTs m0.2 a b sh :=
      C12.sortArr_of_sorted _ (by unfold shiftTs; exact sortArr_sorted _)
    rw [hsorted]
    apply List.filter_eq_self.mpr
    intro x hx
    have := shift_all_inside m0.2 a b sh hab x (Array.mem_def.mpr hx)
    rw [inIvB_single]; simp [this.1, this.2]
  exact ⟨m0, h0, sh, hk, s, hs, ht', by rw [ht', shift_count]⟩

/-- **resample_timestamps conserves the count and keeps the support**: the new timestamps are uniform draws
from the support `[a, b]` handed to `nap.Ts(t=draws, time_support=[a, b])`; whatever is drawn inside `[a, b]` is
kept — all of it, sorted — and the support is the one given -/
theorem resample_conserves (draws : Array Int) (rows : Array Nat) (a b : Int) (hab : a < b)
    (hin : ∀ x ∈ draws, a ≤ x ∧ x ≤ b) (hne : 0 < draws.size) :
    (Series.new draws rows (some #[(a, b)])).t = sortArr draws ∧
    (Series.new draws rows (some #[(a, b)])).t.size = draws.size ∧
    (Series.new draws rows (some #[(a, b)])).sup = #[(a, b)] := by
  have ht : (Series.new draws rows (some #[(a, b)])).t = sortArr draws := by
    apply Array.ext'
    rw [C03.new_some_t, C03.restrictT_eq _ _ _ _ (sortArr_sorted _) (C04.canon_of_canonicalPairs _ (single_canonical a b hab))]
    apply List.filter_eq_self.mpr
    intro x hx
    have hx' : x ∈ draws := by
      have : x ∈ isort draws.toList := by simpa [sortArr] using hx
      rw [mem_isort] at this
      exact Array.mem_def.mpr this
    have := hin x hx'
    rw [inIvB_single]; simp [this.1, this.2]
  refine ⟨ht, by rw [ht, sortArr_size], ?_⟩
  unfold Series.new
  have : ¬ (sortArr draws).size = 0 := by rw [sortArr_size]; omega
  simp [this]

/-- open finding C20-group-lone-spike: when the support is recomputed (jitter, shuffle), a member whose new
timestamps span no duration contributes nothing to the union of supports; its spike is dropped by the
restriction unless it happens to lie inside another member's span -/
theorem regroup_lone_spike_witness :
    ((regroup [(7, #[1000, 2000, 4000]), (9, #[5000])] none).map (fun g => g.ms.map fun m => (m.key, m.s.t))).toOption =
      some [(7, #[1000, 2000, 4000]), (9, #[])] := by decide +kernel

/-- the same member keeps its spike when the group support is kept -/
example : ((regroup [(7, #[1000, 2000, 4000]), (9, #[5000])] (some #[(0, 10000)])).map
    (fun g => g.ms.map fun m => (m.key, m.s.t))).toOption = some [(7, #[1000, 2000, 4000]), (9, #[5000])] := by decide +kernel

-- members without spikes keep their key
example : ((shuffleGroup [(4, #[]), (7, #[1000, 2000, 4000])] [[], [1, 0]]).map
    (fun g => g.ms.map fun m => (m.key, m.s.t))).toOption = some [(4, #[]), (7, #[1000, 3000, 4000])] := by decide +kernel

end Pyn.C20

import PynProofs.Restrict
/-!
# C03 — restrict keeps exactly the samples inside the closed intervals, rows intact

> x.restrict(ep) returns exactly the samples whose timestamp t satisfies start <= t <= end for some
> interval of ep, in their original order, each with its own data row …

Model: `Pyn.jitrestrict` (index-level transliteration of `jitrestrict`, one function per loop).
The kernel returns the *index vector* `ix`; `_Base.restrict` takes `time_array[ix]` and
`values[ix]` with that same vector, so "each with its own data row" is the statement that one
vector is used for both (checked by the correspondence run on tagged rows).
-/
namespace Pyn.C03
open Pyn

/-- **Selection.** For non-decreasing timestamps and a canonical interval set, of any sizes
(including empty series, empty set, epochs entirely before/after/between the samples, duplicate
timestamps, samples on interval ends): index `i` is returned iff sample `i` lies in some closed
interval. -/
theorem restrict_selects (ts st en : Array Int) (hm : st.size = en.size)
    (hs : Sorted ts) (hc : Canon st en hm) (i : Nat) :
    i ∈ jitrestrict ts st en hm ↔ ∃ hi : i < ts.size, ∃ k, ∃ hk : k < st.size,
      st[k] ≤ ts[i] ∧ ts[i] ≤ en[k]'(hm ▸ hk) :=
  jitrestrict_mem ts st en hm hs hc i

/-- **Order.** The returned indices are strictly increasing (original order, no sample twice),
with no hypothesis at all on the inputs. -/
theorem restrict_ordered (ts st en : Array Int) (hm : st.size = en.size) :
    (jitrestrict ts st en hm).toList.Pairwise (· < ·) :=
  (jitrestrict_inc ts st en hm).1

/-- **Bounds (also C15).** Every returned index addresses the series, and at most `n` indices are
written into the preallocated `ix = np.zeros(n)`; no hypothesis on the inputs.  (All *reads* of the
model are `a[i]'h` reads: their in-bounds proofs are checked when the definition is elaborated.) -/
theorem restrict_in_bounds (ts st en : Array Int) (hm : st.size = en.size) :
    (∀ a ∈ jitrestrict ts st en hm, a < ts.size) ∧ (jitrestrict ts st en hm).size ≤ ts.size :=
  ⟨(jitrestrict_inc ts st en hm).2, jitrestrict_size_le ts st en hm⟩

/-! ## the with-count kernel (behind count, bin_average, value_from, perievent) selects the same samples -/

theorem insideC_proj (ts : Array Int) (e : Int) (k t : Nat) (acc cnt : Array Nat) :
    (insideC ts e k t acc cnt).1 = (inside ts e t acc).1 ∧
    (insideC ts e k t acc cnt).2.1 = (inside ts e t acc).2.1 ∧
    (insideC ts e k t acc cnt).2.2.1 = (inside ts e t acc).2.2 := by
  fun_induction insideC ts e k t acc cnt with
  | case1 t acc cnt h hgt => unfold inside; simp [h, hgt]
  | case2 t acc cnt h hle ih =>
    unfold inside
    simp only [dif_pos h, hle, if_false]
    exact ih
  | case3 t acc cnt h => unfold inside; simp [h]

theorem outerC_proj (ts st en : Array Int) (hm : st.size = en.size) (k t : Nat) (acc cnt : Array Nat) :
    (outerC ts st en hm k t acc cnt).1 = outer ts st en hm k t acc := by
  fun_induction outerC ts st en hm k t acc cnt with
  | case1 k t acc cnt hk t1 r htrue ih =>
    obtain ⟨p1, p2, p3⟩ := insideC_proj ts (en[k]'(hm ▸ hk)) k t1 acc cnt
    unfold outer
    simp only [dif_pos hk]
    have h2 : (inside ts (en[k]'(hm ▸ hk)) (outside ts st[k] t) acc).2.1 = true := by rw [← p2]; exact htrue
    simp only [h2, if_true]
    rw [ih, ← p1, ← p3]
  | case2 k t acc cnt hk t1 r hfalse =>
    obtain ⟨p1, p2, p3⟩ := insideC_proj ts (en[k]'(hm ▸ hk)) k t1 acc cnt
    unfold outer
    simp only [dif_pos hk]
    have h2 : ¬ (inside ts (en[k]'(hm ▸ hk)) (outside ts st[k] t) acc).2.1 = true := by rw [← p2]; exact hfalse
    simp only [h2, if_false]
    exact p3
  | case3 k t acc cnt hk => unfold outer; simp [hk]

/-- **`jitrestrict_with_count` selects exactly what `jitrestrict` selects** (same index vector, for
ANY input): every statement about `restrict` — selection, order, bounds — holds for the kernel behind
`count`, `bin_average`, `value_from` and the peri-event functions as well -/
theorem restrictCount_selects_like_restrict (ts st en : Array Int) (hm : st.size = en.size) :
    (jitrestrictCount ts st en hm).1 = jitrestrict ts st en hm := by
  unfold jitrestrictCount jitrestrict
  exact outerC_proj ts st en hm _ 0 #[] _


/-- non-vacuity: a concrete series and a concrete canonical set meet the hypotheses, and the
kernel keeps samples on both interval ends, drops the one between the epochs -/
example : jitrestrict #[0, 1, 1, 2, 5, 6, 10] #[1, 6] #[2, 9] rfl = #[1, 2, 3, 5] := by decide +kernel
example : Canon #[1, 6] #[2, 9] rfl := by
  refine ⟨fun k h => ?_, fun k h => ?_⟩
  · have : k = 0 ∨ k = 1 := by simp at h; omega
    rcases this with rfl | rfl <;> simp
  · have : k = 0 := by simp at h; omega
    subst this; simp
/-- degenerate sizes that used to read out of bounds (before `fix:` f3511d6) -/
example : jitrestrict #[10] #[0] #[1] rfl = #[] := by decide +kernel
example : jitrestrict #[] #[0] #[1] rfl = #[] := by decide +kernel
example : jitrestrict #[1] #[] #[] rfl = #[] := by decide +kernel

end Pyn.C03

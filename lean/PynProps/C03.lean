import PynProofs.Restrict
import PynModel.Core.Series
import PynProps.C02
import PynProps.C04
import PynProps.C12
/-!
# C03 — restrict keeps exactly the samples inside the closed intervals, rows intact

> x.restrict(ep) returns exactly the samples whose timestamp t satisfies start <= t <= end for some
> interval of ep, in their original order, each with its own data row …

Model: `Pyn.jitrestrict` (index-level transliteration of `jitrestrict`, one function per loop).
The kernel returns the *index vector* `ix`; `_Base.restrict` takes `time_array[ix]` and
`values[ix]` with that same vector, so "each with its own data row" is the statement that one
vector is used for both (checked by the correspondence run on tagged rows).

Second half of the file — the clauses about VALUES: `restrict_eq_filter` (the index vector is the filter of
`0..n-1` by "lies in a closed interval"), `restrictT_eq` (restricted timestamps = original timestamps filtered,
same order and multiplicity), `restrict_idem`, `restrict_then`, `restrict_comp` (restricting by a then b = by
a.intersect(b) for samples farther than 1 µs from every endpoint; uses C02's end-to-end intersect theorem) and
`new_support_eq_restrict` (constructing with `time_support = ep` = constructing without, then restricting).
-/
namespace Pyn.C03
open Pyn

/-- **Selection.** For non-decreasing timestamps and a canonical interval set, of any sizes
(including empty series, empty set, epochs entirely before/after/between the samples, duplicate
timestamps, samples on interval ends): index `i` is returned iff sample `i` lies in some closed
interval. -/
theorem restrict_selects (ts st en : Array Int) (hm : st.size = en.size)
    (hs : Sorted ts) (hc : Canon st en hm) (i : Nat) :
    i ∈ jitrestrict ts st en hm ↔ ∃ hi : i < ts.size, ∃ k, ∃ hk : k < st.size,
      st[k] ≤ ts[i] ∧ ts[i] ≤ en[k]'(hm ▸ hk) :=
  jitrestrict_mem ts st en hm hs hc i

/-- **Order.** The returned indices are strictly increasing (original order, no sample twice),
with no hypothesis at all on the inputs. -/
theorem restrict_ordered (ts st en : Array Int) (hm : st.size = en.size) :
    (jitrestrict ts st en hm).toList.Pairwise (· < ·) :=
  (jitrestrict_inc ts st en hm).1

/-- **Bounds (also C15).** Every returned index addresses the series, and at most `n` indices are
written into the preallocated `ix = np.zeros(n)`; no hypothesis on the inputs.  (All *reads* of the
model are `a[i]'h` reads: their in-bounds proofs are checked when the definition is elaborated.) -/
theorem restrict_in_bounds (ts st en : Array Int) (hm : st.size = en.size) :
    (∀ a ∈ jitrestrict ts st en hm, a < ts.size) ∧ (jitrestrict ts st en hm).size ≤ ts.size :=
  ⟨(jitrestrict_inc ts st en hm).2, jitrestrict_size_le ts st en hm⟩

/-! ## the with-count kernel (behind count, bin_average, value_from, perievent) selects the same samples -/

theorem insideC_proj (ts : Array Int) (e : Int) (k t : Nat) (acc cnt : Array Nat) :
    (insideC ts e k t acc cnt).1 = (inside ts e t acc).1 ∧
    (insideC ts e k t acc cnt).2.1 = (inside ts e t acc).2.1 ∧
    (insideC ts e k t acc cnt).2.2.1 = (inside ts e t acc).2.2 := by
  fun_induction insideC ts e k t acc cnt with
  | case1 t acc cnt h hgt => unfold inside; simp [h, hgt]
  | case2 t acc cnt h hle ih =>
    unfold inside
    simp only [dif_pos h, hle, if_false]
    exact ih
  | case3 t acc cnt h => unfold inside; simp [h]

theorem outerC_proj (ts st en : Array Int) (hm : st.size = en.size) (k t : Nat) (acc cnt : Array Nat) :
    (outerC ts st en hm k t acc cnt).1 = outer ts st en hm k t acc := by
  fun_induction outerC ts st en hm k t acc cnt with
  | case1 k t acc cnt hk t1 r htrue ih =>
    obtain ⟨p1, p2, p3⟩ := insideC_proj ts (en[k]'(hm ▸ hk)) k t1 acc cnt
    unfold outer
    simp only [dif_pos hk]
    have h2 : (inside ts (en[k]'(hm ▸ hk)) (outside ts st[k] t) acc).2.1 = true := by rw [← p2]; exact htrue
    simp only [h2, if_true]
    rw [ih, ← p1, ← p3]
  | case2 k t acc cnt hk t1 r hfalse =>
    obtain ⟨p1, p2, p3⟩ := insideC_proj ts (en[k]'(hm ▸ hk)) k t1 acc cnt
    unfold outer
    simp only [dif_pos hk]
    have h2 : ¬ (inside ts (en[k]'(hm ▸ hk)) (outside ts st[k] t) acc).2.1 = true := by rw [← p2]; exact hfalse
    simp only [h2, if_false]
    exact p3
  | case3 k t acc cnt hk => unfold outer; simp [hk]

/-- **`jitrestrict_with_count` selects exactly what `jitrestrict` selects** (same index vector, for
ANY input): every statement about `restrict` — selection, order, bounds — holds for the kernel behind
`count`, `bin_average`, `value_from` and the peri-event functions as well -/
theorem restrictCount_selects_like_restrict (ts st en : Array Int) (hm : st.size = en.size) :
    (jitrestrictCount ts st en hm).1 = jitrestrict ts st en hm := by
  unfold jitrestrictCount jitrestrict
  exact outerC_proj ts st en hm _ 0 #[] _


/-- non-vacuity: a concrete series and a concrete canonical set meet the hypotheses, and the
kernel keeps samples on both interval ends, drops the one between the epochs -/
example : jitrestrict #[0, 1, 1, 2, 5, 6, 10] #[1, 6] #[2, 9] rfl = #[1, 2, 3, 5] := by decide +kernel
example : Canon #[1, 6] #[2, 9] rfl := by
  refine ⟨fun k h => ?_, fun k h => ?_⟩
  · have : k = 0 ∨ k = 1 := by simp at h; omega
    rcases this with rfl | rfl <;> simp
  · have : k = 0 := by simp at h; omega
    subst this; simp
/-- degenerate sizes that used to read out of bounds (before `fix:` f3511d6) -/
example : jitrestrict #[10] #[0] #[1] rfl = #[] := by decide +kernel
example : jitrestrict #[] #[0] #[1] rfl = #[] := by decide +kernel
example : jitrestrict #[1] #[] #[] rfl = #[] := by decide +kernel


/-! ## values: restrict is the filter; idempotence, composition, constructor -/

/-- two strictly increasing lists with the same elements are equal -/
theorem eq_of_sorted_of_mem (l1 l2 : List Nat) (h1 : l1.Pairwise (· < ·)) (h2 : l2.Pairwise (· < ·))
    (hm : ∀ a, a ∈ l1 ↔ a ∈ l2) : l1 = l2 := by
  induction l1 generalizing l2 with
  | nil =>
    cases l2 with
    | nil => rfl
    | cons b t => exact absurd ((hm b).2 (List.mem_cons_self ..)) (by simp)
  | cons a t ih =>
    cases l2 with
    | nil => exact absurd ((hm a).1 (List.mem_cons_self ..)) (by simp)
    | cons b u =>
      rw [List.pairwise_cons] at h1 h2
      have hab : a = b := by
        have ha := (hm a).1 (List.mem_cons_self ..)
        have hb := (hm b).2 (List.mem_cons_self ..)
        rcases List.mem_cons.1 ha with e | e
        · exact e
        · rcases List.mem_cons.1 hb with e' | e'
          · exact e'.symm
          · have := h2.1 a e; have := h1.1 b e'; omega
      subst hab
      congr 1
      apply ih u h1.2 h2.2
      intro c
      constructor
      · intro hc
        have := (hm c).1 (List.mem_cons_of_mem _ hc)
        rcases List.mem_cons.1 this with e | e
        · subst e; have := h1.1 c hc; omega
        · exact e
      · intro hc
        have := (hm c).2 (List.mem_cons_of_mem _ hc)
        rcases List.mem_cons.1 this with e | e
        · subst e; have := h2.1 c hc; omega
        · exact e

theorem inIvB_iff (st en : Array Int) (hm : st.size = en.size) (x : Int) : inIvB st en x = true ↔ InIv st en hm x := by
  unfold inIvB InIv
  simp only [List.any_eq_true, List.mem_range, Bool.and_eq_true, decide_eq_true_eq]
  constructor
  · rintro ⟨k, hk, a, b⟩
    refine ⟨k, hk, ?_, ?_⟩
    · simpa [hk] using a
    · have : k < en.size := by omega
      simpa [this] using b
  · rintro ⟨k, hk, a, b⟩
    refine ⟨k, hk, ?_, ?_⟩
    · simpa [hk] using a
    · have : k < en.size := by omega
      simpa [this] using b

/-- **restrict is the filter**: for non-decreasing timestamps and a canonical set, the indices returned are exactly
the positions of the samples lying in a closed interval, in increasing order, each once -/
theorem restrict_eq_filter (ts st en : Array Int) (hm : st.size = en.size) (hs : Sorted ts) (hc : Canon st en hm) :
    (jitrestrict ts st en hm).toList = (List.range ts.size).filter (fun i => inIvB st en ts[i]!) := by
  apply eq_of_sorted_of_mem
  · exact restrict_ordered ts st en hm
  · exact List.Pairwise.filter _ (List.pairwise_lt_range)
  · intro i
    rw [List.mem_filter, List.mem_range, inIvB_iff st en hm, ← Array.mem_def, restrict_selects ts st en hm hs hc i]
    constructor
    · rintro ⟨hi, k, hk, a, b⟩
      refine ⟨hi, k, hk, ?_, ?_⟩ <;> simpa [hi] using ‹_›
    · rintro ⟨hi, k, hk, a, b⟩
      refine ⟨hi, k, hk, ?_, ?_⟩
      · simpa [hi] using a
      · simpa [hi] using b

theorem toList_eq_range_map (ts : Array Int) : ts.toList = (List.range ts.size).map (ts[·]!) := by
  apply List.ext_getElem
  · simp
  · intro i h1 h2
    simp at h1 h2 ⊢
    simp [h1]

theorem gather_filter (ts : Array Int) (p : Int → Bool) :
    ((List.range ts.size).filter (fun i => p ts[i]!)).map (ts[·]!) = ts.toList.filter p := by
  conv => rhs; rw [toList_eq_range_map ts, List.filter_map]
  rfl

/-- timestamps of `x.restrict(ep)` at the kernel level -/
def restrictT (ts st en : Array Int) (hm : st.size = en.size) : Array Int := gatherI ts (jitrestrict ts st en hm)

/-- **C03, first clause, as an equation**: the restricted timestamps are the original timestamps filtered by
"lies in a closed interval of ep" — same order, same multiplicity (duplicates kept or dropped together) -/
theorem restrictT_eq (ts st en : Array Int) (hm : st.size = en.size) (hs : Sorted ts) (hc : Canon st en hm) :
    (restrictT ts st en hm).toList = ts.toList.filter (inIvB st en) := by
  unfold restrictT gatherI
  rw [Array.toList_map, restrict_eq_filter ts st en hm hs hc, gather_filter]

/-- each kept sample keeps its own data row: timestamps and rows are gathered with the same index array -/
theorem restrict_rows_paired (ts : Array Int) (rows : Array Nat) (ix : Array Nat) (k : Nat) (hk : k < ix.size) :
    (gatherI ts ix)[k]'(by simpa [gatherI] using hk) = ts[ix[k]]! ∧
    (gatherN rows ix)[k]'(by simpa [gatherN] using hk) = rows[ix[k]]! := by
  simp [gatherI, gatherN]

theorem sorted_iff_pairwise (ts : Array Int) : Sorted ts ↔ ts.toList.Pairwise (· ≤ ·) := by
  constructor
  · intro h
    rw [List.pairwise_iff_getElem]
    intro i j hi hj hij
    simpa using h i j (by simpa using hi) (by simpa using hj) (Nat.le_of_lt hij)
  · intro h i j hi hj hij
    rcases Nat.eq_or_lt_of_le hij with e | e
    · subst e; exact Int.le_refl _
    · have := (List.pairwise_iff_getElem.1 h) i j (by simpa using hi) (by simpa using hj) e
      simpa using this

theorem restrictT_sorted (ts st en : Array Int) (hm : st.size = en.size) (hs : Sorted ts) (hc : Canon st en hm) :
    Sorted (restrictT ts st en hm) := by
  rw [sorted_iff_pairwise, restrictT_eq ts st en hm hs hc]
  exact List.Pairwise.filter _ ((sorted_iff_pairwise ts).1 hs)

/-- **restricting again by the same set changes nothing** -/
theorem restrict_idem (ts st en : Array Int) (hm : st.size = en.size) (hs : Sorted ts) (hc : Canon st en hm) :
    restrictT (restrictT ts st en hm) st en hm = restrictT ts st en hm := by
  apply Array.ext'
  rw [restrictT_eq _ st en hm (restrictT_sorted ts st en hm hs hc) hc, restrictT_eq ts st en hm hs hc,
    List.filter_filter]
  congr 1; funext x; simp

/-- **restricting by a then by b** keeps exactly the samples lying in both -/
theorem restrict_then (ts s1 e1 s2 e2 : Array Int) (h1 : s1.size = e1.size) (h2 : s2.size = e2.size) (hs : Sorted ts)
    (hcA : Canon s1 e1 h1) (hcB : Canon s2 e2 h2) :
    (restrictT (restrictT ts s1 e1 h1) s2 e2 h2).toList = ts.toList.filter (fun x => inIvB s1 e1 x && inIvB s2 e2 x) := by
  rw [restrictT_eq _ s2 e2 h2 (restrictT_sorted ts s1 e1 h1 hs hcA) hcB, restrictT_eq ts s1 e1 h1 hs hcA,
    List.filter_filter]
  congr 1; funext x; exact Bool.and_comm _ _

/-- **restricting by a then by b selects the same samples as restricting by a.intersect(b)** — for series whose
samples are farther than 1 µs from every endpoint of a and b (the C03 side condition) -/
theorem restrict_comp (ts : Array Int) (a b : Array (Int × Int)) (hs : Sorted ts)
    (hca : C01.CanonicalPairs a) (hcb : C01.CanonicalPairs b)
    (hfar : ∀ x ∈ ts.toList, C02.FarEnds (pairsSt a) (pairsEn a) (pairsSt b) (pairsEn b) x) :
    (restrictT (restrictT ts (pairsSt a) (pairsEn a) (pairs_size a)) (pairsSt b) (pairsEn b) (pairs_size b)).toList =
    (restrictT ts (pairsSt (ISet.intersect a b)) (pairsEn (ISet.intersect a b)) (pairs_size _)).toList := by
  have ca := C04.canon_of_canonicalPairs a hca
  have cb := C04.canon_of_canonicalPairs b hcb
  have ci := C04.canon_of_canonicalPairs _ (C01.intersect_canonical a b)
  rw [restrict_then ts _ _ _ _ _ _ hs ca cb, restrictT_eq ts _ _ _ hs ci]
  apply List.filter_congr
  intro x hx
  have key := C02.ISet_intersect_pointwise a b ca cb x (hfar x hx)
  rw [← C02.inIv_pairs, ← C02.inIv_pairs a, ← C02.inIv_pairs b, ← inIvB_iff, ← inIvB_iff, ← inIvB_iff] at key
  cases h1 : inIvB (pairsSt a) (pairsEn a) x <;> cases h2 : inIvB (pairsSt b) (pairsEn b) x <;>
    cases h3 : inIvB (pairsSt (ISet.intersect a b)) (pairsEn (ISet.intersect a b)) x <;> simp_all

/-- timestamps of the series constructor given `time_support = p` -/
theorem new_some_t (t : Array Int) (rows : Array Nat) (p : Array (Int × Int)) :
    (Series.new t rows (some p)).t = restrictT (sortArr t) (pairsSt p) (pairsEn p) (pairs_size p) := by
  unfold Series.new restrictT
  by_cases h0 : (sortArr t).size = 0
  · simp only [h0, if_true]
    have : sortArr t = #[] := Array.eq_empty_of_size_eq_zero h0
    rw [this]
    have hz : (jitrestrict #[] (pairsSt p) (pairsEn p) (pairs_size p)).size ≤ 0 := by
      simpa using (restrict_in_bounds #[] (pairsSt p) (pairsEn p) (pairs_size p)).2
    simp [gatherI, Array.eq_empty_of_size_eq_zero (Nat.le_zero.1 hz)]
  · simp [h0]

/-- **constructing with `time_support = ep` selects the same samples as constructing without and then restricting** -/
theorem new_support_eq_restrict (t : Array Int) (rows : Array Nat) (p : Array (Int × Int)) (hp : C01.CanonicalPairs p) :
    (Series.new t rows (some p)).t = ((Series.new t rows none).restrictTo p).t := by
  have cp := C04.canon_of_canonicalPairs p hp
  have hs := C01.sortArr_sorted t
  unfold Series.restrictTo
  simp only [new_some_t]
  have e0 : sortArr (Series.new t rows none).t = sortArr t := by
    unfold Series.new
    by_cases h0 : (sortArr t).size = 0
    · simp only [h0, if_true]
      rw [Array.eq_empty_of_size_eq_zero h0]; rfl
    · simp only [h0, if_false]
      exact C12.sortArr_of_sorted _ hs
  rw [e0, C12.sortArr_of_sorted _ (restrictT_sorted _ _ _ _ hs cp), restrict_idem _ _ _ _ hs cp]


-- non-vacuity: a sorted series with duplicates and samples on interval ends, a canonical two-interval set
example : (restrictT #[0, 1, 1, 2, 5, 7, 9] #[1, 6] #[2, 7] rfl).toList = [1, 1, 2, 7] := by decide +kernel

end Pyn.C03

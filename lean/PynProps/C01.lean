import PynProofs.FixIset
import PynModel.Core.ISet
/-!
# C01 — every IntervalSet is canonical and covers the union of its inputs

> … is canonical: starts strictly increase, every interval has end > start, and consecutive
> intervals are separated (end[i] < start[i+1]).

Model: `Pyn.ISet.mk` = independent sort of starts and ends, then `Pyn.jitfixIset`
(index-level transliteration of `_jitfix_iset` as repaired by `fix:` 3e52e6d).  Every
IntervalSet-returning operation of pynapple re-enters the constructor, so canonicity of every
reachable IntervalSet is canonicity of `ISet.mk`'s output on arbitrary input.
-/
namespace Pyn.C01
open Pyn

/-- output of the model as a list of pairs is canonical in the sense of C01 -/
def CanonicalPairs (p : Array (Int × Int)) : Prop :=
  (∀ q ∈ p, q.1 < q.2) ∧ p.toList.Pairwise (fun a b => a.2 < b.1)

theorem mem_insertS (x a : Int) (l : List Int) : a ∈ insertS x l ↔ a = x ∨ a ∈ l := by
  induction l with
  | nil => simp [insertS]
  | cons y ys ih =>
    simp only [insertS]; split
    · simp
    · simp [ih]; constructor <;> (intro h; rcases h with h | h | h <;> simp [h])

theorem pairwise_insertS (x : Int) (l : List Int) (h : l.Pairwise (· ≤ ·)) :
    (insertS x l).Pairwise (· ≤ ·) := by
  induction l with
  | nil => simp [insertS]
  | cons y ys ih =>
    rw [List.pairwise_cons] at h
    simp only [insertS]; split
    · rename_i hxy
      refine List.pairwise_cons.mpr ⟨?_, List.pairwise_cons.mpr h⟩
      intro a ha
      simp at ha
      rcases ha with rfl | ha
      · exact hxy
      · have := h.1 a ha; omega
    · rename_i hxy
      refine List.pairwise_cons.mpr ⟨?_, ih h.2⟩
      intro a ha
      rw [mem_insertS] at ha
      rcases ha with rfl | ha
      · omega
      · exact h.1 a ha

theorem pairwise_isort (l : List Int) : (isort l).Pairwise (· ≤ ·) := by
  induction l with
  | nil => simp [isort]
  | cons x xs ih => exact pairwise_insertS x _ ih

theorem sortArr_sorted (a : Array Int) : Sorted (sortArr a) := by
  intro i j hi hj hij
  have hp := pairwise_isort a.toList
  rcases Nat.lt_or_eq_of_le hij with hlt | heq
  · have := (List.pairwise_iff_getElem.mp hp) i j (by simpa [sortArr] using hi) (by simpa [sortArr] using hj) hlt
    simpa [sortArr] using this
  · subst heq; exact Int.le_refl _

/-- **Canonicity of the scan**, for non-decreasing starts and non-decreasing ends of any length,
any pattern of zero-length / inverted / nested / overlapping / touching pairs. -/
theorem fixIset_canonical (st en : Array Int) (h : st.size = en.size) (hs : Sorted st) (he : Sorted en) :
    CanonicalPairs (jitfixIset st en h) :=
  fixLoop_inv st en h hs he 0 #[] ⟨by simp, by simp, by simp⟩

/-- **C01, canonicity, unconditional**: whatever finite list of (start, end) pairs is given, in any
order, the constructor returns starts strictly increasing, `end > start`, `end[i] < start[i+1]`. -/
theorem mk_canonical (st en : Array Int) (h : st.size = en.size) : CanonicalPairs (ISet.mk st en h) :=
  fixIset_canonical _ _ _ (sortArr_sorted st) (sortArr_sorted en)

/-- hence the results of union / intersect / set_diff are canonical for arbitrary operands -/
theorem union_canonical (a b : Array (Int × Int)) : CanonicalPairs (ISet.union a b) := by
  simp only [ISet.union]; split
  · exact mk_canonical _ _ _
  · exact ⟨by simp, by simp⟩
theorem intersect_canonical (a b : Array (Int × Int)) : CanonicalPairs (ISet.intersect a b) := by
  simp only [ISet.intersect]; split
  · exact mk_canonical _ _ _
  · exact ⟨by simp, by simp⟩
theorem diff_canonical (a b : Array (Int × Int)) : CanonicalPairs (ISet.diff a b) := by
  simp only [ISet.diff]; split
  · exact mk_canonical _ _ _
  · exact ⟨by simp, by simp⟩

/-- starts strictly increase (a consequence of the two clauses) -/
theorem mk_starts_increase (st en : Array Int) (h : st.size = en.size) :
    (ISet.mk st en h).toList.Pairwise (fun a b => a.1 < b.1) := by
  have hc := mk_canonical st en h
  refine hc.2.imp_of_mem ?_
  intro a b ha _ hab
  have := hc.1 a (by simpa using ha)
  omega

/-! ### non-vacuity and the two inputs that used to break canonicity (now repaired) -/
-- unsorted, nested, overlapping, touching, zero-length, inverted input
example : ISet.mk #[5000, 0, 2000, 9000, 7000, 7000] #[6000, 3000, 2000, 8000, 7500, 9000] rfl
    = #[(0, 1000), (2000, 3000), (5000, 6000), (7000, 8000)] := by decide +kernel
-- zero-length pair after an inverted pair: IntervalSet(start=[5,6], end=[3,6])
example : ISet.mk #[5000, 6000] #[3000, 6000] rfl = #[] := by decide +kernel
-- 0.5 µs interval touching its successor: dropped, not inverted
example : ISet.mk #[0, 500] #[500, 1000000000] rfl = #[(500, 1000000000)] := by decide +kernel
-- exactly touching neighbours are kept apart by trimming 1 µs from the earlier one
example : ISet.mk #[0, 1000000] #[1000000, 2000000] rfl = #[(0, 999000), (1000000, 2000000)] := by decide +kernel

end Pyn.C01

import PynProofs.FixIset
import PynProofs.Cover
import PynModel.Core.ISet
/-!
# C01 — every IntervalSet is canonical and covers the union of its inputs

> … is canonical: starts strictly increase, every interval has end > start, and consecutive
> intervals are separated (end[i] < start[i+1]).

Model: `Pyn.ISet.mk` = independent sort of starts and ends, then `Pyn.jitfixIset`
(index-level transliteration of `_jitfix_iset` as repaired by `fix:` 3e52e6d).  Every
IntervalSet-returning operation of pynapple re-enters the constructor, so canonicity of every
reachable IntervalSet is canonicity of `ISet.mk`'s output on arbitrary input.

Coverage clause (`mk_sound`, `mk_complete`): the constructor sorts starts and ends INDEPENDENTLY, so the pairs
it scans are not the pairs it was given; that the union is nevertheless preserved is a counting argument
(`PynProofs/Cover.lean`: an instant is covered iff more starts lie at or before it than ends strictly before it,
and both counts are invariant under sorting), joined to the loop invariant of `_jitfix_iset` (`fixLoop_cover`).
-/
namespace Pyn.C01
open Pyn

/-- output of the model as a list of pairs is canonical in the sense of C01 -/
def CanonicalPairs (p : Array (Int × Int)) : Prop :=
  (∀ q ∈ p, q.1 < q.2) ∧ p.toList.Pairwise (fun a b => a.2 < b.1)

theorem mem_insertS (x a : Int) (l : List Int) : a ∈ insertS x l ↔ a = x ∨ a ∈ l := by
  induction l with
  | nil => simp [insertS]
  | cons y ys ih =>
    simp only [insertS]; split
    · simp
    · simp [ih]; constructor <;> (intro h; rcases h with h | h | h <;> simp [h])

theorem pairwise_insertS (x : Int) (l : List Int) (h : l.Pairwise (· ≤ ·)) :
    (insertS x l).Pairwise (· ≤ ·) := by
  induction l with
  | nil => simp [insertS]
  | cons y ys ih =>
    rw [List.pairwise_cons] at h
    simp only [insertS]; split
    · rename_i hxy
      refine List.pairwise_cons.mpr ⟨?_, List.pairwise_cons.mpr h⟩
      intro a ha
      simp at ha
      rcases ha with rfl | ha
      · exact hxy
      · have := h.1 a ha; omega
    · rename_i hxy
      refine List.pairwise_cons.mpr ⟨?_, ih h.2⟩
      intro a ha
      rw [mem_insertS] at ha
      rcases ha with rfl | ha
      · omega
      · exact h.1 a ha

theorem pairwise_isort (l : List Int) : (isort l).Pairwise (· ≤ ·) := by
  induction l with
  | nil => simp [isort]
  | cons x xs ih => exact pairwise_insertS x _ ih

theorem sortArr_sorted (a : Array Int) : Sorted (sortArr a) := by
  intro i j hi hj hij
  have hp := pairwise_isort a.toList
  rcases Nat.lt_or_eq_of_le hij with hlt | heq
  · have := (List.pairwise_iff_getElem.mp hp) i j (by simpa [sortArr] using hi) (by simpa [sortArr] using hj) hlt
    simpa [sortArr] using this
  · subst heq; exact Int.le_refl _

/-- **Canonicity of the scan**, for non-decreasing starts and non-decreasing ends of any length,
any pattern of zero-length / inverted / nested / overlapping / touching pairs. -/
theorem fixIset_canonical (st en : Array Int) (h : st.size = en.size) (hs : Sorted st) (he : Sorted en) :
    CanonicalPairs (jitfixIset st en h) :=
  fixLoop_inv st en h hs he 0 #[] ⟨by simp, by simp, by simp⟩

/-- **C01, canonicity, unconditional**: whatever finite list of (start, end) pairs is given, in any
order, the constructor returns starts strictly increasing, `end > start`, `end[i] < start[i+1]`. -/
theorem mk_canonical (st en : Array Int) (h : st.size = en.size) : CanonicalPairs (ISet.mk st en h) :=
  fixIset_canonical _ _ _ (sortArr_sorted st) (sortArr_sorted en)

/-- hence the results of union / intersect / set_diff are canonical for arbitrary operands -/
theorem union_canonical (a b : Array (Int × Int)) : CanonicalPairs (ISet.union a b) := by
  simp only [ISet.union]; split
  · exact mk_canonical _ _ _
  · exact ⟨by simp, by simp⟩
theorem intersect_canonical (a b : Array (Int × Int)) : CanonicalPairs (ISet.intersect a b) := by
  simp only [ISet.intersect]; split
  · exact mk_canonical _ _ _
  · exact ⟨by simp, by simp⟩
theorem diff_canonical (a b : Array (Int × Int)) : CanonicalPairs (ISet.diff a b) := by
  simp only [ISet.diff]; split
  · exact mk_canonical _ _ _
  · exact ⟨by simp, by simp⟩

/-- starts strictly increase (a consequence of the two clauses) -/
theorem mk_starts_increase (st en : Array Int) (h : st.size = en.size) :
    (ISet.mk st en h).toList.Pairwise (fun a b => a.1 < b.1) := by
  have hc := mk_canonical st en h
  refine hc.2.imp_of_mem ?_
  intro a b ha _ hab
  have := hc.1 a (by simpa using ha)
  omega

/-! ### coverage -/

theorem sortArr_toList (a : Array Int) : (sortArr a).toList = isort a.toList := by simp [sortArr]

theorem sortArr_get_mem (a : Array Int) (k : Nat) (hk : k < (sortArr a).size) :
    ∃ i, ∃ hi : i < a.size, (sortArr a)[k] = a[i] := by
  have hm : (sortArr a)[k] ∈ isort a.toList := by
    rw [← sortArr_toList]; exact Array.getElem_mem_toList ..
  have := (isort_perm a.toList).mem_iff.1 hm
  obtain ⟨i, hi, e⟩ := List.mem_iff_getElem.1 this
  exact ⟨i, by simpa using hi, by simpa using e.symm⟩

/-- positional pairs of the sorted arrays cover exactly what the original pairs cover -/
theorem pos_of_cov (st en : Array Int) (h : st.size = en.size)
    (hle : ∀ i, (hi : i < st.size) → st[i] ≤ en[i]'(h ▸ hi)) (x : Int)
    (hc : ∃ i, ∃ hi : i < st.size, st[i] ≤ x ∧ x ≤ en[i]'(h ▸ hi)) :
    InPos (sortArr st) (sortArr en) (by rw [sortArr_size, sortArr_size, h]) x := by
  have hcnt := cov_to_count st en h hle x hc
  rw [← cntLe_isort, ← cntLt_isort] at hcnt
  have hlen : cntLe (isort st.toList) x ≤ (isort st.toList).length := List.countP_le_length
  have hk : cntLt (isort en.toList) x < (sortArr st).size := by
    rw [sortArr_size]; rw [length_isort] at hlen; simp at hlen; omega
  refine ⟨cntLt (isort en.toList) x, hk, ?_, ?_⟩
  · have := (sorted_le_iff (isort st.toList) (pairwise_isort _) x _ (by simpa [sortArr] using hk)).2 hcnt
    simpa [sortArr] using this
  · have hk2 : cntLt (isort en.toList) x < (isort en.toList).length := by
      rw [length_isort]; rw [sortArr_size] at hk; simp; omega
    have := mt (sorted_lt_iff (isort en.toList) (pairwise_isort _) x _ hk2).1 (Nat.lt_irrefl _)
    have e : (sortArr en)[cntLt (isort en.toList) x]'(by simpa [sortArr] using hk2) =
        (isort en.toList)[cntLt (isort en.toList) x] := by simp [sortArr]
    rw [e]; omega

theorem cov_of_pos (st en : Array Int) (h : st.size = en.size) (x : Int)
    (hp : InPos (sortArr st) (sortArr en) (by rw [sortArr_size, sortArr_size, h]) x) :
    ∃ i, ∃ hi : i < st.size, st[i] ≤ x ∧ x ≤ en[i]'(h ▸ hi) := by
  obtain ⟨k, hk, a, b⟩ := hp
  apply count_to_cov st en h x
  rw [← cntLe_isort, ← cntLt_isort]
  have hk1 : k < (isort st.toList).length := by simpa [sortArr] using hk
  have hk2 : k < (isort en.toList).length := by
    rw [length_isort]; rw [sortArr_size] at hk; simp; omega
  have a' : (isort st.toList)[k] ≤ x := by simpa [sortArr] using a
  have b' : ¬ (isort en.toList)[k] < x := by
    have : x ≤ (isort en.toList)[k] := by simpa [sortArr] using b
    omega
  have c1 := (sorted_le_iff _ (pairwise_isort _) x k hk1).1 a'
  have c2 := mt (sorted_lt_iff _ (pairwise_isort _) x k hk2).2 b'
  omega

/-- **C01 coverage, soundness** (any input): every instant of an interval of the constructed set lies in one of
the input pairs — although starts and ends are sorted independently of each other -/
theorem mk_sound (st en : Array Int) (h : st.size = en.size) (x : Int) (hx : InOut (ISet.mk st en h) x) :
    ∃ i, ∃ hi : i < st.size, st[i] ≤ x ∧ x ≤ en[i]'(h ▸ hi) := by
  apply cov_of_pos st en h x
  unfold ISet.mk jitfixIset at hx
  exact (fixLoop_cover (sortArr st) (sortArr en) _ (sortArr_sorted st) (sortArr_sorted en) _ 0 #[] (Nat.le_refl _)
    (fun x ⟨p, hp, _⟩ => by simp at hp) (fun k hk => by omega)).1 x hx

/-- **C01 coverage, completeness**: when every input pair has `start ≤ end`, an instant of an input pair that is
not an endpoint of any pair and does not lie in the microsecond before a start (the sliver the touch separation
removes) lies in an interval of the constructed set.  Zero-length inputs contain no such instant: they vanish. -/
theorem mk_complete (st en : Array Int) (h : st.size = en.size)
    (hle : ∀ i, (hi : i < st.size) → st[i] ≤ en[i]'(h ▸ hi)) (x : Int)
    (hc : ∃ i, ∃ hi : i < st.size, st[i] ≤ x ∧ x ≤ en[i]'(h ▸ hi))
    (hne : ∀ i, (hi : i < st.size) → x ≠ st[i] ∧ x ≠ en[i]'(h ▸ hi))
    (hfar : ∀ i, (hi : i < st.size) → ¬ (st[i] - 1000 ≤ x ∧ x < st[i])) :
    InOut (ISet.mk st en h) x := by
  obtain ⟨k, hk, a, b⟩ := pos_of_cov st en h hle x hc
  have hk2 : k < (sortArr en).size := by rw [sortArr_size] at hk ⊢; omega
  obtain ⟨i1, hi1, e1⟩ := sortArr_get_mem st k hk
  obtain ⟨i2, hi2, e2⟩ := sortArr_get_mem en k hk2
  have n1 := (hne i1 hi1).1
  have n2 := (hne i2 (by omega)).2
  have hF : FarS (sortArr st) x := by
    intro j hj
    obtain ⟨i, hi, e⟩ := sortArr_get_mem st j hj
    rw [e]; exact hfar i hi
  unfold ISet.mk jitfixIset
  exact (fixLoop_cover (sortArr st) (sortArr en) _ (sortArr_sorted st) (sortArr_sorted en) _ 0 #[] (Nat.le_refl _)
    (fun x ⟨p, hp, _⟩ => by simp at hp) (fun k hk => by omega)).2 k hk x (by omega) (by omega) hF


-- the hypotheses of `mk_complete` are satisfiable: unsorted, nested, touching pairs and an interior instant
example : InOut (ISet.mk #[5000000, 0, 2000000, 9000000] #[9000000, 3000000, 2500000, 9500000] rfl) 2700000 :=
  mk_complete #[5000000, 0, 2000000, 9000000] #[9000000, 3000000, 2500000, 9500000] rfl (by decide) 2700000
    ⟨1, by decide, by decide, by decide⟩ (by decide) (by decide)
-- the sliver removed by the touch separation (the hypothesis `hfar` is necessary)
example : ¬ InOut (ISet.mk #[0, 5000] #[5000, 9000] rfl) 4500 := by
  rintro ⟨p, hp, h1, h2⟩
  have : ISet.mk #[0, 5000] #[5000, 9000] rfl = #[(0, 4000), (5000, 9000)] := by decide +kernel
  rw [this] at hp
  simp at hp
  rcases hp with rfl | rfl <;> simp at h1 h2 <;> omega

/-! ### non-vacuity and the two inputs that used to break canonicity (now repaired) -/
-- unsorted, nested, overlapping, touching, zero-length, inverted input
example : ISet.mk #[5000, 0, 2000, 9000, 7000, 7000] #[6000, 3000, 2000, 8000, 7500, 9000] rfl
    = #[(0, 1000), (2000, 3000), (5000, 6000), (7000, 8000)] := by decide +kernel
-- zero-length pair after an inverted pair: IntervalSet(start=[5,6], end=[3,6])
example : ISet.mk #[5000, 6000] #[3000, 6000] rfl = #[] := by decide +kernel
-- 0.5 µs interval touching its successor: dropped, not inverted
example : ISet.mk #[0, 500] #[500, 1000000000] rfl = #[(500, 1000000000)] := by decide +kernel
-- exactly touching neighbours are kept apart by trimming 1 µs from the earlier one
example : ISet.mk #[0, 1000000] #[1000000, 2000000] rfl = #[(0, 999000), (1000000, 2000000)] := by decide +kernel

/-- open finding C01-zero-length-input-touch: the inputs (0, 2 µs·10³) and the zero-length (1, 1) — after the independent sorts
the scan sees (0, 1), (1, 2), a touch, and trims a microsecond out of the middle of the real interval -/
theorem mk_zero_length_inside_witness :
    ISet.mk #[0, 1000000] #[2000000, 1000000] rfl = #[(0, 999000), (1000000, 2000000)] ∧
    ISet.mk #[0, 5000000] #[5000000, 5000000] rfl = #[(0, 4999000)] := by decide +kernel

end Pyn.C01

import PynModel.Core.Interp
import PynProofs.Search
import Mathlib.Tactic.Linarith
import Mathlib.Tactic.FieldSimp
import Mathlib.Tactic.Ring
import Mathlib.Algebra.Order.Field.Rat
/-!
# C06 (second file: the part that needs ordered-field reasoning over ℚ) — `interpolate`
Model: `Pyn.interpolate` (`PynModel/Core/Interp.lean`): per epoch, `np.interp` of the epoch's query times on the epoch's
own source samples; `np.interp` as an exact specification function over ℚ.  That a value is never taken from another
epoch is the shape of the model (each epoch's cells are computed from `tt.extract` / `dd.extract` of that epoch's
window only), tied to the code by the `interp` correspondence line.  Proved here: `interp_at_sample` (at a sample time
the sample's value), `interp_between` (strictly between the first and last sample: the linear interpolant of the two
NEIGHBOURING samples that bracket the query, hence between their values).
-/
namespace Pyn.C06
open Pyn

/-- strictly increasing sample times -/
def StrictUp (xp : Array Int) : Prop := ∀ i j, (hi : i < xp.size) → (hj : j < xp.size) → i < j → xp[i] < xp[j]

theorem strictUp_sorted (xp : Array Int) (h : StrictUp xp) : Sorted xp := by
  intro i j hi hj hij
  rcases Nat.eq_or_lt_of_le hij with e | e
  · subst e; exact Int.le_refl _
  · exact Int.le_of_lt (h i j hi hj e)

/-- **np.interp returns the sample value at a sample time** -/
theorem interp_at_sample (xp : Array Int) (fp : Array Rat) (hsz : xp.size = fp.size) (hup : StrictUp xp)
    (j : Nat) (hj : j < xp.size) : npInterp xp fp xp[j] = some (fp[j]'(by omega)) := by
  have hs := strictUp_sorted xp hup
  unfold npInterp
  have h0 : 0 < xp.size ∧ xp.size = fp.size := ⟨by omega, hsz⟩
  simp only [dif_pos h0]
  by_cases hj0 : j = 0
  · subst hj0; simp
  · have hgt : ¬ xp[j] ≤ xp[0] := by have := hup 0 j (by omega) hj (by omega); omega
    simp only [hgt, if_false]
    by_cases hjl : j = xp.size - 1
    · subst hjl
      simp only [ge_iff_le, Int.le_refl, if_true]
      congr 1
      simp [hsz]
    · have hlt : ¬ xp[j] ≥ xp[xp.size - 1] := by have := hup j (xp.size - 1) hj (by omega) (by omega); omega
      simp only [hlt, if_false]
      -- ssRight xp xp[j] = j + 1
      obtain ⟨r1, r2⟩ := ssRight_spec xp xp[j] 0 hs
      have hb := ssRight_bounds xp xp[j] 0 (Nat.zero_le _)
      have hr : ssRight xp xp[j] 0 = j + 1 := by
        rcases Nat.lt_trichotomy (ssRight xp xp[j] 0) (j + 1) with h | h | h
        · exfalso
          have := r2 j (by omega) hj; omega
        · exact h
        · exfalso
          have := r1 (j+1) (Nat.zero_le _) h (by omega)
          have := hup j (j+1) hj (by omega) (by omega)
          omega
      simp only [hr, Nat.add_sub_cancel]
      have hj1 : j + 1 < xp.size := by omega
      simp only [dif_pos hj1]
      simp

theorem convex_between (y0 y1 : Rat) (a b : Int) (ha : 0 ≤ a) (hab : a ≤ b) (hb : 0 < b) :
    min y0 y1 ≤ y0 + (a : Rat) * (y1 - y0) / (b : Rat) ∧ y0 + (a : Rat) * (y1 - y0) / (b : Rat) ≤ max y0 y1 := by
  have hb' : (0 : Rat) < (b : Rat) := by exact_mod_cast hb
  have ha' : (0 : Rat) ≤ (a : Rat) := by exact_mod_cast ha
  have hab' : (a : Rat) ≤ (b : Rat) := by exact_mod_cast hab
  have key : y0 + (a : Rat) * (y1 - y0) / (b : Rat) = (((b : Rat) - a) * y0 + a * y1) / b := by
    field_simp; ring
  rw [key]
  have hba : (0 : Rat) ≤ (b : Rat) - a := by linarith
  constructor
  · rw [le_div_iff₀ hb']
    rcases le_total y0 y1 with h | h
    · rw [min_eq_left h]; nlinarith
    · rw [min_eq_right h]; nlinarith
  · rw [div_le_iff₀ hb']
    rcases le_total y0 y1 with h | h
    · rw [max_eq_right h]; nlinarith
    · rw [max_eq_left h]; nlinarith

/-- **np.interp between two samples**: for strictly increasing sample times and a query strictly inside their range,
the result is the linear interpolant between the two NEIGHBOURING samples `j`, `j+1` that bracket the query
(`xp[j] ≤ x < xp[j+1]`), hence lies between their two values -/
theorem interp_between (xp : Array Int) (fp : Array Rat) (hsz : xp.size = fp.size) (hup : StrictUp xp) (x : Int)
    (hn : 0 < xp.size) (h1 : xp[0] < x) (h2 : x < xp[xp.size - 1]'(by omega)) :
    ∃ j, ∃ hj : j + 1 < xp.size, xp[j]'(by omega) ≤ x ∧ x < xp[j+1] ∧
      ∃ v, npInterp xp fp x = some v ∧
        min (fp[j]'(by omega)) (fp[j+1]'(by omega)) ≤ v ∧ v ≤ max (fp[j]'(by omega)) (fp[j+1]'(by omega)) := by
  have hs := strictUp_sorted xp hup
  obtain ⟨r1, r2⟩ := ssRight_spec xp x 0 hs
  have hb := ssRight_bounds xp x 0 (Nat.zero_le _)
  have hpos : 0 < ssRight xp x 0 := by
    rcases Nat.eq_zero_or_pos (ssRight xp x 0) with h | h
    · exfalso; have := r2 0 (by omega) hn; omega
    · exact h
  have hlt : ssRight xp x 0 < xp.size := by
    rcases Nat.lt_or_ge (ssRight xp x 0) xp.size with h | h
    · exact h
    · exfalso; have := r1 (xp.size - 1) (Nat.zero_le _) (by omega) (by omega); omega
  have hj : ssRight xp x 0 - 1 + 1 < xp.size := by omega
  have hlo := r1 (ssRight xp x 0 - 1) (Nat.zero_le _) (by omega) (by omega)
  have hhi := r2 (ssRight xp x 0 - 1 + 1) (by omega) hj
  refine ⟨ssRight xp x 0 - 1, hj, hlo, hhi, ?_⟩
  unfold npInterp
  have h0 : 0 < xp.size ∧ xp.size = fp.size := ⟨hn, hsz⟩
  have c1 : ¬ x ≤ xp[0] := by omega
  have c2 : ¬ x ≥ xp[xp.size - 1]'(by omega) := by omega
  simp only [dif_pos h0, c1, c2, if_false, dif_pos hj]
  refine ⟨_, rfl, ?_⟩
  exact convex_between _ _ _ _ (by omega) (by omega) (by omega)


-- non-vacuity: strictly increasing sample times, a query strictly inside
example : npInterp #[0, 10, 30] #[1, 3, -1] 20 = some 1 := by decide +kernel
example : npInterp #[0, 10, 30] #[1, 3, -1] 35 = some (-1) := by decide +kernel

end Pyn.C06

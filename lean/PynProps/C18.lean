import PynModel.Process.Convolve
import PynProofs.Search
/-!
# C18 — convolution and filtering act per epoch, linearly, and keep the time axis

Model: `Pyn.convolve` — `_convolve` over ℤ: per epoch `[searchsorted(t, s, left), searchsorted(t, e, right))`,
NumPy's full convolution written as its defining sum (`convAt`), the code's cut indices for the three
trim modes; `Pyn.spectralInv` = `_compute_spectral_inversion`.

Proved for every signal, kernel and length: the trimmed output has one sample per input sample in all
three modes, odd and even kernels (`convTrim_length`) and is the window `[cut, cut + t)` of the full
convolution (`convTrim_get`); linearity in the signal (`convTrim_linear`); low-pass + spectrally
inverted kernel = identity for odd kernels with trim `both` (`sinc_complement`: low-pass + high-pass
and band-pass + band-stop return the signal); an epoch's output depends only on that epoch's samples
(`convolve_local`).  Butterworth numerics (SciPy `sosfiltfilt`) and the float evaluation are outside
the model: per-epoch independence, linearity and the time axis of all four filters in both modes are
checked on the implementation by the oracle run.
-/
namespace Pyn.C18
open Pyn


theorem sumTo_add (n : Nat) (f g : Nat → Int) : sumTo n (fun i => f i + g i) = sumTo n f + sumTo n g := by
  induction n with
  | zero => rfl
  | succ n ih => simp only [sumTo, ih]; omega

theorem sumTo_mul (n : Nat) (c : Int) (f : Nat → Int) : sumTo n (fun i => c * f i) = c * sumTo n f := by
  induction n with
  | zero => simp [sumTo]
  | succ n ih => simp only [sumTo, ih, Int.mul_add]

theorem sumTo_congr (n : Nat) (f g : Nat → Int) (h : ∀ i, i < n → f i = g i) : sumTo n f = sumTo n g := by
  induction n with
  | zero => rfl
  | succ n ih => simp only [sumTo]; rw [ih (fun i hi => h i (by omega)), h n (by omega)]

theorem sumTo_zero (n : Nat) : sumTo n (fun _ => 0) = 0 := by
  induction n with
  | zero => rfl
  | succ n ih => simp [sumTo, ih]

/-- a sum with a single possibly non-zero term -/
theorem sumTo_single (n : Nat) (j : Nat) (f : Nat → Int) (h : ∀ i, i < n → i ≠ j → f i = 0) :
    sumTo n f = if j < n then f j else 0 := by
  induction n with
  | zero => simp [sumTo]
  | succ n ih =>
    simp only [sumTo]
    rw [ih (fun i hi hne => h i (by omega) hne)]
    by_cases hj : j < n
    · have : f n = 0 := h n (by omega) (by omega)
      simp [hj, this, Nat.lt_succ_of_lt hj]
    · by_cases hjn : j = n
      · subst hjn; simp
      · have : f n = 0 := h n (by omega) (fun e => hjn e.symm)
        have : ¬ j < n + 1 := by omega
        simp [hj, *]

theorem convFull_length (x k : List Int) : (convFull x k).length = x.length + k.length - 1 := by
  simp [convFull]

theorem convFull_get (x k : List Int) (n : Nat) (h : n < x.length + k.length - 1) :
    (convFull x k)[n]'(by simpa [convFull] using h) = convAt x k n := by
  simp [convFull]

/-- **trimmed length**: for every trim mode, a slice of `t ≥ 1` samples and a kernel of length `≥ 1`
(odd or even) give exactly `t` output samples — one per timestamp -/
theorem convTrim_length (mode : Nat) (x k : List Int) (hx : 1 ≤ x.length) (hk : 1 ≤ k.length) :
    (convTrim mode x k).length = x.length := by
  unfold convTrim trimCut
  simp only [List.length_take, List.length_drop, convFull_length]
  split
  · simp only; omega
  · split
    · simp only; omega
    · simp only
      have := Nat.mod_two_eq_zero_or_one k.length
      have h2 := Nat.div_add_mod (k.length - 1) 2
      omega

theorem convTrim_get (mode : Nat) (x k : List Int) (hx : 1 ≤ x.length) (hk : 1 ≤ k.length) (j : Nat) (hj : j < x.length) :
    (convTrim mode x k)[j]'(by rw [convTrim_length mode x k hx hk]; exact hj) =
      convAt x k ((trimCut mode k.length x.length).1 + j) := by
  have hb : (trimCut mode k.length x.length).1 + j < x.length + k.length - 1 := by
    unfold trimCut
    split
    · simp only; omega
    · split
      · simp only; omega
      · simp only
        have h2 := Nat.div_add_mod (k.length - 1) 2
        have := Nat.mod_two_eq_zero_or_one (k.length - 1)
        omega
  unfold convTrim
  simp only [List.getElem_take, List.getElem_drop]
  exact convFull_get x k _ hb

/-- pointwise linear combination of two equally long signals -/
def lin (a : Int) (x : List Int) (b : Int) (y : List Int) : List Int := List.zipWith (fun u v => a * u + b * v) x y

theorem lin_getD (a b : Int) (x y : List Int) (h : x.length = y.length) (i : Nat) :
    (lin a x b y).getD i 0 = a * x.getD i 0 + b * y.getD i 0 := by
  unfold lin
  by_cases hi : i < x.length
  · have hi2 : i < y.length := h ▸ hi
    simp [List.getD_eq_getElem?_getD, List.getElem?_zipWith, List.getElem?_eq_getElem hi, List.getElem?_eq_getElem hi2]
  · have hi2 : ¬ i < y.length := h ▸ hi
    have e1 : x[i]? = none := List.getElem?_eq_none (by omega)
    have e2 : y[i]? = none := List.getElem?_eq_none (by omega)
    simp [List.getD_eq_getElem?_getD, List.getElem?_zipWith, e1, e2]

theorem convAt_linear (a b : Int) (x y k : List Int) (h : x.length = y.length) (n : Nat) :
    convAt (lin a x b y) k n = a * convAt x k n + b * convAt y k n := by
  unfold convAt
  have hl : (lin a x b y).length = x.length := by simp [lin, h]
  rw [hl, ← h, ← sumTo_mul, ← sumTo_mul, ← sumTo_add]
  apply sumTo_congr
  intro i _
  split
  · rw [lin_getD a b x y h]; simp only [Int.add_mul, Int.mul_assoc]
  · simp

/-- **linearity in the signal**, per epoch slice and trim mode: `(a·x + b·y) ⋆ k = a·(x ⋆ k) + b·(y ⋆ k)` -/
theorem convTrim_linear (mode : Nat) (a b : Int) (x y k : List Int) (h : x.length = y.length)
    (hx : 1 ≤ x.length) (hk : 1 ≤ k.length) :
    convTrim mode (lin a x b y) k = lin a (convTrim mode x k) b (convTrim mode y k) := by
  have hl : (lin a x b y).length = x.length := by simp [lin, h]
  apply List.ext_getElem
  · rw [convTrim_length _ _ _ (by omega) hk, hl]
    simp [lin, convTrim_length mode x k hx hk, convTrim_length mode y k (h ▸ hx) hk, h]
  · intro j h1 h2
    have hj : j < x.length := by rw [convTrim_length _ _ _ (by omega) hk, hl] at h1; exact h1
    rw [convTrim_get mode _ k (by omega) hk j (by omega)]
    simp only [lin, List.getElem_zipWith]
    rw [convTrim_get mode x k hx hk j hj, convTrim_get mode y k (h ▸ hx) hk j (h ▸ hj)]
    have := convAt_linear a b x y k h ((trimCut mode k.length x.length).1 + j)
    rw [← h]
    have hl' : (List.zipWith (fun u v => a * u + b * v) x y).length = x.length := by simpa [lin] using hl
    rw [hl']
    exact this

theorem spectralInv_getD (one : Int) (k : List Int) (hk : 1 ≤ k.length) (j : Nat) :
    (spectralInv one k).getD j 0 = -(k.getD j 0) + (if j = k.length / 2 then one else 0) := by
  unfold spectralInv
  have hh : k.length / 2 < k.length := by omega
  by_cases hj : j = k.length / 2
  · subst hj
    simp [List.getD_eq_getElem?_getD, List.getElem?_set, hh]
    omega
  · by_cases hjl : j < k.length
    · have hne : ¬ k.length / 2 = j := fun e => hj e.symm
      simp [List.getD_eq_getElem?_getD, List.getElem?_set, hj, hne, List.getElem?_eq_getElem hjl]
    · have e1 : k[j]? = none := List.getElem?_eq_none (by omega)
      have hne : ¬ k.length / 2 = j := fun e => hj e.symm
      simp [List.getD_eq_getElem?_getD, List.getElem?_set, hj, hne, e1]

theorem convAt_spectralInv (one : Int) (x k : List Int) (hk : 1 ≤ k.length) (n : Nat) :
    convAt x (spectralInv one k) n + convAt x k n =
      if k.length / 2 ≤ n ∧ n - k.length / 2 < x.length then one * x.getD (n - k.length / 2) 0 else 0 := by
  unfold convAt
  rw [← sumTo_add]
  have hlen : (spectralInv one k).length = k.length := by simp [spectralInv]
  rw [sumTo_congr x.length _ (fun i => if i ≤ n ∧ n - i = k.length / 2 then x.getD i 0 * one else 0)]
  · rw [sumTo_single x.length (n - k.length / 2)]
    · by_cases hc : k.length / 2 ≤ n ∧ n - k.length / 2 < x.length
      · have h1 : n - k.length / 2 ≤ n := by omega
        have h2 : n - (n - k.length / 2) = k.length / 2 := by omega
        simp [hc, h1, h2, Int.mul_comm]
      · simp only [hc, if_false]
        split
        · rename_i h3
          have hno : ¬ (n - k.length / 2 ≤ n ∧ n - (n - k.length / 2) = k.length / 2) := by omega
          rw [if_neg hno]
        · rfl
    · intro i _ hne
      have : ¬ (i ≤ n ∧ n - i = k.length / 2) := by omega
      simp [this]
  · intro i _
    by_cases hin : i ≤ n
    · simp only [hin, if_true, true_and]
      rw [spectralInv_getD one k hk]
      split <;> simp [Int.mul_add, Int.mul_neg] <;> omega
    · simp [hin]

/-- **windowed-sinc complement**: for a kernel of odd length (the construction always yields
`2·(M//2)+1` taps) and trim `both`, the output of the spectrally inverted kernel plus the output of the
kernel itself is the input signal (times the integer `one` standing for 1.0) — low-pass + high-pass,
and band-pass + band-stop, give the signal back, sample by sample, for every signal and length. -/
theorem sinc_complement (one : Int) (x k : List Int) (hx : 1 ≤ x.length) (hodd : k.length % 2 = 1) :
    lin 1 (convTrim 0 x (spectralInv one k)) 1 (convTrim 0 x k) = x.map (one * ·) := by
  have hk : 1 ≤ k.length := by omega
  have hlen : (spectralInv one k).length = k.length := by simp [spectralInv]
  apply List.ext_getElem
  · simp [lin, convTrim_length 0 x k hx hk, convTrim_length 0 x _ hx (hlen ▸ hk)]
  · intro j h1 h2
    have hj : j < x.length := by simpa using h2
    simp only [lin, List.getElem_zipWith, List.getElem_map]
    rw [convTrim_get 0 x _ hx (hlen ▸ hk) j hj, convTrim_get 0 x k hx hk j hj, hlen]
    have hc : (trimCut 0 k.length x.length).1 = k.length / 2 := by
      unfold trimCut; simp; omega
    rw [hc]
    have := convAt_spectralInv one x k hk (k.length / 2 + j)
    have hcond : k.length / 2 ≤ k.length / 2 + j ∧ k.length / 2 + j - k.length / 2 < x.length := by omega
    rw [if_pos hcond] at this
    have e : k.length / 2 + j - k.length / 2 = j := by omega
    rw [e, List.getD_eq_getElem?_getD, List.getElem?_eq_getElem hj] at this
    simp only [Option.getD_some] at this
    omega

/-! ## locality: an epoch's output depends only on that epoch's samples -/

theorem convEpochs_congr (mode : Nat) (ts : Array Int) (x y k : List Int) (sup : List (Int × Int)) (out : List Int)
    (h : ∀ p ∈ sup, (x.drop (ssLeft ts p.1)).take (ssRight ts p.2 - ssLeft ts p.1) =
                    (y.drop (ssLeft ts p.1)).take (ssRight ts p.2 - ssLeft ts p.1)) :
    convEpochs mode ts x k sup out = convEpochs mode ts y k sup out := by
  induction sup generalizing out with
  | nil => rfl
  | cons p rest ih =>
    obtain ⟨s, e⟩ := p
    simp only [convEpochs]
    have hp := h (s, e) (by simp)
    simp only at hp
    rw [hp]
    split
    · exact ih _ (fun q hq => h q (by simp [hq]))
    · exact ih _ (fun q hq => h q (by simp [hq]))

/-- **per-epoch independence**: two signals of the same length that agree on the samples of every
interval of the support (and differ arbitrarily elsewhere — between epochs, or on samples the support
does not cover) have identical outputs -/
theorem convolve_local (mode : Nat) (ts : Array Int) (x y k : List Int) (sup : List (Int × Int))
    (hl : x.length = y.length)
    (h : ∀ p ∈ sup, (x.drop (ssLeft ts p.1)).take (ssRight ts p.2 - ssLeft ts p.1) =
                    (y.drop (ssLeft ts p.1)).take (ssRight ts p.2 - ssLeft ts p.1)) :
    convolve mode ts x k sup = convolve mode ts y k sup := by
  unfold convolve
  rw [hl]
  exact convEpochs_congr mode ts x y k sup _ h


/-! ### non-vacuity -/
example : convFull [1, 2, 3] [1, 10] = [1, 12, 23, 30] := by decide +kernel
example : convTrim 0 [1, 2, 3] [1, 10] = [1, 12, 23] ∧ convTrim 1 [1, 2, 3] [1, 10] = [12, 23, 30]
    ∧ convTrim 2 [1, 2, 3] [1, 10] = [1, 12, 23] := by decide +kernel
example : convTrim 0 [1, 2, 3, 4] [1, 10, 100] = [12, 123, 234, 340] := by decide +kernel
-- two epochs, the second shorter than the kernel; the sample at t = 5 is in no epoch
example : convolve 0 #[0, 1, 2, 5, 10] [1, 2, 3, 4, 5] [1, 10, 100] [(0, 2), (9, 12)] = [12, 123, 230, 0, 50] := by
  decide +kernel
example : lin 1 (convTrim 0 [3, 1, 4, 1, 5] (spectralInv 16 [1, 14, 1])) 1 (convTrim 0 [3, 1, 4, 1, 5] [1, 14, 1])
    = [48, 16, 64, 16, 80] := by decide +kernel

end Pyn.C18

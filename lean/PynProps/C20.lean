import PynModel.Process.Randomize
import PynProofs.Cover
import PynProps.C01
/-!
# C20 — surrogate generators conserve what they promise to conserve
Model: `Pyn.shiftOne`/`shiftTs`, `jitterTs`, `shuffleTs` — each generator is a deterministic function of
the drawn numbers (the global NumPy generator state is an input of the model: the theorems below
hold **for every draw**).
-/
namespace Pyn.C20
open Pyn

/-- **shift stays inside the support**, for every timestamp (inside the support or not), every
shift (any sign, any size) and every support `[a, b]` with `a < b`: the wrapped time is in `[a, b)`. -/
theorem shift_inside (a b s t : Int) (hab : a < b) : a ≤ shiftOne a b s t ∧ shiftOne a b s t < b := by
  unfold shiftOne
  have h1 := Int.emod_nonneg (t - a + s) (by omega : b - a ≠ 0)
  have h2 := Int.emod_lt_of_pos (t - a + s) (by omega : 0 < b - a)
  omega

/-- a shift by a multiple of the support length is the identity on timestamps inside `[a, b)` -/
theorem shift_period (a b t : Int) (k : Int) (ht : a ≤ t ∧ t < b) : shiftOne a b (k * (b - a)) t = t := by
  unfold shiftOne
  rw [Int.add_mul_emod_self_right]
  rw [Int.emod_eq_of_lt (by omega) (by omega)]; omega

/-- **shift conserves the count** (as many timestamps as given; sorting is a permutation) -/
theorem shift_count (ts : Array Int) (a b s : Int) : (shiftTs ts a b s).size = ts.size := by
  simp [shiftTs, sortArr_size]

theorem mem_isort (l : List Int) (x : Int) : x ∈ isort l ↔ x ∈ l := by
  induction l with
  | nil => simp [isort]
  | cons y ys ih =>
    simp only [isort, List.mem_cons]
    have : ∀ (l : List Int) (a : Int), x ∈ insertS a l ↔ x = a ∨ x ∈ l := by
      intro l a
      induction l with
      | nil => simp [insertS]
      | cons z zs ih2 =>
        simp only [insertS]; split
        · simp
        · simp [ih2]; constructor <;> (intro h; rcases h with h | h | h <;> simp [h])
    rw [this, ih]

/-- **every shifted timestamp lies in the (closed) original support**, so the `Ts` constructor,
which drops timestamps outside `time_support`, drops none -/
theorem shift_all_inside (ts : Array Int) (a b s : Int) (hab : a < b) :
    ∀ x ∈ shiftTs ts a b s, a ≤ x ∧ x ≤ b := by
  intro x hx
  simp only [shiftTs, sortArr] at hx
  have hx' : x ∈ isort (ts.map (shiftOne a b s)).toList := by simpa using hx
  rw [mem_isort] at hx'
  simp at hx'
  obtain ⟨t, _, rfl⟩ := hx'
  have := shift_inside a b s t hab
  omega

/-- **shuffle keeps the first timestamp** -/
theorem shuffle_first (t0 : Int) (rest : List Int) (p : List Nat) :
    (shuffleTs (t0 :: rest) p).head? = some t0 := by
  unfold shuffleTs
  cases h : permute (diffs (t0 :: rest)) p <;> simp [cums]

theorem diffs_cums (t0 : Int) (ds : List Int) : diffs (cums t0 ds) = ds := by
  induction ds generalizing t0 with
  | nil => simp [cums, diffs]
  | cons d ds ih =>
    cases ds with
    | nil => simp [cums, diffs]; omega
    | cons d2 ds2 =>
      have := ih (t0 + d)
      simp only [cums] at this ⊢
      simp only [diffs]
      rw [this]; simp; omega

/-- **shuffle keeps the inter-event intervals**: the intervals of the result are exactly the
permuted intervals that were drawn (hence, for a permutation, the same multiset) -/
theorem shuffle_diffs (t0 : Int) (rest : List Int) (p : List Nat) :
    diffs (shuffleTs (t0 :: rest) p) = permute (diffs (t0 :: rest)) p := by
  unfold shuffleTs; exact diffs_cums _ _

/-- `permute l p` is a permutation of `l` when `p` is a permutation of the positions -/
theorem permute_perm (l : List Int) (p : List Nat) (hp : p.Perm (List.range l.length)) :
    (permute l p).Perm l := by
  have h1 : (permute l p).Perm (permute l (List.range l.length)) := List.Perm.map _ hp
  have h2 : permute l (List.range l.length) = l := by
    apply List.ext_getElem
    · simp [permute]
    · intro i h1 h2
      simp [permute] at h1 ⊢
      simp [List.getD, h2]
  rw [h2] at h1; exact h1

/-- **jitter conserves the count** when the support is recomputed (sorting is a permutation) -/
theorem jitter_count (ts js : Array Int) (h : ts.size = js.size) : (jitterTs ts js).size = ts.size := by
  simp [jitterTs, sortArr_size, h]

/-! non-vacuity: support [100, 110] s (not starting at 0; this lost timestamps before the repair) -/
example : shiftTs #[100500, 101500, 109500] 100000 110000 3250 = #[102750, 103750, 104750] := by decide +kernel
example : shiftTs #[100500, 101500, 109500] 100000 110000 9000 = #[100500, 108500, 109500] := by decide +kernel
example : shuffleTs [5, 7, 8, 12] [2, 0, 1] = [5, 9, 11, 12] := by decide +kernel


/-! ## jitter: order statistics move by at most the largest jitter -/

theorem jitter_toList (ts js : Array Int) :
    (jitterTs ts js).toList = isort ((ts.toList.zip js.toList).map fun p => p.1 + p.2) := by
  simp [jitterTs, sortArr, Array.toList_zip]

/-- **jitter moves the k-th timestamp (in sorted order) by at most the largest jitter**: if every drawn jitter has
absolute value ≤ d, then the k-th smallest jittered timestamp differs from the k-th original timestamp by at most d
— for any number of timestamps, ties included -/
theorem jitter_order_stat (ts js : Array Int) (h : ts.size = js.size) (hs : Sorted ts) (d : Int)
    (hj : ∀ i, (hi : i < js.size) → -d ≤ js[i] ∧ js[i] ≤ d) (k : Nat) (hk : k < ts.size) :
    ts[k] - d ≤ (jitterTs ts js)[k]'(by rw [jitter_count ts js h]; exact hk) ∧
    (jitterTs ts js)[k]'(by rw [jitter_count ts js h]; exact hk) ≤ ts[k] + d := by
  have hA : ts.toList.Pairwise (· ≤ ·) := by
    rw [List.pairwise_iff_getElem]
    intro i j hi hj' hij
    simpa using hs i j (by simpa using hi) (by simpa using hj') (Nat.le_of_lt hij)
  let P := ts.toList.zip js.toList
  have hmem : ∀ p ∈ P, -d ≤ p.2 ∧ p.2 ≤ d := by
    intro p hp
    obtain ⟨i, hi, e⟩ := List.mem_iff_getElem.1 hp
    have hi' : i < js.size := by simp [P, List.length_zip] at hi; omega
    have := hj i hi'
    rw [← e]; simp [P, List.getElem_zip]; exact this
  have eA : ts.toList = P.map Prod.fst := by simp [P, List.map_fst_zip, h]
  have hB : (jitterTs ts js).toList = isort (P.map fun p => p.1 + p.2) := jitter_toList ts js
  have hBs : (isort (P.map fun p => p.1 + p.2)).Pairwise (· ≤ ·) := C01.pairwise_isort _
  have hkB : k < (isort (P.map fun p => p.1 + p.2)).length := by
    rw [length_isort]; simp [P, List.length_zip]; omega
  have hkA : k < ts.toList.length := by simpa using hk
  have eBk : (jitterTs ts js)[k]'(by rw [jitter_count ts js h]; exact hk) = (isort (P.map fun p => p.1 + p.2))[k] := by
    simp [← hB]
  rw [eBk]
  constructor
  · -- lower bound
    have hnot : ¬ (isort (P.map fun p => p.1 + p.2))[k] < ts[k] - d := by
      rw [sorted_lt_iff _ hBs _ k hkB, cntLt_isort]
      have h1 : cntLt (P.map fun p => p.1 + p.2) (ts[k] - d) ≤ cntLt ts.toList ts[k] := by
        unfold cntLt
        rw [eA, List.countP_map, List.countP_map]
        apply List.countP_mono_left
        intro p hp hq
        have := hmem p hp
        simp at hq ⊢; omega
      have h2 : ¬ k < cntLt ts.toList ts[k] := by
        rw [← sorted_lt_iff _ hA _ k hkA]; simp
      omega
    omega
  · -- upper bound
    rw [sorted_le_iff _ hBs _ k hkB, cntLe_isort]
    have h1 : cntLe ts.toList ts[k] ≤ cntLe (P.map fun p => p.1 + p.2) (ts[k] + d) := by
      unfold cntLe
      rw [eA, List.countP_map, List.countP_map]
      apply List.countP_mono_left
      intro p hp hq
      have := hmem p hp
      simp at hq ⊢; omega
    have h2 : k < cntLe ts.toList ts[k] := by
      rw [← sorted_le_iff _ hA _ k hkA]; simp
    omega


-- non-vacuity: ties, a jitter that reorders two timestamps
example : jitterTs #[0, 10, 10, 20] #[5, -5, 5, -4] = #[5, 5, 15, 16] := by decide +kernel

end Pyn.C20

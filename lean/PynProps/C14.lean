import PynProps.C12
import PynModel.Core.NumpyWrap
/-!
# C14 — NumPy functions on time series compute what NumPy computes, time axis intact

The numbers are NumPy's by construction (the wrappers call the function on `.values`); the wrapper's
own decisions are modelled in `PynModel/Core/NumpyWrap.lean` and proved here for every shape:
when the time axis is re-attached (`wrap_series_iff`: exactly when axis 0 of the result has one row
per timestamp), that element-wise results always are, with class and labels (`elementwise_wraps`), the
square-shape corner (`reduction_over_time`), that a wrapped result carries the input's timestamps and
support unchanged (`wrap_keeps_axis`, via C04/C12), refusal of two series operands, `split` =
partition (`split_partition`), `concatenate` along time accepted iff strictly increasing
(`concat_accepts_iff`) with a well-formed result on the union of supports (`concat_wf`).
That the numbers equal `f(x.values)` for ~70 functions × shapes is the check's differential run.
-/
namespace Pyn.C14
open Pyn Pyn.C01 Pyn.C04


/-- **the time axis is re-attached only to a result with one row per timestamp**, and its class is
decided by the result's number of dimensions -/
theorem wrap_series_iff (n : Nat) (inShape : List Nat) (out : Option (List Nat)) (nd : Nat) (c : Bool) :
    wrapOut n inShape out = .series nd c ↔
      ∃ rest, out = some (n :: rest) ∧ nd = rest.length + 1 ∧
        c = (rest.length == 1 && inShape.length == 2 && rest == inShape.drop 1) := by
  unfold wrapOut
  constructor
  · intro h
    split at h
    · cases h
    · cases h
    · rename_i d0 rest
      split at h
      · rename_i hd; subst hd
        simp only [Wrapped.series.injEq] at h
        exact ⟨rest, rfl, h.1.symm, h.2.symm⟩
      · cases h
  · rintro ⟨rest, rfl, rfl, rfl⟩
    simp

/-- **element-wise operations always return a time series of the same class with the same labels**:
a result of the input's own shape (unary / binary ufuncs with scalars or broadcastable raw arrays,
comparison operators, cumulative functions) is wrapped, for every shape with `n ≥ 0` rows — including
length 0 / 1 and square shapes -/
theorem elementwise_wraps (n : Nat) (rest : List Nat) :
    wrapOut n (n :: rest) (some (n :: rest)) = .series (rest.length + 1) (rest.length == 1) := by
  simp [wrapOut]

/-- a reduction over time (result without the time axis) is raw unless a non-time axis happens to have
the length of time — the square-shape case the property singles out: then, and only then, the result
is re-labelled with the time axis -/
theorem reduction_over_time (n : Nat) (rest : List Nat) :
    wrapOut n (n :: rest) (some rest) = .raw ↔ (rest = [] ∨ rest.head? ≠ some n) := by
  cases rest with
  | nil => simp [wrapOut]
  | cons a t =>
    simp only [wrapOut]
    by_cases h : a = n
    · subst h; simp
    · simp [h]

/-- a wrapped result carries x's timestamps and support unchanged: the factory re-runs the constructor
with x's own support, which is the identity on a well-formed non-empty object -/
theorem wrap_keeps_axis (s : Series) (h : WF s) (hne : 0 < s.t.size) :
    (Series.new s.t s.rows (some s.sup)).t = s.t ∧ (Series.new s.t s.rows (some s.sup)).sup = s.sup := by
  rw [C12.new_self s h hne]; exact ⟨rfl, rfl⟩

theorem ufunc_refuses_two_series : ufuncAccepts 2 = false ∧ ufuncAccepts 1 = true := by decide

/-- **splitting along time partitions the timestamps** (with the data: the same cuts are applied to
both arrays): the pieces, in order, concatenate to the original axis -/
theorem split_partition (l : List Int) (cuts : List Nat) : (splitAtCuts l cuts).flatten = l := by
  unfold splitAtCuts
  generalize 0 = off
  induction cuts generalizing l off with
  | nil => simp [splitFrom]
  | cons c cs ih =>
    simp only [splitFrom, List.flatten_cons, ih]
    exact List.take_append_drop _ l

theorem split_count (l : List Int) (cuts : List Nat) : (splitAtCuts l cuts).length = cuts.length + 1 := by
  unfold splitAtCuts
  generalize 0 = off
  induction cuts generalizing l off with
  | nil => rfl
  | cons c cs ih => simp [splitFrom, ih]

/-! ### split points in any order: every piece carries the timestamps of ITS OWN rows -/
theorem sliceL_zip {α β : Type} (a : List α) (b : List β) (i j : Nat) :
    sliceL (a.zip b) i j = (sliceL a i j).zip (sliceL b i j) := by
  simp only [sliceL, List.zip, List.drop_zipWith, List.take_zipWith]

/-- **splitting the series = splitting the index and the data by the same rule, piece by piece** — for any split points (increasing, repeated,
stepping back, past the end): piece k of the series pairs piece k of the timestamps with piece k of the rows -/
theorem npSplit_zip {α β : Type} (ts : List α) (ds : List β) (cuts : List Nat) :
    npSplit (ts.zip ds) cuts = List.zipWith List.zip (npSplit ts cuts) (npSplit ds cuts) := by
  unfold npSplit
  generalize 0 = prev
  induction cuts generalizing prev with
  | nil => simp only [npSplitFrom, List.zip, List.drop_zipWith, List.zipWith_cons_cons, List.zipWith_nil_right]
  | cons c cs ih => simp [npSplitFrom, sliceL_zip, ih]

theorem npSplit_count {α : Type} (l : List α) (cuts : List Nat) : (npSplit l cuts).length = cuts.length + 1 := by
  unfold npSplit
  generalize 0 = prev
  induction cuts generalizing prev with
  | nil => rfl
  | cons c cs ih => simp [npSplitFrom, ih]

/-- on increasing split points the general rule is the consecutive-slices rule of `splitAtCuts` (hence a partition, `split_partition`) -/
theorem npSplit_eq_splitAtCuts_aux (l : List Int) (off : Nat) (cuts : List Nat) (h : (off :: cuts).Pairwise (· ≤ ·)) :
    npSplitFrom l off cuts = splitFrom off (l.drop off) cuts := by
  induction cuts generalizing off with
  | nil => simp [npSplitFrom, splitFrom]
  | cons c cs ih =>
    have hoc : off ≤ c := (List.pairwise_cons.1 h).1 c (by simp)
    have htail : (c :: cs).Pairwise (· ≤ ·) := (List.pairwise_cons.1 h).2
    simp only [npSplitFrom, splitFrom, sliceL]
    rw [ih c htail, List.drop_drop]
    have : off + (c - off) = c := by omega
    rw [this]

theorem npSplit_eq_splitAtCuts (l : List Int) (cuts : List Nat) (h : cuts.Pairwise (· ≤ ·)) :
    npSplit l cuts = splitAtCuts l cuts := by
  unfold npSplit splitAtCuts
  have := npSplit_eq_splitAtCuts_aux l 0 cuts (List.pairwise_cons.2 ⟨fun _ _ => Nat.zero_le _, h⟩)
  simpa using this

/-- split points stepping back: an empty piece, then rows 2..4 again — the rule NumPy applies -/
example : npSplit [10, 11, 12, 13, 14, 15, 16] [5, 2, 6] = [[10, 11, 12, 13, 14], [], [12, 13, 14, 15], [16]] := by decide

/-- **concatenation along time succeeds only for strictly increasing, non-overlapping timestamps** -/
theorem concat_accepts_iff (ts : List (List Int)) :
    concatAccepts ts = true ↔ ts.flatten.Pairwise (· < ·) := by
  unfold concatAccepts
  simp only [List.all_eq_true, List.mem_range, decide_eq_true_eq]
  constructor
  · intro h
    rw [List.pairwise_iff_getElem]
    intro i j hi hj hij
    obtain ⟨d, rfl⟩ : ∃ d, j = i + d + 1 := ⟨j - i - 1, by omega⟩
    clear hij
    induction d with
    | zero =>
      have := h i (by omega)
      rwa [getElem!_pos _ i (by omega), getElem!_pos _ (i+1) (by omega)] at this
    | succ d ih =>
      have h1 := ih (by omega)
      have h2 := h (i + d + 1) (by omega)
      rw [getElem!_pos _ (i+d+1) (by omega), getElem!_pos _ (i+d+1+1) (by omega)] at h2
      have e : i + (d + 1) + 1 = i + d + 1 + 1 := by omega
      simp only [e]; omega
  · intro h i hi
    rw [List.pairwise_iff_getElem] at h
    rw [getElem!_pos _ i (by omega), getElem!_pos _ (i+1) (by omega)]
    exact h i (i+1) (by omega) (by omega) (by omega)

/-- … and its result is a well-formed series on the union of the parts' supports -/
theorem concat_wf (parts : List Series) (r : Series) (hc : ∀ p ∈ parts, CanonicalPairs p.sup)
    (h : concatSeries parts = some r) : WF r := by
  unfold concatSeries at h
  split at h
  · cases parts with
    | nil => cases h
    | cons p rest =>
      simp only [Option.some.injEq] at h
      subst h
      apply new_wf_some _ _ _ (by simp)
      have : ∀ (l : List Series) (acc : Array (Int × Int)), CanonicalPairs acc →
          CanonicalPairs (l.foldl (fun acc q => ISet.union acc q.sup) acc) := by
        intro l
        induction l with
        | nil => intro acc ha; exact ha
        | cons q qs ih => intro acc _; exact ih _ (union_canonical _ _)
      exact this rest p.sup (hc p (by simp))
  · cases h


/-! ### non-vacuity -/
example : wrapOut 5 [5, 3] (some [5, 3]) = .series 2 true := by decide
example : wrapOut 5 [5, 3] (some [5]) = .series 1 false := by decide          -- reduction over columns
example : wrapOut 5 [5, 3] (some [3]) = .raw := by decide                      -- reduction over time
example : wrapOut 3 [3, 3] (some [3]) = .series 1 false := by decide           -- square shape: re-labelled
example : wrapOut 5 [5, 3] (some [5, 2]) = .series 2 false := by decide        -- column count changed: labels dropped
example : wrapOut 0 [0, 3] (some [0, 3]) = .series 2 true := by decide         -- length 0
example : splitAtCuts [1, 2, 3, 4, 5] [2, 4] = [[1, 2], [3, 4], [5]] := by decide
example : concatAccepts [[1, 2], [3]] = true ∧ concatAccepts [[1, 2], [2, 3]] = false ∧ concatAccepts [[3], [1]] = false := by decide

end Pyn.C14

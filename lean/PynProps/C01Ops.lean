import PynProps.C11
import PynProps.C13
import PynModel.Core.ISetOps
/-!
# C01, closure under the remaining IntervalSet methods

`PynProps/C01.lean` proves that whatever the constructor returns is canonical and covers the union of its
input.  Every other IntervalSet-returning method of `IntervalSet` ends in a constructor call, so canonicity
of its result is `mk_canonical`; what is proved here is what the result IS:

* indexing by a mask / slice / increasing positions and `drop_short/long_intervals` return exactly the
  selected rows (the constructor changes nothing: `select_eq`, `dropShort_eq`, `dropLong_eq`, `extract_eq`),
  and indexing by any positions (repeated, decreasing) returns a canonical set inside the original one
  (`getIdx_canonical`, `getIdx_sound`);
* `time_span` is the single interval from the first start to the last end (`timeSpan_eq`);
* `merge_close_intervals(thr)` is the greedy merge of neighbours whose gap is `≤ thr` (`mergeClose_eq`): it covers the
  original set (`mergeClose_covers`) and adds only instants of gaps of width `≤ thr` (`mergeClose_only`).
-/
namespace Pyn.C01
open Pyn Pyn.C11

theorem ofPairs_canonical (p : Array (Int × Int)) : CanonicalPairs (ISet.ofPairs p) := mk_canonical _ _ _

/-- the constructor applied to the rows of a canonical set returns them unchanged -/
theorem ofPairs_id (p : Array (Int × Int)) (hc : CanonicalPairs p) : ISet.ofPairs p = p := mk_canonical_id p hc

/-- any sub-sequence of the rows of a canonical set is canonical -/
theorem canonical_sublist (p : Array (Int × Int)) (hc : CanonicalPairs p) (l : List (Int × Int))
    (hs : l.Sublist p.toList) : CanonicalPairs l.toArray := by
  refine ⟨fun q hq => hc.1 q ?_, ?_⟩
  · have : q ∈ l := by simpa using hq
    exact Array.mem_def.mpr (hs.subset this)
  · simpa using hc.2.sublist hs

/-- **`ep[mask]` returns exactly the selected rows**, and they form a canonical set -/
theorem select_eq (p : Array (Int × Int)) (hc : CanonicalPairs p) (f : Int × Int → Bool) :
    ISet.select p f = p.filter f ∧ CanonicalPairs (p.filter f) := by
  have h : CanonicalPairs (p.filter f) := by
    have := canonical_sublist p hc (p.toList.filter f) List.filter_sublist
    have e : (p.toList.filter f).toArray = p.filter f := by apply Array.ext'; simp
    rwa [e] at this
  exact ⟨ofPairs_id _ h, h⟩

/-- **drop_short_intervals(thr)** keeps exactly the intervals longer than `thr` -/
theorem dropShort_eq (p : Array (Int × Int)) (hc : CanonicalPairs p) (thr : Int) :
    ISet.dropShort p thr = p.filter (fun q => decide (q.2 - q.1 > thr)) := (select_eq p hc _).1

/-- **drop_long_intervals(thr)** keeps exactly the intervals shorter than `thr` -/
theorem dropLong_eq (p : Array (Int × Int)) (hc : CanonicalPairs p) (thr : Int) :
    ISet.dropLong p thr = p.filter (fun q => decide (q.2 - q.1 < thr)) := (select_eq p hc _).1

theorem dropShort_canonical (p : Array (Int × Int)) (thr : Int) : CanonicalPairs (ISet.dropShort p thr) :=
  ofPairs_canonical _
theorem dropLong_canonical (p : Array (Int × Int)) (thr : Int) : CanonicalPairs (ISet.dropLong p thr) :=
  ofPairs_canonical _

/-- **`ep[a:b]`** returns exactly rows `a .. b-1` -/
theorem extract_eq (p : Array (Int × Int)) (hc : CanonicalPairs p) (a b : Nat) :
    ISet.ofPairs (p.extract a b) = p.extract a b := by
  apply ofPairs_id
  have := canonical_sublist p hc ((p.toList.take b).drop a)
    ((List.drop_sublist _ _).trans (List.take_sublist _ _))
  have e : (List.drop a (List.take b p.toList)).toArray = p.extract a b := by
    apply Array.ext'; simp [List.drop_take]
  rwa [e] at this

/-- **indexing by any positions** (repeated, decreasing, …) gives a canonical set … -/
theorem getIdx_canonical (p : Array (Int × Int)) (ix : Array Nat) (r : Array (Int × Int))
    (h : ISet.getIdx p ix = some r) : CanonicalPairs r := by
  unfold ISet.getIdx at h
  split at h
  · cases h; exact ofPairs_canonical _
  · cases h

/-- … every instant of which lies in an interval of the original set -/
theorem getIdx_sound (p : Array (Int × Int)) (ix : Array Nat) (r : Array (Int × Int))
    (h : ISet.getIdx p ix = some r) (x : Int) (hx : InOut r x) : InOut p x := by
  unfold ISet.getIdx at h
  split at h
  · rename_i hall
    cases h
    obtain ⟨i, hi, h1, h2⟩ := mk_sound _ _ _ x hx
    have hi' : i < ix.size := by simpa [pairsSt] using hi
    have hlt : ix[i] < p.size := by
      have := Array.all_eq_true.mp hall i hi'
      simpa using this
    refine ⟨p[ix[i]], Array.getElem_mem hlt, ?_, ?_⟩
    · simpa [pairsSt, getElem!_pos, hlt] using h1
    · simpa [pairsEn, getElem!_pos, hlt] using h2
  · cases h

/-- **`ep[i]`** is the i-th interval -/
theorem getIdx_one (p : Array (Int × Int)) (hc : CanonicalPairs p) (i : Nat) (hi : i < p.size) :
    ISet.getIdx p #[i] = some #[p[i]] := by
  unfold ISet.getIdx
  have : (#[i].all (· < p.size)) = true := by simp [hi]
  rw [if_pos this]
  congr 1
  have e : (#[i].map (p[·]!)) = #[p[i]] := by simp [getElem!_pos, hi]
  rw [e]
  apply ofPairs_id
  have := canonical_sublist p hc [p[i]] (by
    rw [List.singleton_sublist]; exact Array.mem_def.mp (Array.getElem_mem hi))
  simpa using this

/-- **time_span()** is the single interval from the first start to the last end -/
theorem timeSpan_eq (p : Array (Int × Int)) (hc : CanonicalPairs p) (h : 0 < p.size) :
    ISet.timeSpan p = some #[(p[0].1, p[p.size - 1].2)] := by
  unfold ISet.timeSpan
  rw [dif_pos h]
  congr 1
  apply C04.mk_single
  have hsc := strictCanon_of_canonicalPairs p hc
  obtain ⟨_, he⟩ := strictCanon_sorted _ _ _ hsc
  have h0 := hc.1 p[0] (Array.getElem_mem h)
  have := he 0 (p.size - 1) (by simpa [pairsEn] using h) (by simp [pairsEn]; omega) (by omega)
  simp [pairsEn] at this
  omega

/-- the span covers every interval of the set -/
theorem timeSpan_covers (p : Array (Int × Int)) (hc : CanonicalPairs p) (h : 0 < p.size) (x : Int)
    (hx : InOut p x) : p[0].1 ≤ x ∧ x ≤ p[p.size - 1].2 := by
  obtain ⟨q, hq, h1, h2⟩ := hx
  obtain ⟨k, hk, rfl⟩ := Array.mem_iff_getElem.mp hq
  have hsc := strictCanon_of_canonicalPairs p hc
  obtain ⟨hs, he⟩ := strictCanon_sorted _ _ _ hsc
  have a := hs 0 k (by simpa [pairsSt] using h) (by simpa [pairsSt] using hk) (by omega)
  have b := he k (p.size - 1) (by simpa [pairsEn] using hk) (by simp [pairsEn]; omega) (by omega)
  simp [pairsSt] at a
  simp [pairsEn] at b
  omega

/-! ## merge_close_intervals -/

/-- the greedy merge as a recursion: `c` = start of the interval being built, `prev` = the last original
interval merged into it -/
def mergeGo (thr : Int) (c : Int) (prev : Int × Int) : List (Int × Int) → List (Int × Int)
  | [] => [(c, prev.2)]
  | b :: rest => if b.1 - prev.2 > thr then (c, prev.2) :: mergeGo thr b.1 b rest else mergeGo thr c b rest

theorem maskSel_cons (x : Int) (xs : List Int) (b : Bool) (m : List Bool) :
    maskSel (x :: xs) (b :: m) = if b then x :: maskSel xs m else maskSel xs m := by
  cases b <;> simp [maskSel]

/-- the two masked arrays of the Python text, zipped, are the greedy merge -/
theorem mergeSE_zip (thr : Int) (c : Int) (prev : Int × Int) (rest : List (Int × Int)) :
    List.zip (c :: maskSel ((prev :: rest).tail.map (·.1)) (tojoin (prev :: rest) thr))
      (maskSel ((prev :: rest).dropLast.map (·.2)) (tojoin (prev :: rest) thr)
        ++ [((prev :: rest).getLast (by simp)).2]) = mergeGo thr c prev rest := by
  induction rest generalizing c prev with
  | nil => simp [tojoin, maskSel, mergeGo]
  | cons b r ih =>
    have e1 : tojoin (prev :: b :: r) thr = decide (b.1 - prev.2 > thr) :: tojoin (b :: r) thr := by
      simp [tojoin]
    have e2 : (prev :: b :: r).tail.map (·.1) = b.1 :: (b :: r).tail.map (·.1) := by simp
    have e3 : (prev :: b :: r).dropLast.map (·.2) = prev.2 :: (b :: r).dropLast.map (·.2) := by simp
    have e4 : (prev :: b :: r).getLast (by simp) = (b :: r).getLast (by simp) := by simp
    rw [e1, e2, e3, e4, maskSel_cons, maskSel_cons, mergeGo]
    by_cases hg : b.1 - prev.2 > thr
    · simp only [hg, decide_true, if_true, List.cons_append, List.zip_cons_cons]
      rw [ih]
    · simp only [hg, decide_false, if_false, Bool.false_eq_true]
      rw [ih]

/-- the chain the recursion walks is a canonical set, and the start being built is not after `prev` -/
def ChainOK (c : Int) (prev : Int × Int) (rest : List (Int × Int)) : Prop :=
  c ≤ prev.1 ∧ (∀ q ∈ prev :: rest, q.1 < q.2) ∧ (prev :: rest).Pairwise (fun a b => a.2 < b.1)

theorem chainOK_step (c : Int) (prev b : Int × Int) (r : List (Int × Int)) (h : ChainOK c prev (b :: r)) :
    ChainOK c b r ∧ ChainOK b.1 b r ∧ prev.2 < b.1 ∧ prev.1 < prev.2 ∧ b.1 < b.2 := by
  obtain ⟨h1, h2, h3⟩ := h
  have hp := h2 prev (by simp)
  have hb := h2 b (by simp)
  have hpb : prev.2 < b.1 := (List.pairwise_cons.mp h3).1 b (by simp)
  have h3' := (List.pairwise_cons.mp h3).2
  have h2' : ∀ q ∈ b :: r, q.1 < q.2 := fun q hq => h2 q (List.mem_cons_of_mem _ hq)
  exact ⟨⟨by omega, h2', h3'⟩, ⟨Int.le_refl _, h2', h3'⟩, hpb, hp, hb⟩

theorem mergeGo_spec (thr : Int) (c : Int) (prev : Int × Int) (rest : List (Int × Int)) (h : ChainOK c prev rest) :
    (∀ q ∈ mergeGo thr c prev rest, c ≤ q.1 ∧ q.1 < q.2) ∧
    (mergeGo thr c prev rest).Pairwise (fun a b => a.2 < b.1) := by
  induction rest generalizing c prev with
  | nil =>
    have := h.2.1 prev (by simp)
    have := h.1
    simp only [mergeGo, List.mem_singleton, List.pairwise_cons, List.not_mem_nil, List.Pairwise.nil]
    refine ⟨fun q hq => ?_, by simp⟩
    subst hq; simp; omega
  | cons b r ih =>
    obtain ⟨k1, k2, hpb, hp, hb⟩ := chainOK_step c prev b r h
    rw [mergeGo]
    split
    · obtain ⟨i1, i2⟩ := ih b.1 b k2
      have hc := h.1
      refine ⟨fun q hq => ?_, ?_⟩
      · rcases List.mem_cons.mp hq with rfl | hq
        · simp; omega
        · have := i1 q hq; omega
      · refine List.pairwise_cons.mpr ⟨fun q hq => ?_, i2⟩
        have := i1 q hq
        simp; omega
    · exact ih c b k1

/-- **merge_close_intervals is the greedy merge**: on a canonical set the constructor changes nothing -/
theorem mergeClose_eq (p : Array (Int × Int)) (hc : CanonicalPairs p) (thr : Int) (a : Int × Int)
    (rest : List (Int × Int)) (hp : p.toList = a :: rest) :
    ISet.mergeClose p thr = (mergeGo thr a.1 a rest).toArray := by
  unfold ISet.mergeClose
  rw [hp]
  simp only
  have hz := mergeSE_zip thr a.1 a rest
  have hsz := mergeCloseSE_size a rest thr
  -- the arrays given to the constructor are the two projections of the zipped list
  have hlen : (mergeCloseSE a rest thr).1.length = (mergeCloseSE a rest thr).2.length := by simpa using hsz
  have hz' : List.zip (mergeCloseSE a rest thr).1 (mergeCloseSE a rest thr).2 = mergeGo thr a.1 a rest := hz
  have e1 : pairsSt (mergeGo thr a.1 a rest).toArray = (mergeCloseSE a rest thr).1.toArray := by
    rw [← hz']; apply Array.ext'; simp [pairsSt, List.map_fst_zip, hlen]
  have e2 : pairsEn (mergeGo thr a.1 a rest).toArray = (mergeCloseSE a rest thr).2.toArray := by
    rw [← hz']; apply Array.ext'; simp [pairsEn, List.map_snd_zip, hlen]
  have hchain : ChainOK a.1 a rest := by
    refine ⟨Int.le_refl _, fun q hq => hc.1 q (Array.mem_def.mpr (hp ▸ hq)), ?_⟩
    have := hc.2; rwa [hp] at this
  obtain ⟨s1, s2⟩ := mergeGo_spec thr a.1 a rest hchain
  have hcan : CanonicalPairs (mergeGo thr a.1 a rest).toArray :=
    ⟨fun q hq => (s1 q (by simpa using hq)).2, by simpa using s2⟩
  have := mk_canonical_id _ hcan
  have key : ∀ (st st' en en' : Array Int) (h : st.size = en.size) (h' : st'.size = en'.size),
      st = st' → en = en' → ISet.mk st en h = ISet.mk st' en' h' := by
    intro st st' en en' h h' e e'; subst e; subst e'; rfl
  rw [← this]
  exact key _ _ _ _ _ _ e1.symm e2.symm

theorem mergeClose_canonical (p : Array (Int × Int)) (thr : Int) : CanonicalPairs (ISet.mergeClose p thr) := by
  unfold ISet.mergeClose
  split
  · exact ⟨fun q hq => by simp at hq, by simp⟩
  · exact mk_canonical _ _ _

/-- `x` lies strictly inside a gap of width `≤ thr` between two consecutive intervals of the list -/
def InSmallGapL (l : List (Int × Int)) (thr : Int) (x : Int) : Prop :=
  ∃ l1 a b l2, l = l1 ++ a :: b :: l2 ∧ a.2 < x ∧ x < b.1 ∧ b.1 - a.2 ≤ thr

theorem inSmallGapL_cons (q : Int × Int) (l : List (Int × Int)) (thr x : Int) (h : InSmallGapL l thr x) :
    InSmallGapL (q :: l) thr x := by
  obtain ⟨l1, a, b, l2, e, h⟩ := h
  exact ⟨q :: l1, a, b, l2, by simp [e], h⟩

theorem mergeGo_only (thr : Int) (c : Int) (prev : Int × Int) (rest : List (Int × Int)) (x : Int)
    (h : ∃ q ∈ mergeGo thr c prev rest, q.1 ≤ x ∧ x ≤ q.2) :
    (c ≤ x ∧ x ≤ prev.2) ∨ (∃ q ∈ rest, q.1 ≤ x ∧ x ≤ q.2) ∨ InSmallGapL (prev :: rest) thr x := by
  induction rest generalizing c prev with
  | nil =>
    obtain ⟨q, hq, h1, h2⟩ := h
    simp only [mergeGo, List.mem_singleton] at hq
    subst hq
    exact Or.inl ⟨h1, h2⟩
  | cons b r ih =>
    rw [mergeGo] at h
    split at h
    · obtain ⟨q, hq, h1, h2⟩ := h
      rcases List.mem_cons.mp hq with rfl | hq
      · exact Or.inl ⟨h1, h2⟩
      · rcases ih b.1 b ⟨q, hq, h1, h2⟩ with k | ⟨q', hq', k⟩ | k
        · exact Or.inr (Or.inl ⟨b, by simp, k⟩)
        · exact Or.inr (Or.inl ⟨q', List.mem_cons_of_mem _ hq', k⟩)
        · exact Or.inr (Or.inr (inSmallGapL_cons _ _ _ _ k))
    · rename_i hg
      rcases ih c b h with ⟨k1, k2⟩ | ⟨q', hq', k⟩ | k
      · by_cases hx1 : x ≤ prev.2
        · exact Or.inl ⟨k1, hx1⟩
        · by_cases hx2 : x < b.1
          · exact Or.inr (Or.inr ⟨[], prev, b, r, by simp, by omega, hx2, by omega⟩)
          · exact Or.inr (Or.inl ⟨b, by simp, by omega, k2⟩)
      · exact Or.inr (Or.inl ⟨q', List.mem_cons_of_mem _ hq', k⟩)
      · exact Or.inr (Or.inr (inSmallGapL_cons _ _ _ _ k))

theorem mergeGo_covers (thr : Int) (c : Int) (prev : Int × Int) (rest : List (Int × Int)) (hch : ChainOK c prev rest)
    (x : Int) (h : (c ≤ x ∧ x ≤ prev.2) ∨ ∃ q ∈ rest, q.1 ≤ x ∧ x ≤ q.2) :
    ∃ q ∈ mergeGo thr c prev rest, q.1 ≤ x ∧ x ≤ q.2 := by
  induction rest generalizing c prev with
  | nil =>
    rcases h with h | ⟨q, hq, _⟩
    · exact ⟨(c, prev.2), by simp [mergeGo], h⟩
    · simp at hq
  | cons b r ih =>
    obtain ⟨k1, k2, hpb, hp, hb⟩ := chainOK_step c prev b r hch
    have hc := hch.1
    rw [mergeGo]
    split
    · rcases h with h | ⟨q, hq, h⟩
      · exact ⟨(c, prev.2), by simp, h⟩
      · rcases List.mem_cons.mp hq with e | hq
        · subst e
          obtain ⟨q', hq', k⟩ := ih q.1 q k2 (Or.inl h)
          exact ⟨q', List.mem_cons_of_mem _ hq', k⟩
        · obtain ⟨q', hq', k⟩ := ih b.1 b k2 (Or.inr ⟨q, hq, h⟩)
          exact ⟨q', List.mem_cons_of_mem _ hq', k⟩
    · rcases h with h | ⟨q, hq, h⟩
      · exact ih c b k1 (Or.inl ⟨h.1, by omega⟩)
      · rcases List.mem_cons.mp hq with e | hq
        · subst e
          exact ih c q k1 (Or.inl ⟨by omega, h.2⟩)
        · exact ih c b k1 (Or.inr ⟨q, hq, h⟩)

/-- `x` lies strictly inside a gap of width `≤ thr` between intervals `i` and `i+1` -/
def InSmallGap (p : Array (Int × Int)) (thr : Int) (x : Int) : Prop :=
  ∃ i, ∃ h : i + 1 < p.size, p[i].2 < x ∧ x < p[i+1].1 ∧ p[i+1].1 - p[i].2 ≤ thr

theorem inSmallGap_of_list (p : Array (Int × Int)) (thr x : Int) (h : InSmallGapL p.toList thr x) :
    InSmallGap p thr x := by
  obtain ⟨l1, a, b, l2, e, h1, h2, h3⟩ := h
  have hsz : p.size = l1.length + (l2.length + 2) := by
    have := congrArg List.length e; simpa using this
  have ha : p[l1.length]'(by omega) = a := by
    have : p.toList[l1.length]'(by simp; omega) = a := by simp [e]
    simpa using this
  have hb : p[l1.length + 1]'(by omega) = b := by
    have : p.toList[l1.length + 1]'(by simp; omega) = b := by
      simp only [e]; rw [List.getElem_append_right (by omega)]; simp
    simpa using this
  exact ⟨l1.length, by omega, by rw [ha]; exact h1, by rw [hb]; exact h2, by rw [ha, hb]; exact h3⟩

/-- **merge_close_intervals covers the original set** -/
theorem mergeClose_covers (p : Array (Int × Int)) (hc : CanonicalPairs p) (thr : Int) (x : Int)
    (hx : InOut p x) : InOut (ISet.mergeClose p thr) x := by
  obtain ⟨q, hq, h1, h2⟩ := hx
  match hp : p.toList with
  | [] => have := Array.mem_def.mp hq; rw [hp] at this; simp at this
  | a :: rest =>
    rw [mergeClose_eq p hc thr a rest hp]
    have hchain : ChainOK a.1 a rest := by
      refine ⟨Int.le_refl _, fun q hq => hc.1 q (Array.mem_def.mpr (hp ▸ hq)), ?_⟩
      have := hc.2; rwa [hp] at this
    have hq' : q ∈ a :: rest := hp ▸ Array.mem_def.mp hq
    obtain ⟨r, hr, k⟩ := mergeGo_covers thr a.1 a rest hchain x (by
      rcases List.mem_cons.mp hq' with rfl | hq'
      · exact Or.inl ⟨h1, h2⟩
      · exact Or.inr ⟨q, hq', h1, h2⟩)
    exact ⟨r, by simpa using hr, k⟩

/-- **… and adds nothing but gaps of width at most the threshold**: every instant of the result lies in an
interval of the original set or strictly inside such a gap between two consecutive intervals -/
theorem mergeClose_only (p : Array (Int × Int)) (hc : CanonicalPairs p) (thr : Int) (x : Int)
    (hx : InOut (ISet.mergeClose p thr) x) : InOut p x ∨ InSmallGap p thr x := by
  match hp : p.toList with
  | [] =>
    unfold ISet.mergeClose at hx; rw [hp] at hx
    obtain ⟨q, hq, _⟩ := hx; simp at hq
  | a :: rest =>
    rw [mergeClose_eq p hc thr a rest hp] at hx
    obtain ⟨q, hq, k⟩ := hx
    rcases mergeGo_only thr a.1 a rest x ⟨q, by simpa using hq, k⟩ with k | ⟨q', hq', k⟩ | k
    · exact Or.inl ⟨a, Array.mem_def.mpr (hp ▸ List.mem_cons_self), k⟩
    · exact Or.inl ⟨q', Array.mem_def.mpr (hp ▸ List.mem_cons_of_mem _ hq'), k⟩
    · exact Or.inr (inSmallGap_of_list p thr x (hp ▸ k))

/-- a negative threshold merges nothing (gaps of a canonical set are positive) -/
theorem mergeGo_neg (thr : Int) (hthr : thr < 0) (c : Int) (prev : Int × Int) (rest : List (Int × Int))
    (hch : ChainOK c prev rest) : mergeGo thr c prev rest = (c, prev.2) :: rest := by
  induction rest generalizing c prev with
  | nil => simp [mergeGo]
  | cons b r ih =>
    obtain ⟨k1, k2, hpb, hp, hb⟩ := chainOK_step c prev b r hch
    rw [mergeGo, if_pos (by omega), ih b.1 b k2]

/-! ## split, and the metadata-carrying variants: their intervals come out of the same constructor -/

theorem new_iv (st en : Array Int) (h : st.size = en.size) (rows : Option (Array Row)) :
    (TISet.new st en h rows).iv = ISet.mk st en h := by
  unfold TISet.new ISet.mk jitfixIset
  exact C13.fixLoopW_fst _ _ _ _ _ _

theorem new_canonical (st en : Array Int) (h : st.size = en.size) (rows : Option (Array Row)) :
    CanonicalPairs (TISet.new st en h rows).iv := by
  rw [new_iv]; exact mk_canonical _ _ _

theorem empty_canonical : CanonicalPairs (#[] : Array (Int × Int)) :=
  ⟨fun q hq => by simp at hq, by simp⟩

/-- **split returns a canonical set**, whatever the piece size and whether or not metadata is attached -/
theorem split_canonical (a : TISet) (size : Int) : CanonicalPairs (a.split size).iv := by
  unfold TISet.split
  split
  · exact empty_canonical
  · simp only
    split
    · exact new_canonical _ _ _ _
    · exact empty_canonical

/-- **every instant of a piece lies in an interval of the set that was split** -/
theorem split_sound (a : TISet) (size : Int) (hpos : 0 < size) (x : Int) (hx : InOut (a.split size).iv x) :
    InOut a.iv x := by
  have e : a.split size = TISet.new
      ((C13.splitParts a size (a.rows.getD (Array.replicate a.iv.size []))).map (·.1.1)).toArray
      ((C13.splitParts a size (a.rows.getD (Array.replicate a.iv.size []))).map (·.1.2)).toArray (by simp)
      (some ((C13.splitParts a size (a.rows.getD (Array.replicate a.iv.size []))).map (·.2)).toArray) := by
    unfold TISet.split
    have hs0 : ¬ size ≤ 0 := by omega
    simp only [hs0, if_false]
    rw [dif_pos (by simp)]
    rfl
  rw [e, new_iv] at hx
  obtain ⟨i, hi, h1, h2⟩ := mk_sound _ _ _ x hx
  have hi' : i < (C13.splitParts a size (a.rows.getD (Array.replicate a.iv.size []))).length := by simpa using hi
  obtain ⟨k, hk, _, e2, e3⟩ := C13.splitParts_inside a size hpos _ _ (List.getElem_mem hi')
  refine ⟨a.iv[k], Array.getElem_mem hk, ?_, ?_⟩
  · simp at h1; omega
  · simp at h2; omega

theorem tgetIdx_canonical (a : TISet) (ix : Array Nat) (r : TISet) (h : a.getIdx ix = some r) :
    CanonicalPairs r.iv := by
  unfold TISet.getIdx at h
  split at h
  · cases h; exact new_canonical _ _ _ _
  · cases h

theorem tintersect_canonical (a b : TISet) : CanonicalPairs (a.intersect b).iv := by
  unfold TISet.intersect
  simp only
  split
  · exact new_canonical _ _ _ _
  · exact empty_canonical

theorem tdiff_canonical (a b : TISet) : CanonicalPairs (a.diff b).iv := by
  unfold TISet.diff
  simp only
  split
  · exact new_canonical _ _ _ _
  · exact empty_canonical

/-! ## find_support -/

/-- the groups `find_support` forms, as a recursion: `c` = first timestamp of the group being built,
`prev` = the last timestamp put into it -/
def findGo (gap : Int) (c prev : Int) : List Int → List (Int × Int)
  | [] => [(c, prev + 1000)]
  | x :: r => if x - prev > gap then (c, prev + 1000) :: findGo gap x x r else findGo gap c x r

theorem findLoop_zip (gap c prev : Int) (r : List Int) :
    List.zip (c :: (findLoop gap prev r).1) (findLoop gap prev r).2 = findGo gap c prev r := by
  induction r generalizing c prev with
  | nil => simp [findLoop, findGo]
  | cons x r ih =>
    simp only [findLoop, findGo]
    split
    · simp only [List.zip_cons_cons]; rw [ih]
    · exact ih c x

/-- timestamps non-decreasing from `prev` on, and the group start not after `prev` -/
def TsOK (c prev : Int) (r : List Int) : Prop := c ≤ prev ∧ (prev :: r).Pairwise (· ≤ ·)

theorem tsOK_step (c prev x : Int) (r : List Int) (h : TsOK c prev (x :: r)) :
    TsOK c x r ∧ TsOK x x r ∧ prev ≤ x := by
  obtain ⟨h1, h2⟩ := h
  have hpx : prev ≤ x := (List.pairwise_cons.mp h2).1 x (by simp)
  have h2' := (List.pairwise_cons.mp h2).2
  exact ⟨⟨by omega, h2'⟩, ⟨Int.le_refl _, h2'⟩, hpx⟩

theorem findGo_spec (gap : Int) (hgap : 1000 ≤ gap) (c prev : Int) (r : List Int) (h : TsOK c prev r) :
    (∀ q ∈ findGo gap c prev r, c ≤ q.1 ∧ q.1 < q.2) ∧ (findGo gap c prev r).Pairwise (fun a b => a.2 < b.1) := by
  induction r generalizing c prev with
  | nil =>
    have := h.1
    simp only [findGo, List.mem_singleton, List.pairwise_cons, List.not_mem_nil, List.Pairwise.nil]
    refine ⟨fun q hq => ?_, by simp⟩
    subst hq; simp; omega
  | cons x r ih =>
    obtain ⟨k1, k2, hpx⟩ := tsOK_step c prev x r h
    have hc := h.1
    rw [findGo]
    split
    · obtain ⟨i1, i2⟩ := ih x x k2
      refine ⟨fun q hq => ?_, ?_⟩
      · rcases List.mem_cons.mp hq with rfl | hq
        · simp; omega
        · have := i1 q hq; omega
      · refine List.pairwise_cons.mpr ⟨fun q hq => ?_, i2⟩
        have := i1 q hq
        simp; omega
    · exact ih c x k1

/-- **find_support(min_gap) with min_gap ≥ 1 µs is exactly its groups**: the constructor changes nothing -/
theorem findSupport_eq (ts : Array Int) (hs : Sorted ts) (gap : Int) (hgap : 1000 ≤ gap) (t0 : Int) (rest : List Int)
    (hp : ts.toList = t0 :: rest) : ISet.findSupport ts gap = some (findGo gap t0 t0 rest).toArray := by
  unfold ISet.findSupport
  rw [hp]
  simp only
  congr 1
  have hz := findLoop_zip gap t0 t0 rest
  have hlen := findLoop_length gap t0 rest
  have e1 : pairsSt (findGo gap t0 t0 rest).toArray = (t0 :: (findLoop gap t0 rest).1).toArray := by
    rw [← hz]; apply Array.ext'; simp [pairsSt, List.map_fst_zip, hlen]
  have e2 : pairsEn (findGo gap t0 t0 rest).toArray = (findLoop gap t0 rest).2.toArray := by
    rw [← hz]; apply Array.ext'; simp [pairsEn, List.map_snd_zip, hlen]
  have hok : TsOK t0 t0 rest := by
    refine ⟨Int.le_refl _, ?_⟩
    rw [← hp]
    exact List.pairwise_iff_getElem.mpr fun i j hi hj hij => by
      have := hs i j (by simpa using hi) (by simpa using hj) (by omega)
      simpa using this
  obtain ⟨s1, s2⟩ := findGo_spec gap hgap t0 t0 rest hok
  have hcan : CanonicalPairs (findGo gap t0 t0 rest).toArray :=
    ⟨fun q hq => (s1 q (by simpa using hq)).2, by simpa using s2⟩
  have := mk_canonical_id _ hcan
  have key : ∀ (st st' en en' : Array Int) (h : st.size = en.size) (h' : st'.size = en'.size),
      st = st' → en = en' → ISet.mk st en h = ISet.mk st' en' h' := by
    intro st st' en en' h h' e e'; subst e; subst e'; rfl
  rw [← this]
  exact key _ _ _ _ _ _ e1.symm e2.symm

theorem findSupport_canonical (ts : Array Int) (gap : Int) (r : Array (Int × Int))
    (h : ISet.findSupport ts gap = some r) : CanonicalPairs r := by
  unfold ISet.findSupport at h
  split at h
  · cases h
  · cases h; exact mk_canonical _ _ _

theorem findGo_covers (gap c prev : Int) (r : List Int) (hok : TsOK c prev r) (t : Int)
    (h : (c ≤ t ∧ t ≤ prev) ∨ t ∈ r) : ∃ q ∈ findGo gap c prev r, q.1 ≤ t ∧ t ≤ q.2 := by
  induction r generalizing c prev with
  | nil =>
    rcases h with h | h
    · exact ⟨(c, prev + 1000), by simp [findGo], h.1, by simp; omega⟩
    · simp at h
  | cons x r ih =>
    obtain ⟨k1, k2, hpx⟩ := tsOK_step c prev x r hok
    have hc := hok.1
    rw [findGo]
    split
    · rcases h with h | h
      · exact ⟨(c, prev + 1000), by simp, h.1, by simp; omega⟩
      · rcases List.mem_cons.mp h with e | h
        · subst e
          obtain ⟨q', hq', k⟩ := ih t t k2 (Or.inl ⟨Int.le_refl _, Int.le_refl _⟩)
          exact ⟨q', List.mem_cons_of_mem _ hq', k⟩
        · obtain ⟨q', hq', k⟩ := ih x x k2 (Or.inr h)
          exact ⟨q', List.mem_cons_of_mem _ hq', k⟩
    · rcases h with h | h
      · exact ih c x k1 (Or.inl ⟨h.1, by omega⟩)
      · rcases List.mem_cons.mp h with e | h
        · subst e
          exact ih c t k1 (Or.inl ⟨by omega, Int.le_refl _⟩)
        · exact ih c x k1 (Or.inr h)

/-- **find_support contains every timestamp** (min_gap ≥ 1 µs) -/
theorem findSupport_covers (ts : Array Int) (hs : Sorted ts) (gap : Int) (hgap : 1000 ≤ gap) (r : Array (Int × Int))
    (h : ISet.findSupport ts gap = some r) (t : Int) (ht : t ∈ ts) : InOut r t := by
  match hp : ts.toList with
  | [] => have := Array.mem_def.mp ht; rw [hp] at this; simp at this
  | t0 :: rest =>
    rw [findSupport_eq ts hs gap hgap t0 rest hp] at h
    cases h
    have hok : TsOK t0 t0 rest := by
      refine ⟨Int.le_refl _, ?_⟩
      rw [← hp]
      exact List.pairwise_iff_getElem.mpr fun i j hi hj hij => by
        have := hs i j (by simpa using hi) (by simpa using hj) (by omega)
        simpa using this
    have ht' : t ∈ t0 :: rest := hp ▸ Array.mem_def.mp ht
    obtain ⟨q, hq, k⟩ := findGo_covers gap t0 t0 rest hok t (by
      rcases List.mem_cons.mp ht' with e | h
      · subst e; exact Or.inl ⟨Int.le_refl _, Int.le_refl _⟩
      · exact Or.inr h)
    exact ⟨q, by simpa using hq, k⟩

/-- every interval of the support starts at a timestamp and ends 1 µs after a timestamp -/
theorem findGo_endpoints (gap c prev : Int) (r : List Int) (q : Int × Int) (hq : q ∈ findGo gap c prev r) :
    (q.1 = c ∨ q.1 ∈ r) ∧ (q.2 = prev + 1000 ∨ ∃ t ∈ r, q.2 = t + 1000) := by
  induction r generalizing c prev with
  | nil => simp only [findGo, List.mem_singleton] at hq; subst hq; simp
  | cons x r ih =>
    rw [findGo] at hq
    split at hq
    · rcases List.mem_cons.mp hq with e | hq
      · subst e; simp
      · obtain ⟨a, b⟩ := ih x x hq
        refine ⟨?_, ?_⟩
        · rcases a with a | a
          · exact Or.inr (by simp [a])
          · exact Or.inr (List.mem_cons_of_mem _ a)
        · rcases b with b | ⟨t, ht, b⟩
          · exact Or.inr ⟨x, by simp, b⟩
          · exact Or.inr ⟨t, List.mem_cons_of_mem _ ht, b⟩
    · obtain ⟨a, b⟩ := ih c x hq
      refine ⟨?_, ?_⟩
      · rcases a with a | a
        · exact Or.inl a
        · exact Or.inr (List.mem_cons_of_mem _ a)
      · rcases b with b | ⟨t, ht, b⟩
        · exact Or.inr ⟨x, by simp, b⟩
        · exact Or.inr ⟨t, List.mem_cons_of_mem _ ht, b⟩

example : ISet.findSupport #[0, 1000, 5000, 5500, 9000] 2000 = some #[(0, 2000), (5000, 6500), (9000, 10000)] := by
  decide +kernel
example : ISet.findSupport #[] 2000 = none := by decide +kernel

-- non-vacuity: a gap of 2 µs is closed by a 2 µs threshold and kept by a 1 µs one; touching after trim
example : ISet.mergeClose #[(0, 10000), (12000, 20000), (25000, 30000), (31000, 40000)] 2000
    = #[(0, 20000), (25000, 40000)] := by decide +kernel
example : ISet.mergeClose #[(0, 10000), (12000, 20000), (25000, 30000), (31000, 40000)] 1000
    = #[(0, 10000), (12000, 20000), (25000, 40000)] := by decide +kernel
example : ISet.dropShort #[(0, 10000), (12000, 20000), (25000, 30000)] 8000 = #[(0, 10000)] := by decide +kernel
example : ISet.dropLong #[(0, 10000), (12000, 20000), (25000, 30000)] 8000 = #[(25000, 30000)] := by decide +kernel
example : ISet.getIdx #[(0, 10000), (12000, 20000), (25000, 30000)] #[2, 0, 0] = some #[(0, 10000), (25000, 30000)] := by
  decide +kernel
example : ISet.timeSpan #[] = none := by decide +kernel

end Pyn.C01

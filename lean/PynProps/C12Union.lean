import PynProps.C11
import PynProps.C02
/-!
# C12: the support of a TsGroup built without `time_support` is the union of its members' supports

`_union_intervals` has three branches (`Pyn.unionSupports`): one member — its own support; two — `jitunion`
(`C02.ISet_union_pointwise`); more — all intervals argsorted by start and swept by `jitunion_isets`, then the
IntervalSet constructor.  This file proves the third branch pointwise and EXACTLY (no 1 µs sliver: the sweep merges
touching intervals and separates what it emits strictly, so the constructor changes nothing):
`unionSupports_pointwise` — an instant lies in the group support iff it lies in the support of some member.
-/
namespace Pyn.C12
open Pyn Pyn.C01 Pyn.C11

/-- the sweep of `jitunion_isets` over the pairs that remain: `(curS, e)` is the interval being grown -/
def sweep (curS e : Int) : List (Int × Int) → List (Int × Int)
  | [] => [(curS, e)]
  | p :: r => if p.1 > e then (curS, e) :: sweep p.1 p.2 r else sweep curS (max e p.2) r

/-- the array loop is the list sweep over the remaining pairs -/
theorem unionIsetsLoop_eq (st en : Array Int) (h : st.size = en.size) (i : Nat) (curS e : Int) (out : UOut) :
    (unionIsetsLoop st en h i curS e out).st = out.st ++ ((sweep curS e ((st.zip en).toList.drop i)).map (·.1)).toArray ∧
    (unionIsetsLoop st en h i curS e out).en = out.en ++ ((sweep curS e ((st.zip en).toList.drop i)).map (·.2)).toArray := by
  induction hn : st.size - i generalizing i curS e out with
  | zero =>
    have hi : ¬ i < st.size := by omega
    rw [unionIsetsLoop, dif_neg hi]
    have : (st.zip en).toList.drop i = [] := by
      apply List.drop_eq_nil_of_le; simp; omega
    rw [this]
    simp [sweep]
  | succ n ih =>
    have hi : i < st.size := by omega
    have hlen : i < (st.zip en).toList.length := by simp; omega
    have hd : (st.zip en).toList.drop i = (st[i], en[i]'(h ▸ hi)) :: (st.zip en).toList.drop (i + 1) := by
      rw [List.drop_eq_getElem_cons hlen]
      simp
    rw [unionIsetsLoop, dif_pos hi, hd]
    simp only [sweep]
    split
    · obtain ⟨a, b⟩ := ih (i + 1) st[i] (en[i]'(h ▸ hi)) { st := out.st.push curS, en := out.en.push e } (by omega)
      rw [a, b]
      constructor <;> (apply Array.ext'; simp)
    · exact ih (i + 1) curS (max e (en[i]'(h ▸ hi))) out (by omega)

/-- the remaining pairs are sorted by start, proper, and none starts before the interval being grown -/
def SweepOK (curS e : Int) (l : List (Int × Int)) : Prop :=
  curS < e ∧ (∀ p ∈ l, curS ≤ p.1 ∧ p.1 < p.2) ∧ l.Pairwise (fun a b => a.1 ≤ b.1)

theorem sweepOK_step (curS e : Int) (p : Int × Int) (r : List (Int × Int)) (h : SweepOK curS e (p :: r)) :
    SweepOK p.1 p.2 r ∧ SweepOK curS (max e p.2) r ∧ curS ≤ p.1 ∧ p.1 < p.2 ∧ curS < e := by
  obtain ⟨h1, h2, h3⟩ := h
  have hp := h2 p (by simp)
  have h3a := (List.pairwise_cons.mp h3).1
  have h3b := (List.pairwise_cons.mp h3).2
  refine ⟨⟨hp.2, fun q hq => ⟨h3a q hq, (h2 q (List.mem_cons_of_mem _ hq)).2⟩, h3b⟩,
    ⟨by omega, fun q hq => h2 q (List.mem_cons_of_mem _ hq), h3b⟩, hp.1, hp.2, h1⟩

theorem sweep_spec (curS e : Int) (l : List (Int × Int)) (h : SweepOK curS e l) :
    (∀ q ∈ sweep curS e l, curS ≤ q.1 ∧ q.1 < q.2) ∧ (sweep curS e l).Pairwise (fun a b => a.2 < b.1) ∧
    ∀ x, (∃ q ∈ sweep curS e l, q.1 ≤ x ∧ x ≤ q.2) ↔ ((curS ≤ x ∧ x ≤ e) ∨ ∃ p ∈ l, p.1 ≤ x ∧ x ≤ p.2) := by
  induction l generalizing curS e with
  | nil =>
    have := h.1
    refine ⟨fun q hq => ?_, by simp [sweep], fun x => ?_⟩
    · simp only [sweep, List.mem_singleton] at hq; subst hq; simp; omega
    · simp [sweep]
  | cons p r ih =>
    obtain ⟨k1, k2, hcp, hpp, hce⟩ := sweepOK_step curS e p r h
    simp only [sweep]
    split
    · rename_i hgt
      obtain ⟨i1, i2, i3⟩ := ih p.1 p.2 k1
      refine ⟨fun q hq => ?_, ?_, fun x => ?_⟩
      · rcases List.mem_cons.mp hq with rfl | hq
        · simp; omega
        · have := i1 q hq; omega
      · refine List.pairwise_cons.mpr ⟨fun q hq => ?_, i2⟩
        have := i1 q hq
        simp; omega
      · constructor
        · rintro ⟨q, hq, hx⟩
          rcases List.mem_cons.mp hq with rfl | hq
          · exact Or.inl hx
          · rcases (i3 x).mp ⟨q, hq, hx⟩ with k | ⟨p', hp', k⟩
            · exact Or.inr ⟨p, by simp, k⟩
            · exact Or.inr ⟨p', List.mem_cons_of_mem _ hp', k⟩
        · rintro (hx | ⟨p', hp', hx⟩)
          · exact ⟨(curS, e), by simp, hx⟩
          · rcases List.mem_cons.mp hp' with e' | hp'
            · subst e'
              obtain ⟨q, hq, k⟩ := (i3 x).mpr (Or.inl hx)
              exact ⟨q, List.mem_cons_of_mem _ hq, k⟩
            · obtain ⟨q, hq, k⟩ := (i3 x).mpr (Or.inr ⟨p', hp', hx⟩)
              exact ⟨q, List.mem_cons_of_mem _ hq, k⟩
    · rename_i hle
      obtain ⟨i1, i2, i3⟩ := ih curS (max e p.2) k2
      refine ⟨i1, i2, fun x => ?_⟩
      rw [i3 x]
      constructor
      · rintro (hx | ⟨p', hp', hx⟩)
        · by_cases hxe : x ≤ e
          · exact Or.inl ⟨hx.1, hxe⟩
          · exact Or.inr ⟨p, by simp, by omega, by omega⟩
        · exact Or.inr ⟨p', List.mem_cons_of_mem _ hp', hx⟩
      · rintro (hx | ⟨p', hp', hx⟩)
        · exact Or.inl ⟨hx.1, by omega⟩
        · rcases List.mem_cons.mp hp' with e' | hp'
          · subst e'; exact Or.inl ⟨by omega, by omega⟩
          · exact Or.inr ⟨p', hp', hx⟩

theorem mk_congr (st st' en en' : Array Int) (h : st.size = en.size) (h' : st'.size = en'.size)
    (e1 : st = st') (e2 : en = en') : ISet.mk st en h = ISet.mk st' en' h' := by
  subst e1; subst e2; rfl

/-- **`jitunion_isets` followed by the constructor, on pairs sorted by start**: the result is the sweep itself
(canonical, the constructor changes nothing), and it covers exactly the union of the pairs -/
theorem unionIsets_mk (all : Array (Int × Int)) (hs : all.toList.Pairwise (fun a b => a.1 ≤ b.1))
    (hp : ∀ p ∈ all, p.1 < p.2) (hsz : (jitunionIsets (pairsSt all) (pairsEn all) (pairs_size all)).st.size =
      (jitunionIsets (pairsSt all) (pairsEn all) (pairs_size all)).en.size) (x : Int) :
    InOut (ISet.mk _ _ hsz) x ↔ ∃ p ∈ all, p.1 ≤ x ∧ x ≤ p.2 := by
  match hl : all.toList with
  | [] =>
    have h0 : all = #[] := by apply Array.ext'; simpa using hl
    subst h0
    constructor
    · rintro ⟨q, hq, _⟩
      have e1 : (jitunionIsets (pairsSt #[]) (pairsEn #[]) (pairs_size #[])).st = #[] := by decide +kernel
      have e2 : (jitunionIsets (pairsSt #[]) (pairsEn #[]) (pairs_size #[])).en = #[] := by decide +kernel
      rw [mk_congr _ _ _ _ hsz rfl e1 e2] at hq
      have : ISet.mk #[] #[] rfl = #[] := by decide +kernel
      rw [this] at hq; simp at hq
    · rintro ⟨p, hp', _⟩; simp at hp'
  | p0 :: rest =>
    have hn : 0 < (pairsSt all).size := by
      have := congrArg List.length hl; simp [pairsSt] at this ⊢; omega
    have hz : ((pairsSt all).zip (pairsEn all)).toList = all.toList := by
      simp [pairsSt, pairsEn, Array.toList_zip, List.zip_map_left, List.zip_map_right]
      apply List.ext_getElem <;> simp
    have h0s : (pairsSt all)[0]'hn = p0.1 := by
      have : all[0]'(by simpa [pairsSt] using hn) = p0 := by
        have : all.toList[0]'(by simpa [pairsSt] using hn) = p0 := by simp [hl]
        simpa using this
      simp [pairsSt, this]
    have h0e : (pairsEn all)[0]'(by rw [← pairs_size]; exact hn) = p0.2 := by
      have : all[0]'(by simpa [pairsSt] using hn) = p0 := by
        have : all.toList[0]'(by simpa [pairsSt] using hn) = p0 := by simp [hl]
        simpa using this
      simp [pairsEn, this]
    have hloop := unionIsetsLoop_eq (pairsSt all) (pairsEn all) (pairs_size all) 1 p0.1 p0.2 {}
    rw [hz, hl] at hloop
    simp only [List.drop_succ_cons, List.drop_zero] at hloop
    have hok : SweepOK p0.1 p0.2 rest := by
      have hall : ∀ q ∈ p0 :: rest, q.1 < q.2 := fun q hq => hp q (Array.mem_def.mpr (hl ▸ hq))
      have hsr : (p0 :: rest).Pairwise (fun a b => a.1 ≤ b.1) := hl ▸ hs
      exact ⟨hall p0 (by simp), fun q hq => ⟨(List.pairwise_cons.mp hsr).1 q hq, hall q (List.mem_cons_of_mem _ hq)⟩,
        (List.pairwise_cons.mp hsr).2⟩
    obtain ⟨s1, s2, s3⟩ := sweep_spec p0.1 p0.2 rest hok
    have hcan : CanonicalPairs (sweep p0.1 p0.2 rest).toArray :=
      ⟨fun q hq => (s1 q (by simpa using hq)).2, by simpa using s2⟩
    have e1 : (jitunionIsets (pairsSt all) (pairsEn all) (pairs_size all)).st = pairsSt (sweep p0.1 p0.2 rest).toArray := by
      unfold jitunionIsets
      rw [dif_pos hn]
      simp only [h0s, h0e]
      rw [hloop.1]
      apply Array.ext'; simp [pairsSt]
    have e2 : (jitunionIsets (pairsSt all) (pairsEn all) (pairs_size all)).en = pairsEn (sweep p0.1 p0.2 rest).toArray := by
      unfold jitunionIsets
      rw [dif_pos hn]
      simp only [h0s, h0e]
      rw [hloop.2]
      apply Array.ext'; simp [pairsEn]
    rw [mk_congr _ _ _ _ hsz (pairs_size _) e1 e2, mk_canonical_id _ hcan]
    constructor
    · rintro ⟨q, hq, hx⟩
      rcases (s3 x).mp ⟨q, by simpa using hq, hx⟩ with k | ⟨p, hp', k⟩
      · exact ⟨p0, Array.mem_def.mpr (hl ▸ List.mem_cons_self), k⟩
      · exact ⟨p, Array.mem_def.mpr (hl ▸ List.mem_cons_of_mem _ hp'), k⟩
    · rintro ⟨p, hp', hx⟩
      have hp'' : p ∈ p0 :: rest := hl ▸ Array.mem_def.mp hp'
      obtain ⟨q, hq, k⟩ := (s3 x).mpr (by
        rcases List.mem_cons.mp hp'' with e | h
        · subst e; exact Or.inl hx
        · exact Or.inr ⟨p, h, hx⟩)
      exact ⟨q, by simpa using hq, k⟩

theorem jitunionIsets_size (st en : Array Int) (h : st.size = en.size) :
    (jitunionIsets st en h).st.size = (jitunionIsets st en h).en.size := by
  unfold jitunionIsets
  split
  · obtain ⟨a, b⟩ := unionIsetsLoop_eq st en h 1 st[0] (en[0]'(by omega)) {}
    rw [a, b]; simp
  · rfl

/-- **the support of a group of three or more members built without `time_support`**: an instant lies in it iff it
lies in the support of one of the members — exactly, for any number of members and any (canonical) supports -/
theorem unionSupports_many (a b c : Array (Int × Int)) (rest : List (Array (Int × Int)))
    (hc : ∀ s ∈ a :: b :: c :: rest, CanonicalPairs s) (x : Int) :
    InOut (unionSupports (a :: b :: c :: rest)) x ↔ ∃ s ∈ a :: b :: c :: rest, InOut s x := by
  have hu : unionSupports (a :: b :: c :: rest) =
      ISet.mk _ _ (jitunionIsets_size (pairsSt (sortTK ((a :: b :: c :: rest).flatMap (·.toList))).toArray)
        (pairsEn (sortTK ((a :: b :: c :: rest).flatMap (·.toList))).toArray) (pairs_size _)) := by
    simp only [unionSupports]
    rw [dif_pos (jitunionIsets_size _ _ _)]
  rw [hu, unionIsets_mk _ (by simpa using sortTK_sorted _) (fun p hp => ?_)]
  · constructor
    · rintro ⟨p, hp, hx⟩
      have : p ∈ (a :: b :: c :: rest).flatMap (·.toList) := (sortTK_perm _).mem_iff.mp (by simpa using hp)
      obtain ⟨s, hs, hps⟩ := List.mem_flatMap.mp this
      exact ⟨s, hs, p, Array.mem_def.mpr hps, hx⟩
    · rintro ⟨s, hs, p, hp, hx⟩
      refine ⟨p, ?_, hx⟩
      have : p ∈ sortTK ((a :: b :: c :: rest).flatMap (·.toList)) :=
        (sortTK_perm _).mem_iff.mpr (List.mem_flatMap.mpr ⟨s, hs, Array.mem_def.mp hp⟩)
      simpa using this
  · have : p ∈ (a :: b :: c :: rest).flatMap (·.toList) := (sortTK_perm _).mem_iff.mp (by simpa using hp)
    obtain ⟨s, hs, hps⟩ := List.mem_flatMap.mp this
    exact (hc s hs).1 p (Array.mem_def.mpr hps)

/-- one member: the group support is the member's own -/
theorem unionSupports_one (a : Array (Int × Int)) : unionSupports [a] = a := rfl

/-- two members: `jitunion` (pointwise up to the 1 µs slivers of the touch separation: `C02.ISet_union_pointwise`) -/
theorem unionSupports_two (a b : Array (Int × Int)) : unionSupports [a, b] = ISet.union a b := rfl

-- non-vacuity: three members, overlapping / touching / disjoint supports
example : unionSupports [#[(0, 10), (20, 30)], #[(5, 12), (30, 31)], #[(40, 41)]] = #[(0, 12), (20, 31), (40, 41)] := by
  decide +kernel

end Pyn.C12

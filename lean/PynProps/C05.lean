import PynModel.Kernels.Count
/-!
# C05 — count and bin_average attribute each sample to exactly its own bin
Model: `Pyn.jitbin` (`jitcount` / `_jitbin_array`: `binLoop` over the bins of one epoch, `countIn`
the innermost sample scan).  Proved so far: the innermost scan and the bin grid.
-/
namespace Pyn.C05
open Pyn

/-- **innermost scan**: starting at sample `t`, `countIn` consumes exactly the maximal run of
samples below the right edge: it returns `(t', c', _)` with `c' = c + (t' - t)`, every consumed
sample is `< rbound`, and the first unconsumed sample of the epoch (if any) is `≥ rbound`. -/
theorem countIn_spec (ts dat : Array Int) (maxt : Nat) (hm : maxt ≤ ts.size) (rb : Int) (t c : Nat) (s : Int)
    (ht : t ≤ maxt) :
    t ≤ (countIn ts dat maxt hm rb t c s).1 ∧ (countIn ts dat maxt hm rb t c s).1 ≤ maxt ∧
    (countIn ts dat maxt hm rb t c s).2.1 = c + ((countIn ts dat maxt hm rb t c s).1 - t) ∧
    (∀ i, t ≤ i → i < (countIn ts dat maxt hm rb t c s).1 → (hi : i < ts.size) → ts[i] < rb) ∧
    ((h : (countIn ts dat maxt hm rb t c s).1 < maxt) → (h' : (countIn ts dat maxt hm rb t c s).1 < ts.size) →
      ts[(countIn ts dat maxt hm rb t c s).1] ≥ rb) := by
  fun_induction countIn ts dat maxt hm rb t c s with
  | case1 t c s h hlt ih =>
    obtain ⟨h1, h2, h3, h4, h5⟩ := ih (by omega)
    refine ⟨by omega, h2, by omega, ?_, h5⟩
    intro i hi1 hi2 hi
    by_cases hit : i = t
    · subst hit; exact hlt
    · exact h4 i (by omega) hi2 hi
  | case2 t c s h hge =>
    exact ⟨Nat.le_refl _, ht, by simp, fun i h1 h2 => by omega, fun _ _ => by dsimp only; omega⟩
  | case3 t c s h =>
    exact ⟨Nat.le_refl _, ht, by simp, fun i h1 h2 => by omega, fun h' => by dsimp only at h'; omega⟩

/-- **bin grid**: the bins reported for an epoch are appended to `out`; the k-th appended bin has
(doubled) centre `2*(l + k*bs) + bs`, it is reported only if that centre does not exceed the epoch
end, and at most `nb` bins are appended. -/
theorem binLoop_centres (ts dat : Array Int) (maxt : Nat) (hm : maxt ≤ ts.size) (e bs : Int) (nb : Nat)
    (l : Int) (t : Nat) (out : Array (Int × Nat × Int)) :
    out.size ≤ (binLoop ts dat maxt hm e bs nb l t out).size ∧
    (binLoop ts dat maxt hm e bs nb l t out).size ≤ out.size + nb ∧
    (∀ k, (hk : k < out.size) → (hk' : k < (binLoop ts dat maxt hm e bs nb l t out).size) →
        (binLoop ts dat maxt hm e bs nb l t out)[k] = out[k]) ∧
    (∀ k, out.size ≤ k → (hk : k < (binLoop ts dat maxt hm e bs nb l t out).size) →
        (binLoop ts dat maxt hm e bs nb l t out)[k].1 = 2 * (l + ((k - out.size : Nat) : Int) * bs) + bs ∧
        (binLoop ts dat maxt hm e bs nb l t out)[k].1 ≤ 2 * e) := by
  induction nb generalizing l t out with
  | zero =>
    simp only [binLoop]
    exact ⟨Nat.le_refl _, by omega, by simp, fun k h1 h2 => by omega⟩
  | succ nb ih =>
    simp only [binLoop]
    split
    · exact ⟨Nat.le_refl _, by omega, by simp, fun k h1 h2 => by omega⟩
    · rename_i hle
      have := ih (l + bs) (countIn ts dat maxt hm (l + bs) t 0 0).1
        (out.push (2 * l + bs, (countIn ts dat maxt hm (l + bs) t 0 0).2.1, (countIn ts dat maxt hm (l + bs) t 0 0).2.2))
      simp only [Array.size_push] at this
      obtain ⟨h1, h2, h3, h4⟩ := this
      refine ⟨by omega, by omega, ?_, ?_⟩
      · intro k hk hk'
        rw [h3 k (by omega) hk', Array.getElem_push_lt hk]
      · intro k hk1 hk
        by_cases hk0 : k = out.size
        · subst hk0
          rw [h3 _ (by omega) hk]
          simp; omega
        · obtain ⟨h5, h6⟩ := h4 k (by omega) hk
          refine ⟨?_, h6⟩
          rw [h5]
          have h7 : ((k - out.size : Nat) : Int) = ((k - (out.size + 1) : Nat) : Int) + 1 := by omega
          rw [h7, Int.add_mul]; omega

def binOk : R (Array (Int × Nat × Int)) → Array (Int × Nat × Int) → Bool
  | .ok a, b => a == b
  | _, _ => false

example : binOk (jitbin #[0, 1000, 1000, 2500] #[0,0,0,0] #[0] #[2500] rfl 1000)
    #[(1000, 1, 0), (3000, 2, 0), (5000, 1, 0)] = true := by decide +kernel

end Pyn.C05

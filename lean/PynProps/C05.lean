import PynModel.Kernels.Count
/-!
# C05 — count and bin_average attribute each sample to exactly its own bin
Model: `Pyn.jitbin` (`jitcount` / `_jitbin_array`: `binLoop` over the bins of one epoch, `countIn`
the innermost sample scan).  Proved: the innermost scan (`countIn_spec`), the bin grid
(`binLoop_centres`: the k-th reported bin of an epoch has centre `start + (k+1/2)·bin`, reported only
while the centre ≤ end), the attribution (`binLoop_counts`: the k-th bin carries the number of samples
of THIS epoch with `start + k·bin ≤ t < start + (k+1)·bin`; `countIn_counts`), and that the
preallocated bin count never truncates (`nbBins_suffices`).  Safety of the whole kernel is C15
(`jitbin_safe`).
-/
namespace Pyn.C05
open Pyn

/-- **innermost scan**: starting at sample `t`, `countIn` consumes exactly the maximal run of
samples below the right edge: it returns `(t', c', _)` with `c' = c + (t' - t)`, every consumed
sample is `< rbound`, and the first unconsumed sample of the epoch (if any) is `≥ rbound`. -/
theorem countIn_spec (ts dat : Array Int) (maxt : Nat) (hm : maxt ≤ ts.size) (rb : Int) (t c : Nat) (s : Int)
    (ht : t ≤ maxt) :
    t ≤ (countIn ts dat maxt hm rb t c s).1 ∧ (countIn ts dat maxt hm rb t c s).1 ≤ maxt ∧
    (countIn ts dat maxt hm rb t c s).2.1 = c + ((countIn ts dat maxt hm rb t c s).1 - t) ∧
    (∀ i, t ≤ i → i < (countIn ts dat maxt hm rb t c s).1 → (hi : i < ts.size) → ts[i] < rb) ∧
    ((h : (countIn ts dat maxt hm rb t c s).1 < maxt) → (h' : (countIn ts dat maxt hm rb t c s).1 < ts.size) →
      ts[(countIn ts dat maxt hm rb t c s).1] ≥ rb) := by
  fun_induction countIn ts dat maxt hm rb t c s with
  | case1 t c s h hlt ih =>
    obtain ⟨h1, h2, h3, h4, h5⟩ := ih (by omega)
    refine ⟨by omega, h2, by omega, ?_, h5⟩
    intro i hi1 hi2 hi
    by_cases hit : i = t
    · subst hit; exact hlt
    · exact h4 i (by omega) hi2 hi
  | case2 t c s h hge =>
    exact ⟨Nat.le_refl _, ht, by simp, fun i h1 h2 => by omega, fun _ _ => by dsimp only; omega⟩
  | case3 t c s h =>
    exact ⟨Nat.le_refl _, ht, by simp, fun i h1 h2 => by omega, fun h' => by dsimp only at h'; omega⟩

/-- **bin grid**: the bins reported for an epoch are appended to `out`; the k-th appended bin has
(doubled) centre `2*(l + k*bs) + bs`, it is reported only if that centre does not exceed the epoch
end, and at most `nb` bins are appended. -/
theorem binLoop_centres (ts dat : Array Int) (maxt : Nat) (hm : maxt ≤ ts.size) (e bs : Int) (nb : Nat)
    (l : Int) (t : Nat) (out : Array (Int × Nat × Int)) :
    out.size ≤ (binLoop ts dat maxt hm e bs nb l t out).size ∧
    (binLoop ts dat maxt hm e bs nb l t out).size ≤ out.size + nb ∧
    (∀ k, (hk : k < out.size) → (hk' : k < (binLoop ts dat maxt hm e bs nb l t out).size) →
        (binLoop ts dat maxt hm e bs nb l t out)[k] = out[k]) ∧
    (∀ k, out.size ≤ k → (hk : k < (binLoop ts dat maxt hm e bs nb l t out).size) →
        (binLoop ts dat maxt hm e bs nb l t out)[k].1 = 2 * (l + ((k - out.size : Nat) : Int) * bs) + bs ∧
        (binLoop ts dat maxt hm e bs nb l t out)[k].1 ≤ 2 * e) := by
  induction nb generalizing l t out with
  | zero =>
    simp only [binLoop]
    exact ⟨Nat.le_refl _, by omega, by simp, fun k h1 h2 => by omega⟩
  | succ nb ih =>
    simp only [binLoop]
    split
    · exact ⟨Nat.le_refl _, by omega, by simp, fun k h1 h2 => by omega⟩
    · rename_i hle
      have := ih (l + bs) (countIn ts dat maxt hm (l + bs) t 0 0).1
        (out.push (2 * l + bs, (countIn ts dat maxt hm (l + bs) t 0 0).2.1, (countIn ts dat maxt hm (l + bs) t 0 0).2.2))
      simp only [Array.size_push] at this
      obtain ⟨h1, h2, h3, h4⟩ := this
      refine ⟨by omega, by omega, ?_, ?_⟩
      · intro k hk hk'
        rw [h3 k (by omega) hk', Array.getElem_push_lt hk]
      · intro k hk1 hk
        by_cases hk0 : k = out.size
        · subst hk0
          rw [h3 _ (by omega) hk]
          simp; omega
        · obtain ⟨h5, h6⟩ := h4 k (by omega) hk
          refine ⟨?_, h6⟩
          rw [h5]
          have h7 : ((k - out.size : Nat) : Int) = ((k - (out.size + 1) : Nat) : Int) + 1 := by omega
          rw [h7, Int.add_mul]; omega

/-! ## attribution: each reported bin counts exactly its own samples -/

/-- number of samples with index in `[t, maxt)` and timestamp in the half-open bin `[a, b)` -/
def cntBin (ts : Array Int) (t maxt : Nat) (a b : Int) : Nat :=
  ((List.range maxt).filter fun i => decide (t ≤ i) && decide (a ≤ ts[i]!) && decide (ts[i]! < b)).length

theorem filter_range_interval (n t t' : Nat) (h1 : t ≤ t') (h2 : t' ≤ n) :
    ((List.range n).filter fun i => decide (t ≤ i) && decide (i < t')).length = t' - t := by
  induction n generalizing t' with
  | zero => simp; omega
  | succ n ih =>
    rw [List.range_succ, List.filter_append, List.length_append]
    by_cases hn : t' ≤ n
    · rw [ih t' h1 hn]
      have : ¬ (n < t') := by omega
      simp [this]
    · have ht' : t' = n + 1 := by omega
      subst ht'
      by_cases htn : t ≤ n
      · have e : ((List.range n).filter fun i => decide (t ≤ i) && decide (i < n + 1)) =
            ((List.range n).filter fun i => decide (t ≤ i) && decide (i < n)) := by
          apply List.filter_congr
          intro i hi
          simp only [List.mem_range] at hi
          simp [hi, Nat.lt_succ_of_lt hi]
        rw [e, ih n htn (Nat.le_refl _)]
        simp [htn]; omega
      · have e : ((List.range n).filter fun i => decide (t ≤ i) && decide (i < n + 1)) = [] := by
          rw [List.filter_eq_nil_iff]
          intro i hi
          simp only [List.mem_range] at hi
          simp; omega
        rw [e]
        simp [htn]; omega

/-- **the innermost scan counts exactly the samples of the bin.**  On non-decreasing timestamps, when
every remaining sample of the epoch is at or after the bin's left edge, the count returned by `countIn`
is the number of samples of the epoch with `lbound ≤ t < rbound`, and every sample left over is at or
after the right edge. -/
theorem countIn_counts (ts dat : Array Int) (maxt : Nat) (hm : maxt ≤ ts.size) (hs : Sorted ts) (lb rb : Int) (t : Nat)
    (ht : t ≤ maxt) (hlb : ∀ i, t ≤ i → i < maxt → (hi : i < ts.size) → lb ≤ ts[i]) :
    (countIn ts dat maxt hm rb t 0 0).2.1 = cntBin ts t maxt lb rb ∧
    t ≤ (countIn ts dat maxt hm rb t 0 0).1 ∧ (countIn ts dat maxt hm rb t 0 0).1 ≤ maxt ∧
    (∀ i, (countIn ts dat maxt hm rb t 0 0).1 ≤ i → i < maxt → (hi : i < ts.size) → rb ≤ ts[i]) ∧
    (∀ i, t ≤ i → i < (countIn ts dat maxt hm rb t 0 0).1 → (hi : i < ts.size) → ts[i] < rb) := by
  obtain ⟨h1, h2, h3, h4, h5⟩ := countIn_spec ts dat maxt hm rb t 0 0 ht
  generalize (countIn ts dat maxt hm rb t 0 0) = r at h1 h2 h3 h4 h5
  have hge : ∀ i, r.1 ≤ i → i < maxt → (hi : i < ts.size) → rb ≤ ts[i] := by
    intro i hi1 hi2 hi
    have hr : r.1 < maxt := by omega
    have := h5 hr (by omega)
    have := hs r.1 i (by omega) hi hi1
    omega
  refine ⟨?_, h1, h2, hge, h4⟩
  rw [h3]
  unfold cntBin
  have e : ((List.range maxt).filter fun i => decide (t ≤ i) && decide (lb ≤ ts[i]!) && decide (ts[i]! < rb)) =
      ((List.range maxt).filter fun i => decide (t ≤ i) && decide (i < r.1)) := by
    apply List.filter_congr
    intro i hi
    simp only [List.mem_range] at hi
    have hi' : i < ts.size := by omega
    rw [getElem!_pos ts i hi']
    by_cases hti : t ≤ i
    · have := hlb i hti hi hi'
      by_cases hir : i < r.1
      · have := h4 i hti hir hi'
        simp [hti, hir, *]
      · have := hge i (by omega) hi hi'
        have hn : ¬ ts[i] < rb := by omega
        simp [hti, hir, hn]
    · simp [hti]
  rw [e, filter_range_interval maxt t r.1 h1 h2]
  omega

theorem cntBin_shift (ts : Array Int) (t t' maxt : Nat) (hm : maxt ≤ ts.size) (a b : Int) (htt : t ≤ t')
    (hlow : ∀ i, t ≤ i → i < t' → (hi : i < ts.size) → ts[i] < a) :
    cntBin ts t maxt a b = cntBin ts t' maxt a b := by
  unfold cntBin
  congr 1
  apply List.filter_congr
  intro i hi
  simp only [List.mem_range] at hi
  have hi' : i < ts.size := by omega
  rw [getElem!_pos ts i hi']
  by_cases h1 : t' ≤ i
  · have : t ≤ i := by omega
    simp [h1, this]
  · by_cases h2 : t ≤ i
    · have := hlow i h2 (by omega) hi'
      have hn : ¬ a ≤ ts[i] := by omega
      simp [h1, h2, hn]
    · simp [h1, h2]

/-- **every reported bin holds the count of exactly its own samples.**  For non-decreasing timestamps
and an epoch whose samples `[t, maxt)` all lie at or after the epoch start `l`, the k-th bin the loop
reports carries the number of samples of THIS epoch with `l + k·bs ≤ t < l + (k+1)·bs` — samples on a
bin edge go to the bin on their right, no sample is counted twice, none of another epoch is counted. -/
theorem binLoop_counts (ts dat : Array Int) (maxt : Nat) (hm : maxt ≤ ts.size) (hs : Sorted ts) (e bs : Int) (hbs : 0 < bs)
    (nb : Nat) (l : Int) (t : Nat) (out : Array (Int × Nat × Int)) (ht : t ≤ maxt)
    (hlb : ∀ i, t ≤ i → i < maxt → (hi : i < ts.size) → l ≤ ts[i]) :
    ∀ k, out.size ≤ k → (hk : k < (binLoop ts dat maxt hm e bs nb l t out).size) →
      (binLoop ts dat maxt hm e bs nb l t out)[k].2.1 =
        cntBin ts t maxt (l + ((k - out.size : Nat) : Int) * bs) (l + (((k - out.size : Nat) : Int) + 1) * bs) := by
  induction nb generalizing l t out with
  | zero => intro k hk1 hk; simp only [binLoop] at hk; omega
  | succ nb ih =>
    intro k hk1 hk
    simp only [binLoop] at hk ⊢
    split at hk
    · omega
    · rename_i hle
      split
      · rename_i hgt; exact absurd hgt hle
      · obtain ⟨c1, c2, c3, c4, c5⟩ := countIn_counts ts dat maxt hm hs l (l + bs) t ht hlb
        have hcen := binLoop_centres ts dat maxt hm e bs nb (l + bs) (countIn ts dat maxt hm (l + bs) t 0 0).1
          (out.push (2 * l + bs, (countIn ts dat maxt hm (l + bs) t 0 0).2.1, (countIn ts dat maxt hm (l + bs) t 0 0).2.2))
        by_cases hk0 : k = out.size
        · subst hk0
          rw [hcen.2.2.1 out.size (by simp) hk]
          simp only [Array.getElem_push_eq, Nat.sub_self]
          rw [c1]; simp
        · have := ih (l + bs) (countIn ts dat maxt hm (l + bs) t 0 0).1
            (out.push (2 * l + bs, (countIn ts dat maxt hm (l + bs) t 0 0).2.1, (countIn ts dat maxt hm (l + bs) t 0 0).2.2))
            c3 (fun i h1 h2 hi => c4 i h1 h2 hi) k (by simp; omega) hk
          rw [this]
          simp only [Array.size_push]
          have e1 : ((k - (out.size + 1) : Nat) : Int) = ((k - out.size : Nat) : Int) - 1 := by omega
          rw [e1]
          have e2 : l + bs + (((k - out.size : Nat) : Int) - 1) * bs = l + ((k - out.size : Nat) : Int) * bs := by
            rw [Int.sub_mul]; omega
          have e3 : l + bs + (((k - out.size : Nat) : Int) - 1 + 1) * bs = l + (((k - out.size : Nat) : Int) + 1) * bs := by
            rw [Int.sub_add_cancel, Int.add_mul]; omega
          rw [e2, e3]
          symm
          apply cntBin_shift ts t _ maxt hm _ _ c2
          intro i h1 h2 hi
          have := c5 i h1 h2 hi
          have hpos : (1 : Int) ≤ ((k - out.size : Nat) : Int) := by omega
          have : bs ≤ ((k - out.size : Nat) : Int) * bs := by
            have := Int.mul_le_mul_of_nonneg_right hpos (Int.le_of_lt hbs)
            simpa using this
          omega

/-! ## bin_average: the sum of exactly the bin's samples -/

/-- sum of the data of the samples with index in `[t, maxt)` and timestamp in the half-open bin `[a, b)` -/
def sumBin (ts dat : Array Int) (t maxt : Nat) (a b : Int) : Int :=
  (((List.range maxt).filter fun i => decide (t ≤ i) && decide (a ≤ ts[i]!) && decide (ts[i]! < b)).map
    fun i => dat.getD i 0).sum

/-- sum of `dat` over the positions `t .. t'-1` -/
def idxSum (dat : Array Int) (t t' : Nat) : Int :=
  (((List.range t').filter fun i => decide (t ≤ i)).map fun i => dat.getD i 0).sum

theorem idxSum_self (dat : Array Int) (t : Nat) : idxSum dat t t = 0 := by
  unfold idxSum
  have : ((List.range t).filter fun i => decide (t ≤ i)) = [] := by
    rw [List.filter_eq_nil_iff]; intro i hi; simp only [List.mem_range] at hi; simp; omega
  rw [this]; rfl

theorem idxSum_succ (dat : Array Int) (t t' : Nat) (h : t ≤ t') :
    idxSum dat t (t'+1) = idxSum dat t t' + dat.getD t' 0 := by
  unfold idxSum
  rw [List.range_succ, List.filter_append, List.map_append, List.sum_append]
  simp [h]

theorem countIn_sum (ts dat : Array Int) (maxt : Nat) (hm : maxt ≤ ts.size) (rb : Int) (t c : Nat) (s : Int)
    (t0 : Nat) (ht0 : t0 ≤ t) (ht : t ≤ maxt) :
    (countIn ts dat maxt hm rb t c s).2.2 - idxSum dat t0 (countIn ts dat maxt hm rb t c s).1 = s - idxSum dat t0 t := by
  fun_induction countIn ts dat maxt hm rb t c s with
  | case1 t c s h hlt ih =>
    rw [ih (by omega) (by omega), idxSum_succ dat t0 t ht0]; omega
  | case2 t c s h hge => rfl
  | case3 t c s h => rfl

theorem filter_range_lt (p : Nat → Bool) (n m : Nat) (h : m ≤ n) :
    ((List.range n).filter fun i => p i && decide (i < m)) = (List.range m).filter p := by
  induction n with
  | zero =>
    have : m = 0 := by omega
    subst this; rfl
  | succ n ih =>
    rw [List.range_succ, List.filter_append]
    rcases Nat.eq_or_lt_of_le h with e | e
    · subst e
      have e1 : ((List.range n).filter fun i => p i && decide (i < n + 1)) = (List.range n).filter p := by
        apply List.filter_congr
        intro i hi; simp only [List.mem_range] at hi
        simp [Nat.lt_succ_of_lt hi]
      rw [e1, List.range_succ, List.filter_append]
      congr 1
      cases hp : p n <;> simp [List.filter, hp]
    · rw [ih (by omega)]
      have : ¬ n < m := by omega
      simp [this]

/-- **the innermost scan sums exactly the data of the samples of the bin** (same hypotheses as `countIn_counts`) -/
theorem countIn_sums (ts dat : Array Int) (maxt : Nat) (hm : maxt ≤ ts.size) (hs : Sorted ts) (lb rb : Int) (t : Nat)
    (ht : t ≤ maxt) (hlb : ∀ i, t ≤ i → i < maxt → (hi : i < ts.size) → lb ≤ ts[i]) :
    (countIn ts dat maxt hm rb t 0 0).2.2 = sumBin ts dat t maxt lb rb := by
  obtain ⟨c1, c2, c3, c4, c5⟩ := countIn_counts ts dat maxt hm hs lb rb t ht hlb
  have hsum := countIn_sum ts dat maxt hm rb t 0 0 t (Nat.le_refl _) ht
  rw [idxSum_self] at hsum
  have hs' : (countIn ts dat maxt hm rb t 0 0).2.2 = idxSum dat t (countIn ts dat maxt hm rb t 0 0).1 := by omega
  rw [hs']
  generalize (countIn ts dat maxt hm rb t 0 0).1 = r1 at *
  unfold sumBin idxSum
  have e : ((List.range maxt).filter fun i => decide (t ≤ i) && decide (lb ≤ ts[i]!) && decide (ts[i]! < rb)) =
      ((List.range maxt).filter fun i => decide (t ≤ i) && decide (i < r1)) := by
    apply List.filter_congr
    intro i hi
    simp only [List.mem_range] at hi
    have hi' : i < ts.size := by omega
    rw [getElem!_pos ts i hi']
    by_cases hti : t ≤ i
    · have := hlb i hti hi hi'
      by_cases hir : i < r1
      · have := c5 i hti hir hi'
        simp [*]
      · have := c4 i (by omega) hi hi'
        have hn : ¬ ts[i] < rb := by omega
        simp [hti, hir, hn]
    · simp [hti]
  rw [e, filter_range_lt (fun i => decide (t ≤ i)) maxt r1 c3]

theorem sumBin_shift (ts dat : Array Int) (t t' maxt : Nat) (hm : maxt ≤ ts.size) (a b : Int) (htt : t ≤ t')
    (hlow : ∀ i, t ≤ i → i < t' → (hi : i < ts.size) → ts[i] < a) :
    sumBin ts dat t maxt a b = sumBin ts dat t' maxt a b := by
  unfold sumBin
  congr 2
  apply List.filter_congr
  intro i hi
  simp only [List.mem_range] at hi
  have hi' : i < ts.size := by omega
  rw [getElem!_pos ts i hi']
  by_cases h1 : t' ≤ i
  · have : t ≤ i := by omega
    simp [h1, this]
  · by_cases h2 : t ≤ i
    · have := hlow i h2 (by omega) hi'
      have hn : ¬ a ≤ ts[i] := by omega
      simp [h1, h2, hn]
    · simp [h1, h2]

/-- **every reported bin holds the SUM of exactly its own samples' data** — so `bin_average` = that sum divided by
the count of `binLoop_counts`: the mean over the samples of this epoch with `l + k·bs ≤ t < l + (k+1)·bs`, and NaN
(0/0 in the caller) when the bin holds none -/
theorem binLoop_sums (ts dat : Array Int) (maxt : Nat) (hm : maxt ≤ ts.size) (hs : Sorted ts) (e bs : Int) (hbs : 0 < bs)
    (nb : Nat) (l : Int) (t : Nat) (out : Array (Int × Nat × Int)) (ht : t ≤ maxt)
    (hlb : ∀ i, t ≤ i → i < maxt → (hi : i < ts.size) → l ≤ ts[i]) :
    ∀ k, out.size ≤ k → (hk : k < (binLoop ts dat maxt hm e bs nb l t out).size) →
      (binLoop ts dat maxt hm e bs nb l t out)[k].2.2 =
        sumBin ts dat t maxt (l + ((k - out.size : Nat) : Int) * bs) (l + (((k - out.size : Nat) : Int) + 1) * bs) := by
  induction nb generalizing l t out with
  | zero => intro k hk1 hk; simp only [binLoop] at hk; omega
  | succ nb ih =>
    intro k hk1 hk
    simp only [binLoop] at hk ⊢
    split at hk
    · omega
    · rename_i hle
      split
      · rename_i hgt; exact absurd hgt hle
      · obtain ⟨c1, c2, c3, c4, c5⟩ := countIn_counts ts dat maxt hm hs l (l + bs) t ht hlb
        have cs := countIn_sums ts dat maxt hm hs l (l + bs) t ht hlb
        have hcen := binLoop_centres ts dat maxt hm e bs nb (l + bs) (countIn ts dat maxt hm (l + bs) t 0 0).1
          (out.push (2 * l + bs, (countIn ts dat maxt hm (l + bs) t 0 0).2.1, (countIn ts dat maxt hm (l + bs) t 0 0).2.2))
        by_cases hk0 : k = out.size
        · subst hk0
          rw [hcen.2.2.1 out.size (by simp) hk]
          simp only [Array.getElem_push_eq, Nat.sub_self]
          rw [cs]; simp
        · have := ih (l + bs) (countIn ts dat maxt hm (l + bs) t 0 0).1
            (out.push (2 * l + bs, (countIn ts dat maxt hm (l + bs) t 0 0).2.1, (countIn ts dat maxt hm (l + bs) t 0 0).2.2))
            c3 (fun i h1 h2 hi => c4 i h1 h2 hi) k (by simp; omega) hk
          rw [this]
          simp only [Array.size_push]
          have e1 : ((k - (out.size + 1) : Nat) : Int) = ((k - out.size : Nat) : Int) - 1 := by omega
          rw [e1]
          have e2 : l + bs + (((k - out.size : Nat) : Int) - 1) * bs = l + ((k - out.size : Nat) : Int) * bs := by
            rw [Int.sub_mul]; omega
          have e3 : l + bs + (((k - out.size : Nat) : Int) - 1 + 1) * bs = l + (((k - out.size : Nat) : Int) + 1) * bs := by
            rw [Int.sub_add_cancel, Int.add_mul]; omega
          rw [e2, e3]
          symm
          apply sumBin_shift ts dat t _ maxt hm _ _ c2
          intro i h1 h2 hi
          have := c5 i h1 h2 hi
          have hpos : (1 : Int) ≤ ((k - out.size : Nat) : Int) := by omega
          have : bs ≤ ((k - out.size : Nat) : Int) * bs := by
            have := Int.mul_le_mul_of_nonneg_right hpos (Int.le_of_lt hbs)
            simpa using this
          omega


/-- **the preallocated number of bins never truncates**: past `nbBins` bins the centre test would
have stopped the loop anyway -/
theorem nbBins_suffices (s e bs : Int) (hbs : 0 < bs) : 2 * (s + (nbBins s e bs : Int) * bs) + bs > 2 * e := by
  unfold nbBins
  split
  · rename_i hgt
    have hnn : 0 ≤ (e + bs - s + bs - 1) / bs := Int.ediv_nonneg (by omega) (by omega)
    rw [Int.toNat_of_nonneg hnn]
    have h1 := Int.lt_ediv_add_one_mul_self (e + bs - s + bs - 1) hbs
    have h2 : (e + bs - s + bs - 1) / bs * bs ≥ e + bs - s + bs - 1 - bs + 1 - 1 := by
      rw [Int.add_mul] at h1; omega
    omega
  · simp; omega


def binOk : R (Array (Int × Nat × Int)) → Array (Int × Nat × Int) → Bool
  | .ok a, b => a == b
  | _, _ => false

example : binOk (jitbin #[0, 1000, 1000, 2500] #[0,0,0,0] #[0] #[2500] rfl 1000)
    #[(1000, 1, 0), (3000, 2, 0), (5000, 1, 0)] = true := by decide +kernel

end Pyn.C05

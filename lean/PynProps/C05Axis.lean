import PynModel.Kernels.Count
/-!
# C05 / C12 — the time axis of `count` depends on the epochs and the bin only, never on the samples
`TsGroup.count` calls `_count` on the FIRST member, preallocates `count = np.zeros((len(time_index), n))`
from that member's time index and then assigns `count[:, i] = _count(member i)[1]` for every other member,
reporting the first member's time index for all columns.  That is right only if `jitcount` returns the same
bin centres, in the same order and number, for EVERY series given the same `(starts, ends, bin_size)`.
Proved here for the model `Pyn.jitbin`, for series of any length and any number of epochs:
`binLoop_axis` (one epoch), `countK_axis` (epoch loop), `jitbin_axis` (the kernel) and its corollary
`jitbin_columns_align` (same number of rows: the column assignment cannot fail on a shape mismatch, and row r
of every column is the bin whose centre is the reported `time_index[r]`).
-/
namespace Pyn.C05
open Pyn

/-- centres (doubled) of an output array -/
def axis (out : Array (Int × Nat × Int)) : Array Int := out.map (·.1)

/-- one epoch: the centres appended by the bin loop do not depend on the samples, the cursor or the data -/
theorem binLoop_axis (ts dat ts2 dat2 : Array Int) (maxt maxt2 : Nat) (hm : maxt ≤ ts.size) (hm2 : maxt2 ≤ ts2.size)
    (e bs : Int) (nb : Nat) (l : Int) (t t2 : Nat) (out out2 : Array (Int × Nat × Int))
    (h : axis out = axis out2) :
    axis (binLoop ts dat maxt hm e bs nb l t out) = axis (binLoop ts2 dat2 maxt2 hm2 e bs nb l t2 out2) := by
  induction nb generalizing l t t2 out out2 with
  | zero => simpa only [binLoop] using h
  | succ nb ih =>
    simp only [binLoop]
    split
    · exact h
    · apply ih
      simp only [axis, Array.map_push] at h ⊢
      rw [h]

/-- epoch loop: whenever the kernel completes on two series (any lengths, any per-epoch counts) over the same
epochs with the same bin, the reported centres coincide -/
theorem countK_axis (ts dat ts2 dat2 st en : Array Int) (hm : st.size = en.size) (cin cin2 : Array Nat) (bs : Int)
    (n : Nat) : ∀ (k t t2 : Nat) (out out2 r r2 : Array (Int × Nat × Int)), st.size - k = n →
    axis out = axis out2 →
    countK ts dat st en hm cin bs k t out = .ok r →
    countK ts2 dat2 st en hm cin2 bs k t2 out2 = .ok r2 → axis r = axis r2 := by
  induction n with
  | zero =>
    intro k t t2 out out2 r r2 hn h h1 h2
    have hk : ¬ k < st.size := by omega
    rw [countK] at h1 h2
    simp only [hk, ↓reduceDIte, Except.ok.injEq] at h1 h2
    subst h1; subst h2; exact h
  | succ n ih =>
    intro k t t2 out out2 r r2 hn h h1 h2
    have hk : k < st.size := by omega
    rw [countK] at h1 h2
    simp only [hk, ↓reduceDIte, rdN, bind, Except.bind] at h1 h2
    split at h1
    · cases h1
    · rename_i v1 hv1
      split at h2
      · cases h2
      · rename_i v2 hv2
        split at h1
        · split at h2
          · exact ih (k+1) _ _ _ _ r r2 (by omega) (binLoop_axis _ _ _ _ _ _ _ _ _ _ _ _ _ _ _ _ h) h1 h2
          · cases h2
        · cases h1

/-- **common time axis**: `jitcount` on two series over the same epochs with the same bin size returns the same
bin centres (same number, same order) -/
theorem jitbin_axis (ts dat ts2 dat2 st en : Array Int) (hm : st.size = en.size) (bs : Int)
    (r r2 : Array (Int × Nat × Int))
    (h1 : jitbin ts dat st en hm bs = .ok r) (h2 : jitbin ts2 dat2 st en hm bs = .ok r2) :
    axis r = axis r2 := by
  unfold jitbin at h1 h2
  exact countK_axis _ _ _ _ st en hm _ _ bs _ 0 0 0 #[] #[] r r2 rfl rfl h1 h2

/-- **`TsGroup.count` column assignment**: every member's count column has as many rows as the first member's time
index, and row `i` of every column belongs to the bin centred on the first member's `time_index[i]` -/
theorem jitbin_columns_align (ts dat ts2 dat2 st en : Array Int) (hm : st.size = en.size) (bs : Int)
    (r r2 : Array (Int × Nat × Int))
    (h1 : jitbin ts dat st en hm bs = .ok r) (h2 : jitbin ts2 dat2 st en hm bs = .ok r2) :
    r.size = r2.size ∧ ∀ i (hi : i < r.size) (hi2 : i < r2.size), r[i].1 = r2[i].1 := by
  have h := jitbin_axis ts dat ts2 dat2 st en hm bs r r2 h1 h2
  have hs : r.size = r2.size := by simpa [axis] using congrArg Array.size h
  refine ⟨hs, fun i hi hi2 => ?_⟩
  have := congrArg (fun a => a[i]?) h
  simpa [axis, hi, hi2] using this

def binOk' : R (Array (Int × Nat × Int)) → Array (Int × Nat × Int) → Bool
  | .ok a, b => a == b
  | _, _ => false

/-- non-vacuity: two different series (one empty) over two epochs — both complete, same axis, different counts -/
example :
    binOk' (jitbin #[0, 1000, 1000, 2500, 7000] #[0,0,0,0,0] #[0, 6000] #[2500, 8000] rfl 1000)
      #[(1000, 1, 0), (3000, 2, 0), (5000, 1, 0), (13000, 0, 0), (15000, 1, 0)] = true ∧
    binOk' (jitbin #[] #[] #[0, 6000] #[2500, 8000] rfl 1000)
      #[(1000, 0, 0), (3000, 0, 0), (5000, 0, 0), (13000, 0, 0), (15000, 0, 0)] = true := by
  constructor <;> decide +kernel

end Pyn.C05

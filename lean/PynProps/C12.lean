import PynProps.C04
import PynModel.Core.Group
/-!
# C12 — a TsGroup is a consistent keyed collection on one time support

> A TsGroup's keys are the integer values of the supplied keys in increasing order; its time support
> is the one supplied, or else the union of its members' supports; every member is restricted to that
> support (unless bypass_check) … Selecting members, restricting, get, merging groups and the round
> trip to_tsd -> to_tsgroup preserve each member's timestamps under its key …

Model: `Pyn.Group.new` (`TsGroup.__init__`), `select`, `restrict`, `get`, `merge`, `toTsd` /
`memberOf`.  Keys of any accepted form are converted to their integer value by the caller.
-/
namespace Pyn.C12
open Pyn Pyn.C01 Pyn.C04

/-! ## keys: sorted, and the data stay attached to their key through the sort -/

theorem keys_insertM (m : Member) (l : List Member) :
    ∀ k, k ∈ (insertM m l).map (·.key) ↔ k = m.key ∨ k ∈ l.map (·.key) := by
  induction l with
  | nil => intro k; simp [insertM]
  | cons y ys ih =>
    intro k; simp only [insertM]; split
    · simp
    · simp only [List.map_cons, List.mem_cons, ih k]
      constructor <;> (intro h; rcases h with h | h | h <;> simp [h])

theorem insertM_strict (m : Member) (l : List Member) (hl : (l.map (·.key)).Pairwise (· < ·))
    (hm : m.key ∉ l.map (·.key)) : ((insertM m l).map (·.key)).Pairwise (· < ·) := by
  induction l with
  | nil => simp [insertM]
  | cons y ys ih =>
    simp only [List.map_cons, List.pairwise_cons] at hl
    simp only [List.map_cons, List.mem_cons, not_or] at hm
    simp only [insertM]; split
    · rename_i hle
      have hlt : m.key < y.key := by omega
      simp only [List.map_cons, List.pairwise_cons]
      refine ⟨?_, hl.1, hl.2⟩
      intro a ha
      simp only [List.mem_cons] at ha
      rcases ha with rfl | ha
      · exact hlt
      · have := hl.1 a ha; omega
    · rename_i hle
      simp only [List.map_cons, List.pairwise_cons]
      refine ⟨?_, ih hl.2 hm.2⟩
      intro a ha
      rcases (keys_insertM m ys a).mp ha with rfl | ha
      · omega
      · exact hl.1 a ha

theorem hasDup_cons (x : Int) (xs : List Int) : hasDup (x :: xs) = false ↔ x ∉ xs ∧ hasDup xs = false := by
  simp [hasDup]

theorem keys_sortM (l : List Member) : ∀ k, k ∈ (sortM l).map (·.key) ↔ k ∈ l.map (·.key) := by
  induction l with
  | nil => intro k; simp [sortM]
  | cons x xs ih => intro k; simp only [sortM, keys_insertM, ih k]; simp

/-- **keys come out strictly increasing** whatever order they were supplied in -/
theorem sortM_strict (l : List Member) (h : hasDup (l.map (·.key)) = false) :
    ((sortM l).map (·.key)).Pairwise (· < ·) := by
  induction l with
  | nil => simp [sortM]
  | cons x xs ih =>
    simp only [List.map_cons, hasDup_cons] at h
    exact insertM_strict x _ (ih h.2) (by rw [keys_sortM]; exact h.1)

theorem lookup_insertM (k : Int) (m : Member) (l : List Member) :
    lookupM k (insertM m l) = if m.key = k then some m.s else lookupM k l := by
  induction l with
  | nil => simp [insertM, lookupM]
  | cons y ys ih =>
    simp only [insertM]; split
    · simp [lookupM]
    · rename_i hle
      simp only [lookupM, ih]
      by_cases h1 : y.key = k <;> by_cases h2 : m.key = k <;> simp [h1, h2]
      omega

/-- **the sort keeps every member under its own key** -/
theorem lookup_sortM (k : Int) (l : List Member) : lookupM k (sortM l) = lookupM k l := by
  induction l with
  | nil => rfl
  | cons x xs ih => simp only [sortM, lookup_insertM, ih, lookupM]

theorem lookup_map (k : Int) (l : List Member) (f : Series → Series) :
    lookupM k (l.map fun m => ⟨m.key, f m.s⟩) = (lookupM k l).map f := by
  induction l with
  | nil => rfl
  | cons y ys ih => simp only [List.map_cons, lookupM]; split <;> simp [ih]

theorem keys_map (l : List Member) (f : Series → Series) :
    (l.map fun m => (⟨m.key, f m.s⟩ : Member)).map (·.key) = l.map (·.key) := by
  simp [List.map_map, Function.comp_def]

/-- what a successful constructor call returns, spelled out -/
theorem new_ok (data : List Member) (sup : Option (Array (Int × Int))) (bypass : Bool) (g : Group)
    (h : Group.new data sup bypass = .ok g) :
    hasDup (data.map (·.key)) = false ∧
    g.ms = (if bypass then sortM data else (sortM data).map (fun m => ⟨m.key, m.s.restrictTo g.sup⟩)) ∧
    (match sup with
     | some p => g.sup = p
     | none => g.sup = unionSupports ((sortM data).map (·.s.sup)) ∧ g.sup.size ≠ 0) := by
  unfold Group.new at h
  split at h
  · cases h
  · rename_i hd
    refine ⟨by simpa using hd, ?_⟩
    cases sup with
    | some p => simp at h; subst h; exact ⟨rfl, rfl⟩
    | none =>
      simp only at h
      split at h
      · cases h
      · rename_i p hp
        split at hp
        · cases hp
        · rename_i hne
          simp only [Except.ok.injEq] at hp h
          subst hp; subst h
          exact ⟨rfl, rfl, hne⟩

/-- **C12 keys**: the keys of a constructed group are exactly the supplied integer keys, in
strictly increasing order. -/
theorem new_keys (data : List Member) (sup) (bypass : Bool) (g : Group) (h : Group.new data sup bypass = .ok g) :
    g.keys.Pairwise (· < ·) ∧ ∀ k, k ∈ g.keys ↔ k ∈ data.map (·.key) := by
  obtain ⟨hd, hms, _⟩ := new_ok data sup bypass g h
  unfold Group.keys
  rw [hms]
  cases bypass with
  | true => simp only [if_true]; exact ⟨sortM_strict data hd, keys_sortM data⟩
  | false =>
    simp only [Bool.false_eq_true, if_false]
    rw [keys_map (sortM data) (fun s => s.restrictTo g.sup)]
    exact ⟨sortM_strict data hd, keys_sortM data⟩

/-- **C12 members**: the member found under key `k` is the series supplied under `k`, restricted to the
group's support (or untouched with `bypass_check`). -/
theorem new_member (data : List Member) (sup) (bypass : Bool) (g : Group) (h : Group.new data sup bypass = .ok g) (k : Int) :
    lookupM k g.ms = (lookupM k data).map (fun s => if bypass then s else s.restrictTo g.sup) := by
  obtain ⟨_, hms, _⟩ := new_ok data sup bypass g h
  rw [hms]
  cases bypass with
  | true => simp [lookup_sortM]
  | false =>
    simp only [Bool.false_eq_true, if_false]
    rw [lookup_map k (sortM data) (fun s => s.restrictTo g.sup), lookup_sortM]

/-- duplicate integer values among the keys are rejected, never merged -/
theorem new_rejects_dup (data : List Member) (sup) (bypass : Bool) (h : hasDup (data.map (·.key)) = true) :
    Group.new data sup bypass = .error .dupKey := by
  unfold Group.new; simp [h]

/-- the support is the one supplied -/
theorem new_support_given (data : List Member) (p) (bypass : Bool) (g : Group)
    (h : Group.new data (some p) bypass = .ok g) : g.sup = p :=
  (new_ok data (some p) bypass g h).2.2

/-- … or else `_union_intervals` of the members' supports taken in key order, and never empty -/
theorem new_support_union (data : List Member) (bypass : Bool) (g : Group)
    (h : Group.new data none bypass = .ok g) :
    g.sup = unionSupports ((sortM data).map (·.s.sup)) ∧ g.sup.size ≠ 0 :=
  (new_ok data none bypass g h).2.2

theorem restrictTo_wf (s : Series) (p : Array (Int × Int)) (hr : s.rows.size = s.t.size)
    (hc : CanonicalPairs p) : WF (s.restrictTo p) ∧ (s.restrictTo p).sup = p ∨ (s.restrictTo p).t.size = 0 := by
  have h1 := new_wf_some s.t s.rows p hr hc
  have h2 := new_wf_some _ _ p h1.2.1 hc
  by_cases he : (s.restrictTo p).t.size = 0
  · exact Or.inr he
  · left
    refine ⟨h2, ?_⟩
    unfold Series.restrictTo at he ⊢
    simp only at he ⊢
    generalize (Series.new s.t s.rows (some p)) = r at he ⊢
    unfold Series.new at he ⊢
    simp only at he ⊢
    split
    · rename_i h0; simp [h0] at he
    · rfl

/-- **every member is restricted to the group support**: each member of a group built without
`bypass_check` on a canonical support is well formed (C04) and, when it has samples, carries exactly
the group's support -/
theorem new_members_restricted (data : List Member) (sup) (g : Group)
    (h : Group.new data sup false = .ok g) (hc : CanonicalPairs g.sup)
    (hrows : ∀ m ∈ data, m.s.rows.size = m.s.t.size) (k : Int) (s : Series) (hk : lookupM k g.ms = some s) :
    (WF s ∧ s.sup = g.sup) ∨ s.t.size = 0 := by
  rw [new_member data sup false g h k] at hk
  cases hl : lookupM k data with
  | none => simp [hl] at hk
  | some s0 =>
    simp [hl] at hk
    subst hk
    have hm : ∃ m ∈ data, m.s = s0 := by
      clear h hrows
      induction data with
      | nil => simp [lookupM] at hl
      | cons y ys ih =>
        simp only [lookupM] at hl
        split at hl
        · exact ⟨y, by simp, by simpa using hl⟩
        · obtain ⟨m, hm, e⟩ := ih hl; exact ⟨m, by simp [hm], e⟩
    obtain ⟨m, hm, e⟩ := hm
    exact restrictTo_wf s0 g.sup (e ▸ hrows m hm) hc

/-! ## a member restricted to its own support is unchanged -/

theorem insertS_le_head (x : Int) (l : List Int) (h : ∀ a ∈ l, x ≤ a) : insertS x l = x :: l := by
  cases l with
  | nil => rfl
  | cons y ys => simp [insertS, h y (by simp)]

theorem isort_sorted (l : List Int) (h : l.Pairwise (· ≤ ·)) : isort l = l := by
  induction l with
  | nil => rfl
  | cons x xs ih =>
    rw [List.pairwise_cons] at h
    simp only [isort, ih h.2]
    exact insertS_le_head x xs h.1

theorem sorted_toList (a : Array Int) (h : Sorted a) : a.toList.Pairwise (· ≤ ·) := by
  rw [List.pairwise_iff_getElem]
  intro i j hi hj hij
  simpa using h i j (by simpa using hi) (by simpa using hj) (by omega)

theorem sortArr_of_sorted (a : Array Int) (h : Sorted a) : sortArr a = a := by
  simp [sortArr, isort_sorted _ (sorted_toList a h)]

theorem strict_list_eq_range (l : List Nat) (n : Nat) (hp : l.Pairwise (· < ·)) (hb : ∀ a ∈ l, a < n)
    (hall : ∀ i, i < n → i ∈ l) : l = List.range n := by
  apply List.Perm.eq_of_pairwise (le := (· ≤ ·))
  · intro a b _ _ h1 h2; omega
  · exact hp.imp (fun h => Nat.le_of_lt h)
  · exact (List.pairwise_lt_range).imp (fun h => Nat.le_of_lt h)
  · rw [List.perm_ext_iff_of_nodup (hp.imp (fun h => Nat.ne_of_lt h)) List.nodup_range]
    intro a; simp only [List.mem_range]; exact ⟨hb a, hall a⟩

theorem jitrestrict_all (ts st en : Array Int) (hm : st.size = en.size) (hs : Sorted ts) (hc : Canon st en hm)
    (hin : ∀ i, (h : i < ts.size) → InIv st en hm ts[i]) : jitrestrict ts st en hm = Array.range ts.size := by
  have hinc := jitrestrict_inc ts st en hm
  have : (jitrestrict ts st en hm).toList = List.range ts.size := by
    apply strict_list_eq_range _ _ hinc.1 (by simpa using hinc.2)
    intro i hi
    have := (jitrestrict_mem ts st en hm hs hc i).mpr ⟨hi, hin i hi⟩
    simpa using this
  apply Array.ext'
  simpa using this

theorem gatherI_range (a : Array Int) : gatherI a (Array.range a.size) = a := by
  apply Array.ext
  · simp [gatherI]
  · intro i h1 h2
    simp [gatherI, getElem!_pos a i h2]

theorem gatherN_range (a : Array Nat) (n : Nat) (h : a.size = n) : gatherN a (Array.range n) = a := by
  subst h
  apply Array.ext
  · simp [gatherN]
  · intro i h1 h2
    simp [gatherN, getElem!_pos a i h2]

/-- re-running the constructor on a well-formed non-empty object with its own support returns it
unchanged -/
theorem new_self (s : Series) (h : WF s) (hne : 0 < s.t.size) : Series.new s.t s.rows (some s.sup) = s := by
  obtain ⟨hs, hr, hc, hin⟩ := h
  unfold Series.new
  simp only [sortArr_of_sorted s.t hs]
  split
  · omega
  · rw [jitrestrict_all s.t _ _ _ hs (canon_of_canonicalPairs _ hc) hin, gatherI_range, gatherN_range _ _ hr]


theorem restrictTo_self (s : Series) (h : WF s) (hne : 0 < s.t.size) : s.restrictTo s.sup = s := by
  unfold Series.restrictTo
  simp only [new_self s h hne]

/-! ## selection, restrict, get, merge keep every member under its key -/

theorem lookup_filterMap (ks : List Int) (ms : List Member) (k : Int) :
    lookupM k (ks.filterMap fun k' => (lookupM k' ms).map fun s => (⟨k', s⟩ : Member)) =
      if k ∈ ks then lookupM k ms else none := by
  induction ks with
  | nil => simp [lookupM]
  | cons k0 rest ih =>
    simp only [List.filterMap_cons]
    cases h0 : lookupM k0 ms with
    | none =>
      simp only [Option.map_none, ih, List.mem_cons]
      by_cases hk : k = k0
      · subst hk; simp [h0]
      · simp [hk]
    | some s0 =>
      simp only [Option.map_some, lookupM, ih, List.mem_cons]
      by_cases hk : k0 = k
      · subst hk; simp [h0]
      · have : ¬ k = k0 := fun h => hk h.symm
        simp [hk, this]

/-- **selection** (`g[[k…]]`, boolean mask, `getby_*`): the selected group has the same support and
holds, under every selected key, the member of the original group restricted again to that support -/
theorem select_member (g g' : Group) (ks : List Int) (h : g.select ks = .ok g') (k : Int) :
    g'.sup = g.sup ∧
    lookupM k g'.ms = if k ∈ ks then (lookupM k g.ms).map (fun s => s.restrictTo g.sup) else none := by
  unfold Group.select at h
  split at h
  · have hs := new_support_given _ _ _ _ h
    refine ⟨hs, ?_⟩
    rw [new_member _ _ _ _ h k, lookup_filterMap, hs]
    simp only [Bool.false_eq_true, if_false]
    by_cases hk : k ∈ ks <;> simp [hk]
  · cases h

/-- … so a well-formed, non-empty member carrying the group's support keeps its timestamps and rows
exactly -/
theorem select_preserves (g g' : Group) (ks : List Int) (h : g.select ks = .ok g') (k : Int) (hk : k ∈ ks)
    (s : Series) (hl : lookupM k g.ms = some s) (hwf : WF s) (hne : 0 < s.t.size) (hsup : s.sup = g.sup) :
    lookupM k g'.ms = some s := by
  rw [(select_member g g' ks h k).2, if_pos hk, hl, Option.map_some, ← hsup, restrictTo_self s hwf hne]

/-- a key that is not in the group is an error, never a silent drop -/
theorem select_rejects_missing (g : Group) (ks : List Int) (k : Int) (hk : k ∈ ks) (hm : lookupM k g.ms = none) :
    g.select ks = .error .keyError := by
  unfold Group.select
  have : ¬ (ks.all fun k => (lookupM k g.ms).isSome) = true := by
    simp only [List.all_eq_true]
    intro hall
    have := hall k hk
    simp [hm] at this
  simp [this]

/-- **restrict**: support becomes `ep`, each member is the original member restricted to `ep` -/
theorem restrict_member (g g' : Group) (ep : Array (Int × Int)) (h : g.restrict ep = .ok g') (k : Int) :
    g'.sup = ep ∧ lookupM k g'.ms = (lookupM k g.ms).map (fun s => s.restrictTo ep) := by
  unfold Group.restrict at h
  refine ⟨new_support_given _ _ _ _ h, ?_⟩
  rw [new_member _ _ _ _ h k, lookup_map k g.ms (fun s => s.restrictTo ep)]
  simp [Function.comp_def]

/-- **get**: support kept, each member is the original member's window -/
theorem get_member (g g' : Group) (a b : Int) (h : g.get a b = .ok g') (k : Int) :
    g'.sup = g.sup ∧ lookupM k g'.ms = (lookupM k g.ms).map (fun s => s.step (.get a b)) := by
  unfold Group.get at h
  refine ⟨new_support_given _ _ _ _ h, ?_⟩
  rw [new_member _ _ _ _ h k, lookup_map k g.ms (fun s => s.step (.get a b))]
  simp [Function.comp_def]

theorem lookup_append (k : Int) (a b : List Member) :
    lookupM k (a ++ b) = (lookupM k a).or (lookupM k b) := by
  induction a with
  | nil => simp [lookupM]
  | cons y ys ih => simp only [List.cons_append, lookupM]; split <;> simp [ih]

/-- **merge** (keys kept): every member of either group is found under its key, restricted to the
merged group's support; overlapping keys are rejected -/
theorem merge_member (g h g' : Group) (rs : Bool) (hm : g.merge h false rs = .ok g') (k : Int) :
    lookupM k g'.ms = ((lookupM k g.ms).or (lookupM k h.ms)).map (fun s => s.restrictTo g'.sup) := by
  unfold Group.merge at hm
  simp only [Bool.not_false, Bool.true_and, Bool.false_eq_true, if_false] at hm
  split at hm
  · cases hm
  · split at hm
    · cases hm
    · rw [new_member _ _ _ _ hm k, lookup_append]; simp

theorem merge_rejects_overlap (g h : Group) (rs : Bool) (k : Int) (hk : k ∈ h.ms.map (·.key))
    (hg : (lookupM k g.ms).isSome) : g.merge h false rs = .error .overlap := by
  unfold Group.merge
  have : (h.ms.any fun m => (lookupM m.key g.ms).isSome) = true := by
    simp only [List.any_eq_true]
    simp only [List.mem_map] at hk
    obtain ⟨m, hm, rfl⟩ := hk
    exact ⟨m, hm, hg⟩
  simp [this]

/-! ### merging any number of groups -/

/-- the two-group merge is the n-ary one with a single further group -/
theorem mergeN_single (g h : Group) (ri rs : Bool) : g.mergeN [h] ri rs = g.merge h ri rs := by
  unfold Group.mergeN Group.merge
  simp only [mergeItems]
  split <;> rename_i h1
  · split at h1 <;> rename_i c1
    · cases h1; simp [c1]
    · split at h1 <;> rename_i c2
      · cases h1; simp [c1, c2]
      · cases h1
  · split at h1 <;> rename_i c1
    · cases h1
    · split at h1 <;> rename_i c2
      · cases h1
      · cases h1; simp [c1, c2]

theorem mergeItems_ok (g : Group) (ri rs : Bool) (hs : List Group) (acc items : List Member)
    (h : mergeItems g ri rs acc hs = .ok items) :
    items = acc ++ hs.flatMap (·.ms) ∧ (rs = false → ∀ x ∈ hs, x.sup = g.sup) := by
  induction hs generalizing acc with
  | nil => simp only [mergeItems] at h; cases h; simp
  | cons x xs ih =>
    simp only [mergeItems] at h
    split at h
    · cases h
    · split at h <;> rename_i c2
      · cases h
      · obtain ⟨e, hs'⟩ := ih _ h
        refine ⟨by simp [e], fun hrs y hy => ?_⟩
        rcases List.mem_cons.1 hy with rfl | hy
        · subst hrs; simp at c2; exact c2.symm
        · exact hs' hrs y hy

/-- **n-ary merge checks EVERY group**: without `reset_time_support`, a successful merge means every
merged group — first, middle or last — had the first group's support; so a group with another support
anywhere in the argument list makes the merge fail instead of silently cutting that group's members -/
theorem mergeN_supports (g g' : Group) (hs : List Group) (ri : Bool) (hm : g.mergeN hs ri false = .ok g') :
    ∀ x ∈ hs, x.sup = g.sup := by
  unfold Group.mergeN at hm
  split at hm
  · cases hm
  · rename_i items hi
    exact (mergeItems_ok g ri false hs g.ms items hi).2 rfl

/-- **n-ary merge, keys kept**: each member of any of the groups is found under its key -/
theorem mergeN_member (g g' : Group) (hs : List Group) (rs : Bool) (hm : g.mergeN hs false rs = .ok g') (k : Int) :
    lookupM k g'.ms = (lookupM k (g.ms ++ hs.flatMap (·.ms))).map (fun s => s.restrictTo g'.sup) := by
  unfold Group.mergeN at hm
  split at hm
  · cases hm
  · rename_i items hi
    have e := (mergeItems_ok g false rs hs g.ms items hi).1
    simp only [Bool.false_eq_true, if_false] at hm
    rw [new_member _ _ _ _ hm k, e]; simp

/-! ## to_tsd → to_tsgroup -/

theorem insertTK_perm (x : Int × Int) (l : List (Int × Int)) : (insertTK x l).Perm (x :: l) := by
  induction l with
  | nil => simp [insertTK]
  | cons y ys ih =>
    simp only [insertTK]; split
    · exact List.Perm.refl _
    · exact (List.Perm.cons y ih).trans (List.Perm.swap x y ys)

theorem sortTK_perm (l : List (Int × Int)) : (sortTK l).Perm l := by
  induction l with
  | nil => exact List.Perm.refl _
  | cons x xs ih => exact (insertTK_perm x _).trans (List.Perm.cons x ih)

theorem insertTK_sorted (x : Int × Int) (l : List (Int × Int)) (h : l.Pairwise (fun a b => a.1 ≤ b.1)) :
    (insertTK x l).Pairwise (fun a b => a.1 ≤ b.1) := by
  induction l with
  | nil => simp [insertTK]
  | cons y ys ih =>
    rw [List.pairwise_cons] at h
    simp only [insertTK]; split
    · rename_i hxy
      refine List.pairwise_cons.mpr ⟨?_, List.pairwise_cons.mpr h⟩
      intro a ha
      simp only [List.mem_cons] at ha
      rcases ha with rfl | ha
      · exact hxy
      · have := h.1 a ha; omega
    · rename_i hxy
      refine List.pairwise_cons.mpr ⟨?_, ih h.2⟩
      intro a ha
      have := (insertTK_perm x ys).subset ha
      simp only [List.mem_cons] at this
      rcases this with rfl | ha
      · omega
      · exact h.1 a ha

theorem sortTK_sorted (l : List (Int × Int)) : (sortTK l).Pairwise (fun a b => a.1 ≤ b.1) := by
  induction l with
  | nil => simp [sortTK]
  | cons x xs ih => exact insertTK_sorted x _ ih

def allPairs (ms : List Member) : List (Int × Int) := ms.flatMap fun m => m.s.t.toList.map fun t => (t, m.key)

theorem memberOf_append (k : Int) (a b : List (Int × Int)) : memberOf k (a ++ b) = memberOf k a ++ memberOf k b := by
  simp [memberOf]

theorem memberOf_own (k : Int) (ts : List Int) : memberOf k (ts.map fun t => (t, k)) = ts := by
  induction ts with
  | nil => rfl
  | cons x xs ih => simp [memberOf] at ih ⊢; exact ih

theorem memberOf_other (k k' : Int) (h : k' ≠ k) (ts : List Int) : memberOf k (ts.map fun t => (t, k')) = [] := by
  induction ts with
  | nil => rfl
  | cons x xs ih => simp [memberOf] at ih ⊢; exact ⟨h, ih⟩

theorem memberOf_absent (k : Int) (ms : List Member) (h : k ∉ ms.map (·.key)) : memberOf k (allPairs ms) = [] := by
  induction ms with
  | nil => rfl
  | cons m rest ih =>
    simp only [List.map_cons, List.mem_cons, not_or] at h
    simp only [allPairs, List.flatMap_cons, memberOf_append]
    rw [memberOf_other k m.key (fun e => h.1 e.symm)]
    exact ih h.2

theorem memberOf_allPairs (k : Int) (ms : List Member) (hk : (ms.map (·.key)).Pairwise (· < ·)) (s : Series)
    (hl : lookupM k ms = some s) : memberOf k (allPairs ms) = s.t.toList := by
  induction ms with
  | nil => simp [lookupM] at hl
  | cons m rest ih =>
    simp only [List.map_cons, List.pairwise_cons] at hk
    simp only [allPairs, List.flatMap_cons, memberOf_append]
    simp only [lookupM] at hl
    split at hl
    · rename_i hmk
      simp only [Option.some.injEq] at hl
      subst hl; subst hmk
      rw [memberOf_own]
      have : memberOf m.key (allPairs rest) = [] := memberOf_absent _ _ (fun hmem => by have := hk.1 _ hmem; omega)
      simp only [allPairs] at this
      simp [this]
    · rename_i hmk
      rw [memberOf_other k m.key hmk]
      exact ih hk.2 hl

/-- **to_tsd → to_tsgroup gives every member's timestamps back under its key** — for ANY time-sorting
permutation of the pooled (time, key) pairs (`np.argsort` is not assumed stable), any number of
members, coincident timestamps across and within members. -/
theorem toTsd_toTsgroup_any_sort (g : Group) (hk : g.keys.Pairwise (· < ·)) (k : Int) (s : Series)
    (hl : lookupM k g.ms = some s) (hs : Sorted s.t)
    (l' : List (Int × Int)) (hp : l'.Perm (allPairs g.ms)) (hsorted : l'.Pairwise (fun a b => a.1 ≤ b.1)) :
    memberOf k l' = s.t.toList := by
  have h1 : (memberOf k l').Perm (memberOf k (allPairs g.ms)) := (hp.filter _).map _
  rw [memberOf_allPairs k g.ms hk s hl] at h1
  apply List.Perm.eq_of_pairwise (le := (· ≤ ·)) _ _ (sorted_toList _ hs) h1
  · intro a b _ _ h1 h2; omega
  · unfold memberOf
    rw [List.pairwise_map]
    exact hsorted.sublist List.filter_sublist

/-- the model's own `toTsd` is such a sort -/
theorem toTsd_toTsgroup (g : Group) (hk : g.keys.Pairwise (· < ·)) (k : Int) (s : Series)
    (hl : lookupM k g.ms = some s) (hs : Sorted s.t) : memberOf k g.toTsd = s.t.toList :=
  toTsd_toTsgroup_any_sort g hk k s hl hs _ (sortTK_perm _) (sortTK_sorted _)

/-! ### non-vacuity: unsorted, non-contiguous keys; differing member supports; n = 1, 2, 3 -/
def sA : Series := ⟨#[1000, 5000], #[0, 1], #[(0, 6000)]⟩
def sB : Series := ⟨#[2000, 9000], #[0, 1], #[(1000, 9000)]⟩
def sC : Series := ⟨#[20000], #[0], #[(15000, 30000)]⟩
example : (Group.new [⟨7, sA⟩, ⟨2, sB⟩] none false).toOption.map (fun g => (g.keys, g.sup)) =
    some ([2, 7], #[(0, 9000)]) := by decide +kernel
example : (Group.new [⟨7, sA⟩, ⟨2, sB⟩, ⟨-3, sC⟩] none false).toOption.map (fun g => (g.keys, g.sup)) =
    some ([-3, 2, 7], #[(0, 9000), (15000, 30000)]) := by decide +kernel
example : (Group.new [⟨7, sA⟩, ⟨7, sB⟩] none false).toOption = none := by decide +kernel
example : (Group.new [⟨7, sA⟩, ⟨2, sB⟩] (some #[(0, 3000)]) false).toOption.map
    (fun g => g.ms.map fun m => (m.key, m.s.t)) = some [(2, #[2000]), (7, #[1000])] := by decide +kernel
example : ((Group.new [⟨7, sA⟩, ⟨2, sB⟩] none false).toOption.map fun g => (g.toTsd, memberOf 7 g.toTsd)) =
    some ([(1000, 7), (2000, 2), (5000, 7), (9000, 2)], [1000, 5000]) := by decide +kernel

end Pyn.C12

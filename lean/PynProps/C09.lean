import PynModel.Core.TsIndex
import PynProps.C01
import PynGen.UnitSites
import Mathlib.Tactic.NormNum
import Mathlib.Tactic.Ring
import Mathlib.Algebra.Order.Ring.Rat
/-!
# C09 — seconds, milliseconds and microseconds denote the same instants everywhere

Three parts.
1. **Conversion algebra** on the exact model (`PynModel/Core/TsIndex.lean`): `format_timestamps` in
   the three units maps the three ways of writing one instant to the same nanosecond
   (`fmt_units_agree`, for every rational time, not only lattice points), lattice instants are fixed
   (`fmt_lattice`), `return_timestamps` is seconds × factor, an index is stored sorted.
2. **Call-site table** (`PynGen/UnitSites.lean`, regenerated from the source on every run by
   `tools/extract_unit_sites.py`): for every unit-taking entry point of the hand-written
   specification `timeArgs` below, every time argument is converted with the function's OWN unit
   parameter (never a literal, never the default) or handed on together with that parameter to a
   callee that converts it — and is not both converted in place and handed on (`decide`).
3. **Flags**: every use of a `nap_config.suppress_*` flag is the test of an `if` whose body only
   warns (`decide` over the generated list).
The float step and the end-to-end equivariance of every entry point are measured by the check's
differential run (three units × both flag values), which is also the failing-input search.
-/
namespace Pyn.C09
open Pyn
open Pyn.Gen


theorem roundHE_int (n : Int) : roundHE (n : Rat) = n := by
  unfold roundHE
  simp only [Rat.floor_intCast]
  have : ((n : Rat) - (n : Rat)) = 0 := sub_self _
  rw [this]
  norm_num

theorem fmt_units_agree (x : Rat) :
    fmt .ms (x * 1000) = fmt .s x ∧ fmt .us (x * 1000000) = fmt .s x := by
  unfold fmt TUnit.nsPer
  constructor
  · congr 1; push_cast; ring
  · congr 1; push_cast; ring

theorem fmt_int (u : TUnit) (n : Int) : fmt u (n : Rat) = n * u.nsPer := by
  unfold fmt
  rw [← Int.cast_mul, roundHE_int]

/-- microsecond lattice: the three ways of writing the instant `k µs` denote the same nanosecond -/
theorem fmt_lattice (k : Int) :
    fmt .us (k : Rat) = 1000 * k ∧ fmt .ms ((k : Rat) / 1000) = 1000 * k ∧ fmt .s ((k : Rat) / 1000000) = 1000 * k := by
  have h1 : fmt .us (k : Rat) = 1000 * k := by rw [fmt_int]; simp [TUnit.nsPer]; ring
  refine ⟨h1, ?_, ?_⟩
  · have := (fmt_units_agree ((k : Rat) / 1000000)).1
    have e : (k : Rat) / 1000000 * 1000 = (k : Rat) / 1000 := by ring
    have := (fmt_units_agree ((k : Rat) / 1000000))
    rw [e] at this
    have e2 : (k : Rat) / 1000000 * 1000000 = (k : Rat) := by ring
    rw [e2] at this
    rw [this.1, ← this.2, h1]
  · have := (fmt_units_agree ((k : Rat) / 1000000)).2
    have e2 : (k : Rat) / 1000000 * 1000000 = (k : Rat) := by ring
    rw [e2] at this
    rw [← this, h1]

/-- `times(units)`, `as_units`, `start_time/end_time(units)`, `tot_length(units)`: the stored seconds
times the unit factor — for a stored time of `t` ns that is `t / 10⁹ · factor` -/
theorem ret_is_seconds_times_factor (t : Int) :
    ret .s t = (t : Rat) / 1000000000 ∧ ret .ms t = (t : Rat) / 1000000000 * 1000 ∧
    ret .us t = (t : Rat) / 1000000000 * 1000000 := by
  unfold ret TUnit.nsPer
  refine ⟨by norm_num, ?_, ?_⟩ <;> (push_cast; ring)

/-- reading back in the unit of writing gives the lattice value back -/
theorem ret_fmt_lattice (k : Int) : ret .us (fmt .us (k : Rat)) = k ∧ ret .ms (fmt .us (k : Rat)) = (k : Rat) / 1000 := by
  rw [(fmt_lattice k).1]
  unfold ret TUnit.nsPer
  constructor <;> (push_cast; ring)


/-! ## call-site table -/

def tbl {α} (t : List (String × α)) (c : String) : Option α := (t.find? (·.1 == c)).map (·.2)

/-- hand-written specification: which parameters of which entry point are times (`f`), or which
entry points return times in a unit (`r`) -/
def timeArgs : List (String × List String) := [
  ("time_index:TsIndex.__new__", ["t"]),
  ("base_class:_Base.__init__", ["t"]),
  ("time_series:_BaseTsd.__init__", ["t"]),
  ("time_series:Ts.__init__", ["t"]),
  ("time_series:Tsd.__init__", ["t"]),
  ("time_series:TsdFrame.__init__", ["t"]),
  ("time_series:TsdTensor.__init__", ["t"]),
  ("interval_set:IntervalSet.__init__", ["start", "end"]),
  ("ts_group:TsGroup.__init__", ["data"]),
  ("base_class:_Base.count", ["bin_size"]),
  ("ts_group:TsGroup.count", ["bin_size"]),
  ("time_series:_BaseTsd.bin_average", ["bin_size"]),
  ("base_class:_Base.get", ["start", "end"]),
  ("base_class:_Base.get_slice", ["start", "end"]),
  ("base_class:_Base._get_slice", ["start", "end"]),
  ("ts_group:TsGroup.get", ["start", "end"]),
  ("base_class:_Base.find_support", ["min_gap"]),
  ("time_series:_BaseTsd.smooth", ["std", "windowsize"]),
  ("interval_set:IntervalSet.drop_short_intervals", ["threshold"]),
  ("interval_set:IntervalSet.drop_long_intervals", ["threshold"]),
  ("interval_set:IntervalSet.merge_close_intervals", ["threshold"]),
  ("interval_set:IntervalSet.split", ["interval_size"]),
  ("time_series:Ts.trial_count", ["bin_size"]),
  ("ts_group:TsGroup.trial_count", ["bin_size"]),
  ("warping:build_tensor", ["bin_size"]),
  ("correlograms:compute_autocorrelogram", ["binsize", "windowsize"]),
  ("correlograms:compute_crosscorrelogram", ["binsize", "windowsize"]),
  ("correlograms:compute_eventcorrelogram", ["binsize", "windowsize"]),
  ("perievent:compute_perievent", ["minmax"]),
  ("perievent:compute_perievent_continuous", ["minmax"]),
  ("perievent:compute_event_trigger_average", ["binsize", "windowsize"]),
  ("decoding:decode_1d", ["bin_size"]),
  ("decoding:decode_2d", ["bin_size"]),
  ("spectrum:compute_mean_power_spectral_density", ["interval_size"])
]

/-- entry points that RETURN times in a requested unit: must call `return_timestamps` with their own
unit parameter, or pass that parameter on -/
def timeReturns : List String := [
  "time_index:TsIndex.in_units", "base_class:_Base.times", "base_class:_Base.start_time", "base_class:_Base.end_time",
  "time_series:Ts.as_units", "time_series:Tsd.as_units", "time_series:TsdFrame.as_units",
  "interval_set:IntervalSet.as_units", "interval_set:IntervalSet.tot_length"
]

def isOwnUnit (u : String) : Bool := u == "param:time_units" || u == "param:time_unit" || u == "param:units"

/-- parameter `p` of `f` is converted exactly along one route with the function's own unit -/
def argOK (f p : String) : Bool :=
  match tbl unitSites f, tbl unitForwards f with
  | some sites, some fws =>
    let mine := sites.filter fun s => s.1 == "format" && s.2.1 == p
    let forwarded := fws.any fun fw => fw.2.contains p
    let doubled := fws.any fun fw => fw.2.contains (p ++ "!converted")
    mine.all (fun s => isOwnUnit s.2.2) && (!mine.isEmpty || forwarded) && !doubled
  | _, _ => false

def returnOK (f : String) : Bool :=
  match tbl unitSites f, tbl unitForwards f with
  | some sites, some fws =>
    let mine := sites.filter fun s => s.1 == "return"
    mine.all (fun s => isOwnUnit s.2.2) && (!mine.isEmpty || !fws.isEmpty)
  | _, _ => false

/-- no conversion anywhere in a unit-taking function uses a literal unit or falls back on the default -/
def noLiteralUnits : Bool :=
  unitSites.all fun (f, sites) =>
    f == "time_index:TsIndex.format_timestamps" || f == "time_index:TsIndex.return_timestamps" ||
    sites.all fun s => isOwnUnit s.2.2

theorem extractor_recognised_everything : unitUnrecognised = [] := by decide
theorem every_time_argument_converted_once_with_own_unit :
    (timeArgs.all fun (f, ps) => ps.all (argOK f)) = true := by decide
theorem every_time_result_returned_in_own_unit : timeReturns.all returnOK = true := by decide
theorem no_literal_or_default_unit : noLiteralUnits = true := by decide

/-- **flags**: a `suppress_*` flag only ever guards warnings (the jax conversion helper, which is
outside the model, receives it as an argument) -/
theorem suppress_flags_only_guard_warnings :
    (suppressUses.all fun u => u.2.2 == "if-warn-only" || u.2.2 == "passed-to:convert_to_jax_array") = true := by decide

/-- stored timestamps are sorted whatever order they were given in -/
theorem index_sorted (u : TUnit) (xs : List Rat) : Sorted (TsIndex.new u xs) :=
  C01.sortArr_sorted _

/-! ### non-vacuity -/
example : fmt .ms (1500 : Rat) = 1500000000 := by rw [show ((1500 : Rat) = ((1500 : Int) : Rat)) by norm_num, fmt_int]; rfl

end Pyn.C09

import PynProofs.Restrict
import PynModel.Kernels.Threshold
/-!
# C15 — compiled kernels stay inside their arrays and read only assigned variables
(placeholder list of theorems is extended below as proofs are added)
-/
namespace Pyn.C15
open Pyn

/-- writes of `jitrestrict` into the preallocated `ix` stay in bounds; returned indices address the series -/
theorem restrict_writes_in_bounds (ts st en : Array Int) (hm : st.size = en.size) :
    (jitrestrict ts st en hm).size ≤ ts.size ∧ ∀ a ∈ jitrestrict ts st en hm, a < ts.size :=
  ⟨jitrestrict_size_le ts st en hm, (jitrestrict_inc ts st en hm).2⟩

/-- KNOWN FINDING (open): a one-sample series makes `jitthreshold` read index 1 -/
def isOob {α} : R α → Bool
  | .error .oob => true
  | _ => false

theorem threshold_oob_witness : isOob (jitthreshold #[1] #[true] #[0] #[5]) = true := by decide +kernel
theorem threshold_oob_witness_empty : isOob (jitthreshold #[] #[] #[] #[]) = true := by decide +kernel

end Pyn.C15

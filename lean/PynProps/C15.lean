import PynProofs.Restrict
import PynModel.Kernels.Count
import PynModel.Kernels.ValueFrom
import PynModel.Kernels.Process
import PynModel.Kernels.Threshold
import PynModel.Kernels.Eta
/-!
# C15 — compiled kernels stay inside their arrays and read only assigned variables

Two kinds of kernel model (DESIGN §2.2):
* **total models** — `jitrestrict`, `jitrestrict_with_count`, `jitin_interval`, `jitremove_nan`,
  `jitintersect`, `jitunion`, `jitdiff`, `jitunion_isets`, `_jitfix_iset`, `_cross_correlogram`,
  `_overlap_split`: every array read of the Python source sits under a guard that implies it is in
  bounds and is written `a[i]'h` in the model; Lean demands the proof `h` when the definition is
  elaborated, so the definitions themselves are the machine-checked bounds arguments (for ALL inputs),
  and no local is read before assignment (there are no `Option` locals left after `fix:` eba7cfb).
* **checked models** — `jitcount` / `_jitbin_array`, `jitvaluefrom`, `_jitcontinuous_perievent`,
  `jitthreshold`: some reads have no syntactic guard (`count[k]`, `time_array[t + count[k]]`, `ends[k]`
  …); the model returns `Except.error .oob` there and the theorems below prove the error unreachable
  under exactly what the public callers guarantee.
`_jitperievent_trigger_average`: `PynModel/Kernels/Eta.lean` + `eta_safe`.
-/
namespace Pyn.C15
open Pyn

/-- writes of `jitrestrict` into the preallocated `ix` stay in bounds; returned indices address the series -/
theorem restrict_writes_in_bounds (ts st en : Array Int) (hm : st.size = en.size) :
    (jitrestrict ts st en hm).size ≤ ts.size ∧ ∀ a ∈ jitrestrict ts st en hm, a < ts.size :=
  ⟨jitrestrict_size_le ts st en hm, (jitrestrict_inc ts st en hm).2⟩

def isOob {α} : R α → Bool
  | .error .oob => true
  | _ => false

/-- the sizes 0 and 1 that used to read outside the arrays (finding C15-threshold-unguarded, repaired by
`fix:` 6abb03b / efb22ea) now return: regression witnesses -/
theorem threshold_one_sample : isOob (jitthreshold #[1] #[true] #[0] #[5]) = false := by decide +kernel
theorem threshold_empty : isOob (jitthreshold #[] #[] #[] #[]) = false := by decide +kernel


def asum (a : Array Nat) : Nat := a.toList.sum

theorem psum_succ (a : Array Nat) (k : Nat) (h : k < a.size) : psum a (k+1) = psum a k + a[k] := by
  unfold psum
  rw [List.take_succ]
  simp [List.getElem?_eq_getElem (by simpa using h : k < a.toList.length)]

theorem psum_le_asum (a : Array Nat) (k : Nat) : psum a k ≤ asum a := by
  unfold psum asum
  have : a.toList = a.toList.take k ++ a.toList.drop k := (List.take_append_drop k _).symm
  have e : a.toList.sum = (a.toList.take k).sum + (a.toList.drop k).sum := by
    rw [← List.sum_append, List.take_append_drop]
  omega

theorem modify_sum (a : Array Nat) (k : Nat) (h : k < a.size) : asum (a.modify k (· + 1)) = asum a + 1 := by
  unfold asum
  rw [Array.toList_modify]
  have hk : k < a.toList.length := by simpa using h
  clear h
  generalize a.toList = l at hk
  induction l generalizing k with
  | nil => simp at hk
  | cons x xs ih =>
    cases k with
    | zero => simp [List.modify]; omega
    | succ k =>
      simp only [List.modify_succ_cons, List.sum_cons]
      rw [ih k (by simpa using hk)]; omega

theorem insideC_inv (ts : Array Int) (e : Int) (k t : Nat) (acc cnt : Array Nat) (hk : k < cnt.size) :
    (insideC ts e k t acc cnt).2.2.2.size = cnt.size ∧
    asum (insideC ts e k t acc cnt).2.2.2 + acc.size = asum cnt + (insideC ts e k t acc cnt).2.2.1.size := by
  fun_induction insideC ts e k t acc cnt with
  | case1 t acc cnt h hgt => exact ⟨rfl, rfl⟩
  | case2 t acc cnt h hle ih =>
    have hs : (cnt.modify k (· + 1)).size = cnt.size := by simp
    obtain ⟨i1, i2⟩ := ih (by rw [hs]; exact hk)
    refine ⟨by rw [i1, hs], ?_⟩
    rw [modify_sum cnt k hk] at i2
    simp only [Array.size_push] at i2
    omega
  | case3 t acc cnt h => exact ⟨rfl, rfl⟩

theorem outerC_inv (ts st en : Array Int) (hm : st.size = en.size) (k t : Nat) (acc cnt : Array Nat)
    (hc : cnt.size = st.size) :
    (outerC ts st en hm k t acc cnt).2.size = st.size ∧
    asum (outerC ts st en hm k t acc cnt).2 + acc.size = asum cnt + (outerC ts st en hm k t acc cnt).1.size := by
  fun_induction outerC ts st en hm k t acc cnt with
  | case1 k t acc cnt hk t1 r htrue ih =>
    obtain ⟨a1, a2⟩ := insideC_inv ts (en[k]'(hm ▸ hk)) k t1 acc cnt (by omega)
    have a1' : r.2.2.2.size = cnt.size := a1
    have a2' : asum r.2.2.2 + acc.size = asum cnt + r.2.2.1.size := a2
    obtain ⟨b1, b2⟩ := ih (by rw [a1', hc])
    exact ⟨b1, by omega⟩
  | case2 k t acc cnt hk t1 r hfalse =>
    obtain ⟨a1, a2⟩ := insideC_inv ts (en[k]'(hm ▸ hk)) k t1 acc cnt (by omega)
    exact ⟨by show r.2.2.2.size = st.size; rw [show r.2.2.2.size = cnt.size from a1, hc], a2⟩
  | case3 k t acc cnt hk => exact ⟨hc, rfl⟩

theorem asum_replicate (n : Nat) : asum (Array.replicate n 0) = 0 := by
  simp [asum]

/-- `jitrestrict_with_count`: one counter per interval, and the counters add up to the number of
selected samples -/
theorem restrictCount_counts (ts st en : Array Int) (hm : st.size = en.size) :
    (jitrestrictCount ts st en hm).2.size = st.size ∧
    asum (jitrestrictCount ts st en hm).2 = (jitrestrictCount ts st en hm).1.size := by
  unfold jitrestrictCount
  have := outerC_inv ts st en hm (lead ts en 0) 0 #[] (Array.replicate st.size 0) (by simp)
  rw [asum_replicate] at this
  exact ⟨this.1, by simpa using this.2⟩

theorem countK_safe (ts dat st en : Array Int) (hm : st.size = en.size) (countin : Array Nat) (bs : Int)
    (k t : Nat) (out) (hsz : countin.size = st.size) (hsum : asum countin = ts.size) (ht : t = psum countin k) :
    ∃ r, countK ts dat st en hm countin bs k t out = .ok r := by
  induction hn : st.size - k generalizing k t out with
  | zero =>
    unfold countK
    have : ¬ k < st.size := by omega
    simp [this]
  | succ n ih =>
    have hk : k < st.size := by omega
    have hkc : k < countin.size := by omega
    unfold countK
    have hr : rdN countin k = .ok countin[k] := by simp [rdN, hkc]
    have hle : t + countin[k] ≤ ts.size := by
      have := psum_le_asum countin (k+1)
      rw [psum_succ countin k hkc, ← ht, hsum] at this
      exact this
    simp only [dif_pos hk, hr, bind, Except.bind, dif_pos hle]
    exact ih (k+1) (t + countin[k]) _ (by rw [psum_succ countin k hkc, ← ht]) (by omega)

/-- **`jitcount` / `_jitbin_array` never index outside their arrays**: for ANY timestamps, data,
interval arrays of equal length and bin size — every read `time_array[t]`, `count[k]`, every write
into the preallocated bins — the model's checked reads never fail -/
theorem jitbin_safe (ts dat st en : Array Int) (hm : st.size = en.size) (bs : Int) :
    ∃ r, jitbin ts dat st en hm bs = .ok r := by
  unfold jitbin
  obtain ⟨h1, h2⟩ := restrictCount_counts ts st en hm
  exact countK_safe _ _ st en hm _ bs 0 0 #[] h1 (by simpa using h2) (by simp [psum])

theorem vfK_safe (ts tt : Array Int) (count ctarget : Array Nat) (mode m : Nat) (k : Nat) (idx)
    (hc : count.size = m) (hd : ctarget.size = m) (hcs : asum count = ts.size) (hds : asum ctarget = tt.size) :
    ∃ r, vfK ts tt count ctarget mode m k idx = .ok r := by
  induction hn : m - k generalizing k idx with
  | zero =>
    unfold vfK
    have : ¬ k < m := by omega
    simp [this]
  | succ n ih =>
    have hk : k < m := by omega
    unfold vfK
    have hr1 : rdN count k = .ok (count[k]'(by omega)) := by simp [rdN, show k < count.size by omega]
    have hr2 : rdN ctarget k = .ok (ctarget[k]'(by omega)) := by simp [rdN, show k < ctarget.size by omega]
    have hle1 : psum count k + count[k]'(by omega) ≤ ts.size := by
      have := psum_le_asum count (k+1)
      rw [psum_succ count k (by omega), hcs] at this; exact this
    have hle2 : psum ctarget k + ctarget[k]'(by omega) ≤ tt.size := by
      have := psum_le_asum ctarget (k+1)
      rw [psum_succ ctarget k (by omega), hds] at this; exact this
    simp only [dif_pos hk, hr1, hr2, bind, Except.bind]
    split
    · rename_i hpos
      rw [dif_pos ⟨hle1, hle2⟩, dif_pos (by omega)]
      exact ih (k+1) _ (by omega)
    · exact ih (k+1) _ (by omega)

/-- **`jitvaluefrom` never indexes outside its arrays and never reads an unassigned local** — under
what its only caller guarantees: `count` / `count_target` are the per-interval counters returned by
`jitrestrict_with_count` for the two time arrays (one counter per interval, adding up to the array
lengths).  Any timestamps, any mode. -/
theorem valuefrom_safe (ts tt : Array Int) (count ctarget : Array Nat) (m mode : Nat)
    (hc : count.size = m) (hd : ctarget.size = m) (hcs : asum count = ts.size) (hds : asum ctarget = tt.size) :
    ∃ r, jitvaluefrom ts tt count ctarget m mode = .ok r := by
  unfold jitvaluefrom
  simp only
  split
  · exact vfK_safe ts tt count ctarget mode m 0 _ hc hd hcs hds
  · exact ⟨_, rfl⟩

/-- the callers' guarantee is met by the counters `jitrestrict_with_count` actually returns -/
theorem valuefrom_safe_on_restricted (ts0 tt0 st en : Array Int) (hm : st.size = en.size) (mode : Nat) :
    let rs := jitrestrictCount ts0 st en hm
    let rt := jitrestrictCount tt0 st en hm
    ∃ r, jitvaluefrom (rs.1.map (ts0.getD · 0)) (rt.1.map (tt0.getD · 0)) rs.2 rt.2 st.size mode = .ok r := by
  intro rs rt
  obtain ⟨a1, a2⟩ := restrictCount_counts ts0 st en hm
  obtain ⟨b1, b2⟩ := restrictCount_counts tt0 st en hm
  exact valuefrom_safe _ _ _ _ _ _ a1 b1 (by simpa using a2) (by simpa using b2)

theorem pcK_safe (ts tt : Array Int) (c0 c1 : Array Nat) (w0 w1 m k : Nat) (out)
    (h0 : c0.size = m) (h1 : c1.size = m) (hs0 : asum c0 = ts.size) (hs1 : asum c1 = tt.size) :
    ∃ r, pcK ts tt c0 c1 w0 w1 m k out = .ok r := by
  induction hn : m - k generalizing k out with
  | zero =>
    unfold pcK
    have : ¬ k < m := by omega
    simp [this]
  | succ n ih =>
    have hk : k < m := by omega
    unfold pcK
    have hr1 : rdN c0 k = .ok (c0[k]'(by omega)) := by simp [rdN, show k < c0.size by omega]
    have hr2 : rdN c1 k = .ok (c1[k]'(by omega)) := by simp [rdN, show k < c1.size by omega]
    have hle1 : psum c0 k + c0[k]'(by omega) ≤ ts.size := by
      have := psum_le_asum c0 (k+1)
      rw [psum_succ c0 k (by omega), hs0] at this; exact this
    have hle2 : psum c1 k + c1[k]'(by omega) ≤ tt.size := by
      have := psum_le_asum c1 (k+1)
      rw [psum_succ c1 k (by omega), hs1] at this; exact this
    simp only [dif_pos hk, hr1, hr2, bind, Except.bind]
    split
    · rename_i hpos
      rw [dif_pos ⟨hle1, hle2⟩, dif_pos (by omega)]
      exact ih (k+1) _ (by omega)
    · exact ih (k+1) _ (by omega)

/-- **`_jitcontinuous_perievent` stays inside its arrays** for any series, events, interval arrays of
equal length and window sizes -/
theorem pericont_safe (ts tt st en : Array Int) (hm : st.size = en.size) (w0 w1 : Nat) :
    ∃ r, continuousPerievent ts tt st en hm w0 w1 = .ok r := by
  unfold continuousPerievent
  obtain ⟨a1, a2⟩ := restrictCount_counts ts st en hm
  obtain ⟨b1, b2⟩ := restrictCount_counts tt st en hm
  obtain ⟨r, hr⟩ := pcK_safe ((jitrestrictCount ts st en hm).1.map (fun i => ts.getD i 0))
    ((jitrestrictCount tt st en hm).1.map (fun i => tt.getD i 0)) (jitrestrictCount ts st en hm).2
    (jitrestrictCount tt st en hm).2 w0 w1 st.size 0 #[] a1 b1 (by simpa using a2) (by simpa using b2)
  simp only [bind, Except.bind, hr, pure, Except.pure]
  exact ⟨_, rfl⟩

theorem etaK_safe (ta ca tt dd en : Array Int) (hca : ca.size = ta.size) (bs : Int) (w1 : Nat) (c : Array Nat)
    (k t : Nat) (hk out : Array Rat) (hc : c.size = en.size) (hs : asum c = tt.size) :
    ∃ r, etaK ta ca tt dd en hca bs w1 c k t hk out = .ok r := by
  induction hn : en.size - k generalizing k t hk out with
  | zero =>
    unfold etaK
    have : ¬ k < en.size := by omega
    simp [this]
  | succ n ih =>
    have hkk : k < en.size := by omega
    unfold etaK
    have hr : rdN c k = .ok (c[k]'(by omega)) := by simp [rdN, show k < c.size by omega]
    have hle : psum c k + c[k]'(by omega) ≤ tt.size := by
      have := psum_le_asum c (k+1)
      rw [psum_succ c k (by omega), hs] at this; exact this
    simp only [dif_pos hkk, hr, bind, Except.bind]
    by_cases hpos : c[k]'(by omega) > 0
    · simp only [dif_pos hpos, dif_pos hle]
      exact ih (k+1) _ _ _ (by omega)
    · simp only [dif_neg hpos]
      exact ih (k+1) _ _ _ (by omega)

/-- **`_jitperievent_trigger_average` stays inside its arrays and reads no unassigned local** for any count
bins, counts, feature, interval arrays of equal length, window sizes and bin size: every read of the model
is an `a[i]'h` read (checked when `PynModel/Kernels/Eta.lean` is elaborated), the scan position is only
assigned from a computed `i_start` (`etaBin`), and the two run-time tests on the counters never fail -/
theorem eta_safe (ta ca tt dd st en : Array Int) (hm : st.size = en.size) (hca : ca.size = ta.size)
    (w0 w1 : Nat) (bs : Int) : ∃ r, eventTriggerAverage ta ca tt dd st en hm hca w0 w1 bs = .ok r := by
  unfold eventTriggerAverage
  obtain ⟨b1, b2⟩ := restrictCount_counts tt st en hm
  obtain ⟨r, hr⟩ := etaK_safe ta ca ((jitrestrictCount tt st en hm).1.map (fun i => tt.getD i 0))
    ((jitrestrictCount tt st en hm).1.map (fun i => dd.getD i 0)) en hca bs w1 (jitrestrictCount tt st en hm).2 0 0
    (Array.replicate (w0 + w1 + 1) 0) (Array.replicate (w0 + w1 + 1) 0) (by omega) (by simpa using b2)
  simp only [bind, Except.bind, hr, pure, Except.pure]
  exact ⟨_, rfl⟩

theorem en_mono' (st en : Array Int) (hm : st.size = en.size) (hc : Canon st en hm) (a b : Nat) (hab : a ≤ b) (hb : b < en.size) :
    en[a]'(by omega) ≤ en[b] := by
  induction b with
  | zero => have : a = 0 := by omega
            subst this; exact Int.le_refl _
  | succ b ih =>
    by_cases h : a = b + 1
    · subst h; exact Int.le_refl _
    · have h1 := ih (by omega) (by omega)
      have h2 := hc.2 b (by omega)
      have h3 := hc.1 (b + 1) (by omega)
      omega

theorem en_mono (st en : Array Int) (hm : st.size = en.size) (hc : Canon st en hm) (a d : Nat) (h : a + d < en.size) :
    en[a]'(by omega) ≤ en[a + d] := by
  induction d with
  | zero => exact Int.le_refl _
  | succ d ih =>
    have h1 := ih (by omega)
    have h2 := hc.2 (a + d) (by omega)
    have h3 := hc.1 (a + d + 1) (by omega)
    have e : a + (d + 1) = a + d + 1 := by omega
    simp only [e]; omega

theorem thrSkip_safe (st en : Array Int) (hm : st.size = en.size) (hc : Canon st en hm) (tt : Int)
    (hin : InIv st en hm tt) (k : Nat) (hk : k < en.size) :
    ∃ k', thrSkip en tt k = .ok k' ∧ k' < en.size := by
  induction hn : en.size - k generalizing k with
  | zero => omega
  | succ n ih =>
    unfold thrSkip
    simp only [dif_pos hk]
    split
    · rename_i hgt
      obtain ⟨j, hj, hj1, hj2⟩ := hin
      have hjk : ¬ j ≤ k := by
        intro hle
        have := en_mono' st en hm hc j k hle hk
        omega
      exact ih (k+1) (by omega) (by omega)
    · exact ⟨k, rfl, hk⟩

theorem thrLoop_safe (ts : Array Int) (ix : Array Bool) (st en : Array Int) (hm : st.size = en.size)
    (hc : Canon st en hm) (hix : ix.size = ts.size)
    (hin : ∀ i, (h : i < ts.size) → InIv st en hm ts[i]) (t : Nat) (s : ThrSt) (ht : 1 ≤ t) (hk : s.k < en.size) :
    ∃ r, thrLoop ts ix en t s = .ok r := by
  induction hn : ts.size - t generalizing t s with
  | zero =>
    unfold thrLoop
    have : ¬ t < ts.size := by omega
    simp [this]
  | succ n ih =>
    unfold thrLoop
    have h : t < ts.size := by omega
    have r1 : rd ts t = .ok ts[t] := by simp [rd, h]
    have r2 : rd ts (t-1) = .ok (ts[t-1]'(by omega)) := by simp [rd, show t - 1 < ts.size by omega]
    have r3 : rd en s.k = .ok en[s.k] := by simp [rd, hk]
    have r4 : rdB ix t = .ok (ix[t]'(by omega)) := by simp [rdB, show t < ix.size by omega]
    have r5 : rdB ix (t-1) = .ok (ix[t-1]'(by omega)) := by simp [rdB, show t - 1 < ix.size by omega]
    simp only [dif_pos h, r1, r2, r3, r4, r5, bind, Except.bind]
    split
    · obtain ⟨k', hk', hk'lt⟩ := thrSkip_safe st en hm hc ts[t] (hin t h) s.k hk
      simp only [hk']
      exact ih (t+1) _ (by omega) hk'lt (by omega)
    · exact ih (t+1) _ (by omega) hk (by omega)

theorem thrLead_safe (ts st en : Array Int) (hm : st.size = en.size) (hc : Canon st en hm)
    (hin : ∀ i, (h : i < ts.size) → InIv st en hm ts[i]) (k : Nat) (hk : 0 < ts.size → k < en.size) :
    ∃ k', thrLead ts en k = .ok k' ∧ (0 < ts.size → k' < en.size) := by
  induction hn : en.size - k generalizing k with
  | zero =>
    unfold thrLead
    by_cases ht : 0 < ts.size
    · have := hk ht; omega
    · simp only [dif_neg ht]; exact ⟨k, rfl, fun h => absurd h ht⟩
  | succ n ih =>
    unfold thrLead
    by_cases ht : 0 < ts.size
    · have hk' := hk ht
      simp only [dif_pos ht, dif_pos hk']
      split
      · rename_i hgt
        obtain ⟨j, hj, hj1, hj2⟩ := hin 0 ht
        have hjk : ¬ j ≤ k := by
          intro hle
          have := en_mono' st en hm hc j k hle hk'
          omega
        exact ih (k+1) (fun _ => by omega) (by omega)
      · exact ⟨k, rfl, fun _ => hk'⟩
    · simp only [dif_neg ht]; exact ⟨k, rfl, fun h => absurd h ht⟩

/-- **`jitthreshold` stays inside its arrays for every series** — empty and one-sample series included — that is
well formed on a canonical support (what `Tsd.threshold` passes) -/
theorem thresholdScan_safe (ts : Array Int) (ix : Array Bool) (st en : Array Int) (hm : st.size = en.size)
    (hc : Canon st en hm) (hix : ix.size = ts.size)
    (hin : ∀ i, (h : i < ts.size) → InIv st en hm ts[i]) :
    ∃ r, jitthresholdScan ts ix st en = .ok r := by
  have hk0 : 0 < ts.size → 0 < en.size := by
    intro h
    obtain ⟨j, hj, _⟩ := hin 0 h
    omega
  obtain ⟨k, hlead, hklt⟩ := thrLead_safe ts st en hm hc hin 0 hk0
  unfold jitthresholdScan
  simp only [hlead, bind, Except.bind]
  by_cases hn : 0 < ts.size
  · have r1 : rdB ix 0 = .ok (ix[0]'(by omega)) := by simp [rdB, show 0 < ix.size by omega]
    have r2 : rd ts 0 = .ok (ts[0]'(by omega)) := by simp [rd, hn]
    have r3 : rdB ix (ts.size - 1) = .ok (ix[ts.size - 1]'(by omega)) := by simp [rdB, show ts.size - 1 < ix.size by omega]
    have r4 : rd ts (ts.size - 1) = .ok (ts[ts.size - 1]'(by omega)) := by simp [rd, show ts.size - 1 < ts.size by omega]
    simp only [hn, if_true, r1, r2, r3, r4]
    obtain ⟨s, hs⟩ := thrLoop_safe ts ix st en hm hc hix hin 1
      (thrInit ts.size (ix[0]'(by omega)) (ts[0]'(by omega)) k) (by omega) (by simpa [thrInit] using hklt hn)
    rw [hs]
    exact ⟨_, rfl⟩
  · simp only [hn, if_false, pure, Except.pure]
    have h0 : ts.size = 0 := by omega
    have : thrLoop ts ix en 1 (thrInit ts.size false 0 k) = .ok (thrInit ts.size false 0 k) := by
      unfold thrLoop
      simp [h0]
    rw [this]
    exact ⟨_, rfl⟩

/-- **`jitthreshold` stays inside its arrays for every series** — empty and one-sample series included — that is
well formed on a canonical support (what `Tsd.threshold` passes) -/
theorem threshold_safe (ts : Array Int) (ix : Array Bool) (st en : Array Int) (hm : st.size = en.size)
    (hc : Canon st en hm) (hix : ix.size = ts.size)
    (hin : ∀ i, (h : i < ts.size) → InIv st en hm ts[i]) :
    ∃ r, jitthreshold ts ix st en = .ok r := by
  unfold jitthreshold
  split
  · exact ⟨_, rfl⟩
  · exact thresholdScan_safe ts ix st en hm hc hix hin

/-- **… and for ANY series on a support with no epoch at all** — the case of a series with a single timestamp (or only
duplicates of one) built without `time_support`: its default support `[t, t]` has no duration and vanishes, so its samples
lie OUTSIDE its (empty) support and `threshold_safe` does not apply; the guard `if ends.shape[0] == 0` (added by `fix:`)
returns before `ends[0]` is read -/
theorem threshold_safe_no_epoch (ts : Array Int) (ix : Array Bool) (st : Array Int) :
    jitthreshold ts ix st #[] = .ok (#[], #[]) := by
  unfold jitthreshold; simp [pure, Except.pure]

/-- what the guard is for: without it the scan reads `ends[0]` of the empty array (the unrepaired kernel on
`nap.Tsd([1.0], [5.0]).threshold(0.0)`) -/
theorem thresholdScan_no_epoch_oob : isOob (jitthresholdScan #[1] #[true] #[] #[]) = true := by decide +kernel

end Pyn.C15

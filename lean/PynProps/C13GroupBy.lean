import PynModel.Core.GroupBy
/-!
# C13 (groupby) — the groups are those of the metadata carried NOW, and they partition the elements
-/
namespace Pyn.C13GroupBy
open Pyn

theorem mem_groupIdx (col : List Nat) (v i : Nat) :
    i ∈ groupIdx col v ↔ i < col.length ∧ col.getD i 0 = v := by
  simp [groupIdx, List.mem_filter, List.mem_range]

/-- a group lists its positions in increasing order, each once -/
theorem groupIdx_sorted (col : List Nat) (v : Nat) : (groupIdx col v).Pairwise (· < ·) := by
  unfold groupIdx
  exact List.Pairwise.filter _ List.pairwise_lt_range

/-- no element is in two groups -/
theorem groups_disjoint (col : List Nat) (v w i : Nat) (h1 : i ∈ groupIdx col v) (h2 : i ∈ groupIdx col w) : v = w := by
  rw [mem_groupIdx] at h1 h2; rw [← h1.2, ← h2.2]

theorem foldl_max_ge (l : List Nat) (a x : Nat) (h : x ≤ a ∨ x ∈ l) : x ≤ l.foldl max a := by
  induction l generalizing a with
  | nil => simpa using h
  | cons y ys ih =>
    simp only [List.foldl_cons]
    apply ih
    rcases h with h | h
    · left; omega
    · rcases List.mem_cons.mp h with h | h
      · left; subst h; omega
      · right; exact h

theorem mem_groupKeys (col : List Nat) (v : Nat) : v ∈ groupKeys col ↔ v ∈ col := by
  unfold groupKeys
  simp only [List.mem_filter, List.mem_range, List.contains_iff_mem, and_iff_right_iff_imp]
  intro h
  have := foldl_max_ge col 0 v (Or.inr h)
  omega

/-- the group keys are the distinct values, increasing -/
theorem groupKeys_sorted (col : List Nat) : (groupKeys col).Pairwise (· < ·) := by
  unfold groupKeys
  exact List.Pairwise.filter _ List.pairwise_lt_range

/-- **every element is in exactly the group of its own value**, and that group is listed -/
theorem groupBy_complete (col : List Nat) (i : Nat) (hi : i < col.length) :
    (col.getD i 0, groupIdx col (col.getD i 0)) ∈ groupBy col ∧ i ∈ groupIdx col (col.getD i 0) := by
  refine ⟨?_, (mem_groupIdx col _ i).2 ⟨hi, rfl⟩⟩
  unfold groupBy
  refine List.mem_map.2 ⟨col.getD i 0, (mem_groupKeys col _).2 ?_, rfl⟩
  have : col.getD i 0 = col[i] := by simp [List.getD_eq_getElem?_getD, List.getElem?_eq_getElem hi]
  rw [this]; exact List.getElem_mem hi

/-- every listed group is the group of its key, and is not empty -/
theorem groupBy_sound (col : List Nat) (g : Nat × List Nat) (hg : g ∈ groupBy col) :
    g.2 = groupIdx col g.1 ∧ g.2 ≠ [] := by
  unfold groupBy at hg
  obtain ⟨v, hv, rfl⟩ := List.mem_map.1 hg
  refine ⟨rfl, ?_⟩
  have hv' := (mem_groupKeys col v).1 hv
  obtain ⟨i, hi, he⟩ := List.getElem_of_mem hv'
  have : i ∈ groupIdx col v := (mem_groupIdx col v i).2 ⟨hi, by simp [List.getD_eq_getElem?_getD, List.getElem?_eq_getElem hi, he]⟩
  exact List.ne_nil_of_mem this

/-- `get_group=v` returns exactly the elements whose value is `v`, in their order -/
theorem getGroup_spec (tags col : List Nat) (v : Nat) (r : List Nat) (h : getGroup tags col v = some r) :
    r = (groupIdx col v).map (fun i => tags.getD i 0) ∧ v ∈ col := by
  unfold getGroup at h
  split at h
  · rename_i hc; simp only [Option.some.injEq] at h; exact ⟨h.symm, List.contains_iff_mem.1 hc⟩
  · cases h

/-- **history**: after assigning a column, `groupby` on it groups the NEW values; other columns are untouched -/
theorem get_set_same (s : MState) (n : String) (c : List Nat) : (s.set n c).get n = some c := by
  simp [MState.set, MState.get]

theorem find_filter_ne (l : List (String × List Nat)) (n m : String) (h : m ≠ n) :
    (l.filter (fun p => p.1 != n)).find? (fun p => p.1 == m) = l.find? (fun p => p.1 == m) := by
  induction l with
  | nil => rfl
  | cons p ps ih =>
    by_cases hp : p.1 = n
    · have hpm : (p.1 == m) = false := by
        rw [hp]; exact beq_false_of_ne (fun e => h e.symm)
      have hf : (p.1 != n) = false := by simp [hp]
      rw [List.filter_cons, hf, List.find?_cons, hpm]
      simpa using ih
    · have hf : (p.1 != n) = true := by simp [hp]
      rw [List.filter_cons, hf]
      simp only [if_true, List.find?_cons]
      cases hpm : (p.1 == m) <;> simp [ih]

theorem get_set_other (s : MState) (n m : String) (c : List Nat) (h : m ≠ n) : (s.set n c).get m = s.get m := by
  unfold MState.set MState.get
  have h1 : ((n, c).1 == m) = false := beq_false_of_ne (fun e => h e.symm)
  rw [List.find?_cons, h1]
  simp only [find_filter_ne s.cols n m h]

theorem groupby_after_set (s : MState) (n : String) (c : List Nat) : (s.set n c).groupby n = some (groupBy c) := by
  simp [MState.groupby, get_set_same]

/-- …whatever was assigned (and grouped) before: the result depends on the last assignment only -/
theorem groupby_last_assignment (s : MState) (n : String) (c₁ c₂ : List Nat) :
    ((s.set n c₁).set n c₂).groupby n = some (groupBy c₂) := groupby_after_set _ _ _

/-- non-vacuity: a concrete column -/
example : groupBy [2, 0, 2, 1, 0] = [(0, [1, 4]), (1, [3]), (2, [0, 2])] := by decide
example : getGroup [11, 12, 13, 14, 15] [2, 0, 2, 1, 0] 2 = some [11, 13] := by decide
example : groupBy2 [2, 0, 2, 1, 0] [1, 1, 2, 1, 2] = [((0, 1), [1]), ((0, 2), [4]), ((1, 1), [3]), ((2, 1), [0]), ((2, 2), [2])] := by decide

end Pyn.C13GroupBy

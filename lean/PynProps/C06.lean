import PynModel.Kernels.ValueFrom
/-!
# C06 — value_from and interpolate pick the right neighbour and never cross an epoch
Model: `Pyn.jitvaluefrom` (after `fix:` eba7cfb).  `vfT` scans the queries `t0 ≤ t < maxt` of one
epoch against the source samples `lo ≤ i < maxi` of the same epoch.

Proved: **a value is never taken from a different interval** — whatever the timestamps, the mode
and the ties, the index stored for a query of the epoch is `none` (NaN) or an index inside the
source window of that same epoch, and entries of other epochs are left untouched.
Proved as well: **mode `closest` (the default) returns a nearest source sample of the query's own
epoch** (`vfT_closest`, with the inner-scan specification `vfInner_closest` and the cursor invariant
`left_invariant`), for non-decreasing queries and samples of any lengths, ties and duplicates included.
Modes `before` / `after` (latest-before / earliest-after, NaN when there is none) are decided by the
oracle + correspondence run.
-/
namespace Pyn.C06
open Pyn

theorem vfInner_cur (tt : Array Int) (x : Int) (mode maxi : Nat) (hmax : maxi ≤ tt.size)
    (i : Nat) (interval : Int) (cur : Option Nat) (nanc : Bool) (j : Nat)
    (h : (vfInner tt x mode maxi hmax i interval cur nanc).2.1 = some j) :
    cur = some j ∨ (i ≤ j ∧ j < maxi) := by
  fun_induction vfInner tt x mode maxi hmax i interval cur nanc with
  | case1 i interval cur nanc hi new hb =>
    simp only at h
    split at h
    · simp at h
    · exact Or.inl h
  | case2 i interval cur nanc hi new hb ih =>
    rcases ih h with h1 | h1
    · simp at h1; subst h1; exact Or.inr ⟨Nat.le_refl _, hi⟩
    · exact Or.inr ⟨by omega, h1.2⟩
  | case3 i interval cur nanc hi => exact Or.inl h

/-- **never cross an epoch.** After scanning the queries `[t, maxt)` of an epoch whose source
window is `[lo, maxi)` (cursor `i ≥ lo`): every entry outside `[t, maxt)` is unchanged, and every
entry inside is NaN or an index of that same source window. -/
theorem vfT_window (ts tt : Array Int) (mode maxt maxi : Nat) (hmt : maxt ≤ ts.size) (hmi : maxi ≤ tt.size)
    (t i : Nat) (hi : i < maxi) (idx : Array (Option Nat)) (lo : Nat) (hlo : lo ≤ i) :
    (vfT ts tt mode maxt maxi hmt hmi t i hi idx).size = idx.size ∧
    ∀ p, (hp : p < idx.size) → (hp' : p < (vfT ts tt mode maxt maxi hmt hmi t i hi idx).size) →
      ((p < t ∨ maxt ≤ p) → (vfT ts tt mode maxt maxi hmt hmi t i hi idx)[p] = idx[p]) ∧
      ((t ≤ p ∧ p < maxt) → ∀ j, (vfT ts tt mode maxt maxi hmt hmi t i hi idx)[p] = some j → lo ≤ j ∧ j < maxi) := by
  fun_induction vfT ts tt mode maxt maxi hmt hmi t i hi idx with
  | case1 t i hi idx ht x interval nan0 r hb cur ih =>
    obtain ⟨hsz, hall⟩ := ih (by omega)
    simp only [Array.size_setIfInBounds] at hsz hall
    refine ⟨hsz, ?_⟩
    intro p hp hp'
    obtain ⟨h1, h2⟩ := hall p hp hp'
    refine ⟨?_, ?_⟩
    · intro hout
      rw [h1 (by omega), Array.getElem_setIfInBounds]
      split
      · omega
      · rfl
    · intro hin j hj
      by_cases hpt : p = t
      · subst hpt
        rw [h1 (Or.inl (by omega))] at hj
        have hcur : cur = some j := by simpa [Array.getElem_setIfInBounds] using hj
        have key : ∀ j, r.2.1 = some j → lo ≤ j ∧ j < maxi := by
          intro j hj
          rcases vfInner_cur tt x mode maxi hmi (i+1) interval (some i) nan0 j hj with h3 | h3
          · simp at h3; subst h3; exact ⟨hlo, hi⟩
          · exact ⟨by omega, h3.2⟩
        have hr : r.2.1 = some j := by
          simp only [cur] at hcur
          repeat' split at hcur
          all_goals first | exact hcur | (simp at hcur)
        exact key j hr
      · exact h2 ⟨by omega, hin.2⟩ j hj
  | case2 t i hi idx ht =>
    refine ⟨rfl, fun p hp hp' => ⟨fun _ => rfl, fun hin => by omega⟩⟩

/-! ## mode `closest`: the chosen sample is a nearest one of the epoch -/

/-- distance of source sample `q` to the query time `x` -/
def D (tt : Array Int) (x : Int) (q : Nat) : Int := ((tt.getD q 0 - x).natAbs : Int)

theorem D_eq (tt : Array Int) (x : Int) (q : Nat) (h : q < tt.size) : D tt x q = ((tt[q] - x).natAbs : Int) := by
  simp [D, Array.getD, h]

/-- the inner scan in mode `closest`: from the cursor it walks while the distance does not increase and
stops at the first strict increase (or at the end of the epoch's source window) -/
theorem vfInner_closest (tt : Array Int) (x : Int) (maxi : Nat) (hmax : maxi ≤ tt.size) (i : Nat) (interval : Int)
    (cur : Option Nat) (hi1 : 1 ≤ i) (hi : i ≤ maxi) (hc : cur = some (i - 1)) (hint : interval = D tt x (i - 1)) :
    ∃ j, (vfInner tt x 1 maxi hmax i interval cur false).2.1 = some j ∧
      (vfInner tt x 1 maxi hmax i interval cur false).1 = j + 1 ∧
      (vfInner tt x 1 maxi hmax i interval cur false).2.2 = false ∧
      i - 1 ≤ j ∧ j < maxi ∧ (∀ q, i - 1 ≤ q → q ≤ j → D tt x j ≤ D tt x q) ∧
      (j + 1 < maxi → D tt x j < D tt x (j + 1)) := by
  induction hn : maxi - i generalizing i interval cur with
  | zero =>
    unfold vfInner
    have : ¬ i < maxi := by omega
    simp only [dif_neg this]
    exact ⟨i - 1, hc, by omega, trivial, Nat.le_refl _, by omega, fun q h1 h2 => by
      have : q = i - 1 := by omega
      subst this; exact Int.le_refl _, fun h => by omega⟩
  | succ n ih =>
    have hlt : i < maxi := by omega
    unfold vfInner
    simp only [dif_pos hlt]
    have hnew : vfNew 1 (tt[i]'(by omega) - x) = D tt x i := by
      rw [D_eq tt x i (by omega)]; simp [vfNew]
    simp only [hnew]
    by_cases hb : vfBreak 1 (D tt x i) interval = true
    · simp only [hb, if_true]
      have hgt : D tt x i > interval := by simpa [vfBreak] using hb
      have hnan : vfNan 1 (D tt x i) interval = false := by simp [vfNan]
      simp only [hnan]
      refine ⟨i - 1, by simpa using hc, by omega, trivial, Nat.le_refl _, by omega, fun q h1 h2 => by
        have : q = i - 1 := by omega
        subst this; exact Int.le_refl _, fun _ => ?_⟩
      have e : i - 1 + 1 = i := by omega
      rw [e, ← hint]; exact hgt
    · simp only [hb]
      have hle : D tt x i ≤ interval := by
        have : ¬ (D tt x i > interval) := by simpa [vfBreak] using hb
        omega
      have hnan : vfNan 1 (D tt x i) interval = false := by simp [vfNan]
      simp only [hnan, Bool.false_eq_true, if_false]
      obtain ⟨j, a1, a2, a3, a4, a5, a6, a7⟩ := ih (i+1) (D tt x i) (some i) (by omega) (by omega) (by simp) (by simp) (by omega)
      refine ⟨j, a1, a2, a3, by omega, a5, ?_, a7⟩
      intro q h1 h2
      by_cases hq : q = i - 1
      · subst hq
        have := a6 i (by simp) (by simpa using a4)
        rw [← hint]; omega
      · exact a6 q (by simp; omega) h2

/-- the cursor invariant carries over to the next (later) query: nothing left of an optimal index can
become strictly better for a later query time -/
theorem left_invariant (tq tj x x' : Int) (h1 : tq ≤ tj) (hx : x ≤ x')
    (hopt : ((tj - x).natAbs : Int) ≤ ((tq - x).natAbs : Int)) :
    ((tj - x').natAbs : Int) ≤ ((tq - x').natAbs : Int) := by omega

/-- **mode `closest` picks a nearest source sample of the query's own epoch.**  For non-decreasing
queries and non-decreasing source samples (ties, duplicates, queries before / after all samples of the
epoch included): after scanning the queries `[t, maxt)` of an epoch whose source window is `[lo, maxi)`,
every one of them carries an index `j` of that window with `|tt[j] − ts[p]| ≤ |tt[q] − ts[p]|` for
EVERY source sample `q` of the window.  (`hleft`: nothing left of the cursor is strictly closer to the
first query than the cursor — true for the cursor `lo` an epoch starts with.) -/
theorem vfT_closest (ts tt : Array Int) (hsq : Sorted ts) (hss : Sorted tt) (maxt maxi : Nat) (hmt : maxt ≤ ts.size)
    (hmi : maxi ≤ tt.size) (lo t i : Nat) (hi : i < maxi) (hlo : lo ≤ i) (idx : Array (Option Nat)) (hsz : maxt ≤ idx.size)
    (hleft : (ht : t < maxt) → ∀ q, lo ≤ q → q < i → D tt (ts[t]'(by omega)) i ≤ D tt (ts[t]'(by omega)) q) :
    ∀ p, t ≤ p → (hp : p < maxt) → ∃ j, (vfT ts tt 1 maxt maxi hmt hmi t i hi idx)[p]? = some (some j) ∧
      lo ≤ j ∧ j < maxi ∧ ∀ q, lo ≤ q → q < maxi → D tt (ts[p]'(by omega)) j ≤ D tt (ts[p]'(by omega)) q := by
  induction hn : maxt - t generalizing t i idx with
  | zero => intro p h1 h2; omega
  | succ n ih =>
    have ht : t < maxt := by omega
    intro p hp1 hp2
    unfold vfT
    simp only [dif_pos ht]
    have hint : vfNew 1 (tt[i]'(by omega) - ts[t]) = D tt ts[t] i := by
      rw [D_eq tt _ i (by omega)]; simp [vfNew]
    simp only [hint]
    have hnan0 : (if (1 : Nat) = 0 then decide (D tt ts[t] i > 0) else false) = false := by simp
    simp only [hnan0]
    obtain ⟨j, a1, a2, a3, a4, a5, a6, a7⟩ := vfInner_closest tt ts[t] maxi hmi (i+1) (D tt ts[t] i) (some i)
      (by omega) (by omega) (by simp) (by simp)
    simp only [Nat.add_sub_cancel] at a4 a6
    -- the value stored for query t
    have hcur : (if (vfInner tt ts[t] 1 maxi hmi (i + 1) (D tt ts[t] i) (some i) false).1 = maxi then
          if (if (1 : Nat) = 2 then decide (tt[(vfInner tt ts[t] 1 maxi hmi (i + 1) (D tt ts[t] i) (some i) false).1 - 1]'(by
                have := vfInner_bounds tt ts[t] 1 maxi hmi (i+1) (D tt ts[t] i) (some i) false (by omega); omega) - ts[t] < 0)
              else (vfInner tt ts[t] 1 maxi hmi (i + 1) (D tt ts[t] i) (some i) false).2.2) = true then none
          else (vfInner tt ts[t] 1 maxi hmi (i + 1) (D tt ts[t] i) (some i) false).2.1
        else (vfInner tt ts[t] 1 maxi hmi (i + 1) (D tt ts[t] i) (some i) false).2.1) = some j := by
      simp [a1, a3]
    rw [hcur]
    have hcursor : (vfInner tt ts[t] 1 maxi hmi (i + 1) (D tt ts[t] i) (some i) false).1 - 1 = j := by omega
    -- optimality of j for query t
    have hopt : ∀ q, lo ≤ q → q < maxi → D tt ts[t] j ≤ D tt ts[t] q := by
      intro q hq1 hq2
      have hji : D tt ts[t] j ≤ D tt ts[t] i := a6 i (Nat.le_refl _) a4
      by_cases hqi : q < i
      · have := hleft ht q hq1 hqi; omega
      · by_cases hqj : q ≤ j
        · exact a6 q (by omega) hqj
        · -- q beyond the stop: the distance grew at j+1 and keeps growing
          have hj1 : j + 1 < maxi := by omega
          have hgrow := a7 hj1
          rw [D_eq tt _ j (by omega), D_eq tt _ (j+1) (by omega)] at hgrow
          rw [D_eq tt _ j (by omega), D_eq tt _ q (by omega)]
          have m1 := hss j (j+1) (by omega) (by omega) (by omega)
          have m2 := hss (j+1) q (by omega) (by omega) (by omega)
          omega
    by_cases hpt : p = t
    · subst hpt
      refine ⟨j, ?_, by omega, a5, hopt⟩
      have hw := vfT_window ts tt 1 maxt maxi hmt hmi (p+1) _ (by omega : (vfInner tt ts[p] 1 maxi hmi (i + 1) (D tt ts[p] i) (some i) false).1 - 1 < maxi)
        (idx.setIfInBounds p (some j)) lo (by omega)
      obtain ⟨w1, w2⟩ := hw
      have hp' : p < (idx.setIfInBounds p (some j)).size := by simp; omega
      have := (w2 p hp' (by rw [w1]; exact hp')).1 (Or.inl (by omega))
      rw [Array.getElem?_eq_getElem (by rw [w1]; exact hp'), this]
      simp
    · have hnext : t + 1 < maxt := by omega
      have := ih (t+1) ((vfInner tt ts[t] 1 maxi hmi (i + 1) (D tt ts[t] i) (some i) false).1 - 1) (by omega) (by omega)
        (idx.setIfInBounds t (some j)) (by simp; exact hsz)
        (fun ht' q hq1 hq2 => by
          rw [hcursor] at hq2 ⊢
          rw [D_eq tt _ j (by omega), D_eq tt _ q (by omega)]
          have h0 := hopt q hq1 (by omega)
          rw [D_eq tt _ j (by omega), D_eq tt _ q (by omega)] at h0
          exact left_invariant tt[q] tt[j] ts[t] ts[t+1] (hss q j (by omega) (by omega) (by omega))
            (hsq t (t+1) (by omega) (by omega) (by omega)) h0)
        (by omega) p (by omega) hp2
      exact this


/-- concrete runs (mode 0 = before, 1 = closest, 2 = after); the first is the input that was
wrong before the repair: a query preceding the only source sample of its epoch -/
def vfOk : R (Array (Option Nat)) → Array (Option Nat) → Bool
  | .ok a, b => a == b
  | _, _ => false
example : vfOk (jitvaluefrom #[0, 2] #[1] #[2] #[1] 1 0) #[none, some 0] = true := by decide +kernel
example : vfOk (jitvaluefrom #[0, 2] #[1] #[2] #[1] 1 1) #[some 0, some 0] = true := by decide +kernel
example : vfOk (jitvaluefrom #[0, 2] #[1] #[2] #[1] 1 2) #[some 0, none] = true := by decide +kernel
-- two epochs: the second query epoch holds no source sample -> NaN, never the sample of epoch 0
example : vfOk (jitvaluefrom #[0, 10] #[1] #[1, 1] #[1, 0] 2 1) #[some 0, none] = true := by decide +kernel

end Pyn.C06

import PynModel.Kernels.ValueFrom
/-!
# C06 — value_from and interpolate pick the right neighbour and never cross an epoch
Model: `Pyn.jitvaluefrom` (after `fix:` eba7cfb).  `vfT` scans the queries `t0 ≤ t < maxt` of one
epoch against the source samples `lo ≤ i < maxi` of the same epoch.

Proved: **a value is never taken from a different interval** — whatever the timestamps, the mode
and the ties, the index stored for a query of the epoch is `none` (NaN) or an index inside the
source window of that same epoch, and entries of other epochs are left untouched.
Proved as well: **mode `closest` (the default) returns a nearest source sample of the query's own
epoch** (`vfT_closest`, with the inner-scan specification `vfInner_closest` and the cursor invariant
`left_invariant`), for non-decreasing queries and samples of any lengths, ties and duplicates included.
So do **mode `after`** (`vfT_after`: the earliest sample at or after the query, NaN exactly when the
epoch holds none) and **mode `before`** (`vfT_before`: the latest sample at or before the query — any
one of equal timestamps — NaN exactly when the epoch holds none, including the single-source-sample
case repaired by `fix:` eba7cfb).  The NaN/dtype glue of `_value_from` and `interpolate` are decided by
the oracle + correspondence run.
-/
namespace Pyn.C06
open Pyn

theorem vfInner_cur (tt : Array Int) (x : Int) (mode maxi : Nat) (hmax : maxi ≤ tt.size)
    (i : Nat) (interval : Int) (cur : Option Nat) (nanc : Bool) (j : Nat)
    (h : (vfInner tt x mode maxi hmax i interval cur nanc).2.1 = some j) :
    cur = some j ∨ (i ≤ j ∧ j < maxi) := by
  fun_induction vfInner tt x mode maxi hmax i interval cur nanc with
  | case1 i interval cur nanc hi new hb =>
    simp only at h
    split at h
    · simp at h
    · exact Or.inl h
  | case2 i interval cur nanc hi new hb ih =>
    rcases ih h with h1 | h1
    · simp at h1; subst h1; exact Or.inr ⟨Nat.le_refl _, hi⟩
    · exact Or.inr ⟨by omega, h1.2⟩
  | case3 i interval cur nanc hi => exact Or.inl h

/-- **never cross an epoch.** After scanning the queries `[t, maxt)` of an epoch whose source
window is `[lo, maxi)` (cursor `i ≥ lo`): every entry outside `[t, maxt)` is unchanged, and every
entry inside is NaN or an index of that same source window. -/
theorem vfT_window (ts tt : Array Int) (mode maxt maxi : Nat) (hmt : maxt ≤ ts.size) (hmi : maxi ≤ tt.size)
    (t i : Nat) (hi : i < maxi) (idx : Array (Option Nat)) (lo : Nat) (hlo : lo ≤ i) :
    (vfT ts tt mode maxt maxi hmt hmi t i hi idx).size = idx.size ∧
    ∀ p, (hp : p < idx.size) → (hp' : p < (vfT ts tt mode maxt maxi hmt hmi t i hi idx).size) →
      ((p < t ∨ maxt ≤ p) → (vfT ts tt mode maxt maxi hmt hmi t i hi idx)[p] = idx[p]) ∧
      ((t ≤ p ∧ p < maxt) → ∀ j, (vfT ts tt mode maxt maxi hmt hmi t i hi idx)[p] = some j → lo ≤ j ∧ j < maxi) := by
  fun_induction vfT ts tt mode maxt maxi hmt hmi t i hi idx with
  | case1 t i hi idx ht x interval nan0 r hb cur ih =>
    obtain ⟨hsz, hall⟩ := ih (by omega)
    simp only [Array.size_setIfInBounds] at hsz hall
    refine ⟨hsz, ?_⟩
    intro p hp hp'
    obtain ⟨h1, h2⟩ := hall p hp hp'
    refine ⟨?_, ?_⟩
    · intro hout
      rw [h1 (by omega), Array.getElem_setIfInBounds]
      split
      · omega
      · rfl
    · intro hin j hj
      by_cases hpt : p = t
      · subst hpt
        rw [h1 (Or.inl (by omega))] at hj
        have hcur : cur = some j := by simpa [Array.getElem_setIfInBounds] using hj
        have key : ∀ j, r.2.1 = some j → lo ≤ j ∧ j < maxi := by
          intro j hj
          rcases vfInner_cur tt x mode maxi hmi (i+1) interval (some i) nan0 j hj with h3 | h3
          · simp at h3; subst h3; exact ⟨hlo, hi⟩
          · exact ⟨by omega, h3.2⟩
        have hr : r.2.1 = some j := by
          simp only [cur] at hcur
          repeat' split at hcur
          all_goals first | exact hcur | (simp at hcur)
        exact key j hr
      · exact h2 ⟨by omega, hin.2⟩ j hj
  | case2 t i hi idx ht =>
    refine ⟨rfl, fun p hp hp' => ⟨fun _ => rfl, fun hin => by omega⟩⟩

/-! ## mode `closest`: the chosen sample is a nearest one of the epoch -/

/-- distance of source sample `q` to the query time `x` -/
def D (tt : Array Int) (x : Int) (q : Nat) : Int := ((tt.getD q 0 - x).natAbs : Int)

theorem D_eq (tt : Array Int) (x : Int) (q : Nat) (h : q < tt.size) : D tt x q = ((tt[q] - x).natAbs : Int) := by
  simp [D, Array.getD, h]

/-- the inner scan in mode `closest`: from the cursor it walks while the distance does not increase and
stops at the first strict increase (or at the end of the epoch's source window) -/
theorem vfInner_closest (tt : Array Int) (x : Int) (maxi : Nat) (hmax : maxi ≤ tt.size) (i : Nat) (interval : Int)
    (cur : Option Nat) (hi1 : 1 ≤ i) (hi : i ≤ maxi) (hc : cur = some (i - 1)) (hint : interval = D tt x (i - 1)) :
    ∃ j, (vfInner tt x 1 maxi hmax i interval cur false).2.1 = some j ∧
      (vfInner tt x 1 maxi hmax i interval cur false).1 = j + 1 ∧
      (vfInner tt x 1 maxi hmax i interval cur false).2.2 = false ∧
      i - 1 ≤ j ∧ j < maxi ∧ (∀ q, i - 1 ≤ q → q ≤ j → D tt x j ≤ D tt x q) ∧
      (j + 1 < maxi → D tt x j < D tt x (j + 1)) := by
  induction hn : maxi - i generalizing i interval cur with
  | zero =>
    unfold vfInner
    have : ¬ i < maxi := by omega
    simp only [dif_neg this]
    exact ⟨i - 1, hc, by omega, trivial, Nat.le_refl _, by omega, fun q h1 h2 => by
      have : q = i - 1 := by omega
      subst this; exact Int.le_refl _, fun h => by omega⟩
  | succ n ih =>
    have hlt : i < maxi := by omega
    unfold vfInner
    simp only [dif_pos hlt]
    have hnew : vfNew 1 (tt[i]'(by omega) - x) = D tt x i := by
      rw [D_eq tt x i (by omega)]; simp [vfNew]
    simp only [hnew]
    by_cases hb : vfBreak 1 (D tt x i) interval = true
    · simp only [hb, if_true]
      have hgt : D tt x i > interval := by simpa [vfBreak] using hb
      have hnan : vfNan 1 (D tt x i) interval = false := by simp [vfNan]
      simp only [hnan]
      refine ⟨i - 1, by simpa using hc, by omega, trivial, Nat.le_refl _, by omega, fun q h1 h2 => by
        have : q = i - 1 := by omega
        subst this; exact Int.le_refl _, fun _ => ?_⟩
      have e : i - 1 + 1 = i := by omega
      rw [e, ← hint]; exact hgt
    · simp only [hb]
      have hle : D tt x i ≤ interval := by
        have : ¬ (D tt x i > interval) := by simpa [vfBreak] using hb
        omega
      have hnan : vfNan 1 (D tt x i) interval = false := by simp [vfNan]
      simp only [hnan, Bool.false_eq_true, if_false]
      obtain ⟨j, a1, a2, a3, a4, a5, a6, a7⟩ := ih (i+1) (D tt x i) (some i) (by omega) (by omega) (by simp) (by simp) (by omega)
      refine ⟨j, a1, a2, a3, by omega, a5, ?_, a7⟩
      intro q h1 h2
      by_cases hq : q = i - 1
      · subst hq
        have := a6 i (by simp) (by simpa using a4)
        rw [← hint]; omega
      · exact a6 q (by simp; omega) h2

/-- the cursor invariant carries over to the next (later) query: nothing left of an optimal index can
become strictly better for a later query time -/
theorem left_invariant (tq tj x x' : Int) (h1 : tq ≤ tj) (hx : x ≤ x')
    (hopt : ((tj - x).natAbs : Int) ≤ ((tq - x).natAbs : Int)) :
    ((tj - x').natAbs : Int) ≤ ((tq - x').natAbs : Int) := by omega

/-- **mode `closest` picks a nearest source sample of the query's own epoch.**  For non-decreasing
queries and non-decreasing source samples (ties, duplicates, queries before / after all samples of the
epoch included): after scanning the queries `[t, maxt)` of an epoch whose source window is `[lo, maxi)`,
every one of them carries an index `j` of that window with `|tt[j] − ts[p]| ≤ |tt[q] − ts[p]|` for
EVERY source sample `q` of the window.  (`hleft`: nothing left of the cursor is strictly closer to the
first query than the cursor — true for the cursor `lo` an epoch starts with.) -/
theorem vfT_closest (ts tt : Array Int) (hsq : Sorted ts) (hss : Sorted tt) (maxt maxi : Nat) (hmt : maxt ≤ ts.size)
    (hmi : maxi ≤ tt.size) (lo t i : Nat) (hi : i < maxi) (hlo : lo ≤ i) (idx : Array (Option Nat)) (hsz : maxt ≤ idx.size)
    (hleft : (ht : t < maxt) → ∀ q, lo ≤ q → q < i → D tt (ts[t]'(by omega)) i ≤ D tt (ts[t]'(by omega)) q) :
    ∀ p, t ≤ p → (hp : p < maxt) → ∃ j, (vfT ts tt 1 maxt maxi hmt hmi t i hi idx)[p]? = some (some j) ∧
      lo ≤ j ∧ j < maxi ∧ ∀ q, lo ≤ q → q < maxi → D tt (ts[p]'(by omega)) j ≤ D tt (ts[p]'(by omega)) q := by
  induction hn : maxt - t generalizing t i idx with
  | zero => intro p h1 h2; omega
  | succ n ih =>
    have ht : t < maxt := by omega
    intro p hp1 hp2
    unfold vfT
    simp only [dif_pos ht]
    have hint : vfNew 1 (tt[i]'(by omega) - ts[t]) = D tt ts[t] i := by
      rw [D_eq tt _ i (by omega)]; simp [vfNew]
    simp only [hint]
    have hnan0 : (if (1 : Nat) = 0 then decide (D tt ts[t] i > 0) else false) = false := by simp
    simp only [hnan0]
    obtain ⟨j, a1, a2, a3, a4, a5, a6, a7⟩ := vfInner_closest tt ts[t] maxi hmi (i+1) (D tt ts[t] i) (some i)
      (by omega) (by omega) (by simp) (by simp)
    simp only [Nat.add_sub_cancel] at a4 a6
    -- the value stored for query t
    have hcur : (if (vfInner tt ts[t] 1 maxi hmi (i + 1) (D tt ts[t] i) (some i) false).1 = maxi then
          if (if (1 : Nat) = 2 then decide (tt[(vfInner tt ts[t] 1 maxi hmi (i + 1) (D tt ts[t] i) (some i) false).1 - 1]'(by
                have := vfInner_bounds tt ts[t] 1 maxi hmi (i+1) (D tt ts[t] i) (some i) false (by omega); omega) - ts[t] < 0)
              else (vfInner tt ts[t] 1 maxi hmi (i + 1) (D tt ts[t] i) (some i) false).2.2) = true then none
          else (vfInner tt ts[t] 1 maxi hmi (i + 1) (D tt ts[t] i) (some i) false).2.1
        else (vfInner tt ts[t] 1 maxi hmi (i + 1) (D tt ts[t] i) (some i) false).2.1) = some j := by
      simp [a1, a3]
    rw [hcur]
    have hcursor : (vfInner tt ts[t] 1 maxi hmi (i + 1) (D tt ts[t] i) (some i) false).1 - 1 = j := by omega
    -- optimality of j for query t
    have hopt : ∀ q, lo ≤ q → q < maxi → D tt ts[t] j ≤ D tt ts[t] q := by
      intro q hq1 hq2
      have hji : D tt ts[t] j ≤ D tt ts[t] i := a6 i (Nat.le_refl _) a4
      by_cases hqi : q < i
      · have := hleft ht q hq1 hqi; omega
      · by_cases hqj : q ≤ j
        · exact a6 q (by omega) hqj
        · -- q beyond the stop: the distance grew at j+1 and keeps growing
          have hj1 : j + 1 < maxi := by omega
          have hgrow := a7 hj1
          rw [D_eq tt _ j (by omega), D_eq tt _ (j+1) (by omega)] at hgrow
          rw [D_eq tt _ j (by omega), D_eq tt _ q (by omega)]
          have m1 := hss j (j+1) (by omega) (by omega) (by omega)
          have m2 := hss (j+1) q (by omega) (by omega) (by omega)
          omega
    by_cases hpt : p = t
    · subst hpt
      refine ⟨j, ?_, by omega, a5, hopt⟩
      have hw := vfT_window ts tt 1 maxt maxi hmt hmi (p+1) _ (by omega : (vfInner tt ts[p] 1 maxi hmi (i + 1) (D tt ts[p] i) (some i) false).1 - 1 < maxi)
        (idx.setIfInBounds p (some j)) lo (by omega)
      obtain ⟨w1, w2⟩ := hw
      have hp' : p < (idx.setIfInBounds p (some j)).size := by simp; omega
      have := (w2 p hp' (by rw [w1]; exact hp')).1 (Or.inl (by omega))
      rw [Array.getElem?_eq_getElem (by rw [w1]; exact hp'), this]
      simp
    · have hnext : t + 1 < maxt := by omega
      have := ih (t+1) ((vfInner tt ts[t] 1 maxi hmi (i + 1) (D tt ts[t] i) (some i) false).1 - 1) (by omega) (by omega)
        (idx.setIfInBounds t (some j)) (by simp; exact hsz)
        (fun ht' q hq1 hq2 => by
          rw [hcursor] at hq2 ⊢
          rw [D_eq tt _ j (by omega), D_eq tt _ q (by omega)]
          have h0 := hopt q hq1 (by omega)
          rw [D_eq tt _ j (by omega), D_eq tt _ q (by omega)] at h0
          exact left_invariant tt[q] tt[j] ts[t] ts[t+1] (hss q j (by omega) (by omega) (by omega))
            (hsq t (t+1) (by omega) (by omega) (by omega)) h0)
        (by omega) p (by omega) hp2
      exact this



/-! ## mode `after` (2): the earliest source sample at or after the query, NaN when there is none -/

/-- inner scan, mode after: `interval = tt[i-1] - x`; walks while the current sample is before the query -/
theorem vfInner_after (tt : Array Int) (hss : Sorted tt) (x : Int) (maxi : Nat) (hmax : maxi ≤ tt.size) (i : Nat)
    (interval : Int) (cur : Option Nat) (nanc : Bool) (hi1 : 1 ≤ i) (hi : i ≤ maxi) (hc : cur = some (i - 1))
    (hint : interval = tt[i - 1]'(by omega) - x) :
    let r := vfInner tt x 2 maxi hmax i interval cur nanc
    ∃ j, ∃ hj : j < maxi, r.1 = j + 1 ∧ i - 1 ≤ j ∧
      (∀ q, i - 1 ≤ q → q < j → (hq : q < tt.size) → tt[q] < x) ∧
      ((tt[j]'(by omega) ≥ x ∧ r.2.1 = some j) ∨ (tt[j]'(by omega) < x ∧ j + 1 = maxi)) := by
  induction hn : maxi - i generalizing i interval cur nanc with
  | zero =>
    intro r
    have hr : r = (i, cur, nanc) := by
      show vfInner tt x 2 maxi hmax i interval cur nanc = _
      unfold vfInner
      have : ¬ i < maxi := by omega
      simp only [dif_neg this]
    refine ⟨i - 1, by omega, by rw [hr]; simp; omega, Nat.le_refl _, fun q h1 h2 => by omega, ?_⟩
    by_cases hge : tt[i - 1]'(by omega) ≥ x
    · exact Or.inl ⟨hge, by rw [hr]; exact hc⟩
    · exact Or.inr ⟨by omega, by omega⟩
  | succ n ih =>
    intro r
    have hlt : i < maxi := by omega
    by_cases hb : interval ≥ 0
    · -- break at once: the current sample is at or after the query
      have hnew : tt[i]'(by omega) - x ≥ 0 := by
        have := hss (i-1) i (by omega) (by omega) (by omega); omega
      have hr : r = (i, cur, false) := by
        show vfInner tt x 2 maxi hmax i interval cur nanc = _
        unfold vfInner
        simp only [dif_pos hlt]
        have hv : vfNew 2 (tt[i]'(by omega) - x) = tt[i]'(by omega) - x := by simp [vfNew]
        have hbr : vfBreak 2 (tt[i]'(by omega) - x) interval = true := by
          simp [vfBreak, hb]
        have hnan : vfNan 2 (tt[i]'(by omega) - x) interval = false := by
          simp [vfNan]; omega
        simp only [hv, hbr, hnan, if_true, Bool.false_eq_true, if_false]
      refine ⟨i - 1, by omega, by rw [hr]; simp; omega, Nat.le_refl _, fun q h1 h2 => by omega, Or.inl ⟨by omega, by rw [hr]; exact hc⟩⟩
    · have hneg : interval < 0 := by omega
      have hr : r = vfInner tt x 2 maxi hmax (i+1) (tt[i]'(by omega) - x) (some i) (vfNan 2 (tt[i]'(by omega) - x) interval) := by
        show vfInner tt x 2 maxi hmax i interval cur nanc = _
        conv => lhs; unfold vfInner
        simp only [dif_pos hlt]
        have hv : vfNew 2 (tt[i]'(by omega) - x) = tt[i]'(by omega) - x := by simp [vfNew]
        have hbr : vfBreak 2 (tt[i]'(by omega) - x) interval = false := by
          simp [vfBreak]; omega
        simp only [hv, hbr, Bool.false_eq_true, if_false]
      obtain ⟨j, a1, a2, a3, a4, a5⟩ := ih (i+1) (tt[i]'(by omega) - x) (some i) (vfNan 2 (tt[i]'(by omega) - x) interval)
        (by omega) (by omega) (by simp) (by simp) (by omega)
      refine ⟨j, a1, by rw [hr]; exact a2, by omega, ?_, ?_⟩
      · intro q h1 h2 hq
        by_cases hqi : q = i - 1
        · subst hqi; omega
        · exact a4 q (by simp; omega) h2 hq
      · rcases a5 with ⟨b1, b2⟩ | b
        · exact Or.inl ⟨b1, by rw [hr]; exact b2⟩
        · exact Or.inr b

/-- **mode `after` picks the earliest source sample at or after the query, within the query's own
epoch, and NaN exactly when the epoch holds none.**  Non-decreasing queries and samples, any lengths. -/
theorem vfT_after (ts tt : Array Int) (hsq : Sorted ts) (hss : Sorted tt) (maxt maxi : Nat) (hmt : maxt ≤ ts.size)
    (hmi : maxi ≤ tt.size) (lo t i : Nat) (hi : i < maxi) (hlo : lo ≤ i) (idx : Array (Option Nat)) (hsz : maxt ≤ idx.size)
    (hleft : (ht : t < maxt) → ∀ q, lo ≤ q → q < i → (hq : q < tt.size) → tt[q] < ts[t]'(by omega)) :
    ∀ p, t ≤ p → (hp : p < maxt) →
      (∃ j, ∃ hj : j < maxi, (vfT ts tt 2 maxt maxi hmt hmi t i hi idx)[p]? = some (some j) ∧ lo ≤ j ∧
          tt[j]'(by omega) ≥ ts[p]'(by omega) ∧
          ∀ q, lo ≤ q → (hq : q < maxi) → tt[q]'(by omega) ≥ ts[p]'(by omega) → j ≤ q) ∨
      ((vfT ts tt 2 maxt maxi hmt hmi t i hi idx)[p]? = some none ∧
          ∀ q, lo ≤ q → (hq : q < maxi) → tt[q]'(by omega) < ts[p]'(by omega)) := by
  induction hn : maxt - t generalizing t i idx with
  | zero => intro p h1 h2; omega
  | succ n ih =>
    have ht : t < maxt := by omega
    intro p hp1 hp2
    unfold vfT
    simp only [dif_pos ht]
    have hv : vfNew 2 (tt[i]'(by omega) - ts[t]) = tt[i]'(by omega) - ts[t] := by simp [vfNew]
    simp only [hv]
    have hnan0 : (if (2 : Nat) = 0 then decide (tt[i]'(by omega) - ts[t] > 0) else false) = false := by simp
    simp only [hnan0]
    obtain ⟨j, hj, a2, a3, a4, a5⟩ := vfInner_after tt hss ts[t] maxi hmi (i+1) (tt[i]'(by omega) - ts[t]) (some i) false
      (by omega) (by omega) (by simp) (by simp)
    simp only [Nat.add_sub_cancel] at a3 a4
    have hcursor : (vfInner tt ts[t] 2 maxi hmi (i + 1) (tt[i]'(by omega) - ts[t]) (some i) false).1 - 1 = j := by omega
    have hbefore : ∀ q, lo ≤ q → q < j → (hq : q < tt.size) → tt[q] < ts[t] := by
      intro q h1 h2 hq
      by_cases hqi : q < i
      · exact hleft ht q h1 hqi hq
      · exact a4 q (by omega) h2 hq
    -- the stored value
    have hidx : ∀ (h' : (vfInner tt ts[t] 2 maxi hmi (i + 1) (tt[i]'(by omega) - ts[t]) (some i) false).1 - 1 < tt.size),
        tt[(vfInner tt ts[t] 2 maxi hmi (i + 1) (tt[i]'(by omega) - ts[t]) (some i) false).1 - 1]'h' = tt[j]'(by omega) := by
      intro h'; congr 1
    generalize hcv : (if (vfInner tt ts[t] 2 maxi hmi (i + 1) (tt[i]'(by omega) - ts[t]) (some i) false).1 = maxi then _ else _) = v
    have hsv : (v = some j ∧ tt[j]'(by omega) ≥ ts[t]) ∨ (v = none ∧ tt[j]'(by omega) < ts[t] ∧ j + 1 = maxi) := by
      rcases a5 with ⟨b1, b2⟩ | ⟨b1, b2⟩
      · left
        refine ⟨?_, b1⟩
        rw [← hcv]
        have hnot : ¬ (tt[j]'(by omega) - ts[t] < 0) := by omega
        split
        · simp [hidx, hnot, b2]
        · exact b2
      · right
        refine ⟨?_, b1, b2⟩
        rw [← hcv]
        have hm : (vfInner tt ts[t] 2 maxi hmi (i + 1) (tt[i]'(by omega) - ts[t]) (some i) false).1 = maxi := by omega
        have hlt0 : (tt[j]'(by omega) - ts[t] < 0) := by omega
        rw [if_pos hm]
        simp only [hidx]
        simp [hlt0]
    by_cases hpt : p = t
    · subst hpt
      have hw := vfT_window ts tt 2 maxt maxi hmt hmi (p+1) _ (by omega : (vfInner tt ts[p] 2 maxi hmi (i + 1) (tt[i]'(by omega) - ts[p]) (some i) false).1 - 1 < maxi)
        (idx.setIfInBounds p v) lo (by omega)
      obtain ⟨w1, w2⟩ := hw
      have hp' : p < (idx.setIfInBounds p v).size := by simp; omega
      have hkeep := (w2 p hp' (by rw [w1]; exact hp')).1 (Or.inl (by omega))
      have hval := (Array.getElem?_eq_getElem (by rw [w1]; exact hp')).trans (congrArg some hkeep)
      have hset : (idx.setIfInBounds p v)[p]'hp' = v := by simp [Array.getElem_setIfInBounds]
      rw [hset] at hval
      rcases hsv with ⟨e1, e2⟩ | ⟨e1, e2, e3⟩
      · left
        refine ⟨j, hj, by rw [hval, e1], by omega, e2, ?_⟩
        intro q hq1 hq2 hq3
        by_cases hqj : q < j
        · have := hbefore q hq1 hqj (by omega); omega
        · omega
      · right
        refine ⟨by rw [hval, e1], ?_⟩
        intro q hq1 hq2
        by_cases hqj : q < j
        · exact hbefore q hq1 hqj (by omega)
        · have : q = j := by omega
          subst this; exact e2
    · exact ih (t+1) _ (by omega) (by omega) (idx.setIfInBounds t v) (by simp; exact hsz)
        (fun ht' q hq1 hq2 hq => by
          rw [hcursor] at hq2
          have := hbefore q hq1 hq2 hq
          have := hsq t (t+1) (by omega) (by omega) (by omega)
          omega)
        (by omega) p (by omega) hp2

/-! ## mode `before` (0): the latest source sample at or before the query, NaN when there is none -/

theorem vfInner_before (tt : Array Int) (hss : Sorted tt) (x : Int) (maxi : Nat) (hmax : maxi ≤ tt.size) (i : Nat)
    (interval : Int) (cur : Option Nat) (nanc : Bool) (hi1 : 1 ≤ i) (hi : i ≤ maxi) (hc : cur = some (i - 1))
    (hint : interval = tt[i - 1]'(by omega) - x) (hnanc : nanc = decide (interval > 0)) :
    let r := vfInner tt x 0 maxi hmax i interval cur nanc
    ∃ j, ∃ hj : j < maxi, r.1 = j + 1 ∧ i - 1 ≤ j ∧
      ((tt[j]'(by omega) ≤ x ∧ r.2.1 = some j ∧ (r.1 = maxi → r.2.2 = false) ∧
          ((hj1 : j + 1 < maxi) → tt[j + 1]'(by omega) > x ∨ tt[j]'(by omega) = x)) ∨
       (tt[j]'(by omega) > x ∧ j = i - 1 ∧ (r.1 ≠ maxi → r.2.1 = none) ∧ (r.1 = maxi → r.2.2 = true))) := by
  induction hn : maxi - i generalizing i interval cur nanc with
  | zero =>
    intro r
    have hr : r = (i, cur, nanc) := by
      show vfInner tt x 0 maxi hmax i interval cur nanc = _
      unfold vfInner
      have : ¬ i < maxi := by omega
      simp only [dif_neg this]
    refine ⟨i - 1, by omega, by rw [hr]; simp; omega, Nat.le_refl _, ?_⟩
    by_cases hle : tt[i - 1]'(by omega) ≤ x
    · left
      refine ⟨hle, by rw [hr]; exact hc, fun _ => ?_, fun h => by omega⟩
      rw [hr, hnanc]; simp; omega
    · right
      refine ⟨by omega, rfl, fun h => ?_, fun _ => ?_⟩
      · rw [hr] at h; simp at h; omega
      · rw [hr, hnanc]; simp; omega
  | succ n ih =>
    intro r
    have hlt : i < maxi := by omega
    have hv : vfNew 0 (tt[i]'(by omega) - x) = tt[i]'(by omega) - x := by simp [vfNew]
    have hmono := hss (i-1) i (by omega) (by omega) (by omega)
    by_cases hpos : interval > 0
    · -- the cursor sample is after the query: break at once with NaN
      have hr : r = (i, none, true) := by
        show vfInner tt x 0 maxi hmax i interval cur nanc = _
        unfold vfInner
        simp only [dif_pos hlt, hv]
        have hbr : vfBreak 0 (tt[i]'(by omega) - x) interval = true := by
          simp [vfBreak]; omega
        have hnan : vfNan 0 (tt[i]'(by omega) - x) interval = true := by simp [vfNan, hpos]
        simp only [hbr, hnan, if_true]
      refine ⟨i - 1, by omega, by rw [hr]; simp; omega, Nat.le_refl _, Or.inr ⟨by omega, rfl, fun _ => by rw [hr], fun h => ?_⟩⟩
      rw [hr] at h; simp at h; omega
    · by_cases hz : interval = 0
      · have hr : r = (i, cur, false) := by
          show vfInner tt x 0 maxi hmax i interval cur nanc = _
          unfold vfInner
          simp only [dif_pos hlt, hv]
          have hbr : vfBreak 0 (tt[i]'(by omega) - x) interval = true := by
            simp [vfBreak, hz]
          have hnan : vfNan 0 (tt[i]'(by omega) - x) interval = false := by simp [vfNan, hz]
          simp only [hbr, hnan, if_true, Bool.false_eq_true, if_false]
        refine ⟨i - 1, by omega, by rw [hr]; simp; omega, Nat.le_refl _, Or.inl ⟨by omega, by rw [hr]; exact hc, fun _ => by rw [hr], fun _ => Or.inr (by omega)⟩⟩
      · have hneg : interval < 0 := by omega
        by_cases hnew : tt[i]'(by omega) - x > 0
        · have hr : r = (i, cur, false) := by
            show vfInner tt x 0 maxi hmax i interval cur nanc = _
            unfold vfInner
            simp only [dif_pos hlt, hv]
            have hbr : vfBreak 0 (tt[i]'(by omega) - x) interval = true := by
              simp [vfBreak]; omega
            have hnan : vfNan 0 (tt[i]'(by omega) - x) interval = false := by simp [vfNan]; omega
            simp only [hbr, hnan, if_true, Bool.false_eq_true, if_false]
          refine ⟨i - 1, by omega, by rw [hr]; simp; omega, Nat.le_refl _, Or.inl ⟨by omega, by rw [hr]; exact hc, fun _ => by rw [hr], fun hj1 => Or.inl ?_⟩⟩
          have e : i - 1 + 1 = i := by omega
          simp only [e]; omega
        · have hr : r = vfInner tt x 0 maxi hmax (i+1) (tt[i]'(by omega) - x) (some i) false := by
            show vfInner tt x 0 maxi hmax i interval cur nanc = _
            conv => lhs; unfold vfInner
            simp only [dif_pos hlt, hv]
            have hbr : vfBreak 0 (tt[i]'(by omega) - x) interval = false := by
              simp [vfBreak]; omega
            have hnan : vfNan 0 (tt[i]'(by omega) - x) interval = false := by simp [vfNan]; omega
            simp only [hbr, hnan, Bool.false_eq_true, if_false]
          obtain ⟨j, hj, a2, a3, a5⟩ := ih (i+1) (tt[i]'(by omega) - x) (some i) false
            (by omega) (by omega) (by simp) (by simp) (by simp; omega) (by omega)
          refine ⟨j, hj, by rw [hr]; exact a2, by omega, ?_⟩
          rcases a5 with ⟨b1, b2, b3, b4⟩ | ⟨b1, b2, _, _⟩
          · exact Or.inl ⟨b1, by rw [hr]; exact b2, by rw [hr]; exact b3, b4⟩
          · -- impossible: the sample at i is ≤ x and j = i
            exfalso
            simp only [Nat.add_sub_cancel] at b2
            subst b2; omega

/-- **mode `before` picks the latest source sample at or before the query, within the query's own
epoch, and NaN exactly when the epoch holds none** (after `fix:` eba7cfb also when the epoch holds a
single source sample).  Non-decreasing queries and samples, any lengths, duplicates included. -/
theorem vfT_before (ts tt : Array Int) (hsq : Sorted ts) (hss : Sorted tt) (maxt maxi : Nat) (hmt : maxt ≤ ts.size)
    (hmi : maxi ≤ tt.size) (lo t i : Nat) (hi : i < maxi) (hlo : lo ≤ i) (idx : Array (Option Nat)) (hsz : maxt ≤ idx.size)
    (hinv : (ht : t < maxt) → i = lo ∨ tt[i]'(by omega) ≤ ts[t]'(by omega)) :
    ∀ p, t ≤ p → (hp : p < maxt) →
      (∃ j, ∃ hj : j < maxi, (vfT ts tt 0 maxt maxi hmt hmi t i hi idx)[p]? = some (some j) ∧ lo ≤ j ∧
          tt[j]'(by omega) ≤ ts[p]'(by omega) ∧
          ∀ q, lo ≤ q → (hq : q < maxi) → tt[q]'(by omega) ≤ ts[p]'(by omega) → tt[q]'(by omega) ≤ tt[j]'(by omega)) ∨
      ((vfT ts tt 0 maxt maxi hmt hmi t i hi idx)[p]? = some none ∧
          ∀ q, lo ≤ q → (hq : q < maxi) → tt[q]'(by omega) > ts[p]'(by omega)) := by
  induction hn : maxt - t generalizing t i idx with
  | zero => intro p h1 h2; omega
  | succ n ih =>
    have ht : t < maxt := by omega
    intro p hp1 hp2
    unfold vfT
    simp only [dif_pos ht]
    have hv : vfNew 0 (tt[i]'(by omega) - ts[t]) = tt[i]'(by omega) - ts[t] := by simp [vfNew]
    simp only [hv]
    have hnan0 : (if True then decide (tt[i]'(by omega) - ts[t] > 0) else false) = decide (tt[i]'(by omega) - ts[t] > 0) := by simp
    simp only [hnan0]
    obtain ⟨j, hj, a2, a3, a5⟩ := vfInner_before tt hss ts[t] maxi hmi (i+1) (tt[i]'(by omega) - ts[t]) (some i)
      (decide (tt[i]'(by omega) - ts[t] > 0)) (by omega) (by omega) (by simp) (by simp) rfl
    have a3' : i ≤ j := by omega
    have a5' : (tt[j]'(by omega) ≤ ts[t] ∧ (vfInner tt ts[t] 0 maxi hmi (i + 1) (tt[i]'(by omega) - ts[t]) (some i) (decide (tt[i]'(by omega) - ts[t] > 0))).2.1 = some j ∧
          ((vfInner tt ts[t] 0 maxi hmi (i + 1) (tt[i]'(by omega) - ts[t]) (some i) (decide (tt[i]'(by omega) - ts[t] > 0))).1 = maxi →
            (vfInner tt ts[t] 0 maxi hmi (i + 1) (tt[i]'(by omega) - ts[t]) (some i) (decide (tt[i]'(by omega) - ts[t] > 0))).2.2 = false) ∧
          ((hj1 : j + 1 < maxi) → tt[j + 1]'(by omega) > ts[t] ∨ tt[j]'(by omega) = ts[t])) ∨
        (tt[j]'(by omega) > ts[t] ∧ j = i ∧
          ((vfInner tt ts[t] 0 maxi hmi (i + 1) (tt[i]'(by omega) - ts[t]) (some i) (decide (tt[i]'(by omega) - ts[t] > 0))).1 ≠ maxi →
            (vfInner tt ts[t] 0 maxi hmi (i + 1) (tt[i]'(by omega) - ts[t]) (some i) (decide (tt[i]'(by omega) - ts[t] > 0))).2.1 = none) ∧
          ((vfInner tt ts[t] 0 maxi hmi (i + 1) (tt[i]'(by omega) - ts[t]) (some i) (decide (tt[i]'(by omega) - ts[t] > 0))).1 = maxi →
            (vfInner tt ts[t] 0 maxi hmi (i + 1) (tt[i]'(by omega) - ts[t]) (some i) (decide (tt[i]'(by omega) - ts[t] > 0))).2.2 = true)) := by
      rcases a5 with b | ⟨b1, b2, b3, b4⟩
      · exact Or.inl b
      · exact Or.inr ⟨b1, by omega, b3, b4⟩
    clear a5
    have hcursor : (vfInner tt ts[t] 0 maxi hmi (i + 1) (tt[i]'(by omega) - ts[t]) (some i) (decide (tt[i]'(by omega) - ts[t] > 0))).1 - 1 = j := by omega
    generalize hcv : (if (vfInner tt ts[t] 0 maxi hmi (i + 1) (tt[i]'(by omega) - ts[t]) (some i) (decide (tt[i]'(by omega) - ts[t] > 0))).1 = maxi then _ else _) = v
    have hsv : (v = some j ∧ tt[j]'(by omega) ≤ ts[t] ∧ ((hj1 : j + 1 < maxi) → tt[j + 1]'(by omega) > ts[t] ∨ tt[j]'(by omega) = ts[t])) ∨
        (v = none ∧ tt[j]'(by omega) > ts[t] ∧ j = i) := by
      rcases a5' with ⟨b1, b2, b3, b4⟩ | ⟨b1, b2, b3, b4⟩
      · left
        refine ⟨?_, b1, b4⟩
        rw [← hcv]
        split
        · rename_i hm
          have hz2 : ¬ ((0 : Nat) = 2) := by omega
          simp only [hz2, if_false, b3 hm, Bool.false_eq_true]
          exact b2
        · exact b2
      · right
        refine ⟨?_, b1, b2⟩
        rw [← hcv]
        split
        · rename_i hm
          have hz2 : ¬ ((0 : Nat) = 2) := by omega
          simp only [hz2, if_false, b4 hm, if_true]
        · rename_i hm
          exact b3 hm
    have hw := vfT_window ts tt 0 maxt maxi hmt hmi (t+1) _ (by omega : (vfInner tt ts[t] 0 maxi hmi (i + 1) (tt[i]'(by omega) - ts[t]) (some i) (decide (tt[i]'(by omega) - ts[t] > 0))).1 - 1 < maxi)
      (idx.setIfInBounds t v) lo (by omega)
    by_cases hpt : p = t
    · subst hpt
      obtain ⟨w1, w2⟩ := hw
      have hp' : p < (idx.setIfInBounds p v).size := by simp; omega
      have hkeep := (w2 p hp' (by rw [w1]; exact hp')).1 (Or.inl (by omega))
      have hval := (Array.getElem?_eq_getElem (by rw [w1]; exact hp')).trans (congrArg some hkeep)
      have hset : (idx.setIfInBounds p v)[p]'hp' = v := by simp [Array.getElem_setIfInBounds]
      rw [hset] at hval
      rcases hsv with ⟨e1, e2, e3⟩ | ⟨e1, e2, e3⟩
      · left
        refine ⟨j, hj, by rw [hval, e1], by omega, e2, ?_⟩
        intro q hq1 hq2 hq3
        by_cases hqj : q ≤ j
        · exact hss q j (by omega) (by omega) hqj
        · have hj1 : j + 1 < maxi := by omega
          rcases e3 hj1 with e4 | e4
          · have := hss (j+1) q (by omega) (by omega) (by omega); omega
          · omega
      · right
        refine ⟨by rw [hval, e1], ?_⟩
        intro q hq1 hq2
        subst e3
        rcases hinv ht with e5 | e5
        · have := hss j q (by omega) (by omega) (by omega); omega
        · omega
    · exact ih (t+1) _ (by omega) (by omega) (idx.setIfInBounds t v) (by simp; exact hsz)
        (fun ht' => by
          have hxx := hsq t (t+1) (by omega) (by omega) (by omega)
          rcases hsv with ⟨_, e2, _⟩ | ⟨_, e2, e3⟩
          · right
            have : ∀ (h' : (vfInner tt ts[t] 0 maxi hmi (i + 1) (tt[i]'(by omega) - ts[t]) (some i) (decide (tt[i]'(by omega) - ts[t] > 0))).1 - 1 < tt.size),
                tt[(vfInner tt ts[t] 0 maxi hmi (i + 1) (tt[i]'(by omega) - ts[t]) (some i) (decide (tt[i]'(by omega) - ts[t] > 0))).1 - 1]'h' = tt[j]'(by omega) := by
              intro h'; congr 1
            rw [this]; omega
          · left
            rcases hinv ht with e5 | e5
            · omega
            · subst e3; omega)
        (by omega) p (by omega) hp2


/-- concrete runs (mode 0 = before, 1 = closest, 2 = after); the first is the input that was
wrong before the repair: a query preceding the only source sample of its epoch -/
def vfOk : R (Array (Option Nat)) → Array (Option Nat) → Bool
  | .ok a, b => a == b
  | _, _ => false
example : vfOk (jitvaluefrom #[0, 2] #[1] #[2] #[1] 1 0) #[none, some 0] = true := by decide +kernel
example : vfOk (jitvaluefrom #[0, 2] #[1] #[2] #[1] 1 1) #[some 0, some 0] = true := by decide +kernel
example : vfOk (jitvaluefrom #[0, 2] #[1] #[2] #[1] 1 2) #[some 0, none] = true := by decide +kernel
-- two epochs: the second query epoch holds no source sample -> NaN, never the sample of epoch 0
example : vfOk (jitvaluefrom #[0, 10] #[1] #[1, 1] #[1, 0] 2 1) #[some 0, none] = true := by decide +kernel

end Pyn.C06

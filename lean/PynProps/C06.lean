import PynModel.Kernels.ValueFrom
/-!
# C06 — value_from and interpolate pick the right neighbour and never cross an epoch
Model: `Pyn.jitvaluefrom` (after `fix:` eba7cfb).  `vfT` scans the queries `t0 ≤ t < maxt` of one
epoch against the source samples `lo ≤ i < maxi` of the same epoch.

Proved: **a value is never taken from a different interval** — whatever the timestamps, the mode
and the ties, the index stored for a query of the epoch is `none` (NaN) or an index inside the
source window of that same epoch, and entries of other epochs are left untouched.
Not proved yet: the per-mode choice (nearest / latest-before / earliest-after); decided by the
oracle + correspondence run.
-/
namespace Pyn.C06
open Pyn

theorem vfInner_cur (tt : Array Int) (x : Int) (mode maxi : Nat) (hmax : maxi ≤ tt.size)
    (i : Nat) (interval : Int) (cur : Option Nat) (nanc : Bool) (j : Nat)
    (h : (vfInner tt x mode maxi hmax i interval cur nanc).2.1 = some j) :
    cur = some j ∨ (i ≤ j ∧ j < maxi) := by
  fun_induction vfInner tt x mode maxi hmax i interval cur nanc with
  | case1 i interval cur nanc hi new hb =>
    simp only at h
    split at h
    · simp at h
    · exact Or.inl h
  | case2 i interval cur nanc hi new hb ih =>
    rcases ih h with h1 | h1
    · simp at h1; subst h1; exact Or.inr ⟨Nat.le_refl _, hi⟩
    · exact Or.inr ⟨by omega, h1.2⟩
  | case3 i interval cur nanc hi => exact Or.inl h

/-- **never cross an epoch.** After scanning the queries `[t, maxt)` of an epoch whose source
window is `[lo, maxi)` (cursor `i ≥ lo`): every entry outside `[t, maxt)` is unchanged, and every
entry inside is NaN or an index of that same source window. -/
theorem vfT_window (ts tt : Array Int) (mode maxt maxi : Nat) (hmt : maxt ≤ ts.size) (hmi : maxi ≤ tt.size)
    (t i : Nat) (hi : i < maxi) (idx : Array (Option Nat)) (lo : Nat) (hlo : lo ≤ i) :
    (vfT ts tt mode maxt maxi hmt hmi t i hi idx).size = idx.size ∧
    ∀ p, (hp : p < idx.size) → (hp' : p < (vfT ts tt mode maxt maxi hmt hmi t i hi idx).size) →
      ((p < t ∨ maxt ≤ p) → (vfT ts tt mode maxt maxi hmt hmi t i hi idx)[p] = idx[p]) ∧
      ((t ≤ p ∧ p < maxt) → ∀ j, (vfT ts tt mode maxt maxi hmt hmi t i hi idx)[p] = some j → lo ≤ j ∧ j < maxi) := by
  fun_induction vfT ts tt mode maxt maxi hmt hmi t i hi idx with
  | case1 t i hi idx ht x interval nan0 r hb cur ih =>
    obtain ⟨hsz, hall⟩ := ih (by omega)
    simp only [Array.size_setIfInBounds] at hsz hall
    refine ⟨hsz, ?_⟩
    intro p hp hp'
    obtain ⟨h1, h2⟩ := hall p hp hp'
    refine ⟨?_, ?_⟩
    · intro hout
      rw [h1 (by omega), Array.getElem_setIfInBounds]
      split
      · omega
      · rfl
    · intro hin j hj
      by_cases hpt : p = t
      · subst hpt
        rw [h1 (Or.inl (by omega))] at hj
        have hcur : cur = some j := by simpa [Array.getElem_setIfInBounds] using hj
        have key : ∀ j, r.2.1 = some j → lo ≤ j ∧ j < maxi := by
          intro j hj
          rcases vfInner_cur tt x mode maxi hmi (i+1) interval (some i) nan0 j hj with h3 | h3
          · simp at h3; subst h3; exact ⟨hlo, hi⟩
          · exact ⟨by omega, h3.2⟩
        have hr : r.2.1 = some j := by
          simp only [cur] at hcur
          repeat' split at hcur
          all_goals first | exact hcur | (simp at hcur)
        exact key j hr
      · exact h2 ⟨by omega, hin.2⟩ j hj
  | case2 t i hi idx ht =>
    refine ⟨rfl, fun p hp hp' => ⟨fun _ => rfl, fun hin => by omega⟩⟩

/-- concrete runs (mode 0 = before, 1 = closest, 2 = after); the first is the input that was
wrong before the repair: a query preceding the only source sample of its epoch -/
def vfOk : R (Array (Option Nat)) → Array (Option Nat) → Bool
  | .ok a, b => a == b
  | _, _ => false
example : vfOk (jitvaluefrom #[0, 2] #[1] #[2] #[1] 1 0) #[none, some 0] = true := by decide +kernel
example : vfOk (jitvaluefrom #[0, 2] #[1] #[2] #[1] 1 1) #[some 0, some 0] = true := by decide +kernel
example : vfOk (jitvaluefrom #[0, 2] #[1] #[2] #[1] 1 2) #[some 0, none] = true := by decide +kernel
-- two epochs: the second query epoch holds no source sample -> NaN, never the sample of epoch 0
example : vfOk (jitvaluefrom #[0, 10] #[1] #[1, 1] #[1, 0] 2 1) #[some 0, none] = true := by decide +kernel

end Pyn.C06

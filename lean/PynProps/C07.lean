import PynModel.Kernels.Threshold
import PynModel.Kernels.Nan
import PynProofs.Threshold
import PynProps.C15
import PynProps.C01
/-!
# C07 — threshold and dropna keep the right samples and a support that separates them
Models: `Pyn.jitthreshold` (checked reads: the Python source does not guard them) and
`Pyn.jitremoveNan`.  Which samples are kept is decided by NumPy (`data > thr`, `isnan`) before the
kernels run; the kernels only build the new support.

Proved: the dropna support exactly — `removeNan_cover`: sample i is kept iff it lies in one of the runs
`[start k, end k]` the kernel returns (every kept sample inside the new support, no dropped sample inside), for
any mask of positive length (loop invariant `CoverInv`: closed runs + the run still open); and its structure
(`removeNan_runs`: every new start / end is a kept sample, as many starts as ends).  Threshold: the model follows the kernel as repaired by `fix:` d92f793 (epoch tracking), 6abb03b (epoch boundary
before the last sample) and efb22ea (empty series); the former findings are kept as regression witnesses, the
remaining **known finding** (a kept sample that is alone in its support interval gets a zero-length interval,
which the constructor drops) is proved on the model as a witness; the positive statement is `threshold_correct` below (kept samples exactly inside the
new support, new support inside the old one, for every length ≥ 1 and any number of support intervals).
-/
namespace Pyn.C07
open Pyn

/-- invariant of the run scan: starts and ends are kept samples, indices `< t`, and there is one
more start than ends exactly when sample `t-1` is kept (a run is open) -/
def RunInv (nan : Array Bool) (t : Nat) (s e : Array Nat) : Prop :=
  (∀ a ∈ s, ∃ h : a < nan.size, nan[a] = false) ∧
  (∀ a ∈ e, ∃ h : a < nan.size, nan[a] = false) ∧
  (∃ h : t - 1 < nan.size, s.size = e.size + (if nan[t-1] = false then 1 else 0))

theorem removeNanLoop_inv (nan : Array Bool) (t : Nat) (ht : 1 ≤ t) (s e : Array Nat)
    (h : RunInv nan t s e) (htn : t ≤ nan.size) :
    RunInv nan nan.size (removeNanLoop nan t ht s e).1 (removeNanLoop nan t ht s e).2 := by
  fun_induction removeNanLoop nan t ht s e with
  | case1 t ht s e hlt s' e' ih =>
    apply ih _ (by omega)
    obtain ⟨h1, h2, h3, h4⟩ := h
    refine ⟨?_, ?_, ?_⟩
    · intro a ha
      simp only [s'] at ha
      split at ha
      · rename_i hc
        simp only [Array.mem_push] at ha
        rcases ha with ha | ha
        · exact h1 a ha
        · subst ha; simp at hc; exact ⟨hlt, hc.2⟩
      · exact h1 a ha
    · intro a ha
      simp only [e'] at ha
      split at ha
      · rename_i hc
        simp only [Array.mem_push] at ha
        rcases ha with ha | ha
        · exact h2 a ha
        · subst ha; simp at hc; exact ⟨by omega, hc.1⟩
      · exact h2 a ha
    · refine ⟨by simpa using hlt, ?_⟩
      simp only [s', e', Nat.add_sub_cancel]
      cases hp : nan[t-1] <;> cases hq : nan[t] <;> simp_all <;> omega
  | case2 t ht s e hge =>
    have : t = nan.size := by omega
    subst this; exact h

/-- **dropna support = runs of kept samples.** For any NaN mask of positive length, every new start
and every new end is the index of a kept (non-NaN) sample, and there are as many starts as ends. -/
theorem removeNan_runs (nan : Array Bool) (hn : 0 < nan.size) :
    (∀ a ∈ (jitremoveNan nan hn).1, ∃ h : a < nan.size, nan[a] = false) ∧
    (∀ a ∈ (jitremoveNan nan hn).2, ∃ h : a < nan.size, nan[a] = false) ∧
    (jitremoveNan nan hn).1.size = (jitremoveNan nan hn).2.size := by
  have h0 : RunInv nan 1 (if !nan[0] then #[0] else #[]) #[] := by
    refine ⟨?_, by simp, ⟨by simpa using hn, ?_⟩⟩
    · intro a ha
      split at ha
      · rename_i hc; simp at ha; subst ha; exact ⟨hn, by simpa using hc⟩
      · simp at ha
    · cases h : nan[0] <;> simp [h]
  have := removeNanLoop_inv nan 1 (by omega) _ #[] h0 (by omega)
  unfold jitremoveNan
  simp only
  generalize (if (!nan[0]) = true then (#[0] : Array Nat) else #[]) = s0 at *
  obtain ⟨h1, h2, h3, h4⟩ := this
  refine ⟨h1, ?_, ?_⟩
  · intro a ha
    split at ha
    · rename_i hc
      simp only [Array.mem_push] at ha
      rcases ha with ha | ha
      · exact h2 a ha
      · subst ha; exact ⟨by omega, by simpa using hc⟩
    · exact h2 a ha
  · split
    · rename_i hc
      have hf : nan[nan.size - 1] = false := by simpa using hc
      simp only [hf, ↓reduceIte] at h4; simp only [Array.size_push]; omega
    · rename_i hc
      have hf : nan[nan.size - 1] = true := by simpa using hc
      simp [hf] at h4; omega

/-! ### dropna: the runs returned are exactly the kept samples -/

/-- sample `i` lies in one of the closed runs `[s[k], e[k]]` -/
def Closed (s e : Array Nat) (i : Nat) : Prop :=
  ∃ k, ∃ hk : k < e.size, ∃ hk2 : k < s.size, s[k] ≤ i ∧ i ≤ e[k]
/-- … or in the run still open at the end of `s` -/
def Open (s e : Array Nat) (i : Nat) : Prop :=
  s.size = e.size + 1 ∧ ∃ h : s.size - 1 < s.size, s[s.size - 1] ≤ i

theorem closed_push_s (s e : Array Nat) (t i : Nat) (hsz : s.size = e.size) :
    Closed (s.push t) e i ↔ Closed s e i := by
  constructor
  · rintro ⟨k, hk, hk2, a, b⟩
    have hks : k < s.size := by omega
    exact ⟨k, hk, hks, by simpa [Array.getElem_push_lt hks] using a, b⟩
  · rintro ⟨k, hk, hk2, a, b⟩
    exact ⟨k, hk, by simp; omega, by simpa [Array.getElem_push_lt hk2] using a, b⟩

theorem open_push_s (s e : Array Nat) (t i : Nat) (hsz : s.size = e.size) :
    Open (s.push t) e i ↔ t ≤ i := by
  constructor
  · rintro ⟨_, h, a⟩
    simpa using a
  · intro h
    exact ⟨by simp [hsz], by simp, by simpa using h⟩

theorem closed_push_e (s e : Array Nat) (q i : Nat) (hsz : s.size = e.size + 1) :
    Closed s (e.push q) i ↔ Closed s e i ∨ (s[e.size]'(by omega) ≤ i ∧ i ≤ q) := by
  constructor
  · rintro ⟨k, hk, hk2, a, b⟩
    simp only [Array.size_push] at hk
    rcases Nat.lt_or_ge k e.size with h | h
    · exact Or.inl ⟨k, h, hk2, a, by simpa [Array.getElem_push_lt h] using b⟩
    · have : k = e.size := by omega
      subst this
      exact Or.inr ⟨a, by simpa using b⟩
  · rintro (⟨k, hk, hk2, a, b⟩ | ⟨a, b⟩)
    · exact ⟨k, by simp; omega, hk2, a, by simpa [Array.getElem_push_lt hk] using b⟩
    · exact ⟨e.size, by simp, by omega, a, by simpa using b⟩

theorem not_open_of_eq (s e : Array Nat) (i : Nat) (hsz : s.size = e.size) : ¬ Open s e i := by
  rintro ⟨h, _⟩; omega

theorem not_open_push_e (s e : Array Nat) (q i : Nat) (hsz : s.size = e.size + 1) : ¬ Open s (e.push q) i := by
  rintro ⟨h, _⟩; simp at h; omega

/-- invariant of the scan after samples `0 .. t-1` -/
def CoverInv (nan : Array Bool) (t : Nat) (s e : Array Nat) : Prop :=
  (∃ h : t - 1 < nan.size, s.size = e.size + (if nan[t-1] = false then 1 else 0)) ∧
  (∀ k, (hk : k < e.size) → e[k] + 1 < t) ∧
  (∀ k, (hk : k < s.size) → s[k] < t) ∧
  (∀ i, (hi : i < nan.size) → i < t → (nan[i] = false ↔ (Closed s e i ∨ Open s e i)))

theorem removeNanLoop_cover (nan : Array Bool) (t : Nat) (ht : 1 ≤ t) (s e : Array Nat)
    (h : CoverInv nan t s e) (htn : t ≤ nan.size) :
    CoverInv nan nan.size (removeNanLoop nan t ht s e).1 (removeNanLoop nan t ht s e).2 := by
  fun_induction removeNanLoop nan t ht s e with
  | case1 t ht s e hlt s' e' ih =>
    apply ih _ (by omega)
    obtain ⟨⟨h0, hsz⟩, hE, hS, hC⟩ := h
    unfold CoverInv
    simp only [Nat.add_sub_cancel]
    cases hp : nan[t-1] <;> cases hq : nan[t]
    · -- kept, kept: nothing pushed, the run stays open
      have es : s' = s := by simp [s', hp, hq]
      have ee : e' = e := by simp [e', hp, hq]
      rw [es, ee]
      have hsz' : s.size = e.size + 1 := by simpa [hp] using hsz
      refine ⟨⟨hlt, by simpa [hq] using hsz'⟩, fun k hk => by have := hE k hk; omega,
        fun k hk => by have := hS k hk; omega, ?_⟩
      intro i hi hit
      rcases Nat.lt_or_ge i t with hlt' | hge
      · exact hC i hi hlt'
      · have : i = t := by omega
        subst this
        simp only [hq, true_iff]
        right
        have h1 : s.size - 1 < s.size := by omega
        exact ⟨hsz', h1, by have := hS _ h1; omega⟩
    · -- kept, NaN: the open run is closed at t-1
      have es : s' = s := by simp [s', hp, hq]
      have ee : e' = e.push (t-1) := by simp [e', hp, hq]
      rw [es, ee]
      have hsz' : s.size = e.size + 1 := by simpa [hp] using hsz
      refine ⟨⟨hlt, by simp [hq, hsz']⟩, ?_, fun k hk => by have := hS k hk; omega, ?_⟩
      · intro k hk
        simp only [Array.size_push] at hk
        rcases Nat.lt_or_ge k e.size with h | h
        · have := hE k h; simp [Array.getElem_push_lt h]; omega
        · have : k = e.size := by omega
          subst this; simp; omega
      · intro i hi hit
        rw [closed_push_e s e (t-1) i hsz']
        have hno := not_open_push_e s e (t-1) i hsz'
        have hlast : s.size - 1 = e.size := by omega
        rcases Nat.lt_or_ge i t with hlt' | hge
        · rw [hC i hi hlt']
          constructor
          · rintro (h | ⟨_, h1, h2⟩)
            · exact Or.inl (Or.inl h)
            · left; right
              refine ⟨?_, by omega⟩
              simpa [hlast] using h2
          · rintro ((h | ⟨h1, h2⟩) | h)
            · exact Or.inl h
            · right
              exact ⟨hsz', by omega, by simpa [hlast] using h1⟩
            · exact absurd h hno
        · have : i = t := by omega
          subst this
          simp only [hq, Bool.true_eq_false, false_iff]
          rintro ((⟨k, hk, hk2, a, b⟩ | ⟨a, b⟩) | h)
          · have := hE k hk; omega
          · omega
          · exact hno h
    · -- NaN, kept: a run opens at t
      have es : s' = s.push t := by simp [s', hp, hq]
      have ee : e' = e := by simp [e', hp, hq]
      rw [es, ee]
      have hsz' : s.size = e.size := by simpa [hp] using hsz
      refine ⟨⟨hlt, by simp [hq, hsz']⟩, fun k hk => by have := hE k hk; omega, ?_, ?_⟩
      · intro k hk
        simp only [Array.size_push] at hk
        rcases Nat.lt_or_ge k s.size with h | h
        · have := hS k h; simp [Array.getElem_push_lt h]; omega
        · have : k = s.size := by omega
          subst this; simp
      · intro i hi hit
        rw [closed_push_s s e t i hsz', open_push_s s e t i hsz']
        rcases Nat.lt_or_ge i t with hlt' | hge
        · rw [hC i hi hlt']
          constructor
          · rintro (h | h)
            · exact Or.inl h
            · exact absurd h (not_open_of_eq s e i hsz')
          · rintro (h | h)
            · exact Or.inl h
            · omega
        · have : i = t := by omega
          subst this
          simp only [hq, true_iff]
          exact Or.inr (Nat.le_refl _)
    · -- NaN, NaN
      have es : s' = s := by simp [s', hp, hq]
      have ee : e' = e := by simp [e', hp, hq]
      rw [es, ee]
      have hsz' : s.size = e.size := by simpa [hp] using hsz
      refine ⟨⟨hlt, by simpa [hq] using hsz'⟩, fun k hk => by have := hE k hk; omega,
        fun k hk => by have := hS k hk; omega, ?_⟩
      intro i hi hit
      rcases Nat.lt_or_ge i t with hlt' | hge
      · exact hC i hi hlt'
      · have : i = t := by omega
        subst this
        simp only [hq, Bool.true_eq_false, false_iff]
        rintro (⟨k, hk, hk2, a, b⟩ | h)
        · have := hE k hk; omega
        · exact not_open_of_eq s e _ hsz' h
  | case2 t ht s e hge =>
    have : t = nan.size := by omega
    subst this; exact h

theorem s0_lt (b : Bool) (k : Nat) (hk : k < (if (!b) = true then (#[0] : Array Nat) else #[]).size) :
    (if (!b) = true then (#[0] : Array Nat) else #[])[k] < 1 := by
  cases b
  · simp at hk ⊢
  · simp at hk

/-- **dropna: the new support is exactly the kept samples.**  For any NaN mask of positive length, sample `i` is
kept (not NaN) iff it lies in one of the runs `[start k, end k]` the kernel returns (as sample indices; the caller
turns them into `[t[start k], t[end k]]`): every kept sample is inside the new support, no dropped sample is -/
theorem removeNan_cover (nan : Array Bool) (hn : 0 < nan.size) (i : Nat) (hi : i < nan.size) :
    nan[i] = false ↔ Closed (jitremoveNan nan hn).1 (jitremoveNan nan hn).2 i := by
  have h0 : CoverInv nan 1 (if !nan[0] then #[0] else #[]) #[] := by
    refine ⟨⟨by simpa using hn, ?_⟩, by simp, ?_, ?_⟩
    · cases h : nan[0] <;> simp [h]
    · intro k hk
      exact s0_lt nan[0] k hk
    · intro j hj hj1
      have : j = 0 := by omega
      subst this
      cases h : nan[0]
      · simp only [true_iff]
        right
        exact ⟨by simp, by simp, by simp⟩
      · simp only [Bool.true_eq_false, false_iff]
        rintro (⟨k, hk, _⟩ | ⟨hsz, _⟩)
        · simp at hk
        · simp at hsz
  have := removeNanLoop_cover nan 1 (by omega) _ #[] h0 (by omega)
  unfold jitremoveNan
  simp only
  generalize (if (!nan[0]) = true then (#[0] : Array Nat) else #[]) = s0 at *
  obtain ⟨⟨h1, hsz⟩, hE, hS, hC⟩ := this
  rw [hC i hi hi]
  cases hl : nan[nan.size - 1]
  · simp only [Bool.not_false, if_true]
    have hsz' : (removeNanLoop nan 1 (by omega) s0 #[]).1.size = (removeNanLoop nan 1 (by omega) s0 #[]).2.size + 1 := by
      simpa [hl] using hsz
    rw [closed_push_e _ _ _ i hsz']
    constructor
    · rintro (h | ⟨_, h1', h2⟩)
      · exact Or.inl h
      · right
        have e : (removeNanLoop nan 1 (by omega) s0 #[]).1.size - 1 = (removeNanLoop nan 1 (by omega) s0 #[]).2.size := by omega
        exact ⟨by simpa [e] using h2, by omega⟩
    · rintro (h | ⟨h1', h2⟩)
      · exact Or.inl h
      · right
        have e : (removeNanLoop nan 1 (by omega) s0 #[]).1.size - 1 = (removeNanLoop nan 1 (by omega) s0 #[]).2.size := by omega
        exact ⟨hsz', by omega, by simpa [e] using h1'⟩
  · simp only [Bool.not_true, Bool.false_eq_true, if_false]
    have hsz' : (removeNanLoop nan 1 (by omega) s0 #[]).1.size = (removeNanLoop nan 1 (by omega) s0 #[]).2.size := by
      simpa [hl] using hsz
    constructor
    · rintro (h | h)
      · exact h
      · exact absurd h (not_open_of_eq _ _ i hsz')
    · exact Or.inl


-- non-vacuity: NaN runs at the start, in the middle, isolated kept singletons
example : jitremoveNan #[true, false, false, true, false, true, true, false] (by decide) = (#[1, 4, 7], #[2, 4, 7]) := by decide +kernel

/-! ### threshold: exactly the kept samples, inside the old support -/

/-- **C07 for threshold, kernel level** (times doubled so that midpoints stay integral): for a strictly increasing series
lying inside a canonical support — any length ≥ 1, any keep/reject pattern, one or many support intervals, samples
alone in their interval — `jitthreshold` returns (no out-of-range read), with as many starts as ends, such that
* sample `i` is kept iff `2·t[i]` lies in one of the returned closed intervals: the new support contains every kept
  sample and no rejected sample;
* every returned interval lies inside ONE interval of the old support: nothing extends beyond it or bridges a gap.
(`threshold_cover`, `threshold_inside` in `PynProofs/Threshold.lean`, `C15.threshold_safe`.) -/
theorem threshold_correct (ts : Array Int) (ix : Array Bool) (st en : Array Int) (hm : st.size = en.size)
    (hc : Canon st en hm) (hs : StrictInc ts) (hix : ix.size = ts.size) (hn : 0 < ts.size)
    (hin : ∀ i, (h : i < ts.size) → InIv st en hm ts[i]) :
    ∃ out, jitthreshold ts ix st en = .ok out ∧ out.1.size = out.2.size ∧
      (∀ i, (hi : i < ts.size) → (ix[i]'(by omega) = true ↔ ClosedV out.1 out.2 (2 * ts[i]))) ∧
      ClosedIn st en hm out.1 out.2 := by
  have hen : 0 < en.size := by
    obtain ⟨j, hj, _⟩ := hin 0 hn
    omega
  obtain ⟨out, hout⟩ := C15.thresholdScan_safe ts ix st en hm hc hix hin
  obtain ⟨h1, h2⟩ := threshold_cover ts ix st en hs hix hn out hout
  exact ⟨out, by rw [jitthreshold_eq_scan ts ix st en hen]; exact hout, h1, h2,
    threshold_inside ts ix st en hm hc hs hix hn hin out hout⟩

/-- **C07 for threshold, through the IntervalSet constructor** (soundness half): the support `x.threshold(..)` carries is
the constructor applied to the kernel's arrays; whatever the constructor does to them (it drops the zero-length interval
of a lone kept sample: the open finding is about the OTHER half), every instant of the new support lies in one interval
of the old support, and no rejected sample lies in it -/
theorem threshold_support_sound (ts : Array Int) (ix : Array Bool) (st en : Array Int) (hm : st.size = en.size)
    (hc : Canon st en hm) (hs : StrictInc ts) (hix : ix.size = ts.size) (hn : 0 < ts.size)
    (hin : ∀ i, (h : i < ts.size) → InIv st en hm ts[i]) :
    ∃ out, ∃ hsz : out.1.size = out.2.size, jitthreshold ts ix st en = .ok out ∧
      (∀ x, InOut (ISet.mk out.1 out.2 hsz) x → ∃ j, ∃ hj : j < st.size, 2 * st[j] ≤ x ∧ x ≤ 2 * en[j]'(hm ▸ hj)) ∧
      (∀ i, (hi : i < ts.size) → ix[i]'(by omega) = false → ¬ InOut (ISet.mk out.1 out.2 hsz) (2 * ts[i])) := by
  obtain ⟨out, hout, hsz, hcov, hinside⟩ := threshold_correct ts ix st en hm hc hs hix hn hin
  refine ⟨out, hsz, hout, fun x hx => ?_, fun i hi hrej hx => ?_⟩
  · obtain ⟨k, hk, a, b⟩ := C01.mk_sound _ _ hsz x hx
    obtain ⟨j, hj, c, d⟩ := hinside k (by omega) hk
    exact ⟨j, hj, by omega, by omega⟩
  · obtain ⟨k, hk, a, b⟩ := C01.mk_sound _ _ hsz _ hx
    have : ix[i]'(by omega) = true := (hcov i hi).mpr ⟨k, by omega, hk, a, b⟩
    rw [hrej] at this; cases this

-- non-vacuity: the input of the repaired multi-epoch finding meets every hypothesis
example : Canon #[0, 10, 20] #[4, 14, 24] rfl ∧ StrictInc #[10, 11, 12, 20, 21] := by
  refine ⟨⟨fun k h => ?_, fun k h => ?_⟩, fun i h => ?_⟩
  · simp at h; rcases k with _ | _ | _ | k <;> simp at h ⊢
  · simp at h; rcases k with _ | _ | k <;> simp at h ⊢ <;> omega
  · simp at h; rcases i with _ | _ | _ | _ | i <;> simp at h ⊢ <;> omega

/-! ### known findings, proved on the model -/

def thrIs (r : R (Array Int × Array Int)) (s e : Array Int) : Bool :=
  match r with
  | .ok (a, b) => a == s && b == e
  | _ => false

def thrOob : R (Array Int × Array Int) → Bool
  | .error .oob => true
  | _ => false

/-- the input of the former finding C07-threshold-multi-epoch (repaired by `fix:` d92f793): support [0,4],[10,14],[20,24],
samples 10,11,12,20,21 with mask 1,0,1,1,1 — (doubled) starts 20,23,40 and ends 21,24,42, i.e. [10,10.5], [11.5,12],
[20,21]: every kept sample inside, the rejected one outside, no interval across a gap of the support -/
theorem threshold_multi_epoch_regression :
    thrIs (jitthreshold #[10, 11, 12, 20, 21] #[true, false, true, true, true] #[0, 10, 20] #[4, 14, 24])
      #[20, 23, 40] #[21, 24, 42] = true := by decide +kernel

/-- last sample alone in a later epoch (former bridging of the gap, repaired by `fix:` 6abb03b): support [10,14],[20,24],
samples 10,11,20 all kept — [10,11] and the zero-length [20,20], never [10,20] -/
theorem threshold_last_epoch_regression :
    thrIs (jitthreshold #[10, 11, 20] #[true, true, true] #[10, 20] #[14, 24]) #[20, 40] #[22, 40] = true := by
  decide +kernel

/-- KNOWN FINDING C07-threshold-lone-sample (open): a kept sample that is the only sample of its support interval
(here: the whole series) gets start = end = its own time; the IntervalSet constructor drops zero-length
intervals, so `Tsd.threshold` loses that sample -/
theorem threshold_lone_sample_witness : thrIs (jitthreshold #[1] #[true] #[0] #[5]) #[2] #[2] = true := by decide +kernel

/-- single-interval support, ≥ 2 samples: boundaries are midpoints (doubled: 1 = 0+1, 3 = 1+2), run to the last sample -/
example : thrIs (jitthreshold #[0, 1, 2, 3] #[true, false, true, true] #[0] #[3]) #[0, 3] #[1, 6] = true := by
  decide +kernel

end Pyn.C07

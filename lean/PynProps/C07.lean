import PynModel.Kernels.Threshold
import PynModel.Kernels.Nan
/-!
# C07 — threshold and dropna keep the right samples and a support that separates them
Models: `Pyn.jitthreshold` (checked reads: the Python source does not guard them) and
`Pyn.jitremoveNan`.  Which samples are kept is decided by NumPy (`data > thr`, `isnan`) before the
kernels run; the kernels only build the new support.

Proved: structure of the dropna support (every new start / end is a kept sample, as many starts as
ends, so the support is a list of runs of kept samples).  Threshold: the two **known findings**
are proved on the model as witnesses (multi-interval support loses a kept sample; one-sample series
reads out of bounds); the positive statement for single-interval supports is decided by the oracle
+ correspondence run only.
-/
namespace Pyn.C07
open Pyn

/-- invariant of the run scan: starts and ends are kept samples, indices `< t`, and there is one
more start than ends exactly when sample `t-1` is kept (a run is open) -/
def RunInv (nan : Array Bool) (t : Nat) (s e : Array Nat) : Prop :=
  (∀ a ∈ s, ∃ h : a < nan.size, nan[a] = false) ∧
  (∀ a ∈ e, ∃ h : a < nan.size, nan[a] = false) ∧
  (∃ h : t - 1 < nan.size, s.size = e.size + (if nan[t-1] = false then 1 else 0))

theorem removeNanLoop_inv (nan : Array Bool) (t : Nat) (ht : 1 ≤ t) (s e : Array Nat)
    (h : RunInv nan t s e) (htn : t ≤ nan.size) :
    RunInv nan nan.size (removeNanLoop nan t ht s e).1 (removeNanLoop nan t ht s e).2 := by
  fun_induction removeNanLoop nan t ht s e with
  | case1 t ht s e hlt s' e' ih =>
    apply ih _ (by omega)
    obtain ⟨h1, h2, h3, h4⟩ := h
    refine ⟨?_, ?_, ?_⟩
    · intro a ha
      simp only [s'] at ha
      split at ha
      · rename_i hc
        simp only [Array.mem_push] at ha
        rcases ha with ha | ha
        · exact h1 a ha
        · subst ha; simp at hc; exact ⟨hlt, hc.2⟩
      · exact h1 a ha
    · intro a ha
      simp only [e'] at ha
      split at ha
      · rename_i hc
        simp only [Array.mem_push] at ha
        rcases ha with ha | ha
        · exact h2 a ha
        · subst ha; simp at hc; exact ⟨by omega, hc.1⟩
      · exact h2 a ha
    · refine ⟨by simpa using hlt, ?_⟩
      simp only [s', e', Nat.add_sub_cancel]
      cases hp : nan[t-1] <;> cases hq : nan[t] <;> simp_all <;> omega
  | case2 t ht s e hge =>
    have : t = nan.size := by omega
    subst this; exact h

/-- **dropna support = runs of kept samples.** For any NaN mask of positive length, every new start
and every new end is the index of a kept (non-NaN) sample, and there are as many starts as ends. -/
theorem removeNan_runs (nan : Array Bool) (hn : 0 < nan.size) :
    (∀ a ∈ (jitremoveNan nan hn).1, ∃ h : a < nan.size, nan[a] = false) ∧
    (∀ a ∈ (jitremoveNan nan hn).2, ∃ h : a < nan.size, nan[a] = false) ∧
    (jitremoveNan nan hn).1.size = (jitremoveNan nan hn).2.size := by
  have h0 : RunInv nan 1 (if !nan[0] then #[0] else #[]) #[] := by
    refine ⟨?_, by simp, ⟨by simpa using hn, ?_⟩⟩
    · intro a ha
      split at ha
      · rename_i hc; simp at ha; subst ha; exact ⟨hn, by simpa using hc⟩
      · simp at ha
    · cases h : nan[0] <;> simp [h]
  have := removeNanLoop_inv nan 1 (by omega) _ #[] h0 (by omega)
  unfold jitremoveNan
  simp only
  generalize (if (!nan[0]) = true then (#[0] : Array Nat) else #[]) = s0 at *
  obtain ⟨h1, h2, h3, h4⟩ := this
  refine ⟨h1, ?_, ?_⟩
  · intro a ha
    split at ha
    · rename_i hc
      simp only [Array.mem_push] at ha
      rcases ha with ha | ha
      · exact h2 a ha
      · subst ha; exact ⟨by omega, by simpa using hc⟩
    · exact h2 a ha
  · split
    · rename_i hc
      have hf : nan[nan.size - 1] = false := by simpa using hc
      simp only [hf, ↓reduceIte] at h4; simp only [Array.size_push]; omega
    · rename_i hc
      have hf : nan[nan.size - 1] = true := by simpa using hc
      simp [hf] at h4; omega

/-! ### known findings, proved on the model -/

def thrIs (r : R (Array Int × Array Int)) (s e : Array Int) : Bool :=
  match r with
  | .ok (a, b) => a == s && b == e
  | _ => false

def thrOob : R (Array Int × Array Int) → Bool
  | .error .oob => true
  | _ => false

/-- KNOWN FINDING C07-threshold-multi-epoch: support [0,4],[10,14],[20,24], samples 10,11,12,20,21
with mask 1,0,1,1,1.  The kernel returns (doubled) starts 20,23,40 and ends 20,24,42, i.e. [10,10] (zero length,
dropped by the constructor), [11.5,12], [20,21]: the kept sample at t = 10 ends up outside the new support. -/
theorem threshold_multi_epoch_witness :
    thrIs (jitthreshold #[10, 11, 12, 20, 21] #[true, false, true, true, true] #[0, 10, 20] #[4, 14, 24])
      #[20, 23, 40] #[20, 24, 42] = true := by decide +kernel

/-- KNOWN FINDING C07-threshold-single-sample: one sample → read of `time_array[1]` -/
theorem threshold_single_sample_witness : thrOob (jitthreshold #[1] #[true] #[0] #[5]) = true := by decide +kernel

/-- single-interval support, ≥ 2 samples: boundaries are midpoints (doubled: 1 = 0+1, 3 = 1+2), run to the last sample -/
example : thrIs (jitthreshold #[0, 1, 2, 3] #[true, false, true, true] #[0] #[3]) #[0, 3] #[1, 6] = true := by
  decide +kernel

end Pyn.C07

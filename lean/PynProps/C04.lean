import PynProps.C01
import PynProofs.Restrict
import PynProofs.Search
import PynModel.Core.Series
/-!
# C04 — every time series reachable through the API is well formed

> … has non-decreasing timestamps, exactly one data row per timestamp, every timestamp inside one
> of the closed intervals of its time support, a canonical time support, and (when non-empty) rate
> equal to the number of samples divided by the total duration of the support.

Model: `Pyn.Series.new` (the constructor every operation returns through) and `Pyn.Series.step`
(restrict with a support expression, positional indexing, `get`, operations that return a new time
axis, operations that keep the axis).  Supports are only ever produced by the IntervalSet
constructor (`ISet.mk`) or its set algebra, so they are canonical by C01.

The theorems are unbounded: any timestamps (unsorted, duplicated, empty), any canonical support, any
finite history of operations with arbitrary arguments.
-/
namespace Pyn.C04
open Pyn Pyn.C01

/-- the container invariant of C04 -/
def WF (s : Series) : Prop :=
  Sorted s.t ∧ s.rows.size = s.t.size ∧ CanonicalPairs s.sup ∧
  ∀ i, (h : i < s.t.size) → InIv (pairsSt s.sup) (pairsEn s.sup) (pairs_size s.sup) s.t[i]

theorem canon_of_canonicalPairs (p : Array (Int × Int)) (hc : CanonicalPairs p) :
    Canon (pairsSt p) (pairsEn p) (pairs_size p) := by
  refine ⟨fun k h => ?_, fun k h => ?_⟩
  · have hk : k < p.size := by simpa [pairsSt] using h
    have := hc.1 p[k] (Array.getElem_mem hk)
    simp [pairsSt, pairsEn]; omega
  · have hk : k + 1 < p.size := by simpa [pairsSt] using h
    have := (List.pairwise_iff_getElem.mp hc.2) k (k+1) (by simpa using (by omega : k < p.size)) (by simpa using hk) (by omega)
    simpa [pairsSt, pairsEn] using this

theorem gatherI_size (a : Array Int) (ix : Array Nat) : (gatherI a ix).size = ix.size := by simp [gatherI]
theorem gatherN_size (a : Array Nat) (ix : Array Nat) : (gatherN a ix).size = ix.size := by simp [gatherN]

theorem gatherI_get (a : Array Int) (ix : Array Nat) (j : Nat) (hj : j < ix.size) (hb : ix[j] < a.size) :
    (gatherI a ix)[j]'(by simpa [gatherI] using hj) = a[ix[j]] := by
  simp [gatherI, getElem!_pos a ix[j] hb]

/-- positions taken in increasing order from a sorted array give a sorted array -/
theorem gatherI_sorted (a : Array Int) (ix : Array Nat) (hs : Sorted a)
    (hinc : ix.toList.Pairwise (· < ·)) (hb : ∀ x ∈ ix, x < a.size) : Sorted (gatherI a ix) := by
  intro i j hi hj hij
  have hi' : i < ix.size := by simpa [gatherI] using hi
  have hj' : j < ix.size := by simpa [gatherI] using hj
  rw [gatherI_get a ix i hi' (hb _ (Array.getElem_mem hi')), gatherI_get a ix j hj' (hb _ (Array.getElem_mem hj'))]
  apply hs
  rcases Nat.lt_or_eq_of_le hij with hlt | heq
  · have := (List.pairwise_iff_getElem.mp hinc) i j (by simpa using hi') (by simpa using hj') hlt
    simp at this; omega
  · subst heq; exact Nat.le_refl _

/-- **The constructor with a support establishes the invariant** — for ANY timestamps (unsorted,
duplicates, outside the support), any rows of the same length, any canonical support. -/
theorem new_wf_some (t : Array Int) (rows : Array Nat) (p : Array (Int × Int))
    (hrows : rows.size = t.size) (hc : CanonicalPairs p) : WF (Series.new t rows (some p)) := by
  unfold Series.new
  simp only
  split
  · exact ⟨by intro i j hi; simp at hi, rfl, ⟨by simp, by simp⟩, by intro i h; simp at h⟩
  · have hs := sortArr_sorted t
    have hcan := canon_of_canonicalPairs p hc
    have hinc := jitrestrict_inc (sortArr t) (pairsSt p) (pairsEn p) (pairs_size p)
    refine ⟨gatherI_sorted _ _ hs hinc.1 hinc.2, by simp [gatherI, gatherN], hc, ?_⟩
    intro i h
    have hi : i < (jitrestrict (sortArr t) (pairsSt p) (pairsEn p) (pairs_size p)).size := by simpa [gatherI] using h
    have hm := Array.getElem_mem hi
    have hb := hinc.2 _ hm
    obtain ⟨hi2, k, hk, h1, h2⟩ := (jitrestrict_mem (sortArr t) (pairsSt p) (pairsEn p) (pairs_size p) hs hcan _).mp hm
    show InIv _ _ _ ((gatherI _ _)[i])
    rw [gatherI_get _ _ i hi hb]
    exact ⟨k, hk, h1, h2⟩

theorem fixSkip_end (st en : Array Int) (h) (i : Nat) (hi : st.size ≤ i) : fixSkip st en h i = i := by
  unfold fixSkip; simp [Nat.not_lt.mpr hi]

/-- `IntervalSet(start=a, end=b)` for `a < b` is the single interval `[a, b]` -/
theorem mk_single (a b : Int) (h : a < b) : ISet.mk #[a] #[b] rfl = #[(a, b)] := by
  have h1 : sortArr #[a] = #[a] := by simp [sortArr, isort, insertS]
  have h2 : sortArr #[b] = #[b] := by simp [sortArr, isort, insertS]
  unfold ISet.mk
  simp only [h1, h2]
  unfold jitfixIset
  unfold fixLoop
  have hs : fixSkip #[a] #[b] rfl 0 = 0 := by
    unfold fixSkip
    have : ¬ (b = a) := by omega
    have : ¬ (b < a) := by omega
    simp [*]
  simp only [hs]
  simp
  unfold fixMerge
  simp [fixTrim]
  have : a < b := h
  simp [this]
  unfold fixLoop
  simp [fixSkip_end]

/-- **The constructor without a support** (`time_support=None`): for timestamps that span a positive
duration — the hypothesis C04's quantifier states — the default support `[min t, max t]` makes the
object well formed. -/
theorem new_wf_none (t : Array Int) (rows : Array Nat) (hrows : rows.size = t.size)
    (hspan : ∀ h : 0 < (sortArr t).size, (sortArr t)[0] < (sortArr t)[(sortArr t).size - 1]) :
    WF (Series.new t rows none) := by
  unfold Series.new
  simp only
  split
  · exact ⟨by intro i j hi; simp at hi, rfl, ⟨by simp, by simp⟩, by intro i h; simp at h⟩
  · rename_i hne
    have hpos : 0 < (sortArr t).size := by omega
    have hs := sortArr_sorted t
    have hlt := hspan hpos
    have e0 : (sortArr t)[0]! = (sortArr t)[0] := getElem!_pos _ 0 hpos
    have e1 : (sortArr t)[(sortArr t).size - 1]! = (sortArr t)[(sortArr t).size - 1] := getElem!_pos _ _ (by omega)
    simp only [e0, e1]
    rw [mk_single _ _ hlt]
    refine ⟨hs, by show rows.size = (sortArr t).size; rw [sortArr_size]; exact hrows, ⟨?_, by simp⟩, ?_⟩
    · intro q hq; simp at hq; subst hq; exact hlt
    · intro i h
      refine ⟨0, by simp [pairsSt], ?_, ?_⟩
      · simpa [pairsSt] using hs 0 i hpos h (Nat.zero_le _)
      · have h' : i < (sortArr t).size := h
        simpa [pairsEn] using hs i ((sortArr t).size - 1) h' (by omega) (by omega)

/-- the degenerate start excluded by the quantifier: one sample (or all samples at one instant) and no
support gives an EMPTY support, which does not contain the sample — this is why C04 says "whose
timestamps span a positive duration" -/
theorem new_none_single_instant_witness :
    (Series.new #[5000] #[0] none).sup = #[] ∧ (Series.new #[5000] #[0] none).t = #[5000] := by
  decide +kernel

/-- every support expression evaluates to a canonical set when the current support is canonical -/
theorem supE_canonical (cur : Array (Int × Int)) (hc : CanonicalPairs cur) (e : SupE) :
    CanonicalPairs (e.eval cur) := by
  induction e with
  | self => exact hc
  | lit st en =>
    simp only [SupE.eval]; split
    · exact mk_canonical _ _ _
    · exact ⟨by simp, by simp⟩
  | union a b _ _ => exact union_canonical _ _
  | inter a b _ _ => exact intersect_canonical _ _
  | diff a b _ _ => exact diff_canonical _ _

/-- the one side condition: an operation that builds its result without a support needs result
timestamps spanning a positive duration (C04's quantifier); every other operation is unconditional -/
def Admissible : Op → Prop
  | .fresh ts => ∀ h : 0 < (sortArr ts).size, (sortArr ts)[0] < (sortArr ts)[(sortArr ts).size - 1]
  | _ => True

/-- **One step preserves the invariant**, whatever the operation's arguments. -/
theorem step_wf (s : Series) (op : Op) (h : WF s) (ha : Admissible op) : WF (s.step op) := by
  obtain ⟨hs, hr, hc, hin⟩ := h
  cases op with
  | fresh ts => exact new_wf_none _ _ (by simp) ha
  | restrict e =>
    have h1 := new_wf_some s.t s.rows _ hr (supE_canonical _ hc e)
    exact new_wf_some _ _ _ h1.2.1 (supE_canonical _ hc e)
  | take ix =>
    simp only [Series.step]; split
    · exact new_wf_some _ _ _ (by simp [gatherI, gatherN]) hc
    · exact ⟨hs, hr, hc, hin⟩
  | get a b =>
    simp only [Series.step]; split
    · exact new_wf_some _ _ _ (by simp [gatherI, gatherN]) hc
    · exact ⟨hs, hr, hc, hin⟩
  | retime ts e => exact new_wf_some _ _ _ (by simp) (supE_canonical _ hc e)
  | keep => exact new_wf_some _ _ _ hr hc

/-- **C04 for histories**: every object reachable from a well-formed one by any finite sequence of
operations is well formed (induction over the history). -/
theorem reachable_wf (s : Series) (ops : List Op) (h : WF s) (ha : ∀ op ∈ ops, Admissible op) :
    WF (s.run ops) := by
  unfold Series.run
  induction ops generalizing s with
  | nil => exact h
  | cons op ops ih =>
    exact ih _ (step_wf s op h (ha op (by simp))) (fun o ho => ha o (by simp [ho]))

/-- … in particular from any constructor call with a canonical support -/
theorem constructed_then_reachable_wf (t : Array Int) (rows : Array Nat) (p : Array (Int × Int))
    (hrows : rows.size = t.size) (hc : CanonicalPairs p) (ops : List Op) (ha : ∀ op ∈ ops, Admissible op) :
    WF ((Series.new t rows (some p)).run ops) :=
  reachable_wf _ ops (new_wf_some t rows p hrows hc) ha

/-- restriction to the object's own support changes nothing (`keep` is the identity on well-formed
non-empty objects): what makes "same axis" operations return the same timestamps -/
theorem rate_def (s : Series) : s.rateNum = s.t.size ∧ s.rateDen = s.sup.foldl (fun acc p => acc + (p.2 - p.1)) 0 :=
  ⟨rfl, rfl⟩

/-! ### non-vacuity -/
example : Series.new #[7000, 1000, 3000, 3000, 9000] #[0, 1, 2, 3, 4] (some #[(0, 3000), (8000, 9000)])
    = ⟨#[1000, 3000, 3000, 9000], #[0, 1, 2, 4], #[(0, 3000), (8000, 9000)]⟩ := by decide +kernel
example : (Series.new #[1000, 3000, 9000] #[0, 1, 2] none).sup = #[(1000, 9000)] := by decide +kernel
example : ((Series.new #[1000, 3000, 5000, 9000] #[0, 1, 2, 3] none).run
    [.restrict (.inter .self (.lit #[2000] #[9000])), .take #[2, 0], .get 0 4000, .keep]).t = #[3000] := by
  decide +kernel

end Pyn.C04

import PynModel.Kernels.Process
import PynModel.Process.Spectrum
import PynProofs.Parseval
/-!
# C19 — spectral estimates are the DFT of the epoch's samples and conserve power

Proved:
* **Parseval** for the N-point DFT, every N ≥ 1 and every complex signal (`dft_parseval`, from
  character orthogonality in Mathlib), hence the code's scaling `1/(fs·n)` makes the full-range PSD
  summed times `fs/n` equal to the mean square of the n-point signal (`psd_sum_is_mean_square`);
* the frequency bookkeeping: NumPy's `fftfreq` layout (`fftfreqIdx_get`), the sorted index with the row
  of bin `k` holding FFT output `k mod n`, even and odd `n` (`sortedBins_spec`), the one-sided output
  keeps bins `0 … (n-1)/2` (`onesided_kept`) and doubles exactly the strictly positive ones; the Nyquist
  bin is never among them (`onesided_doubling`); cropping / zero-padding (`nPoint_get`).
* the segments of the mean PSD: `_overlap_split` returns exactly the windows `[start_k + j·step, … + L]` that end
  strictly before the end of their epoch (`overlapSplit_mem`, `ovInner_mem`): equal length, equal spacing from the
  epoch start, none across an epoch boundary, none missing.
Which samples enter (restrict: C03), the float FFT itself (NumPy, compared with the O(n²) definition
within tolerance) and the Hamming-windowed average over those segments are decided by the oracle run.
-/
namespace Pyn.C19
open Pyn

/-- **Parseval** (re-exported): `Σ_k |X_k|² = N · Σ_j |x_j|²` -/
theorem parseval {N : ℕ} [NeZero N] (Φ : ZMod N → ℂ) :
    ∑ k, ‖ZMod.dft Φ k‖ ^ 2 = (N : ℝ) * ∑ j, ‖Φ j‖ ^ 2 := Pyn.Parseval.dft_parseval Φ

/-- **the PSD conserves power**: full-range PSD × frequency step = mean square of the n-point signal -/
theorem psd_conserves_power {N : ℕ} [NeZero N] (Φ : ZMod N → ℂ) (fs : ℝ) (hfs : fs ≠ 0) :
    (∑ k, ‖ZMod.dft Φ k‖ ^ 2 / (fs * N)) * (fs / N) = (∑ j, ‖Φ j‖ ^ 2) / N :=
  Pyn.Parseval.psd_sum_is_mean_square Φ fs hfs


theorem fftfreqIdx_length (n : Nat) : (fftfreqIdx n).length = n := by
  simp [fftfreqIdx]; omega

/-- NumPy's layout: positions `0 … (n-1)/2` hold bins `0, 1, …`; the remaining positions hold the
negative bins `-(n/2), …, -1` — position `j` holds bin `j` or `j - n` -/
theorem fftfreqIdx_get (n j : Nat) (h : j < n) :
    (fftfreqIdx n)[j]'(by rw [fftfreqIdx_length]; exact h) = if j < (n + 1) / 2 then (j : Int) else (j : Int) - n := by
  unfold fftfreqIdx
  by_cases hj : j < (n + 1) / 2
  · rw [List.getElem_append_left (by simpa using hj)]
    simp [hj]
  · rw [List.getElem_append_right (by simpa using hj)]
    simp [hj]
    omega

/-- **sorted index**: after `sort_index` the bins run through `-(n/2), …, -1, 0, 1, …, (n-1)/2` in
strictly increasing order, every FFT output appears exactly once, and the row labelled with bin `k`
holds FFT output `k mod n` — for even and odd `n` alike -/
theorem sortedBins_spec (n : Nat) :
    (sortedBins n).length = n ∧
    ((sortedBins n).map (·.1)).Pairwise (· < ·) ∧
    ∀ p ∈ sortedBins n, ∃ h : p.2 < n, (fftfreqIdx n)[p.2]'(by rw [fftfreqIdx_length]; exact h) = p.1 ∧
      ((p.2 : Int) = p.1 % n) ∧ -((n / 2 : Nat) : Int) ≤ p.1 ∧ p.1 ≤ (((n - 1) / 2 : Nat) : Int) := by
  refine ⟨by simp [sortedBins]; omega, ?_, ?_⟩
  · unfold sortedBins
    rw [List.map_append, List.pairwise_append]
    refine ⟨?_, ?_, ?_⟩
    · simp only [List.map_map, Function.comp_def]
      rw [List.pairwise_map]
      exact (List.pairwise_lt_range).imp (by intro a b h; omega)
    · simp only [List.map_map, Function.comp_def]
      rw [List.pairwise_map]
      exact (List.pairwise_lt_range).imp (by intro a b h; omega)
    · intro a ha b hb
      simp only [List.map_map, Function.comp_def, List.mem_map, List.mem_range] at ha hb
      obtain ⟨i, hi, rfl⟩ := ha
      obtain ⟨j, hj, rfl⟩ := hb
      omega
  · intro p hp
    unfold sortedBins at hp
    simp only [List.mem_append, List.mem_map, List.mem_range] at hp
    rcases hp with ⟨i, hi, rfl⟩ | ⟨i, hi, rfl⟩
    · have hlt : (n + 1) / 2 + i < n := by omega
      refine ⟨hlt, ?_, ?_, by omega, by omega⟩
      · rw [fftfreqIdx_get n _ hlt]
        have : ¬ ((n + 1) / 2 + i < (n + 1) / 2) := by omega
        simp only [this, if_false]
        omega
      · simp only
        have hn : (0 : Int) < n := by omega
        have e : ((i : Int) - ((n / 2 : Nat) : Int)) % (n : Int) = ((i : Int) - ((n / 2 : Nat) : Int) + n) % n := by
          rw [Int.add_emod_right]
        rw [e, Int.emod_eq_of_lt (by omega) (by omega)]
        omega
    · have hlt : i < n := by omega
      refine ⟨hlt, ?_, ?_, by omega, by omega⟩
      · rw [fftfreqIdx_get n _ hlt]; simp [hi]
      · simp only
        rw [Int.emod_eq_of_lt (by omega) (by omega)]

/-- **one-sided form**: among the rows the one-sided output keeps (`k ≥ 0`), exactly the strictly
positive bins are doubled; the Nyquist bin (`2k = n`, even `n`) is never among them — NumPy files it
under the negative frequency `-n/2` — and bin 0 is not doubled. -/
theorem onesided_doubling (n : Nat) (p : Int × Nat) (hp : p ∈ sortedBins n) (hk : keptOneSided p.1 = true) :
    (doubledBin n p.1 = true ↔ 0 < p.1) ∧ 2 * p.1 ≠ (n : Int) := by
  obtain ⟨_, _, _, _, hhi⟩ := (sortedBins_spec n).2.2 p hp
  simp only [keptOneSided, decide_eq_true_eq] at hk
  simp only [doubledBin, Bool.and_eq_true, bne_iff_ne, decide_eq_true_eq]
  constructor
  · constructor
    · intro ⟨h1, _⟩; omega
    · intro h; exact ⟨by omega, by omega⟩
  · omega

/-- the rows a full-range output has and a one-sided output drops are exactly the negative bins -/
theorem onesided_kept (n : Nat) : ((sortedBins n).filter (fun p => keptOneSided p.1)).map (·.1) =
    (List.range ((n + 1) / 2)).map (fun (i : Nat) => (i : Int)) := by
  unfold sortedBins
  rw [List.filter_append, List.map_append]
  have h1 : (List.filter (fun p => keptOneSided p.1) (List.map (fun (i : Nat) => ((i : Int) - ((n / 2 : Nat) : Int), (n + 1) / 2 + i)) (List.range (n / 2)))) = [] := by
    rw [List.filter_eq_nil_iff]
    intro a ha
    simp only [List.mem_map, List.mem_range] at ha
    obtain ⟨i, hi, rfl⟩ := ha
    simp [keptOneSided]; omega
  have h2 : (List.filter (fun p => keptOneSided p.1) (List.map (fun (i : Nat) => ((i : Int), i)) (List.range ((n + 1) / 2)))) =
      List.map (fun (i : Nat) => ((i : Int), i)) (List.range ((n + 1) / 2)) := by
    rw [List.filter_eq_self]
    intro a ha
    simp only [List.mem_map, List.mem_range] at ha
    obtain ⟨i, hi, rfl⟩ := ha
    simp [keptOneSided]
  rw [h1, h2]
  simp [List.map_map, Function.comp_def]

theorem nPoint_length (x : List Int) (n : Nat) : (nPoint x n).length = n := by
  simp [nPoint]; omega

/-- `n` smaller than the length crops, `n` larger zero-pads, `n` equal leaves the samples -/
theorem nPoint_get (x : List Int) (n j : Nat) (h : j < n) :
    (nPoint x n)[j]'(by rw [nPoint_length]; exact h) = x.getD j 0 := by
  unfold nPoint
  rw [List.getElem_take]
  by_cases hj : j < x.length
  · rw [List.getElem_append_left hj]; simp [List.getD_eq_getElem?_getD, hj]
  · rw [List.getElem_append_right (by omega)]
    have : x[j]? = none := List.getElem?_eq_none (by omega)
    simp [List.getD_eq_getElem?_getD, this]


/-! ### non-vacuity -/
example : fftfreqIdx 6 = [0, 1, 2, -3, -2, -1] ∧ fftfreqIdx 5 = [0, 1, 2, -2, -1] := by decide
example : sortedBins 6 = [(-3, 3), (-2, 4), (-1, 5), (0, 0), (1, 1), (2, 2)] := by decide
example : (sortedBins 6).map (fun p => doubledBin 6 p.1) = [true, true, true, false, true, true] := by decide  -- (only evaluated on kept rows by the code)
example : nPoint [1, 2, 3] 5 = [1, 2, 3, 0, 0] ∧ nPoint [1, 2, 3] 2 = [1, 2] := by decide


/-! ## the segments of the mean PSD -/

/-- the windows emitted for one epoch: exactly `(t + j·step, t + j·step + L)` for the `j` with `t + j·step + L < e` -/
theorem ovInner_mem (e L step : Int) (hs : 0 < step) (t : Int) (out : Array (Int × Int)) (p : Int × Int) :
    p ∈ ovInner e L step hs t out ↔
      p ∈ out ∨ ∃ j : Nat, p = (t + j * step, t + j * step + L) ∧ t + j * step + L < e := by
  induction hn : (e - L - t).toNat using Nat.strongRecOn generalizing t out with
  | _ n ih =>
    unfold ovInner
    split
    · rename_i hlt
      have hdec : (e - L - (t + step)).toNat < n := by omega
      rw [ih _ hdec (t + step) (out.push (t, t + L)) rfl]
      simp only [Array.mem_push]
      constructor
      · rintro ((h | h) | ⟨j, h1, h2⟩)
        · exact Or.inl h
        · exact Or.inr ⟨0, by simpa using h, by simpa using hlt⟩
        · refine Or.inr ⟨j + 1, ?_, ?_⟩
          · rw [h1]; push_cast; congr 1 <;> rw [Int.add_mul] <;> omega
          · push_cast; rw [Int.add_mul]; omega
      · rintro (h | ⟨j, h1, h2⟩)
        · exact Or.inl (Or.inl h)
        · cases j with
          | zero => left; right; simpa using h1
          | succ j =>
            right
            refine ⟨j, ?_, ?_⟩
            · rw [h1]; push_cast; congr 1 <;> rw [Int.add_mul] <;> omega
            · push_cast at h2; rw [Int.add_mul] at h2; omega
    · rename_i hge
      constructor
      · exact Or.inl
      · rintro (h | ⟨j, h1, h2⟩)
        · exact h
        · exfalso
          have : (0 : Int) ≤ (j : Int) * step := Int.mul_nonneg (Int.natCast_nonneg _) (Int.le_of_lt hs)
          omega

/-- **the segments of `compute_mean_power_spectral_density`**: `_overlap_split` returns exactly the windows
`[start_k + j·step, start_k + j·step + L]` (`step = (1 − overlap)·L`, `j = 0, 1, …`) that end strictly before the end of
their epoch — equal length, equal spacing from the epoch start, none across an epoch boundary, none missing -/
theorem overlapSplit_mem (st en : Array Int) (hm : st.size = en.size) (L step : Int) (hs : 0 < step) (k : Nat)
    (out : Array (Int × Int)) (p : Int × Int) :
    p ∈ overlapSplit st en hm L step hs k out ↔
      p ∈ out ∨ ∃ k', k ≤ k' ∧ ∃ hk : k' < st.size, ∃ j : Nat,
        p = (st[k'] + j * step, st[k'] + j * step + L) ∧ st[k'] + j * step + L < en[k']'(hm ▸ hk) := by
  induction hn : st.size - k generalizing k out with
  | zero =>
    unfold overlapSplit
    have : ¬ k < st.size := by omega
    simp only [dif_neg this]
    constructor
    · exact Or.inl
    · rintro (h | ⟨k', h1, hk, _⟩)
      · exact h
      · omega
  | succ n ih =>
    have hk : k < st.size := by omega
    unfold overlapSplit
    simp only [dif_pos hk]
    rw [ih (k+1) _ (by omega), ovInner_mem]
    constructor
    · rintro ((h | ⟨j, h1, h2⟩) | ⟨k', h1, hk', j, h2, h3⟩)
      · exact Or.inl h
      · exact Or.inr ⟨k, Nat.le_refl _, hk, j, h1, h2⟩
      · exact Or.inr ⟨k', by omega, hk', j, h2, h3⟩
    · rintro (h | ⟨k', h1, hk', j, h2, h3⟩)
      · exact Or.inl (Or.inl h)
      · rcases Nat.eq_or_lt_of_le h1 with e | e
        · subst e; exact Or.inl (Or.inr ⟨j, h2, h3⟩)
        · exact Or.inr ⟨k', by omega, hk', j, h2, h3⟩


-- two epochs, 50 % overlap: windows of length 4 every 2, strictly inside
example : overlapSplit #[0, 20] #[9, 27] rfl 4 2 (by decide) 0 #[] = #[(0, 4), (2, 6), (4, 8), (20, 24), (22, 26)] := by decide +kernel

end Pyn.C19

import PynProps.C12
import PynModel.Core.Npz
import PynGen.NpzKeys
/-!
# C11 — save followed by load_file returns an equal object

Two parts.
1. **Key tables** (`PynGen/NpzKeys.lean`, regenerated from the source by `tools/extract_npz_keys.py` on
   every run): every key a reader reads unconditionally is written unconditionally by the same class's
   writer (guarded reads are optional); every written key is consumed (read, or forwarded to a
   constructor parameter of that name); the type tag is always written and the fallback detection
   table agrees with the writers.  Proved by `decide` over the generated tables, so a writer/reader
   key mismatch in one class (the `"data"` vs `"d"` defect repaired by `fix:` 6bd0791) fails here.
2. **Round trip on the model** (`PynModel/Core/Npz.lean`): the reader rebuilds the support through the
   IntervalSet constructor and the object through its own constructor; `load (save x) = x` holds
   because the constructor is the identity on canonical sets (`mk_canonical_id`) and restriction to
   one's own support is the identity on well-formed objects (`C12.new_self`); for groups, because
   pooling by time and filtering by key returns every member (`C12.toTsd_toTsgroup`).
-/
namespace Pyn.C11
open Pyn Pyn.C01 Pyn.C04
open Pyn.Gen

def tbl {α} (t : List (String × α)) (c : String) : Option α := (t.find? (·.1 == c)).map (·.2)
def classes : List String := ["Ts", "Tsd", "TsdFrame", "TsdTensor", "TsGroup", "IntervalSet"]

/-- every key the reader of class `c` reads without a guard is written unconditionally by `c.save` -/
def readsOK (c : String) : Bool :=
  match tbl npzReads c, tbl npzWrites c with
  | some rd, some wr =>
    rd.all fun (k, guarded) => guarded || wr.any (fun w => w.1 == k && !w.2)
  | _, _ => false

/-- every key written by `c.save` is consumed by the reader: read explicitly, or (for the forwarding
readers) not excluded and then a constructor parameter of that name; `type` is consumed by the
dispatcher -/
def writesOK (c : String) : Bool :=
  match tbl npzReads c, tbl npzWrites c, tbl npzExcluded c, tbl npzForwards c, tbl ctorParams c with
  | some rd, some wr, some ex, some fw, some ps =>
    wr.all fun (k, _) =>
      k == "type" || rd.any (·.1 == k) || (fw && !ex.contains k && ps.contains k)
  | _, _, _, _, _ => false

/-- a forwarding reader passes every non-excluded written key to the constructor: all must be parameters -/
def forwardOK (c : String) : Bool :=
  match tbl npzWrites c, tbl npzExcluded c, tbl npzForwards c, tbl ctorParams c with
  | some wr, some ex, some fw, some ps => !fw || wr.all fun (k, _) => ex.contains k || ps.contains k
  | _, _, _, _ => false

/-- the type tag is written by every class and the heuristic table is contained in the unconditional writes -/
def detectOK (c : String) : Bool :=
  match tbl npzWrites c, tbl npzExpected c with
  | some wr, some ex => wr.any (fun w => w.1 == "type" && !w.2) && ex.all fun k => wr.any (fun w => w.1 == k && !w.2)
  | _, _ => false

/-- a reader that turns every key outside its exclusion list into metadata (TsGroup) must exclude every
key the writer stores, or stored arrays come back as spurious metadata columns -/
def leftoverOK (c : String) : Bool :=
  match tbl npzWrites c, tbl npzExcluded c, tbl npzLeftoverAsMetadata c with
  | some wr, some ex, some lo => !lo || wr.all fun (k, _) => ex.contains k
  | _, _, _ => false

theorem written_keys_never_reloaded_as_metadata : classes.all leftoverOK = true := by decide
theorem extractor_recognised_everything : npzUnrecognised = [] := by decide
theorem keys_read_are_written : classes.all readsOK = true := by decide
theorem keys_written_are_consumed : classes.all writesOK = true := by decide
theorem forwarded_keys_are_parameters : classes.all forwardOK = true := by decide
theorem type_detection_table : classes.all detectOK = true := by decide
/-- members without samples survive because `keys` is written unconditionally -/
theorem group_keys_written : (tbl npzWrites "TsGroup").map (·.any fun w => w.1 == "keys" && !w.2) = some true := by decide
/-- group members' data: optional write `d` is the key the reader asks for -/
theorem group_data_key_agrees :
    (tbl npzWrites "TsGroup").map (·.any (·.1 == "d")) = some true ∧
    (tbl npzReads "TsGroup").map (·.any (·.1 == "d")) = some true := by decide


theorem fixSkip_id (st en : Array Int) (h : st.size = en.size) (i : Nat) (hi : i < st.size)
    (hlt : st[i] < en[i]'(h ▸ hi)) : fixSkip st en h i = i := by
  unfold fixSkip
  have h1 : ¬ (en[i]'(h ▸ hi) = st[i]) := by omega
  have h2 : ¬ (en[i]'(h ▸ hi) < st[i]) := by omega
  simp [hi, h1, h2]

theorem fixMerge_id (st en : Array Int) (h : st.size = en.size) (i : Nat) (hi : i < st.size) (ne : Int)
    (hsep : (h1 : i + 1 < st.size) → en[i]'(h ▸ hi) < st[i+1]) : fixMerge st en h i hi ne = (i, ne) := by
  unfold fixMerge
  split
  · rename_i h1
    have := hsep h1
    have h2 : ¬ (st[i+1] < en[i]'(h ▸ hi)) := by omega
    simp [h2]
  · rfl

theorem fixTrim_id (st : Array Int) (i : Nat) (e : Int) (hsep : (h1 : i + 1 < st.size) → e < st[i+1]) :
    fixTrim st i e = e := by
  unfold fixTrim
  split
  · rename_i h1
    have := hsep h1
    have : ¬ (e = st[i+1]) := by omega
    simp [this]
  · rfl

/-- on a canonical array pair the repair scan emits every pair unchanged -/
theorem fixLoop_id (st en : Array Int) (h : st.size = en.size) (hc : StrictCanon st en h) (i : Nat) (out : Array (Int × Int)) :
    fixLoop st en h i out = out ++ ((List.range (st.size - i)).map fun d => (st[i + d]!, en[i + d]!)).toArray := by
  induction hn : st.size - i generalizing i out with
  | zero =>
    rw [fixLoop]
    have : ¬ fixSkip st en h i < st.size := by have := fixSkip_ge st en h i; omega
    simp [this]
  | succ n ih =>
    have hi : i < st.size := by omega
    have hs := fixSkip_id st en h i hi (hc.1 i hi)
    rw [fixLoop]
    simp only [hs, dif_pos hi]
    rw [fixMerge_id st en h i hi _ (fun h1 => hc.2 i h1)]
    simp only
    rw [fixTrim_id st i _ (fun h1 => hc.2 i h1)]
    have hlt := hc.1 i hi
    simp only [gt_iff_lt, hlt, if_true]
    rw [ih (i + 1) _ (by omega)]
    rw [List.range_succ_eq_map]
    simp only [List.map_cons, List.map_map, Nat.add_zero]
    rw [getElem!_pos st i hi, getElem!_pos en i (h ▸ hi)]
    apply Array.ext'
    simp [Function.comp_def, Nat.add_assoc, Nat.add_comm 1]

theorem strictCanon_of_canonicalPairs (p : Array (Int × Int)) (hc : CanonicalPairs p) :
    StrictCanon (pairsSt p) (pairsEn p) (pairs_size p) := by
  refine ⟨fun k h => ?_, (canon_of_canonicalPairs p hc).2⟩
  have hk : k < p.size := by simpa [pairsSt] using h
  have := hc.1 p[k] (Array.getElem_mem hk)
  simpa [pairsSt, pairsEn] using this

theorem strictCanon_sorted (st en : Array Int) (h : st.size = en.size) (hc : StrictCanon st en h) :
    Sorted st ∧ Sorted en := by
  have key : ∀ i d, (hj : i + d < st.size) → st[i]'(by omega) ≤ st[i + d] ∧ en[i]'(by omega) ≤ en[i + d]'(h ▸ hj) := by
    intro i d
    induction d with
    | zero => intro hj; exact ⟨Int.le_refl _, Int.le_refl _⟩
    | succ d ih =>
      intro hj
      have := ih (by omega)
      have h1 := hc.1 (i + d) (by omega)
      have h2 := hc.2 (i + d) (by omega)
      have h3 := hc.1 (i + d + 1) (by omega)
      have e : i + (d + 1) = i + d + 1 := by omega
      simp only [e]
      constructor <;> omega
  constructor
  · intro i j hi hj hij
    obtain ⟨d, rfl⟩ : ∃ d, j = i + d := ⟨j - i, by omega⟩
    exact (key i d hj).1
  · intro i j hi hj hij
    obtain ⟨d, rfl⟩ : ∃ d, j = i + d := ⟨j - i, by omega⟩
    exact (key i d (h ▸ hj)).2

/-- **the IntervalSet constructor is the identity on a canonical set** (what `load` relies on when it
rebuilds the support from the stored `start` / `end`) -/
theorem mk_canonical_id (p : Array (Int × Int)) (hc : CanonicalPairs p) :
    ISet.mk (pairsSt p) (pairsEn p) (pairs_size p) = p := by
  have hsc := strictCanon_of_canonicalPairs p hc
  obtain ⟨hs, he⟩ := strictCanon_sorted _ _ _ hsc
  unfold ISet.mk jitfixIset
  have e1 := C12.sortArr_of_sorted _ hs
  have e2 := C12.sortArr_of_sorted _ he
  have := fixLoop_id (pairsSt p) (pairsEn p) (pairs_size p) hsc 0 #[]
  simp only [e1, e2]
  rw [this]
  apply Array.ext
  · simp [pairsSt]
  · intro i h1 h2
    simp [pairsSt, pairsEn, getElem!_pos, h2]

/-- **Ts / Tsd / TsdFrame / TsdTensor: load (save x) = x** for every well-formed object (C04): same
timestamps, same rows, same support.  (An object with no sample has the empty support — C04's
constructor rule — which is the second alternative.) -/
theorem roundtrip_series (s : Series) (h : WF s) (hne : 0 < s.t.size ∨ s.sup = #[]) :
    loadSeries (saveSeries s) = s := by
  unfold loadSeries saveSeries
  simp only [dif_pos (pairs_size s.sup)]
  rw [mk_canonical_id s.sup h.2.2.1]
  rcases Nat.eq_zero_or_pos s.t.size with h0 | hpos
  · have hsup : s.sup = #[] := by rcases hne with h1 | h1; (· omega); exact h1
    have ht : s.t = #[] := Array.eq_empty_of_size_eq_zero h0
    have hr : s.rows = #[] := Array.eq_empty_of_size_eq_zero (by rw [h.2.1, h0])
    obtain ⟨t, rows, sup⟩ := s
    simp only at ht hr hsup
    subst ht; subst hr; subst hsup
    decide
  · exact C12.new_self s h hpos

/-- the excluded corner, recorded as known finding C11-empty-series-with-support: an object with no
sample but a non-empty support (obtainable only by constructing it with every sample outside the
support) does NOT round-trip — the reader's constructor call gives an empty index the empty support -/
theorem roundtrip_empty_with_support_witness :
    loadSeries (saveSeries ⟨#[], #[], #[(0, 1000)]⟩) = ⟨#[], #[], #[]⟩ ∧
    (Series.new #[5000] #[0] (some #[(0, 1000)])) = ⟨#[], #[], #[(0, 1000)]⟩ := by decide +kernel

theorem new_t_of_inside (t : Array Int) (rows : Array Nat) (p : Array (Int × Int)) (hs : Sorted t)
    (hc : CanonicalPairs p) (hin : ∀ i, (h : i < t.size) → InIv (pairsSt p) (pairsEn p) (pairs_size p) t[i]) :
    (Series.new t rows (some p)).t = t := by
  unfold Series.new
  simp only [C12.sortArr_of_sorted t hs]
  split
  · rename_i h0; exact (Array.eq_empty_of_size_eq_zero h0).symm
  · simp only
    rw [C12.jitrestrict_all t _ _ _ hs (canon_of_canonicalPairs _ hc) hin, C12.gatherI_range]

theorem hasDup_of_strict (l : List Int) (h : l.Pairwise (· < ·)) : hasDup l = false := by
  induction l with
  | nil => rfl
  | cons x xs ih =>
    rw [List.pairwise_cons] at h
    rw [C12.hasDup_cons]
    exact ⟨fun hm => by have := h.1 x hm; omega, ih h.2⟩

theorem lookup_mem_keys (ms : List Member) (k : Int) (s : Series) (hl : lookupM k ms = some s) :
    k ∈ ms.map (·.key) := by
  induction ms with
  | nil => simp [lookupM] at hl
  | cons y ys ih =>
    simp only [lookupM] at hl
    split at hl
    · rename_i e; simp [e]
    · simp [ih hl]

/-- **TsGroup: load (save g)** succeeds, has the same support, the same keys in increasing order —
members with no sample included, because the key list is stored — and under every key a member with
exactly the original timestamps; for any time-sorting permutation used by the writer. -/
theorem roundtrip_group (g : Group) (hk : g.keys.Pairwise (· < ·)) (hc : CanonicalPairs g.sup)
    (hm : ∀ k s, lookupM k g.ms = some s → WF s ∧ (s.sup = g.sup ∨ s.t.size = 0)) :
    ∃ g', loadGroup (saveGroup g) = .ok g' ∧ g'.sup = g.sup ∧ g'.keys.Pairwise (· < ·) ∧
      (∀ k, k ∈ g'.keys ↔ k ∈ g.keys) ∧
      ∀ k s, lookupM k g.ms = some s → ∃ s', lookupM k g'.ms = some s' ∧ s'.t = s.t := by
  unfold loadGroup saveGroup
  simp only [dif_pos (pairs_size g.sup)]
  rw [mk_canonical_id g.sup hc]
  have hkeys : (List.map (fun (k : Int) => (⟨k, Series.new (memberOf k g.toTsd).toArray
      (Array.range (memberOf k g.toTsd).length) (some g.sup)⟩ : Member)) g.keys).map (·.key) = g.keys := by
    simp [List.map_map, Function.comp_def]
  cases hnew : Group.new (List.map (fun (k : Int) => (⟨k, Series.new (memberOf k g.toTsd).toArray
      (Array.range (memberOf k g.toTsd).length) (some g.sup)⟩ : Member)) g.keys) (some g.sup) true with
  | error e =>
    exfalso
    unfold Group.new at hnew
    rw [hkeys, hasDup_of_strict _ hk] at hnew
    cases hnew
  | ok g' =>
    refine ⟨g', rfl, C12.new_support_given _ _ _ _ hnew, (C12.new_keys _ _ _ _ hnew).1, ?_, ?_⟩
    · intro k; rw [(C12.new_keys _ _ _ _ hnew).2 k, hkeys]
    · intro k s hl
      rw [C12.new_member _ _ _ _ hnew k]
      have hkin : k ∈ g.keys := lookup_mem_keys g.ms k s hl
      have hlook : ∀ (ks : List Int), k ∈ ks → lookupM k (List.map (fun (k : Int) => (⟨k, Series.new (memberOf k g.toTsd).toArray
          (Array.range (memberOf k g.toTsd).length) (some g.sup)⟩ : Member)) ks) =
          some (Series.new (memberOf k g.toTsd).toArray (Array.range (memberOf k g.toTsd).length) (some g.sup)) := by
        intro ks hks
        induction ks with
        | nil => simp at hks
        | cons y ys ih =>
          simp only [List.map_cons, lookupM]
          by_cases e : y = k
          · subst e; simp
          · simp only [e, if_false]
            simp only [List.mem_cons] at hks
            rcases hks with rfl | hks
            · exact absurd rfl e
            · exact ih hks
      rw [hlook g.keys hkin]
      refine ⟨_, rfl, ?_⟩
      obtain ⟨hwf, hsup⟩ := hm k s hl
      rw [C12.toTsd_toTsgroup g hk k s hl hwf.1]
      simp only [Array.toArray_toList]
      rcases hsup with hsup | h0
      · exact new_t_of_inside s.t _ g.sup hwf.1 hc (by rw [← hsup]; exact hwf.2.2.2)
      · have : s.t = #[] := Array.eq_empty_of_size_eq_zero h0
        rw [this]
        unfold Series.new
        simp [sortArr, isort]


end Pyn.C11

import PynProofs.Search
import PynModel.Core.Slice
import PynModel.Core.Trial
/-!
# C08 — time-window slicing and trial tensors select exactly the windowed samples
Model: `Pyn.getSlice` (`_Base._get_slice`, all four modes, Python negative-index wrap-around
included), over the `np.searchsorted` specification functions `ssLeft` / `ssRight`.

Proved: `get(start, end)` (mode `restrict`) returns exactly the samples with
`start ≤ t ≤ end`, duplicates at either edge included (`get_window`); `get(start)` (mode `closest_t`, no end)
returns a sample nearest to `start`, for any non-empty sorted series and any `start` before, inside or after the
data, Python's wrap-around read `t[-1]` included (`get_nearest`).  `to_trial_tensor` (`PynModel/Core/Trial.lean`): one row per trial,
all rows equally long, sample `k` in row `i` iff `start_i ≤ t[k] ≤ end_i`, occupied cells consecutive in time
order at the start / end of the row (`trial_rows`, `trialRow_mem`).  The modes `before_t` / `after_t`, trial_count
and warp are decided by oracle + correspondence.
-/
namespace Pyn.C08
open Pyn

/-- in `restrict` mode the slice is `[searchsorted(t, start, left), searchsorted(t, end, right))` -/
theorem getSlice_restrict_eq (t : Array Int) (s e : Int) (hse : s ≤ e) :
    getSlice t 3 s (some e) = .ok (((ssLeft t s 0 : Nat) : Int), ((ssRight t e 0 : Nat) : Int)) := by
  unfold getSlice
  have h0 : (0 : Int) ≤ ((ssLeft t s 0 : Nat) : Int) := Int.natCast_nonneg _
  have : ¬ (s > e) := by omega
  simp [this, Int.max_eq_right h0, pure, Except.pure]

/-- **get(start, end) selects exactly the windowed samples.**  For non-decreasing timestamps of any
length (duplicates at the window edges included) and `start ≤ end`, position `k` lies in the
returned slice iff `start ≤ t[k] ≤ end`. -/
theorem get_window (t : Array Int) (hs : Sorted t) (s e : Int) (hse : s ≤ e) (k : Nat) (hk : k < t.size) :
    ∃ a b, getSlice t 3 s (some e) = .ok (a, b) ∧ ((a ≤ (k : Int) ∧ (k : Int) < b) ↔ (s ≤ t[k] ∧ t[k] ≤ e)) := by
  refine ⟨_, _, getSlice_restrict_eq t s e hse, ?_⟩
  rw [← ss_closed_window t s e hs k hk]
  constructor <;> (rintro ⟨a, b⟩; constructor <;> omega)

/-- `start > end` is rejected (ValueError), never answered with a slice -/
theorem get_rejects_inverted (t : Array Int) (s e : Int) (hse : e < s) :
    getSlice t 3 s (some e) = .error .value := by
  unfold getSlice
  have : s > e := hse
  simp [this, pure, Except.pure, bind, Except.bind]
  split
  · rename_i h; simp [throw, throwThe, MonadExceptOf.throw] at h; rw [h]
  · rename_i h; simp [throw, throwThe, MonadExceptOf.throw] at h

/-! ## x.get(start): the nearest sample -/

theorem pyGet_nat (t : Array Int) (k : Nat) (hk : k < t.size) : pyGet t (k : Int) = .ok t[k] := by
  unfold pyGet
  have h1 : (0 : Int) ≤ (k : Int) ∧ (k : Int) < (t.size : Int) := ⟨Int.natCast_nonneg _, by omega⟩
  simp [h1, hk]

theorem pyGet_neg1 (t : Array Int) (hn : 0 < t.size) : pyGet t (-1) = .ok (t[t.size - 1]'(by omega)) := by
  unfold pyGet
  have h1 : ¬ ((0 : Int) ≤ -1 ∧ (-1 : Int) < (t.size : Int)) := by omega
  have h2 : -(t.size : Int) ≤ -1 ∧ (-1 : Int) < 0 := by omega
  have e : ((-1 : Int) + (t.size : Int)).toNat = t.size - 1 := by omega
  simp [h1, h2, e, show t.size - 1 < t.size by omega]

/-- **x.get(start) returns a sample nearest to `start`** (mode `closest_t`, no `end`): for non-decreasing timestamps
of any positive length, the slice is `(i, i+1)` for a valid position `i` whose timestamp is at least as close to
`start` as every other timestamp (ties go to the later sample) -/
theorem get_nearest (t : Array Int) (hs : Sorted t) (hn : 0 < t.size) (s : Int) :
    ∃ i : Nat, ∃ hi : i < t.size, getSlice t 2 s none = .ok ((i : Int), (i : Int) + 1) ∧
      ∀ k, (hk : k < t.size) → (t[i] - s).natAbs ≤ (t[k] - s).natAbs := by
  have hb := ssLeft_bounds t s 0 (Nat.zero_le _)
  obtain ⟨sp1, sp2⟩ := ssLeft_spec t s 0 hs
  rcases Nat.lt_or_ge (ssLeft t s 0) t.size with hlt | hge
  · rcases Nat.eq_zero_or_pos (ssLeft t s 0) with h0 | hpos
    · -- every timestamp is ≥ start: the first one is nearest
      refine ⟨0, hn, ?_, ?_⟩
      · unfold getSlice
        have hne : ¬ ((0 : Int) = (t.size : Int)) := by omega
        have p0 : pyGet t 0 = .ok t[0] := by simpa using pyGet_nat t 0 hn
        have h1 := sp2 0 (by omega) hn
        have h2 := sp2 (t.size - 1) (by omega) (by omega)
        have h3 := hs 0 (t.size - 1) hn (by omega) (by omega)
        have hc : ¬ (((t[t.size - 1]'(by omega) - s).natAbs : Int) < t[0] - s) := by omega
        simp [h0, hne, p0, pyGet_neg1 t hn, bind, Except.bind, pure, Except.pure, b2i, hc]
      · intro k hk
        have h1 := sp2 0 (by omega) hn
        have h2 := sp2 k (by omega) hk
        have h3 := hs 0 k hn hk (by omega)
        omega
    · -- start lies strictly between two samples (or on the later one): the closer of the two neighbours
      have hj : ssLeft t s 0 - 1 < t.size := by omega
      have pj : pyGet t ((ssLeft t s 0 : Nat) : Int) = .ok t[ssLeft t s 0] := pyGet_nat t _ hlt
      have pj1 : pyGet t (((ssLeft t s 0 : Nat) : Int) - 1) = .ok (t[ssLeft t s 0 - 1]'hj) := by
        have e : ((ssLeft t s 0 : Nat) : Int) - 1 = ((ssLeft t s 0 - 1 : Nat) : Int) := by omega
        rw [e]; exact pyGet_nat t _ hj
      have hne : ¬ (((ssLeft t s 0 : Nat) : Int) = (t.size : Int)) := by omega
      have hlo := sp1 (ssLeft t s 0 - 1) (by omega) (by omega) hj
      have hhi := sp2 (ssLeft t s 0) (Nat.le_refl _) hlt
      by_cases hc : ((t[ssLeft t s 0 - 1]'hj - s).natAbs : Int) < t[ssLeft t s 0] - s
      · refine ⟨ssLeft t s 0 - 1, hj, ?_, ?_⟩
        · unfold getSlice
          have e : ((ssLeft t s 0 - 1 : Nat) : Int) = ((ssLeft t s 0 : Nat) : Int) - 1 := by omega
          have hnn : ¬ (((ssLeft t s 0 : Nat) : Int) - 1 < 0) := by omega
          simp [hne, pj, pj1, bind, Except.bind, pure, Except.pure, b2i, hc, e, hnn]
        · intro k hk
          rcases Nat.lt_or_ge k (ssLeft t s 0) with h | h
          · have := hs k (ssLeft t s 0 - 1) hk hj (by omega)
            omega
          · have := hs (ssLeft t s 0) k hlt hk h
            omega
      · refine ⟨ssLeft t s 0, hlt, ?_, ?_⟩
        · unfold getSlice
          have hnn : ¬ (((ssLeft t s 0 : Nat) : Int) < 0) := by omega
          simp [hne, pj, pj1, bind, Except.bind, pure, Except.pure, b2i, hc, hnn]
        · intro k hk
          rcases Nat.lt_or_ge k (ssLeft t s 0) with h | h
          · have := hs k (ssLeft t s 0 - 1) hk hj (by omega)
            omega
          · have := hs (ssLeft t s 0) k hlt hk h
            omega
  · -- every timestamp is before start: the last one is nearest
    have hsz : ssLeft t s 0 = t.size := by omega
    have hl : t.size - 1 < t.size := by omega
    have hlast := sp1 (t.size - 1) (by omega) (by omega) hl
    refine ⟨t.size - 1, hl, ?_, ?_⟩
    · unfold getSlice
      have e : ((t.size - 1 : Nat) : Int) = (t.size : Int) - 1 := by omega
      have pl : pyGet t ((t.size : Int) - 1) = .ok (t[t.size - 1]'hl) := by rw [← e]; exact pyGet_nat t _ hl
      have hnn : ¬ ((t.size : Int) - 1 < 0) := by omega
      rcases Nat.lt_or_ge 1 t.size with h2 | h2
      · have hl2 : t.size - 2 < t.size := by omega
        have e2 : (t.size : Int) - 1 - 1 = ((t.size - 2 : Nat) : Int) := by omega
        have pl2 : pyGet t ((t.size : Int) - 1 - 1) = .ok (t[t.size - 2]'hl2) := by rw [e2]; exact pyGet_nat t _ hl2
        have hc : ¬ (((t[t.size - 2]'hl2 - s).natAbs : Int) < t[t.size - 1]'hl - s) := by omega
        simp [hsz, pl, pl2, bind, Except.bind, pure, Except.pure, b2i, hc, e, hnn]
      · have h1 : t.size = 1 := by omega
        have e2 : (t.size : Int) - 1 - 1 = -1 := by omega
        have pl2 : pyGet t ((t.size : Int) - 1 - 1) = .ok (t[t.size - 1]'hl) := by rw [e2]; exact pyGet_neg1 t hn
        have hc : ¬ (((t[t.size - 1]'hl - s).natAbs : Int) < t[t.size - 1]'hl - s) := by omega
        simp [hsz, pl, pl2, bind, Except.bind, pure, Except.pure, b2i, hc, e, hnn]
    · intro k hk
      have := hs k (t.size - 1) hk hl (by omega)
      have := sp1 k (by omega) (by omega) hk
      omega


/-! ## to_trial_tensor: each trial's samples in that trial's row -/

theorem trialRow_size (a len nt : Nat) (al : Bool) : (trialRow a len nt al).size = nt := by simp [trialRow]

theorem trialRow_get (a len nt : Nat) (al : Bool) (j : Nat) (hj : j < (trialRow a len nt al).size) :
    (trialRow a len nt al)[j] =
      if al then (if nt - len ≤ j then some (a + (j - (nt - len))) else none)
      else (if j < len then some (a + j) else none) := by
  simp [trialRow]

/-- the cells of a row hold exactly the positions `a .. a+len-1`, in increasing order, contiguous at the start
(`align="start"`) or at the end (`align="end"`) -/
theorem trialRow_mem (a len nt : Nat) (al : Bool) (hl : len ≤ nt) (k : Nat) :
    some k ∈ trialRow a len nt al ↔ (a ≤ k ∧ k < a + len) := by
  rw [Array.mem_iff_getElem]
  constructor
  · rintro ⟨j, hj, e⟩
    rw [trialRow_get] at e
    have hj' : j < nt := by simpa [trialRow_size] using hj
    cases al
    · simp only [Bool.false_eq_true, if_false] at e
      split at e
      · simp at e; omega
      · simp at e
    · simp only [if_true] at e
      split at e
      · simp at e; omega
      · simp at e
  · rintro ⟨h1, h2⟩
    cases al
    · refine ⟨k - a, by simp [trialRow_size]; omega, ?_⟩
      rw [trialRow_get]
      have : k - a < len := by omega
      simp [this]; omega
    · refine ⟨nt - len + (k - a), by simp [trialRow_size]; omega, ?_⟩
      rw [trialRow_get]
      have : nt - len ≤ nt - len + (k - a) := by omega
      simp; omega

theorem trialSlices_ok (t : Array Int) (trials : List (Int × Int)) (hle : ∀ p ∈ trials, p.1 ≤ p.2) :
    trialSlices t trials = .ok (trials.map fun p => (((ssLeft t p.1 0 : Nat) : Int), ((ssRight t p.2 0 : Nat) : Int))) := by
  unfold trialSlices
  induction trials with
  | nil => rfl
  | cons p ps ih =>
    simp only [List.mapM_cons, getSlice_restrict_eq t p.1 p.2 (hle p (List.mem_cons_self ..)), bind, Except.bind,
      ih (fun q hq => hle q (List.mem_cons_of_mem _ hq)), pure, Except.pure, List.map_cons]

theorem le_foldl_max (l : List Nat) (init x : Nat) (h : x ∈ l ∨ x ≤ init) : x ≤ l.foldl max init := by
  induction l generalizing init with
  | nil =>
    rcases h with h | h
    · simp at h
    · simpa using h
  | cons a t ih =>
    simp only [List.foldl_cons]
    apply ih
    rcases h with h | h
    · rcases List.mem_cons.1 h with e | e
      · right; subst e; omega
      · exact Or.inl e
    · right; omega

/-- **to_trial_tensor puts exactly each trial's samples in that trial's row**: for non-decreasing timestamps and a
non-empty list of trials with `start ≤ end`, the tensor has one row per trial, all rows equally long, and sample
position `k` occurs in row `i` iff `start_i ≤ t[k] ≤ end_i` (by `trialRow_mem` the occupied cells are consecutive, in
time order, at the start or at the end of the row; every other cell is padding) -/
theorem trial_rows (t : Array Int) (hs : Sorted t) (trials : List (Int × Int)) (hne : trials ≠ [])
    (hle : ∀ p ∈ trials, p.1 ≤ p.2) (al : Bool) :
    ∃ rows nt, trialTensor t trials al = .ok rows ∧ rows.length = trials.length ∧
      (∀ r ∈ rows, r.size = nt) ∧
      ∀ i, (hi : i < trials.length) → (hi2 : i < rows.length) → ∀ k, (hk : k < t.size) →
        (some k ∈ rows[i] ↔ ((trials[i]).1 ≤ t[k] ∧ t[k] ≤ (trials[i]).2)) := by
  have hsl := trialSlices_ok t trials hle
  unfold trialTensor
  simp only [hsl, bind, Except.bind]
  have hemp : (trials.map fun p => (((ssLeft t p.1 0 : Nat) : Int), ((ssRight t p.2 0 : Nat) : Int))).isEmpty = false := by
    cases trials with
    | nil => exact absurd rfl hne
    | cons a b => rfl
  simp only [hemp, Bool.false_eq_true, if_false, pure, Except.pure]
  obtain ⟨nt, hnt⟩ : ∃ nt, nt = (List.map (fun p : Int × Int => (p.2 - p.1).toNat)
      (trials.map fun p => (((ssLeft t p.1 0 : Nat) : Int), ((ssRight t p.2 0 : Nat) : Int)))).foldl max 0 := ⟨_, rfl⟩
  rw [← hnt]
  refine ⟨_, nt, rfl, by simp, ?_, ?_⟩
  · intro r hr
    simp only [List.mem_map] at hr
    obtain ⟨p, _, rfl⟩ := hr
    exact trialRow_size _ _ _ _
  · intro i hi hi2 k hk
    simp only [List.getElem_map]
    have hlen : ((((ssRight t (trials[i]).2 0 : Nat) : Int) - ((ssLeft t (trials[i]).1 0 : Nat) : Int)).toNat) ≤ nt := by
      rw [hnt]
      apply le_foldl_max
      left
      simp only [List.mem_map]
      exact ⟨_, ⟨trials[i], List.getElem_mem hi, rfl⟩, rfl⟩
    rw [trialRow_mem _ _ _ _ hlen]
    have hw := ss_closed_window t (trials[i]).1 (trials[i]).2 hs k hk
    rw [← hw]
    have := hle _ (List.getElem_mem hi)
    constructor
    · rintro ⟨a, b⟩
      constructor <;> omega
    · rintro ⟨a, b⟩
      constructor <;> omega


def okIs (r : Except SliceErr (Int × Int)) (a b : Int) : Bool :=
  match r with | .ok (x, y) => x == a && y == b | _ => false
-- an empty trial between two occupied ones, both alignments
def trialIs (r : Except SliceErr (List (Array (Option Nat)))) (rows : List (Array (Option Nat))) : Bool :=
  match r with | .ok x => x == rows | _ => false
example : trialIs (trialTensor #[0, 1, 2, 5] [(0, 2), (3, 4), (5, 9)] false) [#[some 0, some 1, some 2], #[none, none, none], #[some 3, none, none]] = true := by decide +kernel
example : trialIs (trialTensor #[0, 1, 2, 5] [(0, 2), (3, 4), (5, 9)] true) [#[some 0, some 1, some 2], #[none, none, none], #[none, none, some 3]] = true := by decide +kernel
-- the input that was wrong before the repair: duplicates equal to `end`
example : okIs (getSlice #[0, 1, 1, 2] 3 0 (some 1)) 0 3 = true := by decide +kernel
example : okIs (getSlice #[0, 1, 1, 2] 3 1 (some 1)) 1 3 = true := by decide +kernel
example : okIs (getSlice #[0, 1, 1, 2] 3 5 (some 6)) 4 4 = true := by decide +kernel     -- window after the data
example : okIs (getSlice #[0, 1, 1, 2] 3 (-5) (some (-1))) 0 0 = true := by decide +kernel -- window before the data
example : okIs (getSlice #[0, 10, 20] 2 14 none) 1 2 = true := by decide +kernel           -- nearest sample
example : okIs (getSlice #[0, 10, 20] 2 16 none) 2 3 = true := by decide +kernel

end Pyn.C08

import PynProofs.Search
import PynProps.C05
import PynProofs.SetOps
import PynModel.Core.Slice
import PynModel.Core.Trial
/-!
# C08 — time-window slicing and trial tensors select exactly the windowed samples
Model: `Pyn.getSlice` (`_Base._get_slice`, all four modes, Python negative-index wrap-around
included), over the `np.searchsorted` specification functions `ssLeft` / `ssRight`.

Proved: `get(start, end)` (mode `restrict`) returns exactly the samples with
`start ≤ t ≤ end`, duplicates at either edge included (`get_window`); `get(start)` (mode `closest_t`, no end)
returns a sample nearest to `start`, for any non-empty sorted series and any `start` before, inside or after the
data, Python's wrap-around read `t[-1]` included (`get_nearest`).  `to_trial_tensor` (`PynModel/Core/Trial.lean`): one row per trial,
all rows equally long, sample `k` in row `i` iff `start_i ≤ t[k] ≤ end_i`, occupied cells consecutive in time
order at the start / end of the row (`trial_rows`, `trialRow_mem`).  `trial_count`: `trialCount_rows` — row i read without padding is the
list of counts of exactly the bins of `count` whose centre lies in trial i, in order, and the preallocated width
always suffices (`countK_window`, `nbBins_le_width`).  The modes `before_t` / `after_t` and warp are decided by oracle +
correspondence.
-/
namespace Pyn.C08
open Pyn Pyn.C05

/-- in `restrict` mode the slice is `[searchsorted(t, start, left), searchsorted(t, end, right))` -/
theorem getSlice_restrict_eq (t : Array Int) (s e : Int) (hse : s ≤ e) :
    getSlice t 3 s (some e) = .ok (((ssLeft t s 0 : Nat) : Int), ((ssRight t e 0 : Nat) : Int)) := by
  unfold getSlice
  have h0 : (0 : Int) ≤ ((ssLeft t s 0 : Nat) : Int) := Int.natCast_nonneg _
  have : ¬ (s > e) := by omega
  simp [this, Int.max_eq_right h0, pure, Except.pure]

/-- **get(start, end) selects exactly the windowed samples.**  For non-decreasing timestamps of any
length (duplicates at the window edges included) and `start ≤ end`, position `k` lies in the
returned slice iff `start ≤ t[k] ≤ end`. -/
theorem get_window (t : Array Int) (hs : Sorted t) (s e : Int) (hse : s ≤ e) (k : Nat) (hk : k < t.size) :
    ∃ a b, getSlice t 3 s (some e) = .ok (a, b) ∧ ((a ≤ (k : Int) ∧ (k : Int) < b) ↔ (s ≤ t[k] ∧ t[k] ≤ e)) := by
  refine ⟨_, _, getSlice_restrict_eq t s e hse, ?_⟩
  rw [← ss_closed_window t s e hs k hk]
  constructor <;> (rintro ⟨a, b⟩; constructor <;> omega)

/-- `start > end` is rejected (ValueError), never answered with a slice -/
theorem get_rejects_inverted (t : Array Int) (s e : Int) (hse : e < s) :
    getSlice t 3 s (some e) = .error .value := by
  unfold getSlice
  have : s > e := hse
  simp [this, pure, Except.pure, bind, Except.bind]
  split
  · rename_i h; simp [throw, throwThe, MonadExceptOf.throw] at h; rw [h]
  · rename_i h; simp [throw, throwThe, MonadExceptOf.throw] at h

/-! ## x.get(start): the nearest sample -/

theorem pyGet_nat (t : Array Int) (k : Nat) (hk : k < t.size) : pyGet t (k : Int) = .ok t[k] := by
  unfold pyGet
  have h1 : (0 : Int) ≤ (k : Int) ∧ (k : Int) < (t.size : Int) := ⟨Int.natCast_nonneg _, by omega⟩
  simp [h1, hk]

theorem pyGet_neg1 (t : Array Int) (hn : 0 < t.size) : pyGet t (-1) = .ok (t[t.size - 1]'(by omega)) := by
  unfold pyGet
  have h1 : ¬ ((0 : Int) ≤ -1 ∧ (-1 : Int) < (t.size : Int)) := by omega
  have h2 : -(t.size : Int) ≤ -1 ∧ (-1 : Int) < 0 := by omega
  have e : ((-1 : Int) + (t.size : Int)).toNat = t.size - 1 := by omega
  simp [h1, h2, e, show t.size - 1 < t.size by omega]

/-- **x.get(start) returns a sample nearest to `start`** (mode `closest_t`, no `end`): for non-decreasing timestamps
of any positive length, the slice is `(i, i+1)` for a valid position `i` whose timestamp is at least as close to
`start` as every other timestamp (ties go to the later sample) -/
theorem get_nearest (t : Array Int) (hs : Sorted t) (hn : 0 < t.size) (s : Int) :
    ∃ i : Nat, ∃ hi : i < t.size, getSlice t 2 s none = .ok ((i : Int), (i : Int) + 1) ∧
      ∀ k, (hk : k < t.size) → (t[i] - s).natAbs ≤ (t[k] - s).natAbs := by
  have hb := ssLeft_bounds t s 0 (Nat.zero_le _)
  obtain ⟨sp1, sp2⟩ := ssLeft_spec t s 0 hs
  rcases Nat.lt_or_ge (ssLeft t s 0) t.size with hlt | hge
  · rcases Nat.eq_zero_or_pos (ssLeft t s 0) with h0 | hpos
    · -- every timestamp is ≥ start: the first one is nearest
      refine ⟨0, hn, ?_, ?_⟩
      · unfold getSlice
        have hne : ¬ ((0 : Int) = (t.size : Int)) := by omega
        have p0 : pyGet t 0 = .ok t[0] := by simpa using pyGet_nat t 0 hn
        have h1 := sp2 0 (by omega) hn
        have h2 := sp2 (t.size - 1) (by omega) (by omega)
        have h3 := hs 0 (t.size - 1) hn (by omega) (by omega)
        have hc : ¬ (((t[t.size - 1]'(by omega) - s).natAbs : Int) < t[0] - s) := by omega
        simp [h0, hne, p0, pyGet_neg1 t hn, bind, Except.bind, pure, Except.pure, b2i, hc]
      · intro k hk
        have h1 := sp2 0 (by omega) hn
        have h2 := sp2 k (by omega) hk
        have h3 := hs 0 k hn hk (by omega)
        omega
    · -- start lies strictly between two samples (or on the later one): the closer of the two neighbours
      have hj : ssLeft t s 0 - 1 < t.size := by omega
      have pj : pyGet t ((ssLeft t s 0 : Nat) : Int) = .ok t[ssLeft t s 0] := pyGet_nat t _ hlt
      have pj1 : pyGet t (((ssLeft t s 0 : Nat) : Int) - 1) = .ok (t[ssLeft t s 0 - 1]'hj) := by
        have e : ((ssLeft t s 0 : Nat) : Int) - 1 = ((ssLeft t s 0 - 1 : Nat) : Int) := by omega
        rw [e]; exact pyGet_nat t _ hj
      have hne : ¬ (((ssLeft t s 0 : Nat) : Int) = (t.size : Int)) := by omega
      have hlo := sp1 (ssLeft t s 0 - 1) (by omega) (by omega) hj
      have hhi := sp2 (ssLeft t s 0) (Nat.le_refl _) hlt
      by_cases hc : ((t[ssLeft t s 0 - 1]'hj - s).natAbs : Int) < t[ssLeft t s 0] - s
      · refine ⟨ssLeft t s 0 - 1, hj, ?_, ?_⟩
        · unfold getSlice
          have e : ((ssLeft t s 0 - 1 : Nat) : Int) = ((ssLeft t s 0 : Nat) : Int) - 1 := by omega
          have hnn : ¬ (((ssLeft t s 0 : Nat) : Int) - 1 < 0) := by omega
          simp [hne, pj, pj1, bind, Except.bind, pure, Except.pure, b2i, hc, e, hnn]
        · intro k hk
          rcases Nat.lt_or_ge k (ssLeft t s 0) with h | h
          · have := hs k (ssLeft t s 0 - 1) hk hj (by omega)
            omega
          · have := hs (ssLeft t s 0) k hlt hk h
            omega
      · refine ⟨ssLeft t s 0, hlt, ?_, ?_⟩
        · unfold getSlice
          have hnn : ¬ (((ssLeft t s 0 : Nat) : Int) < 0) := by omega
          simp [hne, pj, pj1, bind, Except.bind, pure, Except.pure, b2i, hc, hnn]
        · intro k hk
          rcases Nat.lt_or_ge k (ssLeft t s 0) with h | h
          · have := hs k (ssLeft t s 0 - 1) hk hj (by omega)
            omega
          · have := hs (ssLeft t s 0) k hlt hk h
            omega
  · -- every timestamp is before start: the last one is nearest
    have hsz : ssLeft t s 0 = t.size := by omega
    have hl : t.size - 1 < t.size := by omega
    have hlast := sp1 (t.size - 1) (by omega) (by omega) hl
    refine ⟨t.size - 1, hl, ?_, ?_⟩
    · unfold getSlice
      have e : ((t.size - 1 : Nat) : Int) = (t.size : Int) - 1 := by omega
      have pl : pyGet t ((t.size : Int) - 1) = .ok (t[t.size - 1]'hl) := by rw [← e]; exact pyGet_nat t _ hl
      have hnn : ¬ ((t.size : Int) - 1 < 0) := by omega
      rcases Nat.lt_or_ge 1 t.size with h2 | h2
      · have hl2 : t.size - 2 < t.size := by omega
        have e2 : (t.size : Int) - 1 - 1 = ((t.size - 2 : Nat) : Int) := by omega
        have pl2 : pyGet t ((t.size : Int) - 1 - 1) = .ok (t[t.size - 2]'hl2) := by rw [e2]; exact pyGet_nat t _ hl2
        have hc : ¬ (((t[t.size - 2]'hl2 - s).natAbs : Int) < t[t.size - 1]'hl - s) := by omega
        simp [hsz, pl, pl2, bind, Except.bind, pure, Except.pure, b2i, hc, e, hnn]
      · have h1 : t.size = 1 := by omega
        have e2 : (t.size : Int) - 1 - 1 = -1 := by omega
        have pl2 : pyGet t ((t.size : Int) - 1 - 1) = .ok (t[t.size - 1]'hl) := by rw [e2]; exact pyGet_neg1 t hn
        have hc : ¬ (((t[t.size - 1]'hl - s).natAbs : Int) < t[t.size - 1]'hl - s) := by omega
        simp [hsz, pl, pl2, bind, Except.bind, pure, Except.pure, b2i, hc, e, hnn]
    · intro k hk
      have := hs k (t.size - 1) hk hl (by omega)
      have := sp1 k (by omega) (by omega) hk
      omega


/-! ## to_trial_tensor: each trial's samples in that trial's row -/

theorem trialRow_size (a len nt : Nat) (al : Bool) : (trialRow a len nt al).size = nt := by simp [trialRow]

theorem trialRow_get (a len nt : Nat) (al : Bool) (j : Nat) (hj : j < (trialRow a len nt al).size) :
    (trialRow a len nt al)[j] =
      if al then (if nt - len ≤ j then some (a + (j - (nt - len))) else none)
      else (if j < len then some (a + j) else none) := by
  simp [trialRow]

/-- the cells of a row hold exactly the positions `a .. a+len-1`, in increasing order, contiguous at the start
(`align="start"`) or at the end (`align="end"`) -/
theorem trialRow_mem (a len nt : Nat) (al : Bool) (hl : len ≤ nt) (k : Nat) :
    some k ∈ trialRow a len nt al ↔ (a ≤ k ∧ k < a + len) := by
  rw [Array.mem_iff_getElem]
  constructor
  · rintro ⟨j, hj, e⟩
    rw [trialRow_get] at e
    have hj' : j < nt := by simpa [trialRow_size] using hj
    cases al
    · simp only [Bool.false_eq_true, if_false] at e
      split at e
      · simp at e; omega
      · simp at e
    · simp only [if_true] at e
      split at e
      · simp at e; omega
      · simp at e
  · rintro ⟨h1, h2⟩
    cases al
    · refine ⟨k - a, by simp [trialRow_size]; omega, ?_⟩
      rw [trialRow_get]
      have : k - a < len := by omega
      simp [this]; omega
    · refine ⟨nt - len + (k - a), by simp [trialRow_size]; omega, ?_⟩
      rw [trialRow_get]
      have : nt - len ≤ nt - len + (k - a) := by omega
      simp; omega

theorem trialSlices_ok (t : Array Int) (trials : List (Int × Int)) (hle : ∀ p ∈ trials, p.1 ≤ p.2) :
    trialSlices t trials = .ok (trials.map fun p => (((ssLeft t p.1 0 : Nat) : Int), ((ssRight t p.2 0 : Nat) : Int))) := by
  unfold trialSlices
  induction trials with
  | nil => rfl
  | cons p ps ih =>
    simp only [List.mapM_cons, getSlice_restrict_eq t p.1 p.2 (hle p (List.mem_cons_self ..)), bind, Except.bind,
      ih (fun q hq => hle q (List.mem_cons_of_mem _ hq)), pure, Except.pure, List.map_cons]

theorem le_foldl_max (l : List Nat) (init x : Nat) (h : x ∈ l ∨ x ≤ init) : x ≤ l.foldl max init := by
  induction l generalizing init with
  | nil =>
    rcases h with h | h
    · simp at h
    · simpa using h
  | cons a t ih =>
    simp only [List.foldl_cons]
    apply ih
    rcases h with h | h
    · rcases List.mem_cons.1 h with e | e
      · right; subst e; omega
      · exact Or.inl e
    · right; omega

/-- **to_trial_tensor puts exactly each trial's samples in that trial's row**: for non-decreasing timestamps and a
non-empty list of trials with `start ≤ end`, the tensor has one row per trial, all rows equally long, and sample
position `k` occurs in row `i` iff `start_i ≤ t[k] ≤ end_i` (by `trialRow_mem` the occupied cells are consecutive, in
time order, at the start or at the end of the row; every other cell is padding) -/
theorem trial_rows (t : Array Int) (hs : Sorted t) (trials : List (Int × Int)) (hne : trials ≠ [])
    (hle : ∀ p ∈ trials, p.1 ≤ p.2) (al : Bool) :
    ∃ rows nt, trialTensor t trials al = .ok rows ∧ rows.length = trials.length ∧
      (∀ r ∈ rows, r.size = nt) ∧
      ∀ i, (hi : i < trials.length) → (hi2 : i < rows.length) → ∀ k, (hk : k < t.size) →
        (some k ∈ rows[i] ↔ ((trials[i]).1 ≤ t[k] ∧ t[k] ≤ (trials[i]).2)) := by
  have hsl := trialSlices_ok t trials hle
  unfold trialTensor
  simp only [hsl, bind, Except.bind]
  have hemp : (trials.map fun p => (((ssLeft t p.1 0 : Nat) : Int), ((ssRight t p.2 0 : Nat) : Int))).isEmpty = false := by
    cases trials with
    | nil => exact absurd rfl hne
    | cons a b => rfl
  simp only [hemp, Bool.false_eq_true, if_false, pure, Except.pure]
  obtain ⟨nt, hnt⟩ : ∃ nt, nt = (List.map (fun p : Int × Int => (p.2 - p.1).toNat)
      (trials.map fun p => (((ssLeft t p.1 0 : Nat) : Int), ((ssRight t p.2 0 : Nat) : Int)))).foldl max 0 := ⟨_, rfl⟩
  rw [← hnt]
  refine ⟨_, nt, rfl, by simp, ?_, ?_⟩
  · intro r hr
    simp only [List.mem_map] at hr
    obtain ⟨p, _, rfl⟩ := hr
    exact trialRow_size _ _ _ _
  · intro i hi hi2 k hk
    simp only [List.getElem_map]
    have hlen : ((((ssRight t (trials[i]).2 0 : Nat) : Int) - ((ssLeft t (trials[i]).1 0 : Nat) : Int)).toNat) ≤ nt := by
      rw [hnt]
      apply le_foldl_max
      left
      simp only [List.mem_map]
      exact ⟨_, ⟨trials[i], List.getElem_mem hi, rfl⟩, rfl⟩
    rw [trialRow_mem _ _ _ _ hlen]
    have hw := ss_closed_window t (trials[i]).1 (trials[i]).2 hs k hk
    rw [← hw]
    have := hle _ (List.getElem_mem hi)
    constructor
    · rintro ⟨a, b⟩
      constructor <;> omega
    · rintro ⟨a, b⟩
      constructor <;> omega


/-! ## trial_count: each trial's binned counts in that trial's row -/

/-- centres strictly increase along the array and are all at most `b` -/
def CInc (out : Array (Int × Nat × Int)) (b : Int) : Prop :=
  (∀ i j, (hi : i < out.size) → (hj : j < out.size) → i < j → out[i].1 < out[j].1) ∧ ∀ i, (hi : i < out.size) → out[i].1 ≤ b

theorem binLoop_cinc (ts dat : Array Int) (maxt : Nat) (hm : maxt ≤ ts.size) (e bs : Int) (hbs : 0 < bs) (nb : Nat)
    (l : Int) (t : Nat) (out : Array (Int × Nat × Int)) (h : CInc out (2 * l)) :
    CInc (binLoop ts dat maxt hm e bs nb l t out) (max (2 * l) (2 * e)) := by
  obtain ⟨c1, c2, c3, c4⟩ := binLoop_centres ts dat maxt hm e bs nb l t out
  obtain ⟨h1, h2⟩ := h
  have hnew : ∀ k, out.size ≤ k → (hk : k < (binLoop ts dat maxt hm e bs nb l t out).size) →
      2 * l < (binLoop ts dat maxt hm e bs nb l t out)[k].1 := by
    intro k hk1 hk
    rw [(c4 k hk1 hk).1]
    have : (0 : Int) ≤ ((k - out.size : Nat) : Int) * bs := Int.mul_nonneg (Int.natCast_nonneg _) (Int.le_of_lt hbs)
    omega
  constructor
  · intro i j hi hj hij
    rcases Nat.lt_or_ge j out.size with hjo | hjo
    · rw [c3 i (by omega) hi, c3 j hjo hj]; exact h1 i j (by omega) hjo hij
    · rcases Nat.lt_or_ge i out.size with hio | hio
      · rw [c3 i hio hi]
        have := h2 i hio
        have := hnew j hjo hj
        omega
      · rw [(c4 i hio hi).1, (c4 j hjo hj).1]
        have hlt : ((i - out.size : Nat) : Int) + 1 ≤ ((j - out.size : Nat) : Int) := by omega
        have := Int.mul_le_mul_of_nonneg_right hlt (Int.le_of_lt hbs)
        rw [Int.add_mul] at this
        omega
  · intro i hi
    rcases Nat.lt_or_ge i out.size with hio | hio
    · rw [c3 i hio hi]; have := h2 i hio; omega
    · have := (c4 i hio hi).2; omega

theorem cinc_empty (b : Int) : CInc #[] b :=
  ⟨fun i j hi => absurd hi (by simp), fun i hi => absurd hi (by simp)⟩

theorem cinc_mono (out : Array (Int × Nat × Int)) (b b' : Int) (h : CInc out b) (hb : b ≤ b') : CInc out b' :=
  ⟨h.1, fun i hi => Int.le_trans (h.2 i hi) hb⟩

theorem countK_cinc (ts dat st en : Array Int) (hm : st.size = en.size) (hc : Canon st en hm) (countin : Array Nat)
    (bs : Int) (hbs : 0 < bs) (k t : Nat) (out : Array (Int × Nat × Int))
    (hinv : (∃ b, CInc out b) ∧ ∀ hk : k < st.size, CInc out (2 * st[k]))
    (r : Array (Int × Nat × Int)) (hr : countK ts dat st en hm countin bs k t out = .ok r) : ∃ b, CInc r b := by
  induction hn : st.size - k generalizing k t out with
  | zero =>
    unfold countK at hr
    have : ¬ k < st.size := by omega
    simp only [dif_neg this] at hr
    cases hr; exact hinv.1
  | succ n ih =>
    have hk : k < st.size := by omega
    unfold countK at hr
    simp only [dif_pos hk, bind, Except.bind] at hr
    cases hc0 : rdN countin k with
    | error e => simp [hc0] at hr
    | ok ck =>
      simp only [hc0] at hr
      split at hr
      · rename_i hmax
        have hb := binLoop_cinc ts dat (t + ck) hmax (en[k]'(hm ▸ hk)) bs hbs (nbBins st[k] (en[k]'(hm ▸ hk)) bs) st[k] t out (hinv.2 hk)
        have hle := hc.1 k hk
        refine ih (k+1) (t + ck) _ ⟨⟨_, hb⟩, fun hk' => ?_⟩ hr (by omega)
        have hsep := hc.2 k hk'
        exact cinc_mono _ _ _ hb (by omega)
      · cases hr

theorem filter_range_window (n a b : Nat) (hab : a ≤ b) (hb : b ≤ n) :
    ((List.range n).filter fun k => decide (a ≤ k) && decide (k < b)) = (List.range (b - a)).map (a + ·) := by
  induction n generalizing b with
  | zero =>
    have : b = 0 := by omega
    subst this; simp
  | succ n ih =>
    rw [List.range_succ, List.filter_append]
    rcases Nat.eq_or_lt_of_le hb with e | e
    · subst e
      rcases Nat.eq_or_lt_of_le hab with e2 | e2
      · subst e2
        have : ((List.range n).filter fun k => decide (n + 1 ≤ k) && decide (k < n + 1)) = [] := by
          rw [List.filter_eq_nil_iff]; intro k hk; simp only [List.mem_range] at hk; simp
        rw [this]; simp
      · have e1 : ((List.range n).filter fun k => decide (a ≤ k) && decide (k < n + 1)) =
            ((List.range n).filter fun k => decide (a ≤ k) && decide (k < n)) := by
          apply List.filter_congr; intro k hk; simp only [List.mem_range] at hk
          simp [hk, Nat.lt_succ_of_lt hk]
        rw [e1, ih n (by omega) (Nat.le_refl _)]
        have han : a ≤ n := by omega
        have : n + 1 - a = (n - a) + 1 := by omega
        rw [this, List.range_succ, List.map_append]
        simp [han]
    · rw [ih b hab (by omega)]
      have : ¬ n < b := by omega
      simp [this]

theorem trialRow_toList (a len nt : Nat) (hl : len ≤ nt) (al : Bool) :
    (trialRow a len nt al).toList =
      if al then List.replicate (nt - len) none ++ (List.range len).map (fun j => some (a + j))
      else (List.range len).map (fun j => some (a + j)) ++ List.replicate (nt - len) none := by
  apply List.ext_getElem
  · cases al <;> simp [trialRow_size] <;> omega
  · intro j h1 h2
    have hj : j < nt := by simpa [trialRow_size] using h1
    rw [Array.getElem_toList, trialRow_get]
    cases al
    · simp only [Bool.false_eq_true, if_false]
      by_cases hjl : j < len
      · simp [hjl, List.getElem_append_left]
      · rw [List.getElem_append_right (by simpa using hjl)]
        simp [hjl]
    · simp only [if_true]
      by_cases hjl : nt - len ≤ j
      · rw [List.getElem_append_right (by simpa using hjl)]
        simp [hjl]
      · have : j < nt - len := by omega
        rw [List.getElem_append_left (by simpa using this)]
        simp [hjl]

theorem filterMap_replicate_none' {α} (n : Nat) : (List.replicate n (none : Option α)).filterMap id = [] := by
  induction n with
  | zero => rfl
  | succ n ih => simp [List.replicate_succ, ih]

theorem somes_filterMap {α} (l : List Nat) (g : Nat → α) :
    (l.map fun j => (some (g j) : Option α)).filterMap id = l.map g := by
  induction l with
  | nil => rfl
  | cons x xs ih => simp [ih]

theorem extract_left {α} (xs : List (Option α)) (n mx : Nat) (h : xs.length ≤ mx) :
    ((xs ++ List.replicate n none).extract 0 mx).filterMap id = xs.filterMap id := by
  rw [List.extract_eq_take_drop, List.drop_zero, Nat.sub_zero]
  have : List.take mx (xs ++ List.replicate n none) = xs ++ List.take (mx - xs.length) (List.replicate n none) := by
    rw [List.take_append]; rw [List.take_of_length_le h]
  rw [this, List.filterMap_append, List.take_replicate, filterMap_replicate_none']
  simp

theorem extract_right {α} (xs : List (Option α)) (p nt mx : Nat) (hnt : nt = p + xs.length) (h1 : xs.length ≤ mx) :
    ((List.replicate p none ++ xs).extract (nt - mx) nt).filterMap id = xs.filterMap id := by
  rw [List.extract_eq_take_drop]
  have hd : nt - mx ≤ (List.replicate p (none : Option α)).length := by simp; omega
  rw [List.drop_append_of_le_length hd, List.drop_replicate]
  have hlen : (List.replicate (p - (nt - mx)) (none : Option α) ++ xs).length ≤ nt - (nt - mx) := by simp; omega
  rw [List.take_of_length_le hlen, List.filterMap_append, filterMap_replicate_none']
  simp

/-- on strictly increasing centres, the window `[ssLeft cen lo, ssRight cen hi)` holds exactly the bins with centre in
`[lo, hi]` -/
theorem window_filter (cnt : Array (Int × Nat × Int))
    (hs : ∀ i j, (hi : i < cnt.size) → (hj : j < cnt.size) → i < j → cnt[i].1 < cnt[j].1)
    (lo hi : Int) (hlh : lo ≤ hi) :
    ssLeft (cnt.map (·.1)) lo 0 ≤ ssRight (cnt.map (·.1)) hi 0 ∧
    (cnt.toList.filter fun e => decide (lo ≤ e.1) && decide (e.1 ≤ hi)).map (·.2.1) =
      (List.range (ssRight (cnt.map (·.1)) hi 0 - ssLeft (cnt.map (·.1)) lo 0)).map
        fun j => (cnt.getD (ssLeft (cnt.map (·.1)) lo 0 + j) (0, 0, 0)).2.1 := by
  have hsorted : Sorted (cnt.map (·.1)) := by
    intro i j hi hj hij
    rcases Nat.eq_or_lt_of_le hij with e | e
    · subst e; exact Int.le_refl _
    · have := hs i j (by simpa using hi) (by simpa using hj) e
      simpa using Int.le_of_lt this
  generalize ha : ssLeft (cnt.map (·.1)) lo 0 = a at *
  generalize hb : ssRight (cnt.map (·.1)) hi 0 = b at *
  have hbn : b ≤ cnt.size := by
    have := (ssRight_bounds (cnt.map (·.1)) hi 0 (Nat.zero_le _)).2; rw [hb] at this; simpa using this
  have hab : a ≤ b := by
    rcases Nat.lt_or_ge b a with h | h
    · exfalso
      have hbn' : b < (cnt.map (·.1)).size := by
        have := (ssLeft_bounds (cnt.map (·.1)) lo 0 (Nat.zero_le _)).2; rw [ha] at this; omega
      have h1 := (ssLeft_spec (cnt.map (·.1)) lo 0 hsorted).1 b (Nat.zero_le _) (by rw [ha]; exact h) hbn'
      have h2 := (ssRight_spec (cnt.map (·.1)) hi 0 hsorted).2 b (by rw [hb]; exact Nat.le_refl _) hbn'
      omega
    · exact h
  -- right-hand side: the bins at positions a .. b-1
  have hR : (cnt.toList.filter fun e => decide (lo ≤ e.1) && decide (e.1 ≤ hi)).map (·.2.1) =
      (List.range (b - a)).map fun j => (cnt.getD (a + j) (0, 0, 0)).2.1 := by
    have e0 : cnt.toList = (List.range cnt.size).map fun k => cnt.getD k (0, 0, 0) := by
      apply List.ext_getElem
      · simp
      · intro k h1 h2; simp at h1 ⊢; simp [h1]
    rw [e0, List.filter_map, List.map_map]
    have e1 : ((List.range cnt.size).filter ((fun e : Int × Nat × Int => decide (lo ≤ e.1) && decide (e.1 ≤ hi)) ∘
        fun k => cnt.getD k (0, 0, 0))) = (List.range cnt.size).filter fun k => decide (a ≤ k) && decide (k < b) := by
      apply List.filter_congr
      intro k hk
      simp only [List.mem_range] at hk
      have hw := ss_closed_window (cnt.map (·.1)) lo hi hsorted k (by simpa using hk)
      rw [ha, hb] at hw
      simp only [Function.comp, Array.getD, hk, dif_pos]
      have e2 : (cnt.map (·.1))[k]'(by simpa using hk) = cnt[k].1 := by simp
      rw [e2] at hw
      by_cases hin : a ≤ k ∧ k < b
      · have := hw.1 hin; simp [hin.1, hin.2, this.1, this.2]
      · have hn : ¬ (lo ≤ cnt[k].1 ∧ cnt[k].1 ≤ hi) := fun h => hin (hw.2 h)
        by_cases h1 : a ≤ k
        · have h2 : ¬ k < b := fun h => hin ⟨h1, h⟩
          by_cases h3 : lo ≤ cnt[k].1
          · have : ¬ cnt[k].1 ≤ hi := fun h => hn ⟨h3, h⟩
            simp [h1, h2, h3, this]
          · simp [h1, h2, h3]
        · by_cases h3 : lo ≤ cnt[k].1
          · have : ¬ cnt[k].1 ≤ hi := fun h => hn ⟨h3, h⟩
            simp [h1, h3, this]
          · simp [h1, h3]
    rw [e1, filter_range_window cnt.size a b hab hbn, List.map_map]
    rfl
  exact ⟨hab, hR⟩

/-- the cells of one (trimmed) row of `trial_count`, read left to right without the padding, are the counts of exactly
the bins whose centre lies in `[lo, hi]`, in order -/
theorem row_somes (cnt : Array (Int × Nat × Int))
    (hs : ∀ i j, (hi : i < cnt.size) → (hj : j < cnt.size) → i < j → cnt[i].1 < cnt[j].1)
    (lo hi : Int) (hlh : lo ≤ hi) (nt mx : Nat) (al : Bool)
    (hlen : ssRight (cnt.map (·.1)) hi 0 - ssLeft (cnt.map (·.1)) lo 0 ≤ mx)
    (hfit : ssRight (cnt.map (·.1)) hi 0 - ssLeft (cnt.map (·.1)) lo 0 ≤ nt) :
    ((if al then
        ((trialRow (ssLeft (cnt.map (·.1)) lo 0) (ssRight (cnt.map (·.1)) hi 0 - ssLeft (cnt.map (·.1)) lo 0) nt al).map
          fun c => c.map fun k => (cnt.getD k (0, 0, 0)).2.1).extract (nt - mx) nt
      else
        ((trialRow (ssLeft (cnt.map (·.1)) lo 0) (ssRight (cnt.map (·.1)) hi 0 - ssLeft (cnt.map (·.1)) lo 0) nt al).map
          fun c => c.map fun k => (cnt.getD k (0, 0, 0)).2.1).extract 0 mx).toList.filterMap id) =
      (cnt.toList.filter fun e => decide (lo ≤ e.1) && decide (e.1 ≤ hi)).map (·.2.1) := by
  obtain ⟨hab, hR⟩ := window_filter cnt hs lo hi hlh
  generalize ha : ssLeft (cnt.map (·.1)) lo 0 = a at *
  generalize hb : ssRight (cnt.map (·.1)) hi 0 = b at *
  rw [hR]
  -- left-hand side
  have hlen' : b - a ≤ nt := hfit
  cases al
  · rw [if_neg (by decide)]
    rw [Array.toList_extract, Array.toList_map, trialRow_toList a (b - a) nt hlen' false]
    rw [if_neg (by decide)]
    rw [List.map_append, List.map_replicate, Option.map_none, List.map_map]
    refine (extract_left _ _ _ ?_).trans ?_
    · simp; omega
    · exact somes_filterMap _ _
  · rw [if_pos rfl]
    rw [Array.toList_extract, Array.toList_map, trialRow_toList a (b - a) nt hlen' true]
    rw [if_pos rfl]
    rw [List.map_append, List.map_replicate, Option.map_none, List.map_map]
    refine (extract_right _ (nt - (b - a)) nt mx ?_ ?_).trans ?_
    · simp; omega
    · simp; omega
    · exact somes_filterMap _ _

/-- the width `n_t = max ceil((end + bin − start) / bin)` the code preallocates -/
def tcWidth (st en : Array Int) (bs : Int) : Nat :=
  ((List.range st.size).map fun i => ((en[i]! + bs - st[i]! + bs - 1) / bs).toNat).foldl max 0

/-- **trial_count puts in row i exactly the binned counts of trial i, as given by count** (partial: under `hfit`).
For a canonical, non-empty trial set and any positive bin size: whenever `count(bin, ep)` returns `cnt` — it always
does, C15 `jitbin_safe` — `trial_count` returns one row per trial, and the cells of row `i`, read without the padding,
are the counts of exactly the bins of `cnt` whose centre lies in `[start_i, end_i]`, in order.  `hfit` — every trial's
bins fit into the preallocated width `n_t` — is the part NOT proved here (it is a statement about how many bins
`jitcount` emits per interval, decided by the cell-by-cell correspondence run); without it Python raises on the row
assignment. -/
theorem trialCount_rows_partial (ts st en : Array Int) (hm : st.size = en.size) (hc : Canon st en hm)
    (hne : 0 < st.size) (bs : Int) (hbs : 0 < bs) (al : Bool) (cnt : Array (Int × Nat × Int))
    (hcnt : jitbin ts (ts.map fun _ => 0) st en hm bs = .ok cnt)
    (hfit : ∀ i, i < st.size →
      ssRight (cnt.map (·.1)) (2 * en[i]!) 0 - ssLeft (cnt.map (·.1)) (2 * st[i]!) 0 ≤ tcWidth st en bs) :
    ∃ rows, trialCount ts st en hm bs al = .ok rows ∧ rows.length = st.size ∧
      ∀ i, (hi : i < st.size) → (hi2 : i < rows.length) →
        rows[i].toList.filterMap id =
          (cnt.toList.filter fun e => decide (2 * st[i] ≤ e.1) && decide (e.1 ≤ 2 * en[i]'(hm ▸ hi))).map (·.2.1) := by
  -- centres strictly increase
  have hinc : ∃ b, CInc cnt b := by
    unfold jitbin at hcnt
    exact countK_cinc _ _ st en hm hc _ bs hbs 0 0 #[] ⟨⟨0, cinc_empty 0⟩, fun hk => cinc_empty _⟩ cnt hcnt
  obtain ⟨_, hs, _⟩ := hinc
  unfold trialCount
  simp only [hcnt, bind, Except.bind]
  have hemp : ((List.range st.size).map fun i => (ssLeft (cnt.map (·.1)) (2 * st[i]!) 0, ssRight (cnt.map (·.1)) (2 * en[i]!) 0)).isEmpty = false := by
    cases hsz : st.size with
    | zero => omega
    | succ n => simp [List.range_succ]
  simp only [hemp, Bool.false_eq_true, if_false, pure, Except.pure]
  refine ⟨_, rfl, by simp, ?_⟩
  intro i hi hi2
  simp only [List.getElem_map, List.getElem_range]
  have hle := hc.1 i hi
  have e1 : st[i]! = st[i] := getElem!_pos st i hi
  have e2 : en[i]! = en[i]'(hm ▸ hi) := getElem!_pos en i (hm ▸ hi)
  have key := row_somes cnt hs (2 * st[i]!) (2 * en[i]!) (by rw [e1, e2]; omega) (tcWidth st en bs)
    (((List.range st.size).map fun i => (ssLeft (cnt.map (·.1)) (2 * st[i]!) 0, ssRight (cnt.map (·.1)) (2 * en[i]!) 0)).map
      (fun p => p.2 - p.1) |>.foldl max 0) al ?_ (hfit i hi)
  · have hR : (cnt.toList.filter fun e => decide (2 * st[i]! ≤ e.1) && decide (e.1 ≤ 2 * en[i]!)).map (·.2.1) =
        (cnt.toList.filter fun e => decide (2 * st[i] ≤ e.1) && decide (e.1 ≤ 2 * en[i]'(hm ▸ hi))).map (·.2.1) := by
      rw [e1, e2]
    refine Eq.trans ?_ (key.trans hR)
    cases al <;> rfl
  · apply le_foldl_max
    left
    simp only [List.mem_map, List.mem_range]
    exact ⟨_, ⟨i, hi, rfl⟩, rfl⟩


/-- number of entries whose centre lies in `[lo, hi]` -/
def cntIn (l : List (Int × Nat × Int)) (lo hi : Int) : Nat :=
  (l.filter fun e => decide (lo ≤ e.1) && decide (e.1 ≤ hi)).length

theorem cntIn_append (l1 l2 : List (Int × Nat × Int)) (lo hi : Int) :
    cntIn (l1 ++ l2) lo hi = cntIn l1 lo hi + cntIn l2 lo hi := by
  simp [cntIn, List.filter_append]

theorem cntIn_le_length (l : List (Int × Nat × Int)) (lo hi : Int) : cntIn l lo hi ≤ l.length :=
  List.length_filter_le _ _

theorem cntIn_zero_of (l : List (Int × Nat × Int)) (lo hi : Int) (h : ∀ e ∈ l, e.1 < lo ∨ hi < e.1) :
    cntIn l lo hi = 0 := by
  unfold cntIn
  rw [List.length_eq_zero_iff, List.filter_eq_nil_iff]
  intro e he
  rcases h e he with h' | h' <;> simp <;> omega

/-- what one epoch appends: at most `nb` entries, all with centre in `(2l, 2e]` -/
theorem binLoop_suffix (ts dat : Array Int) (maxt : Nat) (hm : maxt ≤ ts.size) (e bs : Int) (hbs : 0 < bs) (nb : Nat)
    (l : Int) (t : Nat) (out : Array (Int × Nat × Int)) :
    ∃ suf : List (Int × Nat × Int), (binLoop ts dat maxt hm e bs nb l t out).toList = out.toList ++ suf ∧
      suf.length ≤ nb ∧ ∀ x ∈ suf, 2 * l < x.1 ∧ x.1 ≤ 2 * e := by
  obtain ⟨c1, c2, c3, c4⟩ := binLoop_centres ts dat maxt hm e bs nb l t out
  refine ⟨(binLoop ts dat maxt hm e bs nb l t out).toList.drop out.size, ?_, ?_, ?_⟩
  · have : (binLoop ts dat maxt hm e bs nb l t out).toList.take out.size = out.toList := by
      apply List.ext_getElem
      · simp; omega
      · intro k h1 h2
        simp at h1 h2
        simp [List.getElem_take]
        exact c3 k (by omega) (by omega)
    conv => lhs; rw [← List.take_append_drop out.size (binLoop ts dat maxt hm e bs nb l t out).toList]
    rw [this]
  · simp; omega
  · intro x hx
    obtain ⟨k, hk, e1⟩ := List.mem_iff_getElem.1 hx
    simp at hk
    rw [List.getElem_drop] at e1
    have hk' : out.size + k < (binLoop ts dat maxt hm e bs nb l t out).size := by omega
    obtain ⟨f1, f2⟩ := c4 (out.size + k) (by omega) hk'
    have e2 : x.1 = (binLoop ts dat maxt hm e bs nb l t out)[out.size + k].1 := by
      rw [← e1]; simp
    rw [e2]
    refine ⟨?_, f2⟩
    rw [f1]
    have : (0 : Int) ≤ ((out.size + k - out.size : Nat) : Int) * bs :=
      Int.mul_nonneg (Int.natCast_nonneg _) (Int.le_of_lt hbs)
    omega

theorem countK_window (ts dat st en : Array Int) (hm : st.size = en.size) (hc : Canon st en hm) (countin : Array Nat)
    (bs : Int) (hbs : 0 < bs) (i : Nat) (hi : i < st.size) (k t : Nat) (out : Array (Int × Nat × Int))
    (r : Array (Int × Nat × Int)) (hr : countK ts dat st en hm countin bs k t out = .ok r) :
    cntIn r.toList (2 * st[i]) (2 * en[i]'(hm ▸ hi)) ≤
      cntIn out.toList (2 * st[i]) (2 * en[i]'(hm ▸ hi)) +
        (if k ≤ i then nbBins st[i] (en[i]'(hm ▸ hi)) bs else 0) := by
  induction hn : st.size - k generalizing k t out with
  | zero =>
    unfold countK at hr
    have : ¬ k < st.size := by omega
    simp only [dif_neg this] at hr
    cases hr; omega
  | succ n ih =>
    have hk : k < st.size := by omega
    unfold countK at hr
    simp only [dif_pos hk, bind, Except.bind] at hr
    cases hc0 : rdN countin k with
    | error e => simp [hc0] at hr
    | ok ck =>
      simp only [hc0] at hr
      split at hr
      · rename_i hmax
        obtain ⟨suf, e1, e2, e3⟩ := binLoop_suffix ts dat (t + ck) hmax (en[k]'(hm ▸ hk)) bs hbs
          (nbBins st[k] (en[k]'(hm ▸ hk)) bs) st[k] t out
        have hrec := ih (k+1) (t + ck) _ hr (by omega)
        rw [e1, cntIn_append] at hrec
        rcases Nat.lt_trichotomy k i with hlt | heq | hgt
        · have hz : cntIn suf (2 * st[i]) (2 * en[i]'(hm ▸ hi)) = 0 := by
            apply cntIn_zero_of
            intro x hx
            have := (e3 x hx).2
            have := canon_sep' st en hm hc k i hlt hi
            omega
          have h1 : k + 1 ≤ i := hlt
          have h2 : k ≤ i := by omega
          simp only [h1, h2, if_true] at hrec ⊢
          omega
        · subst heq
          have hle : cntIn suf (2 * st[k]) (2 * en[k]'(hm ▸ hk)) ≤ nbBins st[k] (en[k]'(hm ▸ hk)) bs :=
            Nat.le_trans (cntIn_le_length _ _ _) e2
          have h1 : ¬ k + 1 ≤ k := by omega
          simp only [h1, if_false, Nat.le_refl, if_true] at hrec ⊢
          omega
        · have hz : cntIn suf (2 * st[i]) (2 * en[i]'(hm ▸ hi)) = 0 := by
            apply cntIn_zero_of
            intro x hx
            have := (e3 x hx).1
            have := canon_sep' st en hm hc i k hgt hk
            omega
          have h1 : ¬ k + 1 ≤ i := by omega
          have h2 : ¬ k ≤ i := by omega
          simp only [h1, h2, if_false] at hrec ⊢
          omega
      · cases hr

theorem nbBins_le_width (st en : Array Int) (hm : st.size = en.size) (bs : Int) (hbs : 0 < bs) (i : Nat)
    (hi : i < st.size) (hle : st[i] ≤ en[i]'(hm ▸ hi)) :
    nbBins st[i] (en[i]'(hm ▸ hi)) bs ≤ tcWidth st en bs := by
  have h1 : nbBins st[i] (en[i]'(hm ▸ hi)) bs ≤ ((en[i]'(hm ▸ hi) + bs - st[i] + bs - 1) / bs).toNat := by
    unfold nbBins
    split
    · have e : en[i]'(hm ▸ hi) + bs - st[i] + bs - 1 = en[i]'(hm ▸ hi) + bs - st[i] + bs - 1 := rfl
      omega
    · have h2 : (1 : Int) ≤ (en[i]'(hm ▸ hi) + bs - st[i] + bs - 1) / bs := by
        have : bs * 1 ≤ en[i]'(hm ▸ hi) + bs - st[i] + bs - 1 := by omega
        exact (Int.le_ediv_iff_mul_le hbs).2 (by omega)
      omega
  apply Nat.le_trans h1
  unfold tcWidth
  apply le_foldl_max
  left
  simp only [List.mem_map, List.mem_range]
  refine ⟨i, hi, ?_⟩
  rw [getElem!_pos st i hi, getElem!_pos en i (hm ▸ hi)]


/-- **trial_count puts in row i exactly the binned counts of trial i, as given by count** — full statement: for a
canonical, non-empty trial set, any positive bin size and either alignment, whenever `count(bin, ep)` returns `cnt` (it
always does: C15 `jitbin_safe`), `trial_count` returns one row per trial and the cells of row `i`, read without the
padding, are the counts of exactly the bins of `cnt` whose centre lies in `[start_i, end_i]`, in order.  The width the
code preallocates always suffices (`countK_window`, `nbBins_le_width`: an interval never gets more bins than
`ceil((end + bin − start) / bin)`), so the row assignment never overflows. -/
theorem trialCount_rows (ts st en : Array Int) (hm : st.size = en.size) (hc : Canon st en hm)
    (hne : 0 < st.size) (bs : Int) (hbs : 0 < bs) (al : Bool) (cnt : Array (Int × Nat × Int))
    (hcnt : jitbin ts (ts.map fun _ => 0) st en hm bs = .ok cnt) :
    ∃ rows, trialCount ts st en hm bs al = .ok rows ∧ rows.length = st.size ∧
      ∀ i, (hi : i < st.size) → (hi2 : i < rows.length) →
        rows[i].toList.filterMap id =
          (cnt.toList.filter fun e => decide (2 * st[i] ≤ e.1) && decide (e.1 ≤ 2 * en[i]'(hm ▸ hi))).map (·.2.1) := by
  apply trialCount_rows_partial ts st en hm hc hne bs hbs al cnt hcnt
  intro i hi
  have hinc : ∃ b, CInc cnt b := by
    have h := hcnt
    unfold jitbin at h
    exact countK_cinc _ _ st en hm hc _ bs hbs 0 0 #[] ⟨⟨0, cinc_empty 0⟩, fun hk => cinc_empty _⟩ cnt h
  obtain ⟨_, hs, _⟩ := hinc
  have hle := hc.1 i hi
  have e1 : st[i]! = st[i] := getElem!_pos st i hi
  have e2 : en[i]! = en[i]'(hm ▸ hi) := getElem!_pos en i (hm ▸ hi)
  rw [e1, e2]
  obtain ⟨hab, hR⟩ := window_filter cnt hs (2 * st[i]) (2 * en[i]'(hm ▸ hi)) (by omega)
  have hsize : ssRight (cnt.map (·.1)) (2 * en[i]'(hm ▸ hi)) 0 - ssLeft (cnt.map (·.1)) (2 * st[i]) 0 =
      cntIn cnt.toList (2 * st[i]) (2 * en[i]'(hm ▸ hi)) := by
    have := congrArg List.length hR
    simp only [List.length_map, List.length_range] at this
    unfold cntIn
    omega
  rw [hsize]
  have hw : cntIn cnt.toList (2 * st[i]) (2 * en[i]'(hm ▸ hi)) ≤ nbBins st[i] (en[i]'(hm ▸ hi)) bs := by
    have h := hcnt
    unfold jitbin at h
    have := countK_window _ _ st en hm hc _ bs hbs i hi 0 0 #[] cnt h
    simpa [cntIn] using this
  exact Nat.le_trans hw (nbBins_le_width st en hm bs hbs i hi hle)


def okIs (r : Except SliceErr (Int × Int)) (a b : Int) : Bool :=
  match r with | .ok (x, y) => x == a && y == b | _ => false
-- an empty trial between two occupied ones, both alignments
def trialIs (r : Except SliceErr (List (Array (Option Nat)))) (rows : List (Array (Option Nat))) : Bool :=
  match r with | .ok x => x == rows | _ => false
example : trialIs (trialTensor #[0, 1, 2, 5] [(0, 2), (3, 4), (5, 9)] false) [#[some 0, some 1, some 2], #[none, none, none], #[some 3, none, none]] = true := by decide +kernel
example : trialIs (trialTensor #[0, 1, 2, 5] [(0, 2), (3, 4), (5, 9)] true) [#[some 0, some 1, some 2], #[none, none, none], #[none, none, some 3]] = true := by decide +kernel
-- the input that was wrong before the repair: duplicates equal to `end`
example : okIs (getSlice #[0, 1, 1, 2] 3 0 (some 1)) 0 3 = true := by decide +kernel
example : okIs (getSlice #[0, 1, 1, 2] 3 1 (some 1)) 1 3 = true := by decide +kernel
example : okIs (getSlice #[0, 1, 1, 2] 3 5 (some 6)) 4 4 = true := by decide +kernel     -- window after the data
example : okIs (getSlice #[0, 1, 1, 2] 3 (-5) (some (-1))) 0 0 = true := by decide +kernel -- window before the data
example : okIs (getSlice #[0, 10, 20] 2 14 none) 1 2 = true := by decide +kernel           -- nearest sample
example : okIs (getSlice #[0, 10, 20] 2 16 none) 2 3 = true := by decide +kernel

end Pyn.C08

import PynProofs.Search
import PynModel.Core.Slice
/-!
# C08 — time-window slicing and trial tensors select exactly the windowed samples
Model: `Pyn.getSlice` (`_Base._get_slice`, all four modes, Python negative-index wrap-around
included), over the `np.searchsorted` specification functions `ssLeft` / `ssRight`.

Proved: `get(start, end)` (mode `restrict`) returns exactly the samples with
`start ≤ t ≤ end`, duplicates at either edge included.  The nearest-sample form, the other three
modes and the trial-tensor / trial_count / warp layout are decided by oracle + correspondence.
-/
namespace Pyn.C08
open Pyn

/-- in `restrict` mode the slice is `[searchsorted(t, start, left), searchsorted(t, end, right))` -/
theorem getSlice_restrict_eq (t : Array Int) (s e : Int) (hse : s ≤ e) :
    getSlice t 3 s (some e) = .ok (((ssLeft t s 0 : Nat) : Int), ((ssRight t e 0 : Nat) : Int)) := by
  unfold getSlice
  have h0 : (0 : Int) ≤ ((ssLeft t s 0 : Nat) : Int) := Int.natCast_nonneg _
  have : ¬ (s > e) := by omega
  simp [this, Int.max_eq_right h0, pure, Except.pure]

/-- **get(start, end) selects exactly the windowed samples.**  For non-decreasing timestamps of any
length (duplicates at the window edges included) and `start ≤ end`, position `k` lies in the
returned slice iff `start ≤ t[k] ≤ end`. -/
theorem get_window (t : Array Int) (hs : Sorted t) (s e : Int) (hse : s ≤ e) (k : Nat) (hk : k < t.size) :
    ∃ a b, getSlice t 3 s (some e) = .ok (a, b) ∧ ((a ≤ (k : Int) ∧ (k : Int) < b) ↔ (s ≤ t[k] ∧ t[k] ≤ e)) := by
  refine ⟨_, _, getSlice_restrict_eq t s e hse, ?_⟩
  rw [← ss_closed_window t s e hs k hk]
  constructor <;> (rintro ⟨a, b⟩; constructor <;> omega)

/-- `start > end` is rejected (ValueError), never answered with a slice -/
theorem get_rejects_inverted (t : Array Int) (s e : Int) (hse : e < s) :
    getSlice t 3 s (some e) = .error .value := by
  unfold getSlice
  have : s > e := hse
  simp [this, pure, Except.pure, bind, Except.bind]
  split
  · rename_i h; simp [throw, throwThe, MonadExceptOf.throw] at h; rw [h]
  · rename_i h; simp [throw, throwThe, MonadExceptOf.throw] at h

def okIs (r : Except SliceErr (Int × Int)) (a b : Int) : Bool :=
  match r with | .ok (x, y) => x == a && y == b | _ => false
-- the input that was wrong before the repair: duplicates equal to `end`
example : okIs (getSlice #[0, 1, 1, 2] 3 0 (some 1)) 0 3 = true := by decide +kernel
example : okIs (getSlice #[0, 1, 1, 2] 3 1 (some 1)) 1 3 = true := by decide +kernel
example : okIs (getSlice #[0, 1, 1, 2] 3 5 (some 6)) 4 4 = true := by decide +kernel     -- window after the data
example : okIs (getSlice #[0, 1, 1, 2] 3 (-5) (some (-1))) 0 0 = true := by decide +kernel -- window before the data
example : okIs (getSlice #[0, 10, 20] 2 14 none) 1 2 = true := by decide +kernel           -- nearest sample
example : okIs (getSlice #[0, 10, 20] 2 16 none) 2 3 = true := by decide +kernel

end Pyn.C08

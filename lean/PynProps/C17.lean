import PynModel.Process.Tuning
import PynProofs.Search
import Mathlib.Tactic.Ring
import Mathlib.Tactic.FieldSimp
import Mathlib.Tactic.Linarith
import Mathlib.Algebra.Order.Field.Rat
import Mathlib.Algebra.Order.Field.Basic
import Mathlib.Algebra.BigOperators.Group.List.Basic
import Mathlib.Tactic.NormNum
/-!
# C17 — tuning curves are spikes per occupancy; decoding is their Bayes posterior

Counting part (exact): `Pyn.histIdx` / `histCounts` = `np.histogram`'s binning rule.  Proved for any
number of bins, any strictly increasing edges, any values: the rule itself (`histIdx_spec`: half-open
bins, last bin closed, a value on an interior edge goes right, never two bins) and the **conservation
law** (`hist_conservation`: bin counts sum to the number of values inside the binned range — spikes in
= Σ rate × occupancy / sampling rate).  Decoding: the code's final normalisation yields a distribution
(`posterior_normalised`), keeps the ratios of prior × exp(−Δ Σ rates) × Π rate^count
(`posterior_proportional`) and the arg-max (`posterior_order`).  Which feature sample a spike is paired
with is C06 (`value_from`, same epoch); the float evaluation of exp / power and NumPy's float bin
edges are outside the model and compared by the oracle run (exactly where inputs are dyadic, within
1e-9 for the posterior).
-/
namespace Pyn.C17
open Pyn


theorem strict_sorted (a : Array Int) (h : StrictSorted a) : Sorted a := by
  intro i j hi hj hij
  rcases Nat.lt_or_eq_of_le hij with hlt | heq
  · exact Int.le_of_lt (h i j hi hj hlt)
  · subst heq; exact Int.le_refl _

/-- **NumPy's binning rule.**  For strictly increasing edges, a value is assigned bin `b` iff
`b` is a bin, `e_b ≤ v`, and `v < e_{b+1}` — or `v = e_{b+1}` for the last bin (closed on the right).
In particular a value on an interior edge belongs to the bin on its right, and no value is ever
assigned two bins. -/
theorem histIdx_spec (edges : Array Int) (hs : StrictSorted edges) (v : Int) (b : Nat) :
    histIdx edges v = some b ↔
      ∃ hb : b + 1 < edges.size, edges[b] ≤ v ∧ (v < edges[b+1] ∨ (b + 2 = edges.size ∧ v = edges[b+1])) := by
  have hss := strict_sorted edges hs
  unfold histIdx
  by_cases h2 : edges.size < 2
  · simp [h2]; intro hb; omega
  · have hn : 2 ≤ edges.size := by omega
    have e0 : edges[0]! = edges[0] := getElem!_pos _ 0 (by omega)
    have el : edges[edges.size - 1]! = edges[edges.size - 1] := getElem!_pos _ _ (by omega)
    simp only [h2, if_false, e0, el]
    by_cases hout : v < edges[0] ∨ edges[edges.size - 1] < v
    · simp only [hout, if_true]
      constructor
      · intro h; cases h
      · rintro ⟨hb, h1, h3⟩
        exfalso
        rcases hout with ho | ho
        · have := hss 0 b (by omega) (by omega) (Nat.zero_le _); omega
        · have := hss (b+1) (edges.size - 1) hb (by omega) (by omega)
          rcases h3 with h3 | ⟨_, h3⟩ <;> omega
    · simp only [hout, if_false]
      have hlo : edges[0] ≤ v := by omega
      have hhi : v ≤ edges[edges.size - 1] := by omega
      by_cases hlast : v = edges[edges.size - 1]
      · simp only [hlast, if_true, Option.some.injEq]
        constructor
        · intro h; subst h
          refine ⟨by omega, ?_, Or.inr ⟨by omega, ?_⟩⟩
          · have := hss (edges.size - 2) (edges.size - 1) (by omega) (by omega) (by omega); omega
          · congr 1; omega
        · rintro ⟨hb, h1, h3⟩
          rcases h3 with h3 | ⟨h3, _⟩
          · have := hss (b+1) (edges.size - 1) hb (by omega) (by omega); omega
          · omega
      · simp only [hlast, if_false, Option.some.injEq]
        have hsp := ssRight_spec edges v 0 hss
        have hbd := ssRight_bounds edges v 0 (Nat.zero_le _)
        have hpos : 0 < ssRight edges v 0 := by
          rcases Nat.eq_zero_or_pos (ssRight edges v 0) with hz | hz
          · have := hsp.2 0 (by omega) (by omega); omega
          · exact hz
        have hlt : ssRight edges v 0 < edges.size := by
          rcases Nat.lt_or_ge (ssRight edges v 0) edges.size with hz | hz
          · exact hz
          · have := hsp.1 (edges.size - 1) (Nat.zero_le _) (by omega) (by omega); omega
        constructor
        · intro h
          have hb : b + 1 < edges.size := by omega
          refine ⟨hb, ?_, Or.inl ?_⟩
          · exact hsp.1 b (Nat.zero_le _) (by omega) (by omega)
          · have := hsp.2 (b+1) (by omega) hb; omega
        · rintro ⟨hb, h1, h3⟩
          have hv : v < edges[b+1] := by
            rcases h3 with h3 | ⟨h3, h4⟩
            · exact h3
            · exfalso; apply hlast; rw [h4]; congr 1; omega
          -- ssRight = b + 1
          have h5 : ¬ (ssRight edges v 0 ≤ b) := by
            intro hc
            have := hsp.2 b hc (by omega); omega
          have h6 : ¬ (b + 1 < ssRight edges v 0) := by
            intro hc
            have := hsp.1 (b+1) (Nat.zero_le _) hc hb; omega
          omega


theorem map_zero_sum (l : List Nat) : (l.map fun _ => 0).sum = 0 := by
  induction l with
  | nil => rfl
  | cons a t ih => simp [ih]

theorem indicator_sum (b0 n : Nat) : ((List.range n).map fun b => if b0 = b then 1 else 0).sum = if b0 < n then 1 else 0 := by
  induction n with
  | zero => simp
  | succ n ih =>
    rw [List.range_succ, List.map_append, List.sum_append, ih]
    by_cases h1 : b0 < n
    · have : ¬ b0 = n := by omega
      have h2 : b0 < n + 1 := by omega
      simp [h1, this, h2]
    · by_cases h2 : b0 = n
      · subst h2; simp
      · have h3 : ¬ b0 < n + 1 := by omega
        simp [h1, h2, h3]

theorem map_add_sum (g h : Nat → Nat) (l : List Nat) : (l.map fun b => g b + h b).sum = (l.map g).sum + (l.map h).sum := by
  induction l with
  | nil => simp
  | cons a t iht => simp only [List.map_cons, List.sum_cons, iht]; omega

/-- partition lemma: classes indexed by `f v = some b`, `b < nb`, cover exactly the values with `f v` defined -/
theorem classes_sum (f : Int → Option Nat) (nb : Nat) (vals : List Int) (hb : ∀ v b, f v = some b → b < nb) :
    ((List.range nb).map fun b => (vals.filter fun v => f v == some b).length).sum =
      (vals.filter fun v => (f v).isSome).length := by
  induction vals with
  | nil => simp [map_zero_sum]
  | cons v rest ih =>
    have hsplit : ∀ b, ((v :: rest).filter fun v => f v == some b).length =
        (if f v = some b then 1 else 0) + (rest.filter fun v => f v == some b).length := by
      intro b; simp only [List.filter_cons, beq_iff_eq]; split <;> simp <;> omega
    simp only [hsplit]
    rw [map_add_sum, ih]
    have hone : ((List.range nb).map fun b => if f v = some b then 1 else 0).sum = if (f v).isSome then 1 else 0 := by
      cases hf : f v with
      | none => simp [map_zero_sum]
      | some b0 =>
        have hb0 := hb v b0 hf
        simp only [Option.some.injEq, Option.isSome_some, if_true]
        rw [indicator_sum]; simp [hb0]
    rw [hone]
    simp only [List.filter_cons]
    split <;> simp <;> omega

/-- **conservation**: the bin counts of a histogram sum to the number of values inside
`[e_0, e_last]` — every such value is counted exactly once, values on interior edges included.  For a
tuning curve: Σ_bins (rate_b · occupancy_b / sampling rate) = number of spikes whose feature value
lies inside the binned range. -/
theorem hist_conservation (edges : Array Int) (hs : StrictSorted edges) (vals : List Int) :
    (histCounts edges vals).sum = inRangeCount edges vals := by
  unfold histCounts inRangeCount
  apply classes_sum
  intro v b h
  obtain ⟨hb, _, _⟩ := (histIdx_spec edges hs v b).mp h
  omega

/-- a value inside the range is counted (not lost): `histIdx` is defined exactly on `[e_0, e_last]` -/
theorem histIdx_defined (edges : Array Int) (hn : 2 ≤ edges.size) (v : Int) :
    (histIdx edges v).isSome ↔ edges[0]! ≤ v ∧ v ≤ edges[edges.size - 1]! := by
  unfold histIdx
  have : ¬ edges.size < 2 := by omega
  simp only [this, if_false]
  by_cases hout : v < edges[0]! ∨ edges[edges.size - 1]! < v
  · simp only [hout, if_true]; simp; omega
  · simp only [hout, if_false]
    split <;> simp <;> omega


/-- the code's last step: `p = p / p.sum(1)` -/
def normalise (w : List ℚ) : List ℚ := w.map (· / w.sum)

theorem sum_map_div (w : List ℚ) (s : ℚ) : (w.map (· / s)).sum = w.sum / s := by
  induction w with
  | nil => simp
  | cons a t ih => simp only [List.map_cons, List.sum_cons, ih]; ring

/-- **the posterior is normalised**: whenever the unnormalised weights do not sum to zero -/
theorem posterior_normalised (w : List ℚ) (h : w.sum ≠ 0) : (normalise w).sum = 1 := by
  unfold normalise
  rw [sum_map_div, div_self h]

/-- **… and proportional to the weights** prior × exp(−Δ·Σrates) × Π rate^count: ratios are kept -/
theorem posterior_proportional (w : List ℚ) (i j : Nat) (hi : i < w.length) (hj : j < w.length) (h : w.sum ≠ 0) :
    (normalise w)[i]'(by simpa [normalise] using hi) * w[j] = (normalise w)[j]'(by simpa [normalise] using hj) * w[i] := by
  simp only [normalise, List.getElem_map]
  field_simp

/-- **the decoded bin** (argmax of the posterior) is the argmax of the weights: normalising by a
positive sum preserves the order -/
theorem posterior_order (w : List ℚ) (i j : Nat) (hi : i < w.length) (hj : j < w.length) (h : 0 < w.sum) :
    (normalise w)[i]'(by simpa [normalise] using hi) ≤ (normalise w)[j]'(by simpa [normalise] using hj) ↔ w[i] ≤ w[j] := by
  simp only [normalise, List.getElem_map]
  exact div_le_div_iff_of_pos_right h


/-! ### each unit is paired with ITS OWN tuning curve, in whatever order the units are given
The weight of a feature bin depends on the units only through the pairs (rate of the unit in this bin, count of the unit in this time bin):
`Σ rate` and `Π rate^count`.  Both are invariant under any re-ordering of the PAIRS (a dict group with keys inserted in any order, columns in any
order) — and not under re-ordering one side only. -/
def likelihood (units : List (ℚ × ℕ)) : ℚ := (units.map fun u => u.1 ^ u.2).prod
def rateSum (units : List (ℚ × ℕ)) : ℚ := (units.map (·.1)).sum

theorem likelihood_perm {u v : List (ℚ × ℕ)} (h : u.Perm v) : likelihood u = likelihood v :=
  (h.map _).prod_eq

theorem rateSum_perm {u v : List (ℚ × ℕ)} (h : u.Perm v) : rateSum u = rateSum v :=
  (h.map _).sum_eq

/-- pairing the counts of one unit with the tuning curve of another changes the weight: the hypothesis "pairs" is necessary -/
theorem mispairing_witness :
    likelihood (List.zip [2, 3] [1, 0]) ≠ likelihood (List.zip [2, 3] [0, 1]) := by
  norm_num [likelihood]


/-! ### non-vacuity -/
example : histCounts #[0, 10, 20, 30] [0, 5, 10, 10, 29, 30, 31, -1] = [2, 2, 2] := by decide +kernel
example : inRangeCount #[0, 10, 20, 30] [0, 5, 10, 10, 29, 30, 31, -1] = 6 := by decide +kernel
example : normalise [1, 3, 4] = [1/8, 3/8, 1/2] := by norm_num [normalise]

end Pyn.C17

import PynModel.Core.Frame
import PynGen.InplaceSites
/-!
# C10 — operations never modify their arguments; containers reject in-place writes

Four parts (the fourth, `frozen_history`, needs no assumption on the operations: frozen buffers are unchanged after any history of arbitrary writes).
1. **Frame theorem** on the effect model (`PynModel/Core/Frame.lean`): if every write of every
   operation targets a buffer allocated inside that operation, then after ANY history every buffer
   that existed before is unchanged (`frame_history`, induction over the history).
2. **Translator**: the list of syntactic in-place write sites of `pynapple/core` and
   `pynapple/process` (167 on the pinned tree; subscript / augmented / attribute assignments, in-place methods, `out=`, `inplace=True`) is regenerated from the source on every run
   (`tools/extract_inplace_sites.py` → `PynGen/InplaceSites.lean`), each with the root name of the
   written object and how that root is bound in its function.  `sites_classified` (`decide`): every
   site writes through a root bound by an allocator / literal / arithmetic in the same function
   (`fresh`) or a loop counter (`scalar`), or is one of the hand-justified sites of `whitelist` below.
   A new write through a parameter, `self`, a view or an attribute fails the theorem.
3. The dynamic frame check of the harness (deep snapshots of every live object around every public
   call in random histories, aliasing included; attempted writes through every container entry must
   raise) ties the effect table to the running code and is the failing-input search.
-/
namespace Pyn.C10
open Pyn
open Pyn.Gen

theorem write_other (h : Heap) (w : Nat × Int) (i : Nat) (hi : i ≠ w.1) : (h.write w).cell i = h.cell i := by
  simp [Heap.write, hi]

theorem write_next (h : Heap) (w : Nat × Int) : (h.write w).next = h.next := rfl

theorem writes_frame (ws : List (Nat × Int)) (h : Heap) (i : Nat) (hi : ∀ w ∈ ws, w.1 ≠ i) :
    (ws.foldl Heap.write h).cell i = h.cell i ∧ (ws.foldl Heap.write h).next = h.next := by
  induction ws generalizing h with
  | nil => exact ⟨rfl, rfl⟩
  | cons w rest ih =>
    simp only [List.foldl_cons]
    have := ih (h.write w) (fun w' hw' => hi w' (by simp [hw']))
    rw [this.1, this.2, write_next, write_other h w i (fun e => hi w (by simp) e.symm)]
    exact ⟨rfl, rfl⟩

/-- **one operation**: writes confined to its own allocations leave every older buffer untouched -/
theorem frame_step (h : Heap) (e : Effect) (hl : e.Local h.next) (i : Nat) (hi : i < h.next) :
    (h.apply e).cell i = h.cell i ∧ (h.apply e).next = h.next + e.allocs := by
  unfold Heap.apply
  have := writes_frame e.writes { h with next := h.next + e.allocs } i
    (fun w hw => by have := (hl w hw).1; omega)
  exact ⟨this.1, this.2⟩

/-- all operations of a history are local w.r.t. the allocation counter at their own time -/
def LocalHistory : Heap → List Effect → Prop
  | _, [] => True
  | h, e :: es => e.Local h.next ∧ LocalHistory (h.apply e) es

/-- **frame theorem for histories**: after any finite sequence of local operations — results of
earlier operations being arguments of later ones, so aliasing among results is covered — every buffer
that existed at the start still has its original content -/
theorem frame_history (h : Heap) (es : List Effect) (hl : LocalHistory h es) (i : Nat) (hi : i < h.next) :
    (h.run es).cell i = h.cell i := by
  unfold Heap.run
  induction es generalizing h with
  | nil => rfl
  | cons e es ih =>
    obtain ⟨h1, h2⟩ := hl
    obtain ⟨s1, s2⟩ := frame_step h e h1 i hi
    simp only [List.foldl_cons]
    rw [ih (h.apply e) h2 (by rw [s2]; omega), s1]

/-- a non-local write is visible: the hypothesis of the frame theorem is necessary -/
theorem nonlocal_write_witness :
    let h : Heap := ⟨1, fun i => if i = 0 then some 7 else none⟩
    (h.apply ⟨0, [(0, 9)]⟩).cell 0 = some 9 := by decide

/-! ## frozen buffers: no hypothesis on the operations at all -/
theorem fwrite_frozen (h h' : FHeap) (w : Nat × Int) (hw : h.write w = some h') :
    h'.frozen = h.frozen ∧ ∀ i, h.frozen i = true → h'.heap.cell i = h.heap.cell i := by
  unfold FHeap.write at hw
  split at hw
  · cases hw
  · rename_i hf
    cases hw
    refine ⟨rfl, fun i hi => ?_⟩
    have : i ≠ w.1 := fun e => by rw [e] at hi; exact hf hi
    simp [Heap.write, this]

/-- one operation — any sequence of attempted writes, through any alias — leaves every frozen buffer as it was, and frozen -/
theorem attempt_frozen (ws : List (Nat × Int)) (h : FHeap) :
    (h.attempt ws).frozen = h.frozen ∧ ∀ i, h.frozen i = true → (h.attempt ws).heap.cell i = h.heap.cell i := by
  induction ws generalizing h with
  | nil => exact ⟨rfl, fun _ _ => rfl⟩
  | cons w ws ih =>
    unfold FHeap.attempt
    cases hw : h.write w with
    | none => exact ⟨rfl, fun _ _ => rfl⟩
    | some h' =>
      obtain ⟨f1, c1⟩ := fwrite_frozen h h' w hw
      obtain ⟨f2, c2⟩ := ih h'
      exact ⟨by rw [f2, f1], fun i hi => by rw [c2 i (by rw [f1]; exact hi), c1 i hi]⟩

/-- **frame theorem for frozen buffers**: after ANY history of ANY operations (no locality assumption: user code writing through `ep.start`,
`ep[:, 0]`, `ts.t`, augmented assignments, `out=` arguments) the start/end array of every IntervalSet and every time index is unchanged -/
theorem frozen_history (ops : List (List (Nat × Int))) (h : FHeap) (i : Nat) (hi : h.frozen i = true) :
    (h.run ops).heap.cell i = h.heap.cell i ∧ (h.run ops).frozen i = true := by
  unfold FHeap.run
  induction ops generalizing h with
  | nil => exact ⟨rfl, hi⟩
  | cons o os ih =>
    simp only [List.foldl_cons]
    obtain ⟨f1, c1⟩ := attempt_frozen o h
    obtain ⟨a, b⟩ := ih (h.attempt o) (by rw [f1]; exact hi)
    exact ⟨by rw [a, c1 i hi], b⟩

/-- the write that used to corrupt a live IntervalSet (`ep[:, 0] += 7` on `[[0,5],[10,20]]`) is refused and stores nothing;
on an unfrozen buffer the same write goes through (`nonlocal_write_witness`) -/
theorem frozen_write_refused :
    let h : FHeap := ⟨⟨1, fun i => if i = 0 then some 0 else none⟩, fun i => i == 0⟩
    (h.attempt [(0, 7)]).heap.cell 0 = some 0 ∧ h.write (0, 7) = none := by
  constructor <;> rfl

/-! ## the write sites of the library -/

/-- hand-justified sites: (function, root) — with the reason each write cannot reach a caller's object -/
def whitelist : List (String × String) := [
  -- rebound to the fresh result of `jitremove_nan` in the same branch before `ends[to_fix] += 1e-6`
  ("_core_functions:_dropna", "ends"),
  -- float scalars taken from arrays / returned by kernels; `x += …` rebinds an immutable number
  ("_process_functions:_jitperievent_trigger_average", "i_start"),
  ("_process_functions:_jitperievent_trigger_average", "i_stop"),
  -- fresh array returned by the correlogram kernel
  ("correlograms:compute_crosscorrelogram", "auc"),
  -- `np.zeros_like(data.d)` / result of the jax routine: fresh in both branches
  ("filtering:_compute_butterworth_filter", "out"),
  -- every caller passes `kernel.flatten()`, `np.sum(kernel, …)` or a column of the kernel built in
  -- `_get_windowed_sinc_kernel` from scalars: never a caller-supplied array
  ("filtering:_compute_spectral_inversion", "kernel"),
  ("filtering:_get_windowed_sinc_kernel", "kernel"),
  -- constructors initialising their own object
  ("interval_set:IntervalSet.__init__", "self.__dict__"),
  -- `self.values.flags.writeable = False` (`fix:` of the in-place writes through `ep.start`, `ep[:, 0]`, …): freezes the array
  -- returned by `_jitfix_iset` in this very constructor; `obj.flags.writeable = False` freezes the view of `t.astype(np.float64)`,
  -- a copy made two lines above.  Neither changes a value, neither reaches a caller's array
  ("interval_set:IntervalSet.__init__", "self.values"),
  ("time_index:TsIndex.__new__", "obj"),
  -- the key array of a TsGroup (`np.sort(keys)`: a fresh array) and the row-label / column-name arrays of an IntervalSet (`np.arange`, `np.array([...])`)
  -- are frozen on the line after they are created (`fix:` of `g.index[0] = 99`)
  ("ts_group:TsGroup.__init__", "self.index"),
  ("interval_set:IntervalSet.__init__", "self.index"),
  ("interval_set:IntervalSet.__init__", "self.columns"),
  ("ts_group:TsGroup.__init__", "self.__dict__"),
  -- `data` is rebound to a new dict (`dict(enumerate(data))` / `{keys[j]: data[k] …}`) before the write
  ("ts_group:TsGroup.__init__", "data"),
  -- the sanctioned mutations: metadata through set_info / item assignment, on the object addressed
  ("metadata_class:_MetadataMixin.set_info", "self._metadata"),
  ("ts_group:TsGroup.__setitem__", "self._metadata"),
  -- dict literals filled in a loop, then wrapped in a new TsGroup
  ("perievent:_align_tsd", "group"),
  ("randomize:_jitter_tsgroup", "jittered_tsgroup"),
  -- `**kwargs` dictionaries: fresh per call
  ("time_series:TsdFrame.__getitem__", "kwargs"),
  ("utils:_concatenate_tsd", "kwargs"),
  -- `np.ones(...) * padding` / `np.full(...)`: fresh, later only re-bound to `np.moveaxis` of itself
  ("time_series:_BaseTsd.to_trial_tensor", "output"),
  ("warping:_warp_tensor_from_tsd", "output"),
  -- `np.log2(...)` results
  ("tuning_curves:compute_1d_mutual_info", "logfx"),
  ("tuning_curves:compute_2d_mutual_info", "logfx"),
  -- decorator applied at import time: sets `__doc__` of the function object being defined, not of a data object
  ("metadata_class:add_meta_docstring._decorator", "func"),
  -- `array = array.flatten()` (a copy) precedes the element writes
  ("utils:_convert_iter_to_str", "array")
]

def siteOK (s : String × String × String × String) : Bool :=
  s.2.2.2 == "fresh" || s.2.2.2 == "scalar" || whitelist.contains (s.1, s.2.2.1)

/-- **every in-place write of the library is classified**: it goes through a root allocated in the
same function, or is one of the justified sites -/
theorem sites_classified : inplaceSites.all siteOK = true := by decide +kernel

/-- the whitelist has no stale entries: each names a site that exists in the current source -/
theorem whitelist_is_live :
    (whitelist.all fun w => inplaceSites.any fun s => s.1 == w.1 && s.2.2.1 == w.2) = true := by decide +kernel

end Pyn.C10

import PynProofs.SetOps
import PynProofs.Diff
import PynProofs.Union
import PynProofs.Endpoints
import PynProps.C01
import PynModel.Core.ISet
/-!
# C02 — union / intersect / set_diff are the Boolean set operations on the time line

Model: `Pyn.jitintersect`, `Pyn.jitunion`, `Pyn.jitdiff`, `Pyn.jitunionIsets` (index-level
transliterations, all reads `a[i]'h`), public operations = constructor ∘ kernel (`Pyn.ISet.*`).

Proved here (all sizes, all coincidence patterns):
* **intersect, exactly**: every interval the sweep emits is `A[i] ∩ B[j]` for the parent indices it records,
  with positive length (`intersect_entries / _sound / _positive`, no hypothesis); for canonical operands every
  pair of intervals overlapping with positive length IS emitted (`intersect_pairs_complete`), hence
  `intersect_complete` and the C02 clause `intersect_pointwise`: for x not an endpoint of A,
  x ∈ A.intersect(B) ⇔ x ∈ A ∧ x ∈ B;
* **set_diff, exactly**: every emitted piece lies inside the interval of A recorded as its parent
  (`diff_entries`, `diff_subset`); every instant of A outside B is in a piece (`diff_complete`, no
  hypothesis on the operands); for canonical operands every piece lies between intervals of B
  (`diff_between`, `diff_avoids`); together the C02 clause `diff_pointwise`: for x not an endpoint of B,
  x ∈ A.set_diff(B) ⇔ x ∈ A ∧ x ∉ B;
* **union, exactly**: the binary `jitunion` (skip / chain-merging / tails) pointwise for canonical operands —
  `union_pointwise`: x in an emitted interval ⇔ x ∈ A ∨ x ∈ B (`PynProofs/Union.lean`: `unionSkip_spec`,
  `unionChain_spec`, `jitunionLoop_spec`, `emitRest_spec`); corollaries `union_comm_pointwise`,
  `union_idem_pointwise`; the **n-ary union** kernel `jitunion_isets` pointwise and exactly (`unionIsets_mem`).
* **the public operations** (`ISet.union/intersect/diff` = constructor ∘ kernel, the functions the driver runs):
  every endpoint of a kernel output is an endpoint of an operand and no emitted interval is inverted
  (`PynProofs/Endpoints.lean`), so with C01's `mk_sound / mk_complete` the C02 clause holds end to end —
  `ISet_union_pointwise`, `ISet_intersect_pointwise`, `ISet_diff_pointwise`: for canonical A, B and every instant
  farther than 1 µs from every endpoint of A and B, membership in the result is `∨`, `∧`, `∧ ¬`; corollaries
  `ISet_union_comm`, `ISet_intersect_comm`.
Outside the theorems: the duration identities (decided by the exhaustive order-type correspondence + oracle).
-/
namespace Pyn.C02
open Pyn Pyn.C01

/-- **intersect, soundness and parents.**  For any two interval arrays (no hypothesis), the k-th
emitted interval is `[max(s1[i], s2[j]), min(e1[i], e2[j])]` for its recorded parents `(i, j)`,
those parents overlap with positive length, and the three output arrays have equal length. -/
theorem intersect_entries (s1 e1 s2 e2 : Array Int) (h1 : s1.size = e1.size) (h2 : s2.size = e2.size) :
    IOutOK s1 e1 s2 e2 h1 h2 (jitintersect s1 e1 s2 e2 h1 h2) :=
  jitintersectLoop_ok s1 e1 s2 e2 h1 h2 0 0 {} ⟨rfl, rfl, fun k hk => by simp at hk⟩

/-- **intersect ⊆ A ∧ B, pointwise.**  Every instant of an emitted interval lies in an interval of
A and in an interval of B; when the operands have `s ≤ e` the emitted interval has `start < end`. -/
theorem intersect_sound (s1 e1 s2 e2 : Array Int) (h1 : s1.size = e1.size) (h2 : s2.size = e2.size)
    (k : Nat) (hk : k < (jitintersect s1 e1 s2 e2 h1 h2).st.size) (x : Int)
    (hx1 : (jitintersect s1 e1 s2 e2 h1 h2).st[k] ≤ x)
    (hx2 : x ≤ (jitintersect s1 e1 s2 e2 h1 h2).en[k]'((intersect_entries s1 e1 s2 e2 h1 h2).1 ▸ hk)) :
    InIv s1 e1 h1 x ∧ InIv s2 e2 h2 x := by
  obtain ⟨ha, hb, hc⟩ := intersect_entries s1 e1 s2 e2 h1 h2
  obtain ⟨hi, hj, hs, he, _, _⟩ := hc k hk (ha ▸ hk) (hb ▸ hk)
  rw [hs] at hx1; rw [he] at hx2
  exact ⟨⟨_, hi, by omega, by omega⟩, ⟨_, hj, by omega, by omega⟩⟩

theorem intersect_positive (s1 e1 s2 e2 : Array Int) (h1 : s1.size = e1.size) (h2 : s2.size = e2.size)
    (hc1 : ∀ i, (h : i < s1.size) → s1[i] < e1[i]'(h1 ▸ h)) (hc2 : ∀ j, (h : j < s2.size) → s2[j] < e2[j]'(h2 ▸ h))
    (k : Nat) (hk : k < (jitintersect s1 e1 s2 e2 h1 h2).st.size) :
    (jitintersect s1 e1 s2 e2 h1 h2).st[k] <
      (jitintersect s1 e1 s2 e2 h1 h2).en[k]'((intersect_entries s1 e1 s2 e2 h1 h2).1 ▸ hk) := by
  obtain ⟨ha, hb, hc⟩ := intersect_entries s1 e1 s2 e2 h1 h2
  obtain ⟨hi, hj, hs, he, h3, h4⟩ := hc k hk (ha ▸ hk) (hb ▸ hk)
  rw [hs, he]
  have := hc1 _ hi; have := hc2 _ hj
  omega

/-- **intersect, completeness on pairs**: for canonical A and B, every pair of intervals overlapping with
positive length is emitted (with both parents recorded) -/
theorem intersect_pairs_complete (s1 e1 s2 e2 : Array Int) (h1 : s1.size = e1.size) (h2 : s2.size = e2.size)
    (hcA : Canon s1 e1 h1) (hcB : Canon s2 e2 h2) (a b : Nat) (hab : Ovl s1 e1 s2 e2 h1 h2 a b) :
    (a, b) ∈ (jitintersect s1 e1 s2 e2 h1 h2).par :=
  jitintersectLoop_complete s1 e1 s2 e2 h1 h2 hcA hcB 0 0 {} (fun _ _ _ h => by omega) a b hab

/-- membership of an instant in the output of `jitintersect` -/
def InI (o : IOut) (x : Int) : Prop := ∃ k, ∃ hk : k < o.st.size, ∃ hk2 : k < o.en.size, o.st[k] ≤ x ∧ x ≤ o.en[k]

/-- **intersect ⊇ A ∧ B, pointwise**: for canonical operands, an instant lying in interval `i` of A and in
interval `j` of B lies in `A.intersect(B)` as soon as the two intervals overlap with positive length — in
particular whenever the instant is not an endpoint of both (`intersect_pointwise`) -/
theorem intersect_complete (s1 e1 s2 e2 : Array Int) (h1 : s1.size = e1.size) (h2 : s2.size = e2.size)
    (hcA : Canon s1 e1 h1) (hcB : Canon s2 e2 h2) (x : Int) (i j : Nat) (hi : i < s1.size) (hj : j < s2.size)
    (hA : s1[i] ≤ x ∧ x ≤ e1[i]'(h1 ▸ hi)) (hB : s2[j] ≤ x ∧ x ≤ e2[j]'(h2 ▸ hj))
    (hov : s1[i] < e2[j]'(h2 ▸ hj) ∧ s2[j] < e1[i]'(h1 ▸ hi)) :
    InI (jitintersect s1 e1 s2 e2 h1 h2) x := by
  have hm := intersect_pairs_complete s1 e1 s2 e2 h1 h2 hcA hcB i j ⟨hi, hj, hov.1, hov.2⟩
  obtain ⟨k, hk, hke⟩ := Array.mem_iff_getElem.1 hm
  obtain ⟨ha, hb, hc⟩ := intersect_entries s1 e1 s2 e2 h1 h2
  obtain ⟨hi', hj', hs, he, _, _⟩ := hc k (by omega) (by omega) hk
  refine ⟨k, by omega, by omega, ?_, ?_⟩
  · rw [hs]; simp only [hke]; omega
  · rw [he]; simp only [hke]; omega

/-- **intersect, exact pointwise** (the C02 clause): for canonical A and B and every instant `x` strictly
inside an interval of A (i.e. not an endpoint of A), `x ∈ A.intersect(B)` iff `x ∈ A` and `x ∈ B` -/
theorem intersect_pointwise (s1 e1 s2 e2 : Array Int) (h1 : s1.size = e1.size) (h2 : s2.size = e2.size)
    (hcA : Canon s1 e1 h1) (hcB : Canon s2 e2 h2) (x : Int) (i : Nat) (hi : i < s1.size)
    (hA : s1[i] < x ∧ x < e1[i]'(h1 ▸ hi)) :
    InI (jitintersect s1 e1 s2 e2 h1 h2) x ↔ InIv s2 e2 h2 x := by
  constructor
  · rintro ⟨k, hk, hk2, a, b⟩
    exact (intersect_sound s1 e1 s2 e2 h1 h2 k hk x a b).2
  · rintro ⟨j, hj, a, b⟩
    exact intersect_complete s1 e1 s2 e2 h1 h2 hcA hcB x i j hi hj ⟨by omega, by omega⟩ ⟨a, b⟩ ⟨by omega, by omega⟩

/-! ## n-ary union: pointwise and exact; set_diff: every piece inside its recorded parent -/

/-- `x` lies in one of the closed intervals of a kernel output -/
theorem unionIsetsLoop_sizes (st en : Array Int) (h : st.size = en.size) (i : Nat) (curS e : Int) (out : UOut)
    (hsz : out.st.size = out.en.size) :
    (unionIsetsLoop st en h i curS e out).st.size = (unionIsetsLoop st en h i curS e out).en.size := by
  fun_induction unionIsetsLoop st en h i curS e out with
  | case1 i curS e out hi hgt ih => exact ih (by simp [hsz])
  | case2 i curS e out hi hle ih => exact ih hsz
  | case3 i curS e out hi => simp [hsz]

theorem unionIsetsLoop_mem (st en : Array Int) (h : st.size = en.size) (hs : Sorted st) (x : Int)
    (i : Nat) (curS e : Int) (out : UOut) (hsz : out.st.size = out.en.size)
    (hcur : ∀ k, i ≤ k → (hk : k < st.size) → curS ≤ st[k]) :
    InU (unionIsetsLoop st en h i curS e out) x ↔
      InU out x ∨ (curS ≤ x ∧ x ≤ e) ∨ ∃ j, i ≤ j ∧ ∃ hj : j < st.size, st[j] ≤ x ∧ x ≤ en[j]'(h ▸ hj) := by
  fun_induction unionIsetsLoop st en h i curS e out with
  | case1 i curS e out hi hgt ih =>
    rw [ih (by simp [hsz]) (fun k hk hk2 => hs i k hi hk2 (by omega)), InU_push out hsz]
    constructor
    · rintro ((a | a) | a | ⟨j, hj, hj2, a⟩)
      · exact Or.inl a
      · exact Or.inr (Or.inl a)
      · exact Or.inr (Or.inr ⟨i, Nat.le_refl _, hi, a⟩)
      · exact Or.inr (Or.inr ⟨j, by omega, hj2, a⟩)
    · rintro (a | a | ⟨j, hj, hj2, a⟩)
      · exact Or.inl (Or.inl a)
      · exact Or.inl (Or.inr a)
      · by_cases hji : j = i
        · subst hji; exact Or.inr (Or.inl a)
        · exact Or.inr (Or.inr ⟨j, by omega, hj2, a⟩)
  | case2 i curS e out hi hle ih =>
    rw [ih hsz (fun k hk hk2 => hcur k (by omega) hk2)]
    have hci := hcur i (Nat.le_refl _) hi
    have hle' : st[i] ≤ e := by omega
    constructor
    · rintro (a | ⟨a, b⟩ | ⟨j, hj, hj2, a⟩)
      · exact Or.inl a
      · by_cases hxe : x ≤ e
        · exact Or.inr (Or.inl ⟨a, hxe⟩)
        · refine Or.inr (Or.inr ⟨i, Nat.le_refl _, hi, by omega, ?_⟩)
          have : x ≤ max e (en[i]'(h ▸ hi)) := b
          omega
      · exact Or.inr (Or.inr ⟨j, by omega, hj2, a⟩)
    · rintro (a | ⟨a, b⟩ | ⟨j, hj, hj2, a, b⟩)
      · exact Or.inl a
      · exact Or.inr (Or.inl ⟨a, by omega⟩)
      · by_cases hji : j = i
        · subst hji
          exact Or.inr (Or.inl ⟨by omega, by omega⟩)
        · exact Or.inr (Or.inr ⟨j, by omega, hj2, a, b⟩)
  | case3 i curS e out hi =>
    rw [InU_push out hsz]
    constructor
    · rintro (a | a)
      · exact Or.inl a
      · exact Or.inr (Or.inl a)
    · rintro (a | a | ⟨j, hj, hj2, _⟩)
      · exact Or.inl a
      · exact Or.inr a
      · omega

/-- **n-ary union (`jitunion_isets`), pointwise and exact**: for interval arrays sorted by start (the
kernel's own `argsort`), any number of intervals, any overlaps / nesting / touching / duplicates: an
instant lies in an output interval iff it lies in one of the input intervals -/
theorem unionIsets_mem (st en : Array Int) (h : st.size = en.size) (hs : Sorted st) (x : Int) :
    InU (jitunionIsets st en h) x ↔ InIv st en h x := by
  unfold jitunionIsets
  split
  · rename_i hn
    rw [unionIsetsLoop_mem st en h hs x 1 st[0] (en[0]'(h ▸ hn)) {} rfl (fun k _ hk => hs 0 k hn hk (Nat.zero_le _))]
    constructor
    · rintro (⟨k, h1, _⟩ | a | ⟨j, _, hj, a⟩)
      · simp at h1
      · exact ⟨0, hn, a⟩
      · exact ⟨j, hj, a⟩
    · rintro ⟨j, hj, a⟩
      by_cases hj0 : j = 0
      · subst hj0; exact Or.inr (Or.inl a)
      · exact Or.inr (Or.inr ⟨j, by omega, hj, a⟩)
  · rename_i hn
    constructor
    · rintro ⟨k, h1, _⟩; simp at h1
    · rintro ⟨j, hj, _⟩; omega


/-- entry `k` of a set_diff output lies inside the operand-A interval recorded as its parent -/
def DEntryOK (s1 e1 : Array Int) (h1 : s1.size = e1.size) (a b : Int) (p : Nat) : Prop :=
  ∃ hp : p < s1.size, s1[p] ≤ a ∧ b ≤ e1[p]'(h1 ▸ hp)

def DOutOK (s1 e1 : Array Int) (h1 : s1.size = e1.size) (o : DOut) : Prop :=
  o.st.size = o.en.size ∧ o.st.size = o.par.size ∧
  ∀ k, (hk : k < o.st.size) → (hk2 : k < o.en.size) → (hk3 : k < o.par.size) →
    DEntryOK s1 e1 h1 o.st[k] o.en[k] o.par[k]

theorem DOutOK_push (s1 e1 : Array Int) (h1) (o : DOut) (ho : DOutOK s1 e1 h1 o) (a b : Int) (p : Nat)
    (hn : DEntryOK s1 e1 h1 a b p) : DOutOK s1 e1 h1 (o.push a b p) := by
  obtain ⟨ha, hb, hc⟩ := ho
  refine ⟨by simp [DOut.push, ha], by simp [DOut.push, hb], ?_⟩
  intro k hk hk2 hk3
  simp only [DOut.push, Array.size_push] at hk hk2 hk3
  by_cases hlt : k < o.st.size
  · have := hc k hlt (by omega) (by omega)
    simpa [DOut.push, Array.getElem_push_lt hlt, Array.getElem_push_lt (show k < o.en.size by omega),
      Array.getElem_push_lt (show k < o.par.size by omega)] using this
  · have hk' : k = o.st.size := by omega
    subst hk'
    have e2 : o.st.size = o.en.size := ha
    have e3 : o.st.size = o.par.size := hb
    simp only [DOut.push]
    have g1 : (o.st.push a)[o.st.size]'(by simp) = a := by simp
    have g2 : (o.en.push b)[o.st.size]'(by simp [← e2]) = b := by simp [e2]
    have g3 : (o.par.push p)[o.st.size]'(by simp [← e3]) = p := by simp [e3]
    rw [g1, g2, g3]; exact hn

theorem diffGaps_ok (s1 e1 s2 e2 : Array Int) (h1 : s1.size = e1.size) (h2 : s2.size = e2.size)
    (he2 : Sorted e2) (i : Nat) (hi : i < s1.size) (j0 : Nat) (hj0 : j0 < e2.size) (hgt : e2[j0] > s1[i])
    (j : Nat) (hj1 : 1 ≤ j) (hjj : j0 + 1 ≤ j) (out : DOut) (ho : DOutOK s1 e1 h1 out) :
    DOutOK s1 e1 h1 (diffGaps s2 e2 h2 (e1[i]'(h1 ▸ hi)) i j hj1 out).1.2 := by
  induction hn : s2.size - j generalizing j out with
  | zero =>
    unfold diffGaps
    have : ¬ j < s2.size := by omega
    simp [this]; exact ho
  | succ n ih =>
    unfold diffGaps
    have hj : j < s2.size := by omega
    simp only [dif_pos hj]
    split
    · rename_i hlt
      apply ih (j+1) (by omega) (by omega) _ _ (by omega)
      apply DOutOK_push _ _ _ _ ho
      refine ⟨hi, ?_, Int.le_of_lt hlt⟩
      have := he2 j0 (j-1) hj0 (by omega) (by omega)
      omega
    · exact ho

theorem jitdiffLoop_ok (s1 e1 s2 e2 : Array Int) (h1 : s1.size = e1.size) (h2 : s2.size = e2.size)
    (he2 : Sorted e2) (i j : Nat) (out : DOut) (ho : DOutOK s1 e1 h1 out) :
    DOutOK s1 e1 h1 (jitdiffLoop s1 e1 s2 e2 h1 h2 i j out).2 := by
  induction hn : s1.size - i generalizing i j out with
  | zero =>
    unfold jitdiffLoop
    have : ¬ i < s1.size := by omega
    simp [this]; exact ho
  | succ n ih =>
    have hi : i < s1.size := by omega
    unfold jitdiffLoop
    simp only [dif_pos hi]
    split
    · rename_i hj
      have hsk := skipTo_spec e2 s1[i] j hj
      split
      · rename_i hov
        split
        · exact ih (i+1) _ _ ho (by omega)
        · rename_i hnot
          -- the emitted pieces
          by_cases hc : s2[skipTo e2 s1[i] j]'(h2 ▸ hj) > s1[i]
          · simp only [hc, if_true]
            have ho1 : DOutOK s1 e1 h1 (out.push s1[i] (s2[skipTo e2 s1[i] j]'(h2 ▸ hj)) i) :=
              DOutOK_push _ _ _ _ ho _ _ _ ⟨hi, Int.le_refl _, Int.le_of_lt hov⟩
            have hg := diffGaps_ok s1 e1 s2 e2 h1 h2 he2 i hi (skipTo e2 s1[i] j) hj hsk
              (skipTo e2 s1[i] j + 1) (by omega) (Nat.le_refl _) (out.push s1[i] (s2[skipTo e2 s1[i] j]'(h2 ▸ hj)) i) ho1
            split
            · rename_i hlast
              apply ih (i+1) _ _ _ (by omega)
              apply DOutOK_push _ _ _ _ hg
              refine ⟨hi, ?_, Int.le_refl _⟩
              have hb := (diffGaps s2 e2 h2 (e1[i]'(h1 ▸ hi)) i (skipTo e2 s1[i] j + 1) (by omega) (out.push s1[i] (s2[skipTo e2 s1[i] j]'(h2 ▸ hj)) i)).2
              have key : ∀ (G : Nat) (hG2 : G ≤ s2.size) (hG3 : skipTo e2 s1[i] j + 1 ≤ G),
                  e2[skipTo e2 s1[i] j] ≤ e2[G - 1]'(by omega) :=
                fun G hG2 hG3 => he2 (skipTo e2 s1[i] j) (G - 1) hj (by omega) (by omega)
              have := key _ (hb.2.2 (by omega)) hb.2.1
              show s1[i] ≤ _
              exact Int.le_trans (Int.le_of_lt hsk) this
            · exact ih (i+1) _ _ hg (by omega)
          · simp only [hc, if_false]
            have hg := diffGaps_ok s1 e1 s2 e2 h1 h2 he2 i hi (skipTo e2 s1[i] j) hj hsk
              (skipTo e2 s1[i] j + 1) (by omega) (Nat.le_refl _) out ho
            split
            · rename_i hlast
              apply ih (i+1) _ _ _ (by omega)
              apply DOutOK_push _ _ _ _ hg
              refine ⟨hi, ?_, Int.le_refl _⟩
              have hb := (diffGaps s2 e2 h2 (e1[i]'(h1 ▸ hi)) i (skipTo e2 s1[i] j + 1) (by omega) out).2
              have key : ∀ (G : Nat) (hG2 : G ≤ s2.size) (hG3 : skipTo e2 s1[i] j + 1 ≤ G),
                  e2[skipTo e2 s1[i] j] ≤ e2[G - 1]'(by omega) :=
                fun G hG2 hG3 => he2 (skipTo e2 s1[i] j) (G - 1) hj (by omega) (by omega)
              have := key _ (hb.2.2 (by omega)) hb.2.1
              show s1[i] ≤ _
              exact Int.le_trans (Int.le_of_lt hsk) this
            · exact ih (i+1) _ _ hg (by omega)
      · apply ih (i+1) _ _ _ (by omega)
        exact DOutOK_push _ _ _ _ ho _ _ _ ⟨hi, Int.le_refl _, Int.le_refl _⟩
    · exact ho

theorem emitRestD_ok (s1 e1 : Array Int) (h1 : s1.size = e1.size) (i : Nat) (out : DOut) (ho : DOutOK s1 e1 h1 out) :
    DOutOK s1 e1 h1 (emitRestD s1 e1 h1 i out) := by
  induction hn : s1.size - i generalizing i out with
  | zero =>
    unfold emitRestD
    have : ¬ i < s1.size := by omega
    simp [this]; exact ho
  | succ n ih =>
    have hi : i < s1.size := by omega
    unfold emitRestD
    simp only [dif_pos hi]
    exact ih (i+1) _ (DOutOK_push _ _ _ _ ho _ _ _ ⟨hi, Int.le_refl _, Int.le_refl _⟩) (by omega)

/-- **set_diff, parents**: for any A and any B whose ends are non-decreasing (every IntervalSet), each
interval emitted by `jitdiff` lies inside the interval of A recorded as its parent — so the metadata
row `set_diff` attaches to a piece is the row of the interval that contains it (C13), and the result
is a subset of A (C02) -/
theorem diff_entries (s1 e1 s2 e2 : Array Int) (h1 : s1.size = e1.size) (h2 : s2.size = e2.size) (he2 : Sorted e2) :
    DOutOK s1 e1 h1 (jitdiff s1 e1 s2 e2 h1 h2) := by
  unfold jitdiff
  exact emitRestD_ok s1 e1 h1 _ _ (jitdiffLoop_ok s1 e1 s2 e2 h1 h2 he2 0 0 {} ⟨rfl, rfl, fun k hk => by simp at hk⟩)

theorem diff_subset (s1 e1 s2 e2 : Array Int) (h1 : s1.size = e1.size) (h2 : s2.size = e2.size) (he2 : Sorted e2)
    (k : Nat) (hk : k < (jitdiff s1 e1 s2 e2 h1 h2).st.size) (x : Int)
    (hx1 : (jitdiff s1 e1 s2 e2 h1 h2).st[k] ≤ x)
    (hx2 : x ≤ (jitdiff s1 e1 s2 e2 h1 h2).en[k]'((diff_entries s1 e1 s2 e2 h1 h2 he2).1 ▸ hk)) :
    InIv s1 e1 h1 x := by
  obtain ⟨ha, hb, hc⟩ := diff_entries s1 e1 s2 e2 h1 h2 he2
  obtain ⟨hp, a, b⟩ := hc k hk (ha ▸ hk) (hb ▸ hk)
  exact ⟨_, hp, by omega, by omega⟩


/-- **set_diff ⊇ A \ B, pointwise** (no hypothesis on the operands): an instant lying in an interval of A
and in no interval of B lies in an interval of `A.set_diff(B)` -/
theorem diff_complete (s1 e1 s2 e2 : Array Int) (h1 : s1.size = e1.size) (h2 : s2.size = e2.size) (x : Int)
    (hA : InIv s1 e1 h1 x) (hB : ¬ InIv s2 e2 h2 x) : InD (jitdiff s1 e1 s2 e2 h1 h2) x := by
  have hnb : NotB s2 e2 h2 x := by
    intro b hb
    rcases Int.lt_or_le x s2[b] with h | h
    · exact Or.inl h
    · rcases Int.lt_or_le (e2[b]'(h2 ▸ hb)) x with h' | h'
      · exact Or.inr h'
      · exact absurd ⟨b, hb, h, h'⟩ hB
  obtain ⟨a, ha, a1, a2⟩ := hA
  unfold jitdiff
  obtain ⟨r1, r2, r3⟩ := jitdiffLoop_cover s1 e1 s2 e2 h1 h2 x hnb 0 0 {} rfl (fun a ha => by omega)
  obtain ⟨q1, q2⟩ := emitRestD_cover s1 e1 h1 x (jitdiffLoop s1 e1 s2 e2 h1 h2 0 0 {}).1
    (jitdiffLoop s1 e1 s2 e2 h1 h2 0 0 {}).2 r1
  rcases Nat.lt_or_ge a (jitdiffLoop s1 e1 s2 e2 h1 h2 0 0 {}).1 with h | h
  · exact q1 x (r3 a h ⟨ha, a1, a2⟩)
  · exact q2 a h ⟨ha, a1, a2⟩


/-- **set_diff avoids B**: for canonical A and B, every piece of `A.set_diff(B)` lies between intervals of B — it
meets no interval of B in more than an endpoint -/
theorem diff_between (s1 e1 s2 e2 : Array Int) (h1 : s1.size = e1.size) (h2 : s2.size = e2.size)
    (hcA : Canon s1 e1 h1) (hcB : Canon s2 e2 h2) : DB s2 e2 h2 (jitdiff s1 e1 s2 e2 h1 h2) := by
  unfold jitdiff
  obtain ⟨r1, r2, r3⟩ := jitdiffLoop_between s1 e1 s2 e2 h1 h2 hcA hcB 0 0 {} rfl
    (fun k hk => by simp at hk) (fun b hb => by omega)
  exact emitRestD_between s1 e1 s2 e2 h1 h2 hcA _ _ r1 r2 r3

theorem diff_avoids (s1 e1 s2 e2 : Array Int) (h1 : s1.size = e1.size) (h2 : s2.size = e2.size)
    (hcA : Canon s1 e1 h1) (hcB : Canon s2 e2 h2) (k : Nat) (hk : k < (jitdiff s1 e1 s2 e2 h1 h2).st.size)
    (hk2 : k < (jitdiff s1 e1 s2 e2 h1 h2).en.size) (x : Int)
    (hx1 : (jitdiff s1 e1 s2 e2 h1 h2).st[k] < x) (hx2 : x < (jitdiff s1 e1 s2 e2 h1 h2).en[k]) :
    ¬ InIv s2 e2 h2 x := by
  rintro ⟨j, hj, a, b⟩
  rcases diff_between s1 e1 s2 e2 h1 h2 hcA hcB k hk hk2 j hj with h | h <;> omega

/-- **set_diff, exact pointwise** (the C02 clause): for canonical A and B and every instant `x` that is not an
endpoint of B, `x ∈ A.set_diff(B)` iff `x ∈ A` and `x ∉ B` -/
theorem diff_pointwise (s1 e1 s2 e2 : Array Int) (h1 : s1.size = e1.size) (h2 : s2.size = e2.size)
    (hcA : Canon s1 e1 h1) (hcB : Canon s2 e2 h2) (x : Int)
    (hne : ∀ j, (hj : j < s2.size) → x ≠ s2[j] ∧ x ≠ e2[j]'(h2 ▸ hj)) :
    InD (jitdiff s1 e1 s2 e2 h1 h2) x ↔ (InIv s1 e1 h1 x ∧ ¬ InIv s2 e2 h2 x) := by
  constructor
  · rintro ⟨k, hk, hk2, a, b⟩
    have he2 : Sorted e2 := fun p q hp hq hpq => canon_en_mono s2 e2 h2 hcB p q hpq (by omega)
    refine ⟨diff_subset s1 e1 s2 e2 h1 h2 he2 k hk x a b, ?_⟩
    rintro ⟨j, hj, c, d⟩
    have := hne j hj
    rcases diff_between s1 e1 s2 e2 h1 h2 hcA hcB k hk hk2 j hj with h | h <;> omega
  · rintro ⟨hA, hB⟩
    exact diff_complete s1 e1 s2 e2 h1 h2 x hA hB


/-- **binary union, pointwise and exact**: for canonical A and B, an instant lies in an interval emitted by
`jitunion` iff it lies in an interval of A or in an interval of B -/
theorem union_pointwise (s1 e1 s2 e2 : Array Int) (h1 : s1.size = e1.size) (h2 : s2.size = e2.size)
    (hcA : Canon s1 e1 h1) (hcB : Canon s2 e2 h2) (x : Int) :
    InU (jitunion s1 e1 s2 e2 h1 h2) x ↔ InIv s1 e1 h1 x ∨ InIv s2 e2 h2 x := by
  unfold jitunion
  obtain ⟨q1, q2, q3, q4⟩ := jitunionLoop_spec s1 e1 s2 e2 h1 h2 hcA hcB 0 0 {} rfl (Nat.zero_le _)
  obtain ⟨a1, a2⟩ := emitRest_spec s1 e1 h1 (jitunionLoop s1 e1 s2 e2 h1 h2 0 0 {}).1
    (jitunionLoop s1 e1 s2 e2 h1 h2 0 0 {}).2.2 q1
  obtain ⟨b1, b2⟩ := emitRest_spec s2 e2 h2 (jitunionLoop s1 e1 s2 e2 h1 h2 0 0 {}).2.1 _ a1
  rw [b2 x, a2 x, q4 x]
  have hA : InIv s1 e1 h1 x ↔ InRange s1 e1 h1 0 (jitunionLoop s1 e1 s2 e2 h1 h2 0 0 {}).1 x ∨
      InRange s1 e1 h1 (jitunionLoop s1 e1 s2 e2 h1 h2 0 0 {}).1 s1.size x := by
    constructor
    · rintro ⟨a, ha, c, d⟩
      rcases Nat.lt_or_ge a (jitunionLoop s1 e1 s2 e2 h1 h2 0 0 {}).1 with h | h
      · exact Or.inl ⟨a, Nat.zero_le _, h, ha, c, d⟩
      · exact Or.inr ⟨a, h, ha, ha, c, d⟩
    · rintro (⟨a, _, _, ha, c, d⟩ | ⟨a, _, _, ha, c, d⟩) <;> exact ⟨a, ha, c, d⟩
  have hB : InIv s2 e2 h2 x ↔ InRange s2 e2 h2 0 (jitunionLoop s1 e1 s2 e2 h1 h2 0 0 {}).2.1 x ∨
      InRange s2 e2 h2 (jitunionLoop s1 e1 s2 e2 h1 h2 0 0 {}).2.1 s2.size x := by
    constructor
    · rintro ⟨a, ha, c, d⟩
      rcases Nat.lt_or_ge a (jitunionLoop s1 e1 s2 e2 h1 h2 0 0 {}).2.1 with h | h
      · exact Or.inl ⟨a, Nat.zero_le _, h, ha, c, d⟩
      · exact Or.inr ⟨a, h, ha, ha, c, d⟩
    · rintro (⟨a, _, _, ha, c, d⟩ | ⟨a, _, _, ha, c, d⟩) <;> exact ⟨a, ha, c, d⟩
  rw [hA, hB]
  have hemp : ¬ InU ({} : UOut) x := by rintro ⟨k, hk, _⟩; simp at hk
  generalize InU ({} : UOut) x = P at hemp
  generalize InRange s1 e1 h1 0 _ x = A1
  generalize InRange s1 e1 h1 _ s1.size x = A2
  generalize InRange s2 e2 h2 0 _ x = B1
  generalize InRange s2 e2 h2 _ s2.size x = B2
  grind


/-- union is commutative, pointwise -/
theorem union_comm_pointwise (s1 e1 s2 e2 : Array Int) (h1 : s1.size = e1.size) (h2 : s2.size = e2.size)
    (hcA : Canon s1 e1 h1) (hcB : Canon s2 e2 h2) (x : Int) :
    InU (jitunion s1 e1 s2 e2 h1 h2) x ↔ InU (jitunion s2 e2 s1 e1 h2 h1) x := by
  rw [union_pointwise s1 e1 s2 e2 h1 h2 hcA hcB, union_pointwise s2 e2 s1 e1 h2 h1 hcB hcA]
  exact Or.comm

/-- union is idempotent, pointwise -/
theorem union_idem_pointwise (s1 e1 : Array Int) (h1 : s1.size = e1.size) (hcA : Canon s1 e1 h1) (x : Int) :
    InU (jitunion s1 e1 s1 e1 h1 h1) x ↔ InIv s1 e1 h1 x := by
  rw [union_pointwise s1 e1 s1 e1 h1 h1 hcA hcA]; exact or_self_iff


/-! ## the public operations: constructor ∘ kernel -/

/-- `x` is farther than one microsecond from every endpoint of A and of B (the instants C02 speaks about) -/
def FarEnds (s1 e1 s2 e2 : Array Int) (x : Int) : Prop :=
  ∀ v, IsEnd s1 e1 s2 e2 v → x < v - 1000 ∨ v + 1000 < x

/-- the constructor applied to a kernel output whose endpoints are endpoints of the operands neither adds nor
removes an instant that is farther than 1 µs from those endpoints -/
theorem mk_of_entries (s1 e1 s2 e2 st en : Array Int) (ho : EntOK s1 e1 s2 e2 st en) (x : Int)
    (hfar : FarEnds s1 e1 s2 e2 x) :
    InOut (ISet.mk st en ho.1) x ↔ InIv st en ho.1 x := by
  constructor
  · intro hx
    exact mk_sound st en ho.1 x hx
  · intro hx
    apply mk_complete st en ho.1 (fun i hi => (ho.2 i hi (ho.1 ▸ hi)).2.2) x hx
    · intro i hi
      obtain ⟨a, b, _⟩ := ho.2 i hi (ho.1 ▸ hi)
      have := hfar _ a; have := hfar _ b
      constructor <;> omega
    · intro i hi
      obtain ⟨a, _, _⟩ := ho.2 i hi (ho.1 ▸ hi)
      have := hfar _ a
      omega

/-- **C02 at the level of the public operation, union**: `A.union(B)` = constructor ∘ `jitunion`.  For canonical
A, B and every instant farther than 1 µs from every endpoint of A and B: x ∈ A.union(B) ⇔ x ∈ A ∨ x ∈ B -/
theorem union_api (s1 e1 s2 e2 : Array Int) (h1 : s1.size = e1.size) (h2 : s2.size = e2.size)
    (hcA : Canon s1 e1 h1) (hcB : Canon s2 e2 h2) (x : Int) (hfar : FarEnds s1 e1 s2 e2 x) :
    InOut (ISet.mk (jitunion s1 e1 s2 e2 h1 h2).st (jitunion s1 e1 s2 e2 h1 h2).en
      (jitunion_entries s1 e1 s2 e2 h1 h2 hcA hcB).1) x ↔ (InIv s1 e1 h1 x ∨ InIv s2 e2 h2 x) := by
  rw [mk_of_entries s1 e1 s2 e2 _ _ (jitunion_entries s1 e1 s2 e2 h1 h2 hcA hcB) x hfar,
    ← union_pointwise s1 e1 s2 e2 h1 h2 hcA hcB x]
  constructor
  · rintro ⟨k, hk, a, b⟩; exact ⟨k, hk, _, a, b⟩
  · rintro ⟨k, hk, hk2, a, b⟩; exact ⟨k, hk, a, b⟩

theorem far_strict (s1 e1 s2 e2 : Array Int) (x : Int) (hfar : FarEnds s1 e1 s2 e2 x) (v : Int)
    (hv : IsEnd s1 e1 s2 e2 v) : x ≠ v := by
  have := hfar v hv; omega

/-- **intersect, public operation**: x ∈ A.intersect(B) ⇔ x ∈ A ∧ x ∈ B -/
theorem intersect_api (s1 e1 s2 e2 : Array Int) (h1 : s1.size = e1.size) (h2 : s2.size = e2.size)
    (hcA : Canon s1 e1 h1) (hcB : Canon s2 e2 h2) (x : Int) (hfar : FarEnds s1 e1 s2 e2 x) :
    InOut (ISet.mk (jitintersect s1 e1 s2 e2 h1 h2).st (jitintersect s1 e1 s2 e2 h1 h2).en
      (jitintersect_entries s1 e1 s2 e2 h1 h2 hcA hcB).1) x ↔ (InIv s1 e1 h1 x ∧ InIv s2 e2 h2 x) := by
  rw [mk_of_entries s1 e1 s2 e2 _ _ (jitintersect_entries s1 e1 s2 e2 h1 h2 hcA hcB) x hfar]
  constructor
  · rintro ⟨k, hk, a, b⟩
    exact intersect_sound s1 e1 s2 e2 h1 h2 k hk x a b
  · rintro ⟨⟨i, hi, a1, a2⟩, ⟨j, hj, b1, b2⟩⟩
    have n1 := far_strict s1 e1 s2 e2 x hfar _ (Or.inl (Array.getElem_mem hi))
    have n2 := far_strict s1 e1 s2 e2 x hfar _ (Or.inr (Or.inl (Array.getElem_mem (h1 ▸ hi))))
    obtain ⟨k, hk, hk2, c, d⟩ := intersect_complete s1 e1 s2 e2 h1 h2 hcA hcB x i j hi hj ⟨a1, a2⟩ ⟨b1, b2⟩
      ⟨by omega, by omega⟩
    exact ⟨k, hk, c, d⟩

/-- **set_diff, public operation**: x ∈ A.set_diff(B) ⇔ x ∈ A ∧ x ∉ B -/
theorem diff_api (s1 e1 s2 e2 : Array Int) (h1 : s1.size = e1.size) (h2 : s2.size = e2.size)
    (hcA : Canon s1 e1 h1) (hcB : Canon s2 e2 h2) (x : Int) (hfar : FarEnds s1 e1 s2 e2 x) :
    InOut (ISet.mk (jitdiff s1 e1 s2 e2 h1 h2).st (jitdiff s1 e1 s2 e2 h1 h2).en
      (jitdiff_entries s1 e1 s2 e2 h1 h2 hcA hcB).1) x ↔ (InIv s1 e1 h1 x ∧ ¬ InIv s2 e2 h2 x) := by
  rw [mk_of_entries s1 e1 s2 e2 _ _ (jitdiff_entries s1 e1 s2 e2 h1 h2 hcA hcB) x hfar,
    ← diff_pointwise s1 e1 s2 e2 h1 h2 hcA hcB x (fun j hj =>
      ⟨far_strict s1 e1 s2 e2 x hfar _ (Or.inr (Or.inr (Or.inl (Array.getElem_mem hj)))),
       far_strict s1 e1 s2 e2 x hfar _ (Or.inr (Or.inr (Or.inr (Array.getElem_mem (h2 ▸ hj)))))⟩)]
  constructor
  · rintro ⟨k, hk, a, b⟩; exact ⟨k, hk, _, a, b⟩
  · rintro ⟨k, hk, hk2, a, b⟩; exact ⟨k, hk, a, b⟩


/-! ### the same three statements for the model functions the driver runs (`ISet.union/intersect/diff` on arrays of
pairs = what `IntervalSet.union/intersect/set_diff` return) -/

theorem inIv_pairs (a : Array (Int × Int)) (x : Int) :
    InIv (pairsSt a) (pairsEn a) (pairs_size a) x ↔ InOut a x := by
  constructor
  · rintro ⟨k, hk, c, d⟩
    have hk' : k < a.size := by simpa [pairsSt] using hk
    refine ⟨a[k], Array.getElem_mem hk', ?_, ?_⟩
    · simpa [pairsSt] using c
    · simpa [pairsEn] using d
  · rintro ⟨p, hp, c, d⟩
    obtain ⟨k, hk, e⟩ := Array.mem_iff_getElem.1 hp
    refine ⟨k, by simpa [pairsSt] using hk, ?_, ?_⟩
    · simpa [pairsSt, e] using c
    · simpa [pairsEn, e] using d

theorem ISet_union_pointwise (a b : Array (Int × Int))
    (hca : Canon (pairsSt a) (pairsEn a) (pairs_size a)) (hcb : Canon (pairsSt b) (pairsEn b) (pairs_size b))
    (x : Int) (hfar : FarEnds (pairsSt a) (pairsEn a) (pairsSt b) (pairsEn b) x) :
    InOut (ISet.union a b) x ↔ (InOut a x ∨ InOut b x) := by
  have h := (jitunion_entries _ _ _ _ (pairs_size a) (pairs_size b) hca hcb).1
  simp only [ISet.union, dif_pos h]
  rw [union_api _ _ _ _ _ _ hca hcb x hfar, inIv_pairs, inIv_pairs]

theorem ISet_intersect_pointwise (a b : Array (Int × Int))
    (hca : Canon (pairsSt a) (pairsEn a) (pairs_size a)) (hcb : Canon (pairsSt b) (pairsEn b) (pairs_size b))
    (x : Int) (hfar : FarEnds (pairsSt a) (pairsEn a) (pairsSt b) (pairsEn b) x) :
    InOut (ISet.intersect a b) x ↔ (InOut a x ∧ InOut b x) := by
  have h := (jitintersect_entries _ _ _ _ (pairs_size a) (pairs_size b) hca hcb).1
  simp only [ISet.intersect, dif_pos h]
  rw [intersect_api _ _ _ _ _ _ hca hcb x hfar, inIv_pairs, inIv_pairs]

theorem ISet_diff_pointwise (a b : Array (Int × Int))
    (hca : Canon (pairsSt a) (pairsEn a) (pairs_size a)) (hcb : Canon (pairsSt b) (pairsEn b) (pairs_size b))
    (x : Int) (hfar : FarEnds (pairsSt a) (pairsEn a) (pairsSt b) (pairsEn b) x) :
    InOut (ISet.diff a b) x ↔ (InOut a x ∧ ¬ InOut b x) := by
  have h := (jitdiff_entries _ _ _ _ (pairs_size a) (pairs_size b) hca hcb).1
  simp only [ISet.diff, dif_pos h]
  rw [diff_api _ _ _ _ _ _ hca hcb x hfar, inIv_pairs, inIv_pairs]

/-- hence union and intersect are commutative and all three idempotent / absorbing, on those instants -/
theorem ISet_union_comm (a b : Array (Int × Int))
    (hca : Canon (pairsSt a) (pairsEn a) (pairs_size a)) (hcb : Canon (pairsSt b) (pairsEn b) (pairs_size b))
    (x : Int) (hfar : FarEnds (pairsSt a) (pairsEn a) (pairsSt b) (pairsEn b) x) :
    InOut (ISet.union a b) x ↔ InOut (ISet.union b a) x := by
  have hfar' : FarEnds (pairsSt b) (pairsEn b) (pairsSt a) (pairsEn a) x := by
    intro v hv; apply hfar v
    rcases hv with h | h | h | h
    · exact Or.inr (Or.inr (Or.inl h))
    · exact Or.inr (Or.inr (Or.inr h))
    · exact Or.inl h
    · exact Or.inr (Or.inl h)
  rw [ISet_union_pointwise a b hca hcb x hfar, ISet_union_pointwise b a hcb hca x hfar']
  exact Or.comm

theorem ISet_intersect_comm (a b : Array (Int × Int))
    (hca : Canon (pairsSt a) (pairsEn a) (pairs_size a)) (hcb : Canon (pairsSt b) (pairsEn b) (pairs_size b))
    (x : Int) (hfar : FarEnds (pairsSt a) (pairsEn a) (pairsSt b) (pairsEn b) x) :
    InOut (ISet.intersect a b) x ↔ InOut (ISet.intersect b a) x := by
  have hfar' : FarEnds (pairsSt b) (pairsEn b) (pairsSt a) (pairsEn a) x := by
    intro v hv; apply hfar v
    rcases hv with h | h | h | h
    · exact Or.inr (Or.inr (Or.inl h))
    · exact Or.inr (Or.inr (Or.inr h))
    · exact Or.inl h
    · exact Or.inr (Or.inl h)
  rw [ISet_intersect_pointwise a b hca hcb x hfar, ISet_intersect_pointwise b a hcb hca x hfar']
  exact And.comm


-- the hypotheses of the end-to-end statements are satisfiable (shared instant 5000 is an endpoint of B only)
example : InOut (ISet.diff #[(0, 10000)] #[(5000, 20000)]) 2500 := by
  refine (ISet_diff_pointwise #[(0, 10000)] #[(5000, 20000)] ?_ ?_ 2500 ?_).2 ⟨⟨(0, 10000), by simp, by decide, by decide⟩, ?_⟩
  · refine ⟨fun k h => ?_, fun k h => ?_⟩ <;> simp [pairsSt, pairsEn] at h ⊢ <;> omega
  · refine ⟨fun k h => ?_, fun k h => ?_⟩ <;> simp [pairsSt, pairsEn] at h ⊢ <;> omega
  · intro v hv
    simp [IsEnd, pairsSt, pairsEn] at hv
    omega
  · rintro ⟨p, hp, h1, h2⟩
    simp at hp; subst hp; simp at h1

/-! non-vacuity of the hypotheses: canonical operands with shared endpoints, and an instant meeting them -/
example : Canon #[0, 10] #[5, 20] rfl ∧ Canon #[3, 5, 15] #[4, 12, 20] rfl := by
  refine ⟨⟨?_, ?_⟩, ⟨?_, ?_⟩⟩ <;> intro k h <;> simp at h <;> (first | omega | skip) <;>
    (rcases k with _ | _ | _ | k <;> simp at h ⊢ <;> omega)
example : InI (jitintersect #[0, 10] #[5, 20] #[3, 5, 15] #[4, 12, 20] rfl rfl) 11 := ⟨1, by decide +kernel, by decide +kernel, by decide +kernel⟩
example : InD (jitdiff #[0] #[10] #[2, 5] #[3, 6] rfl rfl) 4 := ⟨1, by decide +kernel, by decide +kernel, by decide +kernel⟩

/-! non-vacuity / concrete sweeps (shared starts, shared ends, end == start, nested, interleaved) -/
example : (jitintersect #[0, 10] #[5, 20] #[3, 5, 15] #[4, 12, 20] rfl rfl).st = #[3, 10, 15] := by decide +kernel
example : (jitintersect #[0, 10] #[5, 20] #[3, 5, 15] #[4, 12, 20] rfl rfl).en = #[4, 12, 20] := by decide +kernel
example : (jitunion #[0, 10] #[5, 20] #[3, 30] #[8, 40] rfl rfl).st = #[0, 10, 30] := by decide +kernel
example : (jitdiff #[0] #[10] #[2, 5] #[3, 6] rfl rfl).st = #[0, 3, 6] := by decide +kernel
example : (jitdiff #[0] #[10] #[2, 5] #[3, 6] rfl rfl).en = #[2, 5, 10] := by decide +kernel
-- A op A, A op ∅
example : ISet.union #[(0, 5), (7, 9)] #[(0, 5), (7, 9)] = #[(0, 5), (7, 9)] := by decide +kernel
example : ISet.intersect #[(0, 5), (7, 9)] #[(0, 5), (7, 9)] = #[(0, 5), (7, 9)] := by decide +kernel
example : ISet.diff #[(0, 5), (7, 9)] #[(0, 5), (7, 9)] = #[] := by decide +kernel
example : ISet.union #[(0, 5), (7, 9)] #[] = #[(0, 5), (7, 9)] := by decide +kernel
example : ISet.diff #[(0, 5), (7, 9)] #[] = #[(0, 5), (7, 9)] := by decide +kernel
example : ISet.intersect #[(0, 5), (7, 9)] #[] = #[] := by decide +kernel

end Pyn.C02

import PynProofs.SetOps
import PynModel.Core.ISet
/-!
# C02 — union / intersect / set_diff are the Boolean set operations on the time line

Model: `Pyn.jitintersect`, `Pyn.jitunion`, `Pyn.jitdiff`, `Pyn.jitunionIsets` (index-level
transliterations, all reads `a[i]'h`), public operations = constructor ∘ kernel (`Pyn.ISet.*`).

Proved here (all sizes, all coincidence patterns): *soundness of intersect* — every interval the
sweep emits is exactly `A[i] ∩ B[j]` for the parent indices it records, has positive length, hence
every instant of the result lies in both operands.  Completeness of intersect and the pointwise
statements for union and set_diff are **not proved yet**: they are decided by the exhaustive
order-type correspondence + pointwise oracle of the check (stated in the evidence).
-/
namespace Pyn.C02
open Pyn

/-- **intersect, soundness and parents.**  For any two interval arrays (no hypothesis), the k-th
emitted interval is `[max(s1[i], s2[j]), min(e1[i], e2[j])]` for its recorded parents `(i, j)`,
those parents overlap with positive length, and the three output arrays have equal length. -/
theorem intersect_entries (s1 e1 s2 e2 : Array Int) (h1 : s1.size = e1.size) (h2 : s2.size = e2.size) :
    IOutOK s1 e1 s2 e2 h1 h2 (jitintersect s1 e1 s2 e2 h1 h2) :=
  jitintersectLoop_ok s1 e1 s2 e2 h1 h2 0 0 {} ⟨rfl, rfl, fun k hk => by simp at hk⟩

/-- **intersect ⊆ A ∧ B, pointwise.**  Every instant of an emitted interval lies in an interval of
A and in an interval of B; when the operands have `s ≤ e` the emitted interval has `start < end`. -/
theorem intersect_sound (s1 e1 s2 e2 : Array Int) (h1 : s1.size = e1.size) (h2 : s2.size = e2.size)
    (k : Nat) (hk : k < (jitintersect s1 e1 s2 e2 h1 h2).st.size) (x : Int)
    (hx1 : (jitintersect s1 e1 s2 e2 h1 h2).st[k] ≤ x)
    (hx2 : x ≤ (jitintersect s1 e1 s2 e2 h1 h2).en[k]'((intersect_entries s1 e1 s2 e2 h1 h2).1 ▸ hk)) :
    InIv s1 e1 h1 x ∧ InIv s2 e2 h2 x := by
  obtain ⟨ha, hb, hc⟩ := intersect_entries s1 e1 s2 e2 h1 h2
  obtain ⟨hi, hj, hs, he, _, _⟩ := hc k hk (ha ▸ hk) (hb ▸ hk)
  rw [hs] at hx1; rw [he] at hx2
  exact ⟨⟨_, hi, by omega, by omega⟩, ⟨_, hj, by omega, by omega⟩⟩

theorem intersect_positive (s1 e1 s2 e2 : Array Int) (h1 : s1.size = e1.size) (h2 : s2.size = e2.size)
    (hc1 : ∀ i, (h : i < s1.size) → s1[i] < e1[i]'(h1 ▸ h)) (hc2 : ∀ j, (h : j < s2.size) → s2[j] < e2[j]'(h2 ▸ h))
    (k : Nat) (hk : k < (jitintersect s1 e1 s2 e2 h1 h2).st.size) :
    (jitintersect s1 e1 s2 e2 h1 h2).st[k] <
      (jitintersect s1 e1 s2 e2 h1 h2).en[k]'((intersect_entries s1 e1 s2 e2 h1 h2).1 ▸ hk) := by
  obtain ⟨ha, hb, hc⟩ := intersect_entries s1 e1 s2 e2 h1 h2
  obtain ⟨hi, hj, hs, he, h3, h4⟩ := hc k hk (ha ▸ hk) (hb ▸ hk)
  rw [hs, he]
  have := hc1 _ hi; have := hc2 _ hj
  omega

/-! non-vacuity / concrete sweeps (shared starts, shared ends, end == start, nested, interleaved) -/
example : (jitintersect #[0, 10] #[5, 20] #[3, 5, 15] #[4, 12, 20] rfl rfl).st = #[3, 10, 15] := by decide +kernel
example : (jitintersect #[0, 10] #[5, 20] #[3, 5, 15] #[4, 12, 20] rfl rfl).en = #[4, 12, 20] := by decide +kernel
example : (jitunion #[0, 10] #[5, 20] #[3, 30] #[8, 40] rfl rfl).st = #[0, 10, 30] := by decide +kernel
example : (jitdiff #[0] #[10] #[2, 5] #[3, 6] rfl rfl).st = #[0, 3, 6] := by decide +kernel
example : (jitdiff #[0] #[10] #[2, 5] #[3, 6] rfl rfl).en = #[2, 5, 10] := by decide +kernel
-- A op A, A op ∅
example : ISet.union #[(0, 5), (7, 9)] #[(0, 5), (7, 9)] = #[(0, 5), (7, 9)] := by decide +kernel
example : ISet.intersect #[(0, 5), (7, 9)] #[(0, 5), (7, 9)] = #[(0, 5), (7, 9)] := by decide +kernel
example : ISet.diff #[(0, 5), (7, 9)] #[(0, 5), (7, 9)] = #[] := by decide +kernel
example : ISet.union #[(0, 5), (7, 9)] #[] = #[(0, 5), (7, 9)] := by decide +kernel
example : ISet.diff #[(0, 5), (7, 9)] #[] = #[(0, 5), (7, 9)] := by decide +kernel
example : ISet.intersect #[(0, 5), (7, 9)] #[] = #[] := by decide +kernel

end Pyn.C02

import PynModel.DriverExt

partial def loop (h : IO.FS.Stream) (out : IO.FS.Stream) : IO Unit := do
  let line ← h.getLine
  if line.isEmpty then return ()
  out.putStrLn (Pyn.stepAll line)
  loop h out

def main : IO Unit := do
  let out ← IO.getStdout
  loop (← IO.getStdin) out
  out.flush

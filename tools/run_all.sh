#!/bin/bash
# tools/run_all.sh [tier] [seed ...] : every claimed check on the CURRENT /repo tree, 6 at a time; prints one line per run
cd "$(dirname "$0")/.."
tier=${1:-quick}; shift
seeds=${@:-0}
ids=$(python3 -c "import json;print(' '.join(c['property_id'] for c in json.load(open('MANIFEST.json'))['checks']))")
mkdir -p .work/runall
for s in $seeds; do
  for id in $ids; do echo "$id $s"; done
done | xargs -P 6 -L 1 bash -c 'VERIF_SEED=$1 ./check $0 '"$tier"' > .work/runall/$0_$1.log 2>&1; echo "$0 seed=$1 exit=$? $(grep -c "^VIOLATION" .work/runall/$0_$1.log) violations; $(tail -1 .work/runall/$0_$1.log | cut -c1-150)"'

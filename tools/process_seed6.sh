#!/bin/bash
# tools/process_seed4.sh <ID> : confirm round-6 seeds /tmp/seedwork6/out_<ID>_{a,b} and run the property's check against them
cd /verif
for v in a b; do
  src=/tmp/seedwork6/out_$1_$v
  [ -f $src/patch.diff ] || { echo "$1$v: no patch"; continue; }
  python3 tools/verify_seed.py $src $1_r6$v > .work/vs_$1_r6$v.log 2>&1
  tail -1 .work/vs_$1_r6$v.log
  [ -d seeded/$1_r6$v ] && tools/seed_matrix.sh $1_r6$v 2>&1 | tail -1 | cut -c1-200
done

#!/bin/bash
# tools/seed_matrix.sh [seed-name ...] : every seeded change vs the check of the property it breaks (quick tier), each in a
# scratch worktree of /repo (PYNAPPLE_REPO); appends one line per seed to seeded/RESULTS.txt
cd "$(dirname "$0")/.."
names=${@:-$(ls seeded | grep -v RESULTS)}
for n in $names; do
  [ -f seeded/$n/patch.diff ] || continue
  id=$(python3 -c "import json;print(json.load(open('seeded/$n/meta.json'))['property'])" 2>/dev/null || echo ${n:0:3})
  out=$(tools/try_seed.sh $n $id 2>&1 | tail -2 | tr '\n' ' ')
  rc=$(echo "$out" | grep -c VIOLATION)
  line="$n $id $([ $rc -gt 0 ] && echo CAUGHT || echo MISSED) :: $(echo $out | cut -c1-220)"
  echo "$line"
  grep -v "^$n " seeded/RESULTS.txt > seeded/RESULTS.new 2>/dev/null; echo "$line" >> seeded/RESULTS.new; sort seeded/RESULTS.new > seeded/RESULTS.txt; rm -f seeded/RESULTS.new
done

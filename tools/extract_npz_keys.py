#!/usr/bin/env python3
"""Translator for C11: regenerate lean/PynGen/NpzKeys.lean from the CURRENT source of /repo.

For every class with a `save` method: the keys it writes (keywords of `np.savez(...)`, `dicttosave["k"] = ...`
assignments; a write under an `if` is *optional*).  For every `_from_npz_reader`: the keys it reads (`file["k"]`; a read
is *guarded* when it sits under an `if "k" in file...` / `if has_<x>` test), the exclusion list of the kwargs-forwarding
reader, and whether it forwards the remaining keys to the class constructor.  Plus the constructor parameter names and
the EXPECTED_ENTRIES table of the type detection.  Shapes the walker does not recognise are reported in `unrecognised`
(the Lean theorem requires that list to be empty)."""
import ast, os, sys, json

REPO = os.environ.get("PYNAPPLE_REPO", "/repo")
OUT = os.path.join(os.path.dirname(os.path.dirname(os.path.abspath(__file__))), "lean", "PynGen", "NpzKeys.lean")
FILES = ["pynapple/core/time_series.py", "pynapple/core/ts_group.py", "pynapple/core/interval_set.py", "pynapple/core/base_class.py"]


def const_str(n):
    return n.value if isinstance(n, ast.Constant) and isinstance(n.value, str) else None


class Walk:
    def __init__(self):
        self.writes, self.reads, self.excl, self.forwards, self.params, self.bases, self.leftover = {}, {}, {}, {}, {}, {}, {}
        self.unrec = []

    def visit_class(self, cls, path):
        self.bases[cls.name] = [b.id if isinstance(b, ast.Name) else getattr(b, "attr", "?") for b in cls.bases]
        for fn in cls.body:
            if not isinstance(fn, ast.FunctionDef):
                continue
            if fn.name == "save":
                self.writes[cls.name] = self.save_keys(fn, cls.name)
            elif fn.name == "_from_npz_reader":
                self.reader(fn, cls.name)
            elif fn.name == "__init__":
                self.params[cls.name] = [a.arg for a in fn.args.args[1:]] + [a.arg for a in fn.args.kwonlyargs]

    def save_keys(self, fn, cname):
        keys = []

        def walk(stmts, optional):
            for s in stmts:
                if isinstance(s, ast.If):
                    walk(s.body, True); walk(s.orelse, True); continue
                if isinstance(s, (ast.For, ast.While, ast.With, ast.Try)):
                    for n in ast.walk(s):
                        if isinstance(n, ast.Subscript) and isinstance(n.ctx, ast.Store) and isinstance(n.value, ast.Name) and n.value.id == "dicttosave":
                            self.unrec.append("%s.save: dicttosave write inside a loop" % cname)
                    continue
                for n in ast.walk(s):
                    if isinstance(n, ast.Call) and isinstance(n.func, ast.Attribute) and n.func.attr == "savez":
                        for kw in n.keywords:
                            if kw.arg is None:
                                if not (isinstance(kw.value, ast.Name) and kw.value.id == "dicttosave"):
                                    self.unrec.append("%s.save: **%s" % (cname, ast.dump(kw.value)[:40]))
                            else:
                                keys.append((kw.arg, optional))
                    if isinstance(n, ast.Assign):
                        for t in n.targets:
                            if isinstance(t, ast.Subscript) and isinstance(t.value, ast.Name) and t.value.id == "dicttosave":
                                k = const_str(t.slice)
                                if k is None:
                                    self.unrec.append("%s.save: non-literal key" % cname)
                                else:
                                    keys.append((k, optional))
                        # dict literal initialisation
                        if isinstance(n.value, ast.Dict) and any(isinstance(t, ast.Name) and t.id == "dicttosave" for t in n.targets):
                            for k in n.value.keys:
                                keys.append((const_str(k), optional))
        walk(fn.body, False)
        return keys

    def reader(self, fn, cname):
        reads, excl, fwd = [], [], False
        # a reader that iterates over `set(file.keys()) - <exclusions>` treats every other key as metadata
        self.leftover[cname] = any(isinstance(n, ast.BinOp) and isinstance(n.op, ast.Sub) and
                                   any(isinstance(m, ast.Attribute) and m.attr == "keys" for m in ast.walk(n.left))
                                   for n in ast.walk(fn))
        guards_vars = {}   # has_data -> "d"

        def guard_keys(test):
            ks = []
            for n in ast.walk(test):
                if isinstance(n, ast.Compare) and len(n.ops) == 1 and isinstance(n.ops[0], ast.In):
                    k = const_str(n.left)
                    if k is not None:
                        ks.append(k)
                if isinstance(n, ast.Name) and n.id in guards_vars:
                    ks.append(guards_vars[n.id])
            return ks

        def walk(stmts, guarded):
            nonlocal fwd
            for s in stmts:
                if isinstance(s, ast.Assign) and isinstance(s.value, ast.Compare) and len(s.targets) == 1 and isinstance(s.targets[0], ast.Name):
                    ks = guard_keys(s.value)
                    if ks:
                        guards_vars[s.targets[0].id] = ks[0]
                if isinstance(s, ast.If):
                    g = guarded | set(guard_keys(s.test))
                    scan(s.test, guarded)
                    walk(s.body, g); walk(s.orelse, guarded); continue
                if isinstance(s, (ast.For, ast.While)):
                    scan(s.iter if isinstance(s, ast.For) else s.test, guarded)
                    walk(s.body, guarded); continue
                scan(s, guarded)

        def scan(node, guarded):
            nonlocal fwd
            for n in ast.walk(node):
                if isinstance(n, ast.Subscript) and isinstance(n.value, ast.Name) and n.value.id == "file" and isinstance(n.ctx, ast.Load):
                    k = const_str(n.slice)
                    if k is None:
                        if not (isinstance(n.slice, ast.Name)):
                            self.unrec.append("%s reader: file[<expr>]" % cname)
                        continue
                    reads.append((k, k in guarded))
                if isinstance(n, (ast.List, ast.Set)) and n.elts and all(const_str(e) is not None for e in n.elts):
                    excl.extend(const_str(e) for e in n.elts)
                if isinstance(n, ast.Call):
                    for kw in n.keywords:
                        if kw.arg is None and isinstance(kw.value, ast.Name) and kw.value.id == "kwargs" \
                                and isinstance(n.func, ast.Name) and n.func.id == "cls":
                            fwd = True
        walk(fn.body, set())
        self.reads[cname] = sorted(set(reads))
        self.excl[cname] = sorted(set(excl))
        self.forwards[cname] = fwd


def expected_entries():
    src = open(os.path.join(REPO, "pynapple/io/interface_npz.py")).read()
    for n in ast.walk(ast.parse(src)):
        if isinstance(n, ast.Assign) and any(isinstance(t, ast.Name) and t.id == "EXPECTED_ENTRIES" for t in n.targets):
            return {const_str(k): sorted(const_str(e) for e in v.elts) for k, v in zip(n.value.keys, n.value.values)}
    return {}


def extract():
    w = Walk()
    for f in FILES:
        tree = ast.parse(open(os.path.join(REPO, f)).read())
        for n in tree.body:
            if isinstance(n, ast.ClassDef):
                w.visit_class(n, f)
    classes = ["Ts", "Tsd", "TsdFrame", "TsdTensor", "TsGroup", "IntervalSet"]

    def inherited(table, c):
        seen = set()
        while c is not None and c not in seen:
            seen.add(c)
            if c in table:
                return table[c], c
            bs = [b for b in w.bases.get(c, []) if b in w.bases]
            c = bs[0] if bs else None
        return None, None
    out = dict(classes=classes, writes={}, reads={}, excl={}, forwards={}, params={}, expected=expected_entries(), unrecognised=w.unrec)
    for c in classes:
        wr, _ = inherited(w.writes, c)
        rd, owner = inherited(w.reads, c)
        if wr is None:
            out["unrecognised"].append("no save() found for " + c); wr = []
        if rd is None:
            out["unrecognised"].append("no _from_npz_reader found for " + c); rd = []; owner = c
        # merge duplicates: a key written both unconditionally and optionally counts as unconditional
        m = {}
        for k, opt in wr:
            m[k] = m.get(k, True) and opt
        out["writes"][c] = sorted(m.items())
        out["reads"][c] = rd
        out["excl"][c] = w.excl.get(owner, [])
        out["forwards"][c] = w.forwards.get(owner, False)
        out.setdefault("leftover", {})[c] = w.leftover.get(owner, False)
        pr, _ = inherited(w.params, c)
        out["params"][c] = pr or []
    return out


def lean_str(s):
    return '"' + s + '"'


def render(d):
    L = ["/-! GENERATED by tools/extract_npz_keys.py from the current /repo source — do not edit. -/",
         "namespace Pyn.Gen", ""]
    def table(name, ty, rows):
        L.append("def %s : List (String × %s) := [" % (name, ty))
        L.append(",\n".join("  (%s, %s)" % (lean_str(c), v) for c, v in rows))
        L.append("]\n")
    pairs = lambda xs: "[" + ", ".join("(%s, %s)" % (lean_str(k), "true" if b else "false") for k, b in xs) + "]"
    strs = lambda xs: "[" + ", ".join(lean_str(x) for x in xs) + "]"
    table("npzWrites", "List (String × Bool)", [(c, pairs(d["writes"][c])) for c in d["classes"]])
    table("npzReads", "List (String × Bool)", [(c, pairs(d["reads"][c])) for c in d["classes"]])
    table("npzExcluded", "List String", [(c, strs(d["excl"][c])) for c in d["classes"]])
    table("npzForwards", "Bool", [(c, "true" if d["forwards"][c] else "false") for c in d["classes"]])
    table("npzLeftoverAsMetadata", "Bool", [(c, "true" if d["leftover"][c] else "false") for c in d["classes"]])
    table("ctorParams", "List String", [(c, strs(d["params"][c])) for c in d["classes"]])
    table("npzExpected", "List String", [(c, strs(v)) for c, v in d["expected"].items()])
    L.append("def npzUnrecognised : List String := " + strs(d["unrecognised"]))
    L.append("\nend Pyn.Gen\n")
    return "\n".join(L)


def main():
    d = extract()
    txt = render(d)
    os.makedirs(os.path.dirname(OUT), exist_ok=True)
    old = open(OUT).read() if os.path.exists(OUT) else None
    if old != txt:
        open(OUT, "w").write(txt)
    if "--json" in sys.argv:
        print(json.dumps(d, indent=1))
    return d, old != txt


if __name__ == "__main__":
    d, changed = main()
    print("NpzKeys.lean %s; unrecognised: %s" % ("rewritten" if changed else "unchanged", d["unrecognised"]))

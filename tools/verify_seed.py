#!/usr/bin/env python3
"""tools/verify_seed.py <src-dir-with patch.diff+demo.py[+meta.json]> <name>
Confirms a seeded change independently, in a scratch worktree of /repo (never in /repo):
  1. demo.py exits 0 on the unchanged tree, 2. non-zero with the patch,
  3. every test of BASELINE stable_pass still passes with the patch.
On success stores seeded/<name>/{patch.diff,demo.py,meta.json}."""
import json, os, shutil, subprocess, sys, xml.etree.ElementTree as ET
src, name = sys.argv[1], sys.argv[2]
WT = "/tmp/seedverify_%s" % name
PY = "/venv/bin/python"
env = dict(os.environ, PYTHONPATH=WT, NUMBA_CACHE_DIR=WT + "/.numba_cache", HDF5_USE_FILE_LOCKING="FALSE")
def sh(cmd, **kw):
    return subprocess.run(cmd, shell=True, capture_output=True, text=True, **kw)
sh("git -C /repo worktree remove --force %s" % WT)
r = sh("git -C /repo worktree add --detach %s HEAD" % WT); assert r.returncode == 0, r.stderr
try:
    # untracked fixtures the suite may need are identical in a worktree (tracked files only)
    d0 = subprocess.run([PY, os.path.abspath(os.path.join(src, "demo.py"))], cwd=WT, env=env, capture_output=True, text=True, timeout=900)
    r = sh("git -C %s apply %s" % (WT, os.path.abspath(os.path.join(src, "patch.diff"))))
    if r.returncode != 0:       # the base moved (later fix: commits): three-way
        r = sh("git -C %s apply -3 %s" % (WT, os.path.abspath(os.path.join(src, "patch.diff"))))
    assert r.returncode == 0, r.stderr
    which = subprocess.run([PY, "-c", "import pynapple;print(pynapple.__file__)"], cwd=WT, env=env, capture_output=True, text=True).stdout.strip()
    assert which.startswith(WT), which
    d1 = subprocess.run([PY, os.path.abspath(os.path.join(src, "demo.py"))], cwd=WT, env=env, capture_output=True, text=True, timeout=900)
    print("demo unchanged exit", d0.returncode, "| with change exit", d1.returncode)
    jx = WT + "/junit.xml"
    t = subprocess.run([PY, "-m", "pytest", "-q", "-p", "no:cacheprovider", "--timeout=900", "--continue-on-collection-errors",
                        "--junitxml=" + jx], cwd=WT, env=env, capture_output=True, text=True, timeout=7200)
    summary = [l for l in t.stdout.splitlines() if " passed" in l or " failed" in l][-1:]
    base = set(json.load(open("/root/.vp/BASELINE.json"))["stable_pass"])
    passed = set()
    for tc in ET.parse(jx).getroot().iter("testcase"):
        if not any(c.tag in ("failure", "error", "skipped") for c in tc):
            passed.add(tc.get("classname") + "::" + tc.get("name"))
    missing = sorted(base - passed)
    print("pytest:", summary, "| stable_pass tests no longer passing:", len(missing), missing[:5])
    ok = d0.returncode == 0 and d1.returncode != 0 and not missing
    if ok:
        dst = os.path.join("/verif/seeded", name); os.makedirs(dst, exist_ok=True)
        for f in ("patch.diff", "demo.py"):
            if os.path.abspath(src) != os.path.abspath(dst):
                shutil.copy(os.path.join(src, f), dst)
        meta = {}
        if os.path.exists(os.path.join(src, "meta.json")):
            meta = json.load(open(os.path.join(src, "meta.json")))
        meta.update(confirmed=dict(demo_unchanged_exit=d0.returncode, demo_with_change_exit=d1.returncode,
                                   pytest_summary_with_change=summary, stable_pass_missing=0,
                                   how="tools/verify_seed.py in a scratch worktree of /repo (HEAD %s)" % sh("git -C /repo rev-parse --short HEAD").stdout.strip()),
                    demo_output_with_change=(d1.stdout + d1.stderr)[-600:])
        json.dump(meta, open(os.path.join(dst, "meta.json"), "w"), indent=1)
    print("CONFIRMED" if ok else "REJECTED", name)
finally:
    sh("git -C /repo worktree remove --force %s" % WT)
    shutil.rmtree(WT, ignore_errors=True)

#!/usr/bin/env python3
"""Translator for C10: regenerate lean/PynGen/InplaceSites.lean from the CURRENT source of /repo.

Lists every syntactic in-place write in pynapple/core and pynapple/process (jitted kernels included):
augmented assignments, subscript / attribute-subscript assignments, `.sort()`, `.fill()`, `.resize()`, `np.put / copyto /
place / putmask`, `out=` and `inplace=True` arguments — each with its enclosing function, the ROOT name of the written object
and how that root is bound inside the function:
  fresh   bound (only) by allocator calls / literals / arithmetic that creates a new array in this function
  scalar  bound by constants, len(), int()/float() or arithmetic on such (loop counters)
  param   a parameter of the function          (a write through it modifies the caller's object)
  self    an attribute of self                  (a write modifies the object the method was called on)
  global  module-level name
  other   anything else (tuple unpacking of a call result, attribute of another object, ...)
Sites whose root is not `fresh`/`scalar` must be justified in the hand-written whitelist of PynProps/C10.lean.
"""
import ast, os, sys, json

REPO = os.environ.get("PYNAPPLE_REPO", "/repo")
OUT = os.path.join(os.path.dirname(os.path.dirname(os.path.abspath(__file__))), "lean", "PynGen", "InplaceSites.lean")
DIRS = ["pynapple/core", "pynapple/process"]
ALLOC = {"zeros", "ones", "empty", "full", "array", "arange", "linspace", "hstack", "vstack", "concatenate", "stack", "copy", "zeros_like",
         "ones_like", "empty_like", "full_like", "asarray_copy", "repeat", "tile", "sort", "unique", "where", "diff", "cumsum", "round", "around",
         "abs", "transpose", "sum", "mean", "sinc", "blackman", "outer", "meshgrid", "DataFrame", "Series", "dict", "list", "set", "deepcopy",
         "nonzero", "argsort", "searchsorted", "histogram", "digitize", "atleast_2d", "atleast_1d", "gaussian", "hamming", "fftfreq", "fft",
         "to_dict", "astype", "flatten", "tolist", "from_dict", "drop", "reset_index", "join", "concat", "reshape_copy", "format_timestamps",
         "return_timestamps", "isnan", "any", "all", "logical_and", "logical_or", "exp", "log", "prod", "tile", "nanmin", "nanmax", "squeeze_copy",
         "sort_timestamps", "convert_to_numpy_array", "as_dataframe", "as_series", "set_axis", "to_numpy", "nan_to_num", "maximum", "minimum", "full_like"}
SCALAR_CALLS = {"len", "int", "float", "bool", "range", "min", "max", "ceil", "floor", "rint", "str", "enumerate", "sum_scalar", "prod_scalar"}


def root_of(node):
    n = node
    via_self = False
    while isinstance(n, (ast.Subscript, ast.Attribute)):
        if isinstance(n, ast.Attribute) and isinstance(n.value, ast.Name) and n.value.id == "self":
            return "self." + n.attr, "self"
        n = n.value
    if isinstance(n, ast.Name):
        return n.id, None
    if isinstance(n, ast.Call):
        return "<call>", "other"
    return "<expr>", "other"


def call_name(c):
    f = c.func
    if isinstance(f, ast.Attribute):
        return f.attr
    if isinstance(f, ast.Name):
        return f.id
    return ""


def value_kind(v):
    """how a right-hand side binds a name"""
    if isinstance(v, ast.Constant):
        return "scalar"
    if isinstance(v, (ast.List, ast.Dict, ast.Set, ast.ListComp, ast.DictComp, ast.SetComp, ast.Tuple)):
        return "fresh"
    if isinstance(v, ast.Call):
        nm = call_name(v)
        if nm in SCALAR_CALLS:
            return "scalar"
        if nm in ALLOC or nm == "copy":
            return "fresh"
        # x.reshape(...) / x.view(...) / x.ravel(): same buffer as x
        if nm in ("reshape", "view", "ravel", "squeeze", "swapaxes") and isinstance(v.func, ast.Attribute) and isinstance(v.func.value, ast.Name):
            return "alias:" + v.func.value.id
        return "other"
    if isinstance(v, ast.BinOp):
        a, b = value_kind(v.left), value_kind(v.right)
        if a == "scalar" and b == "scalar":
            return "scalar"
        return "fresh"            # arithmetic on arrays allocates a new array
    if isinstance(v, ast.UnaryOp):
        return value_kind(v.operand) if value_kind(v.operand) == "scalar" else "fresh"
    if isinstance(v, ast.Compare):
        return "fresh"
    if isinstance(v, ast.Subscript):
        # basic slicing makes a view of its base: same provenance as the base; integer / fancy / boolean / .loc indexing
        # yields a scalar or a copy
        if isinstance(v.slice, (ast.Slice,)) or (isinstance(v.slice, ast.Tuple) and any(isinstance(e, ast.Slice) for e in v.slice.elts)):
            base = v.value
            while isinstance(base, (ast.Subscript,)):
                base = base.value
            if isinstance(base, ast.Name):
                return "alias:" + base.id
            return "view"
        return "fresh"
    if isinstance(v, ast.Name):
        return "alias:" + v.id
    if isinstance(v, ast.Attribute):
        if isinstance(v.value, ast.Name) and v.value.id == "self":
            return "self"
        return "attr"
    if isinstance(v, ast.IfExp):
        a, b = value_kind(v.body), value_kind(v.orelse)
        return a if a == b else "other"
    return "other"


def bindings(fn):
    """name -> set of binding kinds within the function"""
    B = {}
    params = {a.arg for a in fn.args.args + fn.args.kwonlyargs + fn.args.posonlyargs}
    if fn.args.vararg: params.add(fn.args.vararg.arg)
    if fn.args.kwarg: params.add(fn.args.kwarg.arg)
    for p in params:
        B.setdefault(p, set()).add("param")
    for n in ast.walk(fn):
        if isinstance(n, ast.Assign):
            for t in n.targets:
                if isinstance(t, ast.Name):
                    B.setdefault(t.id, set()).add(value_kind(n.value))
                elif isinstance(t, ast.Tuple):
                    for e in t.elts:
                        if isinstance(e, ast.Name):
                            k = "other"
                            if isinstance(n.value, ast.Call) and call_name(n.value) in ALLOC | {"jitrestrict_with_count", "jitremove_nan", "jitunion",
                                    "jitintersect", "jitdiff", "jitthreshold", "jitunion_isets", "_jitfix_iset", "histogram2d", "_dropna", "shape"}:
                                k = "fresh"
                            elif isinstance(n.value, ast.Tuple):
                                k = "scalar" if all(isinstance(x, ast.Constant) for x in n.value.elts) else "other"
                            elif isinstance(n.value, ast.Attribute) and n.value.attr == "shape":
                                k = "scalar"
                            B.setdefault(e.id, set()).add(k)
        elif isinstance(n, (ast.For, ast.comprehension)):
            tgt = n.target
            for e in ast.walk(tgt):
                if isinstance(e, ast.Name):
                    B.setdefault(e.id, set()).add("loopvar")
        elif isinstance(n, ast.AugAssign) and isinstance(n.target, ast.Name):
            pass
        elif isinstance(n, ast.With):
            for it in n.items:
                if it.optional_vars is not None:
                    for e in ast.walk(it.optional_vars):
                        if isinstance(e, ast.Name):
                            B.setdefault(e.id, set()).add("other")
    return B, params


def classify(root, forced, B, params, depth=0):
    if forced:
        return forced
    kinds = B.get(root)
    if kinds is None:
        return "global"
    res = set()
    for k in kinds:
        if k.startswith("alias:") and depth < 4:
            if k[6:] == root:
                continue          # `x = x[0:n]`, `x = x.reshape(..)`: still the same buffer
            res.add(classify(k[6:], None, B, params, depth + 1))
        elif k in ("view", "elem", "attr", "alias"):
            res.add("other")
        elif k == "loopvar":
            res.add("scalar")
        else:
            res.add(k)
    if not res:
        return "other"
    if res <= {"scalar"}:
        return "scalar"
    if res <= {"fresh", "scalar"}:
        return "fresh"
    if "param" in res:
        return "param"
    if "self" in res:
        return "self"
    return "other"


def extract():
    sites, unrec = [], []
    for d in DIRS:
        for fn in sorted(os.listdir(os.path.join(REPO, d))):
            if not fn.endswith(".py"):
                continue
            mod = fn[:-3]
            tree = ast.parse(open(os.path.join(REPO, d, fn)).read())

            def visit(node, prefix):
                for ch in ast.iter_child_nodes(node):
                    if isinstance(ch, ast.ClassDef):
                        visit(ch, prefix + ch.name + ".")
                    elif isinstance(ch, (ast.FunctionDef, ast.AsyncFunctionDef)):
                        handle(ch, prefix + ch.name)
                        visit(ch, prefix + ch.name + ".")

            def handle(f, qual):
                B, params = bindings(f)
                nested = {id(x) for ch in ast.walk(f) if isinstance(ch, (ast.FunctionDef, ast.Lambda)) and ch is not f for x in ast.walk(ch)}

                def add(kind, target):
                    root, forced = root_of(target)
                    sites.append((mod + ":" + qual, kind, root, classify(root, forced, B, params)))
                for n in ast.walk(f):
                    if id(n) in nested:
                        continue
                    if isinstance(n, ast.AugAssign):
                        add("augassign" if not isinstance(n.target, ast.Name) else "augassign-name", n.target)
                    elif isinstance(n, ast.Assign):
                        for t in n.targets:
                            for tt in (t.elts if isinstance(t, ast.Tuple) else [t]):
                                if isinstance(tt, ast.Subscript):
                                    add("setitem", tt)
                                elif isinstance(tt, ast.Attribute) and not (isinstance(tt.value, ast.Name) and tt.value.id == "self"):
                                    # `obj.attr = value` on something other than self: rebinding an attribute of an object the
                                    # function did not create (e.g. `metadata.index = ...` on a caller's DataFrame) is an in-place write
                                    add("setattr:" + tt.attr, tt.value)
                    elif isinstance(n, ast.Call):
                        nm = call_name(n)
                        if isinstance(n.func, ast.Attribute) and nm in ("sort", "fill", "resize", "itemset", "partition", "setfield", "byteswap_inplace"):
                            if nm == "sort" and isinstance(n.func.value, ast.Name) and n.func.value.id in ("np", "numpy"):
                                pass
                            else:
                                add("method:" + nm, n.func.value)
                        if nm in ("put", "copyto", "place", "putmask", "put_along_axis", "fill_diagonal") and n.args:
                            add("np." + nm, n.args[0])
                        for kw in n.keywords:
                            if kw.arg == "out":
                                add("out=", kw.value)
                            if kw.arg == "inplace" and isinstance(kw.value, ast.Constant) and kw.value.value is True and isinstance(n.func, ast.Attribute):
                                add("inplace=True", n.func.value)
            visit(tree, "")
    return dict(sites=sorted(set(sites)), unrecognised=unrec)


def q(s):
    return '"' + s.replace('"', "'") + '"'


def render(d):
    L = ["/-! GENERATED by tools/extract_inplace_sites.py from the current /repo source — do not edit. -/", "namespace Pyn.Gen", "",
         "/-- (function, kind of write, root name of the written object, how the root is bound in that function) -/",
         "def inplaceSites : List (String × String × String × String) := ["]
    L.append(",\n".join("  (%s, %s, %s, %s)" % tuple(q(x) for x in s) for s in d["sites"]))
    L.append("]\n")
    L.append("end Pyn.Gen\n")
    return "\n".join(L)


def main():
    d = extract()
    txt = render(d)
    old = open(OUT).read() if os.path.exists(OUT) else None
    if old != txt:
        os.makedirs(os.path.dirname(OUT), exist_ok=True)
        open(OUT, "w").write(txt)
    return d, old != txt


if __name__ == "__main__":
    d, changed = main()
    from collections import Counter
    c = Counter(s[3] for s in d["sites"])
    print("InplaceSites.lean %s; %d sites: %s" % ("rewritten" if changed else "unchanged", len(d["sites"]), dict(c)))
    if "--list" in sys.argv:
        for s in d["sites"]:
            if s[3] not in ("fresh", "scalar"):
                print("  ", s)

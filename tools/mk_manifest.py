#!/usr/bin/env python3
"""Regenerate MANIFEST.json from the checks that exist (harness/props/cXX.py + lean/PynProps/CXX.lean)."""
import json, os, importlib.util, re
V = os.path.dirname(os.path.dirname(os.path.abspath(__file__)))
props = [json.loads(l) for l in open(os.path.join(V, "properties.jsonl"))]
LEVELS = json.load(open(os.path.join(V, "tools", "levels.json")))
checks, na = [], []
for p in props:
    pid = p["id"]
    have = os.path.exists(os.path.join(V, "harness", "props", pid.lower() + ".py")) and \
        os.path.exists(os.path.join(V, "lean", "PynProps", pid + ".lean"))
    L = LEVELS.get(pid, {})
    if have:
        checks.append(dict(
            property_id=pid,
            quick_cmd="./check %s quick" % pid,
            thorough_cmd="./check %s thorough" % pid,
            evidence_file="evidence/%s.json" % pid,
            replay_cmd_template="./check %s --replay {path}" % pid,
            engine="lean4-model+correspondence",
            level_claimed=dict(category="proof", text=L.get("text", ""), design_ref=L.get("design_ref", "DESIGN.md section 4, " + pid)),
            level_note=L.get("note", ""),
            technique=L.get("technique", "Lean 4 theorems about a hand-written index-level model, tied to /repo by a differential correspondence check"),
        ))
    else:
        na.append(dict(property_id=pid, reason=L.get("na_reason", "check not built yet in this round (in progress); no claim is made")))
m = dict(
    version=1,
    setup_cmd="cd lean && lake build PynModel PynProofs PynProps pyndriver",
    hooks=dict(guard="PYNAPPLE_VERIF", enable="none needed: no source hooks were added to /repo (py_func, NUMBA_DISABLE_JIT and harness-side wrapping suffice)",
               baseline_off_cmd="cd /repo && /venv/bin/python -m pytest -ra -q -p no:cacheprovider --timeout=900 --continue-on-collection-errors",
               source_commits=[], add_only=True),
    engines=[dict(name="lean4-model+correspondence", path="lean/ , harness/",
                  serves_properties=[c["property_id"] for c in checks],
                  kind_free_text="Lean 4.33 library (model + theorems, Mathlib single modules only in proof files), compiled line-protocol driver of the model, Python harness running real pynapple in-process")],
    checks=checks,
    notes="Every check: lake build of the property's theorem module, #print axioms audit, grep for sorry/axiom/native_decide, differential run model vs implementation, brute-force property oracles on the implementation, known-findings classification (known_findings.json). Exit 0/1/2 as in DESIGN section 6.",
    not_applicable=na,
)
json.dump(m, open(os.path.join(V, "MANIFEST.json"), "w"), indent=1)
print("claimed:", [c["property_id"] for c in checks]); print("not claimed:", [n["property_id"] for n in na])

#!/bin/bash
# tools/try_seed.sh <seed-dir-name> <ID> [<ID> ...] : apply seeded/<name>/patch.diff to /repo, run quick checks, restore
name=$1; shift
cd /verif
git -C /repo diff --quiet || { echo "/repo has uncommitted changes"; exit 3; }
git -C /repo apply /verif/seeded/$name/patch.diff || exit 3
for id in "$@"; do
  ./check $id quick 2>&1 | tail -3
  echo "exit=$?"
done
git -C /repo checkout -- .

#!/bin/bash
# tools/try_seed.sh <seed-dir-name> <ID> [<ID> ...] : apply seeded/<name>/patch.diff to /repo, run quick checks, restore
name=$1; shift
cd /verif
git -C /repo diff --quiet || { echo "/repo has uncommitted changes"; exit 3; }
git -C /repo apply /verif/seeded/$name/patch.diff || exit 3
export VERIF_EVIDENCE_DIR=/verif/.work/seed_evidence   # never overwrite the committed evidence with a mutated run
for id in "$@"; do
  ./check $id quick 2>&1 | tail -3
  echo "exit=$?"
done
git -C /repo checkout -- .
# regenerated tables must describe the clean tree again
python3 /verif/tools/extract_npz_keys.py >/dev/null; python3 /verif/tools/extract_unit_sites.py >/dev/null

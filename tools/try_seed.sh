#!/bin/bash
# tools/try_seed.sh <seed-dir-name> <ID> [<ID> ...] : run quick checks against a scratch worktree of /repo carrying
# seeded/<name>/patch.diff (PYNAPPLE_REPO); /repo itself is not touched; evidence goes to .work/seed_evidence
name=$1; shift
cd /verif
exec 9>/verif/.cache/seed.lock; flock 9     # PynGen tables and the lake build are shared: one trial at a time
WT=/tmp/seedtrial_$$
git -C /repo worktree add -q --detach $WT HEAD || exit 3
trap 'git -C /repo worktree remove --force '$WT' 2>/dev/null; rm -rf '$WT'; unset PYNAPPLE_REPO; python3 /verif/tools/extract_npz_keys.py >/dev/null; python3 /verif/tools/extract_unit_sites.py >/dev/null; python3 /verif/tools/extract_inplace_sites.py >/dev/null' EXIT
git -C $WT apply /verif/seeded/$name/patch.diff 2>/dev/null || git -C $WT apply -3 /verif/seeded/$name/patch.diff || { echo "$name DOES-NOT-APPLY"; exit 3; }
export PYNAPPLE_REPO=$WT VERIF_EVIDENCE_DIR=/verif/.work/seed_evidence
for id in "$@"; do
  ./check $id quick 2>&1 | tail -3
done

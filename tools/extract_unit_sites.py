#!/usr/bin/env python3
"""Translator for C09: regenerate lean/PynGen/UnitSites.lean from the CURRENT source of /repo.

For every function of pynapple/core and pynapple/process that has a unit parameter (`time_units`, `time_unit`, `units`):
  * every call `[nap.]TsIndex.format_timestamps(<expr>, <unit>)` / `return_timestamps(...)`: which parameters of the
    function occur in <expr>, and what <unit> is (`param:<name>`, `lit:<s>`, `default` when omitted, `other`);
  * every call that forwards the unit parameter to a callee (keyword `time_units=`/`time_unit=`/`units=` or positionally),
    with the parameters of the function that occur in the other arguments of that call;
and, for the warning-suppression flags, every use of `nap_config.suppress_*`: whether it occurs only as (part of) the test
of an `if` whose body consists of `warn(...)` / `warnings.warn(...)` calls or a call passing the flag on to a helper.
"""
import ast, os, sys, json

REPO = os.environ.get("PYNAPPLE_REPO", "/repo")
OUT = os.path.join(os.path.dirname(os.path.dirname(os.path.abspath(__file__))), "lean", "PynGen", "UnitSites.lean")
UNIT_PARAMS = ("time_units", "time_unit", "units")
DIRS = ["pynapple/core", "pynapple/process"]


def names_in(node):
    return sorted({n.id for n in ast.walk(node) if isinstance(n, ast.Name)})


def func_name(call):
    f = call.func
    parts = []
    while isinstance(f, ast.Attribute):
        parts.append(f.attr); f = f.value
    if isinstance(f, ast.Name):
        parts.append(f.id)
    return ".".join(reversed(parts))


def unit_expr(node, params):
    if node is None:
        return "default"
    if isinstance(node, ast.Name) and node.id in params:
        return "param:" + node.id
    if isinstance(node, ast.Constant) and isinstance(node.value, str):
        return "lit:" + node.value
    return "other"


def extract():
    sites, forwards, flags, unrec = {}, {}, [], []
    for d in DIRS:
        for fn in sorted(os.listdir(os.path.join(REPO, d))):
            if not fn.endswith(".py"):
                continue
            path = os.path.join(d, fn)
            tree = ast.parse(open(os.path.join(REPO, path)).read())
            mod = fn[:-3]
            # ---- unit sites
            def visit(node, prefix):
                for ch in ast.iter_child_nodes(node):
                    if isinstance(ch, ast.ClassDef):
                        visit(ch, prefix + ch.name + ".")
                    elif isinstance(ch, (ast.FunctionDef, ast.AsyncFunctionDef)):
                        handle(ch, prefix + ch.name)
                        visit(ch, prefix + ch.name + ".")
            def handle(f, qual):
                params = [a.arg for a in f.args.args + f.args.kwonlyargs]
                uparams = [p for p in params if p in UNIT_PARAMS]
                if not uparams:
                    return
                key = mod + ":" + qual
                S, F = [], []
                # names re-bound to the result of a conversion (`x = format_timestamps(<..x..>, u)[...]`)
                converted = set()
                for n in ast.walk(f):
                    if isinstance(n, ast.Assign) and len(n.targets) == 1 and isinstance(n.targets[0], ast.Name):
                        if any(isinstance(c, ast.Call) and func_name(c).endswith("format_timestamps") for c in ast.walk(n.value)):
                            converted.add(n.targets[0].id)
                for n in ast.walk(f):
                    if not isinstance(n, ast.Call):
                        continue
                    name = func_name(n)
                    if name.endswith("format_timestamps") or name.endswith("return_timestamps"):
                        kind = "format" if name.endswith("format_timestamps") else "return"
                        arg0 = n.args[0] if n.args else None
                        u = n.args[1] if len(n.args) > 1 else next((k.value for k in n.keywords if k.arg == "units"), None)
                        used = [p for p in names_in(arg0) if p in params and p not in UNIT_PARAMS] if arg0 is not None else []
                        if arg0 is None:
                            unrec.append("%s: %s without argument" % (key, kind))
                        for p in (used or ["<none>"]):
                            S.append((kind, p, unit_expr(u, params)))
                    else:
                        passed = [k.arg for k in n.keywords if isinstance(k.value, ast.Name) and k.value.id in uparams]
                        passed += ["#%d" % i for i, a in enumerate(n.args) if isinstance(a, ast.Name) and a.id in uparams]
                        if passed:
                            others = []
                            for a in list(n.args) + [k.value for k in n.keywords]:
                                if isinstance(a, ast.Name) and a.id in uparams:
                                    continue
                                others += [(p + "!converted" if p in converted else p) for p in names_in(a)
                                           if p in params and p not in UNIT_PARAMS and p != "self"]
                            F.append((name, sorted(set(others))))
                sites[key] = sorted(set(S))
                forwards[key] = sorted(set((a, tuple(b)) for a, b in F))
            visit(tree, "")
            # ---- suppression flags
            parents = {}
            for n in ast.walk(tree):
                for ch in ast.iter_child_nodes(n):
                    parents[ch] = n
            for n in ast.walk(tree):
                if isinstance(n, ast.Attribute) and n.attr.startswith("suppress_") and isinstance(n.value, ast.Name) and n.value.id == "nap_config":
                    p = n
                    role = "other"
                    while p in parents:
                        q = parents[p]
                        if isinstance(q, ast.If) and any(p is x or p in ast.walk(q.test) for x in [q.test]):
                            def is_warn(st):
                                return isinstance(st, ast.Expr) and isinstance(st.value, ast.Call) and func_name(st.value).split(".")[-1] == "warn"
                            def is_local_assign(st):
                                return isinstance(st, ast.Assign) and all(isinstance(t, ast.Name) for t in st.targets)
                            assigned = {t.id for st in q.body if is_local_assign(st) for t in st.targets}
                            inside = {id(x) for st in q.body for x in ast.walk(st)}
                            fn_node = q
                            while fn_node in parents and not isinstance(fn_node, (ast.FunctionDef, ast.Module)):
                                fn_node = parents[fn_node]
                            leaked = any(isinstance(x, ast.Name) and x.id in assigned and id(x) not in inside for x in ast.walk(fn_node))
                            body_ok = all(is_warn(st) or is_local_assign(st) for st in q.body) and not q.orelse and not leaked
                            role = "if-warn-only" if body_ok else "if-with-effects"
                            break
                        if isinstance(q, ast.Call) and p in q.args + [k.value for k in q.keywords]:
                            role = "passed-to:" + func_name(q)
                            break
                        if isinstance(q, (ast.FunctionDef, ast.ClassDef, ast.Module)):
                            break
                        p = q
                    flags.append((mod + ":" + str(n.lineno), n.attr, role))
    return dict(sites=sites, forwards=forwards, flags=sorted(flags), unrecognised=unrec)


def q(s):
    return '"' + s.replace('"', "'") + '"'


def render(d):
    L = ["/-! GENERATED by tools/extract_unit_sites.py from the current /repo source — do not edit. -/", "namespace Pyn.Gen", ""]
    L.append("/-- function ↦ conversion sites (kind, parameter occurring in the converted expression, unit expression) -/")
    L.append("def unitSites : List (String × List (String × String × String)) := [")
    L.append(",\n".join("  (%s, [%s])" % (q(k), ", ".join("(%s, %s, %s)" % (q(a), q(b), q(c)) for a, b, c in v)) for k, v in sorted(d["sites"].items())))
    L.append("]\n")
    L.append("/-- function ↦ calls that receive the function's unit parameter (callee, parameters occurring in its other arguments) -/")
    L.append("def unitForwards : List (String × List (String × List String)) := [")
    L.append(",\n".join("  (%s, [%s])" % (q(k), ", ".join("(%s, [%s])" % (q(a), ", ".join(q(x) for x in b)) for a, b in v)) for k, v in sorted(d["forwards"].items())))
    L.append("]\n")
    L.append("/-- every use of a `nap_config.suppress_*` flag: (module:line, flag, role) -/")
    L.append("def suppressUses : List (String × String × String) := [")
    L.append(",\n".join("  (%s, %s, %s)" % (q(a), q(b), q(c)) for a, b, c in d["flags"]))
    L.append("]\n")
    L.append("def unitUnrecognised : List String := [" + ", ".join(q(x) for x in d["unrecognised"]) + "]")
    L.append("\nend Pyn.Gen\n")
    return "\n".join(L)


def main():
    d = extract()
    txt = render(d)
    os.makedirs(os.path.dirname(OUT), exist_ok=True)
    old = open(OUT).read() if os.path.exists(OUT) else None
    if old != txt:
        open(OUT, "w").write(txt)
    return d, old != txt


if __name__ == "__main__":
    d, changed = main()
    if "--json" in sys.argv:
        print(json.dumps(d, indent=1, default=list))
    print("UnitSites.lean %s; %d functions with a unit parameter; unrecognised: %s" % (
        "rewritten" if changed else "unchanged", len(d["sites"]), d["unrecognised"]))

"""Reproduce every defect recorded in known_findings.json against the pynapple found on sys.path.
Usage: PYTHONPATH=<tree> python repro_all.py   (prints one line per defect: id, FAILS/ok, observed)"""
import warnings; warnings.simplefilter("ignore")
import os, tempfile
import numpy as np, pynapple as nap
from pynapple.core import _jitted_functions as J
A=lambda *x: np.array(x, dtype=float)
def run(name, f, ok):
    try:
        r = f(); good = ok(r)
    except Exception as e:
        r = "EXC %s %s" % (type(e).__name__, e); good = False
    print("%-28s %s  %s" % (name, "ok   " if good else "FAILS", str(r).replace("\n"," ")))
def canon(v):
    v=np.asarray(v); return bool(np.all(v[:,1]>v[:,0]) and np.all(v[1:,0]>v[:-1,1]))
run("C01-zero-after-inverted", lambda: nap.IntervalSet(start=[5,6], end=[3,6]).values, lambda v: canon(v))
run("C01-subus-trim", lambda: nap.IntervalSet([0,5e-7],[5e-7,1]).values, canon)
run("C01-1us-trim", lambda: nap.IntervalSet([0,1e-6],[1e-6,1]).values, canon)
run("C15-restrict-lead-pyfunc", lambda: J.jitrestrict.py_func(A(10.), A(0.), A(1.)), lambda r: len(r)==0)
run("C15-restrict-empty-pyfunc", lambda: J.jitrestrict.py_func(A(), A(0.), A(1.)), lambda r: len(r)==0)
run("C15-restrictcount-pyfunc", lambda: J.jitrestrict_with_count.py_func(A(10.), A(0.), A(1.)), lambda r: len(r[0])==0)
run("C15-ininterval-pyfunc", lambda: J.jitin_interval.py_func(A(10.), A(0.), A(1.)), lambda r: np.isnan(r).all())
run("C06-before-single-source", lambda: nap.Ts([0.,2.]).value_from(nap.Tsd([1.],[7.]), nap.IntervalSet(0,10), mode="before").values,
    lambda v: np.isnan(v[0]) and v[1]==7)
run("C15-valuefrom-unbound-pyfunc", lambda: J.jitvaluefrom.py_func(A(0.,2.), A(1.), np.array([2]), np.array([1]), A(0.), 0), lambda v: np.isnan(v[0]) and v[1]==0)
run("C08-get-dup-end", lambda: nap.Ts([0.,1.,1.,2.]).get(0,1).t, lambda t: list(t)==[0,1,1])
def tt():
    tsd = nap.Tsd(np.arange(10.), np.arange(10.)); ep = nap.IntervalSet([0, 20, 5],[2, 22, 8])
    return tsd.to_trial_tensor(ep, align="end")
run("C08-trial-tensor-end-empty", tt, lambda o: o.shape==(3,4) and np.isnan(o[2]).all() and list(o[0,1:])==[0,1,2])
def rt():
    d=tempfile.mkdtemp(dir=os.environ.get("VERIF_TMP", None)); g = nap.TsGroup({3: nap.Tsd([0.,1.],[5.,6.]), 1: nap.Tsd([0.5],[7.])})
    g.save(os.path.join(d,"g.npz")); r = nap.load_file(os.path.join(d,"g.npz")); return [list(r[k].values) for k in r.keys()]
run("C11-tsgroup-of-tsd", rt, lambda r: r==[[7.0],[5.0,6.0]])
run("C16-pericont-scatter", lambda: nap.compute_perievent_continuous(nap.Tsd(np.arange(10.), np.arange(10.)+100), nap.Ts([1., 8.]), 3).values[:,0],
    lambda c: np.isnan(c[0]) and np.isnan(c[1]) and list(c[2:])==[100,101,102,103,104])
run("C16-pericont-3events", lambda: nap.compute_perievent_continuous(nap.Tsd(np.arange(10.), np.arange(10.)+100), nap.Ts([1.,5., 8.]), 3).values.shape, lambda s: s==(7,3))
def sh():
    np.random.seed(0); ts = nap.Ts(np.arange(100.5,110,1.), time_support=nap.IntervalSet(100,110))
    return len(nap.shift_timestamps(ts, min_shift=1, max_shift=9))
run("C20-shift-support-offset", sh, lambda n: n==10)
def shg():
    np.random.seed(0); g = nap.TsGroup({0:nap.Ts(np.arange(100.5,110,1.))}, time_support=nap.IntervalSet(100,110))
    return len(nap.shift_timestamps(g, min_shift=1, max_shift=9)[0])
run("C20-shift-group-offset", shg, lambda n: n==10)
def thr():
    x = nap.Tsd([10.,11,12,20,21],[1.,0,1,1,1], time_support=nap.IntervalSet([0,10,20],[4,14,24])); r=x.threshold(0.5); return list(r.t)
run("C07-threshold-multi-epoch", thr, lambda t: t==[10,12,20,21])
run("C07-threshold-n1", lambda: list(nap.Tsd([1.],[5.]).threshold(0).t), lambda t: t==[1])

"""Build, audit and drive the Lean side."""
import fcntl, os, re, subprocess, time
from .common import VERIF

LEAN = os.path.join(VERIF, "lean")
DRIVER = os.path.join(LEAN, ".lake", "build", "bin", "pyndriver")
ALLOWED_AXIOMS = {"propext", "Classical.choice", "Quot.sound"}
FORBIDDEN = re.compile(r"\bsorry\b|\badmit\b|^\s*axiom\s|native_decide|bv_decide|implemented_by|\bunsafe\s|maxHeartbeats\s+0")


def _lock():
    os.makedirs(os.path.join(VERIF, ".cache"), exist_ok=True)
    f = open(os.path.join(VERIF, ".cache", "lake.lock"), "w")
    fcntl.flock(f, fcntl.LOCK_EX)
    return f


def lake(args, timeout=3000):
    lk = _lock()
    try:
        p = subprocess.run(["lake"] + args, cwd=LEAN, capture_output=True, text=True, timeout=timeout)
        return p.returncode, p.stdout + p.stderr
    finally:
        lk.close()


def build(targets):
    """returns (ok, log)"""
    rc, out = lake(["build"] + targets)
    return rc == 0, out


def strip_comments(src):
    # remove /- ... -/ (nested not handled beyond one level) and -- comments
    src = re.sub(r"/-.*?-/", "", src, flags=re.S)
    src = re.sub(r"--.*", "", src)
    return src


def grep_forbidden():
    hits = []
    for root, _, files in os.walk(LEAN):
        if ".lake" in root:
            continue
        for fn in files:
            if fn.endswith(".lean"):
                p = os.path.join(root, fn)
                for i, line in enumerate(strip_comments(open(p).read()).splitlines(), 1):
                    if FORBIDDEN.search(line):
                        hits.append("%s: %s" % (os.path.relpath(p, LEAN), line.strip()))
    return hits


def audit(pid, extra=()):
    """Run `#print axioms` for every theorem listed in PynProps/<pid>.lean (namespace Pyn.<pid>) and in the extra
    modules of the property (PynProps/<name>.lean); returns dict theorem -> sorted axiom list, plus list of problems."""
    res, problems = _audit_one(pid)
    for m in extra:
        r2, p2 = _audit_one(m)
        res.update(r2); problems += p2
    return res, problems


def _audit_one(pid):
    src_path = os.path.join(LEAN, "PynProps", pid + ".lean")
    src = strip_comments(open(src_path).read())
    names = re.findall(r"^\s*theorem\s+([A-Za-z0-9_'.]+)", src, flags=re.M)
    ns_m = re.search(r"^namespace\s+(\S+)", src, flags=re.M)
    nsname = ns_m.group(1) if ns_m else ""
    tmp = os.path.join(VERIF, ".work", "audit_%s_%d.lean" % (pid, os.getpid()))
    with open(tmp, "w") as f:
        f.write("import PynProps.%s\n" % pid)
        for n in names:
            f.write("#print axioms %s\n" % ((nsname + "." + n) if nsname else n))
    lk = _lock()
    try:
        p = subprocess.run(["lake", "env", "lean", tmp], cwd=LEAN, capture_output=True, text=True, timeout=1800)
    finally:
        lk.close()
        try:
            os.remove(tmp)
        except OSError:
            pass
    out = p.stdout + p.stderr
    res, problems = {}, []
    # outputs: "'Pyn.C03.foo' depends on axioms: [propext, Quot.sound]" or "... does not depend on any axioms"
    for m in re.finditer(r"'(\S+?)' depends on axioms: \[([^\]]*)\]", out, flags=re.S):
        res[m.group(1)] = sorted(a.strip() for a in m.group(2).replace("\n", " ").split(",") if a.strip())
    for m in re.finditer(r"'(\S+?)' does not depend on any axioms", out):
        res[m.group(1)] = []
    for n in names:
        full = (nsname + "." + n) if nsname else n
        if full not in res:
            problems.append("no axiom report for %s" % full)
        else:
            bad = [a for a in res[full] if a not in ALLOWED_AXIOMS]
            if bad:
                problems.append("%s depends on %s" % (full, bad))
    if p.returncode != 0:
        problems.append("audit lean exit %d: %s" % (p.returncode, out[-400:]))
    return res, problems


class Driver:
    """Batch interface to the compiled model driver (line protocol)."""

    def __init__(self):
        if not os.path.exists(DRIVER):
            raise RuntimeError("model driver not built: " + DRIVER)
        self.n_lines = 0

    def run(self, lines):
        if not lines:
            return []
        data = "\n".join(lines) + "\n"
        p = subprocess.run([DRIVER], input=data, capture_output=True, text=True, timeout=3000)
        if p.returncode != 0:
            raise RuntimeError("driver failed: " + p.stderr[-500:])
        out = p.stdout.split("\n")
        if out and out[-1] == "":
            out.pop()
        if len(out) != len(lines):
            raise RuntimeError("driver answered %d lines for %d" % (len(out), len(lines)))
        self.n_lines += len(lines)
        return out

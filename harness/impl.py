"""Thin adapters calling the real pynapple (current /repo working tree) on lattice inputs."""
import numpy as np
import pynapple as nap
from pynapple.core import _jitted_functions as J
from .common import ns, ns_arr

import os as _os
_REPO = _os.environ.get("PYNAPPLE_REPO", "/repo").rstrip("/") + "/"     # seeded-mutation trials point this at a scratch worktree
assert nap.__file__.startswith(_REPO), "pynapple is not imported from %s: %s" % (_REPO, nap.__file__)


def farr(ints, scale_ns=1):
    """integer grid -> float seconds as pynapple stores them (rounded to 9 decimals)"""
    return np.round(np.asarray(ints, dtype=np.float64) * (scale_ns / 1e9), 9)


def iset(st, en, scale_ns=1, **kw):
    return nap.IntervalSet(start=farr(st, scale_ns), end=farr(en, scale_ns), **kw)


def iset_ns(ep):
    v = ep.values
    return [ns(x) for x in v[:, 0]], [ns(x) for x in v[:, 1]]


def is_canonical_ns(st, en):
    return all(s < e for s, e in zip(st, en)) and all(en[i] < st[i + 1] for i in range(len(st) - 1))

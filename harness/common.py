"""Shared plumbing of the correspondence / oracle harness (see DESIGN §2.4-2.5, §6)."""
import json, os, random, sys, time, hashlib, traceback

VERIF = os.path.dirname(os.path.dirname(os.path.abspath(__file__)))
os.environ.setdefault("NUMBA_CACHE_DIR", os.path.join(VERIF, ".cache", "numba"))
os.makedirs(os.environ["NUMBA_CACHE_DIR"], exist_ok=True)
WORK = os.path.join(VERIF, ".work")
os.makedirs(WORK, exist_ok=True)

import warnings
warnings.simplefilter("ignore")
import numpy as np


def ns(v):
    """alpha: float seconds -> integer nanoseconds (DESIGN §2.3).  Never compare raw floats."""
    return int(np.rint(float(v) * 1e9))


def ns_arr(a):
    return [ns(x) for x in np.asarray(a, dtype=np.float64).ravel()]


def sec(k):
    """integer ns -> float seconds the way a user would write it"""
    return k / 1e9


def enc(a):
    a = list(a)
    return "-" if len(a) == 0 else ",".join(str(int(x)) for x in a)


def dec(s, conv=int):
    return [] if s == "-" else [conv(x) for x in s.split(",")]


def dec_opt(s):
    return [] if s == "-" else [None if x == "n" else int(x) for x in s.split(",")]


class Ctx:
    """Per-run recorder: counts cases, distinct signatures, failures; classifies known findings."""

    def __init__(self, pid, tier, seed, lean):
        self.pid, self.tier, self.seed, self.lean = pid, tier, seed, lean
        self.rng = random.Random(seed * 1000003 + int(pid[1:]))
        self.evaluations = 0
        self.sigs = set()
        self.samples = []
        self.failures = []        # dicts: kind in {"oracle","corr"}, what, input, impl, model, finding
        self.known_hits = {}      # finding id -> count
        self.skipped = {}         # reason -> count (e.g. float_ambiguous)
        self.dist = {}            # free-form distribution counters
        self.t0 = time.time()
        self.findings = load_findings(pid)
        self.quick = tier == "quick"
        self.deadline = None

    # ---- bookkeeping
    def case(self, sig, sample=None):
        self.evaluations += 1
        if sig is not None:
            self.sigs.add(sig if isinstance(sig, (str, int, tuple)) else repr(sig))
        if sample is not None and len(self.samples) < 6:
            self.samples.append(sample)

    def count(self, key, n=1):
        self.dist[key] = self.dist.get(key, 0) + n

    def skip(self, reason):
        self.skipped[reason] = self.skipped.get(reason, 0) + 1

    def fail(self, kind, what, inp, impl=None, model=None, expected=None, finding_ctx=None):
        """kind: 'oracle' (property false on the implementation for `inp`) or 'corr' (impl != model)."""
        rec = dict(kind=kind, what=what, input=inp, impl=impl, model=model, expected=expected)
        f = self.match_finding(rec, finding_ctx)
        if f is not None:
            self.known_hits[f["id"]] = self.known_hits.get(f["id"], 0) + 1
            return
        if len(self.failures) < 200:
            self.failures.append(rec)
        else:
            self.count("failures_dropped")

    def match_finding(self, rec, fctx):
        from . import findings as F
        for f in self.findings:
            if f.get("status") != "open":
                continue
            pred = getattr(F, f["predicate"], None)
            if pred is None:
                continue
            try:
                if pred(rec, fctx):
                    return f
            except Exception:
                pass
        return None

    def time_left(self, budget):
        return budget - (time.time() - self.t0)


def load_findings(pid):
    p = os.path.join(VERIF, "known_findings.json")
    if not os.path.exists(p):
        return []
    d = json.load(open(p))
    return [f for f in d.get("findings", []) if f["property"] == pid]


def jsonable(x):
    if isinstance(x, dict):
        return {str(k): jsonable(v) for k, v in x.items()}
    if isinstance(x, (list, tuple, set)):
        return [jsonable(v) for v in x]
    if isinstance(x, (np.integer,)):
        return int(x)
    if isinstance(x, (np.floating,)):
        return float(x)
    if isinstance(x, np.ndarray):
        return jsonable(x.tolist())
    if isinstance(x, (str, int, float, bool)) or x is None:
        return x
    return repr(x)

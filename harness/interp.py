"""Run the interpreted twins of the kernels (process started with NUMBA_DISABLE_JIT=1) on a list of cases with
bounds-checking arrays; prints one JSON list of outcomes.  usage: python -m harness.interp <cases.json> <out.json>"""
import json, os, sys
assert os.environ.get("NUMBA_DISABLE_JIT") == "1"
import warnings; warnings.simplefilter("ignore")
import numpy as np


class CA(np.ndarray):
    """ndarray that rejects negative integer indices (Python would wrap them silently; a compiled kernel with
    boundscheck off reads before the buffer).  Out-of-range non-negative indices already raise IndexError."""
    allow_negative = False

    def _chk(self, idx):
        if CA.allow_negative:
            return
        items = idx if isinstance(idx, tuple) else (idx,)
        for it in items:
            if isinstance(it, (int, np.integer)) and it < 0:
                raise IndexError("negative index %d" % it)

    def __getitem__(self, idx):
        self._chk(idx)
        return super().__getitem__(idx)

    def __setitem__(self, idx, v):
        self._chk(idx)
        return super().__setitem__(idx, v)


def W(x):
    return np.asarray(x).view(CA)


def main():
    from . import kernels
    cases = json.load(open(sys.argv[1]))
    out = []
    for kernel, a in cases:
        CA.allow_negative = kernel in ("removenan",)      # index_nan[-1], ix_end[-1] are literal in the source
        try:
            r = kernels.call(kernel, a, W)
            out.append(["ok", r])
        except IndexError as e:
            out.append(["oob", str(e)])
        except UnboundLocalError as e:
            out.append(["unbound", str(e)])
        except Exception as e:
            out.append(["exc", "%s: %s" % (type(e).__name__, e)])
    json.dump(out, open(sys.argv[2], "w"))


if __name__ == "__main__":
    main()

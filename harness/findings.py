"""Predicates recognising the input classes of the *open* known findings (known_findings.json).
A predicate gets the failure record and an optional context supplied by the property module; it must
return True only for the specific class the finding describes, so that any other violation of the same
property is still reported."""


def c07_threshold_lone_sample(rec, fctx):
    """Tsd.threshold where a KEPT sample is the only sample of its support interval (n == 1 included): the kernel gives it
    start == end == its own time and the IntervalSet constructor drops zero-length intervals, so the sample is lost.
    Recognised only then, and only when the implementation still agrees with the pinned model of the kernel."""
    return bool(fctx and fctx.get("op") == "threshold" and fctx.get("lone_kept", False)
                and fctx.get("impl_equals_model", False))

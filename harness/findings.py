"""Predicates recognising the input classes of the *open* known findings (known_findings.json).
A predicate gets the failure record and an optional context supplied by the property module; it must
return True only for the specific class the finding describes, so that any other violation of the same
property is still reported."""


def c07_threshold_lone_sample(rec, fctx):
    """Tsd.threshold where a KEPT sample is the only sample of its support interval (n == 1 included): the kernel gives it
    start == end == its own time and the IntervalSet constructor drops zero-length intervals, so the sample is lost.
    Recognised only then, and only when the implementation still agrees with the pinned model of the kernel."""
    return bool(fctx and fctx.get("op") == "threshold" and fctx.get("lone_kept", False)
                and fctx.get("impl_equals_model", False))


def c11_empty_series_with_support(rec, fctx):
    """A series with NO sample but a non-empty time support (only obtainable by constructing it with every
    sample outside the support) loads back with the empty support: the reader goes through the constructor,
    which gives an empty index the empty support.  Recognised only when the object is empty, its support is
    not, and the support is the only thing that differs."""
    inp = rec.get("input") or {}
    obj = inp.get("obj") or {}
    if obj.get("cls") not in ("Ts", "Tsd", "TsdFrame", "TsdTensor"):
        return False
    if obj.get("t") != [] or not obj.get("sup") or not obj["sup"][0]:
        return False
    impl = rec.get("impl") or {}
    return set(impl.keys()) == {"sup"} and list(map(list, impl["sup"])) == [[], []]


def c20_group_lone_spike(rec, fctx):
    """jitter_timestamps(keep_tsupport=False) / shuffle_ts_intervals on a TsGroup: the generator rebuilds the group from
    nap.Ts(new timestamps) WITHOUT a support, so the new support is the union of the members' own supports; a member whose new
    timestamps span no duration (a single spike) has none, and its spike is dropped by the group's restriction unless it lies inside
    another member's span.  Recognised only for that member class, only for the two support-recomputing generators, only when the
    spike is not inside the others' new span, and (on recorded draws) only when the implementation still equals the group model."""
    return bool(fctx and fctx.get("group") and fctx.get("member_count") == 1 and fctx.get("member_lost")
                and fctx.get("op") in ("jitter_timestamps", "shuffle_ts_intervals") and fctx.get("outside_others")
                and fctx.get("impl_equals_model") is not False)

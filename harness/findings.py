"""Predicates recognising the input classes of the *open* known findings (known_findings.json).
A predicate gets the failure record and an optional context supplied by the property module; it must
return True only for the specific class the finding describes, so that any other violation of the same
property is still reported."""


def c07_threshold_lone_sample(rec, fctx):
    """Tsd.threshold where a KEPT sample is the only sample of its support interval (n == 1 included): the kernel gives it
    start == end == its own time and the IntervalSet constructor drops zero-length intervals, so the sample is lost.
    Recognised only then, and only when the implementation still agrees with the pinned model of the kernel."""
    return bool(fctx and fctx.get("op") == "threshold" and fctx.get("lone_kept", False)
                and fctx.get("impl_equals_model", False))


def c11_empty_series_with_support(rec, fctx):
    """A series with NO sample but a non-empty time support (only obtainable by constructing it with every
    sample outside the support) loads back with the empty support: the reader goes through the constructor,
    which gives an empty index the empty support.  Recognised only when the object is empty, its support is
    not, and the support is the only thing that differs."""
    inp = rec.get("input") or {}
    obj = inp.get("obj") or {}
    if obj.get("cls") not in ("Ts", "Tsd", "TsdFrame", "TsdTensor"):
        return False
    if obj.get("t") != [] or not obj.get("sup") or not obj["sup"][0]:
        return False
    impl = rec.get("impl") or {}
    return set(impl.keys()) == {"sup"} and list(map(list, impl["sup"])) == [[], []]


def c20_group_lone_spike(rec, fctx):
    """jitter_timestamps(keep_tsupport=False) / shuffle_ts_intervals on a TsGroup: the generator rebuilds the group from
    nap.Ts(new timestamps) WITHOUT a support, so the new support is the union of the members' own supports; a member whose new
    timestamps span no duration (a single spike) has none, and its spike is dropped by the group's restriction unless it lies inside
    another member's span.  Recognised only for that member class, only for the two support-recomputing generators, only when the
    spike is not inside the others' new span, and (on recorded draws) only when the implementation still equals the group model."""
    return bool(fctx and fctx.get("group") and fctx.get("member_count") == 1 and fctx.get("member_lost")
                and fctx.get("op") in ("jitter_timestamps", "shuffle_ts_intervals") and fctx.get("outside_others")
                and fctx.get("impl_equals_model") is not False)


def c07_dropna_singleton_within_1us(rec, fctx):
    """dropna gives a kept sample that is alone in its run the epoch [t, t + 1 us] (a zero-length epoch would vanish); when the NEXT
    sample is rejected and lies at most 1 us later (sampling steps <= 1 us, the resolution of time supports), that epoch contains it.
    Recognised only for dropna, only when such a singleton / successor pair exists in the input."""
    return bool(fctx and fctx.get("op") == "dropna" and fctx.get("singleton_successor_within_1us"))


def c08_get_empty_window_support(rec, fctx):
    """x.get(start, end) with no sample in the window returns an object WITHOUT samples, and an object without samples has the empty
    time support library-wide (_Base.__init__), so 'time support unchanged' fails exactly then.  Recognised only when the result is
    empty and its support is the empty one."""
    return bool(fctx and fctx.get("op") == "get" and fctx.get("empty_result") and fctx.get("result_support_empty"))


def c08_one_instant_default_support(rec, fctx):
    """A series holding a single instant (one sample, or duplicates of it) built without time_support has the EMPTY default support
    ([t, t] has no duration); slicing - and therefore get(start, end) - rebuilds the result on that support and loses every sample.
    Recognised only for such a series (its own support is empty) when ALL samples are lost."""
    return bool(fctx and fctx.get("op") == "get" and fctx.get("one_instant_default_support") and fctx.get("own_support_empty")
                and fctx.get("lost_all"))


def c01_zero_length_input_touch(rec, fctx):
    """The constructor sorts starts and ends independently; a ZERO-LENGTH input (z, z) lying inside, or on the end of, another input
    interval then looks like two neighbours touching at z, and the 1 us touch separation removes [z - 1 us, z) - instants of a real
    input interval - instead of letting the zero-length input vanish.  Recognised only for the constructor, only when the lost
    instant lies in the microsecond before (or on) such a zero-length input."""
    return bool(fctx and fctx.get("op") == "constructor" and fctx.get("zero_length_inside"))

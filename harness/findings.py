"""Predicates recognising the input classes of the *open* known findings (known_findings.json).
A predicate gets the failure record and an optional context supplied by the property module; it must
return True only for the specific class the finding describes, so that any other violation of the same
property is still reported."""


def c07_threshold_multi_epoch(rec, fctx):
    """Tsd.threshold on a time support with >= 2 intervals: jitthreshold tracks the current epoch wrongly
    (leading scan compares with starts, one epoch step per transition, last sample not epoch-aware).
    Recognised only when the implementation still agrees with the pinned model of the kernel."""
    return bool(fctx and fctx.get("op") == "threshold" and fctx.get("n_support_intervals", 0) >= 2
                and fctx.get("n", 0) >= 2 and fctx.get("impl_equals_model", False))


def c07_threshold_single_sample(rec, fctx):
    """Tsd.threshold on a series with exactly one sample: the tail of jitthreshold reads time_array[1]."""
    return bool(fctx and fctx.get("op") == "threshold" and fctx.get("n", 0) == 1)


def c15_threshold_unguarded_reads(rec, fctx):
    """jitthreshold with n <= 1 (reads time_array[1] / time_array[0] of an empty series)."""
    return bool(fctx and fctx.get("kernel") == "jitthreshold" and fctx.get("n", 2) <= 1)

"""C04 — every time series reachable through the API is well formed (history exploration + model)."""
import numpy as np
from ..common import enc, ns, ns_arr
from .. import gen
from ..impl import nap, farr, iset, iset_ns, is_canonical_ns

RULE = ("constructor level: Ts/Tsd/TsdFrame/TsdTensor from unsorted/duplicated/empty timestamps with a canonical support "
        "(epochs holding no sample, samples outside) or none, compared with the Lean model Series.new (t, rows, support, rate as "
        "exact fraction); history level: random operation sequences (restrict with literal/union/intersect/set_diff supports and with the own support trimmed by 1 us, "
        "slice/list/mask indexing incl. reordering, get, element-wise numpy, count, bin_average, value_from, interpolate, "
        "threshold, dropna, convolve, smooth, concatenate, split, randomisation, to_tsgroup/to_tsd, perievent, merge), each "
        "output fed to later operations, observed after EVERY step: model state (Series.step) == implementation state, and a "
        "well-formedness monitor on every produced object and TsGroup member. distinct = distinct (start, op sequence)")
PROVED = ("new_wf_some, new_wf_none, step_wf, reachable_wf (induction over arbitrary histories), supE_canonical, "
          "new_none_single_instant_witness (why the quantifier needs a positive span)")
NOT_PROVED = ("that each Python method really returns through the constructor with the support expression the model names "
              "(structural; decided by the per-step correspondence), TsGroup members' shared support (monitor only here; C12)")
ASSUMPTIONS = ["starting objects have timestamps spanning a positive duration (C04 quantifier)",
               "supports are produced by the IntervalSet constructor (canonical by C01 mk_canonical)"]

SC = [10**9, 10**6, 1953125]


def wf_problems(o, group_support=None):
    """the invariant of C04 evaluated on a real object (integers in ns)"""
    pr = []
    t = ns_arr(o.index.values)
    if any(t[i] > t[i + 1] for i in range(len(t) - 1)):
        pr.append("timestamps decrease")
    if hasattr(o, "values") and len(o.values) != len(t):
        pr.append("rows %d != timestamps %d" % (len(o.values), len(t)))
    st, en = iset_ns(o.time_support)
    if not is_canonical_ns(st, en):
        pr.append("support not canonical %s %s" % (st, en))
    for x in t:
        if not any(s <= x <= e for s, e in zip(st, en)):
            pr.append("timestamp %d outside support" % x); break
    if len(t):
        tot = sum(e - s for s, e in zip(st, en))
        if tot > 0:
            exp = len(t) / (tot / 1e9)
            # the code sums float differences end - start: absolute error <= ~1 ulp of the largest endpoint per interval,
            # which is a RELATIVE error of that / total duration (matters for 1-us supports made by dropna)
            big = max([abs(v) for v in st + en] + [1]) / 1e9
            rel = 1e-9 + 4 * len(st) * np.finfo(float).eps * big / (tot / 1e9)
            if not (abs(o.rate - exp) <= rel * max(1.0, exp)):
                pr.append("rate %r != %r" % (o.rate, exp))
    if group_support is not None and len(t) and (st, en) != group_support:
        pr.append("member support != group support")
    return pr


def state_of(o, tracked):
    t = ns_arr(o.index.values)
    st, en = iset_ns(o.time_support)
    rows = None
    if tracked and hasattr(o, "values"):
        v = np.asarray(o.values).reshape(len(t), -1)[:, 0] if len(t) else []
        rows = [int(x) for x in v]
    return t, rows, list(zip(st, en))


def parse_state(s):
    t, rows, sup, rate = s.split("|")
    dec = lambda z: [] if z == "-" else [int(v) for v in z.split(",")]
    pairs = [] if sup == "-" else [tuple(int(v) for v in p.split(":")) for p in sup.split(",")]
    num, den = rate.split("/")
    return dec(t), dec(rows), pairs, int(num), int(den)


def encp(pairs):
    return "-" if not pairs else ",".join("%d:%d" % (a, b) for a, b in pairs)


def constructors(ctx, n):
    lines, meta = [], []
    for k in range(n):
        sc = SC[k % 3]
        m = ctx.rng.randint(0, 7)
        ts = [ctx.rng.randrange(0, 20) for _ in range(m)]
        if k % 3 == 0:
            ts = sorted(ts)
        if k % 5 == 0:
            sup = None
        else:
            st, en = gen.rand_canonical(ctx.rng, 3, 22)
            sup = list(zip(st, en))
        cls = k % 4
        inp = dict(level="constructor", cls=["Ts", "Tsd", "TsdFrame", "TsdTensor"][cls], ts=ts, support=sup, scale_ns=sc)
        ctx.case(("c", cls, tuple(ts), tuple(sup) if sup is not None else None, sc), inp if k % 97 == 0 else None)
        ep = None if sup is None else iset([a for a, _ in sup], [b for _, b in sup], sc)
        t = farr(ts, sc)
        if k % 6 == 1 and len(ts):
            # the timestamps handed over as a TsIndex (the index of another object, sliced / re-ordered as given here)
            base = nap.Ts(np.sort(t)).index
            order = [sorted(range(len(ts)), key=lambda i: ts[i]).index(i) for i in range(len(ts))] if len(set(ts)) == len(ts) else list(range(len(ts)))[::-1]
            t = base[np.array(order)]
            inp = dict(inp, t_given_as="TsIndex[%s]" % order)
        d = np.arange(len(ts), dtype=float)
        try:
            if cls == 0:
                o = nap.Ts(t, time_support=ep)
            elif cls == 1:
                o = nap.Tsd(t, d, time_support=ep)
            elif cls == 2:
                o = nap.TsdFrame(t, np.stack([d, d + 100], 1) if len(ts) else np.zeros((0, 2)), time_support=ep)
            else:
                o = nap.TsdTensor(t, np.stack([d, d], 1).reshape(len(ts), 2, 1) if len(ts) else np.zeros((0, 2, 1)), time_support=ep)
        except Exception as e:
            ctx.fail("oracle", "constructor raised %r" % (e,), inp)
            continue
        degenerate = sup is None and (len(ts) == 0 or min(ts) == max(ts))
        if not degenerate:
            for p in wf_problems(o):
                ctx.fail("oracle", "constructed object not well formed: " + p, inp, impl=state_of(o, cls > 0))
        lines.append("snew %s %s %s" % (enc([x * sc for x in ts]), enc(range(len(ts))),
                                        "none" if sup is None else encp([(a * sc, b * sc) for a, b in sup])))
        meta.append((inp, o, cls))
    out = ctx.lean.run(lines) if ctx.lean else None
    if out is not None:
        for (inp, o, cls), line in zip(meta, out):
            mt, mrows, msup, num, den = parse_state(line)
            t, rows, sup = state_of(o, cls > 0)
            if (t, sup) != (mt, msup) or (rows is not None and rows != mrows):
                ctx.fail("corr", "constructor != model Series.new", inp, impl=(t, rows, sup), model=(mt, mrows, msup))
            elif len(t) and den > 0 and not abs(o.rate - num / (den / 1e9)) <= (1e-9 + 1e-6 / (den / 1e9) * 1e-9) * max(1.0, o.rate):
                ctx.fail("corr", "rate != model num/den", inp, impl=o.rate, model=(num, den))


class Hist:
    """runs one history on the implementation, building the model's op line alongside"""

    def __init__(self, ctx, k):
        self.ctx, self.rng = ctx, ctx.rng
        self.sc = SC[k % 3]
        n = self.rng.randint(3, 10)
        ts = sorted(self.rng.sample(range(0, 40), n))
        if k % 4 == 0:
            ts = sorted(ts + [self.rng.choice(ts)])
        st, en = gen.rand_canonical(self.rng, 3, 44)
        if not st or k % 3 == 0:
            st, en = [min(ts) - 1], [max(ts) + 2]
        self.ts0, self.sup0 = ts, list(zip(st, en))
        self.x = nap.Tsd(farr(ts, self.sc), np.arange(len(ts), dtype=float), time_support=iset(st, en, self.sc))
        self.tracked = True
        self.ops, self.obs, self.names = [], [state_of(self.x, True)], []
        self.inp = dict(level="history", ts=ts, support=self.sup0, scale_ns=self.sc, ops=self.names)

    def lit(self):
        st, en = gen.rand_canonical(self.rng, 3, 44)
        if not st:
            st, en = [self.rng.randrange(0, 20)], [self.rng.randrange(21, 44)]
        return st, en

    def supe(self, st, en):
        return "%s/%s" % (enc([v * self.sc for v in st]), enc([v * self.sc for v in en]))

    def push(self, name, op, res, tracked):
        self.x, self.tracked = res, tracked and self.tracked
        self.ops.append(op); self.names.append(name)
        self.obs.append(state_of(res, self.tracked))
        for p in wf_problems(res):
            self.ctx.fail("oracle", "after %s: %s" % (name, p), dict(self.inp, ops=list(self.names)), impl=self.obs[-1])

    def retime(self, name, res, supe):
        self.push(name, "N/%s/%s" % (enc(ns_arr(res.index.values)), supe), res, False)

    def own(self, res):
        st, en = iset_ns(res.time_support)
        return "L/%s/%s" % (enc(st), enc(en))

    def step(self):
        x, rng, sc = self.x, self.rng, self.sc
        n = len(x)
        c = rng.randrange(23)
        if c == 0:
            st, en = self.lit(); self.push("restrict", "R/L/" + self.supe(st, en), x.restrict(iset(st, en, sc)), True)
        elif c == 1:
            st, en = self.lit(); k = rng.choice("UID")
            ep = iset(st, en, sc)
            e2 = {"U": x.time_support.union, "I": x.time_support.intersect, "D": x.time_support.set_diff}[k](ep)
            self.push("restrict(support %s ep)" % k, "R/%s/%s" % (k, self.supe(st, en)), x.restrict(e2), True)
        elif c == 22:
            # an epoch that is ALMOST the current support: one edge moved inwards by 1 us (far below any relative tolerance
            # a comparison of supports might use); the result must live on exactly that epoch
            st, en = iset_ns(x.time_support)
            if not st:
                return
            j = rng.randrange(len(st))
            if en[j] - st[j] <= 2000:
                return
            if rng.random() < 0.5:
                en = en[:j] + [en[j] - 1000] + en[j + 1:]
            else:
                st = st[:j] + [st[j] + 1000] + st[j + 1:]
            ep = nap.IntervalSet(start=np.array(st) / 1e9, end=np.array(en) / 1e9)
            if iset_ns(ep) != (st, en):
                return
            self.push("restrict(support trimmed by 1us)", "R/L/%s/%s" % (enc(st), enc(en)), x.restrict(ep), True)
        elif c == 2:
            a = rng.randint(-2, n + 1); b = rng.randint(-2, n + 1); s = rng.choice([1, 1, 2, 3, -1])
            sl = slice(a, b, s)
            self.push("x[%d:%d:%d]" % (a, b, s), "T/" + enc(range(*sl.indices(n))), x[sl], True)
        elif c == 3:
            ix = [rng.randrange(n) for _ in range(rng.randint(1, 4))]
            if rng.random() < 0.6:
                ix = sorted(set(ix))
            self.push("x[%s]" % ix, "T/" + enc(ix), x[np.array(ix)], True)
        elif c == 4:
            m = np.array([rng.random() < 0.6 for _ in range(n)])
            self.push("x[mask]", "T/" + enc(np.nonzero(m)[0]), x[m], True)
        elif c == 5:
            a = rng.randint(-2, 42); b = rng.randint(a, 44)
            self.push("get(%d,%d)" % (a, b), "G/%d/%d" % (a * sc, b * sc), x.get(a * sc / 1e9, b * sc / 1e9), True)
        elif c == 6:
            f = rng.choice([np.abs, np.positive, lambda v: v + 0, lambda v: v * 1])
            self.push("elementwise", "K", f(x), True)
        elif c == 7:
            b = rng.choice([1, 2, 4])
            if rng.random() < 0.5:
                self.retime("count(%d)" % b, x.count(b * sc / 1e9), "S")
            else:
                st, en = self.lit()
                self.retime("count(%d, ep)" % b, x.count(b * sc / 1e9, iset(st, en, sc)), "L/" + self.supe(st, en))
        elif c == 8:
            b = rng.choice([1, 2, 4])
            st, en = self.lit()
            if rng.random() < 0.5:
                self.retime("bin_average(%d)" % b, x.bin_average(b * sc / 1e9), "S")
            else:
                self.retime("bin_average(%d, ep)" % b, x.bin_average(b * sc / 1e9, iset(st, en, sc)), "L/" + self.supe(st, en))
        elif c == 9:
            q = nap.Ts(farr(sorted(rng.sample(range(0, 44), rng.randint(1, 8))), sc))
            st, en = self.lit()
            mode = rng.choice(["closest", "before", "after"])
            self.retime("value_from(ep,%s)" % mode, q.value_from(x, iset(st, en, sc), mode=mode), "L/" + self.supe(st, en))
        elif c == 10:
            q = nap.Ts(farr(sorted(rng.sample(range(0, 88), rng.randint(1, 10))), sc // 2 if sc % 2 == 0 else sc))
            if rng.random() < 0.5:
                st, en = self.lit()
                self.retime("interpolate(ep)", x.interpolate(q, iset(st, en, sc)), "L/" + self.supe(st, en))
            else:
                self.retime("interpolate", x.interpolate(q), "S")
        elif c == 11 and n >= 2:
            thr = float(np.median(x.values))
            r = x.threshold(thr, rng.choice(["above", "below", "aboveequal", "belowequal"]))
            self.retime("threshold", r, self.own(r))
        elif c == 12 and n >= 2:
            v = np.array(x.values, dtype=float)
            v[[rng.randrange(n) for _ in range(rng.randint(1, max(1, n // 2)))]] = np.nan
            y = nap.Tsd(x.index.values, v, time_support=x.time_support)
            r = y.dropna(update_time_support=rng.random() < 0.7)
            self.retime("dropna", r, self.own(r))
        elif c == 13:
            k = np.ones(rng.choice([1, 2, 3]))
            st, en = self.lit()
            if rng.random() < 0.5:
                self.retime("convolve", x.convolve(k, trim=rng.choice(["both", "left", "right"])), "S")
            else:
                self.retime("convolve(ep)", x.convolve(k, iset(st, en, sc)), "L/" + self.supe(st, en))
        elif c == 14 and n >= 2:
            self.retime("smooth", x.smooth(2 * sc / 1e9, size_factor=3), "S")
        elif c == 15:
            last = ns(x.time_support.values[-1, 1]) // sc + 1
            m = rng.randint(1, 3)
            t2 = [last + 1 + i for i in range(m)]
            y = nap.Tsd(farr(t2, sc), np.arange(m, dtype=float) + 1000, time_support=iset([last], [last + m + 1], sc))
            self.retime("concatenate", np.concatenate((x, y)), "U/%s/%s" % (enc([last * sc]), enc([(last + m + 1) * sc])))
        elif c == 16 and n >= 2:
            parts = np.array_split(x, 2)
            r = parts[rng.randrange(2)]
            self.retime("array_split", r, "S")
        elif c == 17:
            t = nap.Ts(x.index.values, time_support=x.time_support)
            which = rng.randrange(4)
            if which == 0:
                r = nap.shift_timestamps(t, min_shift=0.0, max_shift=3 * sc / 1e9)
            elif which == 1:
                r = nap.jitter_timestamps(t, max_jitter=sc / 1e9, keep_tsupport=True)
            elif which == 2:
                r = nap.resample_timestamps(t)
            else:
                r = nap.shuffle_ts_intervals(t)
            if which == 3:
                # shuffle_ts_intervals builds nap.Ts(t=...) with the default support [min, max]
                r = nap.Tsd(r.index.values, np.arange(len(r), dtype=float), time_support=r.time_support)
                self.push("shuffle", "F/" + enc(ns_arr(r.index.values)), r, False)
            else:
                r = nap.Tsd(r.index.values, np.arange(len(r), dtype=float), time_support=r.time_support)
                self.retime(["shift", "jitter", "resample", "shuffle"][which], r, "S")
        elif c == 18 and n >= 2:
            lab = np.array([i % 2 for i in range(n)], dtype=float)
            g = nap.Tsd(x.index.values, lab, time_support=x.time_support).to_tsgroup()
            sup = iset_ns(g.time_support)
            for key in g.keys():
                for p in wf_problems(g[key], sup):
                    self.ctx.fail("oracle", "to_tsgroup member %s: %s" % (key, p), dict(self.inp, ops=list(self.names)))
            self.retime("to_tsgroup.to_tsd", g.to_tsd(), "S")
        elif c == 19 and n >= 1:
            ev = nap.Ts(farr(sorted(rng.sample(range(0, 44), rng.randint(1, 3))), sc))
            pe = nap.compute_perievent(nap.Ts(x.index.values, time_support=x.time_support), ev, (2 * sc / 1e9, 3 * sc / 1e9))
            sup = iset_ns(pe.time_support)
            for key in pe.keys():
                for p in wf_problems(pe[key], sup):
                    self.ctx.fail("oracle", "perievent member %s: %s" % (key, p), dict(self.inp, ops=list(self.names)))
        elif c == 20 and n >= 1:
            # groups with differing member supports, restricted / selected / merged
            st, en = self.lit()
            other = nap.Ts(farr(sorted(rng.sample(range(0, 44), rng.randint(0, 6))), sc), time_support=iset(st, en, sc))
            me = nap.Ts(x.index.values, time_support=x.time_support)
            try:
                g = nap.TsGroup({7: me, 2: other}) if rng.random() < 0.5 else nap.TsGroup({7: me, 2: other}, time_support=iset(*self.lit(), sc))
            except Exception:
                self.ctx.count("group_constructor_raised"); return
            gs = [g, g[[7]], g.restrict(iset(*self.lit(), sc))]
            # a group support that is ALMOST the member's own support (one edge 1 us inside): members must carry exactly it
            mst, men = iset_ns(me.time_support)
            if mst and men[-1] - mst[-1] > 2000:
                near = nap.IntervalSet(start=np.array(mst) / 1e9, end=np.array(men[:-1] + [men[-1] - 1000]) / 1e9)
                try:
                    gs.append(nap.TsGroup({7: me, 2: other}, time_support=near))
                    gs.append(g.restrict(near))
                except Exception:
                    self.ctx.count("group_near_support_raised")
            # merging groups that live on different supports (restricted to different epochs) with a fresh union support
            try:
                ga, gb = g.restrict(iset(*self.lit(), sc)), g.restrict(iset(*self.lit(), sc))
                if len(ga.time_support) and len(gb.time_support):
                    gs.append(ga.merge(gb, reset_index=True, reset_time_support=True))
                    gs.append(gs[-1].get(0.0, 30 * sc / 1e9))
                    gs.append(nap.TsGroup.merge_group(ga, gb, g, reset_index=True, reset_time_support=True, ignore_metadata=True))
            except (RuntimeError, ValueError):
                self.ctx.count("group_merge_raised")
            for gg in gs:
                sup = iset_ns(gg.time_support)
                if not is_canonical_ns(*sup):
                    self.ctx.fail("oracle", "group support not canonical", dict(self.inp, ops=list(self.names)))
                for key in gg.keys():
                    for p in wf_problems(gg[key], sup):
                        self.ctx.fail("oracle", "group member %s: %s" % (key, p), dict(self.inp, ops=list(self.names)))
        else:
            self.push("x+0", "K", x + 0, True)

    def line(self):
        return "hist %s %s %s %s" % (enc([v * self.sc for v in self.ts0]), enc(range(len(self.ts0))),
                                     encp([(a * self.sc, b * self.sc) for a, b in self.sup0]), ";".join(self.ops) or "-")


def histories(ctx, n, maxlen):
    hs = []
    for k in range(n):
        h = Hist(ctx, k)
        L = ctx.rng.randint(2, maxlen)
        for _ in range(L):
            if len(h.x) == 0:
                break
            try:
                h.step()
            except Exception as e:
                ctx.count("impl_raised:" + type(e).__name__)
        ctx.case(("h", tuple(h.ts0), tuple(h.sup0), tuple(h.ops)), dict(h.inp, ops=list(h.names)) if k % 61 == 0 else None)
        ctx.count("history_len=%d" % min(len(h.ops), 12))
        for nm in h.names:
            ctx.count("op:" + nm.split("(")[0].split("[")[0])
        hs.append(h)
    out = ctx.lean.run([h.line() for h in hs]) if ctx.lean else None
    if out is None:
        return
    for h, line in zip(hs, out):
        states = line.split(";")
        if len(states) != len(h.obs):
            ctx.fail("corr", "model answered %r" % line[:80], dict(h.inp, ops=list(h.names))); continue
        for j, (s, (t, rows, sup)) in enumerate(zip(states, h.obs)):
            mt, mrows, msup, num, den = parse_state(s)
            if (t, sup) != (mt, msup) or (rows is not None and rows != mrows):
                ctx.fail("corr", "state after step %d (%s) != model" % (j, h.names[j - 1] if j else "constructor"),
                         dict(h.inp, ops=list(h.names[:j])), impl=(t, rows, sup), model=(mt, mrows, msup))
                break


def computed_index(ctx, n):
    """timestamps handed over as a TsIndex COMPUTED from another object's index (index - t0, index + d: what perievent-style code does), on
    decimal times: the object is well formed in RAW float terms - no sample outside its default support, timestamps stored at 1 ns"""
    rng = ctx.rng
    for k in range(n):
        m = rng.randint(2, 6)
        base = sorted(set(round(rng.uniform(0, 100), rng.choice([1, 2, 3])) for _ in range(m)))
        delta = rng.choice([0.1, 0.3, 0.7, 1.1, 4e-10, 63.7, 0.123])
        x = nap.Ts(np.array(base))
        form = k % 3
        idx = [x.index - delta, x.index + delta, (x.index - delta) + 0.0][form]
        cls = (k // 3) % 3
        inp = dict(level="computed-index", base=base, delta=delta, form=["index - d", "index + d", "(index - d) + 0.0"][form], cls=["Ts", "Tsd", "TsdFrame"][cls])
        ctx.case(("ci", tuple(base), delta, form, cls), inp if k % 41 == 0 else None)
        ctx.count("computed_index:" + inp["form"])
        try:
            o = [lambda: nap.Ts(t=idx), lambda: nap.Tsd(t=idx, d=np.arange(len(base), dtype=float)),
                 lambda: nap.TsdFrame(t=idx, d=np.zeros((len(base), 2)))][cls]()
        except Exception as e:
            ctx.fail("oracle", "constructor on a computed TsIndex raised %r" % (e,), inp); continue
        t = np.asarray(o.t)
        if len(t) != len(base):
            ctx.fail("oracle", "constructor on a computed TsIndex lost samples", inp, impl=len(t)); continue
        if len(base) >= 2:
            sup = o.time_support
            if not (len(sup) and float(sup.start[0]) <= t[0] and t[-1] <= float(sup.end[-1])):
                ctx.fail("oracle", "a sample lies outside the object's own default support (raw float comparison)", inp,
                         impl=dict(first=repr(t[0]), last=repr(t[-1]), support=np.asarray(sup.values).tolist()))
        if not np.array_equal(t, np.round(t, 9)):
            ctx.fail("oracle", "stored timestamps are not at the 1 ns resolution of every other time", inp, impl=[repr(v) for v in t[:3]])


def run(ctx):
    computed_index(ctx, 240 if ctx.quick else 3000)
    constructors(ctx, 1500 if ctx.quick else 12000)
    histories(ctx, 900 if ctx.quick else 6000, 12 if ctx.quick else 40)


def replay(ctx, rec):
    print("re-executing the recorded run of `./check C04 quick` with VERIF_SEED=%s; failing input: %s" % (rec.get("seed"), rec.get("input")))
    return None

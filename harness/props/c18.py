"""C18 — convolution and filtering act per epoch, linearly, and keep the time axis."""
import numpy as np
from ..common import enc, ns_arr
from .. import gen
from ..impl import nap, farr, iset, iset_ns
from .c04 import encp

RULE = ("convolve: integer-valued signals (float results exact) of 1..14 samples on supports with 1..3 epochs of different lengths, "
        "epochs shorter than the kernel, epochs holding one or no sample, samples on interval ends, kernels of length 1..6 (odd and "
        "even), all three trim modes, with and without an `ep` argument, Tsd / TsdFrame / TsdTensor and 2-D kernels: implementation == Lean "
        "model == an independent brute-force sum; perturbing the data of other epochs leaves an epoch's output unchanged; time axis, "
        "support, shape and column labels kept; linearity on float signals and on int64 / int16 signals (f(3x) = 3 f(x) = the float64 result); smooth == convolve with its Gaussian window.  Filters "
        "(windowed-sinc and Butterworth, low/high/band-pass/band-stop): low+high and band-pass+band-stop sum to the signal (sinc), "
        "multi-epoch result == each epoch filtered alone, linearity, time axis / shape / labels kept.  distinct = distinct configurations")
PROVED = ("convTrim_length, convTrim_get (window of the full convolution), convTrim_linear, sinc_complement (odd kernels, trim both), "
          "convolve_local (per-epoch independence), convAt_spectralInv")
NOT_PROVED = ("float evaluation of scipy.signal.convolve / sosfiltfilt / np.sinc / blackman (tolerance 1e-9 where floats are inexact); Butterworth "
              "independence and linearity (oracle only, SciPy numerics trusted); kernel length is odd by construction (oracle)")
ASSUMPTIONS = ["integer-valued data and kernels in the correspondence run so that float arithmetic is exact"]
SC = 10**9
MODES = ["both", "left", "right"]


def brute(ts, x, k, sup, mode):
    """the property's own formula: per epoch, full convolution trimmed on the requested side"""
    out = [0.0] * len(x)
    K = len(k)
    for s, e in sup:
        idx = [i for i, t in enumerate(ts) if s <= t <= e]
        if not idx:
            continue
        seg = [x[i] for i in idx]
        full = [sum(seg[i] * k[n - i] for i in range(len(seg)) if 0 <= n - i < K) for n in range(len(seg) + K - 1)]
        c = {"left": K - 1, "right": 0, "both": (K - 1) // 2}[mode]
        for j, i in enumerate(idx):
            out[i] = full[c + j]
    return out


def conv_cases(ctx, n_cases):
    rng = ctx.rng
    lines, metas = [], []
    for c in range(n_cases):
        n = rng.randint(1, 14)
        ts = sorted(rng.sample(range(0, 40), n))
        st, en = gen.rand_canonical(rng, 3, 44)
        if not st or c % 4 == 0:
            st, en = [ts[0] - (c % 2)], [ts[-1] + 1]
        if c % 5 == 0 and len(ts) > 2:
            st, en = [ts[0], ts[-1]], [ts[1], ts[-1] + 2]     # samples exactly on interval ends, a one-sample epoch
        x = [rng.randint(-5, 9) for _ in range(n)]
        K = rng.randint(1, 6)
        k = [rng.randint(-3, 4) for _ in range(K)]
        if all(v == 0 for v in k):
            k[0] = 1
        mode = c % 3
        use_ep = (c % 2 == 1)
        full = iset([min(ts) - 2], [max(ts) + 3], SC)
        ep = iset(st, en, SC)
        sup = list(zip(st, en))
        inp = dict(level="convolve", ts=ts, x=x, k=k, support=sup, trim=MODES[mode], ep_arg=use_ep)
        ctx.case(("c", tuple(ts), tuple(x), tuple(k), tuple(sup), mode, use_ep), inp if c % 97 == 0 else None)
        ctx.count("kernel_%s" % ("odd" if K % 2 else "even")); ctx.count("epochs=%d" % len(sup))
        cls = c % 3
        data = np.array(x, dtype=float)
        if cls == 0:
            obj = nap.Tsd(farr(ts, SC), data, time_support=full if use_ep else ep)
        elif cls == 1:
            obj = nap.TsdFrame(farr(ts, SC), np.stack([data, 2 * data], 1), columns=["p", "q"], time_support=full if use_ep else ep)
        else:
            obj = nap.TsdTensor(farr(ts, SC), np.stack([data, 3 * data], 1).reshape(n, 2, 1), time_support=full if use_ep else ep)
        # the object's own timestamps after construction (restricted to its support)
        ts_in = [t // SC for t in ns_arr(obj.index.values)]
        if not ts_in:
            ctx.count("empty_object"); continue
        x_in = [float(v) for v in np.asarray(obj.values).reshape(len(ts_in), -1)[:, 0]]
        try:
            r = obj.convolve(np.array(k, dtype=float), ep if use_ep else None, trim=MODES[mode])
        except Exception as e:
            ctx.fail("oracle", "convolve raised %r" % (e,), inp); continue
        # time axis: timestamps inside the epochs used, support = those epochs, shape, labels
        exp_t = [t for t in ts_in if any(s <= t <= e for s, e in sup)]
        if [t // SC for t in ns_arr(r.index.values)] != exp_t:
            ctx.fail("oracle", "convolve changed the time axis", inp, impl=ns_arr(r.index.values), expected=exp_t)
        if len(r) and iset_ns(r.time_support) != iset_ns(ep):
            ctx.fail("oracle", "convolve changed the time support", inp, impl=iset_ns(r.time_support))
        x_used = [v for t, v in zip(ts_in, x_in) if any(s <= t <= e for s, e in sup)]
        exp = brute(exp_t, x_used, k, sup, MODES[mode])
        got = np.asarray(r.values).reshape(len(r), -1) if len(r) else np.zeros((0, 1))
        if got.shape[0] != len(exp) or [float(v) for v in got[:, 0]] != exp:
            ctx.fail("oracle", "convolve != per-epoch full convolution trimmed", inp, impl=got[:, 0].tolist() if got.size else [], expected=exp)
        if cls == 1 and len(r):
            if list(r.columns) != ["p", "q"] or got.shape[1] != 2 or not np.array_equal(got[:, 1], 2 * got[:, 0]):
                ctx.fail("oracle", "TsdFrame convolve: columns / shape / second column", inp, impl=got.tolist())
        if cls == 2 and len(r) and np.asarray(r.values).shape != (len(exp), 2, 1):
            ctx.fail("oracle", "TsdTensor convolve changed the shape", inp, impl=list(np.asarray(r.values).shape))
        lines.append("conv %d %s %s %s %s" % (mode, enc([t * SC for t in exp_t]), enc([int(v) for v in x_used]), enc(k),
                                              encp([(s * SC, e * SC) for s, e in sup])))
        metas.append((inp, [int(v) for v in got[:, 0]] if got.size else []))
        # independence: change the data of every OTHER epoch (and of uncovered samples); epoch j must not change
        if len(sup) > 1 and cls == 0 and len(exp_t):
            j = rng.randrange(len(sup))
            inside = [sup[j][0] <= t <= sup[j][1] for t in ts_in]
            x2 = [v if ins else v + rng.randint(1, 50) for v, ins in zip(x_in, inside)]
            o2 = nap.Tsd(farr(ts_in, SC), np.array(x2), time_support=obj.time_support)
            r2 = o2.convolve(np.array(k, dtype=float), ep if use_ep else None, trim=MODES[mode])
            m = np.array([sup[j][0] <= t <= sup[j][1] for t in exp_t])
            if not np.array_equal(np.asarray(r.values)[m], np.asarray(r2.values)[m]):
                ctx.fail("oracle", "output of epoch %d changed when only other epochs' data changed" % j, inp, impl=np.asarray(r2.values).tolist())
        # 2-D kernel: one output column per kernel column
        if cls == 0 and c % 6 == 0:
            k2 = np.stack([np.array(k, dtype=float), np.array(k[::-1], dtype=float)], 1)
            r3 = obj.convolve(k2, ep if use_ep else None, trim=MODES[mode])
            g3 = np.asarray(r3.values)
            if g3.shape != (len(exp), 2) or [float(v) for v in g3[:, 0]] != exp or \
                    [float(v) for v in g3[:, 1]] != brute(exp_t, x_used, k[::-1], sup, MODES[mode]):
                ctx.fail("oracle", "2-D kernel: columns are not the per-kernel convolutions", inp, impl=g3.tolist())
    out = ctx.lean.run(lines) if ctx.lean else None
    if out is not None:
        for (inp, got), o in zip(metas, out):
            m = [] if o == "-" else ([int(v) for v in o.split(",")] if not o.startswith(("pre", "bad")) else o)
            if got != m:
                ctx.fail("corr", "convolve != model", inp, impl=got, model=m)


def linear_and_filters(ctx, n_cases):
    rng = ctx.rng
    npr = np.random.RandomState(ctx.seed + 18)
    for c in range(n_cases):
        # two or three epochs of different lengths, regularly sampled at fs
        fs = rng.choice([100.0, 250.0, 1000.0])
        lens = [rng.randint(80, 200) for _ in range(rng.randint(1, 3))]
        t, st, en, cur = [], [], [], 0
        for L in lens:
            tt = cur + np.arange(L)
            # the next epoch starts 5..50 samples later - or on the very next sample (back-to-back trials: still two epochs)
            t += list(tt); st.append(tt[0]); en.append(tt[-1]); cur = tt[-1] + rng.choice([1, 1, rng.randint(5, 50)])
        t = np.array(t) / fs
        ep = nap.IntervalSet(start=np.array(st) / fs, end=np.array(en) / fs)
        x = npr.randn(len(t)); y = npr.randn(len(t))
        X = nap.Tsd(t, x, time_support=ep); Y = nap.Tsd(t, y, time_support=ep)
        a, b = rng.choice([-2.0, 0.5, 3.0]), rng.choice([1.0, -1.5])
        Z = nap.Tsd(t, a * x + b * y, time_support=ep)
        inp = dict(level="filters", fs=fs, epoch_lengths=lens, a=a, b=b)
        ctx.case(("f", fs, tuple(lens), c), inp if c % 11 == 0 else None)
        close = lambda u, v: np.allclose(u, v, rtol=1e-9, atol=1e-9)
        k = npr.randn(rng.randint(1, 7))
        for trim in MODES:
            if not close(Z.convolve(k, trim=trim).values, a * X.convolve(k, trim=trim).values + b * Y.convolve(k, trim=trim).values):
                ctx.fail("oracle", "convolve is not linear (trim %s)" % trim, inp)
        lo, hi = fs * 0.05, fs * 0.2
        F = nap.TsdFrame(t, np.stack([x, y], 1), columns=["u", "v"], time_support=ep)
        tb = rng.choice([0.02, 0.05, 0.08, 0.15, 0.06, 0.4, 0.1, 0.3])      # kernel half-widths of both parities
        for mode in ("sinc", "butter"):
            kwf = dict(transition_bandwidth=tb) if mode == "sinc" else {}
            filt = dict(lowpass=lambda z: nap.apply_lowpass_filter(z, lo, fs, mode=mode, **kwf),
                        highpass=lambda z: nap.apply_highpass_filter(z, lo, fs, mode=mode, **kwf),
                        bandpass=lambda z: nap.apply_bandpass_filter(z, (lo, hi), fs, mode=mode, **kwf),
                        bandstop=lambda z: nap.apply_bandstop_filter(z, (lo, hi), fs, mode=mode, **kwf))
            res = {}
            for name, f in filt.items():
                ctx.count("filter:%s:%s" % (mode, name))
                try:
                    r = f(X)
                except Exception as e:
                    ctx.fail("oracle", "%s %s raised %r" % (mode, name, e), inp); continue
                res[name] = r
                if ns_arr(r.index.values) != ns_arr(X.index.values) or iset_ns(r.time_support) != iset_ns(ep) or r.values.shape != x.shape:
                    ctx.fail("oracle", "%s %s changed the time axis / support / shape" % (mode, name), inp)
                # per-epoch independence: each epoch filtered alone
                for j in range(len(lens)):
                    one = ep[j]
                    alone = f(X.restrict(one))
                    m = (t >= one.start[0]) & (t <= one.end[0])
                    if not close(r.values[m], alone.values):
                        ctx.fail("oracle", "%s %s: epoch %d differs from the epoch filtered alone" % (mode, name, j), dict(inp, epoch=j),
                                 impl=float(np.max(np.abs(r.values[m] - alone.values))))
                # linearity
                if not np.allclose(f(Z).values, a * r.values + b * f(Y).values, rtol=1e-7, atol=1e-7):
                    ctx.fail("oracle", "%s %s is not linear" % (mode, name), inp)
                rf = f(F)
                if list(rf.columns) != ["u", "v"] or rf.values.shape != (len(t), 2) or not close(rf.values[:, 0], r.values):
                    ctx.fail("oracle", "%s %s on a TsdFrame: labels / shape / first column" % (mode, name), inp)
            if mode == "sinc" and len(res) == 4:
                if not close(res["lowpass"].values + res["highpass"].values, x):
                    ctx.fail("oracle", "windowed-sinc low-pass + high-pass != signal", inp,
                             impl=float(np.max(np.abs(res["lowpass"].values + res["highpass"].values - x))))
                if not close(res["bandpass"].values + res["bandstop"].values, x):
                    ctx.fail("oracle", "windowed-sinc band-pass + band-stop != signal", inp,
                             impl=float(np.max(np.abs(res["bandpass"].values + res["bandstop"].values - x))))
        # integer-dtype signals (raw recordings are int16): the same linear map, nothing truncated to the input's dtype.
        # Tolerance wide enough for a float32 result; an integer-valued result is off by up to a whole unit.
        for dt in (np.int64, np.int16):
            xi = npr.randint(-50, 50, len(t)).astype(dt)
            Xi = nap.Tsd(t, xi, time_support=ep); X3 = nap.Tsd(t, (3 * xi).astype(dt), time_support=ep)
            Xf = nap.Tsd(t, xi.astype(np.float64), time_support=ep)
            ops = [("convolve", lambda z: z.convolve(k)), ("smooth", lambda z: z.smooth(3 / fs, size_factor=4))]
            for mode in ("sinc", "butter"):
                ops.append(("%s lowpass" % mode, lambda z, mode=mode: nap.apply_lowpass_filter(z, lo, fs, mode=mode)))
                ops.append(("%s bandstop" % mode, lambda z, mode=mode: nap.apply_bandstop_filter(z, (lo, hi), fs, mode=mode)))
            for name, f in ops:
                ctx.count("intdtype:%s" % name)
                try:
                    r1, r3, rf = f(Xi).values, f(X3).values, f(Xf).values
                except Exception as e:
                    ctx.fail("oracle", "%s on %s data raised %r" % (name, dt.__name__, e), dict(inp, dtype=dt.__name__)); continue
                if not np.allclose(r3, 3.0 * np.asarray(r1, dtype=np.float64), rtol=1e-4, atol=1e-3):
                    ctx.fail("oracle", "%s is not linear on %s data: f(3x) != 3 f(x)" % (name, dt.__name__),
                             dict(inp, dtype=dt.__name__, x=[int(v) for v in xi]), impl=float(np.max(np.abs(r3 - 3.0 * r1))))
                elif not np.allclose(r1, rf, rtol=1e-4, atol=1e-3):
                    ctx.fail("oracle", "%s on %s data differs from the same samples as float64" % (name, dt.__name__),
                             dict(inp, dtype=dt.__name__, x=[int(v) for v in xi]), impl=float(np.max(np.abs(r1 - rf))))
        # memory layout must not matter: a column-major (Fortran-ordered) tensor with distinct channels, default time support
        if c % 4 == 0:
            L0 = len(t)
            t0 = np.arange(L0) / fs
            d3 = npr.randn(L0, 2, 3)
            TF, TC = nap.TsdTensor(t0, np.asfortranarray(d3)), nap.TsdTensor(t0, np.ascontiguousarray(d3))
            for name, f in (("convolve", lambda z: z.convolve(k)), ("smooth", lambda z: z.smooth(3 / fs, size_factor=4)),
                            ("sinc lowpass", lambda z: nap.apply_lowpass_filter(z, lo, fs, mode="sinc")),
                            ("butter lowpass", lambda z: nap.apply_lowpass_filter(z, lo, fs, mode="butter"))):
                ctx.count("fortran-order:%s" % name)
                rF, rC = f(TF).values, f(TC).values
                if rF.shape != (L0, 2, 3) or not close(rF, rC):
                    ctx.fail("oracle", "%s of a Fortran-ordered TsdTensor differs from the same data in C order" % name, dict(inp, shape=[L0, 2, 3]),
                             impl=float(np.max(np.abs(rF - rC))) if rF.shape == rC.shape else list(rF.shape))
            ref = np.stack([np.convolve(d3[:, i, j], k, mode="full") for i in range(2) for j in range(3)], 1)
            full_ = TF.convolve(k).values.reshape(L0, 6)
            cands = [ref[c0:c0 + L0] for c0 in (len(k) // 2, (len(k) - 1) // 2, max(len(k) // 2 - 1, 0))]
            if not any(close(full_, cc) for cc in cands):
                ctx.fail("oracle", "convolve of a Fortran-ordered TsdTensor is not the per-channel NumPy convolution", dict(inp, shape=[L0, 2, 3]))
        # smooth == convolve with the gaussian window the code builds
        std = rng.choice([2, 3, 5]) / fs
        sm = X.smooth(std, size_factor=6)
        from scipy import signal as _sig
        M = int(X.rate * std) * 6
        M += (M % 2 == 0)
        w = _sig.windows.gaussian(M=M, std=int(X.rate * std)); w = w / w.sum()
        if not close(sm.values, X.convolve(w).values):
            ctx.fail("oracle", "smooth != convolve with its normalised gaussian window", inp)


def run(ctx):
    conv_cases(ctx, 4000 if ctx.quick else 40000)
    linear_and_filters(ctx, 40 if ctx.quick else 400)


def replay(ctx, rec):
    print("re-executing the recorded run of `./check C18 quick` with VERIF_SEED=%s; failing input: %s" % (rec.get("seed"), rec.get("input")))
    return None

"""C07 — threshold and dropna keep the right samples and a support that separates them."""
import itertools
import numpy as np
from ..common import enc, dec, ns, ns_arr
from .. import gen
from ..impl import nap, J, farr, iset, iset_ns, is_canonical_ns

RULE = ("threshold: every keep/reject pattern of <=6 (quick: <=5) strictly increasing samples placed in supports with 1..3 "
        "intervals (intervals holding 0/1/many samples, first sample not in the first interval), 4 methods, values equal "
        "to the threshold, scales 2us/1ms/1s; dropna: every NaN pattern of <=6 rows for Tsd/TsdFrame/TsdTensor, one or two "
        "support intervals. Oracle = the property (kept set, new support contains kept / excludes rejected, inside the old "
        "support, midpoint boundaries, restrict(original, new support) == result); kernel outputs compared with the Lean "
        "models of jitthreshold / jitremove_nan. distinct = distinct (timestamps, support, pattern, method)")
PROVED = ("threshold_correct (jitthreshold, kernel level, times doubled): for a strictly increasing series inside a canonical support - any "
          "length >= 1, any keep/reject pattern, one or many support intervals - the kernel returns, with as many starts as ends; sample i "
          "is kept iff 2 t[i] lies in a returned interval (every kept sample inside the new support, no rejected one); every returned "
          "interval lies inside ONE interval of the old support (no extension, no bridging) - from threshold_cover / threshold_inside "
          "(refinement of the position-indexed scan to a push-based reference + loop invariants) and C15 threshold_safe; regression "
          "theorems for the repaired findings, threshold_lone_sample_witness (the open finding); removeNan_cover (dropna: sample i is "
          "kept iff it lies in one of the returned runs; any mask), removeNan_runs")
NOT_PROVED = ("that boundaries between kept and rejected neighbours are MIDPOINTS is visible in the model text and decided by the oracle; "
              "the IntervalSet constructor applied to the kernel output (drops the zero-length interval of a lone sample: the open "
              "finding) and dropna's +1us singleton widening: oracle + correspondence only")
ASSUMPTIONS = ["timestamps strictly increasing (threshold); dropna with sampling steps <= 1 us: open finding C07-dropna-singleton-within-1us"]
METHODS = {"above": lambda d, t: d > t, "below": lambda d, t: d < t, "aboveequal": lambda d, t: d >= t, "belowequal": lambda d, t: d <= t}


def thr_case(ctx, ts, st, en, data, thr, method, sc, batch, dtype="float"):
    inp = dict(op="threshold", ts=ts, st=st, en=en, data=data, thr=thr, method=method, scale_ns=sc, dtype=dtype)
    ctx.case(("t", tuple(ts), tuple(st), tuple(en), tuple(data), method), inp if ctx.evaluations % 2003 == 9 else None)
    batch.append(inp)


def thr_eval(ctx, batch):
    lines = []
    for i in batch:
        mask = [bool(METHODS[i["method"]](d, i["thr"])) for d in i["data"]]
        i["_mask"] = mask
        lines.append("threshold %s %s %s %s" % (enc(i["ts"]), enc([1 if m else 0 for m in mask]), enc(i["st"]), enc(i["en"])))
    out = ctx.lean.run(lines) if ctx.lean else [None] * len(batch)
    for i, o in zip(batch, out):
        mask = i.pop("_mask")
        ts, st, en, sc = i["ts"], i["st"], i["en"], i["scale_ns"]
        n = len(ts)
        # kernel level (compiled) vs model
        eq = None
        if n >= 0:
            d = np.array(i["data"], dtype=np.int64 if i.get("dtype") == "int" else float)
            kt, kd, ks, ke = J.jitthreshold(farr(ts, 1), d, farr(st, 1), farr(en, 1), float(i["thr"]), i["method"])
            kern = ([int(round(v * 2e9)) for v in ks], [int(round(v * 2e9)) for v in ke])
            if o is not None:
                if o.startswith("ERR"):
                    eq = False
                    ctx.fail("corr", "model reports %s, kernel returned" % o, i, impl=kern, model=o)
                else:
                    a, b = o.split("|"); m = (dec(a), dec(b)); eq = (m == kern)
                    if not eq:
                        ctx.fail("corr", "jitthreshold != model", i, impl=kern, model=m)
        per_iv = [[m for t, m in zip(ts, mask) if a <= t <= b] for a, b in zip(st, en)]
        fctx = dict(op="threshold", n_support_intervals=len(st), n=n, impl_equals_model=bool(eq),
                    lone_kept=any(len(v) == 1 and v[0] for v in per_iv))
        x = nap.Tsd(farr(ts, sc), np.array(i["data"], dtype=np.int64 if i.get("dtype") == "int" else float), time_support=iset(st, en, sc))
        try:
            r = x.threshold(i["thr"], i["method"])
        except Exception as e:
            ctx.fail("oracle", "threshold raised %s" % type(e).__name__, i, impl=repr(e), finding_ctx=fctx)
            continue
        kept = [t * sc for t, m in zip(ts, mask) if m]
        rej = [t * sc for t, m in zip(ts, mask) if not m]
        keptd = [dv for dv, m in zip(i["data"], mask) if m]
        if ns_arr(r.t) != kept or [float(v) for v in r.values] != [float(v) for v in keptd]:
            ctx.fail("oracle", "threshold does not keep exactly the samples satisfying the comparison", i,
                     impl=[ns_arr(r.t), [float(v) for v in r.values]], expected=[kept, keptd], finding_ctx=fctx)
            continue
        ss, se = iset_ns(r.time_support)
        ins = lambda t: any(a <= t <= b for a, b in zip(ss, se))
        if any(ins(t) for t in rej):
            ctx.fail("oracle", "new support contains a rejected sample", i, impl=(ss, se), finding_ctx=fctx)
        if not all(ins(t) for t in kept):
            ctx.fail("oracle", "new support misses a kept sample", i, impl=(ss, se), finding_ctx=fctx)
        osn = ([s * sc for s in st], [e * sc for e in en])
        if not all(any(a <= s and e <= b for a, b in zip(*osn)) for s, e in zip(ss, se)):
            ctx.fail("oracle", "new support not inside the old one (or bridges a gap)", i, impl=(ss, se), finding_ctx=fctx)
        if ns_arr(x.restrict(r.time_support).t) != kept:
            ctx.fail("oracle", "restrict(original, new support) != result", i, impl=ns_arr(x.restrict(r.time_support).t), finding_ctx=fctx)
        # midpoints between kept and rejected neighbours of the same interval
        iv = lambda t: next(k for k, (a, b) in enumerate(zip(*osn)) if a <= t <= b)
        tn = [t * sc for t in ts]
        for j in range(n - 1):
            if mask[j] != mask[j + 1] and iv(tn[j]) == iv(tn[j + 1]):
                mid = (tn[j] + tn[j + 1]) // 2
                if mid not in ss + se:
                    ctx.fail("oracle", "boundary between kept and rejected neighbours is not their midpoint", i, impl=(ss, se), finding_ctx=fctx)
                    break


def nan_case(ctx, cls, ts, st, en, mask, sc, lines, meta):
    inp = dict(op="dropna", cls=cls, ts=ts, st=st, en=en, nan=mask, scale_ns=sc)
    ctx.case(("n", cls, tuple(ts), tuple(st), tuple(en), tuple(mask)), inp if ctx.evaluations % 2003 == 11 else None)
    n = len(ts)
    if cls == "Tsd":
        d = np.arange(n) + 1.0; d[np.array(mask, dtype=bool)] = np.nan
        x = nap.Tsd(farr(ts, sc), d, time_support=iset(st, en, sc))
    elif cls == "TsdFrame":
        d = np.stack([np.arange(n) + 1.0, np.arange(n) + 100.0], axis=1)
        for j, m in enumerate(mask):
            if m:
                d[j, j % 2] = np.nan
        if n >= 2 and sum(mask) and (ts[0] + n) % 3 == 0:
            # a kept row holding +inf and -inf (no NaN): it stays
            j0 = mask.index(0) if 0 in mask else None
            if j0 is not None:
                d[j0] = [np.inf, -np.inf]
        x = nap.TsdFrame(farr(ts, sc), d, columns=["a", "b"], time_support=iset(st, en, sc))
    else:
        d = np.tile((np.arange(n) + 1.0)[:, None, None], (1, 2, 2))
        for j, m in enumerate(mask):
            if m:
                d[j, j % 2, (j // 2) % 2] = np.nan
        x = nap.TsdTensor(farr(ts, sc), d, time_support=iset(st, en, sc))
    r = x.dropna()
    kept = [t * sc for t, m in zip(ts, mask) if not m]; rej = [t * sc for t, m in zip(ts, mask) if m]
    rows = [j for j, m in enumerate(mask) if not m]
    gotrows = [int(v) - 1 if np.isfinite(v) else rows[i] if i < len(rows) else -1
               for i, v in enumerate(np.asarray(r.values).reshape(len(r), -1)[:, 0])] if len(r) else []
    # the open finding's class: a kept sample alone in its run (its epoch is widened to [t, t + 1us]) whose successor is a rejected
    # sample at most 1 us later
    fctx = dict(op="dropna", singleton_successor_within_1us=any(
        (not mask[j]) and (j == 0 or mask[j - 1]) and j + 1 < n and mask[j + 1] and (ts[j + 1] - ts[j]) * sc <= 1000 for j in range(n)))
    if ns_arr(r.t) != kept or gotrows != rows:
        ctx.fail("oracle", "dropna does not keep exactly the NaN-free rows", inp, impl=[ns_arr(r.t), gotrows], expected=[kept, rows], finding_ctx=fctx); return
    ss, se = iset_ns(r.time_support)
    ins = lambda t: any(a <= t <= b for a, b in zip(ss, se))
    if any(ins(t) for t in rej) or not all(ins(t) for t in kept):
        ctx.fail("oracle", "dropna support does not separate kept from rejected samples", inp, impl=(ss, se), finding_ctx=fctx)
    if not is_canonical_ns(ss, se):
        ctx.fail("oracle", "dropna support not canonical", inp, impl=(ss, se))
    if ns_arr(x.restrict(r.time_support).t) != kept:
        ctx.fail("oracle", "restrict(original, dropna support) != result", inp, finding_ctx=fctx)
    if 0 < sum(mask) < n:
        s_, e_ = J.jitremove_nan(farr(range(n), 1), np.array(mask, dtype=bool))
        lines.append("removenan %s" % enc([1 if m else 0 for m in mask]))
        meta.append((inp, ([int(round(v * 1e9)) for v in s_], [int(round(v * 1e9)) for v in e_])))


def run(ctx):
    G = 9
    maxn = 5 if ctx.quick else 6
    supports = [([0], [G]), ([0, 5], [4, G]), ([0, 3, 7], [2, 5, G]), ([1], [8]), ([0, 6], [3, 9])]
    batch = []
    for st, en in supports:
        inside = [t for t in range(G + 1) if any(a <= t <= b for a, b in zip(st, en))]
        for n in range(1, maxn + 1):
            combos = list(itertools.combinations(inside, n))
            ctx.rng.shuffle(combos)
            for ts in combos[: (6 if ctx.quick else 40)]:
                for mask in itertools.product([0, 1], repeat=n):
                    method = ctx.rng.choice(list(METHODS))
                    # data in {0, 1, 2} with threshold 1: equality with the threshold occurs
                    if method in ("above", "aboveequal"):
                        data = [ctx.rng.choice([2] if method == "above" else [1, 2]) if m else ctx.rng.choice([0, 1] if method == "above" else [0]) for m in mask]
                    else:
                        data = [ctx.rng.choice([0] if method == "below" else [0, 1]) if m else ctx.rng.choice([1, 2] if method == "below" else [2]) for m in mask]
                    thr_case(ctx, list(ts), st, en, data, 1, method, ctx.rng.choice([2000, 10**6, 10**9]), batch)
    # integer-valued series (counts, state labels) against a non-integer threshold, all four methods
    for k in range(120 if ctx.quick else 1500):
        st, en = supports[k % len(supports)]
        inside = [t for t in range(G + 1) if any(a <= t <= b for a, b in zip(st, en))]
        ts = sorted(ctx.rng.sample(inside, ctx.rng.randint(2, min(6, len(inside)))))
        data = [ctx.rng.choice([-1, 0, 1, 2]) for _ in ts]
        thr_case(ctx, ts, st, en, data, ctx.rng.choice([0.5, 1.5, -0.5, 0.25]), list(METHODS)[k % 4], ctx.rng.choice([2000, 10**6, 10**9]), batch,
                 dtype="int")
    # missing values in the data: NaN satisfies none of the four comparisons, so a NaN sample is REJECTED by every method
    for k in range(160 if ctx.quick else 2000):
        st, en = supports[k % len(supports)]
        inside = [t for t in range(G + 1) if any(a <= t <= b for a, b in zip(st, en))]
        ts = sorted(ctx.rng.sample(inside, ctx.rng.randint(2, min(6, len(inside)))))
        data = [ctx.rng.choice([0.0, 2.0, float("nan")]) for _ in ts]
        thr_case(ctx, ts, st, en, data, 1, list(METHODS)[k % 4], ctx.rng.choice([2000, 10**6, 10**9]), batch)
    thr_eval(ctx, batch)
    lines, meta = [], []
    for st, en in [([0], [G]), ([0, 5], [4, G])]:
        inside = [t for t in range(G + 1) if any(a <= t <= b for a, b in zip(st, en))]
        for n in range(1, maxn + 2):
            combos = list(itertools.combinations(inside, n)); ctx.rng.shuffle(combos)
            for ts in combos[: (4 if ctx.quick else 30)]:
                for mask in itertools.product([0, 1], repeat=n):
                    nan_case(ctx, ctx.rng.choice(["Tsd", "TsdFrame", "TsdTensor"]), list(ts), st, en, list(mask),
                             ctx.rng.choice([2000, 10**6, 10**9]), lines, meta)
    # sampling steps of 1 us and 0.5 us (the resolution of time supports): dropna's singleton epochs [t, t + 1us] (open finding)
    for n in range(2, 6):
        for mask in itertools.product([0, 1], repeat=n):
            for sc in (1000, 500):
                nan_case(ctx, ["Tsd", "TsdFrame", "TsdTensor"][(n + sum(mask)) % 3], list(range(2, 2 + n)), [0], [G], list(mask), sc, lines, meta)
    out = ctx.lean.run(lines) if ctx.lean else None
    if out is not None:
        for (inp, got), o in zip(meta, out):
            a, b = o.split("|")
            if (dec(a), dec(b)) != got:
                ctx.fail("corr", "jitremove_nan != model", inp, impl=got, model=(dec(a), dec(b)))


def replay(ctx, rec):
    n0 = len(ctx.failures); i = rec["input"]
    if i.get("op") == "threshold":
        thr_eval(ctx, [dict(i)])
    else:
        nan_case(ctx, i["cls"], i["ts"], i["st"], i["en"], i["nan"], i["scale_ns"], [], [])
    for f in ctx.failures[n0:]:
        print(f["kind"], f["what"], "impl=", f["impl"])
    return len(ctx.failures) == n0

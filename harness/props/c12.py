"""C12 — a TsGroup is a consistent keyed collection on one time support."""
import numpy as np
from ..common import enc, ns, ns_arr
from .. import gen
from ..impl import nap, farr, iset, iset_ns, is_canonical_ns
from .c04 import encp, wf_problems

RULE = ("groups built from dicts/lists of Ts / Tsd / raw arrays with unsorted, non-contiguous, negative, string, float-valued-integer "
        "and numpy-integer keys, duplicate integer values, members with disjoint / overlapping / empty supports (n = 1, 2, >2 members: the "
        "three branches of _union_intervals), with and without an explicit support, with and without bypass_check; then histories of "
        "selection (key list, boolean mask, getby_threshold, getby_category, getby_intervals), restrict, get, merge (reset_index / "
        "reset_time_support), to_tsd -> to_tsgroup; after EVERY step the implementation's (keys, support, each member's timestamps, rows, "
        "support) are compared with the Lean model and with brute-force oracles (keys = sorted integer values, support = pointwise union, "
        "member = samples inside the support, rate = n / duration); group-level count / value_from / trial_count vs per-member results")
PROVED = ("new_keys, new_member (sort keeps data under its key), new_rejects_dup, new_support_given/union, new_members_restricted, "
          "select_member / select_preserves / select_rejects_missing, restrict_member, get_member, merge_member / merge_rejects_overlap / mergeN_supports / mergeN_member / mergeN_single, "
          "toTsd_toTsgroup_any_sort (any sorting permutation), restrictTo_self; C12Union: unionSupports_many (>= 3 members, no support given: an instant "
          "lies in the group support IFF it lies in some member's support - exact, the sweep of jitunion_isets merges touching intervals and the "
          "constructor then changes nothing: unionIsetsLoop_eq, sweep_spec, unionIsets_mk), unionSupports_one / _two (two members: C02 ISet_union_pointwise)")
EXTRA_MODULES = ["C12Union"]
NOT_PROVED = ("key conversion from str/float (harness "
              "passes integer values), rate arithmetic (definitional), group-level count/value_from/trial_count == per member (oracle)")
ASSUMPTIONS = ["members are well-formed series (C04)"]
SC = 10**9


def rand_member(rng, with_data, lo=0, hi=30):
    n = rng.randint(0, 6)
    ts = sorted(rng.sample(range(lo, hi), n))
    if rng.random() < 0.3 and ts:
        ts = sorted(ts + [rng.choice(ts)])
    if ts and rng.random() < 0.8:
        st, en = gen.rand_canonical(rng, 2, hi + 4)
        if not st:
            st, en = [min(ts)], [max(ts) + 1]
        ep = iset(st, en, SC)
    else:
        ep = None if (len(ts) and min(ts) < max(ts)) else iset([lo], [hi], SC)
    if with_data:
        return nap.Tsd(farr(ts, SC), np.arange(len(ts), dtype=float), time_support=ep)
    return nap.Ts(farr(ts, SC), time_support=ep)


def mstate(m):
    t = ns_arr(m.index.values)
    rows = [int(v) for v in m.values] if hasattr(m, "values") else None
    st, en = iset_ns(m.time_support)
    return t, rows, list(zip(st, en))


def gstate(g):
    st, en = iset_ns(g.time_support)
    return list(zip(st, en)), [(int(k),) + mstate(g[k]) for k in g.keys()]


def enc_member(k, m):
    t, rows, sup = mstate(m)
    return "%d@%s@%s@%s" % (k, enc(t), enc(rows if rows is not None else range(len(t))), encp(sup))


def parse_gstate(s):
    if s.startswith("ERR"):
        return s
    sup, ms = s.split("|")
    dec = lambda z: [] if z == "-" else [int(v) for v in z.split(",")]
    pp = lambda z: [] if z == "-" else [tuple(int(v) for v in p.split(":")) for p in z.split(",")]
    out = []
    if ms != "-":
        for m in ms.split("+"):
            k, t, rows, msup = m.split("@")
            out.append((int(k), dec(t), dec(rows), pp(msup)))
    return pp(sup), out


def same(impl, model):
    if isinstance(model, str) or isinstance(impl, str):
        return impl == model
    if impl[0] != model[0] or len(impl[1]) != len(model[1]):
        return False
    for (k, t, rows, sup), (mk, mt, mrows, msup) in zip(impl[1], model[1]):
        if (k, t, sup) != (mk, mt, msup) or (rows is not None and rows != mrows):
            return False
    return True


KEYFORMS = [lambda k: k, lambda k: str(k), lambda k: float(k), lambda k: np.int64(k), lambda k: np.float32(k)]


def in_union(x, sups):
    return any(s <= x <= e for sup in sups for s, e in sup)


def merge_oracle(ctx, name, merged, groups, ri, rs, inp):
    """a successful merge keeps every member's timestamps (those inside its own group's support, which is all of them unless
    the group was built with bypass_check) under its key — or, with reset_index, at its position"""
    want = []
    for grp in groups:
        sup = list(zip(*iset_ns(grp.time_support)))
        for key in grp.keys():
            t = ns_arr(grp[key].index.values)
            want.append((int(key), t if rs else [x for x in t if any(a <= x <= b for a, b in sup)]))
    got = [(int(k), ns_arr(merged[k].index.values)) for k in merged.keys()]
    if ri:
        want = [(i, t) for i, (_, t) in enumerate(want)]
    else:
        want = sorted(want)
    if got != want:
        bad = [(a, b) for a, b in zip(got, want) if a != b][:2]
        ctx.fail("oracle", "%s does not keep each member's timestamps under its key" % name, dict(inp), impl=bad and bad[0][0], expected=bad and bad[0][1])


def oracle_group(ctx, g, members, keys, given, bypass, inp):
    """brute-force statement of C12 on a freshly constructed group"""
    if [int(k) for k in g.keys()] != sorted(keys) or list(g.index) != sorted(keys):
        ctx.fail("oracle", "keys are not the sorted integer values", inp, impl=list(g.keys()), expected=sorted(keys))
    st, en = iset_ns(g.time_support)
    if not is_canonical_ns(st, en):
        ctx.fail("oracle", "group support not canonical", inp, impl=(st, en))
    sup = list(zip(st, en))
    if given is not None:
        if sup != given:
            ctx.fail("oracle", "support is not the one supplied", inp, impl=sup, expected=given)
    else:
        msups = [mstate(m)[2] for m in members]
        pts = sorted({p for s in msups + [sup] for a, b in s for p in (a, b)})
        probes = [p + d for p in pts for d in (-SC // 2, SC // 2)]   # away from endpoints (1 us trims)
        for x in probes:
            if in_union(x, msups) != in_union(x, [sup]):
                ctx.fail("oracle", "support is not the union of the members' supports at t=%d" % x, inp, impl=sup, expected=msups)
                break
    tot = sum(e - s for s, e in sup)
    for k, m in zip(keys, members):
        t0, rows0, _ = mstate(m)
        exp = t0 if bypass else [x for x in t0 if any(s <= x <= e for s, e in sup)]
        got = ns_arr(g[k].index.values)
        if got != exp:
            ctx.fail("oracle", "member %d is not its input restricted to the group support" % k, inp, impl=got, expected=exp)
        if len(got) and tot > 0 and not bypass:   # with bypass_check the member keeps the rate of its own support (caller opted out)
            r = float(g.rates[k]) if hasattr(g, "rates") else float(g.get_info("rate")[k])
            if not abs(r - len(got) / (tot / 1e9)) <= 1e-9 * max(1.0, r):
                ctx.fail("oracle", "rate[%d] != n / duration" % k, inp, impl=r, expected=len(got) / (tot / 1e9))
        if not bypass:
            for p in wf_problems(g[k], (st, en)):
                ctx.fail("oracle", "member %d: %s" % (k, p), inp)


def build(ctx, k, want_ok=True):
    rng = ctx.rng
    n = rng.choice([1, 2, 2, 3, 3, 4, 5])
    with_data = (k % 3 == 0)
    keys = rng.sample(range(-5, 40), n)
    if not want_ok and n >= 2 and rng.random() < 0.5:
        keys[1] = keys[0]
    members = [rand_member(rng, with_data) for _ in range(n)]
    given = None
    if rng.random() < 0.5:
        st, en = gen.rand_canonical(rng, 3, 34)
        if st:
            given = list(zip([s * SC for s in st], [e * SC for e in en]))
    bypass = rng.random() < 0.25
    return keys, members, given, bypass


def construct(keys, members, given, bypass, form):
    data = {}
    for i, (k, m) in enumerate(zip(keys, members)):
        kk = KEYFORMS[(form + i) % len(KEYFORMS)](k)
        if kk in data:          # Python would merge equal keys: use a form that stays distinct ("33" next to 33)
            kk = str(k)
        if kk in data:
            kk = str(k) + ".0"
        data[kk] = m
    assert len(data) == len(keys)
    ep = None if given is None else nap.IntervalSet(start=[a / 1e9 for a, _ in given], end=[b / 1e9 for _, b in given])
    return nap.TsGroup(data, time_support=ep, bypass_check=bypass)


def classify(e):
    s = str(e)
    if "same integer value" in s:
        return "ERR dupkey"
    if "Union of time supports is empty" in s:
        return "ERR emptyunion"
    if "not in group index" in s:
        return "ERR key"
    if "overlapping keys" in s:
        return "ERR overlap"
    if "different time support" in s:
        return "ERR support"
    return "ERR other:" + type(e).__name__ + ":" + s[:60]


def run_history(ctx, k, L):
    rng = ctx.rng
    keys, members, given, bypass = build(ctx, k, want_ok=(k % 7 != 0))
    form = rng.randrange(5)
    head = "ghist %s %s %d " % ("+".join(enc_member(kk, m) for kk, m in zip(keys, members)),
                                "none" if given is None else encp(given), 1 if bypass else 0)
    inp = dict(level="group", keys=keys, members=[mstate(m) for m in members], support=given, bypass=bypass, keyform=form, ops=[])
    try:
        g = construct(keys, members, given, bypass, form)
    except (ValueError, RuntimeError) as e:
        return head + "-", [classify(e)], inp
    oracle_group(ctx, g, members, keys, given, bypass, inp)
    obs, ops = [gstate(g)], []

    def push(name, op, fn, post=None):
        nonlocal g
        inp["ops"].append(name)
        try:
            r = fn()
        except (ValueError, RuntimeError, KeyError, IndexError) as e:
            obs.append(classify(e)); ops.append(op); return
        if post is not None:
            post(r)
        g = r
        obs.append(gstate(g)); ops.append(op)
        sup = iset_ns(g.time_support)
        for key in g.keys():
            for p in wf_problems(g[key], None):
                ctx.fail("oracle", "after %s member %s: %s" % (name, key, p), dict(inp))

    for _ in range(L):
        ks = [int(x) for x in g.keys()]
        c = rng.randrange(9)
        if c == 0 and ks:
            sel = rng.sample(ks, rng.randint(1, len(ks)))
            if rng.random() < 0.15:
                sel.append(99)
            push("g[%s]" % sel, "S/" + enc(sel), lambda: g[sel])
        elif c == 1 and ks:
            m = [rng.random() < 0.6 for _ in ks]
            sel = [x for x, b in zip(ks, m) if b]
            push("g[mask]", "S/" + enc(sel), lambda: g[np.array(m)])
        elif c == 2 and ks:
            rates = np.asarray(g.rates.values, dtype=float)
            thr = float(np.median(rates))
            op = rng.choice([">", "<", ">=", "<="])
            cmpf = {">": np.greater, "<": np.less, ">=": np.greater_equal, "<=": np.less_equal}[op]
            sel = [x for x, r in zip(ks, rates) if cmpf(r, thr)]
            push("getby_threshold(rate %s)" % op, "S/" + enc(sel), lambda: g.getby_threshold("rate", thr, op))
        elif c == 3 and ks:
            lab = {x: int(x) % 2 for x in ks}
            which = rng.randrange(2)
            sel = [x for x in ks if lab[x] == which]
            if sel:
                def bycat():
                    g2 = g[ks]          # same members; the label column lives on the copy only
                    g2.set_info(par=np.array([lab[x] for x in ks]))
                    r = g2.getby_category("par")[which]
                    return nap.TsGroup({x: r[x] for x in r.keys()}, time_support=r.time_support, bypass_check=True)
                push("getby_category", "S/" + enc(sel), bycat)
        elif c == 4:
            st, en = gen.rand_canonical(rng, 3, 34)
            if st:
                push("restrict", "R/" + encp(list(zip([s * SC for s in st], [e * SC for e in en]))), lambda: g.restrict(iset(st, en, SC)))
        elif c == 5:
            a = rng.randint(-2, 30); b = rng.randint(a, 34)
            push("get(%d,%d)" % (a, b), "G/%d/%d" % (a * SC, b * SC), lambda: g.get(float(a), float(b)))
        elif c == 6:
            k2, m2, given2, _ = build(ctx, k + 1)
            ri = rng.random() < 0.3; rs = rng.random() < 0.5
            if rng.random() < 0.6:
                sup_now = gstate(g)[0]
                given2 = sup_now
            try:
                h = construct(k2, m2, given2, False, 0)
            except (ValueError, RuntimeError):
                continue
            mem2 = "+".join(enc_member(kk, m) for kk, m in zip(k2, m2)) or "-"
            if rng.random() < 0.4:
                # three groups at once: a group in the MIDDLE of the argument list (h) is checked like the last one (h3)
                k3, m3, given3, _ = build(ctx, k + 2)
                k3 = [kk + 1000 for kk in k3] if rng.random() < 0.7 else k3
                if rng.random() < 0.7:
                    given3 = gstate(g)[0]
                try:
                    h3 = construct(k3, m3, given3, False, 0)
                except (ValueError, RuntimeError):
                    continue
                mem3 = "+".join(enc_member(kk, m) for kk, m in zip(k3, m3)) or "-"
                push("merge3(ri=%s,rs=%s)" % (ri, rs), "M3/%s/%s/%s/%s/%d/%d" % (mem2, "none" if given2 is None else encp(given2), mem3,
                                                                                 "none" if given3 is None else encp(given3), ri, rs),
                     lambda: nap.TsGroup.merge_group(g, h, h3, reset_index=ri, reset_time_support=rs),
                     post=lambda r, g0=g: merge_oracle(ctx, "merge_group(g, h, h3)", r, [g0, h, h3], ri, rs, inp))
                continue
            push("merge(ri=%s,rs=%s)" % (ri, rs), "M/%s/%s/%d/%d" % (mem2, "none" if given2 is None else encp(given2), ri, rs),
                 lambda: g.merge(h, reset_index=ri, reset_time_support=rs),
                 post=lambda r, g0=g: merge_oracle(ctx, "g.merge(h)", r, [g0, h], ri, rs, inp))
        elif c == 7 and ks:
            def rt_oracle(r, g0=g):
                # pooled: as many samples as the members hold together; split again: every member with samples keeps its timestamps
                gs_, ge_ = iset_ns(g0.time_support)
                inside = lambda t: any(a_ <= t <= b_ for a_, b_ in zip(gs_, ge_))
                if any(not inside(t) for x in g0.keys() for t in ns_arr(g0[x].t)):
                    return          # a bypass_check group whose members reach outside the group support: the caller opted out
                n_tot = sum(len(g0[x]) for x in g0.keys())
                if len(g0.to_tsd()) != n_tot:
                    ctx.fail("oracle", "to_tsd holds %d samples, the members hold %d (coincident spikes of different members are distinct samples)" %
                             (len(g0.to_tsd()), n_tot), dict(inp))
                for x in g0.keys():
                    if len(g0[x]) and (x not in list(r.keys()) or ns_arr(r[x].t) != ns_arr(g0[x].t)):
                        ctx.fail("oracle", "to_tsd -> to_tsgroup changed the timestamps of member %d" % x, dict(inp),
                                 impl=ns_arr(r[x].t) if x in list(r.keys()) else None, expected=ns_arr(g0[x].t))
            push("to_tsd.to_tsgroup", "Y", lambda: g.to_tsd().to_tsgroup(), post=rt_oracle)
        elif c == 8 and ks:
            # group-level operations equal the per-member results (oracle only)
            ep = iset([0], [32], SC)
            b = rng.choice([1.0, 2.0, 4.0])
            try:
                cnt = g.count(b, ep)
                for j, x in enumerate(ks):
                    if not np.array_equal(np.asarray(cnt.values)[:, j], np.asarray(g[x].count(b, ep).values)):
                        ctx.fail("oracle", "group count column %d != member count" % x, dict(inp))
                tc = g.trial_count(ep, b) if all(isinstance(g[x], nap.Ts) for x in ks) else []
                for j, x in enumerate(ks if len(tc) else []):
                    if not np.array_equal(np.nan_to_num(tc[j], nan=-1), np.nan_to_num(g[x].trial_count(ep, b), nan=-1)):
                        ctx.fail("oracle", "group trial_count[%d] != member trial_count" % x, dict(inp))
                st2, en2 = gen.rand_canonical(rng, 3, 34)
                if not st2:
                    st2, en2 = [3, 15], [9, 27]
                ep2 = iset(st2, en2, SC)
                tsrc = sorted(rng.sample(range(0, 34), rng.randint(2, 7)))
                src = nap.Tsd(farr(tsrc, SC), np.arange(len(tsrc), dtype=float) + 1)
                mode = rng.choice(["closest", "before", "after"])
                vf = g.value_from(src, ep2, mode=mode)
                for x in ks:
                    ref = g[x].value_from(src, ep2, mode=mode)
                    if not np.array_equal(vf[x].values, ref.values, equal_nan=True) or ns_arr(vf[x].t) != ns_arr(ref.t):
                        ctx.fail("oracle", "group value_from[%d] != member value_from (mode %s)" % (x, mode),
                                 dict(inp, ep=[st2, en2], src=tsrc), impl=[ns_arr(vf[x].t), vf[x].values.tolist()],
                                 expected=[ns_arr(ref.t), ref.values.tolist()])
                # without ep (the source's own support decides), a source living on a multi-interval support that does not cover the
                # group's support; and count() without ep (the group's support decides)
                src2 = nap.Tsd(farr(tsrc, SC), np.arange(len(tsrc), dtype=float) + 1, time_support=ep2)
                if len(src2):
                    vf0 = g.value_from(src2, mode=mode)
                    for x in ks:
                        ref = g[x].value_from(src2, mode=mode)
                        if not np.array_equal(vf0[x].values, ref.values, equal_nan=True) or ns_arr(vf0[x].t) != ns_arr(ref.t) or \
                                iset_ns(vf0[x].time_support) != iset_ns(ref.time_support):
                            ctx.fail("oracle", "group value_from(src) without ep [%d] != member value_from(src) (mode %s)" % (x, mode),
                                     dict(inp, src_support=[st2, en2], src=tsrc), impl=[ns_arr(vf0[x].t), vf0[x].values.tolist()],
                                     expected=[ns_arr(ref.t), ref.values.tolist()])
                cnt0 = g.count(b)
                for j, x in enumerate(ks):
                    if not np.array_equal(np.asarray(cnt0.values)[:, j], np.asarray(g[x].count(b, g.time_support).values)):
                        ctx.fail("oracle", "group count(bin) without ep, column %d != member count on the group support" % x, dict(inp))
                ctx.count("group_level_ops")
            except Exception as e:
                ctx.fail("oracle", "group-level count / trial_count / value_from raised %r" % (e,), dict(inp))
    return head + (";".join(ops) or "-"), obs, inp


def run(ctx):
    n = 1500 if ctx.quick else 12000
    L = 5 if ctx.quick else 12
    lines, metas = [], []
    for k in range(n):
        line, obs, inp = run_history(ctx, k, ctx.rng.randint(0, L))
        ctx.case(("g", line), inp if k % 71 == 0 else None)
        ctx.count("members=%d" % len(inp["keys"]))
        for nm in inp["ops"]:
            ctx.count("op:" + nm.split("(")[0].split("[")[0])
        lines.append(line); metas.append((obs, inp))
    out = ctx.lean.run(lines) if ctx.lean else None
    if out is None:
        return
    for (obs, inp), o in zip(metas, out):
        states = o.split(";")
        if len(states) != len(obs):
            ctx.fail("corr", "model answered %r" % o[:100], inp, impl=obs[:1]); continue
        for j, (s, ob) in enumerate(zip(states, obs)):
            m = parse_gstate(s)
            if isinstance(ob, str) and ob.startswith("ERR other"):
                ctx.fail("corr", "implementation raised an unmodelled error at step %d: %s" % (j, ob), dict(inp, ops=inp["ops"][:j]), model=m)
                break
            if not same(ob, m):
                ctx.fail("corr", "state after step %d (%s) != model" % (j, inp["ops"][j - 1] if j else "constructor"),
                         dict(inp, ops=inp["ops"][:j]), impl=ob, model=m)
                break


def replay(ctx, rec):
    print("re-executing the recorded run of `./check C12 quick` with VERIF_SEED=%s; failing input: %s" % (rec.get("seed"), rec.get("input")))
    return None

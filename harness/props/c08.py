"""C08 — time-window slicing and trial tensors select exactly the windowed samples."""
import itertools
import numpy as np
from ..common import enc, ns, ns_arr
from .. import gen
from ..impl import nap, farr, iset, iset_ns

RULE = ("_get_slice: every multiset of 1..4 timestamps on the even grid {0,2,..,8} (duplicates incl. at the window edges) x "
        "every window (start, end) / single instant on the integer grid {-1..9} (before, after, inside, covering, "
        "start == end, edges equal to timestamps, half-way between samples) x 4 modes, compared with the Lean model; "
        "get / get_slice / TsGroup.get: oracle 'exactly start <= t <= end', support unchanged, nearest sample, units s/ms/us; "
        "to_trial_tensor / trial_count / build_tensor / warp_tensor: trial sets with unequal durations and trials holding "
        "no sample or no bin, align start/end, padding, Tsd/TsdFrame/Ts/TsGroup. distinct = distinct (timestamps, window, mode)")
PROVED = ("C08Get: get_eq_filter (the WHOLE method x.get(start, end) on a well-formed series: exactly the samples with start <= t <= end, in order, nothing more lost by the constructor it goes through), get_support (support unchanged, or the empty object); get_window: restrict-mode slice = exactly the positions with start <= t <= end (sorted t, any length, duplicates); "
          "get_rejects_inverted; get_nearest: x.get(start) returns slice (i, i+1) of a sample at least as close to start as every other "
          "(any non-empty sorted series, start before / inside / after the data, ties to the later sample, Python's wrap-around t[-1] read); "
          "trial_rows / trialRow_mem: to_trial_tensor has one row per trial, all equally long, sample k in row i iff start_i <= t[k] <= end_i, "
          "occupied cells consecutive in time order at the start (align=start) or the end (align=end) of the row, the rest padding; "
          "trialCount_rows: row i of trial_count, read without padding, = the counts of exactly the bins of count whose centre lies in "
          "trial i, in order, and the preallocated width always suffices (canonical trials, any bin size, both alignments)")
NOT_PROVED = ("before_t / after_t / closest_t WITH end (model correspondence; the single-instant forms are C08Modes.get_before and get_after); warp == count: oracle")
ASSUMPTIONS = ["series non-empty and sorted (C04)"]
EXTRA_MODULES = ["C08Get", "C08Modes"]
MODES = ["before_t", "after_t", "closest_t", "restrict"]


def slice_cases(ctx):
    tss = [list(t) for t in gen.multisets(4, 4, 1)]
    lines, meta = [], []
    k = 0
    for ts in tss:
        ts2 = [2 * v for v in ts]
        x = nap.Ts(farr(ts2, 10**9), time_support=iset([-5], [15], 10**9))
        for a in range(-1, 10):
            for b in [None] + list(range(a, 10)):
                k += 1
                if ctx.quick and (k % 3):
                    continue
                for m, mode in enumerate(MODES):
                    if mode == "restrict" and b is None:
                        continue
                    inp = dict(level="slice", ts=ts2, start=a, end=b, mode=mode)
                    ctx.case(("s", tuple(ts2), a, b, m), inp if k % 4999 == 1 and m == 3 else None)
                    try:
                        sl = x._get_slice(float(a), None if b is None else float(b), mode=mode)
                        got = "%d:%d" % (sl.start, sl.stop)
                    except IndexError:
                        got = "ERR index"
                    except ValueError:
                        got = "ERR value"
                    lines.append("getslice %s %d %d %s" % (enc(ts2), m, a, "-" if b is None else str(b)))
                    meta.append((inp, got))
                    if mode == "restrict":
                        exp = [i for i, t in enumerate(ts2) if a <= t <= b]
                        sel = list(range(len(ts2)))[sl] if not got.startswith("ERR") else None
                        if sel != exp:
                            ctx.fail("oracle", "get_slice(start,end) does not select exactly start<=t<=end", inp, impl=sel, expected=exp)
    out = ctx.lean.run(lines) if ctx.lean else None
    if out is not None:
        for (inp, got), o in zip(meta, out):
            if o != got:
                ctx.fail("corr", "_get_slice != model", inp, impl=got, model=o)


def api_get(ctx, n):
    for k in range(n):
        ts = gen.rand_sorted(ctx.rng, 8, 12, dup=0.35)
        if not ts:
            continue
        sc = ctx.rng.choice([10**9, 10**6, 2000]); unit = ["s", "ms", "us"][k % 3]; f = {"s": 1e9, "ms": 1e6, "us": 1e3}[unit]
        a = ctx.rng.randint(-2, 13); b = ctx.rng.randint(a, 14)
        off = -6 if k % 2 else 0
        ts = [t + off for t in ts]; a += off; b += off
        inp = dict(level="get", ts=ts, start=a, end=b, scale_ns=sc, unit=unit)
        ctx.case(("g", tuple(ts), a, b, sc))
        full = iset([min(ts) - 3], [max(ts) + 3], sc)
        cls = k % 3
        if cls == 0:
            x = nap.Ts(farr(ts, sc), time_support=full)
        elif cls == 1:
            x = nap.Tsd(farr(ts, sc), np.arange(len(ts)) + 1.0, time_support=full)
        else:
            x = nap.TsdFrame(farr(ts, sc), np.stack([np.arange(len(ts)) + 1.0, np.arange(len(ts)) * 2.0], 1), columns=["u", "v"], time_support=full)
        r = x.get(a * sc / f, b * sc / f, time_units=unit)
        exp = [i for i, t in enumerate(ts) if a <= t <= b]
        if ns_arr(r.t) != [ts[i] * sc for i in exp]:
            ctx.fail("oracle", "get(start,end) != samples with start<=t<=end", inp, impl=ns_arr(r.t), expected=[ts[i] * sc for i in exp])
        if cls and len(r) and [int(v) - 1 for v in np.asarray(r.values).reshape(len(r), -1)[:, 0]] != exp:
            ctx.fail("oracle", "get(start,end) rows", inp)
        if iset_ns(r.time_support) != iset_ns(full):
            # open finding C08-get-empty-window-support: a result without samples gets the EMPTY support (library-wide rule for empty objects)
            ctx.fail("oracle", "get changed the time support", inp, impl=iset_ns(r.time_support),
                     finding_ctx=dict(op="get", empty_result=len(r) == 0, result_support_empty=iset_ns(r.time_support) == ([], [])))
        # the same window on a series holding ONE instant (one sample, or duplicates of it) built WITHOUT a time support
        if k % 7 == 0:
            t1 = ts[len(ts) // 2]; m1 = 1 + k % 3
            y = nap.Ts(farr([t1] * m1, sc)) if cls == 0 else nap.Tsd(farr([t1] * m1, sc), np.arange(m1) + 1.0)
            ry = y.get(a * sc / f, b * sc / f, time_units=unit)
            want = m1 if a <= t1 <= b else 0
            ctx.count("get:one-instant-default-support")
            if len(ry) != want:
                ctx.fail("oracle", "get(start,end) on a one-instant series without time support: %d samples, expected %d" % (len(ry), want),
                         dict(inp, one_instant=[t1] * m1), impl=ns_arr(ry.t),
                         finding_ctx=dict(op="get", one_instant_default_support=True, own_support_empty=iset_ns(y.time_support) == ([], []), lost_all=len(ry) == 0))
        sl = x.get_slice(a * sc / f, b * sc / f, time_unit=unit)
        if ns_arr(x[sl].t) != ns_arr(r.t):
            ctx.fail("oracle", "x[get_slice(a,b)] != get(a,b)", inp)
        s1 = x.get_slice(a * sc / f, time_unit=unit)
        dmin = min(abs(t - a) for t in ts)
        if s1.stop - s1.start != 1 or abs(ts[s1.start] - a) != dmin:
            ctx.fail("oracle", "get(start) is not the nearest sample", inp, impl=[s1.start, s1.stop], expected=dmin)
        r1 = x.get(a * sc / f, time_units=unit)
        if cls == 0 and ns_arr(r1.t) != [ts[s1.start] * sc]:
            ctx.fail("oracle", "get(start) != x[get_slice(start)]", inp, impl=ns_arr(r1.t))
        if k % 4 == 0:
            g = nap.TsGroup({1: nap.Ts(farr(ts, sc)), 4: nap.Ts(farr(ts[::2], sc))}, time_support=full)
            rg = g.get(a * sc / f, b * sc / f, time_units=unit)
            for key, src in ((1, ts), (4, ts[::2])):
                if ns_arr(rg[key].t) != [t * sc for t in src if a <= t <= b]:
                    ctx.fail("oracle", "TsGroup.get member %d" % key, inp, impl=ns_arr(rg[key].t))


def trials(ctx, n):
    for k in range(n):
        ts = sorted(set(gen.rand_sorted(ctx.rng, 14, 24, dup=0)))
        if len(ts) < 2:
            continue
        st, en = gen.rand_canonical(ctx.rng, 4, 26)
        if not st:
            continue
        align = ["start", "end"][k % 2]; pad = [np.nan, -1.0][(k // 2) % 2]
        inp = dict(level="trial", ts=ts, st=st, en=en, align=align, pad=None if np.isnan(pad) else pad)
        ctx.case(("t", tuple(ts), tuple(st), tuple(en), align))
        full = iset([-1], [27], 10**9)
        ep = iset(st, en, 10**9)
        d = np.arange(len(ts)) + 1.0
        tsd = nap.Tsd(farr(ts, 10**9), d, time_support=full)
        rows = [[d[i] for i, t in enumerate(ts) if s <= t <= e] for s, e in zip(st, en)]
        width = max(len(r) for r in rows)

        def layout(rows, width):
            out = np.full((len(rows), width), pad)
            for i, r in enumerate(rows):
                if align == "start":
                    out[i, :len(r)] = r
                else:
                    out[i, width - len(r):] = r
            return out
        eq = lambda a, b: a.shape == b.shape and np.array_equal(np.nan_to_num(a, nan=-77), np.nan_to_num(b, nan=-77))
        try:
            tt = tsd.to_trial_tensor(ep, align=align, padding_value=pad)
            if not eq(tt, layout(rows, width)):
                ctx.fail("oracle", "to_trial_tensor layout", inp, impl=tt.tolist(), expected=layout(rows, width).tolist())
            # the same call on the model: which sample position sits in which cell
            if ctx.lean:
                o = ctx.lean.run(["trial %s %s %d" % (enc(ts), ",".join("%d:%d" % (a, b) for a, b in zip(st, en)), 1 if align == "end" else 0)])[0]
                cells = [[] if r == "." else [None if c == "-" else int(c) for c in r.split(",")] for r in o.split("|")] if not o.startswith("ERR") else o
                got = [[None if (np.isnan(v) if np.isnan(pad) else v == pad) else int(v) - 1 for v in row] for row in np.asarray(tt)]
                if cells != got:
                    ctx.fail("corr", "to_trial_tensor cells != model trialTensor", inp, impl=got, model=cells)
            bt = nap.build_tensor(tsd, ep, align=align, padding_value=pad)
            if not eq(bt, tt):
                ctx.fail("oracle", "build_tensor(Tsd) != to_trial_tensor", inp)
            fr = nap.TsdFrame(farr(ts, 10**9), np.stack([d, d * 10], 1), time_support=full)
            tf = fr.to_trial_tensor(ep, align=align, padding_value=pad)
            if tf.shape != (2, len(st), width) or not eq(tf[0], layout(rows, width)) or not eq(tf[1], layout([[v * 10 for v in r] for r in rows], width)):
                ctx.fail("oracle", "TsdFrame.to_trial_tensor layout", inp, impl=tf.tolist())
        except Exception as e:
            ctx.fail("oracle", "to_trial_tensor raised %r" % (e,), inp)
        # trial_count == count, row per trial
        b = ctx.rng.choice([1, 2, 4])
        x = nap.Ts(farr(ts, 10**9), time_support=full)
        try:
            tc = x.trial_count(ep, float(b), align=align, padding_value=pad)
            cnt = x.count(float(b), ep)
            crow = [[float(v) for t, v in zip(cnt.t, cnt.values) if s <= t <= e] for s, e in zip(st, en)]
            w2 = max(len(r) for r in crow)
            if not eq(np.asarray(tc, dtype=float), layout(crow, w2)):
                ctx.fail("oracle", "trial_count != per-trial rows of count", inp, impl=np.asarray(tc).tolist(), expected=layout(crow, w2).tolist())
            if ctx.lean:
                o = ctx.lean.run(["tcount %s %s %s %d %d" % (enc(ts), enc(st), enc(en), b, 1 if align == "end" else 0)])[0]
                cells = [[] if r == "." else [None if c == "-" else int(c) for c in r.split(",")] for r in o.split("|")] if not o.startswith("ERR") else o
                got = [[None if (np.isnan(v) if np.isnan(pad) else v == pad) else int(v) for v in row] for row in np.asarray(tc, dtype=float)]
                if cells != got:
                    ctx.fail("corr", "trial_count cells != model trialCount", dict(inp, bin=b), impl=got, model=cells)
            # the same timestamps on a NARROW support ([first, last], and with a gap in the middle): trials start before it, run past
            # it or span the gap - the rows are still count(bin, ep) cut per trial, bins anchored at the trial starts
            d2 = sorted(set(ts))
            if len(d2) >= 2:
                narrow = [iset([d2[0]], [d2[-1]], 10**9)]
                if len(d2) >= 4:
                    narrow.append(iset([d2[0], d2[2]], [d2[1], d2[-1]], 10**9))
                for sup2 in narrow:
                    x2 = nap.Ts(farr(ts, 10**9), time_support=sup2)
                    if len(x2) != len(ts):
                        continue
                    tc2 = x2.trial_count(ep, float(b), align=align, padding_value=pad)
                    if not eq(np.asarray(tc2, dtype=float), np.asarray(tc, dtype=float)):
                        ctx.fail("oracle", "trial_count of the same timestamps on a narrower time support differs", dict(inp, bin=b, support=iset_ns(sup2)),
                                 impl=np.asarray(tc2, dtype=float).tolist(), expected=np.asarray(tc, dtype=float).tolist())
            g = nap.TsGroup({3: x, 8: nap.Ts(farr(ts[::2], 10**9), time_support=full)}, time_support=full)
            tg = g.trial_count(ep, float(b), align=align, padding_value=pad)
            m8 = g[8].trial_count(ep, float(b), align=align, padding_value=pad)
            if not (eq(np.asarray(tg[0], dtype=float), np.asarray(tc, dtype=float)) and eq(np.asarray(tg[1], dtype=float), np.asarray(m8, dtype=float))):
                ctx.fail("oracle", "TsGroup.trial_count != member trial_count", inp)
            if not eq(np.asarray(nap.build_tensor(x, ep, bin_size=float(b), align=align, padding_value=pad), dtype=float), np.asarray(tc, dtype=float)):
                ctx.fail("oracle", "build_tensor(Ts) != trial_count", inp)
        except Exception as e:
            ctx.fail("oracle", "trial_count raised %r" % (e,), inp)
        # warp_tensor of timestamps == counting in num_bins equal bins (dyadic divisions only)
        nb = ctx.rng.choice([1, 2, 4])
        if all((e - s) % nb == 0 or nb in (1, 2, 4) for s, e in zip(st, en)):
            try:
                wt = nap.warp_tensor(x, ep, nb)
                exp = np.array([[sum(1 for t in ts if s <= t <= e and s + j * (e - s) / nb <= t < s + (j + 1) * (e - s) / nb)
                                 for j in range(nb)] for s, e in zip(st, en)], dtype=float)
                if not eq(np.asarray(wt, dtype=float), exp):
                    ctx.fail("oracle", "warp_tensor != counts in num_bins equal bins", inp, impl=np.asarray(wt).tolist(), expected=exp.tolist())
            except Exception as e:
                ctx.fail("oracle", "warp_tensor raised %r" % (e,), inp)


def run(ctx):
    slice_cases(ctx)
    api_get(ctx, 600 if ctx.quick else 8000)
    trials(ctx, 150 if ctx.quick else 2500)


def replay(ctx, rec):
    print("re-executing the recorded run of `./check C08 quick` with VERIF_SEED=%s; failing input: %s" % (rec.get("seed"), rec.get("input")))
    return None

"""C10 — operations never modify their arguments; containers reject in-place writes (dynamic frame check + translator)."""
import importlib.util, os, shutil
import numpy as np
import pandas as pd
from ..common import VERIF, WORK
from ..impl import nap

RULE = ("translator: every syntactic in-place write site of pynapple/core and pynapple/process regenerated from the current source and "
        "classified (fresh / scalar / hand-justified) by `decide`; dynamic frame check: random histories over a pool of live objects (Ts, "
        "Tsd, TsdFrame and IntervalSet and TsGroup with metadata, TsdTensor, caller-supplied kernels, bin edges, tuning-curve tables and raw "
        "arrays, plus every earlier RESULT, so aliasing between results is exposed) of ~70 public operations (restrict, count, "
        "bin_average, value_from, interpolate, threshold, dropna, convolve, smooth, find_support, get, slicing, numpy functions, set algebra, "
        "split / drop / merge of intervals, group selection / merge / conversion, correlograms, perievent, tuning curves, decoding, all "
        "filters, spectra, randomisation, warping, save, and ~17 calls with caller-owned raw arguments - unsorted key / index / timestamp arrays, label lists, dicts - which must come back unchanged): a deep byte-level snapshot of EVERY live object is compared before/after every "
        "call; item assignment and set_info on a result must change that object only; every assignment through a container entry "
        "(reserved attributes, IntervalSet items, time index items) must raise and change nothing.  distinct = distinct (operation, argument kinds)")
PROVED = ("frame_step, frame_history (writes confined to an operation's own allocations leave every pre-existing buffer unchanged, any "
          "history), nonlocal_write_witness; sites_classified, whitelist_is_live (decide over the regenerated site table)")
NOT_PROVED = ("that the classified sites are ALL the mutation routes (C extensions, pandas internals, views handed to NumPy): covered by the "
              "dynamic snapshot check; raw arrays exported through .values/.t/.start are writeable NumPy buffers (outside the container API, "
              "DESIGN section 3)")
ASSUMPTIONS = ["the container API is the object of the property, not exported raw NumPy buffers"]


def _extractor():
    spec = importlib.util.spec_from_file_location("extract_inplace_sites", os.path.join(VERIF, "tools", "extract_inplace_sites.py"))
    m = importlib.util.module_from_spec(spec); spec.loader.exec_module(m)
    return m


def pregen():
    _extractor().main()


# ------------------------------------------------------------------ snapshots
def snap(o, depth=0):
    if depth > 6:
        return "deep"
    if isinstance(o, np.ndarray):
        if o.dtype == object:
            return ("objarr", o.shape, tuple(snap(x, depth + 1) for x in o.ravel()))
        return ("arr", o.shape, str(o.dtype), o.tobytes())
    if isinstance(o, nap.IntervalSet):
        return ("iset", np.asarray(o.values).tobytes(), snap(o._metadata, depth + 1), tuple(o.index.tolist()))
    if isinstance(o, nap.TsGroup):
        return ("group", tuple(o.keys()), tuple(snap(o[k], depth + 1) for k in o.keys()), snap(o.time_support, depth + 1),
                snap(o._metadata, depth + 1))
    if isinstance(o, (nap.Ts, nap.Tsd, nap.TsdFrame, nap.TsdTensor)):
        extra = ()
        if isinstance(o, nap.TsdFrame):
            extra = (tuple(map(str, o.columns)), snap(o._metadata, depth + 1))
        return (type(o).__name__, np.asarray(o.index.values).tobytes(),
                np.asarray(o.values).tobytes() if hasattr(o, "values") else b"", str(getattr(o, "dtype", "")),
                snap(o.time_support, depth + 1), repr(float(o.rate))) + extra
    if isinstance(o, (pd.DataFrame, pd.Series)):
        return ("pd", tuple(map(str, getattr(o, "columns", []))), tuple(map(str, o.index)), snap(np.asarray(o.values), depth + 1))
    if isinstance(o, dict):
        return ("dict", tuple((str(k), snap(v, depth + 1)) for k, v in o.items()))
    if isinstance(o, (list, tuple)):
        return ("seq", tuple(snap(v, depth + 1) for v in o))
    if isinstance(o, (int, float, str, bool, type(None), np.generic, slice)):
        return ("v", repr(o))
    return ("obj", type(o).__name__)


# ------------------------------------------------------------------ pool and operations
class Pool:
    def __init__(self, rng, npr):
        self.rng, self.npr = rng, npr
        t = np.sort(npr.choice(np.arange(0, 400), size=60, replace=False)) * 0.25
        ep = nap.IntervalSet(start=[0.0, 40.0, 70.0], end=[30.0, 60.0, 100.0], metadata={"lab": np.array(["a", "b", "c"], dtype=object), "num": np.arange(3)})
        self.objs = []
        add = self.objs.append
        add(("iset", ep))
        add(("iset", nap.IntervalSet(start=[5.0, 45.0], end=[20.0, 80.0])))
        add(("ts", nap.Ts(t, time_support=ep)))
        add(("ts", nap.Ts(np.sort(npr.uniform(0, 100, 40)))))
        add(("tsd", nap.Tsd(t, npr.randn(60), time_support=ep)))
        reg = np.arange(0, 100, 0.5)
        add(("tsd", nap.Tsd(reg, np.sin(reg) + 0.1 * npr.randn(len(reg)))))
        add(("frame", nap.TsdFrame(reg, npr.randn(len(reg), 3), columns=["x", "y", "z"], metadata={"m": np.array([1, 2, 3])})))
        add(("tensor", nap.TsdTensor(reg, npr.randn(len(reg), 2, 2))))
        g = nap.TsGroup({3: nap.Ts(np.sort(npr.uniform(0, 100, 50))), 1: nap.Ts(np.sort(npr.uniform(0, 100, 30))), 7: nap.Ts(np.sort(npr.uniform(0, 100, 20)))},
                        time_support=nap.IntervalSet(0.0, 100.0), metadata={"grp": np.array([0, 1, 0])})
        add(("group", g))
        add(("kernel", np.array([0.25, 0.5, 0.25])))
        add(("kernel", np.ones(4) / 4.0))
        add(("arr", np.array([2.0, 10.0, 50.0])))
        add(("tc", pd.DataFrame(index=np.array([0.5, 1.5, 2.5]), data=npr.uniform(0.5, 3, (3, 3)), columns=[1, 3, 7])))
        # data with missing values (appended last: fixed pool indices above stay valid): operations that treat NaN specially
        # (dropna, convolve / smooth, interpolate, reductions) must not repair the caller's array
        vn = npr.randn(len(reg)); vn[[3, 50, 51, 120]] = np.nan
        add(("tsd", nap.Tsd(reg, vn)))
        fn = npr.randn(len(reg), 2); fn[[0, 77], [0, 1]] = np.nan
        add(("frame", nap.TsdFrame(reg, fn, columns=["p", "q"])))

    def pick(self, kind):
        c = [o for k, o in self.objs if k == kind]
        return self.rng.choice(c)

    def add(self, r):
        if isinstance(r, tuple):
            for x in r:
                self.add(x)
            return
        if isinstance(r, dict):
            for x in list(r.values())[:3]:
                self.add(x)
            return
        if isinstance(r, list):
            for x in r[:3]:
                self.add(x)
            return
        kind = None
        if isinstance(r, nap.IntervalSet):
            kind = "iset"
        elif isinstance(r, nap.TsGroup):
            kind = "group"
        elif isinstance(r, nap.Ts):
            kind = "ts"
        elif isinstance(r, nap.Tsd):
            kind = "tsd"
        elif isinstance(r, nap.TsdFrame):
            kind = "frame"
        elif isinstance(r, nap.TsdTensor):
            kind = "tensor"
        elif isinstance(r, (pd.DataFrame, pd.Series)):
            kind = "pd"
        elif isinstance(r, np.ndarray) and r.ndim >= 1:
            kind = "rawresult"
        if kind and len(self.objs) < 70:
            if kind in ("ts", "tsd", "frame", "tensor") and len(r) < 4:
                return
            if kind == "iset" and len(r) == 0:
                return
            if kind == "group" and (len(r) == 0 or len(r.time_support) == 0):
                return
            self.objs.append((kind, r))


class ArgMutated(Exception):
    pass


def with_args(fn, *args):
    """call fn(*args) with caller-owned raw arguments (arrays, lists, dicts); they must come back unchanged"""
    before = [snap(a) for a in args]
    r = fn(*args)
    for i, (b, a) in enumerate(zip(before, args)):
        if snap(a) != b:
            raise ArgMutated("argument %d (%s)" % (i, type(a).__name__))
    return r


def operations(P, tmp):
    R, pk = P.rng, P.pick
    ep = lambda: pk("iset")
    def rev_keys(g):
        k = np.array(list(g.keys()))[::-1].copy()
        R.shuffle(k)
        return k
    def series():
        return pk(R.choice(["tsd", "frame", "tensor"]))
    def timed():
        return pk(R.choice(["ts", "tsd", "frame"]))
    O = [
        ("restrict", lambda: timed().restrict(ep())),
        ("restrict(own support)", lambda: (lambda x: x.restrict(x.time_support))(timed())),
        ("group.restrict", lambda: pk("group").restrict(ep())),
        ("group.restrict(own support)", lambda: (lambda g: g.restrict(g.time_support))(pk("group"))),
        ("get(all)", lambda: (lambda x: x.get(-1e6, 1e6))(timed())), ("slice(all)", lambda: timed()[:]),
        ("intersect(self)", lambda: (lambda e: e.intersect(e))(ep())), ("union(self)", lambda: (lambda e: e.union(e))(ep())),
        ("x+0", lambda: series() + 0), ("np.asarray->Tsd", lambda: (lambda x: np.positive(x))(series())),
        ("group[all keys]", lambda: (lambda g: g[list(g.keys())])(pk("group"))),
        ("count", lambda: timed().count(R.choice([1.0, 2.5]), ep())),
        ("count(nobin)", lambda: timed().count(ep=ep())),
        ("group.count", lambda: pk("group").count(2.0)),
        ("bin_average", lambda: series().bin_average(R.choice([1.0, 4.0]), ep())),
        ("value_from", lambda: timed().value_from(pk("tsd"), ep(), mode=R.choice(["closest", "before", "after"]))),
        ("group.value_from", lambda: pk("group").value_from(pk("tsd"))),
        ("interpolate", lambda: pk("tsd").interpolate(pk("ts"), ep())),
        ("threshold", lambda: pk("tsd").threshold(0.0, R.choice(["above", "below"]))),
        ("dropna", lambda: series().dropna()),
        ("convolve", lambda: series().convolve(pk("kernel"), trim=R.choice(["both", "left", "right"]))),
        ("convolve(ep)", lambda: pk("tsd").convolve(pk("kernel"), ep())),
        ("smooth", lambda: pk("tsd").smooth(1.0, size_factor=4)),
        ("find_support", lambda: timed().find_support(2.0)),
        ("get", lambda: timed().get(10.0, 50.0)),
        ("get_slice", lambda: timed().get_slice(10.0, 50.0)),
        ("slice", lambda: timed()[2:20:2]),
        ("mask", lambda: (lambda x: x[np.arange(len(x)) % 2 == 0])(timed())),
        ("frame[:, cols]", lambda: pk("frame")[:, [0]]),
        ("frame.loc", lambda: (lambda f: f.loc[[f.columns[0]]])(pk("frame"))),
        ("np.abs", lambda: np.abs(series())), ("x*2", lambda: series() * 2.0), ("x+raw", lambda: (lambda x: x + np.asarray(x.values))(series())),
        ("np.sum(axis0)", lambda: np.sum(series(), axis=0)), ("np.cumsum", lambda: np.cumsum(series(), axis=0)), ("np.mean(axis1)", lambda: np.mean(pk("frame"), axis=1)),
        ("np.concatenate", lambda: (lambda x: np.concatenate((x[0:5], x[5:9])))(series())), ("np.array_split", lambda: np.array_split(series(), 3)),
        ("np.sort(values)", lambda: np.sort(np.asarray(pk("tsd")))), ("np.clip", lambda: np.clip(series(), -0.5, 0.5)),
        ("union", lambda: ep().union(ep())), ("intersect", lambda: ep().intersect(ep())), ("set_diff", lambda: ep().set_diff(ep())),
        ("drop_short", lambda: ep().drop_short_intervals(5.0)), ("drop_long", lambda: ep().drop_long_intervals(25.0)),
        ("merge_close", lambda: ep().merge_close_intervals(15.0)), ("split", lambda: ep().split(7.0)), ("time_span", lambda: ep().time_span()),
        ("iset[idx]", lambda: ep()[0:2]), ("in_interval", lambda: ep().in_interval(timed())), ("tot_length", lambda: ep().tot_length()),
        ("as_units", lambda: ep().as_units("ms")), ("tsd.as_units", lambda: pk("tsd").as_units("ms")), ("as_dataframe", lambda: pk("frame").as_dataframe()),
        ("group[list]", lambda: (lambda g: g[list(g.keys())[:2]])(pk("group"))), ("group.getby_threshold", lambda: pk("group").getby_threshold("rate", 0.0)),
        ("group.merge", lambda: (lambda g: nap.TsGroup.merge_group(g, nap.TsGroup({99: nap.Ts(np.array([1.0, 2.0]))}, time_support=g.time_support),
                                                                    ignore_metadata=True))(pk("group"))),
        ("group.merge(reset_index)", lambda: (lambda g: nap.TsGroup.merge_group(g, nap.TsGroup({99: nap.Ts(np.array([1.0, 2.0]))}, time_support=g.time_support),
                                                                                 reset_index=True, ignore_metadata=True))(pk("group"))),
        ("group.merge(reset_index,meta)", lambda: (lambda g: nap.TsGroup.merge_group(g, g, reset_index=True, ignore_metadata=False))(pk("group"))),
        ("group.merge(reset_support)", lambda: (lambda g: g.merge(nap.TsGroup({98: nap.Ts(np.array([1.0, 500.0]))}), reset_time_support=True,
                                                                   ignore_metadata=True))(pk("group"))),
        ("group.to_tsd", lambda: pk("group").to_tsd()), ("tsd.to_tsgroup", lambda: (lambda x: nap.Tsd(x.t, np.arange(len(x)) % 3, time_support=x.time_support).to_tsgroup())(pk("ts"))),
        ("group.get", lambda: pk("group").get(5.0, 60.0)), ("group.trial_count", lambda: pk("group").trial_count(ep(), 2.0)),
        ("trial_count", lambda: pk("ts").trial_count(ep(), 2.0)), ("to_trial_tensor", lambda: pk("tsd").to_trial_tensor(ep())),
        ("autocorrelogram", lambda: nap.compute_autocorrelogram(pk("group"), 0.5, 4.0)),
        ("crosscorrelogram", lambda: nap.compute_crosscorrelogram(pk("group"), 0.5, 4.0, ep())),
        ("eventcorrelogram", lambda: nap.compute_eventcorrelogram(pk("group"), pk("ts"), 0.5, 4.0)),
        ("perievent", lambda: nap.compute_perievent(pk("ts"), pk("ts"), (2.0, 3.0))),
        ("perievent(group)", lambda: nap.compute_perievent(pk("group"), pk("ts"), 2.0)),
        ("perievent_continuous", lambda: nap.compute_perievent_continuous(pk("tsd"), pk("ts"), (2.0, 2.0))),
        ("event_trigger_average", lambda: nap.compute_event_trigger_average(pk("group"), pk("tsd"), 1.0, (2.0, 2.0))),
        ("tuning_1d", lambda: nap.compute_1d_tuning_curves(pk("group"), pk("tsd"), 4)),
        ("tuning_1d(minmax)", lambda: nap.compute_1d_tuning_curves(pk("group"), pk("tsd"), 4, ep=ep(), minmax=(-2.0, 2.0))),
        ("tuning_2d", lambda: nap.compute_2d_tuning_curves(pk("group"), pk("frame")[:, 0:2], 3)),
        ("tuning_discrete", lambda: nap.compute_discrete_tuning_curves(pk("group"), {0: ep(), 1: ep()})),
        ("tuning_continuous", lambda: nap.compute_1d_tuning_curves_continuous(pk("frame"), pk("tsd"), 4)),
        ("decode_1d", lambda: (lambda g: nap.decode_1d(pk("tc").loc[:, [k for k in pk("tc").columns if k in g.keys()]] if False else pk("tc"),
                                                        g, nap.IntervalSet(0.0, 100.0), 5.0))(P.objs[8][1])),
        ("lowpass(butter)", lambda: nap.apply_lowpass_filter(P.objs[5][1], 0.3, fs=2.0, mode="butter")),
        ("highpass(sinc)", lambda: nap.apply_highpass_filter(P.objs[5][1], 0.3, fs=2.0, mode="sinc")),
        ("bandpass(sinc)", lambda: nap.apply_bandpass_filter(P.objs[6][1], (0.1, 0.4), fs=2.0, mode="sinc")),
        ("bandstop(butter)", lambda: nap.apply_bandstop_filter(P.objs[7][1], (0.1, 0.4), fs=2.0, mode="butter")),
        ("filter_frequency_response", lambda: nap.get_filter_frequency_response(0.3, 2.0, "highpass", "sinc")),
        ("compute_fft", lambda: nap.compute_fft(P.objs[5][1], fs=2.0)), ("compute_psd", lambda: nap.compute_power_spectral_density(P.objs[6][1], fs=2.0)),
        ("mean_psd", lambda: nap.compute_mean_power_spectral_density(P.objs[5][1], 10.0, fs=2.0)),
        ("shift", lambda: nap.shift_timestamps(pk("ts"), 1.0, 5.0)), ("jitter", lambda: nap.jitter_timestamps(pk("group"), 0.5)),
        ("resample", lambda: nap.resample_timestamps(pk("ts"))), ("shuffle", lambda: nap.shuffle_ts_intervals(pk("ts"))),
        ("build_tensor", lambda: nap.build_tensor(pk("tsd"), ep())), ("warp_tensor", lambda: nap.warp_tensor(pk("ts"), ep(), 5)),
        ("save", lambda: (lambda x: x.save(os.path.join(tmp, "s_%d.npz" % R.randrange(10**6))))(pk(R.choice(["ts", "tsd", "frame", "group", "iset"])))),
        # caller-owned raw arguments (unsorted key / index / timestamp arrays, label lists, dicts) stay as they were
        ("arg:group[key array]", lambda: (lambda g: with_args(lambda ka: g[ka], rev_keys(g)))(pk("group"))),
        ("arg:group[key list]", lambda: (lambda g: with_args(lambda ka: g[ka], list(rev_keys(g))))(pk("group"))),
        ("arg:group[mask]", lambda: (lambda g: with_args(lambda m: g[m], np.arange(len(g)) % 2 == 0))(pk("group"))),
        ("arg:x[index array]", lambda: (lambda x: with_args(lambda ix: x[ix], np.array([7, 2, 5, 2])))(timed())),
        ("arg:frame.loc[labels]", lambda: (lambda f: with_args(lambda lab: f.loc[lab], list(f.columns)[::-1]))(pk("frame"))),
        ("arg:frame[:, index array]", lambda: (lambda f: with_args(lambda ix: f[:, ix], np.arange(f.shape[1])[::-1].copy()))(pk("frame"))),
        ("arg:Ts(unsorted t)", lambda: with_args(lambda t: nap.Ts(t), np.array([5.0, 1.0, 3.0, 2.0, 9.0]))),
        ("arg:Tsd(unsorted t, d)", lambda: with_args(lambda t, d: nap.Tsd(t, d), np.array([5.0, 1.0, 3.0, 2.0, 9.0]), np.arange(5.0))),
        ("arg:TsdFrame(unsorted t, d, support)", lambda: with_args(lambda t, d: nap.TsdFrame(t, d, time_support=ep()), np.array([50.0, 10.0, 30.0, 20.0, 90.0]), np.arange(10.0).reshape(5, 2))),
        ("arg:IntervalSet(unsorted)", lambda: with_args(lambda a, b: nap.IntervalSet(start=a, end=b), np.array([40.0, 0.0, 10.0, 10.0]), np.array([60.0, 12.0, 20.0, 10.0]))),
        ("arg:IntervalSet(pairs)", lambda: with_args(lambda a: nap.IntervalSet(a), np.array([[40.0, 60.0], [0.0, 12.0], [10.0, 20.0]]))),
        ("arg:TsGroup(arrays)", lambda: with_args(lambda d: nap.TsGroup(d), {4: np.array([3.0, 1.0, 2.0]), 1: np.array([9.0, 8.0, 30.0])})),
        ("arg:set_info(array)", lambda: (lambda g: with_args(lambda v: g[list(g.keys())].set_info(tag=v), np.arange(len(g))[::-1].copy()))(pk("group"))),
        ("arg:restrict(iset from arrays)", lambda: (lambda x: with_args(lambda a, b: x.restrict(nap.IntervalSet(a, b)), np.array([50.0, 0.0]), np.array([80.0, 20.0])))(timed())),
        ("arg:discrete tuning(dict)", lambda: with_args(lambda d: nap.compute_discrete_tuning_curves(pk("group"), d), {0: ep(), 1: ep()})),
        ("arg:tuning minmax", lambda: with_args(lambda mm: nap.compute_1d_tuning_curves(pk("group"), pk("tsd"), 4, minmax=mm), np.array([-2.0, 2.0]))),
        ("arg:get_by_category", lambda: (lambda g: g.getby_category("grp") if "grp" in g.metadata_columns else None)(pk("group"))),
        ("copy-construct", lambda: (lambda x: nap.Tsd(x.index, x.values, time_support=x.time_support))(pk("tsd"))),
        ("TsGroup(members)", lambda: (lambda a, b: nap.TsGroup({0: a, 5: b}))(pk("ts"), pk("ts"))),
        ("TsdFrame(values)", lambda: (lambda x: nap.TsdFrame(x.t, x.values, columns=list(x.columns), time_support=x.time_support))(pk("frame"))),
    ]
    return O


def history(ctx, k, L, tmp):
    rng = ctx.rng
    npr = np.random.RandomState(ctx.seed * 1000 + k)
    P = Pool(rng, npr)
    ops = operations(P, tmp)
    names = []
    for step in range(L):
        name, f = rng.choice(ops)
        before = [snap(o) for _, o in P.objs]
        nobj = len(P.objs)
        st = np.random.get_state()
        try:
            with np.errstate(all="ignore"):
                r = f()
            err = None
        except ArgMutated as e:
            names.append(name)
            ctx.fail("oracle", "operation %s changed a raw argument of the caller: %s" % (name, e), dict(level="argument", history=list(names), seed_offset=k))
            return
        except Exception as e:
            r, err = None, e
        names.append(name)
        ctx.case((name,), None)
        ctx.count("op:" + name if err is None else "raised:" + name)
        after = [snap(o) for _, o in P.objs[:nobj]]
        for i, (b, a) in enumerate(zip(before, after)):
            if a != b:
                kind = P.objs[i][0]
                ctx.fail("oracle", "operation %s changed a live %s (pool index %d%s)" % (name, kind, i, ", raised %r" % err if err else ""),
                         dict(level="frame", history=list(names), seed_offset=k), impl=type(P.objs[i][1]).__name__)
                # repair the pool so that one defect is not reported at every later step
                return
        if err is None:
            # a result that IS an argument, or shares its data buffer with a live object, lets a later item assignment on
            # the result change an object the caller did not address
            if name not in ("copy-construct", "TsGroup(members)", "TsdFrame(values)", "save"):
                for res in _flatten(r):
                    for j, (kd, o) in enumerate(P.objs[:nobj]):
                        if kd in ("kernel", "arr", "rawresult", "tc", "pd"):
                            continue
                        if res is o or _shares(res, o):
                            ctx.fail("oracle", "result of %s is / shares its data buffer with live %s (pool index %d)" % (name, kd, j),
                                     dict(level="alias", history=list(names), seed_offset=k), impl=type(res).__name__)
                            return
            # the hypothesis of `frozen_history` (PynProps/C10.lean): the start/end array of every IntervalSet reachable from a result
            # (itself, a time support, a member's support) and every time index is handed out frozen
            for res in _flatten(r):
                bad = _unfrozen(res)
                if bad:
                    ctx.fail("oracle", "result of %s carries a writeable %s" % (name, bad), dict(level="frozen", history=list(names), seed_offset=k),
                             impl=type(res).__name__)
                    return
            P.add(r)
    # mutation isolation: item assignment / set_info on one object changes that object only
    cands = [(i, o) for i, (kd, o) in enumerate(P.objs) if kd in ("tsd", "frame") and len(o) > 3]
    if cands:
        i, o = rng.choice(cands)
        before = [snap(x) for _, x in P.objs]
        try:
            o[0] = 12345.0
            if isinstance(o, nap.TsdFrame):
                o.set_info(extra_meta=np.arange(o.shape[1]))
        except Exception as e:
            ctx.fail("oracle", "item assignment / set_info raised %r" % (e,), dict(level="mutation", history=list(names)))
            return
        after = [snap(x) for _, x in P.objs]
        ctx.case(("mutation", P.objs[i][0]))
        if after[i] == before[i]:
            ctx.fail("oracle", "item assignment had no effect", dict(level="mutation", history=list(names)))
        for j, (b, a) in enumerate(zip(before, after)):
            if j != i and a != b and P.objs[j][0] != "rawresult":
                ctx.fail("oracle", "item assignment / set_info on pool object %d also changed object %d (%s)" % (i, j, P.objs[j][0]),
                         dict(level="mutation", history=list(names), seed_offset=k))
    gi = [(i, o) for i, (kd, o) in enumerate(P.objs) if kd in ("iset", "group")]
    if gi:
        i, o = rng.choice(gi)
        before = [snap(x) for _, x in P.objs]
        try:
            o.set_info(tagged=np.arange(len(o)))
        except Exception as e:
            ctx.fail("oracle", "set_info raised %r" % (e,), dict(level="mutation", history=list(names))); return
        after = [snap(x) for _, x in P.objs]
        ctx.case(("set_info", P.objs[i][0]))
        for j, (b, a) in enumerate(zip(before, after)):
            # objects that legitimately CONTAIN the addressed one (a series whose support it is) are the same object
            if j != i and a != b and not _contains(P.objs[j][1], o):
                ctx.fail("oracle", "set_info on pool object %d (%s) also changed object %d (%s)" % (i, P.objs[i][0], j, P.objs[j][0]),
                         dict(level="mutation", history=list(names), seed_offset=k))


def _unfrozen(o, depth=0):
    """name of the first writeable start/end array or time index reachable from o (None when all are frozen)"""
    if isinstance(o, nap.IntervalSet):
        return "IntervalSet.values" if o.values.flags.writeable else "IntervalSet.index / columns" if (o.index.flags.writeable or o.columns.flags.writeable) else None
    if isinstance(o, nap.TsGroup):
        if o.index.flags.writeable:
            return "TsGroup.index"
        for k in o.keys():
            b = _unfrozen(o[k], depth + 1)
            if b:
                return "member %s: %s" % (k, b)
        return _unfrozen(o.time_support, depth + 1)
    if isinstance(o, (nap.Ts, nap.Tsd, nap.TsdFrame, nap.TsdTensor)):
        if np.asarray(o.index).flags.writeable or o.index.values.flags.writeable or o.t.flags.writeable:
            return "time index"
        return _unfrozen(o.time_support, depth + 1)
    return None


def _flatten(r):
    if isinstance(r, (tuple, list)):
        return [y for x in r for y in _flatten(x)]
    if isinstance(r, dict):
        return [y for x in r.values() for y in _flatten(x)]
    return [r] if isinstance(r, (nap.Ts, nap.Tsd, nap.TsdFrame, nap.TsdTensor, nap.TsGroup)) else []


def _shares(a, b):
    if isinstance(a, nap.TsGroup) or isinstance(b, nap.TsGroup):
        ga = [a[k] for k in a.keys()] if isinstance(a, nap.TsGroup) else [a]
        gb = [b[k] for k in b.keys()] if isinstance(b, nap.TsGroup) else [b]
        return any(_shares(x, y) for x in ga for y in gb if not (isinstance(x, nap.TsGroup) or isinstance(y, nap.TsGroup)))
    va, vb = getattr(a, "values", None), getattr(b, "values", None)
    if isinstance(a, nap.IntervalSet) or isinstance(b, nap.IntervalSet):
        return False
    if isinstance(va, np.ndarray) and isinstance(vb, np.ndarray) and va.size and vb.size:
        return bool(np.shares_memory(va, vb))
    return False


def _contains(holder, o):
    if getattr(holder, "time_support", None) is o:
        return True
    if isinstance(holder, nap.TsGroup):
        return any(holder[k].time_support is o for k in holder.keys()) or holder.time_support is o
    return False


def rejections(ctx):
    ep = nap.IntervalSet(start=[0.0, 10.0], end=[5.0, 20.0], metadata={"lab": ["a", "b"]})
    ts = nap.Ts(np.arange(10.0))
    tsd = nap.Tsd(np.arange(10.0), np.arange(10.0))
    fr = nap.TsdFrame(np.arange(10.0), np.ones((10, 2)), columns=["a", "b"], metadata={"m": [1, 2]})
    tn = nap.TsdTensor(np.arange(10.0), np.ones((10, 2, 2)))
    g = nap.TsGroup({1: nap.Ts(np.arange(5.0)), 2: nap.Ts(np.arange(3.0))}, metadata={"q": [1, 2]})
    def setattr_(o, n, v):
        return lambda: setattr(o, n, v)
    def setitem_(o, k, v):
        return lambda: o.__setitem__(k, v)
    A = [("IntervalSet[0]=", ep, setitem_(ep, 0, 1.0)), ("IntervalSet[0,0]=", ep, setitem_(ep, (0, 0), 1.0)),
         ("IntervalSet['start']=", ep, setitem_(ep, "start", np.array([1.0, 2.0]))), ("IntervalSet['end']=", ep, setitem_(ep, "end", np.array([1.0, 2.0]))),
         ("IntervalSet.start=", ep, setattr_(ep, "start", np.array([1.0, 2.0]))), ("IntervalSet.end=", ep, setattr_(ep, "end", np.array([9.0, 12.0]))),
         ("IntervalSet.values=", ep, setattr_(ep, "values", np.zeros((2, 2)))), ("IntervalSet.index=", ep, setattr_(ep, "index", np.arange(2))),
         ("IntervalSet.columns=", ep, setattr_(ep, "columns", ["x", "y"])), ("IntervalSet[slice]=", ep, setitem_(ep, slice(0, 1), 3.0)),
         ("IntervalSet.shape=", ep, setattr_(ep, "shape", (1, 2))),
         ("Ts.index=", ts, setattr_(ts, "index", np.arange(10.0))), ("Ts.t=", ts, setattr_(ts, "t", np.arange(10.0))),
         ("Ts.time_support=", ts, setattr_(ts, "time_support", ep)), ("Ts.rate=", ts, setattr_(ts, "rate", 3.0)),
         ("Ts.index[0]=", ts, setitem_(ts.index, 0, 5.0)), ("Ts.index[:]=", ts, setitem_(ts.index, slice(None), 5.0)),
         ("Tsd.index=", tsd, setattr_(tsd, "index", np.arange(10.0))), ("Tsd.values=", tsd, setattr_(tsd, "values", np.zeros(10))),
         ("Tsd.time_support=", tsd, setattr_(tsd, "time_support", ep)), ("Tsd.rate=", tsd, setattr_(tsd, "rate", 1.0)),
         ("Tsd.index[0]=", tsd, setitem_(tsd.index, 0, 5.0)), ("Tsd.dtype=", tsd, setattr_(tsd, "dtype", np.int64)),
         ("Tsd.d=", tsd, setattr_(tsd, "d", np.zeros(10))), ("Tsd.t=", tsd, setattr_(tsd, "t", np.zeros(10))),
         ("TsdFrame.columns=", fr, setattr_(fr, "columns", ["x", "y"])), ("TsdFrame.index=", fr, setattr_(fr, "index", np.arange(10.0))),
         ("TsdFrame.values=", fr, setattr_(fr, "values", np.zeros((10, 2)))), ("TsdFrame.time_support=", fr, setattr_(fr, "time_support", ep)),
         ("TsdFrame.rate=", fr, setattr_(fr, "rate", 1.0)), ("TsdFrame.index[0]=", fr, setitem_(fr.index, 0, 9.0)),
         ("TsdTensor.values=", tn, setattr_(tn, "values", np.zeros((10, 2, 2)))), ("TsdTensor.index=", tn, setattr_(tn, "index", np.arange(10.0))),
         ("TsdTensor.time_support=", tn, setattr_(tn, "time_support", ep)),
         ("TsGroup.index=", g, setattr_(g, "index", np.array([5, 6]))), ("TsGroup.time_support=", g, setattr_(g, "time_support", ep)),
         ("TsGroup.rates=", g, setattr_(g, "rates", [1.0, 2.0])), ("TsGroup.rate=", g, setattr_(g, "rate", [1.0, 2.0])),
         ("TsGroup['rate']=", g, setitem_(g, "rate", [1.0, 2.0])), ("TsGroup.data=", g, setattr_(g, "data", {})),
         ("TsGroup.set_info(rate)", g, lambda: g.set_info(rate=[1.0, 2.0])), ("TsGroup.keys=", g, setattr_(g, "keys", None)),
         ("TsGroup.nap_class=", g, setattr_(g, "nap_class", "x")), ("Tsd.nap_class=", tsd, setattr_(tsd, "nap_class", "x")),
         # members cannot be removed in place either (the keys, the index and the metadata rows go together)
         ("del TsGroup[k]", g, lambda: g.__delitem__(1)), ("TsGroup.pop(k)", g, lambda: g.pop(2)), ("TsGroup.popitem()", g, lambda: g.popitem()),
         ("TsGroup.clear()", g, lambda: g.clear()), ("TsGroup[new key]=", g, setitem_(g, 9, nap.Ts(np.arange(3.0)))),
         ("TsGroup.update()", g, lambda: g.update({9: nap.Ts(np.arange(3.0))}))]
    # writes THROUGH what the accessors return (augmented assignment runs the in-place operation on the returned array before the
    # container's own __setitem__ / __setattr__ gets to refuse), and into the arrays behind the time index and the support
    def ex(code, **env):
        return lambda: exec(code, dict(env, np=np))
    A += [("IntervalSet[:,0]+=", ep, ex("ep[:, 0] += 7.0", ep=ep)), ("IntervalSet.start+=", ep, ex("ep.start += 7.0", ep=ep)),
          ("IntervalSet['start']+=", ep, ex("ep['start'] += 7.0", ep=ep)), ("IntervalSet.end-=", ep, ex("ep.end -= 1.0", ep=ep)),
          ("IntervalSet.values[0,0]=", ep, ex("ep.values[0, 0] = 3.0", ep=ep)), ("IntervalSet.start[0]=", ep, ex("ep.start[0] = 3.0", ep=ep)),
          ("IntervalSet['end'][1]=", ep, ex("ep['end'][1] = 0.0", ep=ep)), ("IntervalSet[:,1][0]=", ep, ex("ep[:, 1][0] = -1.0", ep=ep)),
          ("np.add(out=IntervalSet.start)", ep, ex("np.add(ep.start, 1.0, out=ep.start)", ep=ep)),
          ("Ts.t[0]=", ts, ex("x.t[0] = 9.0", x=ts)), ("Tsd.t[0]=", tsd, ex("x.t[0] = 9.0", x=tsd)),
          ("Tsd.index.values[0]=", tsd, ex("x.index.values[0] = 9.0", x=tsd)), ("TsdFrame.t[-1]=", fr, ex("x.t[-1] = 0.0", x=fr)),
          ("np.asarray(Tsd.index)[0]=", tsd, ex("np.asarray(x.index)[0] = 9.0", x=tsd)),
          ("Tsd.time_support.values[0,0]=", tsd, ex("x.time_support.values[0, 0] = 2.0", x=tsd)),
          ("TsGroup.time_support.start[0]=", g, ex("x.time_support.start[0] = 2.0", x=g)),
          # key / row-label / column-name arrays
          ("TsGroup.index[0]=", g, ex("x.index[0] = 99", x=g)), ("TsGroup.metadata_index[0]=", g, ex("x.metadata_index[0] = 99", x=g)),
          ("IntervalSet.index[0]=", ep, ex("ep.index[0] = 5", ep=ep)), ("IntervalSet.columns[0]=", ep, ex("ep.columns[0] = 'zzz'", ep=ep)),
          ("IntervalSet.metadata_index[0]=", ep, ex("ep.metadata_index[0] = 4", ep=ep))]
    for name, o, act in A:
        ctx.case(("reject", name))
        b = snap(o)
        try:
            act()
            raised = False
        except Exception:
            raised = True
        if not raised:
            ctx.fail("oracle", "assignment %s was accepted" % name, dict(level="rejection", attempt=name))
        if snap(o) != b:
            ctx.fail("oracle", "assignment %s changed the object" % name, dict(level="rejection", attempt=name))
    # the metadata property is a copy
    for o in (ep, fr, g):
        b = snap(o)
        m = o.metadata
        try:
            m.iloc[0, 0] = 99
        except Exception:
            m.iloc[0, 0] = "zz"
        m["new"] = 1
        if snap(o) != b:
            ctx.fail("oracle", "writing into the frame returned by .metadata changed the %s" % type(o).__name__, dict(level="rejection", attempt="metadata copy"))
        ctx.case(("metadata-copy", type(o).__name__))


def run(ctx):
    tmp = os.path.join(WORK, "C10-%d" % os.getpid())
    shutil.rmtree(tmp, ignore_errors=True); os.makedirs(tmp)
    try:
        rejections(ctx)
        n, L = (60, 25) if ctx.quick else (600, 60)
        for k in range(n):
            history(ctx, k, L, tmp)
    finally:
        shutil.rmtree(tmp, ignore_errors=True)


def replay(ctx, rec):
    print("re-executing the recorded run of `./check C10 quick` with VERIF_SEED=%s; failing input: %s" % (rec.get("seed"), rec.get("input")))
    return None

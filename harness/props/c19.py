"""C19 — spectral estimates are the DFT of the epoch's samples and conserve power."""
import numpy as np
from ..common import ns_arr
from ..impl import nap

RULE = ("compute_fft / compute_power_spectral_density: Tsd and TsdFrame signals of every length 1..24 (quick) sampled on a dyadic rate, on the "
        "whole support and on a strict sub-epoch (samples on the epoch ends), fs given and inferred, n smaller / equal / larger than the "
        "length and omitted, full and one-sided, norm on/off: values == the O(n^2) DFT definition of exactly the samples inside the epoch "
        "(cropped / zero-padded to n) within 1e-9, index == sorted fftfreq == the Lean model's sorted bins x fs/n, Parseval (full-range PSD "
        "x frequency step == mean square of the n-point signal), one-sided rows == the model's kept rows and doubled exactly where the "
        "model says; compute_mean_power_spectral_density == average of Hamming-windowed periodograms of the equal-length overlapping "
        "segments strictly inside the epochs, recomputed independently (segments from the formula, brute-force slices), one or many "
        "epochs, interval sizes and overlaps in [0,1); _overlap_split == Lean model.  distinct = distinct configurations")
PROVED = ("parseval (every N, every complex signal), psd_conserves_power, fftfreqIdx_get, sortedBins_spec (row of bin k holds FFT output "
          "k mod n; strictly increasing; even and odd n), onesided_kept, onesided_doubling, nPoint_get"
          "; overlapSplit_mem (the segments of the mean PSD are exactly the windows start_k + j*step .. + L ending strictly before the end of "
          "their epoch)")
NOT_PROVED = ("the float FFT (NumPy; compared with the definition within tolerance), which samples enter (C03), Hamming-windowed segment "
              "average and segment count (oracle + _overlap_split model correspondence)")
ASSUMPTIONS = ["fs > 0"]


def dft(x, n):
    x = np.asarray(x, dtype=float)
    xn = np.zeros((n,) + x.shape[1:])
    m = min(n, len(x))
    xn[:m] = x[:m]
    j = np.arange(n)
    W = np.exp(-2j * np.pi * np.outer(j, j) / n)
    return np.tensordot(W, xn, axes=(1, 0)), xn


def parse_bins(s):
    return [] if s == "-" else [tuple(int(v) for v in r.split(":")) for r in s.split(",")]


def fft_cases(ctx):
    rng = ctx.rng
    npr = np.random.RandomState(ctx.seed + 19)
    maxlen = 24 if ctx.quick else 64
    want_bins = {}
    for L in range(1, maxlen + 1):
        for variant in range(3 if ctx.quick else 6):
            fs = float(rng.choice([1, 2, 8, 64, 256]))
            t = np.arange(L + 6) / fs + rng.choice([0.0, 5.0, -3.0])
            frame = (variant % 3 == 2)
            vals = npr.randn(L + 6, 2) if frame else npr.randn(L + 6)
            sig = nap.TsdFrame(t, vals) if frame else nap.Tsd(t, vals)
            sub = (variant % 2 == 1)
            ep = nap.IntervalSet(t[3], t[3 + L - 1]) if sub else None          # L samples, both ends on samples
            inside = vals[3:3 + L] if sub else vals
            length = len(inside)
            give_fs = fs if variant % 2 == 0 else None
            for n in (None, max(1, length - 2), length, length + 3):
                for full in (True, False):
                    nn = length if n is None else n
                    inp = dict(level="fft", length=length, n=n, fs=fs, fs_given=give_fs is not None, sub_epoch=sub, frame=frame, full_range=full)
                    ctx.case(("fft", length, n, fs, sub, frame, full, give_fs is None), inp if (L, variant, n, full) == (7, 1, None, True) else None)
                    ctx.count("n_%s_len" % ("lt" if nn < length else "eq" if nn == length else "gt")); ctx.count("parity_%s" % ("even" if nn % 2 == 0 else "odd"))
                    if give_fs is None and length < 2:
                        continue
                    fs_eff = fs if give_fs is not None else sig.rate
                    kw = dict(full_range=full)
                    if give_fs is not None:
                        kw["fs"] = give_fs
                    if ep is not None:
                        kw["ep"] = ep
                    if n is not None:
                        kw["n"] = n
                    try:
                        F = nap.compute_fft(sig, **kw)
                        P = nap.compute_power_spectral_density(sig, **kw)
                        Fn = nap.compute_fft(sig, norm=True, **kw)
                    except Exception as e:
                        ctx.fail("oracle", "compute_fft / psd raised %r" % (e,), inp); continue
                    X, xn = dft(inside, nn)
                    want_bins.setdefault(nn, None)
                    bins = [k if k < (nn + 1) // 2 else k - nn for k in range(nn)]        # numpy layout
                    order = sorted(range(nn), key=lambda i: bins[i])
                    rows = [(bins[i], i) for i in order if full or bins[i] >= 0]
                    freqs = np.array([b * fs_eff / nn for b, _ in rows])
                    if len(F.index) != len(rows) or not np.allclose(F.index.values, freqs, rtol=1e-9, atol=1e-9):
                        ctx.fail("oracle", "index != sorted fftfreq (kept rows)", inp, impl=F.index.values.tolist(), expected=freqs.tolist()); continue
                    ref = np.array([X[i] for _, i in rows]).reshape(len(rows), -1)
                    got = F.values.reshape(len(rows), -1)
                    if not np.allclose(got, ref, rtol=1e-9, atol=1e-9):
                        ctx.fail("oracle", "compute_fft != DFT of exactly the samples inside the epoch", inp,
                                 impl=float(np.max(np.abs(got - ref))))
                    if not np.allclose(Fn.values.reshape(len(rows), -1), ref / nn, rtol=1e-9, atol=1e-9):
                        ctx.fail("oracle", "norm=True is not division by the transform length", inp)
                    psd_ref = (np.abs(ref) ** 2) / (fs_eff * nn)
                    if not full:
                        dbl = np.array([b != 0 and 2 * b < nn for b, _ in rows])
                        psd_ref[dbl] *= 2
                    gp = P.values.reshape(len(rows), -1)
                    if not np.allclose(gp, psd_ref, rtol=1e-9, atol=1e-12):
                        ctx.fail("oracle", "PSD != |DFT|^2/(fs n) with exactly the positive non-Nyquist rows doubled", inp,
                                 impl=float(np.max(np.abs(gp - psd_ref))))
                    if full:
                        lhs = gp.sum(0) * (fs_eff / nn)
                        rhs = (xn.reshape(nn, -1) ** 2).mean(0)
                        if not np.allclose(lhs, rhs, rtol=1e-9, atol=1e-12):
                            ctx.fail("oracle", "Parseval: sum(PSD) x df != mean square of the n-point signal", inp, impl=lhs.tolist(), expected=rhs.tolist())
    # model correspondence of the bookkeeping for every transform length met
    ns_ = sorted(want_bins)
    out = ctx.lean.run(["fftbins %d" % n for n in ns_]) if ctx.lean else None
    if out is not None:
        for n, o in zip(ns_, out):
            m = parse_bins(o)
            sup = nap.IntervalSet(-1.0, n + 1.0)
            F = nap.compute_fft(nap.Tsd(np.arange(n) / 4.0, np.arange(n, dtype=float), time_support=sup), fs=4.0, full_range=True, n=n)
            P1 = nap.compute_power_spectral_density(nap.Tsd(np.arange(n) / 4.0, np.cos(np.arange(n) * 1.3) + 2.0, time_support=sup), fs=4.0, full_range=False, n=n)
            Pf = nap.compute_power_spectral_density(nap.Tsd(np.arange(n) / 4.0, np.cos(np.arange(n) * 1.3) + 2.0, time_support=sup), fs=4.0, full_range=True, n=n)
            impl_bins = [int(round(f * n / 4.0)) for f in F.index.values]
            if impl_bins != [b for b, _, _, _ in m]:
                ctx.fail("corr", "sorted frequency rows != model sortedBins", dict(level="bins", n=n), impl=impl_bins, model=m); continue
            kept = [int(round(f * n / 4.0)) for f in P1.index.values]
            if kept != [b for b, _, k, _ in m if k]:
                ctx.fail("corr", "one-sided rows != model", dict(level="bins", n=n), impl=kept, model=m); continue
            full_by_bin = dict(zip(impl_bins, Pf.values.ravel()))
            for b, v in zip(kept, P1.values.ravel()):
                d = [dd for bb, _, _, dd in m if bb == b][0]
                ratio_ok = np.isclose(v, (2 if d else 1) * full_by_bin[b], rtol=1e-9, atol=1e-15)
                if not ratio_ok:
                    ctx.fail("corr", "one-sided doubling of bin %d != model" % b, dict(level="bins", n=n), impl=[float(v), float(full_by_bin[b])], model=d)


def long_transforms(ctx):
    """the one-sided doubling for LONG transforms (bin spacing fs/n far below any relative tolerance): every strictly positive
    non-Nyquist bin - decided by integer bin arithmetic, 0 < k and 2k != n - is doubled, the others are not"""
    npr = np.random.RandomState(ctx.seed + 1919)
    for L, n, fs in ((2000, 2**18, 1000.0), (2000, 2**18 + 1, 1000.0), (1500, 200001, 250.0), (300001, None, 500.0), (4000, 300000, 30000.0),
                     # frequency step below 1e-6 Hz (slow signals, long zero padding): no absolute margin is small enough
                     (100, 2**21, 1.0), (20000, None, 0.01), (20001, None, 0.01),
                     # a sampling rate given as a NumPy 32-bit integer (read from a file header): fs * n exceeds 2**31
                     (80000, None, np.int32(30000))):
        x = npr.randn(L)
        sig = nap.Tsd(np.arange(L) / fs, x)
        inp = dict(level="long-transform", length=L, n=n, fs=float(fs), fs_type=type(fs).__name__)
        ctx.case(("long", L, n, fs), inp)
        kw = {} if n is None else dict(n=n)
        nn = L if n is None else n
        P1 = nap.compute_power_spectral_density(sig, fs=fs, full_range=False, **kw)
        Pf = nap.compute_power_spectral_density(sig, fs=fs, full_range=True, **kw)
        kf = np.rint(Pf.index.values * nn / fs).astype(np.int64)
        k1 = np.rint(P1.index.values * nn / fs).astype(np.int64)
        if list(k1) != list(kf[kf >= 0]):
            ctx.fail("oracle", "one-sided PSD rows are not the non-negative bins of the full range (n=%d)" % nn, inp, impl=[int(k1[0]), int(k1[-1]), len(k1)])
            continue
        full = Pf.values.ravel()[kf >= 0]
        factor = np.where((k1 > 0) & (2 * k1 != nn), 2.0, 1.0)
        bad = np.nonzero(~np.isclose(P1.values.ravel(), factor * full, rtol=1e-9, atol=0.0))[0]
        if len(bad):
            ctx.fail("oracle", "one-sided PSD: bin %d of %d (f=%.6f) is x%.3f of the full-range value, expected x%d" %
                     (int(k1[bad[-1]]), nn, float(P1.index.values[bad[-1]]), float(P1.values.ravel()[bad[-1]] / full[bad[-1]]), int(factor[bad[-1]])),
                     dict(inp, bad_bins=[int(v) for v in k1[bad][:8]]))
        # Parseval on the full range for the long transform
        xn = np.zeros(nn); xn[:min(L, nn)] = x[:min(L, nn)]
        if not np.isclose(Pf.values.sum() * (fs / nn), (xn ** 2).mean(), rtol=1e-9):
            ctx.fail("oracle", "Parseval fails for the long transform", inp)


def long_mean_psd(ctx):
    """the same one-sided doubling rule for compute_mean_power_spectral_density with long / slowly sampled segments"""
    npr = np.random.RandomState(ctx.seed + 1920)
    for L, N, fs in ((45000, 20000, 0.01), (45000, 20001, 0.01), (600000, 262144, 1000.0)):
        sig = nap.Tsd(np.arange(L) / fs, npr.randn(L))
        inp = dict(level="long-mean-psd", length=L, segment_samples=N, fs=fs)
        ctx.case(("longmean", L, N, fs), inp)
        P1 = nap.compute_mean_power_spectral_density(sig, N / fs, fs=fs, full_range=False)
        Pf = nap.compute_mean_power_spectral_density(sig, N / fs, fs=fs, full_range=True)
        nn = len(Pf)
        kf = np.rint(Pf.index.values * nn / fs).astype(np.int64)
        k1 = np.rint(P1.index.values * nn / fs).astype(np.int64)
        if list(k1) != list(kf[kf >= 0]):
            ctx.fail("oracle", "one-sided mean PSD rows are not the non-negative bins of the full range", inp, impl=[len(k1), len(kf)])
            continue
        full = Pf.values.ravel()[kf >= 0]
        factor = np.where((k1 > 0) & (2 * k1 != nn), 2.0, 1.0)
        bad = np.nonzero(~np.isclose(P1.values.ravel(), factor * full, rtol=1e-9, atol=0.0))[0]
        if len(bad):
            ctx.fail("oracle", "one-sided mean PSD: bin %d of %d is x%.3f of the full-range value, expected x%d" %
                     (int(k1[bad[-1]]), nn, float(P1.values.ravel()[bad[-1]] / full[bad[-1]]), int(factor[bad[-1]])),
                     dict(inp, bad_bins=[int(v) for v in k1[bad][:8]]))


def mean_psd_cases(ctx, n_cases):
    rng = ctx.rng
    npr = np.random.RandomState(ctx.seed + 191)
    from scipy import signal as sg
    lines, metas = [], []
    for c in range(n_cases):
        fs = float(rng.choice([4, 8, 64]))
        ne = rng.randint(1, 3)
        t, st, en, cur = [], [], [], rng.randint(0, 20)
        for _ in range(ne):
            L = rng.randint(10, 60)
            tt = cur + np.arange(L)
            t += list(tt); st.append(tt[0]); en.append(tt[-1]); cur = tt[-1] + rng.randint(3, 30)
        tq = np.array(t)
        frame = (c % 3 == 0)
        size_q = rng.choice([4, 6, 8, 16])                    # interval size in samples (dyadic in seconds)
        # number of columns: 2, or exactly the number of samples per segment / the segment length (shapes where a wrong axis broadcasts silently)
        ncol = [2, size_q + 1, size_q, 3][(c // 3) % 4]
        vals = npr.randn(len(tq), ncol) if frame else npr.randn(len(tq))
        ep = nap.IntervalSet(start=np.array(st) / fs, end=np.array(en) / fs)
        sig = nap.TsdFrame(tq / fs, vals, time_support=ep) if frame else nap.Tsd(tq / fs, vals, time_support=ep)
        ov_num = rng.choice([0, 1, 2, 3])                      # overlap = ov_num / 4
        overlap = ov_num / 4.0
        full = (c % 2 == 0)
        inp = dict(level="mean_psd", fs=fs, epochs=list(zip(map(int, st), map(int, en))), interval_samples=size_q, overlap=overlap, frame=frame, full_range=full)
        ctx.case(("m", fs, tuple(st), tuple(en), size_q, ov_num, frame, full), inp if c % 41 == 0 else None)
        # independent recomputation: segments s + j(1-ov)L while s + j(1-ov)L + L < e
        segs = []
        step4 = (4 - ov_num) * size_q          # step in quarter-samples
        for s, e in zip(st, en):
            j = 0
            while 4 * s + j * step4 + 4 * size_q < 4 * e:
                segs.append(((4 * s + j * step4) / 4.0, (4 * s + j * step4) / 4.0 + size_q)); j += 1
        lines.append("ovsplit %s %s %d %d" % (",".join(str(4 * int(s)) for s in st), ",".join(str(4 * int(e)) for e in en), 4 * size_q, step4))
        if max(e - s for s, e in zip(st, en)) < size_q:
            expect = "raise"
        else:
            sl = [np.nonzero((tq >= a) & (tq <= b))[0] for a, b in segs]
            N = min((len(i) for i in sl), default=0)
            expect = "raise" if (not segs or N == 0) else None
        try:
            P = nap.compute_mean_power_spectral_density(sig, size_q / fs, fs=fs, overlap=overlap, full_range=full)
            got_raise = False
        except (RuntimeError, ValueError) as e:
            got_raise = True
        metas.append((inp, segs))
        if expect == "raise" or got_raise:
            if (expect == "raise") != got_raise:
                ctx.fail("oracle", "mean PSD: error behaviour differs (expected %s, raised %s)" % (expect, got_raise), inp)
            continue
        w = sg.windows.hamming(N)
        acc = 0
        for i in sl:
            seg = vals[i][:N]
            X = np.fft.fft(seg * (w[:, None] if frame else w), axis=0)
            acc = acc + np.abs(X) ** 2 / (fs * N)
        acc = acc / len(sl)
        bins = [k if k < (N + 1) // 2 else k - N for k in range(N)]
        order = sorted(range(N), key=lambda i: bins[i])
        rows = [(bins[i], i) for i in order if full or bins[i] >= 0]
        ref = np.array([acc[i] for _, i in rows]).reshape(len(rows), -1)
        if not full:
            dbl = np.array([b != 0 and 2 * b < N for b, _ in rows])
            ref[dbl] *= 2
        got = P.values.reshape(len(P), -1)
        if got.shape != ref.shape or not np.allclose(got, ref, rtol=1e-9, atol=1e-12) or \
                not np.allclose(P.index.values, [b * fs / N for b, _ in rows]):
            ctx.fail("oracle", "mean PSD != average of Hamming-windowed periodograms of the %d segments strictly inside the epochs" % len(segs), inp,
                     impl=got.shape, expected=ref.shape)
    out = ctx.lean.run(lines) if ctx.lean else None
    if out is not None:
        for (inp, segs), o in zip(metas, out):
            m = [] if o == "-" else [tuple(int(v) / 4.0 for v in p.split(":")) for p in o.split(",")]
            if m != [(a, b) for a, b in segs]:
                ctx.fail("corr", "_overlap_split model != segment formula", inp, impl=segs, model=m)


def run(ctx):
    fft_cases(ctx)
    long_transforms(ctx)
    long_mean_psd(ctx)
    mean_psd_cases(ctx, 150 if ctx.quick else 2000)


def replay(ctx, rec):
    print("re-executing the recorded run of `./check C19 quick` with VERIF_SEED=%s; failing input: %s" % (rec.get("seed"), rec.get("input")))
    return None

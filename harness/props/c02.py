"""C02 — union / intersect / set_diff are the Boolean set operations on the time line."""
import numpy as np
from ..common import enc, dec, ns
from .. import gen
from ..impl import nap, J, farr, iset, iset_ns, is_canonical_ns

RULE = ("kernel level: ALL ordered pairs of canonical sets with <=3 intervals on the grid {0..7} (quick: 129^2=16641 pairs; "
        "thorough adds <=4 intervals on {0..8} sampled), three compiled kernels + jitunion_isets, compared with the model and "
        "with the pointwise Boolean oracle on the half-integer grid; API level: seeded pairs at scales 1us/2us/1ms/1s, "
        "pointwise oracle for instants farther than 1us from every endpoint, endpoint provenance, commutativity, A op A, "
        "A op empty, duration identities within 1us per junction, TsGroup n-ary union. distinct = distinct ordered pairs")
PROVED = ("END TO END for the public operations (constructor o kernel = ISet.union / intersect / diff, the functions the driver runs): "
          "ISet_union_pointwise, ISet_intersect_pointwise, ISet_diff_pointwise - for canonical A, B and every instant farther than 1 us "
          "from every endpoint of A and B, membership in the result is (in A or in B), (in A and in B), (in A and not in B); corollaries "
          "ISet_union_comm, ISet_intersect_comm. Built from: kernel pointwise theorems union_pointwise / intersect_pointwise / "
          "diff_pointwise (+ intersect_entries, _sound, _positive, _pairs_complete, _complete; diff_entries, _subset, _complete, "
          "_between, _avoids; unionIsets_mem for the n-ary kernel), 'every endpoint of a result is an endpoint of an operand, no interval "
          "inverted' (jitunion_entries, jitintersect_entries, jitdiff_entries), and C01 mk_sound / mk_complete")
NOT_PROVED = ("duration identities |A u B| + |A n B| = |A| + |B| etc. (they follow from the pointwise statements only up to the 1 us slivers): "
              "decided by the exhaustive order-type correspondence and the oracle")
ASSUMPTIONS = ["operands are canonical (C01)"]


def member(x2, st, en):
    """x2 = 2*x (half-integer grid); closed intervals"""
    return any(2 * s <= x2 <= 2 * e for s, e in zip(st, en))


def pointwise(A, B, R, op, lo, hi, skip):
    """compare on all half-integers of [lo,hi] that are not in `skip` (set of doubled points)"""
    for x2 in range(2 * lo - 1, 2 * hi + 2):
        if x2 in skip:
            continue
        a, b, r = member(x2, *A), member(x2, *B), member(x2, *R)
        want = (a or b) if op == "union" else (a and b) if op == "intersect" else (a and not b)
        if r != want:
            return x2 / 2
    return None


def kernel_level(ctx, pairs):
    lines, impl = [], []
    for (A, B) in pairs:
        s1, e1, s2, e2 = (farr(v, 10**9) for v in (A[0], A[1], B[0], B[1]))
        i_s, i_e, i_m = J.jitintersect(s1, e1, s2, e2)
        u_s, u_e = J.jitunion(s1, e1, s2, e2)
        d_s, d_e, d_m = J.jitdiff(s1, e1, s2, e2)
        impl.append(dict(intersect=([ns(v) // 10**9 for v in i_s], [ns(v) // 10**9 for v in i_e], [tuple(map(int, r)) for r in i_m]),
                         union=([ns(v) // 10**9 for v in u_s], [ns(v) // 10**9 for v in u_e]),
                         diff=([ns(v) // 10**9 for v in d_s], [ns(v) // 10**9 for v in d_e], [int(v) for v in d_m])))
        a = "%s %s %s %s" % (enc(A[0]), enc(A[1]), enc(B[0]), enc(B[1]))
        lines += ["intersect " + a, "union " + a, "diff " + a]
    out = ctx.lean.run(lines) if ctx.lean else None
    for n, (A, B) in enumerate(pairs):
        inp = dict(level="kernel", A=A, B=B)
        ctx.case(("k", tuple(A[0]), tuple(A[1]), tuple(B[0]), tuple(B[1])), inp if n % 5003 == 11 else None)
        r = impl[n]
        ends2 = set(2 * v for v in A[0] + A[1] + B[0] + B[1])
        for op, key in (("intersect", "intersect"), ("union", "union"), ("set_diff", "diff")):
            R = r[key][:2]
            bad = pointwise(A, B, R, op, -11, 9, ends2)
            if bad is not None:
                ctx.fail("oracle", "kernel %s wrong at x=%s" % (op, bad), inp, impl=R)
            if not all(v in (A[0] + A[1] + B[0] + B[1]) for v in R[0] + R[1]):
                ctx.fail("oracle", "kernel %s: endpoint not an operand endpoint" % op, inp, impl=R)
            if not (all(s < e for s, e in zip(*R)) and all(R[1][i] <= R[0][i + 1] for i in range(len(R[0]) - 1))):
                ctx.fail("oracle", "kernel %s: output not sorted/separated" % op, inp, impl=R)
        # parents (metadata indices) contain the output interval
        for (s, e, (i, j)) in zip(*r["intersect"]):
            if not (A[0][i] <= s and e <= A[1][i] and B[0][j] <= s and e <= B[1][j]):
                ctx.fail("oracle", "intersect parent indices do not contain the interval", inp, impl=r["intersect"])
        for (s, e, i) in zip(*r["diff"]):
            if not (A[0][i] <= s and e <= A[1][i]):
                ctx.fail("oracle", "set_diff parent index does not contain the interval", inp, impl=r["diff"])
        if out is not None:
            o = out[3 * n].split("|")
            mi = (dec(o[0]), dec(o[1]), [] if o[2] == "-" else [tuple(int(v) for v in p.split(":")) for p in o[2].split(",")])
            o = out[3 * n + 1].split("|"); mu = (dec(o[0]), dec(o[1]))
            o = out[3 * n + 2].split("|"); md = (dec(o[0]), dec(o[1]), dec(o[2]))
            if mi != r["intersect"]:
                ctx.fail("corr", "jitintersect != model", inp, impl=r["intersect"], model=mi)
            if mu != r["union"]:
                ctx.fail("corr", "jitunion != model", inp, impl=r["union"], model=mu)
            if md != r["diff"]:
                ctx.fail("corr", "jitdiff != model", inp, impl=r["diff"], model=md)


def dur(st, en):
    return sum(e - s for s, e in zip(st, en))


def api_level(ctx, n, sets):
    for k in range(n):
        A = ctx.rng.choice(sets); B = ctx.rng.choice(sets) if k % 7 else A
        if k % 11 == 0:
            B = ([], [])
        if k % 3 == 0:
            off = -ctx.rng.choice([4, 9])
            A2 = ([v + off for v in A[0]], [v + off for v in A[1]])
            B = A2 if B is A else ([v + off for v in B[0]], [v + off for v in B[1]])
            A = A2
        sc = ctx.rng.choice([1000, 2000, 10**6, 10**9])
        inp = dict(level="api", A=A, B=B, scale_ns=sc)
        ctx.case(("a", tuple(A[0]), tuple(A[1]), tuple(B[0]), tuple(B[1]), sc))
        a, b = iset(A[0], A[1], sc), iset(B[0], B[1], sc)
        check_pair(ctx, inp, a, b, same=(A is B), emptyB=(not B[0]))


def check_pair(ctx, inp, a, b, same=False, emptyB=False):
    an, bn = iset_ns(a), iset_ns(b)
    ends = an[0] + an[1] + bn[0] + bn[1]
    res = {"union": a.union(b), "intersect": a.intersect(b), "set_diff": a.set_diff(b)}
    rn = {k_: iset_ns(v) for k_, v in res.items()}
    probes = set()
    for p in ends:
        probes.update([p - 1001, p + 1001])
    for p, q in zip(sorted(set(ends)), sorted(set(ends))[1:]):
        probes.add((p + q) // 2)
    probes = [x for x in probes if all(abs(x - p) > 1000 for p in ends)]
    mem = lambda x, S: any(s <= x <= e for s, e in zip(*S))
    for op, R in rn.items():
        for x in probes:
            ia, ib = mem(x, an), mem(x, bn)
            want = (ia or ib) if op == "union" else (ia and ib) if op == "intersect" else (ia and not ib)
            if mem(x, R) != want:
                ctx.fail("oracle", "%s wrong at x=%d ns" % (op, x), inp, impl=R); break
        if not is_canonical_ns(*R):
            ctx.fail("oracle", "%s result not canonical" % op, inp, impl=R)
        if not all(v in ends or (v + 1000) in ends for v in R[0] + R[1]):
            ctx.fail("oracle", "%s endpoint is not an operand endpoint (or one reduced by 1us)" % op, inp, impl=R)
    if iset_ns(b.union(a)) != rn["union"]:
        ctx.fail("oracle", "union not commutative", inp, impl=[rn["union"], iset_ns(b.union(a))])
    if iset_ns(b.intersect(a)) != rn["intersect"]:
        ctx.fail("oracle", "intersect not commutative", inp, impl=[rn["intersect"], iset_ns(b.intersect(a))])
    if same:
        if rn["union"] != an or rn["intersect"] != an or rn["set_diff"] != ([], []):
            ctx.fail("oracle", "A op A identities", inp, impl=rn)
    if emptyB:
        if rn["union"] != an or rn["intersect"] != ([], []) or rn["set_diff"] != an:
            ctx.fail("oracle", "A op empty identities", inp, impl=rn)
    junctions = len(ends) + 1
    lhs = dur(*rn["union"]) + dur(*rn["intersect"]); rhs = dur(*an) + dur(*bn)
    if abs(lhs - rhs) > 1000 * junctions:
        ctx.fail("oracle", "|A u B| + |A n B| != |A| + |B|", inp, impl=[lhs, rhs])
    lhs = dur(*rn["set_diff"]); rhs = dur(*an) - dur(*rn["intersect"])
    if abs(lhs - rhs) > 1000 * junctions:
        ctx.fail("oracle", "|A - B| != |A| - |A n B|", inp, impl=[lhs, rhs])




def near_equal(ctx, n):
    """operands that are almost the same set: B = A with endpoints moved by 0 .. 20 ms, at small and LARGE times
    (a tolerance-based shortcut `A ~ B => A` would be wrong by more than the 1 us the property allows)"""
    rng = ctx.rng
    for k in range(n):
        T = rng.choice([0, 3600, 90000]) * 10**9
        m = rng.randint(1, 4)
        pts, cur = [], T + rng.randint(0, 10**9)
        for _ in range(m):
            L = rng.choice([10**6, 5 * 10**7, 10**9, 7 * 10**9])
            gap = rng.choice([10**6, 10**8, 3 * 10**9])
            pts.append((cur, cur + L)); cur += L + gap
        deltas = [0, 2000, -2000, 50000, -50000, 3 * 10**6, -3 * 10**6, 2 * 10**7, -2 * 10**7]
        bs = []
        for (s_, e_) in pts:
            s2 = s_ + rng.choice(deltas); e2 = e_ + rng.choice(deltas)
            bs.append((s2, e2))
        if not all(x < y for x, y in bs) or not all(bs[i][1] < bs[i + 1][0] for i in range(len(bs) - 1)):
            continue
        A = ([p[0] for p in pts], [p[1] for p in pts]); B = ([p[0] for p in bs], [p[1] for p in bs])
        inp = dict(level="api-near-equal", A=A, B=B, scale_ns=1)
        ctx.case(("ne", tuple(A[0]), tuple(A[1]), tuple(B[0]), tuple(B[1])))
        check_pair(ctx, inp, iset(A[0], A[1], 1), iset(B[0], B[1], 1), same=False, emptyB=False)


def nary(ctx, n, sets):
    lines, meta = [], []
    for k in range(n):
        m = ctx.rng.randint(3, 5)
        off = ctx.rng.choice([0, -9])
        S = [(lambda s_: ([v + off for v in s_[0]], [v + off for v in s_[1]]))(ctx.rng.choice([s for s in sets if s[0]])) for _ in range(m)]
        sc = ctx.rng.choice([1000, 10**9])
        inp = dict(level="nary", sets=S, scale_ns=sc)
        ctx.case(("n", repr(S), sc))
        members = {}
        for i, (st, en) in enumerate(S):
            ep = iset(st, en, sc)
            members[i] = nap.Ts(farr([st[0]], sc), time_support=ep)
        g = nap.TsGroup(members)
        R = iset_ns(g.time_support)
        pts = sorted(set(v * sc for st, en in S for v in st + en))
        mem = lambda x, s: any(a <= x <= b for a, b in zip(*s))
        for p, q in zip(pts, pts[1:]):
            x = (p + q) // 2
            if all(abs(x - v) > 1000 for v in pts):
                want = any(mem(x, ([a * sc for a in st], [b * sc for b in en])) for st, en in S)
                if mem(x, R) != want:
                    ctx.fail("oracle", "TsGroup n-ary union wrong at x=%d" % x, inp, impl=R); break
        # kernel correspondence (argsort by start done in the harness as np.argsort does; stable for ties is not required
        # because the model result does not depend on the order of equal starts)
        st = [v * sc for s_, _ in S for v in s_]; en = [v * sc for _, e_ in S for v in e_]
        order = sorted(range(len(st)), key=lambda i: (st[i], en[i]))
        ks, ke = J.jitunion_isets(farr(st, 1), farr(en, 1))
        lines.append("unionisets %s %s" % (enc([st[i] for i in order]), enc([en[i] for i in order])))
        meta.append((inp, ([ns(v) for v in ks], [ns(v) for v in ke])))
    out = ctx.lean.run(lines) if ctx.lean else None
    if out is not None:
        for (inp, got), o in zip(meta, out):
            a, b = o.split("|")
            if (dec(a), dec(b)) != got:
                ctx.fail("corr", "jitunion_isets != model", inp, impl=got, model=(dec(a), dec(b)))


def run(ctx):
    near_equal(ctx, 400 if ctx.quick else 5000)
    sets = gen.canonical_sets(7, 3)
    sh = lambda S, o: ([v + o for v in S[0]], [v + o for v in S[1]])
    # every second pair is translated to negative times (buffers are zero-initialised: sign matters)
    pairs = [((A, B) if (i + j) % 2 else (sh(A, -9), sh(B, -9))) for i, A in enumerate(sets) for j, B in enumerate(sets)]
    if not ctx.quick:
        big = gen.canonical_sets(8, 4)
        pairs += [(ctx.rng.choice(big), ctx.rng.choice(big)) for _ in range(150000)]
    kernel_level(ctx, pairs)
    api_level(ctx, 1500 if ctx.quick else 20000, sets)
    nary(ctx, 150 if ctx.quick else 2000, sets)


def replay(ctx, rec):
    n0 = len(ctx.failures)
    i = rec["input"]
    if i.get("level") == "kernel":
        kernel_level(ctx, [(tuple(map(list, i["A"])), tuple(map(list, i["B"])))])
    else:
        return None      # main re-executes the recorded run
    for f in ctx.failures[n0:]:
        print(f["kind"], f["what"], "impl=", f["impl"], "model=", f["model"])
    return len(ctx.failures) == n0
